import SluProofs.Lemmas.RoundingLU
/-
An executable rounded LU in ANY arithmetic obeying the standard model, and the proof that its
output satisfies the hypothesis `LUComputed` of the backward-error theorems — for every size, every
matrix, every `FlModel` (so the hypotheses are inhabited well beyond exact arithmetic, and the
bound holds for this algorithm with no hypothesis other than nonzero pivots).

`doolittle M A s` = the factors after `s` stages; stage `k` fills row `k` of `Û`
(`û_kj = fl-left-to-right(a_kj - Σ_{t<k} l̂_kt û_tj)`) and column `k` of `L̂`
(`l̂_ik = fl(fl-left-to-right(a_ik - Σ_{t<k} l̂_it û_tk) * fl(1/û_kk))`, SuperLU's scaling).
-/
set_option linter.unusedSectionVars false
namespace Slu.Rounding
open Finset

variable {F : Type} [Field F] [LinearOrder F] [IsStrictOrderedRing F]

/-- row `k` of `Û` from the factors so far -/
def urow (M : FlModel F) (A L U : Nat → Nat → F) (k j : Nat) : F :=
  leftEval M (A k j) ((List.range k).map fun t => (L k t, U t j))

/-- column `k` of `L̂` from the factors so far and the pivot `p = û_kk` -/
def lcol (M : FlModel F) (A L U : Nat → Nat → F) (p : F) (k i : Nat) : F :=
  M.mul (leftEval M (A i k) ((List.range k).map fun t => (L i t, U t k))) (M.div 1 p)

def doolittle (M : FlModel F) (A : Nat → Nat → F) : Nat → (Nat → Nat → F) × (Nat → Nat → F)
  | 0 => (fun i j => if i = j then 1 else 0, fun _ _ => 0)
  | k + 1 =>
    let LU := doolittle M A k
    (fun i j => if j = k ∧ k < i then lcol M A LU.1 LU.2 (urow M A LU.1 LU.2 k k) k i else LU.1 i j,
     fun i j => if i = k ∧ k ≤ j then urow M A LU.1 LU.2 k j else LU.2 i j)

section frames
variable (M : FlModel F) (A : Nat → Nat → F)

theorem dl_L_succ (s i j : Nat) : (doolittle M A (s + 1)).1 i j =
    if j = s ∧ s < i then lcol M A (doolittle M A s).1 (doolittle M A s).2
      (urow M A (doolittle M A s).1 (doolittle M A s).2 s s) s i else (doolittle M A s).1 i j := rfl

theorem dl_U_succ (s i j : Nat) : (doolittle M A (s + 1)).2 i j =
    if i = s ∧ s ≤ j then urow M A (doolittle M A s).1 (doolittle M A s).2 s j
    else (doolittle M A s).2 i j := rfl

/-- columns `< s` of `L̂` are final after stage `s` -/
theorem dl_L_stable {s s' : Nat} (h : s ≤ s') (i j : Nat) (hj : j < s) :
    (doolittle M A s').1 i j = (doolittle M A s).1 i j := by
  induction s' with
  | zero => have : s = 0 := by omega
            subst this; rfl
  | succ s' ih =>
    rcases Nat.eq_or_lt_of_le h with rfl | hlt
    · rfl
    · rw [dl_L_succ, if_neg (by omega)]; exact ih (by omega)

/-- rows `< s` of `Û` are final after stage `s` -/
theorem dl_U_stable {s s' : Nat} (h : s ≤ s') (i j : Nat) (hi : i < s) :
    (doolittle M A s').2 i j = (doolittle M A s).2 i j := by
  induction s' with
  | zero => have : s = 0 := by omega
            subst this; rfl
  | succ s' ih =>
    rcases Nat.eq_or_lt_of_le h with rfl | hlt
    · rfl
    · rw [dl_U_succ, if_neg (by omega)]; exact ih (by omega)

/-- columns `≥ s` of `L̂` are still those of the identity -/
theorem dl_L_untouched (s i j : Nat) (hj : s ≤ j) :
    (doolittle M A s).1 i j = if i = j then 1 else 0 := by
  induction s with
  | zero => rfl
  | succ s ih => rw [dl_L_succ, if_neg (by omega)]; exact ih (by omega)

/-- rows `≥ s` of `Û` are still zero -/
theorem dl_U_untouched (s i j : Nat) (hi : s ≤ i) : (doolittle M A s).2 i j = 0 := by
  induction s with
  | zero => rfl
  | succ s ih => rw [dl_U_succ, if_neg (by omega)]; exact ih (by omega)

theorem dl_L_diag (s i : Nat) : (doolittle M A s).1 i i = 1 := by
  induction s with
  | zero => simp [doolittle]
  | succ s ih => rw [dl_L_succ, if_neg (by omega)]; exact ih

theorem dl_L_upper (s i t : Nat) (h : i < t) : (doolittle M A s).1 i t = 0 := by
  induction s with
  | zero => simp [doolittle]; omega
  | succ s ih => rw [dl_L_succ, if_neg (by omega)]; exact ih

theorem dl_U_lower (s t j : Nat) (h : j < t) : (doolittle M A s).2 t j = 0 := by
  induction s with
  | zero => rfl
  | succ s ih => rw [dl_U_succ, if_neg (by omega)]; exact ih

end frames

/-- **the rounded Doolittle factorization satisfies `LUComputed`** in every arithmetic obeying the
model, for every `m`, `n`, `A` with nonzero computed pivots -/
theorem doolittle_computed (M : FlModel F) (A : Nat → Nat → F) (m n : Nat)
    (hpiv : ∀ k < n, (doolittle M A n).2 k k ≠ 0) :
    LUComputed M.u m n 2 A (doolittle M A n).1 (doolittle M A n).2 where
  L_diag := fun i _ => dl_L_diag M A n i
  L_upper := fun i t h => dl_L_upper M A n i t h
  U_lower := fun t j h => dl_U_lower M A n t j h
  U_entry := by
    intro k j hkj hj
    have e : (doolittle M A n).2 k j =
        leftEval M (A k j) ((List.range k).map fun t => ((doolittle M A n).1 k t, (doolittle M A n).2 t j)) := by
      rw [dl_U_stable M A (s := k + 1) (s' := n) (by omega) k j (by omega), dl_U_succ, if_pos ⟨rfl, hkj⟩, urow]
      congr 1
      apply List.map_congr_left
      intro t ht
      have ht' : t < k := List.mem_range.mp ht
      rw [dl_L_stable M A (s := k) (s' := n) (by omega) k t ht', dl_U_stable M A (s := k) (s' := n) (by omega) t j ht']
    rw [e]
    exact dot_left M _ _
  L_entry := by
    intro i k hki _ hk
    refine ⟨.recip, le_rfl, ?_⟩
    have hp : (doolittle M A n).2 k k =
        urow M A (doolittle M A k).1 (doolittle M A k).2 k k := by
      rw [dl_U_stable M A (s := k + 1) (s' := n) (by omega) k k (by omega), dl_U_succ, if_pos ⟨rfl, le_rfl⟩]
    have e : (doolittle M A n).1 i k =
        M.mul (leftEval M (A i k) ((List.range k).map fun t => ((doolittle M A n).1 i t, (doolittle M A n).2 t k)))
          (M.div 1 ((doolittle M A n).2 k k)) := by
      rw [dl_L_stable M A (s := k + 1) (s' := n) (by omega) i k (by omega), dl_L_succ, if_pos ⟨rfl, hki⟩, lcol, ← hp]
      congr 2
      apply List.map_congr_left
      intro t ht
      have ht' : t < k := List.mem_range.mp ht
      rw [dl_L_stable M A (s := k) (s' := n) (by omega) i t ht', dl_U_stable M A (s := k) (s' := n) (by omega) t k ht']
    rw [e]
    exact dot_left_recip M _ _ _ (hpiv k hk)

/-- **end-to-end**: in ANY arithmetic obeying the standard model with `(n+1) u < 1`, the rounded
Doolittle factors satisfy `|A - L̂Û| ≤ γ_{n+1} |L̂||Û|` whenever the computed pivots are nonzero. -/
theorem doolittle_backward_error (M : FlModel F) (hu0 : 0 ≤ M.u) (A : Nat → Nat → F) (m n : Nat)
    (hpiv : ∀ k < n, (doolittle M A n).2 k k ≠ 0) (hu : ((n + 1 : Nat) : F) * M.u < 1)
    (i : Nat) (hi : i < m) (j : Nat) (hj : j < n) :
    |A i j - ∑ t ∈ range n, (doolittle M A n).1 i t * (doolittle M A n).2 t j| ≤
      gamma M.u (n + 1) * ∑ t ∈ range n, |(doolittle M A n).1 i t| * |(doolittle M A n).2 t j| :=
  lu_backward_error hu0 (doolittle_computed M A m n hpiv) (by omega) hu i hi j hj

/-! ### executable rounded substitutions -/

/-- forward substitution with a unit lower triangular `L`, stage `s` computes `y_s` -/
def fwdSub (M : FlModel F) (L : Nat → Nat → F) (b : Nat → F) : Nat → Nat → F
  | 0 => fun _ => 0
  | s + 1 => fun i =>
    if i = s then leftEval M (b s) ((List.range s).map fun t => (L s t, fwdSub M L b s t))
    else fwdSub M L b s i

theorem fwdSub_stable (M : FlModel F) (L : Nat → Nat → F) (b : Nat → F) {s s' : Nat} (h : s ≤ s')
    (i : Nat) (hi : i < s) : fwdSub M L b s' i = fwdSub M L b s i := by
  induction s' with
  | zero => have : s = 0 := by omega
            subst this; rfl
  | succ s' ih =>
    rcases Nat.eq_or_lt_of_le h with rfl | hlt
    · rfl
    · show (if i = s' then _ else fwdSub M L b s' i) = _
      rw [if_neg (by omega)]; exact ih (by omega)

theorem fwdSub_solved (M : FlModel F) (L : Nat → Nat → F) (b : Nat → F) (n : Nat)
    (hL : ∀ i < n, L i i = 1) : LowerSolved M.u n 0 L b (fwdSub M L b n) := by
  intro i hi
  refine ⟨.none, le_rfl, ?_⟩
  have e : fwdSub M L b n i =
      leftEval M (b i) ((List.range i).map fun t => (L i t, fwdSub M L b n t)) := by
    rw [fwdSub_stable M L b (s := i + 1) (s' := n) (by omega) i (by omega)]
    show (if i = i then _ else _) = _
    rw [if_pos rfl]
    congr 1
    apply List.map_congr_left
    intro t ht
    have ht' : t < i := List.mem_range.mp ht
    rw [fwdSub_stable M L b (s := i) (s' := n) (by omega) t ht']
  rw [e, hL i hi]
  exact dot_left M _ _

/-- back substitution with the upper triangular `U` (rounded divisions), stage `s` computes
`x_{n-1-s}` -/
def backSubst (M : FlModel F) (n : Nat) (U : Nat → Nat → F) (y : Nat → F) : Nat → Nat → F
  | 0 => fun _ => 0
  | s + 1 => fun i =>
    if i + (s + 1) = n then
      M.div (leftEval M (y i) ((List.range (n - (i + 1))).map fun r =>
        (U i (i + 1 + r), backSubst M n U y s (i + 1 + r)))) (U i i)
    else backSubst M n U y s i

theorem backSubst_stable (M : FlModel F) (n : Nat) (U : Nat → Nat → F) (y : Nat → F) {s s' : Nat}
    (h : s ≤ s') (i : Nat) (hi : n < i + (s + 1)) :
    backSubst M n U y s' i = backSubst M n U y s i := by
  induction s' with
  | zero => have : s = 0 := by omega
            subst this; rfl
  | succ s' ih =>
    rcases Nat.eq_or_lt_of_le h with rfl | hlt
    · rfl
    · show (if i + (s' + 1) = n then _ else backSubst M n U y s' i) = _
      rw [if_neg (by omega)]; exact ih (by omega)

theorem backSubst_solved (M : FlModel F) (n : Nat) (U : Nat → Nat → F) (y : Nat → F)
    (hU : ∀ i < n, U i i ≠ 0) : UpperSolved M.u n 1 U y (backSubst M n U y n) := by
  intro i hi
  refine ⟨.div, le_rfl, ?_⟩
  have e : backSubst M n U y n i =
      M.div (leftEval M (y i) ((List.range (n - (i + 1))).map fun r =>
        (U i (i + 1 + r), backSubst M n U y n (i + 1 + r)))) (U i i) := by
    rw [backSubst_stable M n U y (s := n - i) (s' := n) (by omega) i (by omega)]
    obtain ⟨s, hs⟩ : ∃ s, n - i = s + 1 := ⟨n - i - 1, by omega⟩
    rw [hs]
    show (if i + (s + 1) = n then _ else _) = _
    rw [if_pos (by omega)]
    congr 2
    apply List.map_congr_left
    intro r hr
    have hr' : r < n - (i + 1) := List.mem_range.mp hr
    rw [backSubst_stable M n U y (s := s) (s' := n) (by omega) (i + 1 + r) (by omega)]
  rw [e]
  exact dot_left_div M _ _ _ (hU i hi)

/-- **end-to-end solve**: rounded Doolittle, forward and back substitution in ANY arithmetic obeying
the standard model: `|b - A x̂| ≤ γ_{3n} |L̂||Û||x̂|` (Higham's Thm 9.4 constant). -/
theorem doolittle_solve_backward_error (M : FlModel F) (hu0 : 0 ≤ M.u) (A : Nat → Nat → F) (b : Nat → F)
    (n : Nat) (hpiv : ∀ k < n, (doolittle M A n).2 k k ≠ 0) (hu : ((3 * n : Nat) : F) * M.u < 1)
    (i : Nat) (hi : i < n) :
    let L := (doolittle M A n).1
    let U := (doolittle M A n).2
    let x := backSubst M n U (fwdSub M L b n) n
    |b i - ∑ j ∈ range n, A i j * x j| ≤
      gamma M.u (3 * n) * ∑ j ∈ range n, (∑ t ∈ range n, |L i t| * |U t j|) * |x j| := by
  intro L U x
  exact lu_solve_backward_error hu0 (doolittle_computed M A n n hpiv)
    (fwdSub_solved M L b n (fun i _ => dl_L_diag M A n i))
    (backSubst_solved M n U _ hpiv) (by omega) hu i hi

end Slu.Rounding
