import Slu.Model.Ledger
/-
Helper lemmas for C19: the ledger invariant is preserved by the three primitive effects
(`allocObj`, `releaseObj`, `withTemp`) and by the factorization kernel's effect.  Core only.
-/
namespace Slu.Ledger

/-- ledger invariant: no double free so far, exactly `t` call-internal blocks live, the caller's
objects are distinct, and the live blocks are exactly the blocks of the objects the caller holds -/
def Inv (t : Nat) (s : State) : Prop :=
  s.dfree = 0 ∧ s.temp = t ∧ s.handed.Nodup ∧
  ∀ o, s.live.count o = if o ∈ s.handed then o.blocks else 0

theorem count_filter_ne (o o' : Obj) (l : List Obj) :
    (l.filter (fun x => x != o)).count o' = if o' = o then 0 else l.count o' := by
  induction l with
  | nil => simp
  | cons a l ih =>
    by_cases ha : a = o
    · subst ha
      by_cases h : o' = a
      · subst h; simp [ih]
      · have : (a == o') = false := by simp; exact fun e => h e.symm
        simp [List.count_cons, ih, h, this]
    · have hne : (a != o) = true := by simp [ha]
      simp only [List.filter_cons, hne, if_true, List.count_cons, ih]
      by_cases h : o' = o
      · subst h
        have : (a == o') = false := by simp [ha]
        simp [this]
      · simp [h]

theorem inv_alloc {t : Nat} {s : State} {o : Obj} (h : Inv t s) (ho : o ∉ s.handed) :
    Inv t (allocObj o s) := by
  obtain ⟨h1, h2, h3, h4⟩ := h
  refine ⟨h1, h2, List.nodup_cons.mpr ⟨ho, h3⟩, fun o' => ?_⟩
  simp only [allocObj, List.count_append, List.count_replicate, h4 o', List.mem_cons]
  by_cases e : o' = o
  · subst e; simp [ho]
  · have : (o == o') = false := by simp; exact fun x => e x.symm
    simp [e, this]

theorem inv_release {t : Nat} {s : State} {o : Obj} (h : Inv t s) (ho : o ∈ s.handed) :
    Inv t (releaseObj o s) := by
  obtain ⟨h1, h2, h3, h4⟩ := h
  refine ⟨?_, h2, List.Pairwise.filter _ h3, fun o' => ?_⟩
  · simp [releaseObj, h1, h4 o, ho]
  · simp only [releaseObj, count_filter_ne, List.mem_filter, h4 o']
    by_cases e : o' = o
    · subst e; simp
    · simp [e]

theorem inv_withTemp {t k : Nat} {s : State} {f : State → State}
    (hf : ∀ s1, Inv (t + k) s1 → s1.handed = s.handed → Inv (t + k) (f s1))
    (h : Inv t s) : Inv t (withTemp k f s) := by
  have h0 : Inv (t + k) { s with temp := s.temp + k } := by
    obtain ⟨h1, h2, h3, h4⟩ := h
    exact ⟨h1, by simp [h2], h3, h4⟩
  obtain ⟨g1, g2, g3, g4⟩ := hf _ h0 rfl
  refine ⟨?_, ?_, g3, g4⟩
  · simp [withTemp, g1, g2]
  · simp [withTemp, g2]

theorem inv_withTemp_id {t k : Nat} {s : State} (h : Inv t s) : Inv t (withTemp k id s) :=
  inv_withTemp (fun _ h1 _ => h1) h

theorem inv_gstrfEffect {t : Nat} {s : State} (h : Nat) (fact : Fact) (ws : Bool) (out : Out)
    (hs : Inv t s)
    (hpre : fact = .sameRowPerm ∨ (Obj.facL h ws ∉ s.handed ∧ Obj.facU h ws ∉ s.handed)) :
    Inv t (gstrfEffect h fact ws out s) := by
  unfold gstrfEffect
  apply inv_withTemp _ hs
  intro s1 h1 e1
  cases out with
  | query => exact h1
  | oos => exact inv_withTemp_id h1
  | ok =>
    apply inv_withTemp _ h1
    intro s2 h2 e2
    by_cases hf : fact = .sameRowPerm
    · simp [hf]; exact h2
    · simp only [hf, if_false]
      rcases hpre with hp | ⟨hL, hU⟩
      · exact absurd hp hf
      · have hL' : Obj.facL h ws ∉ s2.handed := by rw [e2, e1]; exact hL
        refine inv_alloc (inv_alloc h2 hL') ?_
        simp only [allocObj, List.mem_cons, not_or]
        exact ⟨by simp, by rw [e2, e1]; exact hU⟩
  | singular =>
    apply inv_withTemp _ h1
    intro s2 h2 e2
    by_cases hf : fact = .sameRowPerm
    · simp [hf]; exact h2
    · simp only [hf, if_false]
      rcases hpre with hp | ⟨hL, hU⟩
      · exact absurd hp hf
      · have hL' : Obj.facL h ws ∉ s2.handed := by rw [e2, e1]; exact hL
        refine inv_alloc (inv_alloc h2 hL') ?_
        simp only [allocObj, List.mem_cons, not_or]
        exact ⟨by simp, by rw [e2, e1]; exact hU⟩

end Slu.Ledger
