import Slu.Model.Refine
import SluProofs.Lemmas.Gssvx
/-
Entrywise reading of the residual that `[sdcz]gsrfs` forms with `sp_[sdcz]gemv`
(`Slu.Refine.resid`, dsp_blas2.c:437-477): in exact arithmetic the scatter (NOTRANS) and gather
(TRANS / CONJ) folds compute `b - op(A) x`, entry by entry, for every compressed-column matrix (any
order, duplicates summed, out-of-range rows ignored as `setIfInBounds` ignores them).
-/
set_option linter.unusedSectionVars false
namespace Slu.Gssvx
open Slu Slu.Equil Slu.Lacon Slu.Refine

variable {K : Type} [CommRing K] [Inhabited K]

/-- the arithmetic record computes in the ring `K` -/
structure ArithLaws [HasConj K] (Ar : Arith K Rat) : Prop where
  kzero : Ar.kzero = 0
  add : ∀ a b, Ar.add a b = a + b
  mul : ∀ a b, Ar.mul a b = a * b
  negMul : ∀ a, Ar.negMul a = -a
  conj : ∀ a, Ar.conj a = HasConj.conj a
  isZero : ∀ a, Ar.isZero a = true → a = 0

theorem arithQ_laws : ArithLaws arithQ where
  kzero := rfl
  add _ _ := rfl
  mul _ _ := rfl
  negMul a := by simp [arithQ]
  conj _ := rfl
  isZero a h := by simpa [arithQ] using h

theorem arithQC_laws : ArithLaws arithQC where
  kzero := rfl
  add _ _ := rfl
  mul _ _ := rfl
  negMul a := by ext <;> simp [arithQC, cmul]
  conj _ := rfl
  isZero a h := by
    simp only [arithQC, Bool.and_eq_true, beq_iff_eq] at h
    ext <;> simp [h.1, h.2]

/-- the stored entries of a compressed-column matrix, column by column -/
def cscEntries (A : CSC K) : List (Entry K) :=
  (List.range A.n).flatMap fun j => (A.col j).map fun e => { row := e.1, col := j, val := e.2 }

theorem sum_flatMap_map {α β : Type} (l : List α) (f : α → List β) (g : β → K) :
    ((l.flatMap f).map g).sum = (l.map fun a => ((f a).map g).sum).sum := by
  induction l with
  | nil => simp
  | cons a t ih => simp [List.flatMap_cons, ih]

theorem sum_map_neg' {α : Type} (l : List α) (f : α → K) : (l.map fun a => -f a).sum = -(l.map f).sum := by
  induction l with
  | nil => simp
  | cons a t ih => simp only [List.map_cons, List.sum_cons, ih]; ring

theorem foldl_add_eq (l : List (Nat × K)) (f : Nat × K → K) (t0 : K) :
    l.foldl (fun t e => t + f e) t0 = t0 + (l.map f).sum := by
  induction l generalizing t0 with
  | nil => simp
  | cons a t ih => simp only [List.foldl_cons, List.map_cons, List.sum_cons, ih]; ring

theorem getD_setIfInBounds (y : Array K) (k i : Nat) (v : K) (hi : i < y.size) :
    (y.setIfInBounds k v).getD i 0 = if k = i then v else y.getD i 0 := by
  simp only [Array.getD_eq_getD_getElem?, Array.getElem?_setIfInBounds]
  split
  · rename_i h; subst h; simp [hi]
  · rfl

theorem scatter_size (t : K) (l : List (Nat × K)) (y : Array K) :
    (l.foldl (fun (y : Array K) e => y.setIfInBounds e.1 (y.getD e.1 0 + t * e.2)) y).size = y.size := by
  induction l generalizing y with
  | nil => rfl
  | cons a r ih => simp only [List.foldl_cons]; rw [ih]; simp

theorem scatter_getD (t : K) (l : List (Nat × K)) (y : Array K) (i : Nat) (hi : i < y.size) :
    (l.foldl (fun (y : Array K) e => y.setIfInBounds e.1 (y.getD e.1 0 + t * e.2)) y).getD i 0 =
      y.getD i 0 + t * (l.map fun e => if e.1 = i then e.2 else 0).sum := by
  induction l generalizing y with
  | nil => simp
  | cons a r ih =>
    simp only [List.foldl_cons, List.map_cons, List.sum_cons]
    rw [ih _ (by simpa using hi), getD_setIfInBounds _ _ _ _ hi]
    by_cases h : a.1 = i
    · simp only [h, if_true]; ring
    · simp only [h, if_false]; ring

section resid
variable [HasConj K] (Ar : Arith K Rat) (laws : ArithLaws Ar)
include laws

/-- one column of the NOTRANS scatter -/
theorem stepN_spec (A : CSC K) (x : Array K) (j : Nat) (y : Array K) :
    let y' := (let xj := x.getD j Ar.kzero
      if Ar.isZero xj then y else
      let temp := Ar.negMul xj
      (A.col j).foldl (fun (y : Array K) e => y.setIfInBounds e.1 (Ar.add (y.getD e.1 Ar.kzero) (Ar.mul temp e.2))) y)
    y'.size = y.size ∧ ∀ i < y.size, y'.getD i 0 = y.getD i 0 -
      ((A.col j).map fun e => if e.1 = i then e.2 * x.getD j 0 else 0).sum := by
  simp only [laws.kzero, laws.add, laws.mul, laws.negMul]
  split
  · rename_i hz
    have hx : x.getD j 0 = 0 := laws.isZero _ hz
    refine ⟨rfl, fun i _ => ?_⟩
    simp [hx]
  · refine ⟨scatter_size _ _ _, fun i hi => ?_⟩
    have hneg : -x.getD j 0 * ((A.col j).map fun e => if e.1 = i then e.2 else 0).sum =
        -(((A.col j).map fun e => if e.1 = i then e.2 * x.getD j 0 else 0).sum) := by
      rw [← List.sum_map_mul_left, ← sum_map_neg']
      congr 1
      apply List.map_congr_left
      intro e _
      by_cases h : e.1 = i
      · simp only [h, if_true]; ring
      · simp only [h, if_false]; ring
    rw [scatter_getD _ _ _ _ hi, hneg]; ring

theorem residN_spec (A : CSC K) (x : Array K) (js : List Nat) (y : Array K) :
    let r := js.foldl (fun (y : Array K) j =>
      let xj := x.getD j Ar.kzero
      if Ar.isZero xj then y else
      let temp := Ar.negMul xj
      (A.col j).foldl (fun (y : Array K) e => y.setIfInBounds e.1 (Ar.add (y.getD e.1 Ar.kzero) (Ar.mul temp e.2))) y) y
    r.size = y.size ∧ ∀ i < y.size, r.getD i 0 = y.getD i 0 -
      (js.map fun j => ((A.col j).map fun e => if e.1 = i then e.2 * x.getD j 0 else 0).sum).sum := by
  induction js generalizing y with
  | nil => simp
  | cons j t ih =>
    simp only [List.foldl_cons, List.map_cons, List.sum_cons]
    obtain ⟨hs, hv⟩ := stepN_spec Ar laws A x j y
    obtain ⟨hs2, hv2⟩ := ih _
    refine ⟨by rw [hs2, hs], fun i hi => ?_⟩
    rw [hv2 i (by rw [hs]; exact hi), hv i hi]
    ring

/-- one column of the TRANS / CONJ gather -/
theorem stepT_spec (cj : Bool) (A : CSC K) (x : Array K) (j : Nat) (y : Array K) :
    let y' := (let temp := (A.col j).foldl (fun temp e =>
        Ar.add temp (Ar.mul (if cj then Ar.conj e.2 else e.2) (x.getD e.1 Ar.kzero))) Ar.kzero
      y.setIfInBounds j (Ar.add (y.getD j Ar.kzero) (Ar.negMul temp)))
    y'.size = y.size ∧ ∀ i < y.size, y'.getD i 0 = y.getD i 0 -
      (if j = i then ((A.col j).map fun e => (if cj then HasConj.conj e.2 else e.2) * x.getD e.1 0).sum else 0) := by
  simp only [laws.kzero, laws.add, laws.mul, laws.negMul, laws.conj]
  refine ⟨by simp, fun i hi => ?_⟩
  rw [getD_setIfInBounds _ _ _ _ hi, foldl_add_eq]
  by_cases h : j = i
  · simp only [h, if_true]; ring
  · simp only [h, if_false]; ring

theorem residT_spec (cj : Bool) (A : CSC K) (x : Array K) (js : List Nat) (y : Array K) :
    let r := js.foldl (fun (y : Array K) j =>
      let temp := (A.col j).foldl (fun temp e =>
        Ar.add temp (Ar.mul (if cj then Ar.conj e.2 else e.2) (x.getD e.1 Ar.kzero))) Ar.kzero
      y.setIfInBounds j (Ar.add (y.getD j Ar.kzero) (Ar.negMul temp))) y
    r.size = y.size ∧ ∀ i < y.size, r.getD i 0 = y.getD i 0 -
      (js.map fun j => if j = i then ((A.col j).map fun e => (if cj then HasConj.conj e.2 else e.2) * x.getD e.1 0).sum else 0).sum := by
  induction js generalizing y with
  | nil => simp
  | cons j t ih =>
    simp only [List.foldl_cons, List.map_cons, List.sum_cons]
    obtain ⟨hs, hv⟩ := stepT_spec Ar laws cj A x j y
    obtain ⟨hs2, hv2⟩ := ih _
    refine ⟨by rw [hs2, hs], fun i hi => ?_⟩
    rw [hv2 i (by rw [hs]; exact hi), hv i hi]
    ring

/-- **the residual `gsrfs` forms is `b - op(A) x`**, entry by entry, in exact arithmetic -/
theorem resid_exact [Mag K Rat] [ScalarLaws K] (tr : Trans) (A : CSC K) (x b : Array K) :
    (resid Ar tr A x b).size = b.size ∧
    ∀ i < b.size, (resid Ar tr A x b).getD i 0 =
      b.getD i 0 - opMul (opOfTrans tr) (cscEntries A) (fun k => x.getD k 0) i := by
  have hsum : ∀ (op : Op) (i : Nat), opMul op (cscEntries A) (fun k => x.getD k 0) i =
      ((List.range A.n).map fun j => ((A.col j).map fun e =>
        opTerm op (fun k => x.getD k 0) i { row := e.1, col := j, val := e.2 }).sum).sum := by
    intro op i
    unfold opMul cscEntries
    rw [sum_flatMap_map]
    congr 1
    apply List.map_congr_left
    intro j _
    rw [List.map_map]; rfl
  cases tr
  · obtain ⟨hs, hv⟩ := residN_spec Ar laws A x (List.range A.n) b
    refine ⟨hs, fun i hi => ?_⟩
    simp only [resid]
    rw [hv i hi, opOfTrans, hsum]
    simp only [opTerm]
  · obtain ⟨hs, hv⟩ := residT_spec Ar laws false A x (List.range A.n) b
    refine ⟨by simpa [resid] using hs, fun i hi => ?_⟩
    have := hv i hi
    simp only [Bool.false_eq_true, if_false] at this
    simp only [resid, reduceCtorEq, if_false]
    rw [this, opOfTrans, hsum]
    congr 2
    apply List.map_congr_left
    intro j _
    split
    · rename_i h; subst h; simp [opTerm]
    · rename_i h; simp [opTerm, h]
  · obtain ⟨hs, hv⟩ := residT_spec Ar laws true A x (List.range A.n) b
    refine ⟨by simpa [resid] using hs, fun i hi => ?_⟩
    have := hv i hi
    simp only [if_true] at this
    simp only [resid, if_true]
    rw [this, opOfTrans, hsum]
    congr 2
    apply List.map_congr_left
    intro j _
    split
    · rename_i h; subst h; simp [opTerm]
    · rename_i h; simp [opTerm, h]

end resid
end Slu.Gssvx
