import Slu.Model.Kernels
import SluProofs.Lemmas.Kernels
import SluProofs.Lemmas.Gemv
/-
Lemmas for `sp_trsv_model` (C14): the supernodal forward / back substitution `spTrsv` (the model
that follows the loops of `sp_[sdcz]trsv`) equals the dense reference `trsvRef` on well-formed
SCformat storage.

Plan.  The dense reference obeys a recurrence (`fwd_rec`, `bwd_rec`).  Each of the four routines
(`trsvLN`, `trsvUN`, `trsvLT`, `trsvUT`) is a fold over the supernodes; for each we state the loop
invariant that links the work vector `x` to the reference solution `y` after the columns of a prefix
(resp. suffix) of the supernodes have been eliminated, and prove that one supernode step carries the
invariant from one supernode boundary to the next.  The entries the routines read (`blk`, `F.U.col`)
are identified with `decodeL` / `decodeU` by the `decodeL_*`, `decodeU_*` lemmas.
-/
set_option linter.unusedSectionVars false
set_option linter.unusedVariables false
namespace Slu.Kernels
open Finset

/-! ### generic folds -/

section folds
variable {K : Type} [Field K] [Inhabited K]

theorem foldl_sub_range (n : Nat) (g : Nat → K) (a : K) :
    (List.range n).foldl (fun acc j => acc - g j) a = a - ∑ j ∈ range n, g j := by
  induction n with
  | zero => simp
  | succ n ih =>
    rw [List.range_succ, List.foldl_append, ih, Finset.sum_range_succ]
    simp only [List.foldl_cons, List.foldl_nil]; ring

theorem foldl_sub_list {α : Type} (l : List α) (g : α → K) (a : K) :
    l.foldl (fun acc e => acc - g e) a = a - (l.map g).sum := by
  induction l generalizing a with
  | nil => simp
  | cons e l ih => simp only [List.foldl_cons, List.map_cons, List.sum_cons]; rw [ih]; ring

theorem list_range_map_sum (n : Nat) (g : Nat → K) : ((List.range n).map g).sum = ∑ j ∈ range n, g j := by
  induction n with
  | zero => simp
  | succ n ih => rw [List.range_succ, List.map_append, List.sum_append, ih, Finset.sum_range_succ]; simp

theorem getElem!_eq_getD_of_lt (a : Array K) (i : Nat) (h : i < a.size) : a[i]! = a.getD i 0 := by
  simp [Array.getElem!_eq_getD, Array.getD_eq_getD_getElem?, h]

theorem getElem!_ge (a b : Array K) (h : a.size = b.size) (p : Nat) (hp : b.size ≤ p) : a[p]! = b[p]! := by
  simp only [Array.getElem!_eq_getD, Array.getD_eq_getD_getElem?]
  rw [Array.getElem?_eq_none (by omega), Array.getElem?_eq_none hp]

/-- the only element of `range n` satisfying `P` -/
theorem filter_range_unique (n p : Nat) (P : Nat → Bool) (hp : p < n) (h : ∀ q, q < n → (P q = true ↔ q = p)) :
    (List.range n).filter P = [p] := by
  induction n with
  | zero => omega
  | succ n ih =>
    rw [List.range_succ, List.filter_append]
    by_cases hpn : p = n
    · subst hpn
      have h1 : (List.range p).filter P = [] := by
        apply List.filter_eq_nil_iff.mpr
        intro q hq
        have hq' := List.mem_range.mp hq
        intro hc
        have := (h q (by omega)).mp hc
        omega
      have h2 : P p = true := (h p (by omega)).mpr rfl
      simp [h1, h2]
    · have h1 := ih (by omega) (fun q hq => h q (by omega))
      have h2 : P n = false := by
        cases hc : P n
        · rfl
        · have := (h n (by omega)).mp hc; omega
      simp [h1, h2]

theorem filter_range_none (n : Nat) (P : Nat → Bool) (h : ∀ q, q < n → P q = false) :
    (List.range n).filter P = [] := by
  apply List.filter_eq_nil_iff.mpr
  intro q hq
  rw [h q (List.mem_range.mp hq)]; simp

/-- repeated update of ONE position `q` from other positions: `x[q] -= x[rd a] * cf a` -/
theorem foldl_gather (q : Nat) {α : Type} (l : List α) (rd : α → Nat) (cf : α → K) (x : Array K)
    (hq : q < x.size) (hne : ∀ a ∈ l, rd a ≠ q) :
    (l.foldl (fun (x : Array K) a => x.setIfInBounds q (x[q]! - x[rd a]! * cf a)) x).size = x.size ∧
    (l.foldl (fun (x : Array K) a => x.setIfInBounds q (x[q]! - x[rd a]! * cf a)) x)[q]! =
        x[q]! - (l.map fun a => x[rd a]! * cf a).sum ∧
    ∀ p, p ≠ q → (l.foldl (fun (x : Array K) a => x.setIfInBounds q (x[q]! - x[rd a]! * cf a)) x)[p]! = x[p]! := by
  induction l generalizing x with
  | nil => simp
  | cons a l ih =>
    simp only [List.foldl_cons, List.map_cons, List.sum_cons]
    have hne' : ∀ a' ∈ l, rd a' ≠ q := fun a' ha' => hne a' (List.mem_cons_of_mem _ ha')
    obtain ⟨h1, h2, h3⟩ := ih (x.setIfInBounds q (x[q]! - x[rd a]! * cf a)) (by simpa using hq) hne'
    refine ⟨by rw [h1]; simp, ?_, ?_⟩
    · rw [h2, getElem!_setIfInBounds]
      simp only [hq, and_self, if_true]
      have : (l.map fun a' => (x.setIfInBounds q (x[q]! - x[rd a]! * cf a))[rd a']! * cf a') =
          (l.map fun a' => x[rd a']! * cf a') := by
        apply List.map_congr_left
        intro a' ha'
        rw [getElem!_setIfInBounds, if_neg (fun hc => hne' a' ha' hc.1.symm)]
      rw [this]; ring
    · intro p hp
      rw [h3 p hp, getElem!_setIfInBounds, if_neg (fun hc => hp hc.1.symm)]

/-- scatter with a factor read from a position `q` that is never written: `x[pos a] -= x[q] * cf a` -/
theorem foldl_scatter (q : Nat) {α : Type} (l : List α) (pos : α → Nat) (cf : α → K) (x : Array K)
    (hne : ∀ a ∈ l, pos a ≠ q) :
    (l.foldl (fun (x : Array K) a => x.setIfInBounds (pos a) (x[pos a]! - x[q]! * cf a)) x).size = x.size ∧
    ∀ p, p < x.size → (l.foldl (fun (x : Array K) a => x.setIfInBounds (pos a) (x[pos a]! - x[q]! * cf a)) x)[p]! =
        x[p]! - x[q]! * ((l.filter fun a => pos a = p).map cf).sum := by
  induction l generalizing x with
  | nil => simp
  | cons a l ih =>
    simp only [List.foldl_cons]
    have hne' : ∀ a' ∈ l, pos a' ≠ q := fun a' ha' => hne a' (List.mem_cons_of_mem _ ha')
    have ha : pos a ≠ q := hne a List.mem_cons_self
    obtain ⟨h1, h2⟩ := ih (x.setIfInBounds (pos a) (x[pos a]! - x[q]! * cf a)) hne'
    refine ⟨by rw [h1]; simp, fun p hp => ?_⟩
    have hq : (x.setIfInBounds (pos a) (x[pos a]! - x[q]! * cf a))[q]! = x[q]! := by
      rw [getElem!_setIfInBounds, if_neg (fun hc => ha hc.1)]
    rw [h2 p (by simpa using hp), hq, getElem!_setIfInBounds]
    by_cases he : pos a = p
    · have : pos a = p ∧ pos a < x.size := ⟨he, by omega⟩
      rw [if_pos this]
      simp only [List.filter_cons, he, decide_true, if_true, List.map_cons, List.sum_cons]
      ring
    · rw [if_neg (fun hc => he hc.1)]
      simp only [List.filter_cons, he, decide_false, Bool.false_eq_true, if_false]

/-- scatter of constants: `x[pos a] -= v a` -/
theorem foldl_scatter_const {α : Type} (l : List α) (pos : α → Nat) (v : α → K) (x : Array K) :
    (l.foldl (fun (x : Array K) a => x.setIfInBounds (pos a) (x[pos a]! - v a)) x).size = x.size ∧
    ∀ p, p < x.size → (l.foldl (fun (x : Array K) a => x.setIfInBounds (pos a) (x[pos a]! - v a)) x)[p]! =
        x[p]! - ((l.filter fun a => pos a = p).map v).sum := by
  induction l generalizing x with
  | nil => simp
  | cons a l ih =>
    simp only [List.foldl_cons]
    obtain ⟨h1, h2⟩ := ih (x.setIfInBounds (pos a) (x[pos a]! - v a))
    refine ⟨by rw [h1]; simp, fun p hp => ?_⟩
    rw [h2 p (by simpa using hp), getElem!_setIfInBounds]
    by_cases he : pos a = p
    · have : pos a = p ∧ pos a < x.size := ⟨he, by omega⟩
      rw [if_pos this]
      simp only [List.filter_cons, he, decide_true, if_true, List.map_cons, List.sum_cons]
      ring
    · rw [if_neg (fun hc => he hc.1)]
      simp only [List.filter_cons, he, decide_false, Bool.false_eq_true, if_false]

end folds

/-! ### the recurrences of the dense reference -/

section recs
variable {K : Type} [Field K]

theorem fwd_rec (M : Nat → Nat → K) (d b : Nat → K) (n i : Nat) (hi : i < n) :
    (fwdSub M d b n).getD i 0 = (b i - ∑ j ∈ range i, M i j * (fwdSub M d b n).getD j 0) / d i := by
  have h1 : (fwdSub M d b n).getD i 0 = (fwdSub M d b (i + 1)).getD i 0 :=
    fwdSub_stable M d b (i + 1) n i (by omega) (by omega)
  have h2 : ∀ j ∈ range i, M i j * (fwdSub M d b n).getD j 0 = M i j * (fwdSub M d b i).getD j 0 := by
    intro j hj
    rw [fwdSub_stable M d b i n j (mem_range.mp hj) (by omega)]
  rw [Finset.sum_congr rfl h2, h1, fwdSub_last]

theorem bwd_rec (M : Nat → Nat → K) (d b : Nat → K) (n i : Nat) (hi : i < n) :
    (bwdSub M d b n n).getD i 0 = (b i - ∑ j ∈ Ico (i + 1) n, M i j * (bwdSub M d b n n).getD j 0) / d i := by
  have hk : n - (n - i - 1 + 1) = i := by omega
  have h1 : (bwdSub M d b n n).getD i 0 = (bwdSub M d b n (n - i - 1 + 1)).getD 0 0 := by
    rw [bwdSub_getD M d b n n i hi]; congr 2; omega
  have h2 : ∀ t ∈ range (n - i - 1), M i (i + 1 + t) * (bwdSub M d b n (n - i - 1)).getD t 0 =
      M i (i + 1 + t) * (bwdSub M d b n n).getD (i + 1 + t) 0 := by
    intro t ht
    have ht' := mem_range.mp ht
    rw [bwdSub_getD M d b n (n - i - 1) t ht', bwdSub_getD M d b n n (i + 1 + t) (by omega)]
    congr 3; omega
  rw [h1, bwdSub_head, hk, Finset.sum_congr rfl h2, Finset.sum_Ico_eq_sum_range]
  have : n - (i + 1) = n - i - 1 := by omega
  rw [this]

end recs

/-! ### geometry of a supernode and the decoded entries -/

section geom
variable {K : Type} [Field K] [Conj K] [Inhabited K]

/-- row subscript at position `p` of the row list of supernode `s` -/
def rowAt (L : SNode K) (s : SN) (p : Nat) : Nat := L.lsub[s.istart + p]!

/-- what the proofs need to know about supernode `k` (all consequences of `Slu.Struct.wfb`) -/
structure SnOK (F : LUFac K) (k : Nat) : Prop where
  wpos : 0 < (snode F.L k).nsupc
  hi : (snode F.L k).fsupc + (snode F.L k).nsupc = F.L.xsup[k+1]!
  le_n : F.L.xsup[k+1]! ≤ F.L.n
  supno : ∀ c, c < (snode F.L k).nsupc → F.L.supno[(snode F.L k).fsupc + c]! = k
  wle : (snode F.L k).nsupc ≤ (snode F.L k).nsupr
  lead : ∀ c, c < (snode F.L k).nsupc → rowAt F.L (snode F.L k) c = (snode F.L k).fsupc + c
  trail : ∀ p, (snode F.L k).nsupc ≤ p → p < (snode F.L k).nsupr →
    (snode F.L k).fsupc + (snode F.L k).nsupc ≤ rowAt F.L (snode F.L k) p ∧ rowAt F.L (snode F.L k) p < F.L.n
  inj : ∀ p q, (snode F.L k).nsupc ≤ p → p < (snode F.L k).nsupr → (snode F.L k).nsupc ≤ q → q < (snode F.L k).nsupr →
    rowAt F.L (snode F.L k) p = rowAt F.L (snode F.L k) q → p = q
  xlu : ∀ c, c < (snode F.L k).nsupc → F.L.xlusup[(snode F.L k).fsupc + c]! = (snode F.L k).luptr + c * (snode F.L k).nsupr
  uabove : ∀ c, c < (snode F.L k).nsupc → ∀ e ∈ F.U.col ((snode F.L k).fsupc + c), e.1 < (snode F.L k).fsupc

/-- the layout hypotheses on the whole (L, U) pair -/
structure SCLayout (F : LUFac K) : Prop where
  first : F.L.xsup[0]! = 0
  last : F.L.xsup[F.L.nsuper + 1]! = F.L.n
  sn : ∀ k, k < F.L.nsuper + 1 → SnOK F k

variable {F : LUFac K} {k : Nat}

/-- the row list is injective on all its positions -/
theorem SnOK.rowAt_inj (G : SnOK F k) (p q : Nat) (hp : p < (snode F.L k).nsupr) (hq : q < (snode F.L k).nsupr)
    (h : rowAt F.L (snode F.L k) p = rowAt F.L (snode F.L k) q) : p = q := by
  by_cases h1 : p < (snode F.L k).nsupc
  · by_cases h2 : q < (snode F.L k).nsupc
    · rw [G.lead p h1, G.lead q h2] at h; omega
    · rw [G.lead p h1] at h
      have := (G.trail q (by omega) hq).1; omega
  · by_cases h2 : q < (snode F.L k).nsupc
    · rw [G.lead q h2] at h
      have := (G.trail p (by omega) hp).1; omega
    · exact G.inj p q (by omega) hp (by omega) hq h

theorem SnOK.rowAt_lt (G : SnOK F k) (p : Nat) (hp : p < (snode F.L k).nsupr) : rowAt F.L (snode F.L k) p < F.L.n := by
  by_cases h1 : p < (snode F.L k).nsupc
  · rw [G.lead p h1]; have := G.hi; have := G.le_n; omega
  · exact (G.trail p (by omega) hp).2

theorem SnOK.fsupc_col (G : SnOK F k) (c : Nat) (hc : c < (snode F.L k).nsupc) :
    F.L.fsupc ((snode F.L k).fsupc + c) = (snode F.L k).fsupc := by
  unfold SNode.fsupc
  rw [G.supno c hc]; rfl

/-- `decodeL` below the diagonal of column `fsupc + c`, as a fold over the positions of the row list -/
theorem SnOK.decodeL_eq (G : SnOK F k) (c : Nat) (hc : c < (snode F.L k).nsupc) (i : Nat)
    (hne : i ≠ (snode F.L k).fsupc + c) :
    F.decodeL i ((snode F.L k).fsupc + c) =
      ((List.range (snode F.L k).nsupr).filter (fun p => decide (c < p ∧ rowAt F.L (snode F.L k) p = i))).foldl
        (fun acc p => acc + blk F.L (snode F.L k) p c) 0 := by
  unfold LUFac.decodeL
  rw [if_neg hne]
  have hf := G.fsupc_col c hc
  have hrows : F.L.rows ((snode F.L k).fsupc + c) =
      (List.range (snode F.L k).nsupr).map (fun d => rowAt F.L (snode F.L k) d) := by
    unfold SNode.rows SNode.nsupr
    simp only [hf]
    rfl
  have hval : ∀ p, F.L.valAt ((snode F.L k).fsupc + c) p = blk F.L (snode F.L k) p c := by
    intro p
    unfold SNode.valAt blk
    rw [G.xlu c hc]
  simp only [hrows, hf, hval, List.length_map, List.length_range]
  congr 1
  apply List.filter_congr
  intro p hp
  have hp' := List.mem_range.mp hp
  have : ((List.range (snode F.L k).nsupr).map (fun d => rowAt F.L (snode F.L k) d))[p]! = rowAt F.L (snode F.L k) p := by
    simp [hp']
  rw [this]
  have : (snode F.L k).fsupc + c - (snode F.L k).fsupc = c := by omega
  rw [this]

/-- the entry of `L` stored at position `p > c` of column `fsupc + c` -/
theorem SnOK.decodeL_hit (G : SnOK F k) (c p : Nat) (hc : c < (snode F.L k).nsupc) (hcp : c < p)
    (hp : p < (snode F.L k).nsupr) :
    F.decodeL (rowAt F.L (snode F.L k) p) ((snode F.L k).fsupc + c) = blk F.L (snode F.L k) p c := by
  have hne : rowAt F.L (snode F.L k) p ≠ (snode F.L k).fsupc + c := by
    intro h
    rw [← G.lead c hc] at h
    have := G.rowAt_inj p c hp (by have := G.wle; omega) h
    omega
  rw [G.decodeL_eq c hc _ hne, filter_range_unique _ p _ hp]
  · simp
  · intro q hq
    simp only [decide_eq_true_eq]
    constructor
    · rintro ⟨_, h⟩; exact G.rowAt_inj q p hq hp h
    · rintro rfl; exact ⟨hcp, rfl⟩

/-- rows that are not in the row list below position `c` hold a zero of `L` -/
theorem SnOK.decodeL_miss (G : SnOK F k) (c i : Nat) (hc : c < (snode F.L k).nsupc)
    (hne : i ≠ (snode F.L k).fsupc + c)
    (h : ∀ p, c < p → p < (snode F.L k).nsupr → rowAt F.L (snode F.L k) p ≠ i) :
    F.decodeL i ((snode F.L k).fsupc + c) = 0 := by
  rw [G.decodeL_eq c hc _ hne, filter_range_none]
  · simp
  · intro q hq
    simp only [decide_eq_false_iff_not, not_and]
    intro h1; exact h q h1 hq

/-- `decodeU` inside the diagonal block -/
theorem SnOK.decodeU_blk (G : SnOK F k) (r c : Nat) (hc : c < (snode F.L k).nsupc) (hrc : r ≤ c) :
    F.decodeU ((snode F.L k).fsupc + r) ((snode F.L k).fsupc + c) = blk F.L (snode F.L k) r c := by
  unfold LUFac.decodeU
  simp only [G.fsupc_col c hc]
  rw [if_neg (by omega), if_pos (by omega)]
  unfold SNode.valAt blk
  rw [G.xlu c hc]
  congr 2; omega

/-- `decodeU` above the supernode -/
theorem SnOK.decodeU_above (G : SnOK F k) (i c : Nat) (hc : c < (snode F.L k).nsupc) (hi : i < (snode F.L k).fsupc) :
    F.decodeU i ((snode F.L k).fsupc + c) = F.U.get i ((snode F.L k).fsupc + c) := by
  unfold LUFac.decodeU
  simp only [G.fsupc_col c hc]
  rw [if_pos hi]

/-- `decodeU` below the diagonal -/
theorem SnOK.decodeU_below (G : SnOK F k) (i c : Nat) (hc : c < (snode F.L k).nsupc) (hi : (snode F.L k).fsupc + c < i) :
    F.decodeU i ((snode F.L k).fsupc + c) = 0 := by
  unfold LUFac.decodeU
  simp only [G.fsupc_col c hc]
  rw [if_neg (by omega), if_neg (by omega)]

/-- `U.get` as a list sum -/
theorem Uget_eq (A : CSC K) (i j : Nat) : A.get i j = (((A.col j).filter (fun e => e.1 = i)).map (·.2)).sum := by
  unfold CSC.get
  have := foldl_if_eq_sum (A.col j) i (fun v => v) (0 : K)
  simp only [zero_add] at this
  exact this

end geom

/-! ### `trsvLN`: forward substitution with `L`, column oriented -/

section LN
variable {K : Type} [Field K] [Conj K] [Inhabited K]

/-- `dlsolve`: the first `t` rows of the unit lower solve with a dense block `B` placed at offset `f` -/
def lsolveTo (B : Nat → Nat → K) (f : Nat) (x : Array K) (t : Nat) : Array K :=
  (List.range t).foldl (fun (x : Array K) i =>
    x.setIfInBounds (f + i) ((List.range i).foldl (fun (acc : K) j => acc - x[f + j]! * B i j) x[f + i]!)) x

theorem lsolveTo_spec (B : Nat → Nat → K) (f : Nat) (x : Array K) (w : Nat) (hb : f + w ≤ x.size) (z : Nat → K)
    (hz : ∀ i, i < w → z i = x[f + i]! - ∑ j ∈ range i, z j * B i j) (t : Nat) (ht : t ≤ w) :
    (lsolveTo B f x t).size = x.size ∧ (∀ i, i < t → (lsolveTo B f x t)[f + i]! = z i) ∧
    (∀ p, (p < f ∨ f + t ≤ p) → (lsolveTo B f x t)[p]! = x[p]!) := by
  induction t with
  | zero => simp [lsolveTo]
  | succ t ih =>
    obtain ⟨h1, h2, h3⟩ := ih (by omega)
    have hstep : lsolveTo B f x (t + 1) = (lsolveTo B f x t).setIfInBounds (f + t)
        ((List.range t).foldl (fun (acc : K) j => acc - (lsolveTo B f x t)[f + j]! * B t j) (lsolveTo B f x t)[f + t]!) := by
      simp [lsolveTo, List.range_succ, List.foldl_append]
    rw [hstep]
    refine ⟨by simp [h1], ?_, ?_⟩
    · intro i hi
      rw [getElem!_setIfInBounds, h1]
      by_cases hit : i = t
      · subst hit
        rw [if_pos ⟨rfl, by omega⟩, foldl_sub_range, h3 (f + i) (Or.inr (le_refl _)), hz i (by omega)]
        congr 1
        apply Finset.sum_congr rfl
        intro j hj
        rw [h2 j (mem_range.mp hj)]
      · rw [if_neg (by omega)]
        exact h2 i (by omega)
    · intro p hp
      rw [getElem!_setIfInBounds, if_neg (by omega)]
      exact h3 p (by omega)

/-- one supernode of `trsvLN` -/
def stepLN (F : LUFac K) (s : SN) (x : Array K) : Array K :=
  let x1 := lsolveTo (blk F.L s) s.fsupc x s.nsupc
  (List.range (s.nsupr - s.nsupc)).foldl (fun (x : Array K) i =>
    let w := sumTo s.nsupc (fun j => blk F.L s (s.nsupc + i) j * x1[s.fsupc + j]!)
    let r := F.L.lsub[s.istart + s.nsupc + i]!
    x.setIfInBounds r (x[r]! - w)) x1

theorem trsvLN_eq (F : LUFac K) (x : Array K) :
    trsvLN F x = (List.range (F.L.nsuper + 1)).foldl (fun x k => stepLN F (snode F.L k) x) x := rfl

/-- state of the column-oriented forward elimination after the columns `< c` -/
def InvLN (M : Nat → Nat → K) (b y : Nat → K) (n c : Nat) (x : Array K) : Prop :=
  x.size = n ∧ (∀ i, i < c → x[i]! = y i) ∧ (∀ i, c ≤ i → i < n → x[i]! = b i - ∑ j ∈ range c, M i j * y j)

theorem stepLN_inv (F : LUFac K) (k : Nat) (G : SnOK F k) (M : Nat → Nat → K) (b y : Nat → K)
    (hM : ∀ i j, i ≠ j → M i j = F.decodeL i j)
    (hy : ∀ i, i < F.L.n → y i = b i - ∑ j ∈ range i, M i j * y j)
    (x : Array K) (hinv : InvLN M b y F.L.n (snode F.L k).fsupc x) :
    InvLN M b y F.L.n ((snode F.L k).fsupc + (snode F.L k).nsupc) (stepLN F (snode F.L k) x) := by
  obtain ⟨hs, hlo, hhi⟩ := hinv
  have g_hi := G.hi; have g_le := G.le_n; have hwr := G.wle; have g_lead := G.lead; have g_trail := G.trail
  have g_inj := G.inj; have g_hit := G.decodeL_hit; have g_miss := G.decodeL_miss
  generalize hsd : snode F.L k = s at *
  have hwn : s.fsupc + s.nsupc ≤ F.L.n := by omega
  -- phase 1
  have hz : ∀ i, i < s.nsupc → y (s.fsupc + i) = x[s.fsupc + i]! - ∑ j ∈ range i, y (s.fsupc + j) * blk F.L s i j := by
    intro i hi
    rw [hy _ (by omega), hhi _ (by omega) (by omega), Finset.sum_range_add, sub_sub]
    congr 2
    apply Finset.sum_congr rfl
    intro j hj
    have hj' := mem_range.mp hj
    rw [hM _ _ (by omega), ← g_lead i hi, g_hit j i (by omega) hj' (by omega)]
    ring
  obtain ⟨p1, p2, p3⟩ := lsolveTo_spec (blk F.L s) s.fsupc x s.nsupc (by omega) (fun i => y (s.fsupc + i)) hz s.nsupc (le_refl _)
  -- phase 2
  unfold stepLN
  dsimp only
  generalize hx1 : lsolveTo (blk F.L s) s.fsupc x s.nsupc = x1 at *
  obtain ⟨q1, q2⟩ := foldl_scatter_const (List.range (s.nsupr - s.nsupc))
    (fun i => F.L.lsub[s.istart + s.nsupc + i]!)
    (fun i => sumTo s.nsupc (fun j => blk F.L s (s.nsupc + i) j * x1[s.fsupc + j]!)) x1
  have hpos : ∀ i, F.L.lsub[s.istart + s.nsupc + i]! = rowAt F.L s (s.nsupc + i) := by
    intro i; unfold rowAt; rw [Nat.add_assoc]
  refine ⟨by rw [q1, p1, hs], ?_, ?_⟩
  · intro i hi
    rw [q2 i (by omega)]
    have : (List.range (s.nsupr - s.nsupc)).filter (fun a => decide (F.L.lsub[s.istart + s.nsupc + a]! = i)) = [] := by
      apply filter_range_none
      intro q hq
      have := (g_trail (s.nsupc + q) (by omega) (by omega)).1
      rw [hpos]
      simp only [decide_eq_false_iff_not]; omega
    rw [this]
    simp only [List.map_nil, List.sum_nil, sub_zero]
    by_cases hif : i < s.fsupc
    · rw [p3 i (Or.inl hif)]; exact hlo i hif
    · have : i = s.fsupc + (i - s.fsupc) := by omega
      rw [this, p2 _ (by omega)]
  · intro i hi hin
    rw [q2 i (by omega), p3 i (Or.inr hi), hhi i (by omega) hin, Finset.sum_range_add, sub_sub]
    congr 2
    by_cases hex : ∃ q, q < s.nsupr - s.nsupc ∧ rowAt F.L s (s.nsupc + q) = i
    · obtain ⟨q0, hq0, hr0⟩ := hex
      have : (List.range (s.nsupr - s.nsupc)).filter (fun a => decide (F.L.lsub[s.istart + s.nsupc + a]! = i)) = [q0] := by
        apply filter_range_unique _ _ _ hq0
        intro q hq
        rw [hpos]
        simp only [decide_eq_true_eq]
        constructor
        · intro h
          have := g_inj (s.nsupc + q) (s.nsupc + q0) (by omega) (by omega) (by omega) (by omega) (by rw [h, hr0])
          omega
        · rintro rfl; exact hr0
      rw [this]
      simp only [List.map_cons, List.map_nil, List.sum_cons, List.sum_nil, add_zero, sumTo_eq_sum]
      apply Finset.sum_congr rfl
      intro j hj
      have hj' := mem_range.mp hj
      rw [p2 j hj', hM _ _ (by omega), ← hr0, g_hit j (s.nsupc + q0) hj' (by omega) (by omega)]
    · have : (List.range (s.nsupr - s.nsupc)).filter (fun a => decide (F.L.lsub[s.istart + s.nsupc + a]! = i)) = [] := by
        apply filter_range_none
        intro q hq
        rw [hpos]
        simp only [decide_eq_false_iff_not]
        intro h; exact hex ⟨q, hq, h⟩
      rw [this]
      simp only [List.map_nil, List.sum_nil]
      symm
      apply Finset.sum_eq_zero
      intro j hj
      have hj' := mem_range.mp hj
      rw [hM _ _ (by omega), g_miss j i hj' (by omega), zero_mul]
      intro p hjp hp
      by_cases hpw : p < s.nsupc
      · rw [g_lead p hpw]; omega
      · intro h
        exact hex ⟨p - s.nsupc, by omega, by rw [← h]; congr 1; omega⟩

end LN

/-! ### folds over the supernodes -/

section snfold
variable {α : Type}

theorem fold_up (step : Nat → α → α) (P : Nat → α → Prop) (bd : Nat → Nat) (N : Nat)
    (hstep : ∀ k, k < N → ∀ x, P (bd k) x → P (bd (k + 1)) (step k x)) (x : α) (h0 : P (bd 0) x) :
    P (bd N) ((List.range N).foldl (fun x k => step k x) x) := by
  induction N with
  | zero => simpa using h0
  | succ N ih =>
    rw [List.range_succ, List.foldl_append]
    simp only [List.foldl_cons, List.foldl_nil]
    exact hstep N (by omega) _ (ih (fun k hk => hstep k (by omega)))

theorem fold_down (step : Nat → α → α) (P : Nat → α → Prop) (bd : Nat → Nat) (N : Nat)
    (hstep : ∀ k, k ≤ N → ∀ x, P (bd (k + 1)) x → P (bd k) (step k x)) (x : α) (h0 : P (bd (N + 1)) x) :
    P (bd 0) ((List.range (N + 1)).foldl (fun x kk => step (N - kk) x) x) := by
  have key : ∀ m, m ≤ N + 1 → P (bd (N + 1 - m)) ((List.range m).foldl (fun x kk => step (N - kk) x) x) := by
    intro m
    induction m with
    | zero => intro _; simpa using h0
    | succ m ih =>
      intro hm
      rw [List.range_succ, List.foldl_append]
      simp only [List.foldl_cons, List.foldl_nil]
      have := hstep (N - m) (by omega) _ (by
        have h := ih (by omega)
        have e : N + 1 - m = N - m + 1 := by omega
        rw [e] at h; exact h)
      have e : N + 1 - (m + 1) = N - m := by omega
      rw [e]; exact this
  have := key (N + 1) (le_refl _)
  simpa using this

end snfold

section LNmain
variable {K : Type} [Field K] [Conj K] [Inhabited K]

theorem trsvMat_offdiag (F : LUFac K) (uplo : UpLo) (tr : Tr) (unit : Bool) (i j : Nat) (h : i ≠ j) :
    trsvMat F uplo tr unit i j = opM tr (if uplo == UpLo.L then F.decodeL else F.decodeU) i j := by
  unfold trsvMat
  have : (i == j) = false := by simpa using h
  simp [this]

theorem decodeL_diag (F : LUFac K) (i : Nat) : F.decodeL i i = 1 := by simp [LUFac.decodeL]

theorem trsvLN_correct (F : LUFac K) (H : SCLayout F) (M : Nat → Nat → K) (b y : Nat → K)
    (hM : ∀ i j, i ≠ j → M i j = F.decodeL i j)
    (hy : ∀ i, i < F.L.n → y i = b i - ∑ j ∈ range i, M i j * y j)
    (x : Array K) (hx : x.size = F.L.n) (hb : ∀ i, i < F.L.n → x[i]! = b i) :
    ∀ i, i < F.L.n → (trsvLN F x)[i]! = y i := by
  rw [trsvLN_eq]
  have := fold_up (fun k x => stepLN F (snode F.L k) x) (fun c x => InvLN M b y F.L.n c x)
    (fun k => F.L.xsup[k]!) (F.L.nsuper + 1)
    (fun k hk x hinv => by
      have G := H.sn k hk
      have := stepLN_inv F k G M b y hM hy x hinv
      rw [G.hi] at this; exact this) x
    (by rw [H.first]; exact ⟨hx, fun i hi => by omega, fun i _ hi => by simp [hb i hi]⟩)
  rw [H.last] at this
  exact this.2.1

theorem spTrsv_LN (F : LUFac K) (H : SCLayout F) (unit : Bool) (b : Array K) (hb : b.size = F.L.n) :
    ∀ i, i < F.L.n → (spTrsv F .L .N unit b)[i]! = (trsvRef F .L .N unit b)[i]! := by
  intro i hi
  have hn : (F.L.n == 0) = false := by simp; omega
  have hl : effLower .L .N = true := rfl
  simp only [spTrsv, hn, Bool.false_eq_true, if_false, trsvRef, hl, if_true]
  have hdiag : ∀ i, trsvMat F .L .N unit i i = 1 := by
    intro i; unfold trsvMat
    have : (UpLo.L == UpLo.L) = true := rfl
    cases unit <;> simp [opM, this, LUFac.decodeL]
  rw [getElem!_eq_getD_of_lt (fwdSub _ _ _ _) i (by rw [fwdSub_size]; exact hi)]
  refine trsvLN_correct F H (trsvMat F .L .N unit) (fun i => b.getD i 0)
    (fun i => (fwdSub (trsvMat F .L .N unit) (fun i => trsvMat F .L .N unit i i) (fun i => b.getD i 0) F.L.n).getD i 0)
    ?_ ?_ b hb ?_ i hi
  · intro i j hij; rw [trsvMat_offdiag F _ _ _ i j hij]; rfl
  · intro i hi
    rw [fwd_rec _ _ _ _ i hi, hdiag, div_one]
  · intro i hi; exact getElem!_eq_getD_of_lt b i (by omega)

end LNmain

/-! ### `trsvUN`: back substitution with `U`, column oriented -/

section UN
variable {K : Type} [Field K] [Conj K] [Inhabited K]

theorem sum_Ico_shift (g : Nat → K) (f a b : Nat) : ∑ i ∈ Ico (f + a) (f + b), g i = ∑ j ∈ Ico a b, g (f + j) := by
  rw [Nat.add_comm f a, Nat.add_comm f b, ← Finset.sum_Ico_add]

theorem sum_Ico_block (g : Nat → K) (f w : Nat) : ∑ i ∈ Ico f (f + w), g i = ∑ j ∈ range w, g (f + j) := by
  rw [Finset.sum_Ico_eq_sum_range, Nat.add_sub_cancel_left]

theorem filter_shift_hit (f n i : Nat) (hi : i < n) :
    (List.range n).filter (fun a => decide (f + a = f + i)) = [i] := by
  apply filter_range_unique _ _ _ hi
  intro q _; simp

theorem filter_shift_miss (f n p : Nat) (h : ∀ i, i < n → f + i ≠ p) :
    (List.range n).filter (fun a => decide (f + a = p)) = [] := by
  apply filter_range_none
  intro q hq; simpa using h q hq

/-- `dusolve`: the first `t` columns (from the last one) of the column-oriented upper solve -/
def usolveTo (B : Nat → Nat → K) (dv : Nat → K → K) (f w : Nat) (x : Array K) (t : Nat) : Array K :=
  (List.range t).foldl (fun (x : Array K) t =>
    let jc := w - 1 - t
    let xj := dv jc x[f + jc]!
    let x := x.setIfInBounds (f + jc) xj
    (List.range jc).foldl (fun (x : Array K) ir => x.setIfInBounds (f + ir) (x[f + ir]! - xj * B ir jc)) x) x

theorem usolveTo_spec (B : Nat → Nat → K) (dv : Nat → K → K) (f w : Nat) (x : Array K) (hb : f + w ≤ x.size) (z : Nat → K)
    (hz : ∀ jc, jc < w → z jc = dv jc (x[f + jc]! - ∑ j ∈ Ico (jc + 1) w, z j * B jc j)) (t : Nat) (ht : t ≤ w) :
    (usolveTo B dv f w x t).size = x.size ∧
    (∀ i, i < w → (usolveTo B dv f w x t)[f + i]! =
      if w - t ≤ i then z i else x[f + i]! - ∑ j ∈ Ico (w - t) w, z j * B i j) ∧
    (∀ p, (p < f ∨ f + w ≤ p) → (usolveTo B dv f w x t)[p]! = x[p]!) := by
  induction t with
  | zero =>
    refine ⟨rfl, fun i hi => ?_, fun p _ => rfl⟩
    simp only [usolveTo, List.range_zero, List.foldl_nil, Nat.sub_zero]
    rw [if_neg (by omega)]; simp
  | succ t ih =>
    obtain ⟨h1, h2, h3⟩ := ih (by omega)
    have hjc : w - (t + 1) = w - 1 - t := by omega
    have hjc1 : w - 1 - t + 1 = w - t := by omega
    have hxj : dv (w - 1 - t) (usolveTo B dv f w x t)[f + (w - 1 - t)]! = z (w - 1 - t) := by
      rw [h2 _ (by omega), if_neg (by omega), hz _ (by omega), hjc1]
    generalize hxt : usolveTo B dv f w x t = xt at h1 h2 h3 hxj
    have hstep : usolveTo B dv f w x (t + 1) =
        (List.range (w - 1 - t)).foldl (fun (x : Array K) ir =>
          x.setIfInBounds (f + ir) (x[f + ir]! - z (w - 1 - t) * B ir (w - 1 - t)))
          (xt.setIfInBounds (f + (w - 1 - t)) (z (w - 1 - t))) := by
      simp only [usolveTo, List.range_succ, List.foldl_append, List.foldl_cons, List.foldl_nil]
      simp only [usolveTo] at hxt
      rw [hxt, hxj]
    obtain ⟨q1, q2⟩ := foldl_scatter_const (List.range (w - 1 - t)) (fun ir => f + ir)
      (fun ir => z (w - 1 - t) * B ir (w - 1 - t)) (xt.setIfInBounds (f + (w - 1 - t)) (z (w - 1 - t)))
    rw [hstep]
    refine ⟨by rw [q1]; simp [h1], ?_, ?_⟩
    · intro i hi
      rw [q2 _ (by simp; omega), getElem!_setIfInBounds, hjc]
      by_cases hlt : i < w - 1 - t
      · rw [filter_shift_hit f _ i hlt, if_neg (show ¬ w - 1 - t ≤ i by omega),
          if_neg (show ¬ (f + (w - 1 - t) = f + i ∧ f + (w - 1 - t) < xt.size) by omega), h2 i hi,
          if_neg (show ¬ w - t ≤ i by omega)]
        simp only [List.map_cons, List.map_nil, List.sum_cons, List.sum_nil, add_zero]
        rw [Finset.sum_eq_sum_Ico_succ_bot (show w - 1 - t < w by omega)]
        have : w - 1 - t + 1 = w - t := by omega
        rw [this]; ring
      · rw [filter_shift_miss f _ _ (by intro a ha; omega), if_pos (show w - 1 - t ≤ i by omega)]
        simp only [List.map_nil, List.sum_nil, sub_zero]
        by_cases he : i = w - 1 - t
        · rw [if_pos (show f + (w - 1 - t) = f + i ∧ f + (w - 1 - t) < xt.size from ⟨by rw [he], by omega⟩), he]
        · rw [if_neg (show ¬ (f + (w - 1 - t) = f + i ∧ f + (w - 1 - t) < xt.size) by omega), h2 i hi,
            if_pos (show w - t ≤ i by omega)]
    · intro p hp
      by_cases hps : p < x.size
      · rw [q2 _ (by simp; omega), getElem!_setIfInBounds,
          if_neg (show ¬ (f + (w - 1 - t) = p ∧ f + (w - 1 - t) < xt.size) by omega), h3 p hp,
          filter_shift_miss f _ _ (by intro a ha; omega)]
        simp
      · have e1 : ((List.range (w - 1 - t)).foldl (fun (x : Array K) ir =>
            x.setIfInBounds (f + ir) (x[f + ir]! - z (w - 1 - t) * B ir (w - 1 - t)))
            (xt.setIfInBounds (f + (w - 1 - t)) (z (w - 1 - t)))).size = x.size := by rw [q1]; simp [h1]
        exact getElem!_ge _ x e1 p (by omega)

/-- the first `t` columns of the update of the rows above a supernode from U's column storage -/
def uscatTo (U : CSC K) (f : Nat) (x : Array K) (t : Nat) : Array K :=
  (List.range t).foldl (fun (x : Array K) jj =>
    let jcol := f + jj
    (U.col jcol).foldl (fun (x : Array K) (e : Nat × K) => x.setIfInBounds e.1 (x[e.1]! - x[jcol]! * e.2)) x) x

theorem uscatTo_spec (U : CSC K) (f w : Nat) (x : Array K) (hab : ∀ c, c < w → ∀ e ∈ U.col (f + c), e.1 < f)
    (t : Nat) (ht : t ≤ w) :
    (uscatTo U f x t).size = x.size ∧ (∀ p, f ≤ p → (uscatTo U f x t)[p]! = x[p]!) ∧
    (∀ p, p < f → p < x.size → (uscatTo U f x t)[p]! = x[p]! - ∑ jj ∈ range t, x[f + jj]! * U.get p (f + jj)) := by
  induction t with
  | zero => simp [uscatTo]
  | succ t ih =>
    obtain ⟨h1, h2, h3⟩ := ih (by omega)
    have hstep : uscatTo U f x (t + 1) = (U.col (f + t)).foldl (fun (x : Array K) (e : Nat × K) =>
        x.setIfInBounds e.1 (x[e.1]! - x[f + t]! * e.2)) (uscatTo U f x t) := by
      simp [uscatTo, List.range_succ, List.foldl_append]
    generalize hxt : uscatTo U f x t = xt at h1 h2 h3 hstep
    have hne : ∀ e ∈ U.col (f + t), e.1 ≠ f + t := fun e he => by have := hab t (by omega) e he; omega
    obtain ⟨q1, q2⟩ := foldl_scatter (f + t) (U.col (f + t)) (fun e => e.1) (fun e => e.2) xt hne
    rw [hstep]
    refine ⟨by rw [q1, h1], ?_, ?_⟩
    · intro p hp
      by_cases hps : p < x.size
      · rw [q2 p (by omega), h2 p hp]
        have : (U.col (f + t)).filter (fun a => decide (a.1 = p)) = [] := by
          apply List.filter_eq_nil_iff.mpr
          intro e he
          have := hab t (by omega) e he
          simp; omega
        rw [this]; simp
      · exact getElem!_ge _ x (by rw [q1, h1]) p (by omega)
    · intro p hp hps
      rw [q2 p (by omega), h3 p hp hps, h2 (f + t) (by omega), Finset.sum_range_succ, Uget_eq]
      ring

/-- one supernode of `trsvUN` -/
def stepUN (F : LUFac K) (unit : Bool) (s : SN) (x : Array K) : Array K :=
  uscatTo F.U s.fsupc
    (usolveTo (blk F.L s) (fun jc v => if unit then v else v / blk F.L s jc jc) s.fsupc s.nsupc x s.nsupc) s.nsupc

theorem trsvUN_eq (F : LUFac K) (unit : Bool) (x : Array K) :
    trsvUN F unit x = (List.range (F.L.nsuper + 1)).foldl (fun x kk => stepUN F unit (snode F.L (F.L.nsuper - kk)) x) x := rfl

/-- state of the column-oriented back substitution after the columns `≥ c` -/
def InvUN (M : Nat → Nat → K) (b y : Nat → K) (n c : Nat) (x : Array K) : Prop :=
  x.size = n ∧ (∀ i, c ≤ i → i < n → x[i]! = y i) ∧ (∀ i, i < c → x[i]! = b i - ∑ j ∈ Ico c n, M i j * y j)

theorem stepUN_inv (F : LUFac K) (unit : Bool) (k : Nat) (G : SnOK F k) (M : Nat → Nat → K) (b y : Nat → K)
    (hM : ∀ i j, i ≠ j → M i j = F.decodeU i j)
    (hd : ∀ i, M i i = if unit then 1 else F.decodeU i i)
    (hy : ∀ i, i < F.L.n → y i = (b i - ∑ j ∈ Ico (i + 1) F.L.n, M i j * y j) / M i i)
    (x : Array K) (hinv : InvUN M b y F.L.n ((snode F.L k).fsupc + (snode F.L k).nsupc) x) :
    InvUN M b y F.L.n (snode F.L k).fsupc (stepUN F unit (snode F.L k) x) := by
  obtain ⟨hs, hhi, hlo⟩ := hinv
  have g_hi := G.hi; have g_le := G.le_n; have g_blk := G.decodeU_blk; have g_above := G.decodeU_above
  have g_uab := G.uabove
  generalize hsd : snode F.L k = s at *
  have hwn : s.fsupc + s.nsupc ≤ F.L.n := by omega
  -- phase 1
  have hz : ∀ jc, jc < s.nsupc → y (s.fsupc + jc) =
      (fun jc v => if unit then v else v / blk F.L s jc jc) jc
        (x[s.fsupc + jc]! - ∑ j ∈ Ico (jc + 1) s.nsupc, y (s.fsupc + j) * blk F.L s jc j) := by
    intro jc hjc
    have hsum : ∑ j ∈ Ico (s.fsupc + jc + 1) F.L.n, M (s.fsupc + jc) j * y j =
        ∑ j ∈ Ico (jc + 1) s.nsupc, y (s.fsupc + j) * blk F.L s jc j +
          ∑ j ∈ Ico (s.fsupc + s.nsupc) F.L.n, M (s.fsupc + jc) j * y j := by
      rw [← Finset.sum_Ico_consecutive _ (show s.fsupc + jc + 1 ≤ s.fsupc + s.nsupc by omega) hwn]
      congr 1
      rw [Nat.add_assoc, sum_Ico_shift]
      apply Finset.sum_congr rfl
      intro j hj
      have hj' := Finset.mem_Ico.mp hj
      rw [hM _ _ (by omega), g_blk jc j hj'.2 (by omega)]; ring
    rw [hy _ (by omega), hlo _ (by omega), hsum, hd, g_blk jc jc hjc (le_refl _)]
    cases unit
    · simp only [Bool.false_eq_true, if_false]; congr 1; ring
    · simp only [if_true, div_one]; ring
  obtain ⟨p1, p2, p3⟩ := usolveTo_spec (blk F.L s) (fun jc v => if unit then v else v / blk F.L s jc jc)
    s.fsupc s.nsupc x (by omega) (fun i => y (s.fsupc + i)) hz s.nsupc (le_refl _)
  unfold stepUN
  generalize hx1 : usolveTo (blk F.L s) (fun jc v => if unit then v else v / blk F.L s jc jc) s.fsupc s.nsupc x s.nsupc = x1 at *
  obtain ⟨q1, q2, q3⟩ := uscatTo_spec F.U s.fsupc s.nsupc x1 g_uab s.nsupc (le_refl _)
  refine ⟨by rw [q1, p1, hs], ?_, ?_⟩
  · intro i hi hin
    rw [q2 i hi]
    by_cases hiw : i < s.fsupc + s.nsupc
    · have : i = s.fsupc + (i - s.fsupc) := by omega
      rw [this, p2 _ (by omega), if_pos (by omega)]
    · rw [p3 i (Or.inr (by omega))]; exact hhi i (by omega) hin
  · intro i hi
    rw [q3 i hi (by omega), p3 i (Or.inl hi), hlo i (by omega),
      ← Finset.sum_Ico_consecutive _ (show s.fsupc ≤ s.fsupc + s.nsupc by omega) hwn, sum_Ico_block]
    have : ∑ jj ∈ range s.nsupc, x1[s.fsupc + jj]! * F.U.get i (s.fsupc + jj) =
        ∑ j ∈ range s.nsupc, M i (s.fsupc + j) * y (s.fsupc + j) := by
      apply Finset.sum_congr rfl
      intro j hj
      have hj' := mem_range.mp hj
      rw [p2 j hj', if_pos (by omega), hM _ _ (by omega), g_above i j hj' hi]; ring
    rw [this]; ring

theorem trsvUN_correct (F : LUFac K) (H : SCLayout F) (unit : Bool) (M : Nat → Nat → K) (b y : Nat → K)
    (hM : ∀ i j, i ≠ j → M i j = F.decodeU i j)
    (hd : ∀ i, M i i = if unit then 1 else F.decodeU i i)
    (hy : ∀ i, i < F.L.n → y i = (b i - ∑ j ∈ Ico (i + 1) F.L.n, M i j * y j) / M i i)
    (x : Array K) (hx : x.size = F.L.n) (hb : ∀ i, i < F.L.n → x[i]! = b i) :
    ∀ i, i < F.L.n → (trsvUN F unit x)[i]! = y i := by
  rw [trsvUN_eq]
  have := fold_down (fun k x => stepUN F unit (snode F.L k) x) (fun c x => InvUN M b y F.L.n c x)
    (fun k => F.L.xsup[k]!) F.L.nsuper
    (fun k hk x hinv => by
      have G := H.sn k (by omega)
      apply stepUN_inv F unit k G M b y hM hd hy x
      rw [G.hi]; exact hinv) x
    (by rw [H.last]; exact ⟨hx, fun i hi hi' => by omega, fun i hi => by simp [hb i hi]⟩)
  rw [H.first] at this
  intro i hi
  exact this.2.1 i (by omega) hi

theorem spTrsv_UN (F : LUFac K) (H : SCLayout F) (unit : Bool) (b : Array K) (hb : b.size = F.L.n) :
    ∀ i, i < F.L.n → (spTrsv F .U .N unit b)[i]! = (trsvRef F .U .N unit b)[i]! := by
  intro i hi
  have hn : (F.L.n == 0) = false := by simp; omega
  have hl : effLower .U .N = false := rfl
  simp only [spTrsv, hn, Bool.false_eq_true, if_false, trsvRef, hl]
  have hUL : (UpLo.U == UpLo.L) = false := rfl
  have hdiag : ∀ i, trsvMat F .U .N unit i i = if unit then 1 else F.decodeU i i := by
    intro i; unfold trsvMat
    cases unit <;> simp [opM, hUL]
  have hg : ∀ (l : List K) (i : Nat), i < l.length → l.toArray[i]! = l.getD i 0 := by
    intro l i hi
    simp [hi, List.getD_eq_getElem?_getD]
  rw [hg (bwdSub _ _ _ _ _) i (by rw [bwdSub_length]; exact hi)]
  refine trsvUN_correct F H unit (trsvMat F .U .N unit) (fun i => b.getD i 0)
    (fun i => (bwdSub (trsvMat F .U .N unit) (fun i => trsvMat F .U .N unit i i) (fun i => b.getD i 0) F.L.n F.L.n).getD i 0)
    ?_ hdiag ?_ b hb ?_ i hi
  · intro i j hij; rw [trsvMat_offdiag F _ _ _ i j hij]; rfl
  · intro i hi
    exact bwd_rec _ _ _ _ i hi
  · intro i hi; exact getElem!_eq_getD_of_lt b i (by omega)

end UN

end Slu.Kernels
