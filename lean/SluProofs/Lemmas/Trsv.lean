import Slu.Model.Kernels
import SluProofs.Lemmas.Kernels
import SluProofs.Lemmas.Gemv
/-
Lemmas for `sp_trsv_model` (C14): the supernodal forward / back substitution `spTrsv` (the model
that follows the loops of `sp_[sdcz]trsv`) equals the dense reference `trsvRef` on well-formed
SCformat storage.

Plan.  The dense reference obeys a recurrence (`fwd_rec`, `bwd_rec`).  Each of the four routines
(`trsvLN`, `trsvUN`, `trsvLT`, `trsvUT`) is a fold over the supernodes; for each we state the loop
invariant that links the work vector `x` to the reference solution `y` after the columns of a prefix
(resp. suffix) of the supernodes have been eliminated, and prove that one supernode step carries the
invariant from one supernode boundary to the next.  The entries the routines read (`blk`, `F.U.col`)
are identified with `decodeL` / `decodeU` by the `decodeL_*`, `decodeU_*` lemmas.
-/
set_option linter.unusedSectionVars false
set_option linter.unusedVariables false
namespace Slu.Kernels
open Finset

/-! ### generic folds -/

section folds
variable {K : Type} [Field K] [Inhabited K]

theorem foldl_sub_range (n : Nat) (g : Nat → K) (a : K) :
    (List.range n).foldl (fun acc j => acc - g j) a = a - ∑ j ∈ range n, g j := by
  induction n with
  | zero => simp
  | succ n ih =>
    rw [List.range_succ, List.foldl_append, ih, Finset.sum_range_succ]
    simp only [List.foldl_cons, List.foldl_nil]; ring

theorem foldl_sub_list {α : Type} (l : List α) (g : α → K) (a : K) :
    l.foldl (fun acc e => acc - g e) a = a - (l.map g).sum := by
  induction l generalizing a with
  | nil => simp
  | cons e l ih => simp only [List.foldl_cons, List.map_cons, List.sum_cons]; rw [ih]; ring

theorem list_range_map_sum (n : Nat) (g : Nat → K) : ((List.range n).map g).sum = ∑ j ∈ range n, g j := by
  induction n with
  | zero => simp
  | succ n ih => rw [List.range_succ, List.map_append, List.sum_append, ih, Finset.sum_range_succ]; simp

theorem getElem!_eq_getD_of_lt (a : Array K) (i : Nat) (h : i < a.size) : a[i]! = a.getD i 0 := by
  simp [Array.getElem!_eq_getD, Array.getD_eq_getD_getElem?, h]

theorem getElem!_ge (a b : Array K) (h : a.size = b.size) (p : Nat) (hp : b.size ≤ p) : a[p]! = b[p]! := by
  simp only [Array.getElem!_eq_getD, Array.getD_eq_getD_getElem?]
  rw [Array.getElem?_eq_none (by omega), Array.getElem?_eq_none hp]

/-- the only element of `range n` satisfying `P` -/
theorem filter_range_unique (n p : Nat) (P : Nat → Bool) (hp : p < n) (h : ∀ q, q < n → (P q = true ↔ q = p)) :
    (List.range n).filter P = [p] := by
  induction n with
  | zero => omega
  | succ n ih =>
    rw [List.range_succ, List.filter_append]
    by_cases hpn : p = n
    · subst hpn
      have h1 : (List.range p).filter P = [] := by
        apply List.filter_eq_nil_iff.mpr
        intro q hq
        have hq' := List.mem_range.mp hq
        intro hc
        have := (h q (by omega)).mp hc
        omega
      have h2 : P p = true := (h p (by omega)).mpr rfl
      simp [h1, h2]
    · have h1 := ih (by omega) (fun q hq => h q (by omega))
      have h2 : P n = false := by
        cases hc : P n
        · rfl
        · have := (h n (by omega)).mp hc; omega
      simp [h1, h2]

theorem filter_range_none (n : Nat) (P : Nat → Bool) (h : ∀ q, q < n → P q = false) :
    (List.range n).filter P = [] := by
  apply List.filter_eq_nil_iff.mpr
  intro q hq
  rw [h q (List.mem_range.mp hq)]; simp

/-- repeated update of ONE position `q` from other positions: `x[q] -= x[rd a] * cf a` -/
theorem foldl_gather (q : Nat) {α : Type} (l : List α) (rd : α → Nat) (cf : α → K) (x : Array K)
    (hq : q < x.size) (hne : ∀ a ∈ l, rd a ≠ q) :
    (l.foldl (fun (x : Array K) a => x.setIfInBounds q (x[q]! - x[rd a]! * cf a)) x).size = x.size ∧
    (l.foldl (fun (x : Array K) a => x.setIfInBounds q (x[q]! - x[rd a]! * cf a)) x)[q]! =
        x[q]! - (l.map fun a => x[rd a]! * cf a).sum ∧
    ∀ p, p ≠ q → (l.foldl (fun (x : Array K) a => x.setIfInBounds q (x[q]! - x[rd a]! * cf a)) x)[p]! = x[p]! := by
  induction l generalizing x with
  | nil => simp
  | cons a l ih =>
    simp only [List.foldl_cons, List.map_cons, List.sum_cons]
    have hne' : ∀ a' ∈ l, rd a' ≠ q := fun a' ha' => hne a' (List.mem_cons_of_mem _ ha')
    obtain ⟨h1, h2, h3⟩ := ih (x.setIfInBounds q (x[q]! - x[rd a]! * cf a)) (by simpa using hq) hne'
    refine ⟨by rw [h1]; simp, ?_, ?_⟩
    · rw [h2, getElem!_setIfInBounds]
      simp only [hq, and_self, if_true]
      have : (l.map fun a' => (x.setIfInBounds q (x[q]! - x[rd a]! * cf a))[rd a']! * cf a') =
          (l.map fun a' => x[rd a']! * cf a') := by
        apply List.map_congr_left
        intro a' ha'
        rw [getElem!_setIfInBounds, if_neg (fun hc => hne' a' ha' hc.1.symm)]
      rw [this]; ring
    · intro p hp
      rw [h3 p hp, getElem!_setIfInBounds, if_neg (fun hc => hp hc.1.symm)]

/-- scatter with a factor read from a position `q` that is never written: `x[pos a] -= x[q] * cf a` -/
theorem foldl_scatter (q : Nat) {α : Type} (l : List α) (pos : α → Nat) (cf : α → K) (x : Array K)
    (hne : ∀ a ∈ l, pos a ≠ q) :
    (l.foldl (fun (x : Array K) a => x.setIfInBounds (pos a) (x[pos a]! - x[q]! * cf a)) x).size = x.size ∧
    ∀ p, p < x.size → (l.foldl (fun (x : Array K) a => x.setIfInBounds (pos a) (x[pos a]! - x[q]! * cf a)) x)[p]! =
        x[p]! - x[q]! * ((l.filter fun a => pos a = p).map cf).sum := by
  induction l generalizing x with
  | nil => simp
  | cons a l ih =>
    simp only [List.foldl_cons]
    have hne' : ∀ a' ∈ l, pos a' ≠ q := fun a' ha' => hne a' (List.mem_cons_of_mem _ ha')
    have ha : pos a ≠ q := hne a List.mem_cons_self
    obtain ⟨h1, h2⟩ := ih (x.setIfInBounds (pos a) (x[pos a]! - x[q]! * cf a)) hne'
    refine ⟨by rw [h1]; simp, fun p hp => ?_⟩
    have hq : (x.setIfInBounds (pos a) (x[pos a]! - x[q]! * cf a))[q]! = x[q]! := by
      rw [getElem!_setIfInBounds, if_neg (fun hc => ha hc.1)]
    rw [h2 p (by simpa using hp), hq, getElem!_setIfInBounds]
    by_cases he : pos a = p
    · have : pos a = p ∧ pos a < x.size := ⟨he, by omega⟩
      rw [if_pos this]
      simp only [List.filter_cons, he, decide_true, if_true, List.map_cons, List.sum_cons]
      ring
    · rw [if_neg (fun hc => he hc.1)]
      simp only [List.filter_cons, he, decide_false, Bool.false_eq_true, if_false]

/-- scatter of constants: `x[pos a] -= v a` -/
theorem foldl_scatter_const {α : Type} (l : List α) (pos : α → Nat) (v : α → K) (x : Array K) :
    (l.foldl (fun (x : Array K) a => x.setIfInBounds (pos a) (x[pos a]! - v a)) x).size = x.size ∧
    ∀ p, p < x.size → (l.foldl (fun (x : Array K) a => x.setIfInBounds (pos a) (x[pos a]! - v a)) x)[p]! =
        x[p]! - ((l.filter fun a => pos a = p).map v).sum := by
  induction l generalizing x with
  | nil => simp
  | cons a l ih =>
    simp only [List.foldl_cons]
    obtain ⟨h1, h2⟩ := ih (x.setIfInBounds (pos a) (x[pos a]! - v a))
    refine ⟨by rw [h1]; simp, fun p hp => ?_⟩
    rw [h2 p (by simpa using hp), getElem!_setIfInBounds]
    by_cases he : pos a = p
    · have : pos a = p ∧ pos a < x.size := ⟨he, by omega⟩
      rw [if_pos this]
      simp only [List.filter_cons, he, decide_true, if_true, List.map_cons, List.sum_cons]
      ring
    · rw [if_neg (fun hc => he hc.1)]
      simp only [List.filter_cons, he, decide_false, Bool.false_eq_true, if_false]

end folds

/-! ### the recurrences of the dense reference -/

section recs
variable {K : Type} [Field K]

theorem fwd_rec (M : Nat → Nat → K) (d b : Nat → K) (n i : Nat) (hi : i < n) :
    (fwdSub M d b n).getD i 0 = (b i - ∑ j ∈ range i, M i j * (fwdSub M d b n).getD j 0) / d i := by
  have h1 : (fwdSub M d b n).getD i 0 = (fwdSub M d b (i + 1)).getD i 0 :=
    fwdSub_stable M d b (i + 1) n i (by omega) (by omega)
  have h2 : ∀ j ∈ range i, M i j * (fwdSub M d b n).getD j 0 = M i j * (fwdSub M d b i).getD j 0 := by
    intro j hj
    rw [fwdSub_stable M d b i n j (mem_range.mp hj) (by omega)]
  rw [Finset.sum_congr rfl h2, h1, fwdSub_last]

theorem bwd_rec (M : Nat → Nat → K) (d b : Nat → K) (n i : Nat) (hi : i < n) :
    (bwdSub M d b n n).getD i 0 = (b i - ∑ j ∈ Ico (i + 1) n, M i j * (bwdSub M d b n n).getD j 0) / d i := by
  have hk : n - (n - i - 1 + 1) = i := by omega
  have h1 : (bwdSub M d b n n).getD i 0 = (bwdSub M d b n (n - i - 1 + 1)).getD 0 0 := by
    rw [bwdSub_getD M d b n n i hi]; congr 2; omega
  have h2 : ∀ t ∈ range (n - i - 1), M i (i + 1 + t) * (bwdSub M d b n (n - i - 1)).getD t 0 =
      M i (i + 1 + t) * (bwdSub M d b n n).getD (i + 1 + t) 0 := by
    intro t ht
    have ht' := mem_range.mp ht
    rw [bwdSub_getD M d b n (n - i - 1) t ht', bwdSub_getD M d b n n (i + 1 + t) (by omega)]
    congr 3; omega
  rw [h1, bwdSub_head, hk, Finset.sum_congr rfl h2, Finset.sum_Ico_eq_sum_range]
  have : n - (i + 1) = n - i - 1 := by omega
  rw [this]

end recs

/-! ### geometry of a supernode and the decoded entries -/

section geom
variable {K : Type} [Field K] [Conj K] [Inhabited K]

/-- row subscript at position `p` of the row list of supernode `s` -/
def rowAt (L : SNode K) (s : SN) (p : Nat) : Nat := L.lsub[s.istart + p]!

/-- what the proofs need to know about supernode `k` (all consequences of `Slu.Struct.wfb`) -/
structure SnOK (F : LUFac K) (k : Nat) : Prop where
  wpos : 0 < (snode F.L k).nsupc
  hi : (snode F.L k).fsupc + (snode F.L k).nsupc = F.L.xsup[k+1]!
  le_n : F.L.xsup[k+1]! ≤ F.L.n
  supno : ∀ c, c < (snode F.L k).nsupc → F.L.supno[(snode F.L k).fsupc + c]! = k
  wle : (snode F.L k).nsupc ≤ (snode F.L k).nsupr
  lead : ∀ c, c < (snode F.L k).nsupc → rowAt F.L (snode F.L k) c = (snode F.L k).fsupc + c
  trail : ∀ p, (snode F.L k).nsupc ≤ p → p < (snode F.L k).nsupr →
    (snode F.L k).fsupc + (snode F.L k).nsupc ≤ rowAt F.L (snode F.L k) p ∧ rowAt F.L (snode F.L k) p < F.L.n
  inj : ∀ p q, (snode F.L k).nsupc ≤ p → p < (snode F.L k).nsupr → (snode F.L k).nsupc ≤ q → q < (snode F.L k).nsupr →
    rowAt F.L (snode F.L k) p = rowAt F.L (snode F.L k) q → p = q
  xlu : ∀ c, c < (snode F.L k).nsupc → F.L.xlusup[(snode F.L k).fsupc + c]! = (snode F.L k).luptr + c * (snode F.L k).nsupr
  uabove : ∀ c, c < (snode F.L k).nsupc → ∀ e ∈ F.U.col ((snode F.L k).fsupc + c), e.1 < (snode F.L k).fsupc

/-- the layout hypotheses on the whole (L, U) pair -/
structure SCLayout (F : LUFac K) : Prop where
  first : F.L.xsup[0]! = 0
  last : F.L.xsup[F.L.nsuper + 1]! = F.L.n
  sn : ∀ k, k < F.L.nsuper + 1 → SnOK F k

variable {F : LUFac K} {k : Nat}

/-- the row list is injective on all its positions -/
theorem SnOK.rowAt_inj (G : SnOK F k) (p q : Nat) (hp : p < (snode F.L k).nsupr) (hq : q < (snode F.L k).nsupr)
    (h : rowAt F.L (snode F.L k) p = rowAt F.L (snode F.L k) q) : p = q := by
  by_cases h1 : p < (snode F.L k).nsupc
  · by_cases h2 : q < (snode F.L k).nsupc
    · rw [G.lead p h1, G.lead q h2] at h; omega
    · rw [G.lead p h1] at h
      have := (G.trail q (by omega) hq).1; omega
  · by_cases h2 : q < (snode F.L k).nsupc
    · rw [G.lead q h2] at h
      have := (G.trail p (by omega) hp).1; omega
    · exact G.inj p q (by omega) hp (by omega) hq h

theorem SnOK.rowAt_lt (G : SnOK F k) (p : Nat) (hp : p < (snode F.L k).nsupr) : rowAt F.L (snode F.L k) p < F.L.n := by
  by_cases h1 : p < (snode F.L k).nsupc
  · rw [G.lead p h1]; have := G.hi; have := G.le_n; omega
  · exact (G.trail p (by omega) hp).2

theorem SnOK.fsupc_col (G : SnOK F k) (c : Nat) (hc : c < (snode F.L k).nsupc) :
    F.L.fsupc ((snode F.L k).fsupc + c) = (snode F.L k).fsupc := by
  unfold SNode.fsupc
  rw [G.supno c hc]; rfl

/-- `decodeL` below the diagonal of column `fsupc + c`, as a fold over the positions of the row list -/
theorem SnOK.decodeL_eq (G : SnOK F k) (c : Nat) (hc : c < (snode F.L k).nsupc) (i : Nat)
    (hne : i ≠ (snode F.L k).fsupc + c) :
    F.decodeL i ((snode F.L k).fsupc + c) =
      ((List.range (snode F.L k).nsupr).filter (fun p => decide (c < p ∧ rowAt F.L (snode F.L k) p = i))).foldl
        (fun acc p => acc + blk F.L (snode F.L k) p c) 0 := by
  unfold LUFac.decodeL
  rw [if_neg hne]
  have hf := G.fsupc_col c hc
  have hrows : F.L.rows ((snode F.L k).fsupc + c) =
      (List.range (snode F.L k).nsupr).map (fun d => rowAt F.L (snode F.L k) d) := by
    unfold SNode.rows SNode.nsupr
    simp only [hf]
    rfl
  have hval : ∀ p, F.L.valAt ((snode F.L k).fsupc + c) p = blk F.L (snode F.L k) p c := by
    intro p
    unfold SNode.valAt blk
    rw [G.xlu c hc]
  simp only [hrows, hf, hval, List.length_map, List.length_range]
  congr 1
  apply List.filter_congr
  intro p hp
  have hp' := List.mem_range.mp hp
  have : ((List.range (snode F.L k).nsupr).map (fun d => rowAt F.L (snode F.L k) d))[p]! = rowAt F.L (snode F.L k) p := by
    simp [hp']
  rw [this]
  have : (snode F.L k).fsupc + c - (snode F.L k).fsupc = c := by omega
  rw [this]

/-- the entry of `L` stored at position `p > c` of column `fsupc + c` -/
theorem SnOK.decodeL_hit (G : SnOK F k) (c p : Nat) (hc : c < (snode F.L k).nsupc) (hcp : c < p)
    (hp : p < (snode F.L k).nsupr) :
    F.decodeL (rowAt F.L (snode F.L k) p) ((snode F.L k).fsupc + c) = blk F.L (snode F.L k) p c := by
  have hne : rowAt F.L (snode F.L k) p ≠ (snode F.L k).fsupc + c := by
    intro h
    rw [← G.lead c hc] at h
    have := G.rowAt_inj p c hp (by have := G.wle; omega) h
    omega
  rw [G.decodeL_eq c hc _ hne, filter_range_unique _ p _ hp]
  · simp
  · intro q hq
    simp only [decide_eq_true_eq]
    constructor
    · rintro ⟨_, h⟩; exact G.rowAt_inj q p hq hp h
    · rintro rfl; exact ⟨hcp, rfl⟩

/-- rows that are not in the row list below position `c` hold a zero of `L` -/
theorem SnOK.decodeL_miss (G : SnOK F k) (c i : Nat) (hc : c < (snode F.L k).nsupc)
    (hne : i ≠ (snode F.L k).fsupc + c)
    (h : ∀ p, c < p → p < (snode F.L k).nsupr → rowAt F.L (snode F.L k) p ≠ i) :
    F.decodeL i ((snode F.L k).fsupc + c) = 0 := by
  rw [G.decodeL_eq c hc _ hne, filter_range_none]
  · simp
  · intro q hq
    simp only [decide_eq_false_iff_not, not_and]
    intro h1; exact h q h1 hq

/-- `decodeU` inside the diagonal block -/
theorem SnOK.decodeU_blk (G : SnOK F k) (r c : Nat) (hc : c < (snode F.L k).nsupc) (hrc : r ≤ c) :
    F.decodeU ((snode F.L k).fsupc + r) ((snode F.L k).fsupc + c) = blk F.L (snode F.L k) r c := by
  unfold LUFac.decodeU
  simp only [G.fsupc_col c hc]
  rw [if_neg (by omega), if_pos (by omega)]
  unfold SNode.valAt blk
  rw [G.xlu c hc]
  congr 2; omega

/-- `decodeU` above the supernode -/
theorem SnOK.decodeU_above (G : SnOK F k) (i c : Nat) (hc : c < (snode F.L k).nsupc) (hi : i < (snode F.L k).fsupc) :
    F.decodeU i ((snode F.L k).fsupc + c) = F.U.get i ((snode F.L k).fsupc + c) := by
  unfold LUFac.decodeU
  simp only [G.fsupc_col c hc]
  rw [if_pos hi]

/-- `decodeU` below the diagonal -/
theorem SnOK.decodeU_below (G : SnOK F k) (i c : Nat) (hc : c < (snode F.L k).nsupc) (hi : (snode F.L k).fsupc + c < i) :
    F.decodeU i ((snode F.L k).fsupc + c) = 0 := by
  unfold LUFac.decodeU
  simp only [G.fsupc_col c hc]
  rw [if_neg (by omega), if_neg (by omega)]

/-- `U.get` as a list sum -/
theorem Uget_eq (A : CSC K) (i j : Nat) : A.get i j = (((A.col j).filter (fun e => e.1 = i)).map (·.2)).sum := by
  unfold CSC.get
  have := foldl_if_eq_sum (A.col j) i (fun v => v) (0 : K)
  simp only [zero_add] at this
  exact this

end geom

/-! ### `trsvLN`: forward substitution with `L`, column oriented -/

section LN
variable {K : Type} [Field K] [Conj K] [Inhabited K]

/-- `dlsolve`: the first `t` rows of the unit lower solve with a dense block `B` placed at offset `f` -/
def lsolveTo (B : Nat → Nat → K) (f : Nat) (x : Array K) (t : Nat) : Array K :=
  (List.range t).foldl (fun (x : Array K) i =>
    x.setIfInBounds (f + i) ((List.range i).foldl (fun (acc : K) j => acc - x[f + j]! * B i j) x[f + i]!)) x

theorem lsolveTo_spec (B : Nat → Nat → K) (f : Nat) (x : Array K) (w : Nat) (hb : f + w ≤ x.size) (z : Nat → K)
    (hz : ∀ i, i < w → z i = x[f + i]! - ∑ j ∈ range i, z j * B i j) (t : Nat) (ht : t ≤ w) :
    (lsolveTo B f x t).size = x.size ∧ (∀ i, i < t → (lsolveTo B f x t)[f + i]! = z i) ∧
    (∀ p, (p < f ∨ f + t ≤ p) → (lsolveTo B f x t)[p]! = x[p]!) := by
  induction t with
  | zero => simp [lsolveTo]
  | succ t ih =>
    obtain ⟨h1, h2, h3⟩ := ih (by omega)
    have hstep : lsolveTo B f x (t + 1) = (lsolveTo B f x t).setIfInBounds (f + t)
        ((List.range t).foldl (fun (acc : K) j => acc - (lsolveTo B f x t)[f + j]! * B t j) (lsolveTo B f x t)[f + t]!) := by
      simp [lsolveTo, List.range_succ, List.foldl_append]
    rw [hstep]
    refine ⟨by simp [h1], ?_, ?_⟩
    · intro i hi
      rw [getElem!_setIfInBounds, h1]
      by_cases hit : i = t
      · subst hit
        rw [if_pos ⟨rfl, by omega⟩, foldl_sub_range, h3 (f + i) (Or.inr (le_refl _)), hz i (by omega)]
        congr 1
        apply Finset.sum_congr rfl
        intro j hj
        rw [h2 j (mem_range.mp hj)]
      · rw [if_neg (by omega)]
        exact h2 i (by omega)
    · intro p hp
      rw [getElem!_setIfInBounds, if_neg (by omega)]
      exact h3 p (by omega)

/-- one supernode of `trsvLN` -/
def stepLN (F : LUFac K) (s : SN) (x : Array K) : Array K :=
  let x1 := lsolveTo (blk F.L s) s.fsupc x s.nsupc
  (List.range (s.nsupr - s.nsupc)).foldl (fun (x : Array K) i =>
    let w := sumTo s.nsupc (fun j => blk F.L s (s.nsupc + i) j * x1[s.fsupc + j]!)
    let r := F.L.lsub[s.istart + s.nsupc + i]!
    x.setIfInBounds r (x[r]! - w)) x1

theorem trsvLN_eq (F : LUFac K) (x : Array K) :
    trsvLN F x = (List.range (F.L.nsuper + 1)).foldl (fun x k => stepLN F (snode F.L k) x) x := rfl

/-- state of the column-oriented forward elimination after the columns `< c` -/
def InvLN (M : Nat → Nat → K) (b y : Nat → K) (n c : Nat) (x : Array K) : Prop :=
  x.size = n ∧ (∀ i, i < c → x[i]! = y i) ∧ (∀ i, c ≤ i → i < n → x[i]! = b i - ∑ j ∈ range c, M i j * y j)

theorem stepLN_inv (F : LUFac K) (k : Nat) (G : SnOK F k) (M : Nat → Nat → K) (b y : Nat → K)
    (hM : ∀ i j, i ≠ j → M i j = F.decodeL i j)
    (hy : ∀ i, i < F.L.n → y i = b i - ∑ j ∈ range i, M i j * y j)
    (x : Array K) (hinv : InvLN M b y F.L.n (snode F.L k).fsupc x) :
    InvLN M b y F.L.n ((snode F.L k).fsupc + (snode F.L k).nsupc) (stepLN F (snode F.L k) x) := by
  obtain ⟨hs, hlo, hhi⟩ := hinv
  have g_hi := G.hi; have g_le := G.le_n; have hwr := G.wle; have g_lead := G.lead; have g_trail := G.trail
  have g_inj := G.inj; have g_hit := G.decodeL_hit; have g_miss := G.decodeL_miss
  generalize hsd : snode F.L k = s at *
  have hwn : s.fsupc + s.nsupc ≤ F.L.n := by omega
  -- phase 1
  have hz : ∀ i, i < s.nsupc → y (s.fsupc + i) = x[s.fsupc + i]! - ∑ j ∈ range i, y (s.fsupc + j) * blk F.L s i j := by
    intro i hi
    rw [hy _ (by omega), hhi _ (by omega) (by omega), Finset.sum_range_add, sub_sub]
    congr 2
    apply Finset.sum_congr rfl
    intro j hj
    have hj' := mem_range.mp hj
    rw [hM _ _ (by omega), ← g_lead i hi, g_hit j i (by omega) hj' (by omega)]
    ring
  obtain ⟨p1, p2, p3⟩ := lsolveTo_spec (blk F.L s) s.fsupc x s.nsupc (by omega) (fun i => y (s.fsupc + i)) hz s.nsupc (le_refl _)
  -- phase 2
  unfold stepLN
  dsimp only
  generalize hx1 : lsolveTo (blk F.L s) s.fsupc x s.nsupc = x1 at *
  obtain ⟨q1, q2⟩ := foldl_scatter_const (List.range (s.nsupr - s.nsupc))
    (fun i => F.L.lsub[s.istart + s.nsupc + i]!)
    (fun i => sumTo s.nsupc (fun j => blk F.L s (s.nsupc + i) j * x1[s.fsupc + j]!)) x1
  have hpos : ∀ i, F.L.lsub[s.istart + s.nsupc + i]! = rowAt F.L s (s.nsupc + i) := by
    intro i; unfold rowAt; rw [Nat.add_assoc]
  refine ⟨by rw [q1, p1, hs], ?_, ?_⟩
  · intro i hi
    rw [q2 i (by omega)]
    have : (List.range (s.nsupr - s.nsupc)).filter (fun a => decide (F.L.lsub[s.istart + s.nsupc + a]! = i)) = [] := by
      apply filter_range_none
      intro q hq
      have := (g_trail (s.nsupc + q) (by omega) (by omega)).1
      rw [hpos]
      simp only [decide_eq_false_iff_not]; omega
    rw [this]
    simp only [List.map_nil, List.sum_nil, sub_zero]
    by_cases hif : i < s.fsupc
    · rw [p3 i (Or.inl hif)]; exact hlo i hif
    · have : i = s.fsupc + (i - s.fsupc) := by omega
      rw [this, p2 _ (by omega)]
  · intro i hi hin
    rw [q2 i (by omega), p3 i (Or.inr hi), hhi i (by omega) hin, Finset.sum_range_add, sub_sub]
    congr 2
    by_cases hex : ∃ q, q < s.nsupr - s.nsupc ∧ rowAt F.L s (s.nsupc + q) = i
    · obtain ⟨q0, hq0, hr0⟩ := hex
      have : (List.range (s.nsupr - s.nsupc)).filter (fun a => decide (F.L.lsub[s.istart + s.nsupc + a]! = i)) = [q0] := by
        apply filter_range_unique _ _ _ hq0
        intro q hq
        rw [hpos]
        simp only [decide_eq_true_eq]
        constructor
        · intro h
          have := g_inj (s.nsupc + q) (s.nsupc + q0) (by omega) (by omega) (by omega) (by omega) (by rw [h, hr0])
          omega
        · rintro rfl; exact hr0
      rw [this]
      simp only [List.map_cons, List.map_nil, List.sum_cons, List.sum_nil, add_zero, sumTo_eq_sum]
      apply Finset.sum_congr rfl
      intro j hj
      have hj' := mem_range.mp hj
      rw [p2 j hj', hM _ _ (by omega), ← hr0, g_hit j (s.nsupc + q0) hj' (by omega) (by omega)]
    · have : (List.range (s.nsupr - s.nsupc)).filter (fun a => decide (F.L.lsub[s.istart + s.nsupc + a]! = i)) = [] := by
        apply filter_range_none
        intro q hq
        rw [hpos]
        simp only [decide_eq_false_iff_not]
        intro h; exact hex ⟨q, hq, h⟩
      rw [this]
      simp only [List.map_nil, List.sum_nil]
      symm
      apply Finset.sum_eq_zero
      intro j hj
      have hj' := mem_range.mp hj
      rw [hM _ _ (by omega), g_miss j i hj' (by omega), zero_mul]
      intro p hjp hp
      by_cases hpw : p < s.nsupc
      · rw [g_lead p hpw]; omega
      · intro h
        exact hex ⟨p - s.nsupc, by omega, by rw [← h]; congr 1; omega⟩

end LN

/-! ### folds over the supernodes -/

section snfold
variable {α : Type}

theorem fold_up (step : Nat → α → α) (P : Nat → α → Prop) (bd : Nat → Nat) (N : Nat)
    (hstep : ∀ k, k < N → ∀ x, P (bd k) x → P (bd (k + 1)) (step k x)) (x : α) (h0 : P (bd 0) x) :
    P (bd N) ((List.range N).foldl (fun x k => step k x) x) := by
  induction N with
  | zero => simpa using h0
  | succ N ih =>
    rw [List.range_succ, List.foldl_append]
    simp only [List.foldl_cons, List.foldl_nil]
    exact hstep N (by omega) _ (ih (fun k hk => hstep k (by omega)))

theorem fold_down (step : Nat → α → α) (P : Nat → α → Prop) (bd : Nat → Nat) (N : Nat)
    (hstep : ∀ k, k ≤ N → ∀ x, P (bd (k + 1)) x → P (bd k) (step k x)) (x : α) (h0 : P (bd (N + 1)) x) :
    P (bd 0) ((List.range (N + 1)).foldl (fun x kk => step (N - kk) x) x) := by
  have key : ∀ m, m ≤ N + 1 → P (bd (N + 1 - m)) ((List.range m).foldl (fun x kk => step (N - kk) x) x) := by
    intro m
    induction m with
    | zero => intro _; simpa using h0
    | succ m ih =>
      intro hm
      rw [List.range_succ, List.foldl_append]
      simp only [List.foldl_cons, List.foldl_nil]
      have := hstep (N - m) (by omega) _ (by
        have h := ih (by omega)
        have e : N + 1 - m = N - m + 1 := by omega
        rw [e] at h; exact h)
      have e : N + 1 - (m + 1) = N - m := by omega
      rw [e]; exact this
  have := key (N + 1) (le_refl _)
  simpa using this

end snfold

section LNmain
variable {K : Type} [Field K] [Conj K] [Inhabited K]

theorem trsvMat_offdiag (F : LUFac K) (uplo : UpLo) (tr : Tr) (unit : Bool) (i j : Nat) (h : i ≠ j) :
    trsvMat F uplo tr unit i j = opM tr (if uplo == UpLo.L then F.decodeL else F.decodeU) i j := by
  unfold trsvMat
  have : (i == j) = false := by simpa using h
  simp [this]

theorem decodeL_diag (F : LUFac K) (i : Nat) : F.decodeL i i = 1 := by simp [LUFac.decodeL]

theorem trsvLN_correct (F : LUFac K) (H : SCLayout F) (M : Nat → Nat → K) (b y : Nat → K)
    (hM : ∀ i j, i ≠ j → M i j = F.decodeL i j)
    (hy : ∀ i, i < F.L.n → y i = b i - ∑ j ∈ range i, M i j * y j)
    (x : Array K) (hx : x.size = F.L.n) (hb : ∀ i, i < F.L.n → x[i]! = b i) :
    (trsvLN F x).size = F.L.n ∧ ∀ i, i < F.L.n → (trsvLN F x)[i]! = y i := by
  rw [trsvLN_eq]
  have := fold_up (fun k x => stepLN F (snode F.L k) x) (fun c x => InvLN M b y F.L.n c x)
    (fun k => F.L.xsup[k]!) (F.L.nsuper + 1)
    (fun k hk x hinv => by
      have G := H.sn k hk
      have := stepLN_inv F k G M b y hM hy x hinv
      rw [G.hi] at this; exact this) x
    (by rw [H.first]; exact ⟨hx, fun i hi => by omega, fun i _ hi => by simp [hb i hi]⟩)
  rw [H.last] at this
  exact ⟨this.1, this.2.1⟩

theorem spTrsv_LN (F : LUFac K) (H : SCLayout F) (unit : Bool) (b : Array K) (hb : b.size = F.L.n) :
    (spTrsv F .L .N unit b).size = F.L.n ∧
    ∀ i, i < F.L.n → (spTrsv F .L .N unit b)[i]! = (trsvRef F .L .N unit b)[i]! := by
  by_cases h0 : F.L.n = 0
  · exact ⟨by simp [spTrsv, h0, hb], fun i hi => by omega⟩
  have hn : (F.L.n == 0) = false := by simpa using h0
  have hl : effLower .L .N = true := rfl
  simp only [spTrsv, hn, Bool.false_eq_true, if_false, trsvRef, hl, if_true]
  have hdiag : ∀ i, trsvMat F .L .N unit i i = 1 := by
    intro i; unfold trsvMat
    have : (UpLo.L == UpLo.L) = true := rfl
    cases unit <;> simp [opM, this, LUFac.decodeL]
  have key := trsvLN_correct F H (trsvMat F .L .N unit) (fun i => b.getD i 0)
    (fun i => (fwdSub (trsvMat F .L .N unit) (fun i => trsvMat F .L .N unit i i) (fun i => b.getD i 0) F.L.n).getD i 0)
    (fun i j hij => by rw [trsvMat_offdiag F _ _ _ i j hij]; rfl)
    (fun i hi => by rw [fwd_rec _ _ _ _ i hi, hdiag, div_one]) b hb
    (fun i hi => getElem!_eq_getD_of_lt b i (by omega))
  refine ⟨key.1, fun i hi => ?_⟩
  rw [getElem!_eq_getD_of_lt (fwdSub _ _ _ _) i (by rw [fwdSub_size]; exact hi)]
  exact key.2 i hi

end LNmain

/-! ### `trsvUN`: back substitution with `U`, column oriented -/

section UN
variable {K : Type} [Field K] [Conj K] [Inhabited K]

theorem sum_Ico_shift (g : Nat → K) (f a b : Nat) : ∑ i ∈ Ico (f + a) (f + b), g i = ∑ j ∈ Ico a b, g (f + j) := by
  rw [Nat.add_comm f a, Nat.add_comm f b, ← Finset.sum_Ico_add]

theorem sum_Ico_block (g : Nat → K) (f w : Nat) : ∑ i ∈ Ico f (f + w), g i = ∑ j ∈ range w, g (f + j) := by
  rw [Finset.sum_Ico_eq_sum_range, Nat.add_sub_cancel_left]

theorem filter_shift_hit (f n i : Nat) (hi : i < n) :
    (List.range n).filter (fun a => decide (f + a = f + i)) = [i] := by
  apply filter_range_unique _ _ _ hi
  intro q _; simp

theorem filter_shift_miss (f n p : Nat) (h : ∀ i, i < n → f + i ≠ p) :
    (List.range n).filter (fun a => decide (f + a = p)) = [] := by
  apply filter_range_none
  intro q hq; simpa using h q hq

/-- `dusolve`: the first `t` columns (from the last one) of the column-oriented upper solve -/
def usolveTo (B : Nat → Nat → K) (dv : Nat → K → K) (f w : Nat) (x : Array K) (t : Nat) : Array K :=
  (List.range t).foldl (fun (x : Array K) t =>
    let jc := w - 1 - t
    let xj := dv jc x[f + jc]!
    let x := x.setIfInBounds (f + jc) xj
    (List.range jc).foldl (fun (x : Array K) ir => x.setIfInBounds (f + ir) (x[f + ir]! - xj * B ir jc)) x) x

theorem usolveTo_spec (B : Nat → Nat → K) (dv : Nat → K → K) (f w : Nat) (x : Array K) (hb : f + w ≤ x.size) (z : Nat → K)
    (hz : ∀ jc, jc < w → z jc = dv jc (x[f + jc]! - ∑ j ∈ Ico (jc + 1) w, z j * B jc j)) (t : Nat) (ht : t ≤ w) :
    (usolveTo B dv f w x t).size = x.size ∧
    (∀ i, i < w → (usolveTo B dv f w x t)[f + i]! =
      if w - t ≤ i then z i else x[f + i]! - ∑ j ∈ Ico (w - t) w, z j * B i j) ∧
    (∀ p, (p < f ∨ f + w ≤ p) → (usolveTo B dv f w x t)[p]! = x[p]!) := by
  induction t with
  | zero =>
    refine ⟨rfl, fun i hi => ?_, fun p _ => rfl⟩
    simp only [usolveTo, List.range_zero, List.foldl_nil, Nat.sub_zero]
    rw [if_neg (by omega)]; simp
  | succ t ih =>
    obtain ⟨h1, h2, h3⟩ := ih (by omega)
    have hjc : w - (t + 1) = w - 1 - t := by omega
    have hjc1 : w - 1 - t + 1 = w - t := by omega
    have hxj : dv (w - 1 - t) (usolveTo B dv f w x t)[f + (w - 1 - t)]! = z (w - 1 - t) := by
      rw [h2 _ (by omega), if_neg (by omega), hz _ (by omega), hjc1]
    generalize hxt : usolveTo B dv f w x t = xt at h1 h2 h3 hxj
    have hstep : usolveTo B dv f w x (t + 1) =
        (List.range (w - 1 - t)).foldl (fun (x : Array K) ir =>
          x.setIfInBounds (f + ir) (x[f + ir]! - z (w - 1 - t) * B ir (w - 1 - t)))
          (xt.setIfInBounds (f + (w - 1 - t)) (z (w - 1 - t))) := by
      simp only [usolveTo, List.range_succ, List.foldl_append, List.foldl_cons, List.foldl_nil]
      simp only [usolveTo] at hxt
      rw [hxt, hxj]
    obtain ⟨q1, q2⟩ := foldl_scatter_const (List.range (w - 1 - t)) (fun ir => f + ir)
      (fun ir => z (w - 1 - t) * B ir (w - 1 - t)) (xt.setIfInBounds (f + (w - 1 - t)) (z (w - 1 - t)))
    rw [hstep]
    refine ⟨by rw [q1]; simp [h1], ?_, ?_⟩
    · intro i hi
      rw [q2 _ (by simp; omega), getElem!_setIfInBounds, hjc]
      by_cases hlt : i < w - 1 - t
      · rw [filter_shift_hit f _ i hlt, if_neg (show ¬ w - 1 - t ≤ i by omega),
          if_neg (show ¬ (f + (w - 1 - t) = f + i ∧ f + (w - 1 - t) < xt.size) by omega), h2 i hi,
          if_neg (show ¬ w - t ≤ i by omega)]
        simp only [List.map_cons, List.map_nil, List.sum_cons, List.sum_nil, add_zero]
        rw [Finset.sum_eq_sum_Ico_succ_bot (show w - 1 - t < w by omega)]
        have : w - 1 - t + 1 = w - t := by omega
        rw [this]; ring
      · rw [filter_shift_miss f _ _ (by intro a ha; omega), if_pos (show w - 1 - t ≤ i by omega)]
        simp only [List.map_nil, List.sum_nil, sub_zero]
        by_cases he : i = w - 1 - t
        · rw [if_pos (show f + (w - 1 - t) = f + i ∧ f + (w - 1 - t) < xt.size from ⟨by rw [he], by omega⟩), he]
        · rw [if_neg (show ¬ (f + (w - 1 - t) = f + i ∧ f + (w - 1 - t) < xt.size) by omega), h2 i hi,
            if_pos (show w - t ≤ i by omega)]
    · intro p hp
      by_cases hps : p < x.size
      · rw [q2 _ (by simp; omega), getElem!_setIfInBounds,
          if_neg (show ¬ (f + (w - 1 - t) = p ∧ f + (w - 1 - t) < xt.size) by omega), h3 p hp,
          filter_shift_miss f _ _ (by intro a ha; omega)]
        simp
      · have e1 : ((List.range (w - 1 - t)).foldl (fun (x : Array K) ir =>
            x.setIfInBounds (f + ir) (x[f + ir]! - z (w - 1 - t) * B ir (w - 1 - t)))
            (xt.setIfInBounds (f + (w - 1 - t)) (z (w - 1 - t)))).size = x.size := by rw [q1]; simp [h1]
        exact getElem!_ge _ x e1 p (by omega)

/-- the first `t` columns of the update of the rows above a supernode from U's column storage -/
def uscatTo (U : CSC K) (f : Nat) (x : Array K) (t : Nat) : Array K :=
  (List.range t).foldl (fun (x : Array K) jj =>
    let jcol := f + jj
    (U.col jcol).foldl (fun (x : Array K) (e : Nat × K) => x.setIfInBounds e.1 (x[e.1]! - x[jcol]! * e.2)) x) x

theorem uscatTo_spec (U : CSC K) (f w : Nat) (x : Array K) (hab : ∀ c, c < w → ∀ e ∈ U.col (f + c), e.1 < f)
    (t : Nat) (ht : t ≤ w) :
    (uscatTo U f x t).size = x.size ∧ (∀ p, f ≤ p → (uscatTo U f x t)[p]! = x[p]!) ∧
    (∀ p, p < f → p < x.size → (uscatTo U f x t)[p]! = x[p]! - ∑ jj ∈ range t, x[f + jj]! * U.get p (f + jj)) := by
  induction t with
  | zero => simp [uscatTo]
  | succ t ih =>
    obtain ⟨h1, h2, h3⟩ := ih (by omega)
    have hstep : uscatTo U f x (t + 1) = (U.col (f + t)).foldl (fun (x : Array K) (e : Nat × K) =>
        x.setIfInBounds e.1 (x[e.1]! - x[f + t]! * e.2)) (uscatTo U f x t) := by
      simp [uscatTo, List.range_succ, List.foldl_append]
    generalize hxt : uscatTo U f x t = xt at h1 h2 h3 hstep
    have hne : ∀ e ∈ U.col (f + t), e.1 ≠ f + t := fun e he => by have := hab t (by omega) e he; omega
    obtain ⟨q1, q2⟩ := foldl_scatter (f + t) (U.col (f + t)) (fun e => e.1) (fun e => e.2) xt hne
    rw [hstep]
    refine ⟨by rw [q1, h1], ?_, ?_⟩
    · intro p hp
      by_cases hps : p < x.size
      · rw [q2 p (by omega), h2 p hp]
        have : (U.col (f + t)).filter (fun a => decide (a.1 = p)) = [] := by
          apply List.filter_eq_nil_iff.mpr
          intro e he
          have := hab t (by omega) e he
          simp; omega
        rw [this]; simp
      · exact getElem!_ge _ x (by rw [q1, h1]) p (by omega)
    · intro p hp hps
      rw [q2 p (by omega), h3 p hp hps, h2 (f + t) (by omega), Finset.sum_range_succ, Uget_eq]
      ring

/-- one supernode of `trsvUN` -/
def stepUN (F : LUFac K) (unit : Bool) (s : SN) (x : Array K) : Array K :=
  uscatTo F.U s.fsupc
    (usolveTo (blk F.L s) (fun jc v => if unit then v else v / blk F.L s jc jc) s.fsupc s.nsupc x s.nsupc) s.nsupc

theorem trsvUN_eq (F : LUFac K) (unit : Bool) (x : Array K) :
    trsvUN F unit x = (List.range (F.L.nsuper + 1)).foldl (fun x kk => stepUN F unit (snode F.L (F.L.nsuper - kk)) x) x := rfl

/-- state of the column-oriented back substitution after the columns `≥ c` -/
def InvUN (M : Nat → Nat → K) (b y : Nat → K) (n c : Nat) (x : Array K) : Prop :=
  x.size = n ∧ (∀ i, c ≤ i → i < n → x[i]! = y i) ∧ (∀ i, i < c → x[i]! = b i - ∑ j ∈ Ico c n, M i j * y j)

theorem stepUN_inv (F : LUFac K) (unit : Bool) (k : Nat) (G : SnOK F k) (M : Nat → Nat → K) (b y : Nat → K)
    (hM : ∀ i j, i ≠ j → M i j = F.decodeU i j)
    (hd : ∀ i, M i i = if unit then 1 else F.decodeU i i)
    (hy : ∀ i, i < F.L.n → y i = (b i - ∑ j ∈ Ico (i + 1) F.L.n, M i j * y j) / M i i)
    (x : Array K) (hinv : InvUN M b y F.L.n ((snode F.L k).fsupc + (snode F.L k).nsupc) x) :
    InvUN M b y F.L.n (snode F.L k).fsupc (stepUN F unit (snode F.L k) x) := by
  obtain ⟨hs, hhi, hlo⟩ := hinv
  have g_hi := G.hi; have g_le := G.le_n; have g_blk := G.decodeU_blk; have g_above := G.decodeU_above
  have g_uab := G.uabove
  generalize hsd : snode F.L k = s at *
  have hwn : s.fsupc + s.nsupc ≤ F.L.n := by omega
  -- phase 1
  have hz : ∀ jc, jc < s.nsupc → y (s.fsupc + jc) =
      (fun jc v => if unit then v else v / blk F.L s jc jc) jc
        (x[s.fsupc + jc]! - ∑ j ∈ Ico (jc + 1) s.nsupc, y (s.fsupc + j) * blk F.L s jc j) := by
    intro jc hjc
    have hsum : ∑ j ∈ Ico (s.fsupc + jc + 1) F.L.n, M (s.fsupc + jc) j * y j =
        ∑ j ∈ Ico (jc + 1) s.nsupc, y (s.fsupc + j) * blk F.L s jc j +
          ∑ j ∈ Ico (s.fsupc + s.nsupc) F.L.n, M (s.fsupc + jc) j * y j := by
      rw [← Finset.sum_Ico_consecutive _ (show s.fsupc + jc + 1 ≤ s.fsupc + s.nsupc by omega) hwn]
      congr 1
      rw [Nat.add_assoc, sum_Ico_shift]
      apply Finset.sum_congr rfl
      intro j hj
      have hj' := Finset.mem_Ico.mp hj
      rw [hM _ _ (by omega), g_blk jc j hj'.2 (by omega)]; ring
    rw [hy _ (by omega), hlo _ (by omega), hsum, hd, g_blk jc jc hjc (le_refl _)]
    cases unit
    · simp only [Bool.false_eq_true, if_false]; congr 1; ring
    · simp only [if_true, div_one]; ring
  obtain ⟨p1, p2, p3⟩ := usolveTo_spec (blk F.L s) (fun jc v => if unit then v else v / blk F.L s jc jc)
    s.fsupc s.nsupc x (by omega) (fun i => y (s.fsupc + i)) hz s.nsupc (le_refl _)
  unfold stepUN
  generalize hx1 : usolveTo (blk F.L s) (fun jc v => if unit then v else v / blk F.L s jc jc) s.fsupc s.nsupc x s.nsupc = x1 at *
  obtain ⟨q1, q2, q3⟩ := uscatTo_spec F.U s.fsupc s.nsupc x1 g_uab s.nsupc (le_refl _)
  refine ⟨by rw [q1, p1, hs], ?_, ?_⟩
  · intro i hi hin
    rw [q2 i hi]
    by_cases hiw : i < s.fsupc + s.nsupc
    · have : i = s.fsupc + (i - s.fsupc) := by omega
      rw [this, p2 _ (by omega), if_pos (by omega)]
    · rw [p3 i (Or.inr (by omega))]; exact hhi i (by omega) hin
  · intro i hi
    rw [q3 i hi (by omega), p3 i (Or.inl hi), hlo i (by omega),
      ← Finset.sum_Ico_consecutive _ (show s.fsupc ≤ s.fsupc + s.nsupc by omega) hwn, sum_Ico_block]
    have : ∑ jj ∈ range s.nsupc, x1[s.fsupc + jj]! * F.U.get i (s.fsupc + jj) =
        ∑ j ∈ range s.nsupc, M i (s.fsupc + j) * y (s.fsupc + j) := by
      apply Finset.sum_congr rfl
      intro j hj
      have hj' := mem_range.mp hj
      rw [p2 j hj', if_pos (by omega), hM _ _ (by omega), g_above i j hj' hi]; ring
    rw [this]; ring

theorem trsvUN_correct (F : LUFac K) (H : SCLayout F) (unit : Bool) (M : Nat → Nat → K) (b y : Nat → K)
    (hM : ∀ i j, i ≠ j → M i j = F.decodeU i j)
    (hd : ∀ i, M i i = if unit then 1 else F.decodeU i i)
    (hy : ∀ i, i < F.L.n → y i = (b i - ∑ j ∈ Ico (i + 1) F.L.n, M i j * y j) / M i i)
    (x : Array K) (hx : x.size = F.L.n) (hb : ∀ i, i < F.L.n → x[i]! = b i) :
    (trsvUN F unit x).size = F.L.n ∧ ∀ i, i < F.L.n → (trsvUN F unit x)[i]! = y i := by
  rw [trsvUN_eq]
  have := fold_down (fun k x => stepUN F unit (snode F.L k) x) (fun c x => InvUN M b y F.L.n c x)
    (fun k => F.L.xsup[k]!) F.L.nsuper
    (fun k hk x hinv => by
      have G := H.sn k (by omega)
      apply stepUN_inv F unit k G M b y hM hd hy x
      rw [G.hi]; exact hinv) x
    (by rw [H.last]; exact ⟨hx, fun i hi hi' => by omega, fun i hi => by simp [hb i hi]⟩)
  rw [H.first] at this
  exact ⟨this.1, fun i hi => this.2.1 i (by omega) hi⟩

theorem toArray_get (l : List K) (i : Nat) (hi : i < l.length) : l.toArray[i]! = l.getD i 0 := by
  simp [hi, List.getD_eq_getElem?_getD]

theorem spTrsv_UN (F : LUFac K) (H : SCLayout F) (unit : Bool) (b : Array K) (hb : b.size = F.L.n) :
    (spTrsv F .U .N unit b).size = F.L.n ∧
    ∀ i, i < F.L.n → (spTrsv F .U .N unit b)[i]! = (trsvRef F .U .N unit b)[i]! := by
  by_cases h0 : F.L.n = 0
  · exact ⟨by simp [spTrsv, h0, hb], fun i hi => by omega⟩
  have hn : (F.L.n == 0) = false := by simpa using h0
  have hl : effLower .U .N = false := rfl
  simp only [spTrsv, hn, Bool.false_eq_true, if_false, trsvRef, hl]
  have hUL : (UpLo.U == UpLo.L) = false := rfl
  have hdiag : ∀ i, trsvMat F .U .N unit i i = if unit then 1 else F.decodeU i i := by
    intro i; unfold trsvMat
    cases unit <;> simp [opM, hUL]
  have key := trsvUN_correct F H unit (trsvMat F .U .N unit) (fun i => b.getD i 0)
    (fun i => (bwdSub (trsvMat F .U .N unit) (fun i => trsvMat F .U .N unit i i) (fun i => b.getD i 0) F.L.n F.L.n).getD i 0)
    (fun i j hij => by rw [trsvMat_offdiag F _ _ _ i j hij]; rfl) hdiag
    (fun i hi => bwd_rec _ _ _ _ i hi) b hb
    (fun i hi => getElem!_eq_getD_of_lt b i (by omega))
  refine ⟨key.1, fun i hi => ?_⟩
  rw [toArray_get (bwdSub _ _ _ _ _) i (by rw [bwdSub_length]; exact hi)]
  exact key.2 i hi

end UN

/-! ### transposed solves: row oriented -/

section TR
variable {K : Type} [Field K] [Conj K] [Inhabited K]

/-- gather phase: column `jj` of the block receives `- sum_a x[rd jj a] * cf jj a` -/
def gatherTo {α : Type} (ls : Nat → List α) (rd : Nat → α → Nat) (cf : Nat → α → K) (f : Nat) (x : Array K) (t : Nat) : Array K :=
  (List.range t).foldl (fun (x : Array K) jj =>
    (ls jj).foldl (fun (x : Array K) a => x.setIfInBounds (f + jj) (x[f + jj]! - x[rd jj a]! * cf jj a)) x) x

theorem gatherTo_spec {α : Type} (ls : Nat → List α) (rd : Nat → α → Nat) (cf : Nat → α → K) (f w : Nat) (x : Array K)
    (hb : f + w ≤ x.size) (hrd : ∀ jj, jj < w → ∀ a ∈ ls jj, rd jj a < f ∨ f + w ≤ rd jj a) (t : Nat) (ht : t ≤ w) :
    (gatherTo ls rd cf f x t).size = x.size ∧
    (∀ jj, jj < t → (gatherTo ls rd cf f x t)[f + jj]! = x[f + jj]! - ((ls jj).map fun a => x[rd jj a]! * cf jj a).sum) ∧
    (∀ p, (p < f ∨ f + t ≤ p) → (gatherTo ls rd cf f x t)[p]! = x[p]!) := by
  induction t with
  | zero => simp [gatherTo]
  | succ t ih =>
    obtain ⟨h1, h2, h3⟩ := ih (by omega)
    have hstep : gatherTo ls rd cf f x (t + 1) = (ls t).foldl (fun (x : Array K) a =>
        x.setIfInBounds (f + t) (x[f + t]! - x[rd t a]! * cf t a)) (gatherTo ls rd cf f x t) := by
      simp [gatherTo, List.range_succ, List.foldl_append]
    generalize hxt : gatherTo ls rd cf f x t = xt at h1 h2 h3 hstep
    obtain ⟨q1, q2, q3⟩ := foldl_gather (f + t) (ls t) (rd t) (cf t) xt (by omega)
      (fun a ha => by have := hrd t (by omega) a ha; omega)
    rw [hstep]
    refine ⟨by rw [q1, h1], ?_, ?_⟩
    · intro jj hjj
      by_cases he : jj = t
      · subst he
        rw [q2, h3 _ (Or.inr (le_refl _))]
        congr 2
        apply List.map_congr_left
        intro a ha
        rw [h3 _ (by have := hrd jj (by omega) a ha; omega)]
      · rw [q3 _ (by omega), h2 jj (by omega)]
    · intro p hp
      rw [q3 p (by omega), h3 p (by omega)]

/-- `dtrsv("L", trans, "U")`: unit lower transposed solve with the block, rows from the last one -/
def ltsolveTo (C : Nat → Nat → K) (f w : Nat) (x : Array K) (t : Nat) : Array K :=
  (List.range t).foldl (fun (x : Array K) t =>
    let j := w - 1 - t
    x.setIfInBounds (f + j)
      ((List.range (w - 1 - j)).foldl (fun (acc : K) d =>
        let i := j + 1 + d
        acc - C i j * x[f + i]!) x[f + j]!)) x

theorem ltsolveTo_spec (C : Nat → Nat → K) (f w : Nat) (x : Array K) (hb : f + w ≤ x.size) (z : Nat → K)
    (hz : ∀ j, j < w → z j = x[f + j]! - ∑ i ∈ Ico (j + 1) w, C i j * z i) (t : Nat) (ht : t ≤ w) :
    (ltsolveTo C f w x t).size = x.size ∧
    (∀ i, i < w → (ltsolveTo C f w x t)[f + i]! = if w - t ≤ i then z i else x[f + i]!) ∧
    (∀ p, (p < f ∨ f + w ≤ p) → (ltsolveTo C f w x t)[p]! = x[p]!) := by
  induction t with
  | zero =>
    refine ⟨rfl, fun i hi => ?_, fun p _ => rfl⟩
    simp only [ltsolveTo, List.range_zero, List.foldl_nil, Nat.sub_zero]
    rw [if_neg (by omega)]
  | succ t ih =>
    obtain ⟨h1, h2, h3⟩ := ih (by omega)
    have hstep : ltsolveTo C f w x (t + 1) = (ltsolveTo C f w x t).setIfInBounds (f + (w - 1 - t))
        ((List.range (w - 1 - (w - 1 - t))).foldl (fun (acc : K) d =>
          acc - C (w - 1 - t + 1 + d) (w - 1 - t) * (ltsolveTo C f w x t)[f + (w - 1 - t + 1 + d)]!)
          (ltsolveTo C f w x t)[f + (w - 1 - t)]!) := by
      simp [ltsolveTo, List.range_succ, List.foldl_append]
    generalize hxt : ltsolveTo C f w x t = xt at h1 h2 h3 hstep
    have hval : (List.range (w - 1 - (w - 1 - t))).foldl (fun (acc : K) d =>
          acc - C (w - 1 - t + 1 + d) (w - 1 - t) * xt[f + (w - 1 - t + 1 + d)]!) xt[f + (w - 1 - t)]! = z (w - 1 - t) := by
      rw [foldl_sub_range, h2 _ (by omega), if_neg (by omega), hz _ (by omega), Finset.sum_Ico_eq_sum_range]
      have : w - (w - 1 - t + 1) = w - 1 - (w - 1 - t) := by omega
      rw [this]
      congr 1
      apply Finset.sum_congr rfl
      intro d hd
      have hd' := mem_range.mp hd
      rw [h2 _ (by omega), if_pos (by omega)]
    rw [hstep, hval]
    refine ⟨by simp [h1], ?_, ?_⟩
    · intro i hi
      rw [getElem!_setIfInBounds]
      by_cases he : i = w - 1 - t
      · rw [if_pos (show f + (w - 1 - t) = f + i ∧ f + (w - 1 - t) < xt.size from ⟨by rw [he], by omega⟩),
          if_pos (show w - (t + 1) ≤ i by omega), he]
      · rw [if_neg (show ¬ (f + (w - 1 - t) = f + i ∧ f + (w - 1 - t) < xt.size) by omega), h2 i hi]
        by_cases h' : w - t ≤ i
        · rw [if_pos h', if_pos (show w - (t + 1) ≤ i by omega)]
        · rw [if_neg h', if_neg (show ¬ w - (t + 1) ≤ i by omega)]
    · intro p hp
      rw [getElem!_setIfInBounds, if_neg (show ¬ (f + (w - 1 - t) = p ∧ f + (w - 1 - t) < xt.size) by omega), h3 p hp]

/-- `dtrsv("U", trans, diag)`: upper transposed solve with the block, rows from the first one -/
def utsolveTo (C : Nat → Nat → K) (dv : Nat → K → K) (f : Nat) (x : Array K) (t : Nat) : Array K :=
  (List.range t).foldl (fun (x : Array K) j =>
    let acc := (List.range j).foldl (fun (acc : K) i => acc - C i j * x[f + i]!) x[f + j]!
    x.setIfInBounds (f + j) (dv j acc)) x

theorem utsolveTo_spec (C : Nat → Nat → K) (dv : Nat → K → K) (f : Nat) (x : Array K) (w : Nat) (hb : f + w ≤ x.size)
    (z : Nat → K) (hz : ∀ j, j < w → z j = dv j (x[f + j]! - ∑ i ∈ range j, C i j * z i)) (t : Nat) (ht : t ≤ w) :
    (utsolveTo C dv f x t).size = x.size ∧ (∀ i, i < t → (utsolveTo C dv f x t)[f + i]! = z i) ∧
    (∀ p, (p < f ∨ f + t ≤ p) → (utsolveTo C dv f x t)[p]! = x[p]!) := by
  induction t with
  | zero => simp [utsolveTo]
  | succ t ih =>
    obtain ⟨h1, h2, h3⟩ := ih (by omega)
    have hstep : utsolveTo C dv f x (t + 1) = (utsolveTo C dv f x t).setIfInBounds (f + t)
        (dv t ((List.range t).foldl (fun (acc : K) i => acc - C i t * (utsolveTo C dv f x t)[f + i]!)
          (utsolveTo C dv f x t)[f + t]!)) := by
      simp [utsolveTo, List.range_succ, List.foldl_append]
    rw [hstep]
    refine ⟨by simp [h1], ?_, ?_⟩
    · intro i hi
      rw [getElem!_setIfInBounds, h1]
      by_cases hit : i = t
      · subst hit
        rw [if_pos ⟨rfl, by omega⟩, foldl_sub_range, h3 (f + i) (Or.inr (le_refl _)), hz i (by omega)]
        congr 2
        apply Finset.sum_congr rfl
        intro j hj
        rw [h2 j (mem_range.mp hj)]
      · rw [if_neg (by omega)]
        exact h2 i (by omega)
    · intro p hp
      rw [getElem!_setIfInBounds, if_neg (by omega)]
      exact h3 p (by omega)

/-- the laws of the conjugation the transposed / conjugated solves rely on -/
structure ConjOK (K : Type) [Field K] [Conj K] : Prop where
  zero : Conj.conj (0 : K) = 0
  one : Conj.conj (1 : K) = 1
  add : ∀ a b : K, Conj.conj (a + b) = Conj.conj a + Conj.conj b

theorem cj_N (v : K) : cj Tr.N v = v := rfl
theorem cj_T (v : K) : cj Tr.T v = v := rfl
theorem cj_C (v : K) : cj Tr.C v = Conj.conj v := rfl

theorem cj_zero (tr : Tr) (h : tr = Tr.C → ConjOK K) : cj tr (0 : K) = 0 := by
  cases tr
  · rfl
  · rfl
  · rw [cj_C]; exact (h rfl).zero

theorem cj_one (tr : Tr) (h : tr = Tr.C → ConjOK K) : cj tr (1 : K) = 1 := by
  cases tr
  · rfl
  · rfl
  · rw [cj_C]; exact (h rfl).one

theorem cj_add (tr : Tr) (h : tr = Tr.C → ConjOK K) (a b : K) : cj tr (a + b) = cj tr a + cj tr b := by
  cases tr
  · rfl
  · rfl
  · simp only [cj_C]; exact (h rfl).add a b

theorem cj_list_sum (tr : Tr) (h : tr = Tr.C → ConjOK K) (l : List K) : cj tr l.sum = (l.map (cj tr)).sum := by
  induction l with
  | nil => simpa using cj_zero tr h
  | cons a l ih => rw [List.sum_cons, cj_add tr h, ih, List.map_cons, List.sum_cons]

theorem opM_tr (tr : Tr) (htr : tr ≠ Tr.N) (T : Nat → Nat → K) (i j : Nat) : opM tr T i j = cj tr (T j i) := by
  cases tr
  · exact absurd rfl htr
  · rfl
  · rfl

variable {F : LUFac K} {k : Nat}

/-- a sum over the rows below the diagonal of column `fsupc + c` of `L`, read through the row list -/
theorem SnOK.sum_col (G : SnOK F k) (c : Nat) (hc : c < (snode F.L k).nsupc) (φ : Nat → K → K) (hφ : ∀ i, φ i 0 = 0) :
    ∑ i ∈ Ico ((snode F.L k).fsupc + c + 1) F.L.n, φ i (F.decodeL i ((snode F.L k).fsupc + c)) =
      ∑ p ∈ Ico (c + 1) (snode F.L k).nsupr, φ (rowAt F.L (snode F.L k) p) (blk F.L (snode F.L k) p c) := by
  have himg : ∑ p ∈ Ico (c + 1) (snode F.L k).nsupr, φ (rowAt F.L (snode F.L k) p) (blk F.L (snode F.L k) p c) =
      ∑ i ∈ (Ico (c + 1) (snode F.L k).nsupr).image (rowAt F.L (snode F.L k)),
        φ i (F.decodeL i ((snode F.L k).fsupc + c)) := by
    rw [Finset.sum_image]
    · apply Finset.sum_congr rfl
      intro p hp
      have hp' := Finset.mem_Ico.mp hp
      rw [G.decodeL_hit c p hc (by omega) hp'.2]
    · intro p hp q hq h
      have hp' := Finset.mem_Ico.mp (Finset.mem_coe.mp hp)
      have hq' := Finset.mem_Ico.mp (Finset.mem_coe.mp hq)
      exact G.rowAt_inj p q hp'.2 hq'.2 h
  rw [himg]
  symm
  apply Finset.sum_subset
  · intro i hi
    obtain ⟨p, hp, rfl⟩ := Finset.mem_image.mp hi
    have hp' := Finset.mem_Ico.mp hp
    refine Finset.mem_Ico.mpr ⟨?_, G.rowAt_lt p hp'.2⟩
    by_cases hpw : p < (snode F.L k).nsupc
    · rw [G.lead p hpw]; omega
    · have := (G.trail p (by omega) hp'.2).1; omega
  · intro i hi hni
    have hi' := Finset.mem_Ico.mp hi
    rw [G.decodeL_miss c i hc (by omega), hφ]
    intro p hcp hp h
    exact hni (Finset.mem_image.mpr ⟨p, Finset.mem_Ico.mpr ⟨by omega, hp⟩, h⟩)

/-- one supernode of `trsvLT` -/
def stepLT (F : LUFac K) (tr : Tr) (s : SN) (x : Array K) : Array K :=
  ltsolveTo (fun i j => cj tr (blk F.L s i j)) s.fsupc s.nsupc
    (gatherTo (fun _ => List.range (s.nsupr - s.nsupc)) (fun _ i => F.L.lsub[s.istart + s.nsupc + i]!)
      (fun jj i => cj tr (blk F.L s (s.nsupc + i) jj)) s.fsupc x s.nsupc) s.nsupc

theorem trsvLT_eq (F : LUFac K) (tr : Tr) (x : Array K) :
    trsvLT F tr x = (List.range (F.L.nsuper + 1)).foldl (fun x kk => stepLT F tr (snode F.L (F.L.nsuper - kk)) x) x := rfl

/-- state of a row-oriented back substitution after the rows `≥ c` -/
def InvB (b y : Nat → K) (n c : Nat) (x : Array K) : Prop :=
  x.size = n ∧ (∀ i, c ≤ i → i < n → x[i]! = y i) ∧ (∀ i, i < c → x[i]! = b i)

theorem stepLT_inv (F : LUFac K) (tr : Tr) (htr : tr = Tr.C → ConjOK K) (k : Nat) (G : SnOK F k)
    (M : Nat → Nat → K) (b y : Nat → K)
    (hM : ∀ i j, i ≠ j → M i j = cj tr (F.decodeL j i))
    (hy : ∀ i, i < F.L.n → y i = b i - ∑ j ∈ Ico (i + 1) F.L.n, M i j * y j)
    (x : Array K) (hinv : InvB b y F.L.n ((snode F.L k).fsupc + (snode F.L k).nsupc) x) :
    InvB b y F.L.n (snode F.L k).fsupc (stepLT F tr (snode F.L k) x) := by
  obtain ⟨hs, hhi, hlo⟩ := hinv
  have g_hi := G.hi; have g_le := G.le_n; have hwr := G.wle; have g_lead := G.lead; have g_trail := G.trail
  have g_sum := G.sum_col
  generalize hsd : snode F.L k = s at *
  have hwn : s.fsupc + s.nsupc ≤ F.L.n := by omega
  have hpos : ∀ i, F.L.lsub[s.istart + s.nsupc + i]! = rowAt F.L s (s.nsupc + i) := by
    intro i; unfold rowAt; rw [Nat.add_assoc]
  obtain ⟨p1, p2, p3⟩ := gatherTo_spec (fun _ => List.range (s.nsupr - s.nsupc)) (fun _ i => F.L.lsub[s.istart + s.nsupc + i]!)
    (fun jj i => cj tr (blk F.L s (s.nsupc + i) jj)) s.fsupc s.nsupc x (by omega)
    (fun jj hjj a ha => by
      have ha' := List.mem_range.mp ha
      have := (g_trail (s.nsupc + a) (by omega) (by omega)).1
      rw [hpos]; omega) s.nsupc (le_refl _)
  unfold stepLT
  generalize hx1 : gatherTo (fun _ => List.range (s.nsupr - s.nsupc)) (fun _ i => F.L.lsub[s.istart + s.nsupc + i]!)
    (fun jj i => cj tr (blk F.L s (s.nsupc + i) jj)) s.fsupc x s.nsupc = x1 at *
  have hz : ∀ j, j < s.nsupc → y (s.fsupc + j) =
      x1[s.fsupc + j]! - ∑ i ∈ Ico (j + 1) s.nsupc, (fun i j => cj tr (blk F.L s i j)) i j * y (s.fsupc + i) := by
    intro j hj
    have e1 : ∑ i ∈ Ico (s.fsupc + j + 1) F.L.n, M (s.fsupc + j) i * y i =
        ∑ i ∈ Ico (s.fsupc + j + 1) F.L.n, (fun i v => cj tr v * y i) i (F.decodeL i (s.fsupc + j)) := by
      apply Finset.sum_congr rfl
      intro i hi
      have hi' := Finset.mem_Ico.mp hi
      rw [hM _ _ (by omega)]
    have eA : ∑ p ∈ Ico (j + 1) s.nsupc, (fun i v => cj tr v * y i) (rowAt F.L s p) (blk F.L s p j) =
        ∑ i ∈ Ico (j + 1) s.nsupc, cj tr (blk F.L s i j) * y (s.fsupc + i) := by
      apply Finset.sum_congr rfl
      intro i hi
      have hi' := Finset.mem_Ico.mp hi
      simp only
      rw [g_lead i hi'.2]
    have eB : ∑ p ∈ Ico s.nsupc s.nsupr, (fun i v => cj tr v * y i) (rowAt F.L s p) (blk F.L s p j) =
        ((List.range (s.nsupr - s.nsupc)).map fun a =>
          x[F.L.lsub[s.istart + s.nsupc + a]!]! * cj tr (blk F.L s (s.nsupc + a) j)).sum := by
      rw [list_range_map_sum, Finset.sum_Ico_eq_sum_range]
      apply Finset.sum_congr rfl
      intro i hi
      have hi' := mem_range.mp hi
      simp only
      rw [hpos, hhi _ (by have := (g_trail (s.nsupc + i) (by omega) (by omega)).1; omega)
        (g_trail (s.nsupc + i) (by omega) (by omega)).2]
      ring
    rw [hy _ (by omega), e1, g_sum j hj (fun i v => cj tr v * y i) (fun i => by simp [cj_zero tr htr]),
      ← Finset.sum_Ico_consecutive _ (show j + 1 ≤ s.nsupc by omega) hwr, eA, eB, p2 j hj, hlo _ (by omega)]
    ring
  obtain ⟨q1, q2, q3⟩ := ltsolveTo_spec (fun i j => cj tr (blk F.L s i j)) s.fsupc s.nsupc x1 (by omega)
    (fun i => y (s.fsupc + i)) hz s.nsupc (le_refl _)
  refine ⟨by rw [q1, p1, hs], ?_, ?_⟩
  · intro i hi hin
    by_cases hiw : i < s.fsupc + s.nsupc
    · have : i = s.fsupc + (i - s.fsupc) := by omega
      rw [this, q2 _ (by omega), if_pos (by omega)]
    · rw [q3 i (Or.inr (by omega)), p3 i (Or.inr (by omega))]; exact hhi i (by omega) hin
  · intro i hi
    rw [q3 i (Or.inl hi), p3 i (Or.inl hi)]; exact hlo i (by omega)

theorem trsvLT_correct (F : LUFac K) (H : SCLayout F) (tr : Tr) (htr : tr = Tr.C → ConjOK K)
    (M : Nat → Nat → K) (b y : Nat → K)
    (hM : ∀ i j, i ≠ j → M i j = cj tr (F.decodeL j i))
    (hy : ∀ i, i < F.L.n → y i = b i - ∑ j ∈ Ico (i + 1) F.L.n, M i j * y j)
    (x : Array K) (hx : x.size = F.L.n) (hb : ∀ i, i < F.L.n → x[i]! = b i) :
    (trsvLT F tr x).size = F.L.n ∧ ∀ i, i < F.L.n → (trsvLT F tr x)[i]! = y i := by
  rw [trsvLT_eq]
  have := fold_down (fun k x => stepLT F tr (snode F.L k) x) (fun c x => InvB b y F.L.n c x)
    (fun k => F.L.xsup[k]!) F.L.nsuper
    (fun k hk x hinv => by
      have G := H.sn k (by omega)
      apply stepLT_inv F tr htr k G M b y hM hy x
      rw [G.hi]; exact hinv) x
    (by rw [H.last]; exact ⟨hx, fun i hi hi' => by omega, fun i hi => hb i hi⟩)
  rw [H.first] at this
  exact ⟨this.1, fun i hi => this.2.1 i (by omega) hi⟩

theorem spTrsv_LT (F : LUFac K) (H : SCLayout F) (tr : Tr) (htn : tr ≠ Tr.N) (htr : tr = Tr.C → ConjOK K)
    (unit : Bool) (b : Array K) (hb : b.size = F.L.n) :
    (spTrsv F .L tr unit b).size = F.L.n ∧
    ∀ i, i < F.L.n → (spTrsv F .L tr unit b)[i]! = (trsvRef F .L tr unit b)[i]! := by
  by_cases h0 : F.L.n = 0
  · exact ⟨by simp [spTrsv, h0, hb], fun i hi => by omega⟩
  have hn : (F.L.n == 0) = false := by simpa using h0
  have hl : effLower .L tr = false := by cases tr <;> first | exact absurd rfl htn | rfl
  have hsp : spTrsv F .L tr unit b = trsvLT F tr b := by
    cases tr
    · exact absurd rfl htn
    · simp [spTrsv, hn]
    · simp [spTrsv, hn]
  simp only [hsp, trsvRef, hl, Bool.false_eq_true, if_false]
  have hLL : (UpLo.L == UpLo.L) = true := rfl
  have hoff : ∀ i j, i ≠ j → trsvMat F .L tr unit i j = cj tr (F.decodeL j i) := by
    intro i j hij
    rw [trsvMat_offdiag F _ _ _ i j hij, opM_tr tr htn]; rfl
  have hdiag : ∀ i, trsvMat F .L tr unit i i = 1 := by
    intro i; unfold trsvMat
    cases unit
    · simp only [Bool.false_and, Bool.false_eq_true, if_false, hLL, if_true]
      rw [opM_tr tr htn, decodeL_diag, cj_one tr htr]
    · simp
  have key := trsvLT_correct F H tr htr (trsvMat F .L tr unit) (fun i => b.getD i 0)
    (fun i => (bwdSub (trsvMat F .L tr unit) (fun i => trsvMat F .L tr unit i i) (fun i => b.getD i 0) F.L.n F.L.n).getD i 0)
    hoff (fun i hi => by
      have := bwd_rec (trsvMat F .L tr unit) (fun i => trsvMat F .L tr unit i i) (fun i => b.getD i 0) F.L.n i hi
      rw [hdiag, div_one] at this
      exact this) b hb
    (fun i hi => getElem!_eq_getD_of_lt b i (by omega))
  refine ⟨key.1, fun i hi => ?_⟩
  rw [toArray_get (bwdSub _ _ _ _ _) i (by rw [bwdSub_length]; exact hi)]
  exact key.2 i hi

/-- one supernode of `trsvUT` -/
def stepUT (F : LUFac K) (tr : Tr) (unit : Bool) (s : SN) (x : Array K) : Array K :=
  utsolveTo (fun i j => cj tr (blk F.L s i j)) (fun j acc => if unit then acc else acc / cj tr (blk F.L s j j)) s.fsupc
    (gatherTo (fun jj => F.U.col (s.fsupc + jj)) (fun _ (e : Nat × K) => e.1) (fun _ (e : Nat × K) => cj tr e.2)
      s.fsupc x s.nsupc) s.nsupc

theorem trsvUT_eq (F : LUFac K) (tr : Tr) (unit : Bool) (x : Array K) :
    trsvUT F tr unit x = (List.range (F.L.nsuper + 1)).foldl (fun x k => stepUT F tr unit (snode F.L k) x) x := rfl

/-- state of a row-oriented forward substitution after the rows `< c` -/
def InvF (b y : Nat → K) (n c : Nat) (x : Array K) : Prop :=
  x.size = n ∧ (∀ i, i < c → x[i]! = y i) ∧ (∀ i, c ≤ i → i < n → x[i]! = b i)

theorem stepUT_inv (F : LUFac K) (tr : Tr) (htr : tr = Tr.C → ConjOK K) (unit : Bool) (k : Nat) (G : SnOK F k)
    (M : Nat → Nat → K) (b y : Nat → K)
    (hM : ∀ i j, i ≠ j → M i j = cj tr (F.decodeU j i))
    (hd : ∀ i, M i i = if unit then 1 else cj tr (F.decodeU i i))
    (hy : ∀ i, i < F.L.n → y i = (b i - ∑ j ∈ range i, M i j * y j) / M i i)
    (x : Array K) (hinv : InvF b y F.L.n (snode F.L k).fsupc x) :
    InvF b y F.L.n ((snode F.L k).fsupc + (snode F.L k).nsupc) (stepUT F tr unit (snode F.L k) x) := by
  obtain ⟨hs, hlo, hhi⟩ := hinv
  have g_hi := G.hi; have g_le := G.le_n; have g_blk := G.decodeU_blk; have g_above := G.decodeU_above
  have g_uab := G.uabove
  generalize hsd : snode F.L k = s at *
  have hwn : s.fsupc + s.nsupc ≤ F.L.n := by omega
  obtain ⟨p1, p2, p3⟩ := gatherTo_spec (fun jj => F.U.col (s.fsupc + jj)) (fun _ (e : Nat × K) => e.1)
    (fun _ (e : Nat × K) => cj tr e.2) s.fsupc s.nsupc x (by omega)
    (fun jj hjj a ha => Or.inl (g_uab jj hjj a ha)) s.nsupc (le_refl _)
  unfold stepUT
  generalize hx1 : gatherTo (fun jj => F.U.col (s.fsupc + jj)) (fun _ (e : Nat × K) => e.1)
    (fun _ (e : Nat × K) => cj tr e.2) s.fsupc x s.nsupc = x1 at *
  have hz : ∀ j, j < s.nsupc → y (s.fsupc + j) =
      (fun j acc => if unit then acc else acc / cj tr (blk F.L s j j)) j
        (x1[s.fsupc + j]! - ∑ i ∈ range j, (fun i j => cj tr (blk F.L s i j)) i j * y (s.fsupc + i)) := by
    intro j hj
    have eA : ∑ i ∈ range s.fsupc, M (s.fsupc + j) i * y i =
        ((F.U.col (s.fsupc + j)).map fun e => x[e.1]! * cj tr e.2).sum := by
      rw [sum_by_key (F.U.col (s.fsupc + j)) s.fsupc (fun e => x[e.1]! * cj tr e.2) (g_uab j hj)]
      apply Finset.sum_congr rfl
      intro i hi
      have hi' := mem_range.mp hi
      rw [hM _ _ (by omega), g_above i j hj hi', Uget_eq, cj_list_sum tr htr, List.map_map, ← List.sum_map_mul_right]
      congr 1
      apply List.map_congr_left
      intro e he
      have : e.1 = i := by simpa using (List.mem_filter.mp he).2
      simp only [Function.comp]
      rw [this, hlo i hi']
      ring
    have eB : ∑ i ∈ range j, M (s.fsupc + j) (s.fsupc + i) * y (s.fsupc + i) =
        ∑ i ∈ range j, cj tr (blk F.L s i j) * y (s.fsupc + i) := by
      apply Finset.sum_congr rfl
      intro i hi
      have hi' := mem_range.mp hi
      rw [hM _ _ (by omega), g_blk i j hj (by omega)]
    rw [hy _ (by omega), Finset.sum_range_add, eA, eB, p2 j hj, hhi _ (by omega) (by omega), hd, g_blk j j hj (le_refl _)]
    cases unit
    · simp only [Bool.false_eq_true, if_false]; congr 1; ring
    · simp only [if_true, div_one]; ring
  obtain ⟨q1, q2, q3⟩ := utsolveTo_spec (fun i j => cj tr (blk F.L s i j))
    (fun j acc => if unit then acc else acc / cj tr (blk F.L s j j)) s.fsupc x1 s.nsupc (by omega)
    (fun i => y (s.fsupc + i)) hz s.nsupc (le_refl _)
  refine ⟨by rw [q1, p1, hs], ?_, ?_⟩
  · intro i hi
    by_cases hif : i < s.fsupc
    · rw [q3 i (Or.inl hif), p3 i (Or.inl hif)]; exact hlo i hif
    · have : i = s.fsupc + (i - s.fsupc) := by omega
      rw [this, q2 _ (by omega)]
  · intro i hi hin
    rw [q3 i (Or.inr hi), p3 i (Or.inr hi)]; exact hhi i (by omega) hin

theorem trsvUT_correct (F : LUFac K) (H : SCLayout F) (tr : Tr) (htr : tr = Tr.C → ConjOK K) (unit : Bool)
    (M : Nat → Nat → K) (b y : Nat → K)
    (hM : ∀ i j, i ≠ j → M i j = cj tr (F.decodeU j i))
    (hd : ∀ i, M i i = if unit then 1 else cj tr (F.decodeU i i))
    (hy : ∀ i, i < F.L.n → y i = (b i - ∑ j ∈ range i, M i j * y j) / M i i)
    (x : Array K) (hx : x.size = F.L.n) (hb : ∀ i, i < F.L.n → x[i]! = b i) :
    (trsvUT F tr unit x).size = F.L.n ∧ ∀ i, i < F.L.n → (trsvUT F tr unit x)[i]! = y i := by
  rw [trsvUT_eq]
  have := fold_up (fun k x => stepUT F tr unit (snode F.L k) x) (fun c x => InvF b y F.L.n c x)
    (fun k => F.L.xsup[k]!) (F.L.nsuper + 1)
    (fun k hk x hinv => by
      have G := H.sn k hk
      have := stepUT_inv F tr htr unit k G M b y hM hd hy x hinv
      rw [G.hi] at this; exact this) x
    (by rw [H.first]; exact ⟨hx, fun i hi => by omega, fun i _ hi => hb i hi⟩)
  rw [H.last] at this
  exact ⟨this.1, this.2.1⟩

theorem spTrsv_UT (F : LUFac K) (H : SCLayout F) (tr : Tr) (htn : tr ≠ Tr.N) (htr : tr = Tr.C → ConjOK K)
    (unit : Bool) (b : Array K) (hb : b.size = F.L.n) :
    (spTrsv F .U tr unit b).size = F.L.n ∧
    ∀ i, i < F.L.n → (spTrsv F .U tr unit b)[i]! = (trsvRef F .U tr unit b)[i]! := by
  by_cases h0 : F.L.n = 0
  · exact ⟨by simp [spTrsv, h0, hb], fun i hi => by omega⟩
  have hn : (F.L.n == 0) = false := by simpa using h0
  have hl : effLower .U tr = true := by cases tr <;> first | exact absurd rfl htn | rfl
  have hsp : spTrsv F .U tr unit b = trsvUT F tr unit b := by
    cases tr
    · exact absurd rfl htn
    · simp [spTrsv, hn]
    · simp [spTrsv, hn]
  simp only [hsp, trsvRef, hl, if_true]
  have hUL : (UpLo.U == UpLo.L) = false := rfl
  have hoff : ∀ i j, i ≠ j → trsvMat F .U tr unit i j = cj tr (F.decodeU j i) := by
    intro i j hij
    rw [trsvMat_offdiag F _ _ _ i j hij, opM_tr tr htn]; rfl
  have hdiag : ∀ i, trsvMat F .U tr unit i i = if unit then 1 else cj tr (F.decodeU i i) := by
    intro i; unfold trsvMat
    cases unit
    · simp only [Bool.false_and, Bool.false_eq_true, if_false, hUL]
      rw [opM_tr tr htn]
    · simp
  have key := trsvUT_correct F H tr htr unit (trsvMat F .U tr unit) (fun i => b.getD i 0)
    (fun i => (fwdSub (trsvMat F .U tr unit) (fun i => trsvMat F .U tr unit i i) (fun i => b.getD i 0) F.L.n).getD i 0)
    hoff hdiag (fun i hi => fwd_rec _ _ _ _ i hi) b hb
    (fun i hi => getElem!_eq_getD_of_lt b i (by omega))
  refine ⟨key.1, fun i hi => ?_⟩
  rw [getElem!_eq_getD_of_lt (fwdSub _ _ _ _) i (by rw [fwdSub_size]; exact hi)]
  exact key.2 i hi

/-- **the supernodal model equals the dense reference**, all twelve `uplo × trans × diag` combinations -/
theorem spTrsv_eq_ref (F : LUFac K) (H : SCLayout F) (uplo : UpLo) (tr : Tr) (htr : tr = Tr.C → ConjOK K)
    (unit : Bool) (b : Array K) (hb : b.size = F.L.n) :
    (spTrsv F uplo tr unit b).size = F.L.n ∧
    ∀ i, i < F.L.n → (spTrsv F uplo tr unit b)[i]! = (trsvRef F uplo tr unit b)[i]! := by
  cases uplo
  · by_cases htn : tr = Tr.N
    · subst htn; exact spTrsv_LN F H unit b hb
    · exact spTrsv_LT F H tr htn htr unit b hb
  · by_cases htn : tr = Tr.N
    · subst htn; exact spTrsv_UN F H unit b hb
    · exact spTrsv_UT F H tr htn htr unit b hb

end TR

/-! ### the decoded factors are triangular -/

section tri
variable {K : Type} [Field K] [Conj K] [Inhabited K] {F : LUFac K}

/-- every column lies in exactly one supernode -/
theorem SCLayout.find (H : SCLayout F) (j : Nat) (hj : j < F.L.n) :
    ∃ k, k < F.L.nsuper + 1 ∧ ∃ c, c < (snode F.L k).nsupc ∧ j = (snode F.L k).fsupc + c := by
  have key : ∀ N, N ≤ F.L.nsuper + 1 → j < F.L.xsup[N]! → ∃ k, k < N ∧ F.L.xsup[k]! ≤ j ∧ j < F.L.xsup[k+1]! := by
    intro N
    induction N with
    | zero => intro _ h; rw [H.first] at h; omega
    | succ N ih =>
      intro hN h
      by_cases hlt : j < F.L.xsup[N]!
      · obtain ⟨k, hk, h1, h2⟩ := ih (by omega) hlt
        exact ⟨k, by omega, h1, h2⟩
      · exact ⟨N, by omega, by omega, h⟩
  obtain ⟨k, hk, h1, h2⟩ := key (F.L.nsuper + 1) (le_refl _) (by rw [H.last]; exact hj)
  refine ⟨k, hk, j - F.L.xsup[k]!, ?_, ?_⟩
  · show j - F.L.xsup[k]! < F.L.xsup[k+1]! - F.L.xsup[k]!
    omega
  · show j = F.L.xsup[k]! + (j - F.L.xsup[k]!)
    omega

theorem SCLayout.decodeL_upper (H : SCLayout F) (i j : Nat) (hj : j < F.L.n) (hij : i < j) : F.decodeL i j = 0 := by
  obtain ⟨k, hk, c, hc, rfl⟩ := H.find j hj
  have G := H.sn k hk
  apply G.decodeL_miss c i hc (by omega)
  intro p hcp hp
  by_cases hpw : p < (snode F.L k).nsupc
  · rw [G.lead p hpw]; omega
  · have := (G.trail p (by omega) hp).1; omega

theorem SCLayout.decodeU_lower (H : SCLayout F) (i j : Nat) (hj : j < F.L.n) (hij : j < i) : F.decodeU i j = 0 := by
  obtain ⟨k, hk, c, hc, rfl⟩ := H.find j hj
  exact (H.sn k hk).decodeU_below i c hc hij

/-- `op(decodeL)` / `op(decodeU)` is triangular on well-formed storage -/
theorem SCLayout.trsvMat_tri (H : SCLayout F) (uplo : UpLo) (tr : Tr) (htr : tr = Tr.C → ConjOK K) (unit : Bool)
    (i j : Nat) (hi : i < F.L.n) (hj : j < F.L.n) (h : if effLower uplo tr then i < j else j < i) :
    trsvMat F uplo tr unit i j = 0 := by
  have hne : i ≠ j := by split at h <;> omega
  rw [trsvMat_offdiag F uplo tr unit i j hne]
  have hLL : (UpLo.L == UpLo.L) = true := rfl
  have hUL : (UpLo.U == UpLo.L) = false := rfl
  cases uplo
  · simp only [hLL, if_true]
    by_cases htn : tr = Tr.N
    · subst htn
      have : effLower .L .N = true := rfl
      simp only [this, if_true] at h
      exact H.decodeL_upper i j hj h
    · have : effLower .L tr = false := by cases tr <;> first | exact absurd rfl htn | rfl
      simp only [this, Bool.false_eq_true, if_false] at h
      rw [opM_tr tr htn, H.decodeL_upper j i hi h, cj_zero tr htr]
  · simp only [hUL, Bool.false_eq_true, if_false]
    by_cases htn : tr = Tr.N
    · subst htn
      have : effLower .U .N = false := rfl
      simp only [this, Bool.false_eq_true, if_false] at h
      exact H.decodeU_lower i j hj h
    · have : effLower .U tr = true := by cases tr <;> first | exact absurd rfl htn | rfl
      simp only [this, if_true] at h
      rw [opM_tr tr htn, H.decodeU_lower j i hi h, cj_zero tr htr]

end tri

end Slu.Kernels
