import SluProofs.Lemmas.Solve
import Mathlib.LinearAlgebra.Matrix.Block
/-
Transversals (C04, structural singularity).

* `exists_perm_of_det_ne_zero`: a square matrix with nonzero determinant has a transversal — a
  permutation `σ` with `A(σ j, j) ≠ 0` for every column (a nonzero term of the Leibniz expansion).
* `exists_transversal_of_LU`: so does every `A` with `A(π k, j) = (L U)(k, j)`, `π` injective, `L` unit
  lower triangular, `U` upper triangular with nonzero diagonal.
* `inv_transversal`: the bridge to the column LU model — when the invariant `Inv` holds for all `n`
  columns of a square matrix, the matrix has a transversal.
* `no_transversal_of_hall`: the pigeonhole direction of Hall's theorem — `k` columns whose admissible
  rows lie in a set of fewer than `k` rows have no transversal.

Mathlib: `Mathlib.LinearAlgebra.Matrix.Block` (determinant of a triangular matrix; it brings
`Matrix.det_mul`, `Matrix.det_apply` from `…Determinant.Basic`).
-/
namespace Slu.LU
open Slu Finset

section linalg
variable {K : Type} [Field K] {n : Nat}

/-- a nonzero determinant has a nonzero term in its Leibniz expansion: a transversal -/
theorem exists_perm_of_det_ne_zero (A : Matrix (Fin n) (Fin n) K) (h : A.det ≠ 0) :
    ∃ σ : Equiv.Perm (Fin n), ∀ j, A (σ j) j ≠ 0 := by
  rw [Matrix.det_apply] at h
  obtain ⟨σ, _, hσ⟩ := Finset.exists_ne_zero_of_sum_ne_zero h
  refine ⟨σ, fun j => ?_⟩
  have hp : ∏ i, A (σ i) i ≠ 0 := by
    intro h0; apply hσ; rw [h0, smul_zero]
  exact Finset.prod_ne_zero_iff.mp hp j (Finset.mem_univ j)

/-- `A(π k, j) = (L U)(k, j)` with `π` injective, `L` unit lower and `U` upper triangular with nonzero
diagonal: `det (L U) = ∏ U_kk ≠ 0`, a nonzero Leibniz term `τ` of `L U` gives the transversal `π ∘ τ` of `A` -/
theorem exists_transversal_of_LU (A L U : Matrix (Fin n) (Fin n) K) (π : Fin n → Fin n)
    (hπ : Function.Injective π)
    (hA : ∀ k j, A (π k) j = ∑ t, L k t * U t j)
    (hL : ∀ k t, k < t → L k t = 0) (hL1 : ∀ k, L k k = 1)
    (hU : ∀ t j, j < t → U t j = 0) (hUd : ∀ k, U k k ≠ 0) :
    ∃ σ : Equiv.Perm (Fin n), ∀ j, A (σ j) j ≠ 0 := by
  have hLU : (L * U).det ≠ 0 := by
    rw [Matrix.det_mul, Matrix.det_of_isLowerTriangular L (fun i j hij => hL i j hij),
      Matrix.det_of_isUpperTriangular (M := U) (fun i j hij => hU i j hij)]
    simp only [hL1, Finset.prod_const_one, one_mul]
    exact Finset.prod_ne_zero_iff.mpr (fun k _ => hUd k)
  obtain ⟨τ, hτ⟩ := exists_perm_of_det_ne_zero (L * U) hLU
  let πe : Equiv.Perm (Fin n) := Equiv.ofBijective π (Finite.injective_iff_bijective.mp hπ)
  refine ⟨τ.trans πe, fun j => ?_⟩
  have : (τ.trans πe) j = π (τ j) := rfl
  rw [this, hA]
  exact hτ j
end linalg

section bridge
variable {K : Type} [Field K] [Mag K Rat]

omit [Mag K Rat] in
/-- reading `UnitLower` off the list: entry `a` is 1 at its own pivot row and 0 at the pivot rows
of the entries before it -/
theorem unitLower_getElem (Ls : List (Nat × Vec K)) (hU : UnitLower Ls) (a : Nat) (x : Nat × Vec K)
    (hx : Ls[a]? = some x) :
    x.2.get x.1 = 1 ∧ ∀ (a' : Nat) (y : Nat × Vec K), a' < a → Ls[a']? = some y → x.2.get y.1 = 0 := by
  induction Ls generalizing a with
  | nil => simp at hx
  | cons pl rest ih =>
    obtain ⟨p, l⟩ := pl
    obtain ⟨h1, h2, h3⟩ := hU
    cases a with
    | zero =>
      simp at hx; subst hx
      exact ⟨h1, fun a' y ha' _ => by omega⟩
    | succ a =>
      simp at hx
      have := ih h3 a hx
      refine ⟨this.1, ?_⟩
      intro a' y ha' hy
      cases a' with
      | zero => simp at hy; subst hy; exact h2 x (List.mem_of_getElem? hx)
      | succ a' => simp at hy; exact this.2 a' y (by omega) hy

/-- **Bridge.** If the invariant of the column LU holds for all `n` columns of a square matrix, the
matrix has a transversal: a permutation `σ` of the rows with `A(σ j, j) ≠ 0` for every column.
(`A = Prᵀ L U` with `L` unit lower triangular in pivot order and `U` upper triangular with nonzero
diagonal, so `det A = ± ∏ U_jj ≠ 0`, and a nonzero determinant has a nonzero Leibniz term.) -/
theorem inv_transversal (P : Params K Rat) (st : St K) (hsq : P.m = P.n) (inv : Inv P st P.n) :
    ∃ σ : Equiv.Perm (Fin P.n), ∀ j : Fin P.n, (P.col j).get (σ j) ≠ 0 := by
  obtain ⟨hs1, hs2, hs3⟩ := inv.sizes
  set n := P.n with hn
  have hr : ∀ k < n, st.piv.getD k 0 < n := fun k hk => hsq ▸ inv.prange k hk
  have hinj : ∀ a < n, ∀ b < n, st.piv.getD a 0 = st.piv.getD b 0 → a = b := by
    intro a ha b hb hab
    have ha' : a < st.piv.toList.length := by simpa [hs1] using ha
    have hb' : b < st.piv.toList.length := by simpa [hs1] using hb
    have e : st.piv.toList[a] = st.piv.toList[b] := by
      have h1 : st.piv.getD a 0 = st.piv.toList[a] := by simp [Array.getD, hs1, ha]
      have h2 : st.piv.getD b 0 = st.piv.toList[b] := by simp [Array.getD, hs1, hb]
      simpa [h1, h2] using hab
    exact (List.Nodup.getElem_inj_iff inv.nodup).mp e
  have hget : ∀ t < n, (prev st n)[t]? = some (st.piv.getD t 0, st.L.getD t #[]) := by
    intro t ht; simp [prev, ht]
  have hunit : ∀ t < n, (st.L.getD t #[]).get (st.piv.getD t 0) = 1 ∧
      ∀ k < t, (st.L.getD t #[]).get (st.piv.getD k 0) = 0 := by
    intro t ht
    have := unitLower_getElem _ inv.unit t _ (hget t ht)
    exact ⟨this.1, fun k hk => this.2 k _ hk (hget k (by omega))⟩
  have hid : ∀ j < n, ∀ i < n, (P.col j).get i =
      ∑ t ∈ range (j + 1), (st.U.getD j #[]).getD t 0 * (st.L.getD t #[]).get i := by
    intro j hj i hi
    rw [inv.ident j hj i (hsq ▸ hi),
      dotL_prev _ _ (j + 1) i (by rw [Array.length_toList]; exact inv.usize j hj), list_sum_range]
    apply Finset.sum_congr rfl
    intro t _
    congr 1
    generalize st.U.getD j #[] = a
    by_cases ht : t < a.size <;> simp [Array.getD, List.getD, ht]
  let A : Matrix (Fin n) (Fin n) K := fun i j => (P.col j).get i
  let L : Matrix (Fin n) (Fin n) K := fun k t => (st.L.getD t #[]).get (st.piv.getD k 0)
  let U : Matrix (Fin n) (Fin n) K := fun t j => if (t : Nat) ≤ j then (st.U.getD j #[]).getD t 0 else 0
  let π : Fin n → Fin n := fun k => ⟨st.piv.getD k 0, hr k k.2⟩
  have := exists_transversal_of_LU A L U π
    (by
      intro a b hab
      exact Fin.ext (hinj a a.2 b b.2 (by simpa [π] using hab)))
    (by
      intro k j
      show (P.col j).get (st.piv.getD k 0) = ∑ t : Fin n,
        (st.L.getD t #[]).get (st.piv.getD k 0) * (if (t : Nat) ≤ j then (st.U.getD j #[]).getD t 0 else 0)
      rw [hid j j.2 _ (hr k k.2),
        Fin.sum_univ_eq_sum_range (fun t => (st.L.getD t #[]).get (st.piv.getD k 0) *
          (if t ≤ (j : Nat) then (st.U.getD j #[]).getD t 0 else 0)) n]
      have hsub : range (j + 1) ⊆ range n := by
        intro t ht; simp only [mem_range] at ht ⊢; omega
      rw [← Finset.sum_subset hsub]
      · apply Finset.sum_congr rfl
        intro t ht
        have : t ≤ (j : Nat) := by simp only [mem_range] at ht; omega
        rw [if_pos this, mul_comm]
      · intro t _ ht
        have : ¬ t ≤ (j : Nat) := by simp only [mem_range] at ht; omega
        rw [if_neg this, mul_zero])
    (by intro k t hkt; exact (hunit t t.2).2 k hkt)
    (by intro k; exact (hunit k k.2).1)
    (by
      intro t j hjt
      show (if (t : Nat) ≤ j then _ else _) = (0 : K)
      rw [if_neg (by simpa using hjt)])
    (by
      intro k
      show (if (k : Nat) ≤ k then (st.U.getD k #[]).getD k 0 else 0) ≠ (0 : K)
      rw [if_pos (le_refl _)]
      exact inv.udiag k k.2)
  exact this
end bridge
end Slu.LU

/-! ### Hall violation ⟹ no transversal (pigeonhole) -/
namespace Slu.LU
open Finset

/-- `S`: a set of columns `< n`; `T`: a set of rows containing every admissible row (`adm j i`) of every
column in `S`.  If `|T| < |S|` no permutation of `0..n-1` picks an admissible row in every column. -/
theorem no_transversal_of_hall (n : Nat) (adm : Nat → Nat → Prop) (S T : Finset Nat)
    (hS : ∀ j ∈ S, j < n) (hT : ∀ j ∈ S, ∀ i, adm j i → i ∈ T) (hcard : T.card < S.card) :
    ¬ ∃ σ : Equiv.Perm (Fin n), ∀ j : Fin n, adm j (σ j) := by
  rintro ⟨σ, hσ⟩
  let f : Nat → Nat := fun j => if h : j < n then (σ ⟨j, h⟩ : Nat) else 0
  have hmaps : Set.MapsTo f S T := by
    intro j hj
    have hj' : j < n := hS j (by simpa using hj)
    have : f j = (σ ⟨j, hj'⟩ : Nat) := by simp [f, hj']
    rw [this]
    exact hT j (by simpa using hj) _ (hσ ⟨j, hj'⟩)
  have hinj : Set.InjOn f S := by
    intro a ha b hb hab
    have ha' : a < n := hS a (by simpa using ha)
    have hb' : b < n := hS b (by simpa using hb)
    have e1 : f a = (σ ⟨a, ha'⟩ : Nat) := by simp [f, ha']
    have e2 : f b = (σ ⟨b, hb'⟩ : Nat) := by simp [f, hb']
    rw [e1, e2] at hab
    have := σ.injective (Fin.ext hab)
    exact Fin.mk.inj_iff.mp this
  have := Finset.card_le_card_of_injOn f hmaps hinj
  omega

end Slu.LU
