import Slu.Model.Cblas
import SluProofs.Lemmas.RatBasic
import SluProofs.Lemmas.CxRat
import Mathlib.Algebra.BigOperators.Group.Finset.Basic
import Mathlib.Algebra.BigOperators.Ring.Finset
import Mathlib.Algebra.BigOperators.Intervals
import Mathlib.Algebra.Order.Field.Rat
import Mathlib.Tactic.Ring
import Mathlib.Tactic.FieldSimp
import Mathlib.Tactic.Linarith
/-
Lemmas for the C14 theorems about the bundled reference BLAS (Slu/Model/Cblas.lean):
unrolled loops are plain loops, strided positions are distinct, strided in-place updates,
first-maximum scan, the scaled sum of squares.
-/
namespace Slu.Cblas
open Finset

/-! ### loops -/
section loops
variable {T : Type}

theorem loop_zero (f : T → Nat → T) (t : T) : loop 0 f t = t := by simp [loop]

theorem loop_succ (n : Nat) (f : T → Nat → T) (t : T) : loop (n + 1) f t = f (loop n f t) n := by
  simp [loop, List.range_succ, List.foldl_append]

/-- `k` consecutive steps starting at index `b` -/
def steps (f : T → Nat → T) (t : T) (b k : Nat) : T := loop k (fun t j => f t (b + j)) t

theorem loop_add (a k : Nat) (f : T → Nat → T) (t : T) : loop (a + k) f t = steps f (loop a f t) a k := by
  induction k with
  | zero => simp [steps, loop_zero]
  | succ k ih => rw [← Nat.add_assoc, loop_succ, ih]; simp [steps, loop_succ]

/-- **the unrolling is invisible**: a clean-up loop of `n % k` steps followed by `n / k` blocks, each
of which performs `k` consecutive steps, is the plain loop (no algebraic law is used: this holds at
`Float` as well as at `Rat`). -/
theorem unrolled_eq_loop (k n : Nat) (f blk : T → Nat → T) (t : T)
    (hblk : ∀ t b, blk t b = steps f t b k) : unrolled k n f blk t = loop n f t := by
  unfold unrolled
  have key : ∀ q, loop q (fun t g => blk t (n % k + k * g)) (loop (n % k) f t) = loop (n % k + k * q) f t := by
    intro q
    induction q with
    | zero => simp [loop_zero]
    | succ q ih =>
      rw [loop_succ, ih, hblk, Nat.mul_succ, ← Nat.add_assoc]
      exact (loop_add _ _ _ _).symm
  rw [key, Nat.mod_add_div]

theorem loop_congr (n : Nat) (f g : T → Nat → T) (t : T) (h : ∀ t i, i < n → f t i = g t i) :
    loop n f t = loop n g t := by
  induction n with
  | zero => simp [loop_zero]
  | succ n ih => rw [loop_succ, loop_succ, ih (fun t i hi => h t i (by omega)), h _ n (by omega)]

end loops

/-! ### strided positions -/

theorem spos_inj (n : Nat) (inc : Int) (hinc : inc ≠ 0) (i j : Nat) (hi : i < n) (hj : j < n)
    (h : spos n inc i = spos n inc j) : i = j := by
  unfold spos at h
  by_cases hneg : inc < 0
  · simp only [hneg, if_true] at h
    have e : ∀ k : Nat, (1 - (n : Int)) * inc + (k : Int) * inc = ((n : Int) - 1 - k) * (-inc) := by intro k; ring
    rw [e i, e j] at h
    have hi' : (0 : Int) ≤ ((n : Int) - 1 - i) * (-inc) := mul_nonneg (by omega) (by omega)
    have hj' : (0 : Int) ≤ ((n : Int) - 1 - j) * (-inc) := mul_nonneg (by omega) (by omega)
    have : ((n : Int) - 1 - i) * (-inc) = ((n : Int) - 1 - j) * (-inc) := by
      have hA := Int.toNat_of_nonneg hi'
      have hB := Int.toNat_of_nonneg hj'
      rw [h] at hA
      exact hA.symm.trans hB
    have := mul_right_cancel₀ (by omega : -inc ≠ 0) this
    omega
  · simp only [hneg, if_false, zero_add] at h
    have hpos : 0 < inc := by omega
    have hi' : (0 : Int) ≤ (i : Int) * inc := mul_nonneg (by omega) (by omega)
    have hj' : (0 : Int) ≤ (j : Int) * inc := mul_nonneg (by omega) (by omega)
    have : (i : Int) * inc = (j : Int) * inc := by
      have hA := Int.toNat_of_nonneg hi'
      have hB := Int.toNat_of_nonneg hj'
      rw [h] at hA
      exact hA.symm.trans hB
    have := mul_right_cancel₀ hinc this
    omega

/-! ### in-place updates at distinct positions -/
section upd
variable {K : Type}

theorem getD_setIfInBounds (a : Array K) (q p : Nat) (v d : K) :
    (a.setIfInBounds q v).getD p d = if q = p ∧ q < a.size then v else a.getD p d := by
  simp only [Array.getD_eq_getD_getElem?, Array.getElem?_setIfInBounds]
  by_cases h : q = p
  · subst h
    by_cases hq : q < a.size
    · simp [hq]
    · simp [hq]
  · simp [h]

/-- `for i < m: y[pos i] = f i y[pos i]` -/
def updG (d : K) (pos : Nat → Nat) (f : Nat → K → K) (y : Array K) (m : Nat) : Array K :=
  loop m (fun (y : Array K) i => y.setIfInBounds (pos i) (f i (y.getD (pos i) d))) y

theorem updG_spec (d : K) (n : Nat) (pos : Nat → Nat) (f : Nat → K → K) (y : Array K)
    (hinj : ∀ i j, i < n → j < n → pos i = pos j → i = j) (hb : ∀ i, i < n → pos i < y.size) (m : Nat) (hm : m ≤ n) :
    (updG d pos f y m).size = y.size ∧
    (∀ i, i < n → (updG d pos f y m).getD (pos i) d = if i < m then f i (y.getD (pos i) d) else y.getD (pos i) d) ∧
    (∀ p, (∀ i, i < n → pos i ≠ p) → (updG d pos f y m).getD p d = y.getD p d) := by
  induction m with
  | zero => simp [updG, loop_zero]
  | succ m ih =>
    obtain ⟨h1, h2, h3⟩ := ih (by omega)
    have hstep : updG d pos f y (m + 1) =
        (updG d pos f y m).setIfInBounds (pos m) (f m ((updG d pos f y m).getD (pos m) d)) := by
      simp [updG, loop_succ]
    rw [hstep]
    refine ⟨by simp [h1], ?_, ?_⟩
    · intro i hi
      rw [getD_setIfInBounds, h1]
      by_cases him : i = m
      · subst him
        have := hb i hi
        simp only [this, and_self, if_true, Nat.lt_succ_self]
        rw [h2 i hi]; simp
      · have hne : ¬ (pos m = pos i ∧ pos m < y.size) := by
          intro hc; exact him (hinj i m hi (by omega) hc.1.symm)
        rw [if_neg hne, h2 i hi]
        by_cases hlt : i < m
        · have : i < m + 1 := by omega
          simp [hlt, this]
        · have : ¬ i < m + 1 := by omega
          simp [hlt, this]
    · intro p hp
      rw [getD_setIfInBounds]
      have : ¬ (pos m = p ∧ pos m < (updG d pos f y m).size) := by
        intro hc; exact hp m (by omega) hc.1
      rw [if_neg this]
      exact h3 p hp

end upd

/-! ### sums -/
section sums
variable {K : Type} [AddCommMonoid K]

theorem loop_add_eq_sum (n : Nat) (g : Nat → K) (a : K) :
    loop n (fun t i => t + g i) a = a + ∑ i ∈ range n, g i := by
  induction n with
  | zero => simp [loop_zero]
  | succ n ih => rw [loop_succ, ih, Finset.sum_range_succ, add_assoc]

end sums

/-! ### first maximum -/

/-- the scan of `i?amax`: state `(1-based index, current maximum)` -/
def amaxScan (key : Nat → Rat) (m : Nat) : Int × Rat :=
  loop m (fun (s : Int × Rat) k => if key (k + 1) ≤ s.2 then s else (((k + 2 : Nat) : Int), key (k + 1))) ((1 : Int), key 0)

theorem amaxScan_spec (key : Nat → Rat) (m : Nat) :
    ∃ r : Nat, (amaxScan key m).1 = ((r + 1 : Nat) : Int) ∧ r ≤ m ∧ (amaxScan key m).2 = key r ∧
      (∀ i, i ≤ m → key i ≤ key r) ∧ (∀ i, i < r → key i < key r) := by
  induction m with
  | zero => exact ⟨0, by simp [amaxScan, loop_zero]⟩
  | succ m ih =>
    obtain ⟨r, h1, h2, h3, h4, h5⟩ := ih
    have hs : amaxScan key (m + 1) =
        (if key (m + 1) ≤ (amaxScan key m).2 then amaxScan key m else (((m + 2 : Nat) : Int), key (m + 1))) := by
      simp [amaxScan, loop_succ]
    rw [hs]
    by_cases hle : key (m + 1) ≤ (amaxScan key m).2
    · rw [if_pos hle]
      refine ⟨r, h1, by omega, h3, ?_, h5⟩
      intro i hi
      by_cases him : i = m + 1
      · subst him; rw [← h3]; exact hle
      · exact h4 i (by omega)
    · rw [if_neg hle]
      rw [h3] at hle
      have hlt : key r < key (m + 1) := lt_of_not_ge hle
      refine ⟨m + 1, by push_cast; ring, le_refl _, rfl, ?_, ?_⟩
      · intro i hi
        by_cases him : i = m + 1
        · subst him; exact le_refl _
        · exact le_trans (h4 i (by omega)) (le_of_lt hlt)
      · intro i hi
        exact lt_of_le_of_lt (h4 i (by omega)) hlt

/-! ### the exact types -/

@[simp] theorem up_rat (x : Rat) : (Widen.up x : Rat) = x := rfl
@[simp] theorem down_rat (x : Rat) : (Widen.down x : Rat) = x := rfl

theorem f2cabs_rat (x : Rat) : f2cabs x = |x| := by
  unfold f2cabs
  by_cases h : x ≥ 0
  · rw [if_pos h, abs_of_nonneg h]
  · rw [if_neg h, abs_of_neg (lt_of_not_ge h)]

theorem isZero_rat (x : Rat) : IsZero.isZero x = decide (x = 0) := by
  show (x == 0) = decide (x = 0)
  by_cases h : x = 0 <;> simp [h]

/-! ### scaled sum of squares -/

theorem ssqStep_inv (s : Rat × Rat) (v S : Rat) (h0 : 0 ≤ s.1) (h1 : 1 ≤ s.2) (hS : s.1 ^ 2 * s.2 = S) :
    0 ≤ (ssqStep s v).1 ∧ 1 ≤ (ssqStep s v).2 ∧ (ssqStep s v).1 ^ 2 * (ssqStep s v).2 = S + v ^ 2 ∧
      s.1 ≤ (ssqStep s v).1 ∧ |v| ≤ (ssqStep s v).1 := by
  unfold ssqStep
  rw [isZero_rat, f2cabs_rat]
  by_cases hv : v = 0
  · subst hv; simp [h0, h1, hS]
  · simp only [hv, decide_false, Bool.false_eq_true, if_false]
    have hav : 0 < |v| := abs_pos.mpr hv
    by_cases hlt : s.1 < |v|
    · simp only [hlt, if_true]
      refine ⟨le_of_lt hav, ?_, ?_, le_of_lt hlt, le_refl _⟩
      · have : 0 ≤ s.2 * (s.1 / |v| * (s.1 / |v|)) := mul_nonneg (by linarith) (mul_self_nonneg _)
        linarith
      · have : |v| ^ 2 = v ^ 2 := sq_abs v
        field_simp
        rw [this, ← hS]; ring
    · simp only [hlt, if_false]
      have hge : |v| ≤ s.1 := le_of_not_gt hlt
      have hs : 0 < s.1 := lt_of_lt_of_le hav hge
      refine ⟨h0, ?_, ?_, le_refl _, hge⟩
      · have : 0 ≤ |v| / s.1 * (|v| / s.1) := mul_self_nonneg _
        linarith
      · have : |v| ^ 2 = v ^ 2 := sq_abs v
        have hne : s.1 ≠ 0 := ne_of_gt hs
        field_simp
        rw [this, ← hS]

/-! ### helpers of the specification theorems -/

theorem spos_one (n i : Nat) : spos n 1 i = i := by simp [spos]
theorem spos_zero (n : Nat) (inc : Int) (h : 0 ≤ inc) : spos n inc 0 = 0 := by
  have : ¬ inc < 0 := by omega
  simp [spos, this]

theorem steps3 {T : Type} (f : T → Nat → T) (t : T) (b : Nat) :
    steps f t b 3 = f (f (f t b) (b + 1)) (b + 2) := rfl
theorem steps4 {T : Type} (f : T → Nat → T) (t : T) (b : Nat) :
    steps f t b 4 = f (f (f (f t b) (b + 1)) (b + 2)) (b + 3) := rfl
theorem steps5 {T : Type} (f : T → Nat → T) (t : T) (b : Nat) :
    steps f t b 5 = f (f (f (f (f t b) (b + 1)) (b + 2)) (b + 3)) (b + 4) := rfl
theorem steps7 {T : Type} (f : T → Nat → T) (t : T) (b : Nat) :
    steps f t b 7 = f (f (f (f (f (f (f t b) (b + 1)) (b + 2)) (b + 3)) (b + 4)) (b + 5)) (b + 6) := rfl

/-- the three clauses every in-place strided routine satisfies -/
def StridedUpd {K : Type} (d : K) (N : Nat) (inc : Int) (y r : Array K) (val : Nat → K) : Prop :=
  r.size = y.size ∧ (∀ i, i < N → r.getD (spos N inc i) d = val i) ∧
  (∀ p, (∀ i, i < N → spos N inc i ≠ p) → r.getD p d = y.getD p d)

theorem updG_strided {K : Type} (d : K) (N : Nat) (inc : Int) (hinc : inc ≠ 0) (f : Nat → K → K) (y : Array K)
    (hb : ∀ i, i < N → spos N inc i < y.size) :
    StridedUpd d N inc y (updG d (spos N inc) f y N) (fun i => f i (y.getD (spos N inc i) d)) := by
  obtain ⟨h1, h2, h3⟩ := updG_spec d N (spos N inc) f y (fun i j hi hj h => spos_inj N inc hinc i j hi hj h) hb N (le_refl _)
  refine ⟨h1, ?_, h3⟩
  intro i hi
  rw [h2 i hi, if_pos hi]

theorem copyG_eq_updG {K : Type} [Zero K] (N : Nat) (x : Array K) (incx : Int) (y : Array K) (incy : Int) :
    copyG N x incx y incy = updG 0 (spos N incy) (fun i _ => x.getD (spos N incx i) 0) y N := rfl

theorem swapG_eq {K : Type} [Zero K] (N : Nat) (x : Array K) (incx : Int) (y : Array K) (incy : Int)
    (hx : incx ≠ 0) (hy : incy ≠ 0) (hbx : ∀ i, i < N → spos N incx i < x.size)
    (hby : ∀ i, i < N → spos N incy i < y.size) (m : Nat) (hm : m ≤ N) :
    loop m (fun (s : Array K × Array K) i =>
        let ix := spos N incx i; let iy := spos N incy i
        let tmp := s.1.getD ix 0
        let x1 := s.1.setIfInBounds ix (s.2.getD iy 0)
        (x1, s.2.setIfInBounds iy tmp)) (x, y) =
      (updG 0 (spos N incx) (fun i _ => y.getD (spos N incy i) 0) x m,
       updG 0 (spos N incy) (fun i _ => x.getD (spos N incx i) 0) y m) := by
  induction m with
  | zero => simp [updG, loop_zero]
  | succ m ih =>
    rw [loop_succ, ih (by omega)]
    obtain ⟨_, a2, _⟩ := updG_spec (0 : K) N (spos N incx) (fun i _ => y.getD (spos N incy i) 0) x
      (fun i j hi hj h => spos_inj N incx hx i j hi hj h) hbx m (by omega)
    obtain ⟨_, b2, _⟩ := updG_spec (0 : K) N (spos N incy) (fun i _ => x.getD (spos N incx i) 0) y
      (fun i j hi hj h => spos_inj N incy hy i j hi hj h) hby m (by omega)
    have ea := a2 m (by omega)
    have eb := b2 m (by omega)
    simp only [Nat.lt_irrefl, if_false] at ea eb
    simp only [ea, eb]
    simp [updG, loop_succ]

theorem cmulF_eq_mul (a b : Cx Rat) : cmulF a b = a * b := by
  apply Cx.ext'
  · rfl
  · show a.re * b.im + a.im * b.re = a.im * b.re + a.re * b.im
    ring

theorem cabs1W_zero_iff (a : Cx Rat) : IsZero.isZero (cabs1W a : Rat) = decide (a = 0) := by
  rw [isZero_rat]
  unfold cabs1W
  simp only [up_rat, f2cabs_rat]
  by_cases h : a = 0
  · subst h
    show decide (|(0 : Rat)| + |(0 : Rat)| = 0) = decide ((0 : Cx Rat) = 0)
    simp
  · simp only [h, decide_false, decide_eq_false_iff_not]
    intro hc
    have h1 : |a.re| = 0 := by linarith [abs_nonneg a.re, abs_nonneg a.im]
    have h2 : |a.im| = 0 := by linarith [abs_nonneg a.re, abs_nonneg a.im]
    exact h (Cx.ext' (abs_eq_zero.mp h1) (abs_eq_zero.mp h2))

/-- generic scaled-sum-of-squares loop -/
theorem ssq_loop_spec (v : Nat → Rat) (m : Nat) :
    0 ≤ (loop m (fun s i => ssqStep s (v i)) ((0 : Rat), (1 : Rat))).1 ∧
    1 ≤ (loop m (fun s i => ssqStep s (v i)) ((0 : Rat), (1 : Rat))).2 ∧
    (loop m (fun s i => ssqStep s (v i)) ((0 : Rat), (1 : Rat))).1 ^ 2 *
      (loop m (fun s i => ssqStep s (v i)) ((0 : Rat), (1 : Rat))).2 = ∑ i ∈ range m, v i ^ 2 ∧
    (∀ i, i < m → |v i| ≤ (loop m (fun s i => ssqStep s (v i)) ((0 : Rat), (1 : Rat))).1) := by
  induction m with
  | zero => simp [loop_zero]
  | succ m ih =>
    obtain ⟨h0, h1, h2, h3⟩ := ih
    rw [loop_succ]
    obtain ⟨g0, g1, g2, g3, g4⟩ := ssqStep_inv _ (v m) _ h0 h1 h2
    refine ⟨g0, g1, by rw [g2, Finset.sum_range_succ], ?_⟩
    intro i hi
    by_cases him : i = m
    · subst him; exact g4
    · exact le_trans (h3 i (by omega)) g3

theorem ssq2_loop_spec (v w : Nat → Rat) (m : Nat) :
    0 ≤ (loop m (fun s i => ssqStep (ssqStep s (v i)) (w i)) ((0 : Rat), (1 : Rat))).1 ∧
    1 ≤ (loop m (fun s i => ssqStep (ssqStep s (v i)) (w i)) ((0 : Rat), (1 : Rat))).2 ∧
    (loop m (fun s i => ssqStep (ssqStep s (v i)) (w i)) ((0 : Rat), (1 : Rat))).1 ^ 2 *
      (loop m (fun s i => ssqStep (ssqStep s (v i)) (w i)) ((0 : Rat), (1 : Rat))).2 =
        ∑ i ∈ range m, (v i ^ 2 + w i ^ 2) := by
  induction m with
  | zero => simp [loop_zero]
  | succ m ih =>
    obtain ⟨h0, h1, h2⟩ := ih
    rw [loop_succ]
    obtain ⟨g0, g1, g2, _, _⟩ := ssqStep_inv _ (v m) _ h0 h1 h2
    obtain ⟨k0, k1, k2, _, _⟩ := ssqStep_inv _ (w m) _ g0 g1 g2
    refine ⟨k0, k1, by rw [k2, Finset.sum_range_succ]; ring⟩

/-! ### index loops over `getD` are folds over the array -/

theorem loop_list {α β : Type} (l : List α) (d : α) (f : β → α → β) (b : β) (n : Nat) (hn : n ≤ l.length) :
    loop n (fun t i => f t (l.getD i d)) b = (l.take n).foldl f b := by
  induction n with
  | zero => simp [loop_zero]
  | succ n ih =>
    have hlt : n < l.length := by omega
    rw [loop_succ, ih (by omega), List.take_add_one, List.foldl_append]
    simp [List.getD, List.getElem?_eq_getElem hlt]

theorem loop_getD_eq_foldl {α β : Type} (x : Array α) (d : α) (f : β → α → β) (b : β) :
    loop x.size (fun t i => f t (x.getD i d)) b = x.foldl f b := by
  have h1 := loop_list x.toList d f b x.size (by simp)
  have h2 : List.take x.size x.toList = x.toList := by simp
  rw [h2, Array.foldl_toList] at h1
  simpa using h1

end Slu.Cblas
