import Slu.Model.Order
import Mathlib.Data.List.Nodup
import Mathlib.Data.List.Range
import Mathlib.Data.List.Infix
import Mathlib.Data.List.Perm.Subperm
/-
Helper lemmas for C10 (SluProofs/Props/C10.lean): permutation checker, compressed-column storage built
from a list of columns, the marker loop (`dedupFrom`), fold invariants, heap order of Liu's algorithm,
and the structure of the depth-first numbering `order`.
-/
namespace Slu.Order

/-! ### permutations -/


theorem distinct_iff_nodup (l : List Nat) : distinct l = true ↔ l.Nodup := by
  induction l with
  | nil => simp [distinct]
  | cons x xs ih => simp [distinct, ih]

theorem mem_of_nodup_lt_length {l : List Nat} {n : Nat} (hn : l.Nodup) (hlt : ∀ x ∈ l, x < n)
    (hlen : l.length = n) : ∀ v < n, v ∈ l := by
  intro v hv
  have hsub : l ⊆ List.range n := fun x hx => List.mem_range.mpr (hlt x hx)
  have hsp : l.Subperm (List.range n) := List.subperm_of_subset hn hsub
  have hp : l.Perm (List.range n) := hsp.perm_of_length_le (by simp [hlen])
  exact hp.mem_iff.mpr (List.mem_range.mpr hv)

theorem getD_eq_toList_getElem (p : Array Nat) (i : Nat) (h : i < p.size) : p.getD i 0 = p.toList[i]'(by simpa using h) := by
  simp [Array.getD, h]

theorem isPerm_iff (n : Nat) (p : Array Nat) :
    isPerm n p = true ↔
      p.size = n ∧ (∀ i < n, p.getD i 0 < n) ∧
      (∀ i < n, ∀ j < n, p.getD i 0 = p.getD j 0 → i = j) ∧ (∀ v < n, ∃ i < n, p.getD i 0 = v) := by
  unfold isPerm
  simp only [Bool.and_eq_true, beq_iff_eq, List.all_eq_true, decide_eq_true_eq, distinct_iff_nodup]
  constructor
  · rintro ⟨⟨hs, hlt⟩, hnd⟩
    have hlen : p.toList.length = n := by simpa using hs
    refine ⟨hs, ?_, ?_, ?_⟩
    · intro i hi
      rw [getD_eq_toList_getElem p i (hs ▸ hi)]
      exact hlt _ (List.getElem_mem _)
    · intro i hi j hj hij
      rw [getD_eq_toList_getElem p i (hs ▸ hi), getD_eq_toList_getElem p j (hs ▸ hj)] at hij
      exact (List.Nodup.getElem_inj_iff hnd).mp hij
    · intro v hv
      have := mem_of_nodup_lt_length hnd hlt hlen v hv
      obtain ⟨i, hi, hiv⟩ := List.getElem_of_mem this
      exact ⟨i, hlen ▸ hi, by rw [getD_eq_toList_getElem p i (by simpa using hi)]; exact hiv⟩
  · rintro ⟨hs, hlt, hinj, _⟩
    have hlen : p.toList.length = n := by simpa using hs
    refine ⟨⟨hs, ?_⟩, ?_⟩
    · intro x hx
      obtain ⟨i, hi, hix⟩ := List.getElem_of_mem hx
      have := hlt i (hlen ▸ hi)
      rw [getD_eq_toList_getElem p i (by simpa using hi)] at this
      exact hix ▸ this
    · rw [List.nodup_iff_injective_getElem]
      intro ⟨i, hi⟩ ⟨j, hj⟩ hij
      simp only at hij
      have := hinj i (hlen ▸ hi) j (hlen ▸ hj) (by
        rw [getD_eq_toList_getElem p i (by simpa using hi), getD_eq_toList_getElem p j (by simpa using hj)]; exact hij)
      exact Fin.ext this

/-! ### storage -/
theorem toArray_getD (l : List Nat) (i d : Nat) : l.toArray.getD i d = l.getD i d := by
  simp [List.getD_eq_getElem?_getD]



theorem ptrs_length (s : Nat) (cols : List (List Nat)) : (ptrs s cols).length = cols.length + 1 := by
  induction cols generalizing s with
  | nil => simp [ptrs]
  | cons c cs ih => simp [ptrs, ih]

theorem ptrs_getD (s : Nat) (cols : List (List Nat)) (j : Nat) (h : j ≤ cols.length) :
    (ptrs s cols).getD j 0 = s + ((cols.take j).flatten).length := by
  induction cols generalizing s j with
  | nil => simp at h; subst h; simp [ptrs]
  | cons c cs ih =>
    cases j with
    | zero => simp [ptrs]
    | succ j =>
      simp only [ptrs, List.getD_cons_succ, List.take_succ_cons, List.flatten_cons, List.length_append]
      rw [ih _ _ (by simpa using h)]; omega

theorem flatten_split (cols : List (List Nat)) (j : Nat) (h : j < cols.length) :
    cols.flatten = (cols.take j).flatten ++ (cols[j] ++ (cols.drop (j+1)).flatten) := by
  conv_lhs => rw [← List.take_append_drop j cols]
  rw [List.flatten_append, List.drop_eq_getElem_cons h, List.flatten_cons]

theorem ofCols_col (m : Nat) (cols : List (List Nat)) (j : Nat) (h : j < cols.length) :
    (ofCols m cols).col j = cols[j] := by
  unfold Pat.col ofCols slice
  simp only [toArray_getD]
  rw [ptrs_getD 0 cols j (by omega), ptrs_getD 0 cols (j+1) (by omega)]
  have h2 : (cols.take (j+1)).flatten.length = (cols.take j).flatten.length + cols[j].length := by
    rw [List.take_succ_eq_append_getElem h, List.flatten_append, List.length_append]; simp only [List.flatten_cons, List.flatten_nil, List.append_nil]
  rw [h2]
  conv_lhs => rw [flatten_split cols j h]
  simp

/-! ### AᵀA, Aᵀ+A -/


theorem mem_transposeCol (n : Nat) (col : Nat → List Nat) (k j : Nat) :
    j ∈ transposeCol n col k ↔ j < n ∧ k ∈ col j := by
  unfold transposeCol
  simp only [List.mem_flatMap, List.mem_range, List.mem_map, List.mem_filter, beq_iff_eq]
  constructor
  · rintro ⟨a, ha, b, ⟨hb, rfl⟩, rfl⟩; exact ⟨ha, hb⟩
  · rintro ⟨h1, h2⟩; exact ⟨j, h1, k, ⟨h2, rfl⟩, rfl⟩

theorem mem_dedupFrom (seen xs : List Nat) (x : Nat) :
    x ∈ dedupFrom seen xs ↔ x ∈ xs ∧ x ∉ seen := by
  induction xs generalizing seen with
  | nil => simp [dedupFrom]
  | cons y ys ih =>
    unfold dedupFrom
    by_cases hy : y ∈ seen
    · simp only [List.contains_iff_mem, hy, if_true, ih, List.mem_cons]
      constructor
      · rintro ⟨h1, h2⟩; exact ⟨Or.inr h1, h2⟩
      · rintro ⟨h1 | h1, h2⟩
        · subst h1; exact absurd hy h2
        · exact ⟨h1, h2⟩
    · simp only [List.contains_iff_mem, hy, if_false, List.mem_cons, ih]
      constructor
      · rintro (h | ⟨h1, h2⟩)
        · subst h; exact ⟨Or.inl rfl, hy⟩
        · exact ⟨Or.inr h1, fun h => h2 (Or.inr h)⟩
      · rintro ⟨h1 | h1, h2⟩
        · exact Or.inl h1
        · by_cases hxy : x = y
          · exact Or.inl hxy
          · exact Or.inr ⟨h1, by rintro (h | h); exact hxy h; exact h2 h⟩

theorem nodup_dedupFrom (seen xs : List Nat) : (dedupFrom seen xs).Nodup := by
  induction xs generalizing seen with
  | nil => simp [dedupFrom]
  | cons y ys ih =>
    unfold dedupFrom
    split
    · exact ih _
    · refine List.nodup_cons.mpr ⟨?_, ih _⟩
      rw [mem_dedupFrom]; simp

theorem mem_ataCol (n : Nat) (col : Nat → List Nat) (i j : Nat) :
    i ∈ ataCol n col j ↔ i ≠ j ∧ i < n ∧ ∃ k, k ∈ col i ∧ k ∈ col j := by
  unfold ataCol
  simp only [mem_dedupFrom, List.mem_flatMap, mem_transposeCol, List.mem_singleton]
  constructor
  · rintro ⟨⟨k, hk, hi, hki⟩, hne⟩; exact ⟨hne, hi, k, hki, hk⟩
  · rintro ⟨hne, hi, k, hki, hk⟩; exact ⟨⟨k, hk, hi, hki⟩, hne⟩

theorem mem_apaCol (n : Nat) (col : Nat → List Nat) (i j : Nat) :
    i ∈ apaCol n col j ↔ i ≠ j ∧ (i ∈ col j ∨ (i < n ∧ j ∈ col i)) := by
  unfold apaCol
  simp only [mem_dedupFrom, List.mem_append, mem_transposeCol, List.mem_singleton]
  tauto


/-! ### Liu -/


theorem getD_setIfInBounds (a : Array Nat) (i k v d : Nat) :
    (a.setIfInBounds i v).getD k d = if k = i ∧ i < a.size then v else a.getD k d := by
  simp only [Array.getD_eq_getD_getElem?, Array.getElem?_setIfInBounds]
  by_cases h : i = k
  · subst h
    by_cases h2 : i < a.size
    · simp [h2]
    · simp [h2]
  · have h' : ¬ k = i := fun e => h e.symm
    simp [h, h']

/-- fold invariant -/
theorem foldl_inv {α β : Type} (P : β → Prop) (f : β → α → β) (l : List α) (b : β)
    (h0 : P b) (hstep : ∀ s x, x ∈ l → P s → P (f s x)) : P (l.foldl f b) := by
  induction l generalizing b with
  | nil => exact h0
  | cons x xs ih =>
    simp only [List.foldl_cons]
    exact ih _ (hstep _ _ List.mem_cons_self h0) (fun s y hy hs => hstep s y (List.mem_cons_of_mem _ hy) hs)

/-- indexed fold invariant over `range n` -/
theorem foldl_range_inv {β : Type} (P : Nat → β → Prop) (f : β → Nat → β) (n : Nat) (b : β)
    (h0 : P 0 b) (hstep : ∀ s i, i < n → P i s → P (i+1) (f s i)) : P n ((List.range n).foldl f b) := by
  induction n with
  | zero => exact h0
  | succ k ih =>
    rw [List.range_succ, List.foldl_append]
    simp only [List.foldl_cons, List.foldl_nil]
    exact hstep _ k (Nat.lt_succ_self k) (ih (fun s i hi hp => hstep s i (Nat.lt_succ_of_lt hi) hp))

def HeapOK (nc : Nat) (parent : Array Nat) (j : Nat) : Prop :=
  parent.getD j 0 = nc ∨ (j < parent.getD j 0 ∧ parent.getD j 0 < nc)

/-- invariant of the edge loop of column `col` -/
def EdgeInv (nc col : Nat) (sc : St × Nat) : Prop :=
  sc.1.parent.size = nc ∧ sc.1.root.size = nc ∧ (∀ x, sc.1.root.getD x 0 ≤ col) ∧
  ∀ j, j ≤ col → HeapOK nc sc.1.parent j

theorem liuEdge_inv (nc col : Nat) (hc : col < nc) (sc : St × Nat) (row : Nat) (h : EdgeInv nc col sc) :
    EdgeInv nc col (liuEdge col sc row) := by
  obtain ⟨st, cset⟩ := sc
  obtain ⟨hp, hr, hroot, hheap⟩ := h
  unfold liuEdge
  simp only
  split
  · exact ⟨hp, hr, hroot, hheap⟩
  · split
    · rename_i hne
      refine ⟨by simpa using hp, by simpa using hr, ?_, ?_⟩
      · intro x
        simp only [getD_setIfInBounds]
        split
        · exact Nat.le_refl _
        · exact hroot x
      · intro j hj
        unfold HeapOK
        simp only [getD_setIfInBounds]
        split
        · rename_i hjr
          right
          have := hroot (find st.pp row).2
          exact ⟨by omega, hc⟩
        · exact hheap j hj
    · exact ⟨hp, hr, hroot, hheap⟩

theorem liu_heap (nc : Nat) (nbrs : Nat → List Nat) :
    (liu nc nbrs).size = nc ∧ ∀ j < nc, HeapOK nc (liu nc nbrs) j := by
  unfold liu
  have key := foldl_range_inv
    (fun c (st : St) => st.parent.size = nc ∧ st.root.size = nc ∧ (∀ x, st.root.getD x 0 ≤ c) ∧
      ∀ j < c, HeapOK nc st.parent j)
    (liuCol nc nbrs) nc
    { pp := Array.replicate nc 0, root := Array.replicate nc 0, parent := Array.replicate nc 0 }
    ⟨by simp, by simp, by intro x; simp [Array.getD_eq_getD_getElem?, Array.getElem?_replicate]; split <;> simp, by intro j hj; omega⟩
    (by
      intro st c hc ⟨hp, hr, hroot, hheap⟩
      unfold liuCol
      have h0 : EdgeInv nc c (liuInit nc st c, c) := by
        unfold liuInit
        refine ⟨by simpa using hp, by simpa using hr, ?_, ?_⟩
        · intro x; simp only [getD_setIfInBounds]; split
          · exact Nat.le_refl _
          · exact hroot x
        · intro j hj
          unfold HeapOK
          simp only [getD_setIfInBounds]
          split
          · left; rfl
          · rename_i hne
            have : j < c := by
              rcases Nat.lt_or_eq_of_le hj with h | h
              · exact h
              · exact absurd ⟨h, by omega⟩ hne
            exact hheap j this
      have := foldl_inv (EdgeInv nc c) (liuEdge c) (nbrs c) _ h0 (fun s x _ hs => liuEdge_inv nc c hc s x hs)
      obtain ⟨a, b, c', d⟩ := this
      exact ⟨a, b, fun x => Nat.le_succ_of_le (c' x), fun j hj => d j (Nat.lt_succ_iff.mp hj)⟩)
  exact ⟨key.1, key.2.2.2⟩


/-! ### depth-first numbering -/


theorem order_eq (parent : Array Nat) (v : Nat) :
    order parent v = (kids parent v).flatMap (order parent) ++ [v] := by
  rw [order]
  congr 1
  rw [List.flatMap_subtype (g := order parent) (fun x h => rfl)]
  simp

theorem mem_kids (parent : Array Nat) (v c : Nat) : c ∈ kids parent v ↔ c < v ∧ parent.getD c 0 = v := by
  simp [kids]

theorem mem_order_iff (parent : Array Nat) (v u : Nat) :
    u ∈ order parent v ↔ u = v ∨ ∃ c, c < v ∧ parent.getD c 0 = v ∧ u ∈ order parent c := by
  rw [order_eq]
  simp only [List.mem_append, List.mem_flatMap, mem_kids, List.mem_singleton]
  constructor
  · rintro (⟨c, ⟨h1, h2⟩, h3⟩ | h)
    · exact Or.inr ⟨c, h1, h2, h3⟩
    · exact Or.inl h
  · rintro (h | ⟨c, h1, h2, h3⟩)
    · exact Or.inr h
    · exact Or.inl ⟨c, ⟨h1, h2⟩, h3⟩

theorem self_mem_order (parent : Array Nat) (v : Nat) : v ∈ order parent v :=
  (mem_order_iff parent v v).mpr (Or.inl rfl)

theorem le_of_mem_order (parent : Array Nat) (v u : Nat) (h : u ∈ order parent v) : u ≤ v := by
  induction v using Nat.strong_induction_on generalizing u with
  | _ v ih =>
    rcases (mem_order_iff parent v u).mp h with rfl | ⟨c, hc, _, hu⟩
    · exact Nat.le_refl _
    · exact Nat.le_trans (ih c hc u hu) (Nat.le_of_lt hc)

/-- below the root of a block every vertex has its parent in the block, and the parent is larger -/
theorem parent_mem_order (parent : Array Nat) (v u : Nat) (h : u ∈ order parent v) (hne : u ≠ v) :
    u < parent.getD u 0 ∧ parent.getD u 0 ∈ order parent v := by
  induction v using Nat.strong_induction_on generalizing u with
  | _ v ih =>
    rcases (mem_order_iff parent v u).mp h with rfl | ⟨c, hc, hpc, hu⟩
    · exact absurd rfl hne
    · by_cases huc : u = c
      · subst huc
        rw [hpc]; exact ⟨hc, self_mem_order parent v⟩
      · obtain ⟨h1, h2⟩ := ih c hc u hu huc
        exact ⟨h1, (mem_order_iff parent v _).mpr (Or.inr ⟨c, hc, hpc, h2⟩)⟩

theorem infix_flatMap_of_mem {α β : Type} (f : α → List β) (l : List α) (a : α) (h : a ∈ l) :
    f a <:+: l.flatMap f := by
  induction l with
  | nil => cases h
  | cons x xs ih =>
    rw [List.flatMap_cons]
    rcases List.mem_cons.mp h with rfl | h
    · exact (List.prefix_append _ _).isInfix
    · exact (ih h).trans (List.suffix_append _ _).isInfix

/-- the block of a vertex is a contiguous piece of the block of each of its ancestors -/
theorem order_infix (parent : Array Nat) (w c : Nat) (h : c ∈ order parent w) :
    order parent c <:+: order parent w := by
  induction w using Nat.strong_induction_on generalizing c with
  | _ w ih =>
    rcases (mem_order_iff parent w c).mp h with rfl | ⟨k, hk, hpk, hc⟩
    · exact List.infix_refl _
    · have h1 := ih k hk c hc
      have h2 : order parent k <:+: (kids parent w).flatMap (order parent) :=
        infix_flatMap_of_mem _ _ k ((mem_kids parent w k).mpr ⟨hk, hpk⟩)
      rw [order_eq parent w]
      exact h1.trans (h2.trans (List.prefix_append _ _).isInfix)

theorem order_disjoint (parent : Array Nat) (v c1 c2 : Nat) (hne : c1 ≠ c2) (h1 : c1 < v) (h2 : c2 < v)
    (hp1 : parent.getD c1 0 = v) (hp2 : parent.getD c2 0 = v) (u : Nat)
    (hu1 : u ∈ order parent c1) (hu2 : u ∈ order parent c2) : False := by
  induction hd : v - u using Nat.strong_induction_on generalizing u with
  | _ d ih =>
    by_cases e1 : u = c1
    · subst e1
      obtain ⟨_, hm⟩ := parent_mem_order parent c2 u hu2 hne
      rw [hp1] at hm
      have := le_of_mem_order parent c2 v hm
      omega
    · by_cases e2 : u = c2
      · subst e2
        obtain ⟨_, hm⟩ := parent_mem_order parent c1 u hu1 (Ne.symm hne)
        rw [hp2] at hm
        have := le_of_mem_order parent c1 v hm
        omega
      · obtain ⟨hlt, hm1⟩ := parent_mem_order parent c1 u hu1 e1
        obtain ⟨_, hm2⟩ := parent_mem_order parent c2 u hu2 e2
        have hle := le_of_mem_order parent c1 _ hm1
        exact ih (v - parent.getD u 0) (by omega) _ hm1 hm2 rfl

theorem nodup_kids (parent : Array Nat) (v : Nat) : (kids parent v).Nodup :=
  (List.nodup_range).filter _

theorem nodup_order (parent : Array Nat) (v : Nat) : (order parent v).Nodup := by
  induction v using Nat.strong_induction_on with
  | _ v ih =>
    rw [order_eq]
    rw [List.nodup_append]
    refine ⟨?_, List.nodup_singleton v, ?_⟩
    · rw [List.nodup_flatMap]
      refine ⟨fun c hc => ih c ((mem_kids parent v c).mp hc).1, ?_⟩
      refine List.Pairwise.imp_of_mem ?_ (nodup_kids parent v)
      intro a b ha hb hab
      obtain ⟨ha1, ha2⟩ := (mem_kids parent v a).mp ha
      obtain ⟨hb1, hb2⟩ := (mem_kids parent v b).mp hb
      intro l hla hlb
      exact order_disjoint parent v a b hab ha1 hb1 ha2 hb2 l hla hlb
    · intro a ha b hb
      rw [List.mem_singleton] at hb; subst hb
      obtain ⟨c, hc, hac⟩ := List.mem_flatMap.mp ha
      have := le_of_mem_order parent c a hac
      have := ((mem_kids parent b c).mp hc).1
      omega



/-! ### heap-ordered forests and positions in the numbering -/


/-- heap-ordered forest on `0..n-1` with root marker `n` -/
def Heap (n : Nat) (parent : Array Nat) : Prop :=
  ∀ j < n, parent.getD j 0 = n ∨ (j < parent.getD j 0 ∧ parent.getD j 0 < n)

theorem Heap.lt {n : Nat} {parent : Array Nat} (h : Heap n parent) {j : Nat} (hj : j < n) :
    j < parent.getD j 0 ∧ parent.getD j 0 ≤ n := by
  rcases h j hj with e | ⟨a, b⟩
  · rw [e]; exact ⟨hj, Nat.le_refl _⟩
  · exact ⟨a, Nat.le_of_lt b⟩

theorem kid_mem_order (parent : Array Nat) (u : Nat) (h : u < parent.getD u 0) :
    u ∈ order parent (parent.getD u 0) :=
  (mem_order_iff parent _ u).mpr (Or.inr ⟨u, h, rfl, self_mem_order parent u⟩)

theorem mem_order_trans (parent : Array Nat) {u v w : Nat} (h1 : u ∈ order parent v) (h2 : v ∈ order parent w) :
    u ∈ order parent w :=
  (order_infix parent w v h2).subset h1

theorem all_mem_order {n : Nat} {parent : Array Nat} (h : Heap n parent) (u : Nat) (hu : u ≤ n) :
    u ∈ order parent n := by
  induction hd : n - u using Nat.strong_induction_on generalizing u with
  | _ d ih =>
    rcases Nat.lt_or_eq_of_le hu with hlt | rfl
    · obtain ⟨h1, h2⟩ := h.lt hlt
      have hp := ih (n - parent.getD u 0) (by omega) _ h2 rfl
      exact mem_order_trans parent (kid_mem_order parent u h1) hp
    · exact self_mem_order parent _

theorem order_perm_range {n : Nat} {parent : Array Nat} (h : Heap n parent) :
    (order parent n).Perm (List.range (n + 1)) := by
  rw [List.perm_ext_iff_of_nodup (nodup_order parent n) List.nodup_range]
  intro a
  rw [List.mem_range]
  exact ⟨fun ha => Nat.lt_succ_of_le (le_of_mem_order parent n a ha), fun ha => all_mem_order h a (Nat.le_of_lt_succ ha)⟩

theorem order_length {n : Nat} {parent : Array Nat} (h : Heap n parent) : (order parent n).length = n + 1 := by
  rw [(order_perm_range h).length_eq, List.length_range]

/-- descendant relation of the forest -/
inductive Desc (n : Nat) (parent : Array Nat) : Nat → Nat → Prop
  | refl (v : Nat) : Desc n parent v v
  | step {u v : Nat} : u < n → Desc n parent (parent.getD u 0) v → Desc n parent u v

theorem desc_of_mem_order {n : Nat} {parent : Array Nat} {u v : Nat} (hv : v ≤ n)
    (h : u ∈ order parent v) : Desc n parent u v := by
  induction hd : v - u using Nat.strong_induction_on generalizing u with
  | _ d ih =>
    by_cases e : u = v
    · subst e; exact Desc.refl _
    · obtain ⟨h1, h2⟩ := parent_mem_order parent v u h e
      have hle := le_of_mem_order parent v _ h2
      exact Desc.step (by omega) (ih (v - parent.getD u 0) (by omega) h2 rfl)

theorem mem_order_of_desc {n : Nat} {parent : Array Nat} (hp : Heap n parent) {u v : Nat}
    (h : Desc n parent u v) : u ∈ order parent v := by
  induction h with
  | refl v => exact self_mem_order parent v
  | step hu _ ih => exact mem_order_trans parent (kid_mem_order parent _ (hp.lt hu).1) ih

/-! positions -/

theorem idxOf_infix {l m s t : List Nat} (hl : l = s ++ m ++ t) (hn : l.Nodup) {x : Nat} (hx : x ∈ m) :
    l.idxOf x = s.length + m.idxOf x := by
  subst hl
  have hxs : x ∉ s := by
    intro hs
    have := (List.nodup_append.mp (List.nodup_append.mp hn).1).2.2 x hs x hx
    exact this rfl
  rw [List.append_assoc, List.idxOf_append_of_notMem hxs, List.idxOf_append_of_mem hx]

theorem idxOf_infix_iff {l m s t : List Nat} (hl : l = s ++ m ++ t) (hn : l.Nodup) {x : Nat} (hx : x ∈ l) :
    x ∈ m ↔ s.length ≤ l.idxOf x ∧ l.idxOf x < s.length + m.length := by
  constructor
  · intro hm
    rw [idxOf_infix hl hn hm]
    have := List.idxOf_lt_length_of_mem hm
    omega
  · rintro ⟨h1, h2⟩
    subst hl
    by_contra hm
    by_cases hs : x ∈ s
    · rw [List.append_assoc, List.idxOf_append_of_mem hs] at h1
      have := List.idxOf_lt_length_of_mem hs
      omega
    · rw [List.append_assoc, List.idxOf_append_of_notMem hs, List.idxOf_append_of_notMem hm] at h2
      omega

theorem idxOf_last {l : List Nat} {v : Nat} (h : v ∉ l) : (l ++ [v]).idxOf v = l.length := by
  rw [List.idxOf_append_of_notMem h]; simp

theorem root_not_mem_kids_order (parent : Array Nat) (v : Nat) :
    v ∉ (kids parent v).flatMap (order parent) := by
  intro ha
  obtain ⟨c, hc, hac⟩ := List.mem_flatMap.mp ha
  have := le_of_mem_order parent c v hac
  have := ((mem_kids parent v c).mp hc).1
  omega

theorem idxOf_root (parent : Array Nat) (v : Nat) :
    (order parent v).idxOf v + 1 = (order parent v).length := by
  rw [order_eq, idxOf_last (root_not_mem_kids_order parent v)]; simp

theorem idxOf_lt_root (parent : Array Nat) (v u : Nat) (h : u ∈ order parent v) (hne : u ≠ v) :
    (order parent v).idxOf u < (order parent v).idxOf v := by
  have hr := idxOf_root parent v
  have hu : u ∈ (kids parent v).flatMap (order parent) := by
    rw [order_eq] at h
    rcases List.mem_append.mp h with h | h
    · exact h
    · exact absurd (List.mem_singleton.mp h) hne
  have : (order parent v).idxOf u = ((kids parent v).flatMap (order parent)).idxOf u := by
    rw [order_eq, List.idxOf_append_of_mem hu]
  rw [this]
  have h2 := List.idxOf_lt_length_of_mem hu
  have h3 : (order parent v).length = ((kids parent v).flatMap (order parent)).length + 1 := by
    rw [order_eq]; simp
  omega

/-! the array returned by `treePostorder` -/

theorem treePostorder_getD (n : Nat) (parent : Array Nat) (v : Nat) (hv : v ≤ n) :
    (treePostorder n parent).getD v 0 = (order parent n).idxOf v := by
  unfold treePostorder
  simp only [toArray_getD, List.getD_eq_getElem?_getD]
  rw [List.getElem?_map, List.getElem?_range (by omega)]
  simp

theorem treePostorder_size (n : Nat) (parent : Array Nat) : (treePostorder n parent).size = n + 1 := by
  simp [treePostorder]



/-! ### scatter loops -/


theorem isPerm_of_injective (n : Nat) (p : Array Nat) (hs : p.size = n) (hlt : ∀ i < n, p.getD i 0 < n)
    (hinj : ∀ i < n, ∀ j < n, p.getD i 0 = p.getD j 0 → i = j) : isPerm n p = true := by
  unfold isPerm
  simp only [Bool.and_eq_true, beq_iff_eq, List.all_eq_true, decide_eq_true_eq, distinct_iff_nodup]
  have hlen : p.toList.length = n := by simpa using hs
  refine ⟨⟨hs, ?_⟩, ?_⟩
  · intro x hx
    obtain ⟨i, hi, hix⟩ := List.getElem_of_mem hx
    have := hlt i (hlen ▸ hi)
    rw [getD_eq_toList_getElem p i (by simpa using hi)] at this
    exact hix ▸ this
  · rw [List.nodup_iff_injective_getElem]
    intro ⟨i, hi⟩ ⟨j, hj⟩ hij
    simp only at hij
    have := hinj i (hlen ▸ hi) j (hlen ▸ hj) (by
      rw [getD_eq_toList_getElem p i (by simpa using hi), getD_eq_toList_getElem p j (by simpa using hj)]; exact hij)
    exact Fin.ext this

theorem firstN_size (n : Nat) (a : Array Nat) : (firstN n a).size = n := by simp [firstN]

theorem firstN_getD (n : Nat) (a : Array Nat) (i : Nat) (h : i < n) : (firstN n a).getD i 0 = a.getD i 0 := by
  unfold firstN
  simp only [toArray_getD, List.getD_eq_getElem?_getD]
  rw [List.getElem?_map, List.getElem?_range h]
  simp

theorem scatter_succ (n : Nat) (idx val : Nat → Nat) (init : Array Nat) :
    scatter (n + 1) idx val init = (scatter n idx val init).setIfInBounds (idx n) (val n) := by
  unfold scatter
  rw [List.range_succ, List.foldl_append]; rfl

theorem scatter_size (n : Nat) (idx val : Nat → Nat) (init : Array Nat) :
    (scatter n idx val init).size = init.size := by
  induction n with
  | zero => rfl
  | succ k ih => rw [scatter_succ]; simpa using ih

/-- `for i < n: a[idx i] = val i` with distinct in-range indices stores `val i` at `idx i` -/
theorem scatter_getD (n : Nat) (idx val : Nat → Nat) (init : Array Nat)
    (hinj : ∀ i < n, ∀ j < n, idx i = idx j → i = j) (hb : ∀ i < n, idx i < init.size) :
    ∀ i < n, (scatter n idx val init).getD (idx i) 0 = val i := by
  induction n with
  | zero => intro i hi; omega
  | succ k ih =>
    intro i hi
    rw [scatter_succ, getD_setIfInBounds, scatter_size]
    by_cases e : i = k
    · subst e; simp [hb i hi]
    · have hik : i < k := by omega
      have hne : idx i ≠ idx k := fun h => e (hinj i hi k (Nat.lt_succ_self k) h)
      simp only [hne, false_and, if_false]
      exact ih (fun a ha b hb' hab => hinj a (Nat.lt_succ_of_lt ha) b (Nat.lt_succ_of_lt hb') hab)
        (fun a ha => hb a (Nat.lt_succ_of_lt ha)) i hik



/-! ### the array `treePostorder` -/


theorem post_lt {n : Nat} {parent : Array Nat} (h : Heap n parent) (v : Nat) (hv : v ≤ n) :
    (treePostorder n parent).getD v 0 < n + 1 := by
  rw [treePostorder_getD n parent v hv, ← order_length h]
  exact List.idxOf_lt_length_of_mem (all_mem_order h v hv)

theorem post_inj {n : Nat} {parent : Array Nat} (h : Heap n parent) (u v : Nat) (hu : u ≤ n) (hv : v ≤ n)
    (e : (treePostorder n parent).getD u 0 = (treePostorder n parent).getD v 0) : u = v := by
  rw [treePostorder_getD n parent u hu, treePostorder_getD n parent v hv] at e
  exact (List.idxOf_inj (all_mem_order h u hu)).mp e

theorem post_root {n : Nat} {parent : Array Nat} (h : Heap n parent) :
    (treePostorder n parent).getD n 0 = n := by
  rw [treePostorder_getD n parent n (Nat.le_refl _)]
  have := idxOf_root parent n
  rw [order_length h] at this
  omega

theorem post_parent {n : Nat} {parent : Array Nat} (h : Heap n parent) (v : Nat) (hv : v < n) :
    (treePostorder n parent).getD v 0 < (treePostorder n parent).getD (parent.getD v 0) 0 := by
  obtain ⟨h1, h2⟩ := h.lt hv
  rw [treePostorder_getD n parent v (Nat.le_of_lt hv), treePostorder_getD n parent _ h2]
  obtain ⟨s, t, hst⟩ := order_infix parent n _ (all_mem_order h _ h2)
  have hn := nodup_order parent n
  rw [idxOf_infix hst.symm hn (kid_mem_order parent v h1), idxOf_infix hst.symm hn (self_mem_order parent _)]
  have := idxOf_lt_root parent _ v (kid_mem_order parent v h1) (Nat.ne_of_lt h1)
  omega

theorem post_subtree {n : Nat} {parent : Array Nat} (h : Heap n parent) (v : Nat) (hv : v ≤ n) :
    ∃ lo, ∀ u ≤ n, Desc n parent u v ↔
      lo ≤ (treePostorder n parent).getD u 0 ∧ (treePostorder n parent).getD u 0 ≤ (treePostorder n parent).getD v 0 := by
  obtain ⟨s, t, hst⟩ := order_infix parent n v (all_mem_order h v hv)
  have hn := nodup_order parent n
  refine ⟨s.length, fun u hu => ?_⟩
  rw [treePostorder_getD n parent u hu, treePostorder_getD n parent v hv]
  have hv' := idxOf_infix hst.symm hn (self_mem_order parent v)
  have hr := idxOf_root parent v
  have key := idxOf_infix_iff hst.symm hn (x := u) (all_mem_order h u hu)
  constructor
  · intro hd
    have := key.mp (mem_order_of_desc h hd)
    omega
  · rintro ⟨a, b⟩
    exact desc_of_mem_order hv (key.mpr ⟨a, by omega⟩)



/-! ### well-formedness of `ofCols` -/


theorem ofCols_wf (m : Nat) (cols : List (List Nat)) :
    (ofCols m cols).colptr.size = cols.length + 1 ∧ (ofCols m cols).colptr.getD 0 0 = 0 ∧
    (∀ j < cols.length, (ofCols m cols).colptr.getD (j + 1) 0 =
        (ofCols m cols).colptr.getD j 0 + ((ofCols m cols).col j).length) ∧
    (ofCols m cols).colptr.getD cols.length 0 = (ofCols m cols).rowind.size := by
  refine ⟨by simp [ofCols, ptrs_length], ?_, ?_, ?_⟩
  · simp only [ofCols, toArray_getD]; rw [ptrs_getD 0 cols 0 (Nat.zero_le _)]; simp
  · intro j hj
    rw [ofCols_col m cols j hj]
    simp only [ofCols, toArray_getD]
    rw [ptrs_getD 0 cols j (by omega), ptrs_getD 0 cols (j+1) (by omega),
      List.take_succ_eq_append_getElem hj, List.flatten_append, List.length_append]
    simp only [List.flatten_cons, List.flatten_nil, List.append_nil]; omega
  · simp only [ofCols, toArray_getD]
    rw [ptrs_getD 0 cols _ (Nat.le_refl _), List.take_length]; simp

theorem getata_col (A : Pat) (j : Nat) (hj : j < A.n) : (getata A).col j = ataCol A.n A.col j := by
  unfold getata
  rw [ofCols_col _ _ j (by simpa using hj)]; simp

theorem atPlusA_col (A : Pat) (j : Nat) (hj : j < A.n) : (atPlusA A).col j = apaCol A.n A.col j := by
  unfold atPlusA
  rw [ofCols_col _ _ j (by simpa using hj)]; simp



/-! ### sp_preorder pieces -/


theorem range_getD (k j : Nat) (h : j < k) : (Array.range k).getD j 0 = j := by
  simp [Array.getD_eq_getD_getElem?, h]

/-- the relabelling loops of sp_preorder: `iwork[post[i]] = val i; out[i] = iwork[i]` -/
theorem relabel_getD (n : Nat) (pst val : Nat → Nat) (hlt : ∀ j < n, pst j < n)
    (hinj : ∀ i < n, ∀ j < n, pst i = pst j → i = j) (j : Nat) (hj : j < n) :
    (firstN n (scatter n pst val (Array.replicate (n + 1) 0))).getD (pst j) 0 = val j := by
  rw [firstN_getD _ _ _ (hlt j hj)]
  exact scatter_getD n pst val _ hinj (fun i hi => by have := hlt i hi; simp; omega) j hj

theorem permView_colbeg (A : Pat) (p : Array Nat) (hp : isPerm A.n p = true) (i : Nat) (hi : i < A.n) :
    (permView A p).colbeg.getD (p.getD i 0) 0 = A.colptr.getD i 0 ∧
    (permView A p).colend.getD (p.getD i 0) 0 = A.colptr.getD (i + 1) 0 := by
  obtain ⟨_, hlt, hinj, _⟩ := (isPerm_iff A.n p).mp hp
  unfold permView
  exact ⟨scatter_getD A.n _ _ _ hinj (fun i hi => by simpa using hlt i hi) i hi,
         scatter_getD A.n _ (fun i => A.colptr.getD (i + 1) 0) _ hinj (fun i hi => by simpa using hlt i hi) i hi⟩

/-- the postorder applied by sp_preorder: the identity in SymmetricMode -/
def postOf (A : Pat) (p : Array Nat) (sym : Bool) : Array Nat :=
  if sym then Array.range (A.n + 1) else treePostorder A.n (coletree A.m A.n (permView A p).col)



/-! ### relabelling a forest -/

/-- descendants are carried over by a relabelling `q` with `et'[q j] = q[et j]` -/
theorem desc_relabel {n : Nat} {et et' : Array Nat} {q : Nat → Nat}
    (hq : ∀ j < n, q j < n) (hrel : ∀ j < n, et'.getD (q j) 0 = q (et.getD j 0))
    {a b : Nat} (h : Desc n et a b) : Desc n et' (q a) (q b) := by
  induction h with
  | refl v => exact Desc.refl _
  | step hu _ ih => exact Desc.step (hq _ hu) (by rw [hrel _ hu]; exact ih)

theorem desc_unrelabel {n : Nat} {et et' : Array Nat} {q : Nat → Nat} (hheap : Heap n et)
    (hqn : q n = n) (hinj : ∀ i ≤ n, ∀ j ≤ n, q i = q j → i = j)
    (hrel : ∀ j < n, et'.getD (q j) 0 = q (et.getD j 0))
    {x y : Nat} (h : Desc n et' x y) : ∀ a ≤ n, q a = x → ∃ b ≤ n, q b = y ∧ Desc n et a b := by
  induction h with
  | refl v => intro a ha e; exact ⟨a, ha, e, Desc.refl _⟩
  | step hu _ ih =>
    intro a ha e
    have han : a < n := by
      rcases Nat.lt_or_eq_of_le ha with h | h
      · exact h
      · subst h; rw [hqn] at e; omega
    obtain ⟨b, hb, hqb, hd⟩ := ih (et.getD a 0) (hheap.lt han).2 (by rw [← e, hrel a han])
    exact ⟨b, hb, hqb, Desc.step han hd⟩



/-! ### relax_snode loop -/

theorem getD_setIfInBounds' {α : Type} (a : Array α) (i k : Nat) (v d : α) :
    (a.setIfInBounds i v).getD k d = if k = i ∧ i < a.size then v else a.getD k d := by
  simp only [Array.getD_eq_getD_getElem?, Array.getElem?_setIfInBounds]
  by_cases h : i = k
  · subst h
    by_cases h2 : i < a.size
    · simp [h2]
    · simp [h2]
  · have h' : ¬ k = i := fun e => h e.symm
    simp [h, h']

theorem climb_bounds {n relax : Nat} {et desc : Array Nat} (h : Heap n et) (fuel j : Nat) (hj : j < n) :
    j ≤ climb n relax et desc fuel j ∧ climb n relax et desc fuel j < n := by
  induction fuel generalizing j with
  | zero => exact ⟨Nat.le_refl _, hj⟩
  | succ f ih =>
    unfold climb
    simp only
    split
    · rename_i hc
      obtain ⟨h1, h2⟩ := h.lt hj
      have hp : et.getD j 0 < n := by omega
      obtain ⟨a, b⟩ := ih _ hp
      exact ⟨by omega, b⟩
    · exact ⟨Nat.le_refl _, hj⟩


theorem climb_spec {n relax : Nat} {et desc : Array Nat} (fuel j : Nat) :
    climb n relax et desc fuel j = j ∨ desc.getD (climb n relax et desc fuel j) 0 < relax := by
  induction fuel generalizing j with
  | zero => left; rfl
  | succ f ih =>
    unfold climb
    simp only
    split
    · rename_i hc
      rcases ih (et.getD j 0) with e | e
      · right; rw [e]; exact hc.2
      · right; exact e
    · left; rfl

/-- state of the supernode loop: ranges found so far lie below `j`, nothing is recorded from `j` on -/
def RelaxInv (n relax : Nat) (desc : Array Nat) (j : Nat) (re : Array Int) : Prop :=
  re.size = n ∧ (∀ s, j ≤ s → re.getD s (-1) = -1) ∧
  ∀ s < j, re.getD s (-1) = -1 ∨
    ∃ e : Nat, re.getD s (-1) = Int.ofNat e ∧ s ≤ e ∧ e < j ∧ e < n ∧ (s < e → desc.getD e 0 < relax) ∧
      ∀ t, s < t → t ≤ e → re.getD t (-1) = -1

theorem relaxLoop_inv {n relax : Nat} {et desc : Array Nat} (h : Heap n et) (fuel j : Nat) (re : Array Int)
    (hinv : RelaxInv n relax desc j re) : ∃ j', RelaxInv n relax desc j' (relaxLoop n relax et desc fuel j re) := by
  induction fuel generalizing j re with
  | zero => exact ⟨j, hinv⟩
  | succ f ih =>
    unfold relaxLoop
    simp only
    split
    · exact ⟨j, hinv⟩
    · rename_i hjn
      have hj : j < n := by omega
      obtain ⟨hs, hhi, hlo⟩ := hinv
      obtain ⟨hc1, hc2⟩ := climb_bounds (relax := relax) (desc := desc) h n j hj
      apply ih
      -- the next start exceeds the last column of this supernode
      have hnxt : climb n relax et desc n j <
          ((List.range n).find? fun k => decide (k > climb n relax et desc n j) && desc.getD k 0 == 0).getD n := by
        cases hf : (List.range n).find? fun k => decide (k > climb n relax et desc n j) && desc.getD k 0 == 0 with
        | none => simpa using hc2
        | some k =>
          have := List.find?_some hf
          simp only [Bool.and_eq_true, decide_eq_true_eq] at this
          simpa using this.1
      refine ⟨by simpa using hs, ?_, ?_⟩
      · intro s hs'
        rw [getD_setIfInBounds']
        have : ¬ (s = j ∧ j < re.size) := by omega
        rw [if_neg this]
        exact hhi s (by omega)
      · intro s hs'
        rw [getD_setIfInBounds']
        by_cases e : s = j
        · subst e
          right
          refine ⟨climb n relax et desc n s, by simp [hs, hj], hc1, hnxt, hc2, ?_, ?_⟩
          · intro hlt
            rcases climb_spec (n := n) (relax := relax) (et := et) (desc := desc) n s with e | e
            · omega
            · exact e
          intro t ht1 ht2
          rw [getD_setIfInBounds']
          have : ¬ (t = s ∧ s < re.size) := by omega
          rw [if_neg this]
          exact hhi t (by omega)
        · have hne : ¬ (s = j ∧ j < re.size) := fun c => e c.1
          rw [if_neg hne]
          by_cases hsj : s < j
          · rcases hlo s hsj with h1 | ⟨e', he1, he2, he3, he4, he6, he5⟩
            · exact Or.inl h1
            · right
              refine ⟨e', he1, he2, by omega, he4, he6, ?_⟩
              intro t ht1 ht2
              rw [getD_setIfInBounds']
              have : ¬ (t = j ∧ j < re.size) := by omega
              rw [if_neg this]
              exact he5 t ht1 ht2
          · left; exact hhi s (by omega)


end Slu.Order
