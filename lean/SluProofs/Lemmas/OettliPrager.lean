import SluProofs.Lemmas.Fold
import Mathlib.Algebra.Order.BigOperators.Group.Finset
import Mathlib.Algebra.BigOperators.Ring.Finset
import Mathlib.Algebra.Order.Field.Basic
import Mathlib.Algebra.Order.Field.Rat
import Mathlib.Tactic.Linarith
import Mathlib.Tactic.Ring
/-
The Oettli–Prager theorem (W. Oettli, W. Prager, Numer. Math. 6 (1964) 405-409; Higham, Accuracy and
Stability of Numerical Algorithms, Thm 7.3): for a real m x n system, `x` is the exact solution of a
system `(A + δA) x = b + δb` with `|δA| ≤ ω E`, `|δb| ≤ ω f` entrywise iff `|b - A x| ≤ ω (E |x| + f)`
row by row; hence the smallest such `ω` — the componentwise backward error of `x` — is
`max_i |r_i| / (E |x| + f)_i`.  With `E = |A|`, `f = |b|` that is the number `[sd]gsrfs` reports in
`berr` (Props/C13.lean, `berr_is_min_backward_error`).

Self-contained: matrices are functions `Nat → Nat → K` read on `i < m`, `j < n`; `K` is any linearly
ordered field for the equivalence, `Rat` for the statements about the running maximum `foldMaxIf`.
-/
namespace Slu.OettliPrager
open Finset

section field
variable {K : Type} [Field K] [LinearOrder K] [IsStrictOrderedRing K]

/-- `x` solves a perturbed system `(A + δA) x = b + δb` with `|δA| ≤ ω E`, `|δb| ≤ ω f` entrywise -/
def Feasible (m n : Nat) (A E : Nat → Nat → K) (x b f : Nat → K) (ω : K) : Prop :=
  ∃ (dA : Nat → Nat → K) (db : Nat → K),
    (∀ i < m, ∀ j < n, |dA i j| ≤ ω * E i j) ∧ (∀ i < m, |db i| ≤ ω * f i) ∧
    (∀ i < m, ∑ j ∈ range n, (A i j + dA i j) * x j = b i + db i)

/-- larger weights on the matrix keep a perturbation admissible -/
theorem Feasible.mono_E {m n : Nat} {A E E' : Nat → Nat → K} {x b f : Nat → K} {ω : K} (hω : 0 ≤ ω)
    (hE : ∀ i < m, ∀ j < n, E i j ≤ E' i j) (h : Feasible m n A E x b f ω) : Feasible m n A E' x b f ω := by
  obtain ⟨dA, db, h1, h2, h3⟩ := h
  exact ⟨dA, db, fun i hi j hj => le_trans (h1 i hi j hj) (mul_le_mul_of_nonneg_left (hE i hi j hj) hω), h2, h3⟩

/-- residual of row `i` -/
def res (n : Nat) (A : Nat → Nat → K) (x b : Nat → K) (i : Nat) : K := b i - ∑ j ∈ range n, A i j * x j

/-- the weight of row `i`: `(E |x| + f)_i` -/
def den (n : Nat) (E : Nat → Nat → K) (x f : Nat → K) (i : Nat) : K := ∑ j ∈ range n, E i j * |x j| + f i

/-- `+1` / `-1` -/
def sgn (t : K) : K := if 0 ≤ t then 1 else -1

theorem abs_sgn (t : K) : |sgn t| = 1 := by
  unfold sgn; split <;> simp

theorem sgn_mul_self (t : K) : sgn t * t = |t| := by
  unfold sgn; split
  · rename_i h; rw [abs_of_nonneg h, one_mul]
  · rename_i h; rw [abs_of_neg (not_le.mp h)]; ring

theorem den_nonneg (n : Nat) (E : Nat → Nat → K) (x f : Nat → K) (i : Nat)
    (hE : ∀ j < n, 0 ≤ E i j) (hf : 0 ≤ f i) : 0 ≤ den n E x f i := by
  unfold den
  have : 0 ≤ ∑ j ∈ range n, E i j * |x j| :=
    sum_nonneg fun j hj => mul_nonneg (hE j (mem_range.mp hj)) (abs_nonneg _)
  linarith

/-- (→): the triangle inequality. -/
theorem feasible_imp_bound (m n : Nat) (A E : Nat → Nat → K) (x b f : Nat → K) (ω : K)
    (h : Feasible m n A E x b f ω) : ∀ i < m, |res n A x b i| ≤ ω * den n E x f i := by
  obtain ⟨dA, db, hA, hb, hs⟩ := h
  intro i hi
  have e : res n A x b i = ∑ j ∈ range n, dA i j * x j - db i := by
    have := hs i hi
    unfold res
    have h2 : ∑ j ∈ range n, (A i j + dA i j) * x j =
        ∑ j ∈ range n, A i j * x j + ∑ j ∈ range n, dA i j * x j := by
      rw [← sum_add_distrib]; apply sum_congr rfl; intro j _; ring
    rw [h2] at this
    linarith
  rw [e]
  have h1 : |∑ j ∈ range n, dA i j * x j| ≤ ∑ j ∈ range n, ω * (E i j * |x j|) := by
    refine le_trans (abs_sum_le_sum_abs _ _) (sum_le_sum fun j hj => ?_)
    rw [abs_mul, ← mul_assoc]
    exact mul_le_mul_of_nonneg_right (hA i hi j (mem_range.mp hj)) (abs_nonneg _)
  rw [← mul_sum] at h1
  have h2 := hb i hi
  have h3 : |∑ j ∈ range n, dA i j * x j - db i| ≤ |∑ j ∈ range n, dA i j * x j| + |db i| := abs_sub _ _
  unfold den
  rw [mul_add]
  linarith

/-- (←): the explicit perturbation `δA = (r_i / d_i) E_ij sign(x_j)`, `δb_i = -(r_i / d_i) f_i`. -/
theorem bound_imp_feasible (m n : Nat) (A E : Nat → Nat → K) (x b f : Nat → K) (ω : K) (hω : 0 ≤ ω)
    (hE : ∀ i < m, ∀ j < n, 0 ≤ E i j) (hf : ∀ i < m, 0 ≤ f i)
    (h : ∀ i < m, |res n A x b i| ≤ ω * den n E x f i) : Feasible m n A E x b f ω := by
  have key : ∀ i < m, 0 ≤ den n E x f i ∧ |res n A x b i / den n E x f i| ≤ ω ∧
      res n A x b i / den n E x f i * den n E x f i = res n A x b i := by
    intro i hi
    have hd0 : 0 ≤ den n E x f i := den_nonneg n E x f i (hE i hi) (hf i hi)
    refine ⟨hd0, ?_, ?_⟩
    · rcases eq_or_lt_of_le hd0 with h0 | hpos
      · rw [← h0, div_zero, abs_zero]; exact hω
      · rw [abs_div, abs_of_pos hpos]
        exact (div_le_iff₀ hpos).mpr (h i hi)
    · rcases eq_or_lt_of_le hd0 with h0 | hpos
      · have hr : |res n A x b i| ≤ 0 := by have := h i hi; rw [← h0, mul_zero] at this; exact this
        rw [← h0, mul_zero]; exact (abs_nonpos_iff.mp hr).symm
      · exact div_mul_cancel₀ _ (ne_of_gt hpos)
  refine ⟨fun i j => res n A x b i / den n E x f i * E i j * sgn (x j),
    fun i => -(res n A x b i / den n E x f i * f i), ?_, ?_, ?_⟩
  · intro i hi j hj
    obtain ⟨_, ht, _⟩ := key i hi
    show |res n A x b i / den n E x f i * E i j * sgn (x j)| ≤ ω * E i j
    rw [abs_mul, abs_mul, abs_sgn, mul_one, abs_of_nonneg (hE i hi j hj)]
    exact mul_le_mul_of_nonneg_right ht (hE i hi j hj)
  · intro i hi
    obtain ⟨_, ht, _⟩ := key i hi
    show |-(res n A x b i / den n E x f i * f i)| ≤ ω * f i
    rw [abs_neg, abs_mul, abs_of_nonneg (hf i hi)]
    exact mul_le_mul_of_nonneg_right ht (hf i hi)
  · intro i hi
    obtain ⟨_, _, hc⟩ := key i hi
    show ∑ j ∈ range n, (A i j + res n A x b i / den n E x f i * E i j * sgn (x j)) * x j =
      b i + -(res n A x b i / den n E x f i * f i)
    have h2 : ∑ j ∈ range n, (A i j + res n A x b i / den n E x f i * E i j * sgn (x j)) * x j =
        ∑ j ∈ range n, A i j * x j + res n A x b i / den n E x f i * ∑ j ∈ range n, E i j * |x j| := by
      rw [mul_sum, ← sum_add_distrib]; apply sum_congr rfl; intro j _
      rw [← sgn_mul_self (x j)]; ring
    rw [h2]
    have h3 : ∑ j ∈ range n, E i j * |x j| = den n E x f i - f i := by unfold den; ring
    rw [h3, mul_sub, hc]
    unfold res; ring

/-- **Oettli–Prager, general weights.** For entrywise non-negative weights `E`, `f` and `ω ≥ 0`:
`x` solves some system `(A + δA) x = b + δb` with `|δA| ≤ ω E`, `|δb| ≤ ω f` iff
`|b - A x| ≤ ω (E |x| + f)` row by row. -/
theorem oettli_prager_weights (m n : Nat) (A E : Nat → Nat → K) (x b f : Nat → K) (ω : K) (hω : 0 ≤ ω)
    (hE : ∀ i < m, ∀ j < n, 0 ≤ E i j) (hf : ∀ i < m, 0 ≤ f i) :
    Feasible m n A E x b f ω ↔ ∀ i < m, |res n A x b i| ≤ ω * den n E x f i :=
  ⟨feasible_imp_bound m n A E x b f ω, bound_imp_feasible m n A E x b f ω hω hE hf⟩

/-- **Oettli–Prager (1964).** `x` is the exact solution of a system whose matrix and right-hand side
differ from `A`, `b` by at most `ω` times their entries' magnitudes iff `|b - A x| ≤ ω (|A||x| + |b|)`. -/
theorem oettli_prager_field (m n : Nat) (A : Nat → Nat → K) (x b : Nat → K) (ω : K) (hω : 0 ≤ ω) :
    (∃ (dA : Nat → Nat → K) (db : Nat → K),
      (∀ i < m, ∀ j < n, |dA i j| ≤ ω * |A i j|) ∧ (∀ i < m, |db i| ≤ ω * |b i|) ∧
      (∀ i < m, ∑ j ∈ range n, (A i j + dA i j) * x j = b i + db i))
    ↔ (∀ i < m, |b i - ∑ j ∈ range n, A i j * x j| ≤ ω * (∑ j ∈ range n, |A i j| * |x j| + |b i|)) :=
  oettli_prager_weights m n A (fun i j => |A i j|) x b (fun i => |b i|) ω hω
    (fun _ _ _ _ => abs_nonneg _) (fun _ _ => abs_nonneg _)

end field

/-! ### the smallest feasible `ω` -/

section rat

/-- `max_{i < m, d_i ≠ 0} |r_i| / d_i` as the running maximum the library computes -/
def omegaStar (m n : Nat) (A E : Nat → Nat → ℚ) (x b f : Nat → ℚ) : ℚ :=
  foldMaxIf (fun i => den n E x f i ≠ 0) (fun i => |res n A x b i| / den n E x f i) 0 (List.range m)

theorem omegaStar_nonneg (m n : Nat) (A E : Nat → Nat → ℚ) (x b f : Nat → ℚ) : 0 ≤ omegaStar m n A E x b f :=
  foldMaxIf_ge_init _ _ 0 _

/-- (a) if the rows with a zero weight have a zero residual, the maximum ratio is feasible -/
theorem omegaStar_feasible (m n : Nat) (A E : Nat → Nat → ℚ) (x b f : Nat → ℚ)
    (hE : ∀ i < m, ∀ j < n, 0 ≤ E i j) (hf : ∀ i < m, 0 ≤ f i)
    (hz : ∀ i < m, den n E x f i = 0 → res n A x b i = 0) :
    Feasible m n A E x b f (omegaStar m n A E x b f) := by
  apply bound_imp_feasible m n A E x b f _ (omegaStar_nonneg m n A E x b f) hE hf
  intro i hi
  have hd0 : 0 ≤ den n E x f i := den_nonneg n E x f i (hE i hi) (hf i hi)
  rcases eq_or_lt_of_le hd0 with h0 | hpos
  · rw [hz i hi h0.symm, ← h0, abs_zero, mul_zero]
  · have := foldMaxIf_ge_mem (fun i => den n E x f i ≠ 0) (fun i => |res n A x b i| / den n E x f i) 0
      (List.range m) i (List.mem_range.mpr hi) (ne_of_gt hpos)
    exact (div_le_iff₀ hpos).mp this

/-- (b) no feasible `ω ≥ 0` is smaller than the maximum ratio -/
theorem omegaStar_le (m n : Nat) (A E : Nat → Nat → ℚ) (x b f : Nat → ℚ)
    (hE : ∀ i < m, ∀ j < n, 0 ≤ E i j) (hf : ∀ i < m, 0 ≤ f i)
    (ω : ℚ) (hω : 0 ≤ ω) (h : Feasible m n A E x b f ω) : omegaStar m n A E x b f ≤ ω := by
  have hb := feasible_imp_bound m n A E x b f ω h
  rcases foldMaxIf_attained (fun i => den n E x f i ≠ 0) (fun i => |res n A x b i| / den n E x f i) 0
    (List.range m) with h0 | ⟨i, hi, hne, he⟩
  · unfold omegaStar; rw [h0]; exact hω
  · have hi' := List.mem_range.mp hi
    have hpos : 0 < den n E x f i := lt_of_le_of_ne (den_nonneg n E x f i (hE i hi') (hf i hi')) (Ne.symm hne)
    unfold omegaStar; rw [← he]
    exact (div_le_iff₀ hpos).mpr (hb i hi')

/-- with the weights `|A|`, `|b|` a row of zero weight has a zero residual -/
theorem res_zero_of_den_zero (n : Nat) (A : Nat → Nat → ℚ) (x b : Nat → ℚ) (i : Nat)
    (h : den n (fun i j => |A i j|) x (fun i => |b i|) i = 0) : res n A x b i = 0 := by
  unfold den at h
  have hs : 0 ≤ ∑ j ∈ range n, |A i j| * |x j| :=
    sum_nonneg fun j _ => mul_nonneg (abs_nonneg _) (abs_nonneg _)
  have hb : |b i| = 0 := by linarith [abs_nonneg (b i)]
  have hs0 : ∑ j ∈ range n, |A i j| * |x j| = 0 := by linarith [abs_nonneg (b i)]
  have ht := (sum_eq_zero_iff_of_nonneg fun j _ => mul_nonneg (abs_nonneg (A i j)) (abs_nonneg (x j))).mp hs0
  unfold res
  rw [abs_eq_zero.mp hb, zero_sub, neg_eq_zero]
  apply sum_eq_zero
  intro j hj
  have := ht j hj
  rw [← abs_mul] at this
  exact abs_eq_zero.mp this

/-- **Oettli–Prager over `ℚ`**, as stated in the task. -/
theorem oettli_prager (m n : Nat) (A : Nat → Nat → ℚ) (x b : Nat → ℚ) (ω : ℚ) (hω : 0 ≤ ω) :
    (∃ (dA : Nat → Nat → ℚ) (db : Nat → ℚ),
      (∀ i < m, ∀ j < n, |dA i j| ≤ ω * |A i j|) ∧ (∀ i < m, |db i| ≤ ω * |b i|) ∧
      (∀ i < m, ∑ j ∈ Finset.range n, (A i j + dA i j) * x j = b i + db i))
    ↔ (∀ i < m, |b i - ∑ j ∈ Finset.range n, A i j * x j| ≤ ω * (∑ j ∈ Finset.range n, |A i j| * |x j| + |b i|)) :=
  oettli_prager_field m n A x b ω hω

/-- **The componentwise relative backward error is `max_i |r_i| / d_i`.**  With `r = b - A x`,
`d = |A||x| + |b|` and `ω* = max_{i < m, d_i ≠ 0} |r_i| / d_i` (running maximum from `0`):
`ω* ≥ 0`, (a) `x` solves a system perturbed entrywise by at most `ω*` relative, and (b) no `ω ≥ 0`
for which such a perturbation exists is smaller. -/
theorem oettli_prager_min (m n : Nat) (A : Nat → Nat → ℚ) (x b : Nat → ℚ) :
    let r : Nat → ℚ := fun i => b i - ∑ j ∈ Finset.range n, A i j * x j
    let d : Nat → ℚ := fun i => ∑ j ∈ Finset.range n, |A i j| * |x j| + |b i|
    let ωs : ℚ := foldMaxIf (fun i => d i ≠ 0) (fun i => |r i| / d i) 0 (List.range m)
    let feasible : ℚ → Prop := fun ω => ∃ (dA : Nat → Nat → ℚ) (db : Nat → ℚ),
      (∀ i < m, ∀ j < n, |dA i j| ≤ ω * |A i j|) ∧ (∀ i < m, |db i| ≤ ω * |b i|) ∧
      (∀ i < m, ∑ j ∈ Finset.range n, (A i j + dA i j) * x j = b i + db i)
    0 ≤ ωs ∧ feasible ωs ∧ ∀ ω, 0 ≤ ω → feasible ω → ωs ≤ ω := by
  intro r d ωs feasible
  have hE : ∀ i < m, ∀ j < n, (0 : ℚ) ≤ |A i j| := fun _ _ _ _ => abs_nonneg _
  have hf : ∀ i < m, (0 : ℚ) ≤ |b i| := fun _ _ => abs_nonneg _
  exact ⟨omegaStar_nonneg m n A (fun i j => |A i j|) x b (fun i => |b i|),
    omegaStar_feasible m n A (fun i j => |A i j|) x b (fun i => |b i|) hE hf
      (fun i _ h => res_zero_of_den_zero n A x b i h),
    fun ω hω h => omegaStar_le m n A (fun i j => |A i j|) x b (fun i => |b i|) hE hf ω hω h⟩

end rat
end Slu.OettliPrager
