import Slu.Model.LU
import SluProofs.Lemmas.RatBasic
/-
Lemmas about the pivot policy `Slu.LU.pivotChoice` at exact arithmetic (`R = Rat`).
-/
namespace Slu.LU
open Slu

variable {K : Type} [Mag K Rat]

theorem isZero_rat (x : Rat) : IsZero.isZero x = true ↔ x = 0 := by
  simp [IsZero.isZero]

theorem scan_aux (cands : List (Nat × K)) (k : Nat) (acc : Rat × Nat) :
    acc.1 ≤ (scanPivAux cands k acc).1 ∧ (∀ c ∈ cands, (Mag.abs1 c.2 : Rat) ≤ (scanPivAux cands k acc).1) ∧
    (scanPivAux cands k acc = acc ∨
      (k ≤ (scanPivAux cands k acc).2 ∧ acc.1 < (scanPivAux cands k acc).1 ∧
        ∃ c, cands[(scanPivAux cands k acc).2 - k]? = some c ∧ (Mag.abs1 c.2 : Rat) = (scanPivAux cands k acc).1)) := by
  induction cands generalizing k acc with
  | nil => simp [scanPivAux]
  | cons c rest ih =>
    simp only [scanPivAux]
    by_cases hgt : (Mag.abs1 c.2 : Rat) > acc.1
    · simp only [hgt, if_true]
      obtain ⟨h1, h2, h3⟩ := ih (k + 1) (Mag.abs1 c.2, k)
      refine ⟨le_trans (le_of_lt hgt) h1, ?_, ?_⟩
      · intro c' hc'
        rcases List.mem_cons.mp hc' with rfl | hc'
        · exact h1
        · exact h2 c' hc'
      · right
        rcases h3 with h3 | ⟨ha, hb, c', hc', hd⟩
        · rw [h3]; exact ⟨le_refl _, hgt, c, by simp, rfl⟩
        · refine ⟨by omega, lt_trans hgt hb, c', ?_, hd⟩
          have : ∀ a, k + 1 ≤ a → a - k = (a - (k + 1)) + 1 := by intro a h; omega
          rw [this _ ha, List.getElem?_cons_succ]; exact hc'
    · simp only [hgt, if_false]
      obtain ⟨h1, h2, h3⟩ := ih (k + 1) acc
      refine ⟨h1, ?_, ?_⟩
      · intro c' hc'
        rcases List.mem_cons.mp hc' with rfl | hc'
        · exact le_trans (not_lt.mp hgt) h1
        · exact h2 c' hc'
      · rcases h3 with h3 | ⟨ha, hb, c', hc', hd⟩
        · left; exact h3
        · right
          refine ⟨by omega, hb, c', ?_, hd⟩
          have : ∀ a, k + 1 ≤ a → a - k = (a - (k + 1)) + 1 := by intro a h; omega
          rw [this _ ha, List.getElem?_cons_succ]; exact hc'

/-- the scan returns the largest magnitude and, when it is positive, a position attaining it -/
theorem scanPiv_spec (cands : List (Nat × K)) :
    (∀ c ∈ cands, (Mag.abs1 c.2 : Rat) ≤ (scanPiv (R := Rat) cands).1) ∧ 0 ≤ (scanPiv (R := Rat) cands).1 ∧
    ((scanPiv (R := Rat) cands).1 = 0 ∨
      ∃ c, cands[(scanPiv (R := Rat) cands).2]? = some c ∧ (Mag.abs1 c.2 : Rat) = (scanPiv (R := Rat) cands).1) := by
  obtain ⟨h1, h2, h3⟩ := scan_aux cands 0 ((0 : Rat), 0)
  refine ⟨h2, h1, ?_⟩
  rcases h3 with h3 | ⟨_, _, c, hc, hd⟩
  · left; unfold scanPiv; rw [h3]
  · right; exact ⟨c, by simpa [scanPiv] using hc, hd⟩

omit [Mag K Rat] in
theorem findRow_aux (cands : List (Nat × K)) (r k : Nat) (acc : Option Nat) (a : Nat)
    (h : findRowAux cands r k acc = some a) :
    acc = some a ∨ (k ≤ a ∧ ∃ c, cands[a - k]? = some c ∧ c.1 = r) := by
  induction cands generalizing k acc with
  | nil => left; simpa [findRowAux] using h
  | cons c rest ih =>
    simp only [findRowAux] at h
    have key : ∀ a, k + 1 ≤ a → a - k = (a - (k + 1)) + 1 := by intro a h; omega
    by_cases hc : c.1 = r
    · simp only [hc, if_true] at h
      rcases ih (k + 1) (some k) h with h1 | ⟨h1, c', h2, h3⟩
      · simp at h1; subst h1
        right; exact ⟨le_refl _, c, by simp, hc⟩
      · right; exact ⟨by omega, c', by rw [key _ h1, List.getElem?_cons_succ]; exact h2, h3⟩
    · simp only [hc, if_false] at h
      rcases ih (k + 1) acc h with h1 | ⟨h1, c', h2, h3⟩
      · left; exact h1
      · right; exact ⟨by omega, c', by rw [key _ h1, List.getElem?_cons_succ]; exact h2, h3⟩

omit [Mag K Rat] in
theorem findRow_spec (cands : List (Nat × K)) (r a : Nat) (h : findRow cands r = some a) :
    ∃ c, cands[a]? = some c ∧ c.1 = r := by
  rcases findRow_aux cands r 0 none a h with h1 | ⟨_, c, h2, h3⟩
  · simp at h1
  · exact ⟨c, by simpa using h2, h3⟩

end Slu.LU

namespace Slu.LU
open Slu
variable {K : Type} [Mag K Rat]

theorem passes_spec (cands : List (Nat × K)) (thresh : Rat) (p : Nat) (h : passes cands thresh p = true) :
    ∃ c, cands[p]? = some c ∧ (Mag.abs1 c.2 : Rat) ≠ 0 ∧ thresh ≤ (Mag.abs1 c.2 : Rat) := by
  unfold passes at h
  split at h
  · rename_i c hc
    simp only [Bool.and_eq_true, Bool.not_eq_true', decide_eq_true_eq] at h
    refine ⟨c, hc, ?_, h.2⟩
    intro h0
    have := (isZero_rat _).mpr h0
    rw [this] at h; exact absurd h.1 (by simp)
  · simp at h

/-- **Pivot policy, success case.**  The chosen candidate exists, is recorded, is nonzero and
dominates `u *` every candidate (hence every multiplier is bounded by `1/u`). -/
theorem pivotChoice_ok (j : Nat) (cands : List (Nat × K)) (u : Rat)
    (hu0 : 0 ≤ u) (hu1 : u ≤ 1) (usepr : Bool) (oldRow diagRow : Nat)
    (h : (pivotChoice (R := Rat) j cands (fun p => u * p) usepr oldRow diagRow).info = 0) :
    ∃ c, cands[(pivotChoice (R := Rat) j cands (fun p => u * p) usepr oldRow diagRow).pos]? = some c ∧
      (pivotChoice (R := Rat) j cands (fun p => u * p) usepr oldRow diagRow).row = c.1 ∧
      (Mag.abs1 c.2 : Rat) ≠ 0 ∧ ∀ c' ∈ cands, u * (Mag.abs1 c'.2 : Rat) ≤ (Mag.abs1 c.2 : Rat) := by
  obtain ⟨hmax, hpos, hatt⟩ := scanPiv_spec cands
  unfold pivotChoice at h ⊢
  generalize hsp : scanPiv (R := Rat) cands = sp at *
  obtain ⟨pivmax, pivptr⟩ := sp
  simp only at h ⊢ hmax hpos hatt
  by_cases hz : IsZero.isZero pivmax = true
  · simp [hz] at h
  · simp only [hz, Bool.false_eq_true, if_false] at h ⊢
    have hne : pivmax ≠ 0 := fun h0 => hz ((isZero_rat _).mpr h0)
    have hpm : 0 < pivmax := lt_of_le_of_ne hpos (Ne.symm hne)
    have bound : ∀ (c : Nat × K), u * pivmax ≤ (Mag.abs1 c.2 : Rat) → ∀ c' ∈ cands, u * (Mag.abs1 c'.2 : Rat) ≤ (Mag.abs1 c.2 : Rat) := by
      intro c hc c' hc'
      calc u * (Mag.abs1 c'.2 : Rat) ≤ u * pivmax := by
            apply mul_le_mul_of_nonneg_left (hmax c' hc') hu0
        _ ≤ _ := hc
    -- reuse branch
    cases hold : (Option.filter (passes cands (u * pivmax)) (if usepr = true then findRow cands oldRow else none)) with
    | some op =>
      simp only [hold] at h ⊢
      have hf := Option.filter_eq_some_iff.mp hold
      obtain ⟨c, hc, hnz, hth⟩ := passes_spec cands _ op hf.2
      have hfr : findRow cands oldRow = some op := by
        by_cases hu : usepr = true
        · simpa [hu] using hf.1
        · simp [hu] at hf
      obtain ⟨c2, hc2, hrow⟩ := findRow_spec cands oldRow op hfr
      rw [hc] at hc2; cases hc2
      exact ⟨c, hc, hrow.symm, hnz, bound c hth⟩
    | none =>
      simp only [hold] at h ⊢
      -- diagonal branch or the maximum
      cases hd : findRow cands diagRow with
      | some d =>
        simp only [hd]
        by_cases hp : passes cands (u * pivmax) d = true
        · simp only [hp, if_true]
          obtain ⟨c, hc, hnz, hth⟩ := passes_spec cands _ d hp
          exact ⟨c, hc, by simp [hc], hnz, bound c hth⟩
        · simp only [hp, Bool.false_eq_true, if_false]
          rcases hatt with h0 | ⟨c, hc, hv⟩
          · exact absurd h0 hne
          · refine ⟨c, hc, by simp [hc], by rw [hv]; exact hne, bound c ?_⟩
            rw [hv]; nlinarith
      | none =>
        simp only [hd]
        rcases hatt with h0 | ⟨c, hc, hv⟩
        · exact absurd h0 hne
        · refine ⟨c, hc, by simp [hc], by rw [hv]; exact hne, bound c ?_⟩
          rw [hv]; nlinarith

/-- **Pivot policy, singular case.**  A nonzero `info` is `jcol+1` and is returned exactly when
every candidate is exactly zero (or there is none). -/
theorem pivotChoice_info (hnn : ∀ x : K, 0 ≤ (Mag.abs1 x : Rat)) (j : Nat) (cands : List (Nat × K)) (thr : Rat → Rat)
    (usepr : Bool) (oldRow diagRow : Nat) :
    ((pivotChoice (R := Rat) j cands thr usepr oldRow diagRow).info = 0 ∨
     (pivotChoice (R := Rat) j cands thr usepr oldRow diagRow).info = j + 1) ∧
    ((pivotChoice (R := Rat) j cands thr usepr oldRow diagRow).info = j + 1 ↔ ∀ c ∈ cands, (Mag.abs1 c.2 : Rat) = 0) := by
  obtain ⟨hmax, hpos, hatt⟩ := scanPiv_spec cands
  unfold pivotChoice
  generalize hsp : scanPiv (R := Rat) cands = sp at *
  obtain ⟨pivmax, pivptr⟩ := sp
  simp only at hmax hpos hatt ⊢
  by_cases hz : IsZero.isZero pivmax = true
  · simp only [hz, if_true]
    have h0 : pivmax = 0 := (isZero_rat _).mp hz
    refine ⟨Or.inr trivial, ⟨fun _ c hc => le_antisymm (by rw [← h0]; exact hmax c hc) (hnn _), fun _ => trivial⟩⟩
  · simp only [hz, Bool.false_eq_true, if_false]
    have hne : pivmax ≠ 0 := fun h0 => hz ((isZero_rat _).mpr h0)
    have hinfo0 : ∀ (o : PivotOut), o.info = 0 → (o.info = 0 ∨ o.info = j + 1) ∧ (o.info = j + 1 ↔ ∀ c ∈ cands, (Mag.abs1 c.2 : Rat) = 0) := by
      intro o ho
      refine ⟨Or.inl ho, ⟨fun h => by omega, fun hall => ?_⟩⟩
      rcases hatt with h0 | ⟨c, hc, hv⟩
      · exact absurd h0 hne
      · have := hall c (List.mem_of_getElem? hc)
        rw [hv] at this; exact absurd this hne
    split
    · exact hinfo0 _ rfl
    · exact hinfo0 _ rfl

end Slu.LU
