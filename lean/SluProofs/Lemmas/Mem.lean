import Slu.Model.Mem
import Mathlib.Tactic.Ring
import Mathlib.Tactic.Linarith
/-
Helper lemmas about `Slu.Mem` (the allocator model) for C07 / C08.
-/
namespace Slu.Mem

/-- assumptions on the byte sizes: positive multiples of 4 (true of every build: 4/4|8/4|8|16) -/
structure Words.Ok (w : Words) : Prop where
  iw : w.iw = 4
  liw4 : ∃ k, w.liw = 4 * k
  dw4 : ∃ k, w.dw = 4 * k
  liw_pos : 0 < w.liw
  dw_pos : 0 < w.dw

theorem Words.Ok.lword_pos {w : Words} (h : w.Ok) (t : MemType) : 0 < w.lword t := by
  cases t <;> simp [Words.lword, h.liw_pos, h.dw_pos]

/-- **The invariant of a workspace** (after a successful `LUMemInit`): stack marks ordered,
`used` is what the two ends hold, and every live array sits in address order
`[5 pointer arrays | LUSUP | UCOL | LSUB | USUB (room for nzumax entries)] top1 … top2 [dwork | iwork] size`. -/
structure Inv (w : Words) (s : St) : Prop where
  user : s.user = true
  nexp : 0 < s.nexp
  n0 : 0 ≤ s.n
  hdr0 : 0 ≤ s.hdrEnd - (2 * ((s.n + 1) * w.iw) + 3 * ((s.n + 1) * w.liw))
  capL0 : 0 ≤ s.capL
  capU0 : 0 ≤ s.capU
  capS0 : 0 ≤ s.capS
  capB0 : 0 ≤ s.capB
  capBU : s.capB ≤ s.capU
  c1 : s.hdrEnd ≤ s.offL
  c2 : s.offL + s.capL * w.dw ≤ s.offU
  c3 : s.offU + s.capU * w.dw ≤ s.offS
  c4 : s.offS + s.capS * w.liw ≤ s.offB
  c5 : s.offB + s.capU * w.liw ≤ s.top1
  t12 : s.top1 ≤ s.top2
  t2s : s.top2 ≤ s.size
  used : s.used = s.top1 + (s.size - s.top2)
  dlen : 0 ≤ s.dworkLen
  ilen : 0 ≤ s.iworkLen
  d1 : s.top2 ≤ s.dwork
  d2 : s.dwork + s.dworkLen ≤ s.iwork
  d3 : s.iwork + s.iworkLen ≤ s.size

/-! ### the reduction loop -/

theorem userSearch_spec (fx : Fixes) (s : St) (t : MemType) (prev lw : Int) :
    ∀ (f k : Nat) (nl r : Int), userSearch fx s t prev lw f k nl = some r →
      ¬ s.full (needBytes fx t ((r - prev) * lw)) ∧ (r = nl ∨ (fx.d10 = true → prev < r)) := by
  intro f
  induction f with
  | zero =>
    intro k nl r h
    simp only [userSearch] at h
    split at h
    · exact absurd h (by simp)
    · rename_i hf; injection h with h; subst h; exact ⟨hf, Or.inl rfl⟩
  | succ f ih =>
    intro k nl r h
    simp only [userSearch] at h
    split at h
    · split at h
      · exact absurd h (by simp)
      · rename_i hg
        obtain ⟨h1, h2⟩ := ih (k+1) _ r h
        refine ⟨h1, Or.inr ?_⟩
        intro hd
        rcases h2 with h2 | h2
        · subst h2
          have : ¬ (growLen (k + 1) prev ≤ prev) := fun hh => hg ⟨hd, hh⟩
          omega
        · exact h2 hd
    · rename_i hf; injection h with h; subst h; exact ⟨hf, Or.inl rfl⟩

theorem firstLen_fixed_gt (prev : Int) : prev < firstLen fixed prev := by
  unfold firstLen
  split
  · omega
  · rename_i h; simp [fixed] at h; omega

theorem firstLen_gt_of_d10 (fx : Fixes) (h : fx.d10 = true) (prev : Int) : prev < firstLen fx prev := by
  unfold firstLen
  split
  · omega
  · rename_i h'; simp [h] at h'; omega

theorem sysSearch_spec (fx : Fixes) (fail : Nat → Bool) (prev : Int) :
    ∀ (f k : Nat) (nl : Int) (c : Nat) (r : Int) (c' : Nat), sysSearch fx fail prev f k nl c = (some r, c') →
      (r = nl ∨ (fx.d10 = true → prev < r)) ∧ c < c' := by
  intro f
  induction f with
  | zero =>
    intro k nl c r c' h
    simp only [sysSearch] at h
    split at h
    · simp at h
    · simp at h; obtain ⟨h1, h2⟩ := h; subst h1; subst h2; exact ⟨Or.inl rfl, by omega⟩
  | succ f ih =>
    intro k nl c r c' h
    simp only [sysSearch] at h
    split at h
    · split at h
      · simp at h
      · rename_i hg
        obtain ⟨h2, h3⟩ := ih (k+1) _ (c+1) r c' h
        refine ⟨Or.inr ?_, by omega⟩
        intro hd
        rcases h2 with h2 | h2
        · subst h2
          have : ¬ (growLen (k + 1) prev ≤ prev) := fun hh => hg ⟨hd, hh⟩
          omega
        · exact h2 hd
    · simp at h; obtain ⟨h1, h2⟩ := h; subst h1; subst h2; exact ⟨Or.inl rfl, by omega⟩

/-! ### `LUMemXpand` preserves the invariant (repaired model) -/

theorem memXpand_eq (fx : Fixes) (w : Words) (fail : Nat → Bool) (t : MemType) (s : St) :
    memXpand fx w fail t s =
      match expand fx w fail (s.nz t) t (decide (t = .USUB)) s with
      | (s1, none) => (s1, memoryUsage w s1.capS s1.capU s1.capL s1.n + s1.n)
      | (s1, some _) => (s1, 0) := rfl

/-- the length `expand` settles on inside a workspace once the arrays exist (`none` = NULL) -/
def userFound (fx : Fixes) (w : Words) (prev : Int) (t : MemType) (keep : Bool) (s : St) : Option Int :=
  if keep = true then
    (if s.full (needBytes fx t ((prev - prev) * w.lword t)) then none else some prev)
  else userSearch fx s t prev (w.lword t) 10 1 (firstLen fx prev)

/-- what `expand` does inside a workspace once the arrays exist -/
theorem expand_user_later (fx : Fixes) (w : Words) (fail : Nat → Bool) (prev : Int) (t : MemType) (keep : Bool)
    (s : St) (hu : s.user = true) (hn : s.nexp ≠ 0) :
    expand fx w fail prev t keep s =
      match userFound fx w prev t keep s with
      | none => (s, none)
      | some nl => ({ (shiftAfter t ((nl - prev) * w.lword t) s).setCap t nl with nexp := s.nexp + 1 }, some nl) := by
  unfold expand userFound
  rw [if_neg hn, if_neg (by simp [hu])]
  rfl

theorem shift_inv (fx : Fixes) (w : Words) (hw : w.Ok) (hld : w.liw ≤ w.dw) (t : MemType)
    (h7 : fx.d7 = true ∨ t ≠ .UCOL) (ht : t ≠ .USUB) (nl : Int) (s : St) (hinv : Inv w s) (hge : s.cap t ≤ nl)
    (hroom : ¬ s.full (needBytes fx t ((nl - s.cap t) * w.lword t))) :
    Inv w { (shiftAfter t ((nl - s.cap t) * w.lword t) s).setCap t nl with nexp := s.nexp + 1 } := by
  have hdw := hw.dw_pos
  have hliw := hw.liw_pos
  obtain ⟨hu, hne, hn0, hh0, hL0, hU0, hS0, hB0, hBU, c1, c2, c3, c4, c5, t12, t2s, hused, dl, il, d1, d2, d3⟩ := hinv
  have h7' : t = .UCOL → fx.d7 = true := fun h => h7.resolve_right (fun h' => h' h)
  simp only [St.full, needBytes] at hroom
  cases t with
  | USUB => exact absurd rfl ht
  | LUSUP =>
    simp only [St.cap, Words.lword] at hge hroom ⊢
    have e : nl * w.dw = s.capL * w.dw + (nl - s.capL) * w.dw := by ring
    have ex : 0 ≤ (nl - s.capL) * w.dw := Int.mul_nonneg (by omega) (by omega)
    generalize (nl - s.capL) * w.dw = extra at *
    simp at hroom
    constructor <;> simp [shiftAfter, St.setCap] <;> omega
  | UCOL =>
    simp only [St.cap, Words.lword, h7' rfl, and_self, if_true] at hge hroom ⊢
    have e : nl * w.dw = s.capU * w.dw + (nl - s.capU) * w.dw := by ring
    have e2 : nl * w.liw = s.capU * w.liw + (nl - s.capU) * w.liw := by ring
    have ex : 0 ≤ (nl - s.capU) * w.dw := Int.mul_nonneg (by omega) (by omega)
    have ex2 : (nl - s.capU) * w.liw ≤ (nl - s.capU) * w.dw := Int.mul_le_mul_of_nonneg_left hld (by omega)
    generalize (nl - s.capU) * w.dw = extra at *
    generalize (nl - s.capU) * w.liw = extra2 at *
    simp at hroom
    constructor <;> simp [shiftAfter, St.setCap] <;> omega
  | LSUB =>
    simp only [St.cap, Words.lword] at hge hroom ⊢
    have e : nl * w.liw = s.capS * w.liw + (nl - s.capS) * w.liw := by ring
    have ex : 0 ≤ (nl - s.capS) * w.liw := Int.mul_nonneg (by omega) (by omega)
    generalize (nl - s.capS) * w.liw = extra at *
    simp at hroom
    constructor <;> simp [shiftAfter, St.setCap] <;> omega

/-- `LUMemXpand` (any array, success or failure) keeps the invariant of the workspace -/
theorem memXpand_inv' (fx : Fixes) (h10 : fx.d10 = true) (w : Words) (hw : w.Ok)
    (hld : w.liw ≤ w.dw) (fail : Nat → Bool) (t : MemType) (h7 : fx.d7 = true ∨ t ≠ .UCOL) (s : St) (hinv : Inv w s) :
    Inv w (memXpand fx w fail t s).1 := by
  rw [memXpand_eq, expand_user_later _ _ _ _ _ _ _ hinv.user (ne_of_gt hinv.nexp)]
  cases hf : userFound fx w (s.nz t) t (decide (t = .USUB)) s with
  | none => simpa using hinv
  | some nl =>
    simp only []
    by_cases ht : t = .USUB
    · subst ht
      simp only [userFound, decide_true, if_true] at hf
      split at hf
      · simp at hf
      · simp at hf; subst hf
        obtain ⟨hu, hne, hn0, hh0, hL0, hU0, hS0, hB0, hBU, c1, c2, c3, c4, c5, t12, t2s, hused, dl, il, d1, d2, d3⟩ := hinv
        constructor <;> simp [shiftAfter, St.setCap, St.nz] <;> omega
    · have hnz : s.nz t = s.cap t := by cases t <;> simp_all [St.nz, St.cap]
      simp only [userFound, ht, decide_false, Bool.false_eq_true, if_false] at hf
      obtain ⟨h1, h2⟩ := userSearch_spec _ _ _ _ _ _ _ _ _ hf
      have hgt : s.nz t < nl := by
        rcases h2 with h2 | h2
        · rw [h2]; exact firstLen_gt_of_d10 fx h10 _
        · exact h2 h10
      rw [hnz] at h1 hgt ⊢
      exact shift_inv fx w hw hld t h7 ht nl s hinv (le_of_lt hgt) h1

/-! ### shortage is reported, nothing is touched -/

/-- inside a workspace a refused expansion leaves the whole state as it was and returns
`memory_usage(current lengths) + n` -/
theorem memXpand_user_fail (fx : Fixes) (w : Words) (fail : Nat → Bool) (t : MemType) (s : St)
    (hu : s.user = true) (hn : s.nexp ≠ 0) (h : (memXpand fx w fail t s).2 ≠ 0) :
    (memXpand fx w fail t s).1 = s ∧
      (memXpand fx w fail t s).2 = memoryUsage w s.capS s.capU s.capL s.n + s.n := by
  rw [memXpand_eq, expand_user_later _ _ _ _ _ _ _ hu hn] at h ⊢
  cases hf : userFound fx w (s.nz t) t (decide (t = .USUB)) s with
  | none => simp
  | some nl => rw [hf] at h; simp at h

theorem memoryUsage_pos (w : Words) (hw : w.Ok) (s : St) (hinv : Inv w s) (hn : 1 ≤ s.n) :
    0 < memoryUsage w s.capS s.capU s.capL s.n := by
  obtain ⟨hu, hne, hn0, hh0, hL0, hU0, hS0, hB0, hBU, c1, c2, c3, c4, c5, t12, t2s, hused, dl, il, d1, d2, d3⟩ := hinv
  unfold memoryUsage
  rw [hw.iw]
  have e1 : 0 ≤ s.capL * w.dw := Int.mul_nonneg hL0 (le_of_lt hw.dw_pos)
  have e2 : 0 ≤ s.capU * (w.liw + w.dw) := Int.mul_nonneg hU0 (by have := hw.dw_pos; have := hw.liw_pos; omega)
  have e3 : 0 ≤ s.capS * w.liw := Int.mul_nonneg hS0 (le_of_lt hw.liw_pos)
  omega

/-! ### progress: a successful expansion grows the array (both modes) -/

theorem expand_sys_later (fx : Fixes) (w : Words) (fail : Nat → Bool) (prev : Int) (t : MemType)
    (s : St) (hu : s.user = false) (hn : s.nexp ≠ 0) :
    expand fx w fail prev t false s =
      match sysSearch fx fail prev 10 1 (firstLen fx prev) s.mallocs with
      | (none, c) => ({ s with mallocs := c }, none)
      | (some nl, c) =>
        ({ (({ s with mallocs := c }).setOff t (Int.ofNat c)).setCap t nl with nexp := s.nexp + 1 }, some nl) := by
  unfold expand
  rw [if_neg hn, if_pos hu, if_neg (by simp)]
  rfl

theorem nz_setCap (s : St) (t : MemType) (ht : t ≠ .USUB) (v : Int) : (s.setCap t v).nz t = v := by
  cases t <;> simp_all [St.nz, St.setCap]

/-- **progress**: with the repair, an expansion that succeeds returns a strictly longer array, in a
workspace and under library allocation alike -/
theorem expand_progress_of (fx : Fixes) (h10 : fx.d10 = true) (w : Words) (fail : Nat → Bool) (prev : Int)
    (t : MemType) (s : St) (hn : s.nexp ≠ 0) (nl : Int) (h : (expand fx w fail prev t false s).2 = some nl) :
    prev < nl := by
  cases hu : s.user with
  | true =>
    rw [expand_user_later _ _ _ _ _ _ _ hu hn] at h
    cases hf : userFound fx w prev t false s with
    | none => rw [hf] at h; simp at h
    | some r =>
      rw [hf] at h; simp at h; subst h
      simp only [userFound, Bool.false_eq_true, if_false] at hf
      obtain ⟨_, h2⟩ := userSearch_spec _ _ _ _ _ _ _ _ _ hf
      rcases h2 with h2 | h2
      · rw [h2]; exact firstLen_gt_of_d10 fx h10 _
      · exact h2 h10
  | false =>
    rw [expand_sys_later _ _ _ _ _ _ hu hn] at h
    cases hf : sysSearch fx fail prev 10 1 (firstLen fx prev) s.mallocs with
    | mk r c =>
      cases r with
      | none => rw [hf] at h; simp at h
      | some r =>
        rw [hf] at h; simp at h; subst h
        obtain ⟨h2, _⟩ := sysSearch_spec _ _ _ _ _ _ _ _ _ hf
        rcases h2 with h2 | h2
        · rw [h2]; exact firstLen_gt_of_d10 fx h10 _
        · exact h2 h10

/-- the length seen by the callers after a successful `LUMemXpand` in a workspace -/
theorem memXpand_user_ok (fx : Fixes) (h10 : fx.d10 = true) (w : Words) (fail : Nat → Bool) (t : MemType)
    (ht : t ≠ .USUB) (s : St) (hu : s.user = true) (hn : s.nexp ≠ 0)
    (hpos : memoryUsage w s.capS s.capU s.capL s.n + s.n ≠ 0) (h : (memXpand fx w fail t s).2 = 0) :
    s.nz t < (memXpand fx w fail t s).1.nz t := by
  have hdec : decide (t = MemType.USUB) = false := by simp [ht]
  rw [memXpand_eq, hdec, expand_user_later _ _ _ _ _ _ _ hu hn] at h ⊢
  cases hf : userFound fx w (s.nz t) t false s with
  | none => rw [hf] at h; simp at h; exact absurd h hpos
  | some nl =>
    simp only []
    simp only [userFound, Bool.false_eq_true, if_false] at hf
    obtain ⟨_, h2⟩ := userSearch_spec _ _ _ _ _ _ _ _ _ hf
    have hgt : s.nz t < nl := by
      rcases h2 with h2 | h2
      · rw [h2]; exact firstLen_gt_of_d10 fx h10 _
      · exact h2 h10
    have : ({ (shiftAfter t ((nl - s.nz t) * w.lword t) s).setCap t nl with nexp := s.nexp + 1 } : St).nz t = nl := by
      cases t <;> simp_all [St.nz, St.setCap, shiftAfter]
    rw [this]; exact hgt

theorem memXpand_inv (fx : Fixes) (h7 : fx.d7 = true) (h10 : fx.d10 = true) (w : Words) (hw : w.Ok)
    (hld : w.liw ≤ w.dw) (fail : Nat → Bool) (t : MemType) (s : St) (hinv : Inv w s) :
    Inv w (memXpand fx w fail t s).1 :=
  memXpand_inv' fx h10 w hw hld fail t (Or.inl h7) s hinv

theorem memXpand_user_n (fx : Fixes) (w : Words) (fail : Nat → Bool) (t : MemType) (s : St)
    (hu : s.user = true) (hn : s.nexp ≠ 0) : (memXpand fx w fail t s).1.n = s.n := by
  rw [memXpand_eq, expand_user_later _ _ _ _ _ _ _ hu hn]
  cases hf : userFound fx w (s.nz t) t (decide (t = .USUB)) s with
  | none => simp
  | some nl => cases t <;> simp [shiftAfter, St.setCap]

theorem memXpand_usub_capU (fx : Fixes) (w : Words) (fail : Nat → Bool) (s : St)
    (hu : s.user = true) (hn : s.nexp ≠ 0) : (memXpand fx w fail .USUB s).1.capU = s.capU := by
  rw [memXpand_eq, expand_user_later _ _ _ _ _ _ _ hu hn]
  cases hf : userFound fx w (s.nz .USUB) .USUB (decide (MemType.USUB = .USUB)) s with
  | none => simp
  | some nl => simp [shiftAfter, St.setCap]

/-- **no hang**: in a workspace the callers' `while ( new_next > maxlen ) LUMemXpand(...)` loop ends
after at most `new_next - maxlen` rounds (it either reaches the requested length or returns the
shortage code) -/
theorem growUntil_terminates (fx : Fixes) (h7 : fx.d7 = true) (h10 : fx.d10 = true) (w : Words) (hw : w.Ok)
    (hld : w.liw ≤ w.dw) (fail : Nat → Bool) (t : MemType) (ht : t ≠ .USUB) (need : Int) :
    ∀ (fuel : Nat) (s : St), Inv w s → 1 ≤ s.n → (need - s.nz t).toNat ≤ fuel →
      growUntil fx w fail t need fuel s ≠ none := by
  intro fuel
  induction fuel with
  | zero =>
    intro s _ _ hf
    simp only [growUntil]
    rw [if_neg (by omega)]; simp
  | succ f ih =>
    intro s hinv hn1 hf
    simp only [growUntil]
    split
    · rename_i hneed
      have hu := hinv.user
      have hne : s.nexp ≠ 0 := ne_of_gt hinv.nexp
      split
      · rename_i h0
        have hpos : memoryUsage w s.capS s.capU s.capL s.n + s.n ≠ 0 := by
          have := memoryUsage_pos w hw s hinv hn1; omega
        have hprog := memXpand_user_ok fx h10 w fail t ht s hu hne hpos h0
        have hinv1 := memXpand_inv fx h7 h10 w hw hld fail t s hinv
        have hn1' : 1 ≤ (memXpand fx w fail t s).1.n := by rw [memXpand_user_n _ _ _ _ _ hu hne]; exact hn1
        split
        · rename_i hU
          split
          · have hinv2 := memXpand_inv fx h7 h10 w hw hld fail .USUB _ hinv1
            apply ih _ hinv2
            · rw [memXpand_user_n _ _ _ _ _ hinv1.user (ne_of_gt hinv1.nexp)]; exact hn1'
            · subst hU
              simp only [St.nz] at hprog hf ⊢
              rw [memXpand_usub_capU _ _ _ _ hinv1.user (ne_of_gt hinv1.nexp)]
              omega
          · simp
        · apply ih _ hinv1 hn1'
          omega
      · simp
    · simp

theorem workFree_inv (w : Words) (s : St) (hinv : Inv w s) : Inv w (workFree s) := by
  obtain ⟨hu, hne, hn0, hh0, hL0, hU0, hS0, hB0, hBU, c1, c2, c3, c4, c5, t12, t2s, hused, dl, il, d1, d2, d3⟩ := hinv
  unfold workFree
  rw [if_neg (by simp [hu])]
  constructor <;> simp <;> omega

/-! ### confinement -/

/-- two byte ranges `(offset, length)` do not overlap -/
def Disjoint (a b : Int × Int) : Prop := a.1 + a.2 ≤ b.1 ∨ b.1 + b.2 ≤ a.1

theorem inv_confined (w : Words) (hw : w.Ok) (s : St) (hinv : Inv w s) :
    (∀ b ∈ s.blocks w, 0 ≤ b.1 ∧ 0 ≤ b.2 ∧ b.1 + b.2 ≤ s.size) ∧ (s.blocks w).Pairwise Disjoint := by
  obtain ⟨hu, hne, hn0, hh0, hL0, hU0, hS0, hB0, hBU, c1, c2, c3, c4, c5, t12, t2s, hused, dl, il, d1, d2, d3⟩ := hinv
  have hdw := hw.dw_pos
  have hliw := hw.liw_pos
  rw [hw.iw] at hh0
  have e1 : 0 ≤ s.capL * w.dw := Int.mul_nonneg hL0 (by omega)
  have e2 : 0 ≤ s.capU * w.dw := Int.mul_nonneg hU0 (by omega)
  have e3 : 0 ≤ s.capS * w.liw := Int.mul_nonneg hS0 (by omega)
  have e4 : 0 ≤ s.capB * w.liw := Int.mul_nonneg hB0 (by omega)
  have e5 : s.capB * w.liw ≤ s.capU * w.liw := Int.mul_le_mul_of_nonneg_right hBU (by omega)
  have ehl : 0 ≤ (s.n + 1) * w.liw := Int.mul_nonneg (by omega) (by omega)
  simp only [St.blocks, hw.iw]
  generalize s.capL * w.dw = bL at *
  generalize s.capU * w.dw = bU at *
  generalize s.capS * w.liw = bS at *
  generalize s.capB * w.liw = bB at *
  generalize s.capU * w.liw = bBU at *
  constructor
  · intro b hb
    simp only [St.blocks, hw.iw, List.mem_cons, List.mem_nil_iff, or_false] at hb
    rcases hb with h | h | h | h | h | h | h | h | h | h | h <;> subst h <;> simp <;> omega
  · simp only [St.blocks, hw.iw, List.pairwise_cons, List.mem_cons, List.mem_nil_iff, or_false, Disjoint]
    refine ⟨?_, ?_, ?_, ?_, ?_, ?_, ?_, ?_, ?_, ?_, ?_, ?_⟩ <;>
      first
        | exact List.Pairwise.nil
        | (intro b hb; rcases hb with h | h | h | h | h | h | h | h | h | h <;> subst h <;> simp <;> omega)
        | (intro b hb; rcases hb with h | h | h | h | h | h | h | h | h <;> subst h <;> simp <;> omega)
        | (intro b hb; rcases hb with h | h | h | h | h | h | h | h <;> subst h <;> simp <;> omega)
        | (intro b hb; rcases hb with h | h | h | h | h | h | h <;> subst h <;> simp <;> omega)
        | (intro b hb; rcases hb with h | h | h | h | h | h <;> subst h <;> simp <;> omega)
        | (intro b hb; rcases hb with h | h | h | h | h <;> subst h <;> simp <;> omega)
        | (intro b hb; rcases hb with h | h | h | h <;> subst h <;> simp <;> omega)
        | (intro b hb; rcases hb with h | h | h <;> subst h <;> simp <;> omega)
        | (intro b hb; rcases hb with h | h <;> subst h <;> simp <;> omega)
        | (intro b hb; subst hb; simp; omega)

end Slu.Mem
