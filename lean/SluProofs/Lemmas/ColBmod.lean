import Slu.Model.ColBmod
import SluProofs.Lemmas.MyBlas2
/-
Helper lemmas for the `[sdcz]column_bmod` mirror (Slu/Model/ColBmod.lean), exact arithmetic.
`scatterMap_spec` — an indexed read-modify-write loop over distinct in-range rows;
`segN_spec'` — the general sup-col update (gather, mirrored `lsolve`, mirrored `matvec` into
`&tempv[segsze]`, scatter) reusing `lsolveG_spec`, `matvec_spec'`, `storeRange_spec`;
`seg1_spec'`, `seg2_spec'`, `seg3_spec'` — the three hand-written cases;
`segUpdate_spec'` — all four under one statement.
The unit lower solution is abstracted as any `z` with `z s = dense[row s] − Σ_{r<s} z r · L(s,r)`
(as in `lsolveG_spec`); Props/C01 instantiates it by `fwdSub`.
-/
namespace Slu.ColBmod
open Finset Slu.Kernels Slu.MyBlas2

variable {K : Type} [Field K] [Inhabited K]

/-- `for t < n: d[idx t] = F t d[idx t]` over distinct in-range cells -/
theorem scatterMap_spec (n : Nat) (idx : Nat → Nat) (F : Nat → K → K) (d : Array K)
    (hinj : ∀ t u, t < n → u < n → idx t = idx u → t = u) (hr : ∀ t, t < n → idx t < d.size) :
    ((List.range n).foldl (fun (d : Array K) t => d.setIfInBounds (idx t) (F t d[idx t]!)) d).size = d.size ∧
    (∀ t, t < n → ((List.range n).foldl (fun (d : Array K) t => d.setIfInBounds (idx t) (F t d[idx t]!)) d)[idx t]! =
      F t d[idx t]!) ∧
    (∀ p, (∀ t, t < n → idx t ≠ p) →
      ((List.range n).foldl (fun (d : Array K) t => d.setIfInBounds (idx t) (F t d[idx t]!)) d)[p]! = d[p]!) := by
  induction n with
  | zero => exact ⟨rfl, fun t ht => by omega, fun p _ => rfl⟩
  | succ n ih =>
    obtain ⟨h1, h2, h3⟩ := ih (fun t u ht hu => hinj t u (by omega) (by omega)) (fun t ht => hr t (by omega))
    rw [List.range_succ, List.foldl_append]
    simp only [List.foldl_cons, List.foldl_nil]
    have hn : ((List.range n).foldl (fun (d : Array K) t => d.setIfInBounds (idx t) (F t d[idx t]!)) d)[idx n]! = d[idx n]! :=
      h3 (idx n) (fun t ht he => by have := hinj t n (by omega) (by omega) he; omega)
    refine ⟨by simp [h1], fun t ht => ?_, fun p hp => ?_⟩
    · rw [getElem!_setIfInBounds, h1, hn]
      by_cases htn : t = n
      · subst htn; rw [if_pos ⟨rfl, hr t (by omega)⟩]
      · rw [if_neg (fun h => htn (hinj t n (by omega) (by omega) h.1.symm)), h2 t (by omega)]
    · rw [getElem!_setIfInBounds, if_neg (fun h => hp n (by omega) h.1), h3 p (fun t ht => hp t (by omega))]

theorem getElem!_extract_tail (a : Array K) (s k : Nat) (h : s + k < a.size) : (a.extract s a.size)[k]! = a[s + k]! := by
  simp only [Array.getElem!_eq_getD, Array.getD_eq_getD_getElem?, Array.getElem?_extract]
  rw [if_pos (by omega)]

theorem segGather_spec (lsub : Array Nat) (isub n : Nat) (dense tempv : Array K) :
    (segGather lsub isub n dense tempv).size = tempv.size ∧
    ∀ p, (segGather lsub isub n dense tempv)[p]! =
      if 0 ≤ p ∧ p < 0 + n ∧ p < tempv.size then dense[lsub[isub + (p - 0)]!]! else tempv[p]! :=
  storeRange_spec n 0 (fun i => dense[lsub[isub + i]!]!) tempv

theorem zeroPrefix_spec (n : Nat) (tempv : Array K) :
    (zeroPrefix n tempv).size = tempv.size ∧
    ∀ p, (zeroPrefix n tempv)[p]! = if 0 ≤ p ∧ p < 0 + n ∧ p < tempv.size then 0 else tempv[p]! :=
  storeRange_spec n 0 (fun _ => (0 : K)) tempv

theorem segScatterU_spec (lsub : Array Nat) (isub n : Nat) (tempv dense : Array K)
    (hinj : ∀ t u, t < n → u < n → lsub[isub + t]! = lsub[isub + u]! → t = u) (hr : ∀ t, t < n → lsub[isub + t]! < dense.size) :
    (segScatterU lsub isub n tempv dense).size = dense.size ∧
    (∀ t, t < n → (segScatterU lsub isub n tempv dense)[lsub[isub + t]!]! = tempv[t]!) ∧
    (∀ p, (∀ t, t < n → lsub[isub + t]! ≠ p) → (segScatterU lsub isub n tempv dense)[p]! = dense[p]!) :=
  scatterMap_spec n (fun i => lsub[isub + i]!) (fun i _ => tempv[i]!) dense hinj hr

theorem segScatterL_spec (lsub : Array Nat) (isub n : Nat) (y dense : Array K)
    (hinj : ∀ t u, t < n → u < n → lsub[isub + t]! = lsub[isub + u]! → t = u) (hr : ∀ t, t < n → lsub[isub + t]! < dense.size) :
    (segScatterL lsub isub n y dense).size = dense.size ∧
    (∀ t, t < n → (segScatterL lsub isub n y dense)[lsub[isub + t]!]! = dense[lsub[isub + t]!]! - y[t]!) ∧
    (∀ p, (∀ t, t < n → lsub[isub + t]! ≠ p) → (segScatterL lsub isub n y dense)[p]! = dense[p]!) :=
  scatterMap_spec n (fun i => lsub[isub + i]!) (fun i x => x - y[i]!) dense hinj hr

/-- hypotheses on one U-segment: `nsupc = no_zeros + segsze`, the loop over the rows below runs
`nrow` times, the rows `kfnz .. krep` and the rows below are distinct and inside `dense` -/
structure SegOK (lsub : Array Nat) (g : Seg) (dense : Array K) : Prop where
  hg1 : g.noZeros + g.segsze = g.nsupc
  hg2 : g.cnt = g.nrow
  hpos : 1 ≤ g.segsze
  hinj : ∀ t u, t < g.segsze + g.nrow → u < g.segsze + g.nrow →
    lsub[g.lptr + g.noZeros + t]! = lsub[g.lptr + g.noZeros + u]! → t = u
  hrow : ∀ t, t < g.segsze + g.nrow → lsub[g.lptr + g.noZeros + t]! < dense.size

/-- the common conclusion: with `base` the address of the diagonal cell (kfnz, kfnz) of the supernode -/
def SegPost (lsub : Array Nat) (g : Seg) (lusup dense : Array K) (z : Nat → K) (r : Array K) : Prop :=
  r.size = dense.size ∧
  (∀ s, s < g.segsze → r[lsub[g.lptr + g.noZeros + s]!]! = z s) ∧
  (∀ i, i < g.nrow → r[lsub[g.lptr + g.noZeros + (g.segsze + i)]!]! =
    dense[lsub[g.lptr + g.noZeros + (g.segsze + i)]!]! -
      ∑ q ∈ range g.segsze, z q * lusup[g.luptr + (g.nsupr * g.noZeros + g.noZeros) + (q * g.nsupr + (g.segsze + i))]!) ∧
  (∀ p, (∀ t, t < g.segsze + g.nrow → lsub[g.lptr + g.noZeros + t]! ≠ p) → r[p]! = dense[p]!)

/-- the general case (segsze arbitrary ≥ 0 here; the routine uses it for segsze ≥ 4) -/
theorem segN_spec' (cplx : Bool) (lsub : Array Nat) (g : Seg) (lusup dense tempv : Array K) (z : Nat → K)
    (ok : SegOK lsub g dense)
    (htv : g.segsze + g.nrow ≤ tempv.size) (htz : ∀ i, i < g.segsze + g.nrow → tempv[i]! = 0)
    (hz : ∀ s, s < g.segsze → z s = dense[lsub[g.lptr + g.noZeros + s]!]! -
      ∑ q ∈ range s, z q * lusup[g.luptr + (g.nsupr * g.noZeros + g.noZeros) + (q * g.nsupr + s)]!) :
    SegPost lsub g lusup dense z (segN cplx lsub g lusup dense tempv).1 ∧
    (segN cplx lsub g lusup dense tempv).2.size = tempv.size ∧
    (∀ p : Nat, (segN cplx lsub g lusup dense tempv).2[p]! = tempv[p]!) := by
  obtain ⟨hg1, hg2, hpos, hinj, hrow⟩ := ok
  unfold segN
  dsimp only
  -- gather
  obtain ⟨g1, g2⟩ := segGather_spec lsub (g.lptr + g.noZeros) g.segsze dense tempv
  generalize segGather lsub (g.lptr + g.noZeros) g.segsze dense tempv = tv1 at g1 g2 ⊢
  -- lsolve
  have hz' : ∀ i, i < g.segsze → z i = tv1[0 + i]! -
      ∑ j ∈ range i, z j * (fun i j => lusup[g.luptr + (g.nsupr * g.noZeros + g.noZeros) + (j * g.nsupr + i)]!) i j := by
    intro i hi
    rw [g2 (0 + i), if_pos ⟨by omega, by omega, by omega⟩, hz i hi]
    simp
  have L : (lsolve cplx g.nsupr g.segsze lusup (g.luptr + (g.nsupr * g.noZeros + g.noZeros)) tv1 0).size = tv1.size ∧
      (∀ i, i < g.segsze → (lsolve cplx g.nsupr g.segsze lusup (g.luptr + (g.nsupr * g.noZeros + g.noZeros)) tv1 0)[0 + i]! = z i) ∧
      (∀ p, (p < 0 ∨ 0 + g.segsze ≤ p) → (lsolve cplx g.nsupr g.segsze lusup (g.luptr + (g.nsupr * g.noZeros + g.noZeros)) tv1 0)[p]! = tv1[p]!) :=
    lsolveG_spec cplx g.nsupr g.segsze (fun _ i => lusup[g.luptr + (g.nsupr * g.noZeros + g.noZeros) + i]!) 0 tv1
      (fun i j => lusup[g.luptr + (g.nsupr * g.noZeros + g.noZeros) + (j * g.nsupr + i)]!) z (by omega)
      (fun _ _ _ _ _ _ => rfl) hz'
  obtain ⟨l1, l2, l3⟩ := L
  generalize lsolve cplx g.nsupr g.segsze lusup (g.luptr + (g.nsupr * g.noZeros + g.noZeros)) tv1 0 = tv2 at l1 l2 l3 ⊢
  have l2' : ∀ i, i < g.segsze → tv2[i]! = z i := fun i hi => by have := l2 i hi; rwa [Nat.zero_add] at this
  have tvrest : ∀ p, g.segsze ≤ p → tv2[p]! = tempv[p]! := by
    intro p hp
    rw [l3 p (Or.inr (by omega)), g2 p, if_neg (by omega)]
  -- matvec
  have hext : g.nrow ≤ (tv2.extract g.segsze tv2.size).size := by simp; omega
  obtain ⟨m1, m2, _⟩ := matvec_spec' cplx g.nsupr g.nrow g.segsze lusup (g.luptr + (g.nsupr * g.noZeros + g.noZeros) + g.segsze)
    tv2 0 (tv2.extract g.segsze tv2.size) hext
  have m2' : ∀ k, k < g.nrow → (matvec cplx g.nsupr g.nrow g.segsze lusup (g.luptr + (g.nsupr * g.noZeros + g.noZeros) + g.segsze)
      tv2 0 (tv2.extract g.segsze tv2.size))[k]! =
      ∑ q ∈ range g.segsze, z q * lusup[g.luptr + (g.nsupr * g.noZeros + g.noZeros) + (q * g.nsupr + (g.segsze + k))]! := by
    intro k hk
    rw [m2 k hk, getElem!_extract_tail tv2 g.segsze k (by omega), tvrest _ (by omega), htz _ (by omega), zero_add]
    refine Finset.sum_congr rfl (fun j hj => ?_)
    rw [Nat.zero_add, l2' j (mem_range.mp hj)]
    congr 2; omega
  generalize matvec cplx g.nsupr g.nrow g.segsze lusup (g.luptr + (g.nsupr * g.noZeros + g.noZeros) + g.segsze)
      tv2 0 (tv2.extract g.segsze tv2.size) = y at m1 m2 m2' ⊢
  -- scatter U
  obtain ⟨u1, u2, u3⟩ := segScatterU_spec lsub (g.lptr + g.noZeros) g.segsze tv2 dense
    (fun t u ht hu => hinj t u (by omega) (by omega)) (fun t ht => hrow t (by omega))
  generalize segScatterU lsub (g.lptr + g.noZeros) g.segsze tv2 dense = d1 at u1 u2 u3 ⊢
  -- scatter L
  have hinjL : ∀ t u, t < g.nrow → u < g.nrow →
      lsub[g.lptr + g.noZeros + g.segsze + t]! = lsub[g.lptr + g.noZeros + g.segsze + u]! → t = u := by
    intro t u ht hu he
    rw [Nat.add_assoc _ g.segsze t, Nat.add_assoc _ g.segsze u] at he
    have := hinj _ _ (by omega) (by omega) he; omega
  obtain ⟨s1, s2, s3⟩ := segScatterL_spec lsub (g.lptr + g.noZeros + g.segsze) g.nrow y d1
    hinjL (fun t ht => by rw [u1, Nat.add_assoc]; exact hrow _ (by omega))
  generalize segScatterL lsub (g.lptr + g.noZeros + g.segsze) g.nrow y d1 = d2 at s1 s2 s3 ⊢
  -- zero
  have z1 := zeroPrefix_spec (g.segsze + g.nrow) tv2
  refine ⟨⟨by rw [s1, u1], fun s hs => ?_, fun i hi => ?_, fun p hp => ?_⟩, by rw [z1.1, l1, g1], fun p => ?_⟩
  · rw [s3 _ (fun t ht he => by
      rw [Nat.add_assoc _ g.segsze t] at he
      have := hinj _ _ (by omega) (by omega) he; omega), u2 s hs, l2' s hs]
  · rw [← Nat.add_assoc, s2 i hi, m2' i hi, u3 _ (fun t ht he => by
      rw [Nat.add_assoc _ g.segsze i] at he
      have := hinj _ _ (by omega) (by omega) he; omega)]
  · rw [s3 p (fun t ht he => hp (g.segsze + t) (by omega) (by rw [← Nat.add_assoc]; exact he)),
      u3 p (fun t ht he => hp t (by omega) he)]
  · rw [z1.2 p]
    by_cases hc : 0 ≤ p ∧ p < 0 + (g.segsze + g.nrow) ∧ p < tv2.size
    · rw [if_pos hc, htz p (by omega)]
    · rw [if_neg hc]
      by_cases hp : g.segsze ≤ p
      · exact tvrest p hp
      · omega

/-- Case 1 (col-col update) -/
theorem seg1_spec' (lsub : Array Nat) (g : Seg) (lusup dense : Array K) (z : Nat → K)
    (ok : SegOK lsub g dense) (h1 : g.segsze = 1)
    (hz : ∀ s, s < g.segsze → z s = dense[lsub[g.lptr + g.noZeros + s]!]! -
      ∑ q ∈ range s, z q * lusup[g.luptr + (g.nsupr * g.noZeros + g.noZeros) + (q * g.nsupr + s)]!) :
    SegPost lsub g lusup dense z (seg1 lsub g lusup dense) := by
  obtain ⟨hg1, hg2, hpos, hinj, hrow⟩ := ok
  obtain ⟨lptr, luptr, nsupr, nsupc, nrow, segsze, noZeros, cnt⟩ := g
  simp only at hg1 hg2 hpos hinj hrow h1 hz
  subst h1 hg2
  have hc : nsupc = noZeros + 1 := hg1.symm
  subst hc
  unfold seg1 SegPost
  simp only
  have z0 : z 0 = dense[lsub[lptr + noZeros + 0]!]! := by rw [hz 0 (by omega)]; simp
  have e0 : lptr + (noZeros + 1) - 1 = lptr + noZeros + 0 := by omega
  have e1 : ∀ t, lptr + (noZeros + 1) + t = lptr + noZeros + (1 + t) := fun t => by omega
  have e2 : ∀ t, luptr + (nsupr * (noZeros + 1 - 1) + (noZeros + 1)) + t =
      luptr + (nsupr * noZeros + noZeros) + (0 * nsupr + (1 + t)) := fun t => by
    rw [Nat.add_sub_cancel]; omega
  simp only [e0, e1, e2, ← z0]
  obtain ⟨r1, r2, r3⟩ := scatterMap_spec cnt (fun t => lsub[lptr + noZeros + (1 + t)]!)
    (fun t x => x - z 0 * lusup[luptr + (nsupr * noZeros + noZeros) + (0 * nsupr + (1 + t))]!) dense
    (fun t u ht hu he => by have := hinj _ _ (by omega) (by omega) he; omega) (fun t ht => hrow _ (by omega))
  refine ⟨r1, fun s hs => ?_, fun i hi => ?_, fun p hp => ?_⟩
  · obtain rfl : s = 0 := by omega
    rw [r3 _ (fun t ht he => by have := hinj _ _ (by omega) (by omega) he; omega), z0]
  · rw [r2 i hi, Finset.sum_range_one]
  · exact r3 p (fun t ht => hp (1 + t) (by omega))

/-- Case 2 (2cols-col update) -/
theorem seg2_spec' (lsub : Array Nat) (g : Seg) (lusup dense : Array K) (z : Nat → K)
    (ok : SegOK lsub g dense) (h2 : g.segsze = 2)
    (hz : ∀ s, s < g.segsze → z s = dense[lsub[g.lptr + g.noZeros + s]!]! -
      ∑ q ∈ range s, z q * lusup[g.luptr + (g.nsupr * g.noZeros + g.noZeros) + (q * g.nsupr + s)]!) :
    SegPost lsub g lusup dense z (seg2 lsub g lusup dense) := by
  obtain ⟨hg1, hg2, hpos, hinj, hrow⟩ := ok
  obtain ⟨lptr, luptr, nsupr, nsupc, nrow, segsze, noZeros, cnt⟩ := g
  simp only at hg1 hg2 hpos hinj hrow h2 hz
  subst h2 hg2
  have hc : nsupc = noZeros + 2 := hg1.symm
  subst hc
  unfold seg2 SegPost
  simp only
  have z0 : z 0 = dense[lsub[lptr + noZeros + 0]!]! := by rw [hz 0 (by omega)]; simp
  have z1 : z 1 = dense[lsub[lptr + noZeros + 1]!]! - z 0 * lusup[luptr + (nsupr * noZeros + noZeros) + (0 * nsupr + 1)]! := by
    rw [hz 1 (by omega), Finset.sum_range_one]
  have hm : nsupr * (noZeros + 2 - 1) = nsupr * noZeros + nsupr := by
    rw [show noZeros + 2 - 1 = noZeros + 1 from by omega, Nat.mul_succ]
  have e0 : lptr + (noZeros + 2) - 1 = lptr + noZeros + 1 := by omega
  have e0' : lptr + noZeros + 1 - 1 = lptr + noZeros + 0 := by omega
  have e1 : ∀ t, lptr + (noZeros + 2) + t = lptr + noZeros + (2 + t) := fun t => by omega
  have a1 : luptr + (nsupr * (noZeros + 2 - 1) + (noZeros + 2) - 1) =
      luptr + (nsupr * noZeros + noZeros) + (1 * nsupr + 1) := by rw [hm]; omega
  have a2 : luptr + (nsupr * noZeros + noZeros) + (1 * nsupr + 1) - nsupr =
      luptr + (nsupr * noZeros + noZeros) + (0 * nsupr + 1) := by omega
  have a3 : ∀ t, luptr + (nsupr * noZeros + noZeros) + (1 * nsupr + 1) + 1 + t =
      luptr + (nsupr * noZeros + noZeros) + (1 * nsupr + (2 + t)) := fun t => by omega
  have a4 : ∀ t, luptr + (nsupr * noZeros + noZeros) + (0 * nsupr + 1) + 1 + t =
      luptr + (nsupr * noZeros + noZeros) + (0 * nsupr + (2 + t)) := fun t => by omega
  simp only [e0, e0', e1, a1, a2, a3, a4, ← z0, ← z1]
  have n01 : lsub[lptr + noZeros + 1]! ≠ lsub[lptr + noZeros + 0]! := fun he => by
    have := hinj _ _ (by omega) (by omega) he; omega
  have hd1 : ∀ p, p ≠ lsub[lptr + noZeros + 1]! → (dense.setIfInBounds lsub[lptr + noZeros + 1]! (z 1))[p]! = dense[p]! := by
    intro p hp; rw [getElem!_setIfInBounds, if_neg (fun h => hp h.1.symm)]
  obtain ⟨r1, r2, r3⟩ := scatterMap_spec cnt (fun t => lsub[lptr + noZeros + (2 + t)]!)
    (fun t x => x - (z 1 * lusup[luptr + (nsupr * noZeros + noZeros) + (1 * nsupr + (2 + t))]! +
      z 0 * lusup[luptr + (nsupr * noZeros + noZeros) + (0 * nsupr + (2 + t))]!))
    (dense.setIfInBounds lsub[lptr + noZeros + 1]! (z 1))
    (fun t u ht hu he => by have := hinj _ _ (by omega) (by omega) he; omega)
    (fun t ht => by rw [Array.size_setIfInBounds]; exact hrow _ (by omega))
  refine ⟨by rw [r1, Array.size_setIfInBounds], fun s hs => ?_, fun i hi => ?_, fun p hp => ?_⟩
  · rw [r3 _ (fun t ht he => by have := hinj _ _ (by omega) (by omega) he; omega)]
    obtain rfl | rfl : s = 0 ∨ s = 1 := by omega
    · rw [hd1 _ n01.symm, z0]
    · rw [getElem!_setIfInBounds, if_pos ⟨rfl, hrow 1 (by omega)⟩]
  · rw [r2 i hi, hd1 _ (fun he => by have := hinj _ _ (by omega) (by omega) he; omega),
      Finset.sum_range_succ, Finset.sum_range_one]
    ring
  · rw [r3 p (fun t ht => hp (2 + t) (by omega)), hd1 p (fun he => hp 1 (by omega) he.symm)]

/-- Case 3 (3cols-col update); `cplx` selects `ukj - (a + b)` (complex files) or `ukj - a - b` -/
theorem seg3_spec' (cplx : Bool) (lsub : Array Nat) (g : Seg) (lusup dense : Array K) (z : Nat → K)
    (ok : SegOK lsub g dense) (h3 : g.segsze = 3)
    (hz : ∀ s, s < g.segsze → z s = dense[lsub[g.lptr + g.noZeros + s]!]! -
      ∑ q ∈ range s, z q * lusup[g.luptr + (g.nsupr * g.noZeros + g.noZeros) + (q * g.nsupr + s)]!) :
    SegPost lsub g lusup dense z (seg3 cplx lsub g lusup dense) := by
  obtain ⟨hg1, hg2, hpos, hinj, hrow⟩ := ok
  obtain ⟨lptr, luptr, nsupr, nsupc, nrow, segsze, noZeros, cnt⟩ := g
  simp only at hg1 hg2 hpos hinj hrow h3 hz
  subst h3 hg2
  have hc : nsupc = noZeros + 3 := hg1.symm
  subst hc
  unfold seg3 SegPost
  simp only
  have z0 : z 0 = dense[lsub[lptr + noZeros + 0]!]! := by rw [hz 0 (by omega)]; simp
  have z1 : z 1 = dense[lsub[lptr + noZeros + 1]!]! - z 0 * lusup[luptr + (nsupr * noZeros + noZeros) + (0 * nsupr + 1)]! := by
    rw [hz 1 (by omega), Finset.sum_range_one]
  have z2 : z 2 = dense[lsub[lptr + noZeros + 2]!]! -
      (z 0 * lusup[luptr + (nsupr * noZeros + noZeros) + (0 * nsupr + 2)]! +
       z 1 * lusup[luptr + (nsupr * noZeros + noZeros) + (1 * nsupr + 2)]!) := by
    rw [hz 2 (by omega), Finset.sum_range_succ, Finset.sum_range_one]
  have hm : nsupr * (noZeros + 3 - 1) = nsupr * noZeros + nsupr * 2 := by
    rw [show noZeros + 3 - 1 = noZeros + 2 from by omega, Nat.mul_add]
  have e0 : lptr + (noZeros + 3) - 1 = lptr + noZeros + 2 := by omega
  have e0' : lptr + noZeros + 2 - 1 = lptr + noZeros + 1 := by omega
  have e0'' : lptr + noZeros + 2 - 2 = lptr + noZeros + 0 := by omega
  have e1 : ∀ t, lptr + (noZeros + 3) + t = lptr + noZeros + (3 + t) := fun t => by omega
  have a1 : luptr + (nsupr * (noZeros + 3 - 1) + (noZeros + 3) - 1) =
      luptr + (nsupr * noZeros + noZeros) + (2 * nsupr + 2) := by rw [hm]; omega
  have a2 : luptr + (nsupr * noZeros + noZeros) + (2 * nsupr + 2) - nsupr =
      luptr + (nsupr * noZeros + noZeros) + (1 * nsupr + 2) := by omega
  have a2' : luptr + (nsupr * noZeros + noZeros) + (1 * nsupr + 2) - nsupr =
      luptr + (nsupr * noZeros + noZeros) + (0 * nsupr + 2) := by omega
  have a2'' : luptr + (nsupr * noZeros + noZeros) + (0 * nsupr + 2) - 1 =
      luptr + (nsupr * noZeros + noZeros) + (0 * nsupr + 1) := by omega
  have a3 : ∀ t, luptr + (nsupr * noZeros + noZeros) + (2 * nsupr + 2) + 1 + t =
      luptr + (nsupr * noZeros + noZeros) + (2 * nsupr + (3 + t)) := fun t => by omega
  have a4 : ∀ t, luptr + (nsupr * noZeros + noZeros) + (1 * nsupr + 2) + 1 + t =
      luptr + (nsupr * noZeros + noZeros) + (1 * nsupr + (3 + t)) := fun t => by omega
  have a5 : ∀ t, luptr + (nsupr * noZeros + noZeros) + (0 * nsupr + 2) + 1 + t =
      luptr + (nsupr * noZeros + noZeros) + (0 * nsupr + (3 + t)) := fun t => by omega
  simp only [e0, e0', e0'', e1, a1, a2, a2', a2'', a3, a4, a5, ← z0, ← z1]
  have hu : (if cplx = true then
        dense[lsub[lptr + noZeros + 2]!]! -
          (z 1 * lusup[luptr + (nsupr * noZeros + noZeros) + (1 * nsupr + 2)]! +
            z 0 * lusup[luptr + (nsupr * noZeros + noZeros) + (0 * nsupr + 2)]!)
      else
        dense[lsub[lptr + noZeros + 2]!]! - z 1 * lusup[luptr + (nsupr * noZeros + noZeros) + (1 * nsupr + 2)]! -
          z 0 * lusup[luptr + (nsupr * noZeros + noZeros) + (0 * nsupr + 2)]!) = z 2 := by
    rw [z2]; split <;> ring
  rw [hu]
  have n10 : lsub[lptr + noZeros + 1]! ≠ lsub[lptr + noZeros + 0]! := fun he => by
    have := hinj _ _ (by omega) (by omega) he; omega
  have n20 : lsub[lptr + noZeros + 2]! ≠ lsub[lptr + noZeros + 0]! := fun he => by
    have := hinj _ _ (by omega) (by omega) he; omega
  have n21 : lsub[lptr + noZeros + 2]! ≠ lsub[lptr + noZeros + 1]! := fun he => by
    have := hinj _ _ (by omega) (by omega) he; omega
  have hd1 : ∀ p, p ≠ lsub[lptr + noZeros + 2]! → p ≠ lsub[lptr + noZeros + 1]! →
      ((dense.setIfInBounds lsub[lptr + noZeros + 2]! (z 2)).setIfInBounds lsub[lptr + noZeros + 1]! (z 1))[p]! = dense[p]! := by
    intro p hp hp'
    rw [getElem!_setIfInBounds, if_neg (fun h => hp' h.1.symm), getElem!_setIfInBounds, if_neg (fun h => hp h.1.symm)]
  obtain ⟨r1, r2, r3⟩ := scatterMap_spec cnt (fun t => lsub[lptr + noZeros + (3 + t)]!)
    (fun t x => x - (z 2 * lusup[luptr + (nsupr * noZeros + noZeros) + (2 * nsupr + (3 + t))]! +
      z 1 * lusup[luptr + (nsupr * noZeros + noZeros) + (1 * nsupr + (3 + t))]! +
      z 0 * lusup[luptr + (nsupr * noZeros + noZeros) + (0 * nsupr + (3 + t))]!))
    ((dense.setIfInBounds lsub[lptr + noZeros + 2]! (z 2)).setIfInBounds lsub[lptr + noZeros + 1]! (z 1))
    (fun t u ht hu he => by have := hinj _ _ (by omega) (by omega) he; omega)
    (fun t ht => by rw [Array.size_setIfInBounds, Array.size_setIfInBounds]; exact hrow _ (by omega))
  refine ⟨by rw [r1, Array.size_setIfInBounds, Array.size_setIfInBounds], fun s hs => ?_, fun i hi => ?_, fun p hp => ?_⟩
  · rw [r3 _ (fun t ht he => by have := hinj _ _ (by omega) (by omega) he; omega)]
    obtain rfl | rfl | rfl : s = 0 ∨ s = 1 ∨ s = 2 := by omega
    · rw [hd1 _ n20.symm n10.symm, z0]
    · rw [getElem!_setIfInBounds, if_pos ⟨rfl, by rw [Array.size_setIfInBounds]; exact hrow 1 (by omega)⟩]
    · rw [getElem!_setIfInBounds, if_neg (fun h => n21 h.1.symm), getElem!_setIfInBounds, if_pos ⟨rfl, hrow 2 (by omega)⟩]
  · rw [r2 i hi, hd1 _ (fun he => by have := hinj _ _ (by omega) (by omega) he; omega)
      (fun he => by have := hinj _ _ (by omega) (by omega) he; omega),
      Finset.sum_range_succ, Finset.sum_range_succ, Finset.sum_range_one]
    ring
  · rw [r3 p (fun t ht => hp (3 + t) (by omega)), hd1 p (fun he => hp 2 (by omega) he.symm) (fun he => hp 1 (by omega) he.symm)]

/-- all four cases of the dispatch on `segsze` -/
theorem segUpdate_spec' (cplx : Bool) (lsub : Array Nat) (g : Seg) (lusup dense tempv : Array K) (z : Nat → K)
    (ok : SegOK lsub g dense)
    (htv : 4 ≤ g.segsze → g.segsze + g.nrow ≤ tempv.size) (htz : 4 ≤ g.segsze → ∀ i, i < g.segsze + g.nrow → tempv[i]! = 0)
    (hz : ∀ s, s < g.segsze → z s = dense[lsub[g.lptr + g.noZeros + s]!]! -
      ∑ q ∈ range s, z q * lusup[g.luptr + (g.nsupr * g.noZeros + g.noZeros) + (q * g.nsupr + s)]!) :
    SegPost lsub g lusup dense z (segUpdate cplx lsub g lusup dense tempv).1 ∧
    (segUpdate cplx lsub g lusup dense tempv).2.size = tempv.size ∧
    (∀ p : Nat, (segUpdate cplx lsub g lusup dense tempv).2[p]! = tempv[p]!) := by
  unfold segUpdate
  by_cases h1 : g.segsze = 1
  · rw [if_pos h1]; exact ⟨seg1_spec' lsub g lusup dense z ok h1 hz, rfl, fun _ => rfl⟩
  · rw [if_neg h1]
    by_cases h3 : g.segsze ≤ 3
    · rw [if_pos h3]
      by_cases h2 : g.segsze = 2
      · rw [if_pos h2]; exact ⟨seg2_spec' lsub g lusup dense z ok h2 hz, rfl, fun _ => rfl⟩
      · rw [if_neg h2]
        have := ok.hpos
        exact ⟨seg3_spec' cplx lsub g lusup dense z ok (by omega) hz, rfl, fun _ => rfl⟩
    · rw [if_neg h3]
      exact segN_spec' cplx lsub g lusup dense tempv z ok (htv (by omega)) (htz (by omega)) hz

/-! ### the loop over the segments and the tail -/

theorem SegOK.of_size {lsub : Array Nat} {g : Seg} {d d' : Array K} (ok : SegOK lsub g d) (h : d'.size = d.size) :
    SegOK lsub g d' :=
  ⟨ok.hg1, ok.hg2, ok.hpos, ok.hinj, fun t ht => by rw [h]; exact ok.hrow t ht⟩

/-- what one iteration of the segment loop does to the state (the conclusion of `colBmod_segment_spec`;
a representative of `jcol`'s own supernode leaves the state as it is) -/
def SegStep (jcol fpanelc : Nat) (xsup supno lsub xlsub repfnz : Array Nat) (krep : Nat) (st o : SnodeSt K) : Prop :=
  if supno[jcol]! = supno[krep]! then o = st else
  let g := segGeom fpanelc xsup supno xlsub st.xlusup repfnz krep
  let base := g.luptr + (g.nsupr * g.noZeros + g.noZeros)
  let row := fun t => lsub[g.lptr + g.noZeros + t]!
  let u := fwdSub (fun i r => st.lusup[base + (r * g.nsupr + i)]!) (fun _ => 1) (fun t => st.dense[row t]!) g.segsze
  o.dense.size = st.dense.size ∧
  (∀ s, s < g.segsze → o.dense[row s]! = u.getD s 0) ∧
  (∀ i, i < g.nrow → o.dense[row (g.segsze + i)]! =
    st.dense[row (g.segsze + i)]! - ∑ q ∈ range g.segsze, st.lusup[base + (q * g.nsupr + (g.segsze + i))]! * u.getD q 0) ∧
  (∀ p, (∀ t, t < g.segsze + g.nrow → row t ≠ p) → o.dense[p]! = st.dense[p]!) ∧
  o.tempv.size = st.tempv.size ∧ (∀ p : Nat, o.tempv[p]! = st.tempv[p]!) ∧
  o.lusup = st.lusup ∧ o.xlusup = st.xlusup

/-- the hypotheses `colBmod_segment_spec` needs for the representative `krep` in the state `st` -/
def SegHyp (jcol fpanelc : Nat) (xsup supno lsub xlsub repfnz : Array Nat) (krep : Nat) (st : SnodeSt K) : Prop :=
  supno[jcol]! ≠ supno[krep]! →
    SegOK lsub (segGeom fpanelc xsup supno xlsub st.xlusup repfnz krep) st.dense ∧
    (4 ≤ (segGeom fpanelc xsup supno xlsub st.xlusup repfnz krep).segsze →
      (segGeom fpanelc xsup supno xlsub st.xlusup repfnz krep).segsze + (segGeom fpanelc xsup supno xlsub st.xlusup repfnz krep).nrow
        ≤ st.tempv.size ∧
      ∀ i, i < (segGeom fpanelc xsup supno xlsub st.xlusup repfnz krep).segsze +
        (segGeom fpanelc xsup supno xlsub st.xlusup repfnz krep).nrow → st.tempv[i]! = 0)

theorem colSegment_step (cplx segOps : Bool) (jcol fpanelc : Nat) (xsup supno lsub xlsub repfnz : Array Nat)
    (krep : Nat) (st : SnodeSt K) (H : SegHyp jcol fpanelc xsup supno lsub xlsub repfnz krep st) :
    SegStep jcol fpanelc xsup supno lsub xlsub repfnz krep st
      (colSegment cplx segOps jcol fpanelc xsup supno lsub xlsub repfnz krep st) := by
  unfold SegStep
  by_cases he : supno[jcol]! = supno[krep]!
  · rw [if_pos he]; unfold colSegment; rw [if_neg (by simpa using he)]
  rw [if_neg he]
  obtain ⟨ok, htvz⟩ := H he
  intro g base row u
  have hz : ∀ s, s < g.segsze → (fun t => u.getD t 0) s = st.dense[lsub[g.lptr + g.noZeros + s]!]! -
      ∑ q ∈ range s, (fun t => u.getD t 0) q * st.lusup[g.luptr + (g.nsupr * g.noZeros + g.noZeros) + (q * g.nsupr + s)]! := by
    intro s hs
    show u.getD s 0 = _
    rw [fwd_rec _ _ _ g.segsze s hs, div_one]
    congr 1
    exact Finset.sum_congr rfl (fun j _ => mul_comm _ _)
  obtain ⟨⟨p1, p2, p3, p4⟩, t1, t2⟩ := segUpdate_spec' cplx lsub g st.lusup st.dense st.tempv (fun t => u.getD t 0) ok
    (fun h => (htvz h).1) (fun h => (htvz h).2) hz
  have hd : (colSegment cplx segOps jcol fpanelc xsup supno lsub xlsub repfnz krep st).dense =
      (segUpdate cplx lsub g st.lusup st.dense st.tempv).1 := by
    unfold colSegment; rw [if_pos he]
  have ht : (colSegment cplx segOps jcol fpanelc xsup supno lsub xlsub repfnz krep st).tempv =
      (segUpdate cplx lsub g st.lusup st.dense st.tempv).2 := by
    unfold colSegment; rw [if_pos he]
  have hl : (colSegment cplx segOps jcol fpanelc xsup supno lsub xlsub repfnz krep st).lusup = st.lusup := by
    unfold colSegment; rw [if_pos he]
  have hx : (colSegment cplx segOps jcol fpanelc xsup supno lsub xlsub repfnz krep st).xlusup = st.xlusup := by
    unfold colSegment; rw [if_pos he]
  rw [hd, ht]
  refine ⟨p1, p2, fun i hi => ?_, p4, t1, t2, hl, hx⟩
  rw [p3 i hi]
  congr 1
  exact Finset.sum_congr rfl (fun j _ => mul_comm _ _)

/-- the state after the first `k` iterations of the segment loop -/
def segsUpTo (cplx segOps : Bool) (jcol nseg fpanelc : Nat) (segrep repfnz xsup supno lsub xlsub : Array Nat)
    (st : SnodeSt K) (k : Nat) : SnodeSt K :=
  (List.range k).foldl (fun (st : SnodeSt K) ksub =>
    colSegment cplx segOps jcol fpanelc xsup supno lsub xlsub repfnz segrep[nseg - 1 - ksub]! st) st

theorem segsUpTo_succ (cplx segOps : Bool) (jcol nseg fpanelc : Nat) (segrep repfnz xsup supno lsub xlsub : Array Nat)
    (st : SnodeSt K) (k : Nat) :
    segsUpTo cplx segOps jcol nseg fpanelc segrep repfnz xsup supno lsub xlsub st (k + 1) =
      colSegment cplx segOps jcol fpanelc xsup supno lsub xlsub repfnz segrep[nseg - 1 - k]!
        (segsUpTo cplx segOps jcol nseg fpanelc segrep repfnz xsup supno lsub xlsub st k) := by
  unfold segsUpTo
  rw [List.range_succ, List.foldl_append]
  rfl

theorem SegStep.frame {jcol fpanelc : Nat} {xsup supno lsub xlsub repfnz : Array Nat} {krep : Nat} {st o : SnodeSt K}
    (h : SegStep jcol fpanelc xsup supno lsub xlsub repfnz krep st o) :
    o.lusup = st.lusup ∧ o.xlusup = st.xlusup ∧ o.dense.size = st.dense.size ∧ o.tempv.size = st.tempv.size ∧
    ∀ p : Nat, o.tempv[p]! = st.tempv[p]! := by
  unfold SegStep at h
  by_cases he : supno[jcol]! = supno[krep]!
  · rw [if_pos he] at h; subst h; exact ⟨rfl, rfl, rfl, rfl, fun _ => rfl⟩
  · rw [if_neg he] at h
    obtain ⟨a, _, _, _, b, c, d, e⟩ := h
    exact ⟨d, e, a, b, c⟩

/-- **the whole segment loop**: under the per-segment hypotheses stated on the INITIAL state (they only
involve `xlusup`, the size of `dense` and the zero prefix of `tempv`, which no iteration changes), every
iteration performs its `SegStep` from the state its predecessor left, and `lusup`, `xlusup`, `tempv`
come out as they went in -/
theorem colSegments_chain (cplx segOps : Bool) (jcol nseg fpanelc : Nat) (segrep repfnz xsup supno lsub xlsub : Array Nat)
    (st : SnodeSt K)
    (H : ∀ k, k < nseg → SegHyp jcol fpanelc xsup supno lsub xlsub repfnz segrep[nseg - 1 - k]! st) (k : Nat) (hk : k ≤ nseg) :
    ((segsUpTo cplx segOps jcol nseg fpanelc segrep repfnz xsup supno lsub xlsub st k).lusup = st.lusup ∧
     (segsUpTo cplx segOps jcol nseg fpanelc segrep repfnz xsup supno lsub xlsub st k).xlusup = st.xlusup ∧
     (segsUpTo cplx segOps jcol nseg fpanelc segrep repfnz xsup supno lsub xlsub st k).dense.size = st.dense.size ∧
     (segsUpTo cplx segOps jcol nseg fpanelc segrep repfnz xsup supno lsub xlsub st k).tempv.size = st.tempv.size ∧
     ∀ p : Nat, (segsUpTo cplx segOps jcol nseg fpanelc segrep repfnz xsup supno lsub xlsub st k).tempv[p]! = st.tempv[p]!) ∧
    ∀ j, j < k → SegStep jcol fpanelc xsup supno lsub xlsub repfnz segrep[nseg - 1 - j]!
      (segsUpTo cplx segOps jcol nseg fpanelc segrep repfnz xsup supno lsub xlsub st j)
      (segsUpTo cplx segOps jcol nseg fpanelc segrep repfnz xsup supno lsub xlsub st (j + 1)) := by
  induction k with
  | zero => exact ⟨⟨rfl, rfl, rfl, rfl, fun _ => rfl⟩, fun j hj => by omega⟩
  | succ k ih =>
    obtain ⟨⟨i1, i2, i3, i4, i5⟩, steps⟩ := ih (by omega)
    have hyp : SegHyp jcol fpanelc xsup supno lsub xlsub repfnz segrep[nseg - 1 - k]!
        (segsUpTo cplx segOps jcol nseg fpanelc segrep repfnz xsup supno lsub xlsub st k) := by
      intro hne
      obtain ⟨ok, tv⟩ := H k (by omega) hne
      rw [i2]
      refine ⟨ok.of_size i3, fun h4 => ?_⟩
      obtain ⟨a, b⟩ := tv h4
      exact ⟨by rw [i4]; exact a, fun i hi => by rw [i5]; exact b i hi⟩
    have step := colSegment_step cplx segOps jcol fpanelc xsup supno lsub xlsub repfnz segrep[nseg - 1 - k]! _ hyp
    rw [← segsUpTo_succ] at step
    obtain ⟨f1, f2, f3, f4, f5⟩ := step.frame
    refine ⟨⟨by rw [f1, i1], by rw [f2, i2], by rw [f3, i3], by rw [f4, i4], fun p => by rw [f5, i5]⟩, fun j hj => ?_⟩
    by_cases hjk : j = k
    · subst hjk; exact step
    · exact steps j (by omega)

theorem colSegments_eq_segsUpTo (cplx segOps : Bool) (jcol nseg fpanelc : Nat) (segrep repfnz xsup supno lsub xlsub : Array Nat)
    (st : SnodeSt K) :
    colSegments cplx segOps jcol nseg fpanelc segrep repfnz xsup supno lsub xlsub st =
      segsUpTo cplx segOps jcol nseg fpanelc segrep repfnz xsup supno lsub xlsub st nseg := rfl

/-- when the panel does not start inside `jcol`'s supernode the tail IS `snode_bmod` -/
theorem colTail_eq_snodeBmod (cplx : Bool) (jcol fpanelc : Nat) (xsup supno lsub xlsub : Array Nat) (st : SnodeSt K)
    (h : fpanelc ≤ xsup[supno[jcol]!]!) :
    colTail cplx jcol fpanelc xsup supno lsub xlsub st = snodeBmod cplx jcol xsup[supno[jcol]!]! lsub xlsub st := by
  unfold colTail snodeBmod
  simp only [Nat.max_eq_left h, Nat.sub_self, Nat.add_zero, Nat.sub_zero]

/-! ### one segment instantiates the abstract supernodal block update -/
section sched
open Slu.LU

theorem dotL_storage2 (cols : List (Nat × Vec K)) (us : List K) (hus : us.length = cols.length)
    (lsub : Array Nat) (istart n ld luptr : Nat) (lusup : Array K)
    (R2 : ∀ t (ht : t < cols.length) i, i < n → (cols[t]).2.get (lsub[istart + i]!) =
        if i < t then 0 else if i = t then 1 else lusup[luptr + (t * ld + i)]!)
    (i : Nat) (hi : i < n) :
    dotL us cols (lsub[istart + i]!) =
      ∑ r ∈ range cols.length, us.getD r 0 * (if i < r then 0 else if i = r then 1 else lusup[luptr + (r * ld + i)]!) := by
  rw [dotL_eq_sum us cols _ hus]
  apply Finset.sum_congr rfl
  intro r hr
  have hr' := mem_range.mp hr
  have : cols.getD r (0, #[]) = cols[r] := by simp [List.getD, hr']
  rw [this, R2 r hr' i hi]

/-- `cols` are the columns `kfnz..krep` of the supernode as the factorization model holds them
(pivot row, column of L over all rows), agreeing with the storage on the rows `kfnz..` of the
supernode.  Then the segment rows of `dense` receive `snodeSolve cols dense` and the rows below
`snodeGemv cols us dense`. -/
theorem segUpdate_eq_snodeBlock' (cplx : Bool) (lsub : Array Nat) (g : Seg) (lusup dense tempv : Array K)
    (ok : SegOK lsub g dense)
    (htv : 4 ≤ g.segsze → g.segsze + g.nrow ≤ tempv.size) (htz : 4 ≤ g.segsze → ∀ i, i < g.segsze + g.nrow → tempv[i]! = 0)
    (cols : List (Nat × Vec K)) (hlen : cols.length = g.segsze)
    (R1 : ∀ t (ht : t < cols.length), (cols[t]).1 = lsub[g.lptr + g.noZeros + t]!)
    (R2 : ∀ t (ht : t < cols.length) i, i < g.segsze + g.nrow → (cols[t]).2.get (lsub[g.lptr + g.noZeros + i]!) =
        if i < t then 0 else if i = t then 1
        else lusup[g.luptr + (g.nsupr * g.noZeros + g.noZeros) + (t * g.nsupr + i)]!) :
    UnitLower cols ∧ (∀ x ∈ cols, x.1 < dense.size) ∧
    (∀ s, s < g.segsze → (segUpdate cplx lsub g lusup dense tempv).1[lsub[g.lptr + g.noZeros + s]!]! =
      (snodeSolve cols dense).getD s 0) ∧
    (∀ i, i < g.nrow → (segUpdate cplx lsub g lusup dense tempv).1[lsub[g.lptr + g.noZeros + (g.segsze + i)]!]! =
      (snodeGemv cols (snodeSolve cols dense) dense).get (lsub[g.lptr + g.noZeros + (g.segsze + i)]!)) := by
  have hr : ∀ x ∈ cols, x.1 < dense.size := by
    intro x hx
    obtain ⟨k, hk, rfl⟩ := List.getElem_of_mem hx
    rw [R1 k hk]; exact ok.hrow k (by omega)
  have hU : UnitLower cols := by
    apply unitLower_of_index
    · intro t ht
      rw [R1 t ht, R2 t ht t (by omega), if_neg (by omega), if_pos rfl]
    · intro r t hrt ht
      rw [R1 r (by omega), R2 t ht r (by omega), if_pos hrt]
  have hus := snodeSolve_eq_elim cols dense hr
  have hul : (snodeSolve cols dense).length = cols.length := by rw [hus, elim_length]
  have hget : ∀ i, i < g.segsze + g.nrow →
      Vec.get dense (lsub[g.lptr + g.noZeros + i]!) = dense[lsub[g.lptr + g.noZeros + i]!]! := by
    intro i hi
    rw [getElem!_eq_getD_of_lt _ _ (ok.hrow i hi)]; rfl
  have hz : ∀ t, t < g.segsze → (fun t => (snodeSolve cols dense).getD t 0) t = dense[lsub[g.lptr + g.noZeros + t]!]! -
      ∑ j ∈ range t, (fun t => (snodeSolve cols dense).getD t 0) j *
        lusup[g.luptr + (g.nsupr * g.noZeros + g.noZeros) + (j * g.nsupr + t)]! := by
    intro t ht
    have hsp := elim_spec cols dense (lsub[g.lptr + g.noZeros + t]!) (ok.hrow t (by omega))
    have hzero := (elim_zero_at_pivots cols dense hU hr [] (by simp) (by simp)).1 (cols[t]'(by omega)) (List.getElem_mem _)
    rw [R1 t (by omega)] at hzero
    rw [hzero, add_zero, ← hus, dotL_storage2 cols _ hul lsub (g.lptr + g.noZeros) (g.segsze + g.nrow) g.nsupr
      (g.luptr + (g.nsupr * g.noZeros + g.noZeros)) lusup R2 t (by omega), hlen,
      sum_tri g.segsze t ht, hget t (by omega)] at hsp
    show (snodeSolve cols dense).getD t 0 = _
    rw [hsp]; ring
  obtain ⟨⟨_, c2, c3, _⟩, _⟩ := segUpdate_spec' cplx lsub g lusup dense tempv (fun t => (snodeSolve cols dense).getD t 0) ok htv htz hz
  refine ⟨hU, hr, c2, fun i hi => ?_⟩
  rw [c3 i hi, snodeGemv_get _ _ _ _ (ok.hrow _ (by omega)), hget _ (by omega),
    dotL_storage2 cols _ hul lsub (g.lptr + g.noZeros) (g.segsze + g.nrow) g.nsupr
      (g.luptr + (g.nsupr * g.noZeros + g.noZeros)) lusup R2 (g.segsze + i) (by omega), hlen,
    sum_below g.segsze (g.segsze + i) (by omega)]

end sched

/-! ### the tail for every `fpanelc` (the panel may start inside `jcol`'s own supernode) -/

theorem colTail_spec' (cplx : Bool) (jcol fpanelc : Nat) (xsup supno lsub xlsub : Array Nat) (st : SnodeSt K)
    (fsupc fstCol d istart nsupr ucol luptr nsupc : Nat)
    (e0 : fsupc = xsup[supno[jcol]!]!) (ef : fstCol = max fsupc fpanelc) (ed : d = fstCol - fsupc)
    (e1 : istart = xlsub[fsupc]!) (e2 : nsupr = xlsub[fsupc + 1]! - istart)
    (e3 : ucol = st.xlusup[jcol]!) (e4 : luptr = st.xlusup[fstCol]! + d) (e5 : nsupc = jcol - fstCol)
    (hle : fstCol ≤ jcol)
    (hinj : ∀ t u, t < nsupr → u < nsupr → lsub[istart + t]! = lsub[istart + u]! → t = u)
    (hrow : ∀ t, t < nsupr → lsub[istart + t]! < st.dense.size)
    (hcol : ucol + nsupr ≤ st.lusup.size) (hwid : d + nsupc ≤ nsupr)
    (hbefore : luptr + nsupc * nsupr ≤ ucol + d)
    (htv : nsupr - d - nsupc ≤ st.tempv.size) (htz : ∀ i, i < nsupr - d - nsupc → st.tempv[i]! = 0)
    (z : Nat → K)
    (hz : ∀ i, i < nsupc → z i = st.dense[lsub[istart + (d + i)]!]! - ∑ j ∈ range i, z j * st.lusup[luptr + (j * nsupr + i)]!) :
    (colTail cplx jcol fpanelc xsup supno lsub xlsub st).lusup.size = st.lusup.size ∧
    (∀ t, t < d → (colTail cplx jcol fpanelc xsup supno lsub xlsub st).lusup[ucol + t]! = st.dense[lsub[istart + t]!]!) ∧
    (∀ t, t < nsupc → (colTail cplx jcol fpanelc xsup supno lsub xlsub st).lusup[ucol + (d + t)]! = z t) ∧
    (∀ i, d + nsupc ≤ i → i < nsupr → (colTail cplx jcol fpanelc xsup supno lsub xlsub st).lusup[ucol + i]! =
      st.dense[lsub[istart + i]!]! - ∑ r ∈ range nsupc, st.lusup[luptr + (r * nsupr + (i - d))]! * z r) ∧
    (∀ p, (p < ucol ∨ ucol + nsupr ≤ p) → (colTail cplx jcol fpanelc xsup supno lsub xlsub st).lusup[p]! = st.lusup[p]!) ∧
    (colTail cplx jcol fpanelc xsup supno lsub xlsub st).dense.size = st.dense.size ∧
    (∀ t, t < nsupr → (colTail cplx jcol fpanelc xsup supno lsub xlsub st).dense[lsub[istart + t]!]! = 0) ∧
    (∀ r, (∀ t, t < nsupr → lsub[istart + t]! ≠ r) → (colTail cplx jcol fpanelc xsup supno lsub xlsub st).dense[r]! = st.dense[r]!) ∧
    (colTail cplx jcol fpanelc xsup supno lsub xlsub st).tempv.size = st.tempv.size ∧
    (∀ i : Nat, (colTail cplx jcol fpanelc xsup supno lsub xlsub st).tempv[i]! = st.tempv[i]!) ∧
    (colTail cplx jcol fpanelc xsup supno lsub xlsub st).xlusup = st.xlusup.setIfInBounds (jcol + 1) (ucol + nsupr) := by
  have hX : ∀ v : Nat, (st.xlusup.setIfInBounds (jcol + 1) v)[fstCol]! = st.xlusup[fstCol]! ∧
      (st.xlusup.setIfInBounds (jcol + 1) v)[jcol]! = st.xlusup[jcol]! := by
    intro v
    constructor <;> rw [getElem!_setIfInBounds, if_neg (by omega)]
  obtain ⟨s1, s2, s3, s4, s5⟩ := snodeScatter_spec lsub istart nsupr ucol st.lusup st.dense hinj hrow nsupr (le_refl _)
  have hcell : ∀ i, i < nsupr → (snodeScatter lsub istart nsupr ucol st.lusup st.dense).1[ucol + i]! = st.dense[lsub[istart + i]!]! := by
    intro i hi
    rw [s3, if_pos ⟨by omega, by omega, by omega⟩, Nat.add_sub_cancel_left]
  have hout : ∀ p, (p < ucol ∨ ucol + nsupr ≤ p) → (snodeScatter lsub istart nsupr ucol st.lusup st.dense).1[p]! = st.lusup[p]! := by
    intro p hp
    rw [s3, if_neg (by omega)]
  have hblk : ∀ j i, j < nsupc → i + d < nsupr → luptr + (j * nsupr + i) < ucol := by
    intro j i hj hi
    have := idx_lt j (i + d) nsupc nsupr hj hi
    omega
  unfold colTail
  dsimp only
  rw [← e0, ← ef, ← ed, (hX _).1, (hX _).2, ← e1, ← e2, ← e3, ← e4, ← e5]
  generalize snodeScatter lsub istart nsupr ucol st.lusup st.dense = P at s1 s2 s3 s4 s5 hcell hout
  by_cases hlt : fstCol < jcol
  · rw [if_pos hlt]
    dsimp only
    obtain ⟨l1, l2, l3⟩ := lsolveG_spec cplx nsupr nsupc (fun s i => s[luptr + i]!) (ucol + d) P.1
      (fun i j => st.lusup[luptr + (j * nsupr + i)]!) z (by omega)
      (fun s hs i j hji hi => by
        have hlt := hblk j i (by omega) (by omega)
        rw [hs.2 _ (Or.inl (by omega)), hout _ (Or.inl (by omega))])
      (fun i hi => by rw [Nat.add_assoc, hcell (d + i) (by omega)]; exact hz i hi)
    have hA : lsolveA cplx nsupr nsupc P.1 luptr (ucol + d) = lsolveG cplx nsupr nsupc (fun s i => s[luptr + i]!) P.1 (ucol + d) := rfl
    rw [hA]
    generalize lsolveG cplx nsupr nsupc (fun s i => s[luptr + i]!) P.1 (ucol + d) = L1 at l1 l2 l3
    obtain ⟨m1, m2, m3⟩ := matvec_spec' cplx nsupr (nsupr - d - nsupc) nsupc L1 (luptr + nsupc) L1 (ucol + d) st.tempv htv
    have m2' : ∀ k, k < nsupr - d - nsupc → (matvec cplx nsupr (nsupr - d - nsupc) nsupc L1 (luptr + nsupc) L1 (ucol + d) st.tempv)[k]! =
        ∑ r ∈ range nsupc, st.lusup[luptr + (r * nsupr + (nsupc + k))]! * z r := by
      intro k hk
      rw [m2 k hk, htz k hk, zero_add]
      apply Finset.sum_congr rfl
      intro r hr
      have hr' := mem_range.mp hr
      have hlt := hblk r (nsupc + k) hr' (by omega)
      have e : luptr + nsupc + (r * nsupr + k) = luptr + (r * nsupr + (nsupc + k)) := by omega
      rw [l2 r hr', e, l3 _ (Or.inl (by omega)), hout _ (Or.inl (by omega)), mul_comm]
    generalize matvec cplx nsupr (nsupr - d - nsupc) nsupc L1 (luptr + nsupc) L1 (ucol + d) st.tempv = T1 at m1 m2 m3 m2'
    obtain ⟨u1, u2, u3, u4⟩ := snodeUnload_spec (ucol + d + nsupc) L1 T1 (nsupr - d - nsupc)
    generalize snodeUnload (ucol + d + nsupc) (nsupr - d - nsupc) L1 T1 = Q at u1 u2 u3 u4
    refine ⟨by rw [u1, l1, s1], fun t ht => ?_, fun t ht => ?_, fun i hi hin => ?_, fun p hp => ?_, s2, s4, s5,
      by rw [u2, m1], fun i => ?_, rfl⟩
    · rw [u3, if_neg (by omega), l3 _ (Or.inl (by omega)), hcell t (by omega)]
    · rw [u3, if_neg (by omega), ← Nat.add_assoc]; exact l2 t ht
    · rw [u3, if_pos ⟨by omega, by omega, by omega⟩, l3 _ (Or.inr (by omega)), hcell i hin,
        show ucol + i - (ucol + d + nsupc) = i - d - nsupc by omega, m2' _ (by omega),
        show nsupc + (i - d - nsupc) = i - d by omega]
    · rw [u3, if_neg (by omega), l3 p (by omega), hout p hp]
    · rw [u4]
      by_cases hc : i < nsupr - d - nsupc ∧ i < T1.size
      · rw [if_pos hc, htz i hc.1]
      · rw [if_neg hc]
        by_cases hi : i < nsupr - d - nsupc
        · have : T1.size ≤ i := by omega
          simp only [Array.getElem!_eq_getD, Array.getD_eq_getD_getElem?]
          rw [Array.getElem?_eq_none this, Array.getElem?_eq_none (by omega)]
        · exact m3 i (by omega)
  · rw [if_neg hlt]
    dsimp only
    have h0 : nsupc = 0 := by omega
    subst h0
    refine ⟨s1, fun t ht => hcell t (by omega), fun t ht => absurd ht (by omega), fun i _ hin => ?_, hout, s2, s4, s5, rfl,
      fun _ => rfl, rfl⟩
    rw [hcell i hin]; simp

end Slu.ColBmod
