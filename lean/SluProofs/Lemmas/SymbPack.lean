import SluProofs.Lemmas.Symb
/-
C03 — the predicted structure packed into SCformat / NCformat arrays (`Slu.Symb.toFac`) passes the
checker `Slu.Struct.wfb`: pointer arithmetic of the packing (`offs`, `flatten`) + the list-level facts of
Lemmas/Symb.lean.
-/
namespace Slu.Symb
open Slu Slu.Struct

/-! ### running offsets and flattening -/

theorem offs_length (s : Nat) (cs : List Nat) : (offs s cs).length = cs.length + 1 := by
  induction cs generalizing s with
  | nil => rfl
  | cons c cs ih => simp [offs, ih]

theorem offs_zero (s : Nat) (cs : List Nat) : (offs s cs)[0]! = s := by
  cases cs <;> simp [offs]

theorem offs_shift (s : Nat) (cs : List Nat) (i : Nat) (h : i ≤ cs.length) : (offs s cs)[i]! = s + (offs 0 cs)[i]! := by
  induction cs generalizing s i with
  | nil => have : i = 0 := by simpa using h
           subst this; simp [offs]
  | cons c cs ih =>
    cases i with
    | zero => simp [offs]
    | succ i =>
      simp only [offs, List.getElem!_cons_succ]
      rw [ih (s + c) i (by simpa using h), ih (0 + c) i (by simpa using h)]; omega

theorem offs_succ (s : Nat) (cs : List Nat) (i : Nat) (h : i < cs.length) :
    (offs s cs)[i + 1]! = (offs s cs)[i]! + cs[i]! := by
  induction cs generalizing s i with
  | nil => simp at h
  | cons c cs ih =>
    cases i with
    | zero => simp only [offs, List.getElem!_cons_succ, List.getElem!_cons_zero]; rw [offs_zero]
    | succ i =>
      simp only [offs, List.getElem!_cons_succ]
      exact ih (s + c) i (by simpa using h)

theorem offs_mono (s : Nat) (cs : List Nat) (i : Nat) (h : i < cs.length) : (offs s cs)[i]! ≤ (offs s cs)[i + 1]! := by
  rw [offs_succ s cs i h]; omega

theorem flatten_length_offs (ls : List (List Nat)) : ls.flatten.length = (offs 0 (ls.map (·.length)))[ls.length]! := by
  induction ls with
  | nil => simp [offs]
  | cons l ls ih =>
    simp only [List.flatten_cons, List.length_append, List.map_cons, offs, List.length_cons, List.getElem!_cons_succ]
    rw [offs_shift (0 + l.length) _ ls.length (by simp), ih]; omega

theorem flatten_get (ls : List (List Nat)) (i d : Nat) (hi : i < ls.length) (hd : d < (ls[i]!).length) :
    ls.flatten[(offs 0 (ls.map (·.length)))[i]! + d]! = (ls[i]!)[d]! := by
  induction ls generalizing i with
  | nil => simp at hi
  | cons l ls ih =>
    cases i with
    | zero =>
      simp only [List.getElem!_cons_zero] at hd ⊢
      simp only [List.map_cons, offs, List.getElem!_cons_zero, Nat.zero_add, List.flatten_cons]
      rw [List.getElem!_eq_getElem?_getD, List.getElem?_append_left hd, ← List.getElem!_eq_getElem?_getD]
    | succ i =>
      simp only [List.getElem!_cons_succ] at hd ⊢
      simp only [List.map_cons, offs, List.getElem!_cons_succ, List.flatten_cons]
      rw [offs_shift (0 + l.length) _ i (by simp at hi ⊢; omega)]
      rw [List.getElem!_eq_getElem?_getD, List.getElem?_append_right (by omega), ← List.getElem!_eq_getElem?_getD]
      have : 0 + l.length + (offs 0 (ls.map (·.length)))[i]! + d - l.length = (offs 0 (ls.map (·.length)))[i]! + d := by omega
      rw [this]
      exact ih i (by simpa using hi) hd


/-! ### list-level well-formedness of a predicted structure -/

/-- the clauses of C03 on the lists of an `Out` -/
structure WfOut (o : Out) : Prop where
  xlen : o.xsup.length = o.rows.length + 1
  slen : o.supno.length = o.n
  ulen : o.ucols.length = o.n
  x0 : o.xsup[0]! = 0
  xn : o.xsup[o.rows.length]! = o.n
  xlt : ∀ s < o.rows.length, o.xsup[s]! < o.xsup[s + 1]!
  sup : ∀ s < o.rows.length, ∀ c < o.xsup[s + 1]! - o.xsup[s]!, o.supno[o.xsup[s]! + c]! = s
  rlen : ∀ s < o.rows.length, o.xsup[s + 1]! - o.xsup[s]! ≤ (o.rows[s]!).length
  lead : ∀ s < o.rows.length, ∀ c < o.xsup[s + 1]! - o.xsup[s]!, (o.rows[s]!)[c]! = o.xsup[s]! + c
  below : ∀ s < o.rows.length, ∀ r ∈ (o.rows[s]!).drop (o.xsup[s + 1]! - o.xsup[s]!), o.xsup[s + 1]! - 1 < r
  rnodup : ∀ s < o.rows.length, ((o.rows[s]!).drop (o.xsup[s + 1]! - o.xsup[s]!)).Nodup
  uabove : ∀ j < o.n, ∀ r ∈ o.ucols[j]!, r < o.xsup[o.supno[j]!]!
  unodup : ∀ j < o.n, (o.ucols[j]!).Nodup

namespace WfOut
variable {o : Out} (h : WfOut o)
include h

theorem ns_pos (hn : o.n ≠ 0) : 0 < o.rows.length := by
  rcases Nat.eq_zero_or_pos o.rows.length with h0 | h0
  · have := h.xn; rw [h0, h.x0] at this; exact absurd this.symm hn
  · exact h0

/-- every column lies in exactly one predicted supernode -/
theorem find (j : Nat) (hj : j < o.n) : ∃ s < o.rows.length, o.xsup[s]! ≤ j ∧ j < o.xsup[s + 1]! := by
  have key : ∀ k ≤ o.rows.length, j < o.xsup[k]! → ∃ s < k, o.xsup[s]! ≤ j ∧ j < o.xsup[s + 1]! := by
    intro k
    induction k with
    | zero => intro _ hk; rw [h.x0] at hk; omega
    | succ k ih =>
      intro hk hlt
      by_cases hle : o.xsup[k]! ≤ j
      · exact ⟨k, by omega, hle, hlt⟩
      · obtain ⟨s, hs, h1, h2⟩ := ih (by omega) (by omega)
        exact ⟨s, by omega, h1, h2⟩
  exact key o.rows.length (Nat.le_refl _) (by rw [h.xn]; exact hj)

theorem supno_of (s j : Nat) (hs : s < o.rows.length) (h1 : o.xsup[s]! ≤ j) (h2 : j < o.xsup[s + 1]!) : o.supno[j]! = s := by
  have := h.sup s hs (j - o.xsup[s]!) (by omega)
  rwa [show o.xsup[s]! + (j - o.xsup[s]!) = j by omega] at this

theorem xsup_le_n (s : Nat) (hs : s ≤ o.rows.length) : o.xsup[s]! ≤ o.n := by
  have key : ∀ d, s + d ≤ o.rows.length → o.xsup[s]! ≤ o.xsup[s + d]! := by
    intro d
    induction d with
    | zero => intro _; exact Nat.le_refl _
    | succ d ih =>
      intro hd
      have := ih (by omega)
      have := h.xlt (s + d) (by omega)
      rw [show s + (d + 1) = s + d + 1 by omega]; omega
  have := key (o.rows.length - s) (by omega)
  rwa [show s + (o.rows.length - s) = o.rows.length by omega, h.xn] at this

end WfOut


/-! ### the packed pointer arrays -/

def loffOf (o : Out) : List Nat := offs 0 (o.rows.map (·.length))
def xlsubL (o : Out) : List Nat :=
  (List.range o.n).map (fun j => if o.xsup[o.supno[j]!]! = j then (loffOf o)[o.supno[j]!]! else (loffOf o)[o.supno[j]! + 1]!) ++
    [(loffOf o)[o.rows.length]!]
def widthsL (o : Out) : List Nat := (List.range o.n).map fun j => (o.rows[o.supno[j]!]!).length
def ucpL (o : Out) : List Nat := offs 0 (o.ucols.map (·.length))

theorem toFac_xsup (m : Nat) (o : Out) : (toFac m o).L.xsup = o.xsup.toArray := rfl
theorem toFac_supno (m : Nat) (o : Out) : (toFac m o).L.supno = o.supno.toArray := rfl
theorem toFac_xlsub (m : Nat) (o : Out) : (toFac m o).L.xlsub = (xlsubL o).toArray := rfl
theorem toFac_lsub (m : Nat) (o : Out) : (toFac m o).L.lsub = o.rows.flatten.toArray := rfl
theorem toFac_xlusup (m : Nat) (o : Out) : (toFac m o).L.xlusup = (offs 0 (widthsL o)).toArray := rfl
theorem toFac_lusup_size (m : Nat) (o : Out) : (toFac m o).L.lusup.size = (offs 0 (widthsL o))[o.n]! := by
  simp [toFac, widthsL]
theorem toFac_colptr (m : Nat) (o : Out) : (toFac m o).U.colptr = (ucpL o).toArray := rfl
theorem toFac_rowind (m : Nat) (o : Out) : (toFac m o).U.rowind = o.ucols.flatten.toArray := rfl
theorem toFac_val_size (m : Nat) (o : Out) : (toFac m o).U.val.size = (ucpL o)[o.n]! := by
  simp [toFac, ucpL]
theorem toFac_n (m : Nat) (o : Out) : (toFac m o).L.n = o.n := rfl
theorem toFac_m (m : Nat) (o : Out) : (toFac m o).L.m = m := rfl
theorem toFac_nsuper (m : Nat) (o : Out) : (toFac m o).L.nsuper = o.rows.length - 1 := rfl

theorem xl_in (o : Out) (j : Nat) (hj : j < o.n) :
    (xlsubL o)[j]! = if o.xsup[o.supno[j]!]! = j then (loffOf o)[o.supno[j]!]! else (loffOf o)[o.supno[j]! + 1]! := by
  unfold xlsubL
  rw [List.getElem!_eq_getElem?_getD, List.getElem?_append_left (by simpa using hj), ← List.getElem!_eq_getElem?_getD,
    getElem!_map_of_lt _ _ _ (by simpa using hj)]
  have : (List.range o.n)[j]! = j := by
    rw [List.getElem!_eq_getElem?_getD, List.getElem?_range hj]; rfl
  rw [this]

theorem xl_n (o : Out) : (xlsubL o)[o.n]! = (loffOf o)[o.rows.length]! := by
  unfold xlsubL
  rw [List.getElem!_eq_getElem?_getD, List.getElem?_append_right (by simp)]
  simp

namespace WfOut
variable {o : Out} (h : WfOut o)
include h

theorem xl_at (s j : Nat) (hs : s < o.rows.length) (h1 : o.xsup[s]! ≤ j) (h2 : j < o.xsup[s + 1]!) :
    (xlsubL o)[j]! = if o.xsup[s]! = j then (loffOf o)[s]! else (loffOf o)[s + 1]! := by
  have hjn : j < o.n := by have := h.xsup_le_n (s + 1) (by omega); omega
  rw [xl_in o j hjn, h.supno_of s j hs h1 h2]

theorem xl_bound (s : Nat) (hs : s < o.rows.length) : (xlsubL o)[o.xsup[s + 1]!]! = (loffOf o)[s + 1]! := by
  by_cases hlast : s + 1 < o.rows.length
  · have := h.xl_at (s + 1) (o.xsup[s + 1]!) hlast (Nat.le_refl _) (h.xlt (s + 1) hlast)
    simpa using this
  · have : s + 1 = o.rows.length := by omega
    rw [this, h.xn, xl_n]

omit h in
theorem loff_succ (s : Nat) (hs : s < o.rows.length) : (loffOf o)[s + 1]! = (loffOf o)[s]! + (o.rows[s]!).length := by
  unfold loffOf
  rw [offs_succ 0 _ s (by simpa using hs), getElem!_map_of_lt _ _ _ hs]

end WfOut


/-! ### reading the packed arrays back -/

theorem range_map_self (l : List Nat) : (List.range l.length).map (fun d => l[d]!) = l := by
  apply List.ext_getElem
  · simp
  · intro i h1 h2
    simp only [List.getElem_map, List.getElem_range]
    rw [List.getElem!_eq_getElem?_getD, List.getElem?_eq_getElem h2]; rfl

namespace WfOut
variable {o : Out} (h : WfOut o)
include h

theorem xl_first (s : Nat) (hs : s < o.rows.length) : (xlsubL o)[o.xsup[s]!]! = (loffOf o)[s]! := by
  have := h.xl_at s (o.xsup[s]!) hs (Nat.le_refl _) (h.xlt s hs)
  simpa using this

theorem xl_second (s : Nat) (hs : s < o.rows.length) : (xlsubL o)[o.xsup[s]! + 1]! = (loffOf o)[s + 1]! := by
  have hlt := h.xlt s hs
  by_cases hw : o.xsup[s]! + 1 < o.xsup[s + 1]!
  · have := h.xl_at s (o.xsup[s]! + 1) hs (by omega) hw
    rw [this, if_neg (by omega)]
  · have : o.xsup[s]! + 1 = o.xsup[s + 1]! := by omega
    rw [this, h.xl_bound s hs]

theorem rowsOf_toFac (m s : Nat) (hs : s < o.rows.length) : rowsOf (toFac m o).L s = o.rows[s]! := by
  unfold rowsOf
  simp only [toFac_xsup, toFac_xlsub, toFac_lsub, List.getElem!_toArray]
  rw [h.xl_first s hs, h.xl_second s hs, WfOut.loff_succ s hs, Nat.add_sub_cancel_left]
  conv_rhs => rw [← range_map_self (o.rows[s]!)]
  apply List.map_congr_left
  intro d hd
  exact flatten_get o.rows s d hs (List.mem_range.mp hd)

theorem ucolRows_toFac (m j : Nat) (hj : j < o.n) : ucolRows (toFac m o) j = o.ucols[j]! := by
  have hj' : j < o.ucols.length := by rw [h.ulen]; exact hj
  unfold ucolRows
  simp only [toFac_colptr, toFac_rowind, List.getElem!_toArray]
  unfold ucpL
  rw [offs_succ 0 _ j (by simpa using hj'), getElem!_map_of_lt _ _ _ hj', Nat.add_sub_cancel_left]
  conv_rhs => rw [← range_map_self (o.ucols[j]!)]
  apply List.map_congr_left
  intro d hd
  exact flatten_get o.ucols j d hj' (List.mem_range.mp hd)

end WfOut


/-! ### the packed structure passes the checker -/

theorem nodup_complete : ∀ (l : List Nat), l.Nodup → nodup l = true
  | [], _ => rfl
  | x :: xs, h => by
    have h' := List.nodup_cons.mp h
    simp only [nodup, Bool.and_eq_true, Bool.not_eq_true']
    refine ⟨?_, nodup_complete xs h'.2⟩
    cases hc : xs.contains x with
    | false => rfl
    | true => exact absurd (by simpa using hc) h'.1

theorem widths_get (o : Out) (j : Nat) (hj : j < o.n) : (widthsL o)[j]! = (o.rows[o.supno[j]!]!).length := by
  unfold widthsL
  rw [getElem!_map_of_lt _ _ _ (by simpa using hj)]
  have : (List.range o.n)[j]! = j := by
    rw [List.getElem!_eq_getElem?_getD, List.getElem?_range hj]; rfl
  rw [this]

/-- **packing.**  A predicted structure whose lists satisfy the clauses of C03 and whose rows are `< m`
passes `wfb` once packed into SCformat / NCformat arrays. -/
theorem toFac_wfb (m : Nat) (o : Out) (hn : o.n ≠ 0) (h : WfOut o) (hm : ∀ s < o.rows.length, ∀ r ∈ o.rows[s]!, r < m) :
    wfb (toFac m o) = true := by
  have hpos := h.ns_pos hn
  have hns : o.rows.length - 1 + 1 = o.rows.length := by omega
  simp only [wfb, Bool.or_eq_true, Bool.and_eq_true, decide_eq_true_eq, List.all_eq_true, List.mem_range]
  right
  simp only [toFac_xsup, toFac_supno, toFac_xlsub, toFac_lsub, toFac_xlusup, toFac_colptr, toFac_rowind, toFac_n, toFac_m,
    toFac_nsuper, List.getElem!_toArray, List.size_toArray, toFac_lusup_size, toFac_val_size, hns]
  have hwl : (widthsL o).length = o.n := by simp [widthsL]
  refine ⟨⟨⟨⟨⟨⟨⟨⟨⟨⟨⟨⟨⟨⟨⟨⟨⟨⟨⟨?c1, ?c2⟩, ?c3⟩, ?c4⟩, ?c5⟩, ?c6⟩, ?c7⟩, ?c8⟩, ?c9⟩, ?c10⟩, ?c11⟩, ?c12⟩, ?c13⟩, ?c14⟩, ?c15⟩, ?c16⟩, ?c17⟩, ?c18⟩, ?c19⟩, ?c20⟩
  case c1 => rw [h.xlen]
  case c2 => rw [h.slen]
  case c3 => simp [xlsubL]
  case c4 => rw [offs_length, hwl]
  case c5 => unfold ucpL; rw [offs_length, List.length_map, h.ulen]
  case c6 => exact h.x0
  case c7 => exact h.xn
  case c8 => exact fun s hs => ⟨h.xlt s hs, h.sup s hs⟩
  case c9 =>
    have := h.xl_first 0 hpos
    rw [h.x0] at this
    rw [this]; exact offs_zero _ _
  case c10 => exact offs_zero _ _
  case c11 => exact offs_zero _ _
  case c12 =>
    intro j hj
    refine ⟨⟨?_, offs_mono 0 _ j (by rw [hwl]; exact hj)⟩, offs_mono 0 _ j (by rw [List.length_map, h.ulen]; exact hj)⟩
    obtain ⟨s, hs, h1, h2⟩ := h.find j hj
    have hmono : (loffOf o)[s]! ≤ (loffOf o)[s + 1]! := by rw [WfOut.loff_succ s hs]; omega
    have hnext : (xlsubL o)[j + 1]! = (loffOf o)[s + 1]! := by
      by_cases hin : j + 1 < o.xsup[s + 1]!
      · rw [h.xl_at s (j + 1) hs (by omega) hin, if_neg (by omega)]
      · have : j + 1 = o.xsup[s + 1]! := by omega
        rw [this, h.xl_bound s hs]
    rw [hnext, h.xl_at s j hs h1 h2]
    split <;> omega
  case c13 => rw [xl_n]; exact flatten_length_offs o.rows
  case c14 => trivial
  case c15 => have := flatten_length_offs o.ucols; rw [h.ulen] at this; exact this
  case c16 => trivial
  case c17 =>
    intro s hs
    have hlt := h.xlt s hs
    have hw : o.xsup[s + 1]! - 1 - o.xsup[s]! + 1 = o.xsup[s + 1]! - o.xsup[s]! := by omega
    rw [hw, h.rowsOf_toFac m s hs]
    refine ⟨⟨⟨⟨⟨h.rlen s hs, ?_⟩, h.lead s hs⟩, fun r hrm => ⟨h.below s hs r hrm, hm s hs r (List.mem_of_mem_drop hrm)⟩⟩, nodup_complete _ (h.rnodup s hs)⟩, ?_⟩
    · intro k hk
      rw [h.xl_second s hs, h.xl_at s (o.xsup[s]! + 1 + k) hs (by omega) (by omega), if_neg (by omega)]
    · intro c hc
      have hcn : o.xsup[s]! + c < o.n := by have := h.xsup_le_n (s + 1) (by omega); omega
      rw [offs_succ 0 _ (o.xsup[s]! + c) (by rw [hwl]; exact hcn), Nat.add_sub_cancel_left, widths_get o _ hcn, h.sup s hs c hc]
  case c18 =>
    intro j hj
    rw [h.ucolRows_toFac m j hj]
    exact ⟨h.uabove j hj, Or.inr (nodup_complete _ (h.unodup j hj))⟩
  case c19 => rfl
  case c20 => rfl


/-! ### `symbNaive` always predicts a well-formed structure -/

theorem symbNaive_n (n maxsuper : Nat) (cols : Nat → List Nat) (relaxEnd : Nat → Option Nat) :
    (symbNaive n maxsuper cols relaxEnd).n = n := rfl

/-- for EVERY input the predicted lists satisfy the clauses of C03 (only "rows `< m`" needs the input's
rows to be `< m`) -/
theorem symbNaive_wfOut (n maxsuper : Nat) (cols : Nat → List Nat) (relaxEnd : Nat → Option Nat) :
    WfOut (symbNaive n maxsuper cols relaxEnd) := by
  obtain ⟨p1, p2, p3, p4, p5, p6, p7⟩ := symbNaive_partition_list n maxsuper cols relaxEnd
  have hr := symbNaive_rows_list n maxsuper cols relaxEnd
  have hu := symbNaive_ucols_list n maxsuper cols relaxEnd
  exact {
    xlen := p1, slen := p2, ulen := p3, x0 := p4, xn := p5, xlt := p6, sup := p7
    rlen := fun s hs => (hr s hs).1
    lead := fun s hs => (hr s hs).2.1
    below := fun s hs => (hr s hs).2.2.1
    rnodup := fun s hs => (hr s hs).2.2.2
    uabove := fun j hj => (hu j hj).1
    unodup := fun j hj => ((hu j hj).2).imp (fun hab => Nat.ne_of_lt hab) }

/-- **C03, the model.**  For every pattern with row indices `< m`, `n ≤ m` columns, every `relax_end`
function and every `maxsuper`, the structure `symbNaive` predicts, packed into SCformat / NCformat
arrays, satisfies every clause of C03 (`wfb`). -/
theorem symbNaive_wfb (m n maxsuper : Nat) (cols : Nat → List Nat) (relaxEnd : Nat → Option Nat) (hnm : n ≤ m)
    (hcols : ∀ j < n, ∀ r ∈ cols j, r < m) : wfb (toFac m (symbNaive n maxsuper cols relaxEnd)) = true := by
  by_cases hn : n = 0
  · subst hn
    simp [wfb, toFac_n, symbNaive_n]
  · exact toFac_wfb m _ (by rw [symbNaive_n]; exact hn) (symbNaive_wfOut n maxsuper cols relaxEnd)
      (symbNaive_rows_lt m n maxsuper cols relaxEnd hnm hcols)

end Slu.Symb
