import Slu.Model.Order
import SluProofs.Lemmas.Order
import SluProofs.Lemmas.Relax
import Mathlib.Data.Finset.Card
import Mathlib.Order.Interval.Finset.Nat
/-
Lemmas for `heapRelaxSnode_ranges` (C10): heap_relax_snode.c on ANY heap-ordered forest.

The routine numbers the forest in postorder (`q = TreePostorder`, `iv = inv_post`), relabels it (`et'`), runs
the loop of relax_snode on `et'` — so it finds, exactly as `relaxLoop_inv2` shows, the maximal subtrees of
`et'` with fewer than `relax` proper descendants, each a block `j..last` of postorder labels — and translates
every block back to the caller's labels: the images `iv j .. iv last` are the vertices of the subtree of
`iv last` in the caller's forest.  `iv last` is their maximum (heap order), `k` their minimum; they are
`last - j + 1` distinct numbers in `k..iv last`, so `iv last - k = last - j` iff they fill the interval
(`interval_of_card`).  In that case `relax_end[k] = iv last` is recorded, otherwise every leaf of the block
is recorded as a supernode of one column.
-/
namespace Slu.Order
open Finset

/-! ### small facts -/

/-- in a heap-ordered forest a descendant has the smaller index -/
theorem desc_le_of_heap {n : Nat} {et : Array Nat} (h : Heap n et) {u v : Nat} (hd : Desc n et u v) : u ≤ v := by
  induction hd with
  | refl v => exact Nat.le_refl _
  | step hu _ ih => have := (h.lt hu).1; omega

/-- a subtree that occupies the columns `s..e` has `e - s + 1` vertices -/
theorem order_length_of_block {n : Nat} {et : Array Nat} (h : Heap n et) {s e : Nat} (he : e < n)
    (hsub : ∀ u, u < n → (Desc n et u e ↔ s ≤ u ∧ u ≤ e)) : (order et e).length = e - s + 1 := by
  have hse : s ≤ e := ((hsub e he).mp (Desc.refl e)).1
  have hperm : (order et e).Perm (List.range' s (e - s + 1)) := by
    rw [List.perm_ext_iff_of_nodup (nodup_order et e) (List.nodup_range' (step := 1) (by omega))]
    intro u
    rw [List.mem_range'_1]
    constructor
    · intro hu
      have hd := desc_of_mem_order (n := n) (Nat.le_of_lt he) hu
      have := (hsub u (desc_lt_n hd he)).mp hd
      omega
    · rintro ⟨a, b⟩
      exact mem_order_of_desc h ((hsub u (by omega)).mpr ⟨a, by omega⟩)
  rw [hperm.length_eq, List.length_range']

/-- **pigeonhole on intervals.**  An injective map of the block `a..b` into the interval `k..l` needs
`b - a ≤ l - k`, and when the two lengths agree it is onto: the image is the whole interval. -/
theorem interval_of_card {f : Nat → Nat} {a b k l : Nat} (hab : a ≤ b)
    (hinj : ∀ i, a ≤ i → i ≤ b → ∀ i', a ≤ i' → i' ≤ b → f i = f i' → i = i')
    (hrange : ∀ i, a ≤ i → i ≤ b → k ≤ f i ∧ f i ≤ l) :
    b - a ≤ l - k ∧ (l - k = b - a → ∀ u, k ≤ u → u ≤ l → ∃ i, a ≤ i ∧ i ≤ b ∧ f i = u) := by
  have hsub : (Icc a b).image f ⊆ Icc k l := by
    intro x hx
    obtain ⟨i, hi, rfl⟩ := Finset.mem_image.mp hx
    obtain ⟨h1, h2⟩ := Finset.mem_Icc.mp hi
    exact Finset.mem_Icc.mpr (hrange i h1 h2)
  have hcard : ((Icc a b).image f).card = b + 1 - a := by
    rw [Finset.card_image_of_injOn, Nat.card_Icc]
    intro x hx y hy e
    have hx' := Finset.mem_Icc.mp (Finset.mem_coe.mp hx)
    have hy' := Finset.mem_Icc.mp (Finset.mem_coe.mp hy)
    exact hinj x hx'.1 hx'.2 y hy'.1 hy'.2 e
  have hkl : k ≤ l := by have := hrange a (Nat.le_refl _) hab; omega
  have hle := Finset.card_le_card hsub
  rw [hcard, Nat.card_Icc] at hle
  refine ⟨by omega, fun heq u hu1 hu2 => ?_⟩
  have hEq : (Icc a b).image f = Icc k l := by
    apply Finset.eq_of_subset_of_card_le hsub
    rw [hcard, Nat.card_Icc]; omega
  have hu : u ∈ (Icc a b).image f := by rw [hEq]; exact Finset.mem_Icc.mpr ⟨hu1, hu2⟩
  obtain ⟨i, hi, e⟩ := Finset.mem_image.mp hu
  obtain ⟨h1, h2⟩ := Finset.mem_Icc.mp hi
  exact ⟨i, h1, h2, e⟩

/-- the converse: if the image of the block is the whole interval, the lengths agree -/
theorem card_of_interval {f : Nat → Nat} {a b k l : Nat} (hab : a ≤ b)
    (hinj : ∀ i, a ≤ i → i ≤ b → ∀ i', a ≤ i' → i' ≤ b → f i = f i' → i = i')
    (hrange : ∀ i, a ≤ i → i ≤ b → k ≤ f i ∧ f i ≤ l)
    (honto : ∀ u, k ≤ u → u ≤ l → ∃ i, a ≤ i ∧ i ≤ b ∧ f i = u) : l - k = b - a := by
  have hkl : k ≤ l := by have := hrange a (Nat.le_refl _) hab; omega
  have hEq : (Icc a b).image f = Icc k l := by
    apply Finset.Subset.antisymm
    · intro x hx
      obtain ⟨i, hi, rfl⟩ := Finset.mem_image.mp hx
      obtain ⟨h1, h2⟩ := Finset.mem_Icc.mp hi
      exact Finset.mem_Icc.mpr (hrange i h1 h2)
    · intro u hu
      obtain ⟨h1, h2⟩ := Finset.mem_Icc.mp hu
      obtain ⟨i, g1, g2, e⟩ := honto u h1 h2
      exact Finset.mem_image.mpr ⟨i, Finset.mem_Icc.mpr ⟨g1, g2⟩, e⟩
  have hcard : ((Icc a b).image f).card = b + 1 - a := by
    rw [Finset.card_image_of_injOn, Nat.card_Icc]
    intro x hx y hy e
    have hx' := Finset.mem_Icc.mp (Finset.mem_coe.mp hx)
    have hy' := Finset.mem_Icc.mp (Finset.mem_coe.mp hy)
    exact hinj x hx'.1 hx'.2 y hy'.1 hy'.2 e
  rw [hEq, Nat.card_Icc] at hcard
  omega

/-- members of the list `snode_start .. last` -/
theorem mem_blk {j last i : Nat} (h : j ≤ last) :
    i ∈ (List.range (last + 1 - j)).map (· + j) ↔ j ≤ i ∧ i ≤ last := by
  rw [List.mem_map]
  constructor
  · rintro ⟨a, ha, rfl⟩
    have := List.mem_range.mp ha
    omega
  · rintro ⟨h1, h2⟩
    exact ⟨i - j, List.mem_range.mpr (by omega), by omega⟩

/-- `k = n; for i in L: k = min(k, f i)` -/
theorem minFold_spec (f : Nat → Nat) (L : List Nat) (init : Nat) :
    L.foldl (fun k i => if f i < k then f i else k) init ≤ init ∧
    (∀ i ∈ L, L.foldl (fun k i => if f i < k then f i else k) init ≤ f i) ∧
    (L.foldl (fun k i => if f i < k then f i else k) init = init ∨
      ∃ i ∈ L, L.foldl (fun k i => if f i < k then f i else k) init = f i) := by
  induction L generalizing init with
  | nil => exact ⟨Nat.le_refl _, fun i hi => absurd hi (by simp), Or.inl rfl⟩
  | cons a L ih =>
    simp only [List.foldl_cons]
    obtain ⟨h1, h2, h3⟩ := ih (if f a < init then f a else init)
    have hm : (if f a < init then f a else init) ≤ init ∧ (if f a < init then f a else init) ≤ f a := by
      split <;> omega
    refine ⟨by omega, ?_, ?_⟩
    · intro i hi
      rcases List.mem_cons.mp hi with rfl | hi
      · omega
      · exact h2 i hi
    · rcases h3 with h3 | ⟨i, hi, h3⟩
      · by_cases c : f a < init
        · rw [if_pos c] at h3 ⊢
          exact Or.inr ⟨a, List.mem_cons_self, h3⟩
        · rw [if_neg c] at h3 ⊢
          exact Or.inl h3
      · exact Or.inr ⟨i, List.mem_cons_of_mem _ hi, h3⟩

/-- `for i in L: if p i then re[f i] = f i` keeps the size … -/
theorem leafFold_size (p : Nat → Bool) (f : Nat → Nat) (L : List Nat) (re : Array Int) :
    (L.foldl (fun re i => if p i = true then re.setIfInBounds (f i) (Int.ofNat (f i)) else re) re).size = re.size := by
  induction L generalizing re with
  | nil => rfl
  | cons a L ih =>
    simp only [List.foldl_cons]
    rw [ih]
    split
    · simp
    · rfl

/-- … leaves alone every position that is not `f i` for an `i` with `p i` … -/
theorem leafFold_miss (p : Nat → Bool) (f : Nat → Nat) (L : List Nat) (re : Array Int) (s : Nat)
    (hno : ¬ ∃ i ∈ L, p i = true ∧ f i = s) :
    (L.foldl (fun re i => if p i = true then re.setIfInBounds (f i) (Int.ofNat (f i)) else re) re).getD s (-1) =
      re.getD s (-1) := by
  induction L generalizing re with
  | nil => rfl
  | cons b L ih =>
    simp only [List.foldl_cons]
    rw [ih _ (fun ⟨i, hi, h⟩ => hno ⟨i, List.mem_cons_of_mem _ hi, h⟩)]
    split
    · rename_i hb
      rw [getD_setIfInBounds', if_neg]
      rintro ⟨e, _⟩
      exact hno ⟨b, List.mem_cons_self, hb, e.symm⟩
    · rfl

/-- … and writes `s` at every position `s = f i` with `p i` -/
theorem leafFold_hit (p : Nat → Bool) (f : Nat → Nat) (L : List Nat) (re : Array Int) (s : Nat)
    (hs : s < re.size) (h : ∃ i ∈ L, p i = true ∧ f i = s) :
    (L.foldl (fun re i => if p i = true then re.setIfInBounds (f i) (Int.ofNat (f i)) else re) re).getD s (-1) =
      Int.ofNat s := by
  induction L generalizing re with
  | nil => obtain ⟨i, hi, _⟩ := h; exact absurd hi (by simp)
  | cons a L ih =>
    simp only [List.foldl_cons]
    by_cases hL : ∃ i ∈ L, p i = true ∧ f i = s
    · apply ih _ _ hL
      split
      · simpa using hs
      · exact hs
    · obtain ⟨i, hi, hp, hf⟩ := h
      rcases List.mem_cons.mp hi with rfl | hi
      · rw [if_pos hp, leafFold_miss p f L _ s hL, getD_setIfInBounds', hf, if_pos ⟨rfl, hs⟩]
      · exact absurd ⟨i, hi, hp, hf⟩ hL

/-! ### one round of the loop, seen in postorder labels -/

/-- **one round of the relax_snode loop on a postordered forest** (the part of `relaxLoop_inv2` that does not
mention `relax_end`).  Started at a leaf `j` below which every straddling subtree is big (`Blocked`), the climb
ends at `last` with `lo last = j` (the block `j..last` is the subtree of `last`), that subtree is small when it
has more than one vertex and is maximal (`last` is a root or its parent has `≥ relax` proper descendants), the
search finds the next leaf `nxt > last`, nothing between `last` and `nxt` is a leaf, and the loop state is
re-established at `nxt`. -/
theorem relax_round {n relax : Nat} {et desc : Array Nat} {lo : Nat → Nat} (h : Heap n et) (hp : PostBy n et lo)
    (hdesc : ∀ v, v < n → desc.getD v 0 = v - lo v) (j : Nat) (hj : j < n) (hK : Blocked n relax lo j)
    (hleaf : lo j = j) (last nxt : Nat) (hlast : climb n relax et desc n j = last)
    (hnx : ((List.range n).find? fun k => decide (k > last) && desc.getD k 0 == 0).getD n = nxt) :
    lo last = j ∧ last < n ∧ j ≤ last ∧ (j < last → desc.getD last 0 < relax) ∧ last < nxt ∧ nxt ≤ n ∧
    Blocked n relax lo nxt ∧ (nxt < n → lo nxt = nxt) ∧ (∀ k, last < k → k < nxt → k < n → lo k ≠ k) ∧
    (et.getD last 0 = n ∨ relax ≤ desc.getD (et.getD last 0) 0) := by
  obtain ⟨c1, c2, c3, c4⟩ := climb_post h hp hdesc j hK n j hj hleaf (Nat.le_refl _)
  have hstop := c4 (by omega)
  rw [hlast] at c1 c2 c3 hstop
  obtain ⟨f1, f2, f3⟩ := find_range_spec n (fun k => decide (k > last) && desc.getD k 0 == 0)
  rw [hnx] at f1 f2 f3
  have hnxt : last < nxt := by
    by_cases hc : nxt < n
    · have := f2 hc
      simp only [Bool.and_eq_true, decide_eq_true_eq] at this
      exact this.1
    · omega
  have hnoleaf : ∀ k, last < k → k < nxt → k < n → lo k ≠ k := by
    intro k hk1 hk2 hkn hlk
    have := f3 k hk2
    have hd0 : desc.getD k 0 = 0 := by rw [hdesc k hkn, hlk]; omega
    simp [hk1, hd0] at this
  refine ⟨c1, c2, c3, ?_, hnxt, f1, ?_, ?_, hnoleaf, hstop⟩
  · intro hlt
    rcases climb_spec (n := n) (relax := relax) (et := et) (desc := desc) n j with e | e
    · rw [hlast] at e; omega
    · rw [hlast] at e; exact e
  · intro v hv hlv hvn
    by_cases hlj : lo v < j
    · exact hK v hv hlj (by omega)
    · have hl := hp.lo_le v hv
      have han : lo v < n := by omega
      have haleaf := hp.lo_leaf v hv
      have hale : lo v ≤ last := by
        by_contra hgt
        exact hnoleaf (lo v) (by omega) hlv han haleaf
      have hdl : Desc n et last v := (hp v hv last c2).mpr ⟨hale, by omega⟩
      cases hdl with
      | refl _ => omega
      | step hl' hq =>
        have hqn : et.getD last 0 < n := by
          cases hq with
          | refl _ => exact hv
          | step hq' _ => exact hq'
        have hm := hp.lo_mono hv hq
        rcases hstop with e | e
        · omega
        · rw [hdesc _ hqn] at e
          omega
  · intro hnn
    have := f2 hnn
    simp only [Bool.and_eq_true, decide_eq_true_eq, beq_iff_eq] at this
    have hl := hp.lo_le nxt hnn
    rw [hdesc nxt hnn] at this
    omega

/-! ### the setting of heap_relax_snode -/

/-- what heap_relax_snode sets up before its main loop: `q` = the postorder of the caller's forest `et`,
`iv` = its inverse (`inv_post`), `et'` = the forest renumbered in postorder labels, in which the subtree of
every `v` is the block `lo v .. v` -/
structure HeapCtx (n : Nat) (et et' : Array Nat) (q iv lo : Nat → Nat) : Prop where
  heap : Heap n et
  heap' : Heap n et'
  post : PostBy n et' lo
  qlt : ∀ j, j < n → q j < n
  qn : q n = n
  rel : ∀ j, j < n → et'.getD (q j) 0 = q (et.getD j 0)
  ivlt : ∀ i, i < n → iv i < n
  qiv : ∀ i, i < n → q (iv i) = i
  ivq : ∀ j, j < n → iv (q j) = j
  desc_iff : ∀ u v, u < n → v < n → (Desc n et' (q u) (q v) ↔ Desc n et u v)

/-- a descendant in the caller's forest has its postorder number inside the block of its ancestor -/
theorem HeapCtx.q_block {n : Nat} {et et' : Array Nat} {q iv lo : Nat → Nat} (C : HeapCtx n et et' q iv lo)
    {u v : Nat} (hu : u < n) (hv : v < n) : Desc n et u v ↔ lo (q v) ≤ q u ∧ q u ≤ q v := by
  rw [← C.desc_iff u v hu hv]
  exact C.post (q v) (C.qlt v hv) (q u) (C.qlt u hu)

/-- the block `lo i .. i` of postorder labels, read in the caller's labels, is the subtree of `iv i` -/
theorem HeapCtx.iv_block {n : Nat} {et et' : Array Nat} {q iv lo : Nat → Nat} (C : HeapCtx n et et' q iv lo)
    {u i : Nat} (hu : u < n) (hi : i < n) : Desc n et u (iv i) ↔ lo i ≤ q u ∧ q u ≤ i := by
  have := C.q_block hu (C.ivlt i hi)
  rwa [C.qiv i hi] at this

/-- state of the main loop of heap_relax_snode at the leaf `j` (a postorder label); `relax_end` is indexed by
the caller's labels: nothing is recorded at a vertex numbered `≥ j`; every recorded range `s..e` is the whole
subtree of `e` in the caller's forest, lies entirely before `j` in postorder, is small and — when it has more
than one column — maximal, and contains no other recorded start; every leaf numbered before `j` lies in a
recorded range; every maximal small subtree whose root is numbered before `j` and whose vertices are
consecutive columns `s..e` of the caller is recorded, `relax_end[s] = e` -/
def HeapInv (n relax : Nat) (et et' desc : Array Nat) (q iv lo : Nat → Nat) (j : Nat) (re : Array Int) : Prop :=
  re.size = n ∧ (∀ s, s < n → j ≤ q s → re.getD s (-1) = -1) ∧
  (∀ s, s < n → re.getD s (-1) = -1 ∨
    ∃ e : Nat, re.getD s (-1) = Int.ofNat e ∧ s ≤ e ∧ e < n ∧ q e < j ∧
      (∀ u, u < n → (Desc n et u e ↔ s ≤ u ∧ u ≤ e)) ∧ (s < e → e - s < relax) ∧
      (s < e → et'.getD (q e) 0 = n ∨ relax ≤ desc.getD (et'.getD (q e) 0) 0) ∧
      ∀ t, s < t → t ≤ e → re.getD t (-1) = -1) ∧
  Blocked n relax lo j ∧ (j < n → lo j = j) ∧
  (∀ k, k < n → q k < j → lo (q k) = q k → ∃ s e : Nat, s ≤ k ∧ k ≤ e ∧ re.getD s (-1) = Int.ofNat e) ∧
  (∀ i, i < n → i < j → (lo i = i ∨ desc.getD i 0 < relax) →
    (et'.getD i 0 = n ∨ relax ≤ desc.getD (et'.getD i 0) 0) →
    ∀ s, (∀ u, u < n → (Desc n et u (iv i) ↔ s ≤ u ∧ u ≤ iv i)) → re.getD s (-1) = Int.ofNat (iv i))

theorem heapRelaxLoop_inv {n relax : Nat} {et et' desc invp : Array Nat} {q iv lo : Nat → Nat}
    (C : HeapCtx n et et' q iv lo) (hiv : ∀ i, invp.getD i 0 = iv i)
    (hdesc : ∀ v, v < n → desc.getD v 0 = v - lo v) (fuel j : Nat) (re : Array Int)
    (hinv : HeapInv n relax et et' desc q iv lo j re) (hfuel : n + 1 ≤ fuel + j) :
    ∃ j', n ≤ j' ∧ HeapInv n relax et et' desc q iv lo j' (heapRelaxLoop n relax et' desc invp fuel j re) := by
  induction fuel generalizing j re with
  | zero => exact ⟨j, by omega, hinv⟩
  | succ f ih =>
    unfold heapRelaxLoop
    simp only
    split
    · rename_i hjn; exact ⟨j, hjn, hinv⟩
    · rename_i hjn
      have hj : j < n := by omega
      obtain ⟨hs, hhi, hlo, hK, hleaf, hcov, htops⟩ := hinv
      generalize hlast : climb n relax et' desc n j = last
      generalize hnx : ((List.range n).find? fun k => decide (k > last) && desc.getD k 0 == 0).getD n = nxt
      obtain ⟨r1, r2, r3, r4, r5, r6, r7, r8, r9, r10⟩ :=
        relax_round C.heap' C.post hdesc j hj hK (hleaf hj) last nxt hlast hnx
      simp only [hiv]
      apply ih nxt _ _ (by omega)
      -- the block `j..last` and its image under `iv`
      have hblk : ∀ i, i ∈ (List.range (last + 1 - j)).map (· + j) ↔ j ≤ i ∧ i ≤ last := fun i => mem_blk r3
      have hsub : ∀ u, u < n → (Desc n et u (iv last) ↔ j ≤ q u ∧ q u ≤ last) := by
        intro u hu
        have := C.iv_block hu r2
        rwa [r1] at this
      have hin : ∀ i, j ≤ i → i ≤ last → iv i < n ∧ q (iv i) = i ∧ Desc n et (iv i) (iv last) := by
        intro i h1 h2
        have hi : i < n := by omega
        refine ⟨C.ivlt i hi, C.qiv i hi, (hsub _ (C.ivlt i hi)).mpr ?_⟩
        rw [C.qiv i hi]; exact ⟨h1, h2⟩
      -- an old range never contains a vertex of the block
      have hold : ∀ s e t, e < n → q e < j → (∀ u, u < n → (Desc n et u e ↔ s ≤ u ∧ u ≤ e)) →
          s ≤ t → t ≤ e → q t < j := by
        intro s e t he hqe hsube h1 h2
        have ht : t < n := by omega
        have := (C.q_block ht he).mp ((hsube t ht).mpr ⟨h1, h2⟩)
        omega
      -- `last` is the only root of a maximal small subtree among the labels `j .. nxt-1`
      have htop : ∀ i, i < n → j ≤ i → i < nxt → (lo i = i ∨ desc.getD i 0 < relax) →
          (et'.getD i 0 = n ∨ relax ≤ desc.getD (et'.getD i 0) 0) → i = last := by
        intro i hi hji hinx hsm hbig
        by_contra hne
        by_cases hil : i ≤ last
        · have hdl : Desc n et' i last := (C.post last r2 i hi).mpr ⟨by omega, hil⟩
          cases hdl with
          | refl _ => exact hne rfl
          | step _ hq =>
            have hpn := desc_lt_n hq r2
            have hm := C.post.lo_mono r2 hq
            have h4 := r4 (by omega)
            rw [hdesc last r2] at h4
            rcases hbig with e | e
            · omega
            · rw [hdesc _ hpn] at e; omega
        · have hli : lo i ≠ i := r9 i (by omega) hinx hi
          have hl := C.post.lo_le i hi
          have hsm' : desc.getD i 0 < relax := by
            rcases hsm with e | e
            · exact absurd e hli
            · exact e
          rw [hdesc i hi] at hsm'
          have hll : lo i ≤ last := by
            by_contra hgt
            exact r9 (lo i) (by omega) (by omega) (by omega) (C.post.lo_leaf i hi)
          have hdl : Desc n et' last i := (C.post i hi last r2).mpr ⟨hll, by omega⟩
          cases hdl with
          | refl _ => omega
          | step _ hq =>
            have hpn := desc_lt_n hq hi
            have hm := C.post.lo_mono hi hq
            rcases r10 with e | e
            · omega
            · rw [hdesc _ hpn] at e; omega
      -- the minimum `k` of the images
      obtain ⟨m1, m2, m3⟩ := minFold_spec iv ((List.range (last + 1 - j)).map (· + j)) n
      generalize hk : ((List.range (last + 1 - j)).map (· + j)).foldl (fun k i => if iv i < k then iv i else k) n = k
        at m1 m2 m3 ⊢
      have hkj := m2 j ((hblk j).mpr ⟨Nat.le_refl _, r3⟩)
      have hjn' := (hin j (Nat.le_refl _) r3).1
      obtain ⟨i0, hi0, hki0⟩ : ∃ i ∈ (List.range (last + 1 - j)).map (· + j), k = iv i := by
        rcases m3 with e | h
        · omega
        · exact h
      obtain ⟨i01, i02⟩ := (hblk i0).mp hi0
      obtain ⟨k1, k2, k3⟩ := hin i0 i01 i02
      rw [← hki0] at k1 k2 k3
      have hrange : ∀ i, j ≤ i → i ≤ last → k ≤ iv i ∧ iv i ≤ iv last := fun i h1 h2 =>
        ⟨m2 i ((hblk i).mpr ⟨h1, h2⟩), desc_le_of_heap C.heap (hin i h1 h2).2.2⟩
      have hinj : ∀ i, j ≤ i → i ≤ last → ∀ i', j ≤ i' → i' ≤ last → iv i = iv i' → i = i' := by
        intro i h1 h2 i' h1' h2' e
        have := (hin i h1 h2).2.1
        rw [e, (hin i' h1' h2').2.1] at this
        exact this.symm
      have hl := hin last r3 (Nat.le_refl _)
      have hkl : k ≤ iv last := (hrange last r3 (Nat.le_refl _)).1
      have hrek : re.getD k (-1) = -1 := hhi k k1 (by omega)
      -- if the subtree of `iv last` is an interval `s .. iv last`, then `s = k` and the test succeeds
      have hcontig : ∀ s, (∀ u, u < n → (Desc n et u (iv last) ↔ s ≤ u ∧ u ≤ iv last)) →
          s = k ∧ iv last - k = last - j := by
        intro s hsubs
        have hsk : s ≤ k := ((hsubs k k1).mp k3).1
        have hsl : s ≤ iv last := ((hsubs _ hl.1).mp (Desc.refl _)).1
        have hks : k ≤ s := by
          obtain ⟨a, b⟩ := (hsub s (by omega)).mp ((hsubs s (by omega)).mpr ⟨Nat.le_refl _, hsl⟩)
          have := (hrange (q s) a b).1
          rwa [C.ivq s (by omega)] at this
        have hsk' : s = k := by omega
        refine ⟨hsk', card_of_interval (f := iv) r3 hinj hrange ?_⟩
        intro u hu1 hu2
        have hun : u < n := by omega
        obtain ⟨a, b⟩ := (hsub u hun).mp ((hsubs u hun).mpr ⟨by omega, hu2⟩)
        exact ⟨q u, a, b, C.ivq u hun⟩
      split
      · -- the subtree occupies consecutive columns of the caller: one supernode `k .. iv last`
        rename_i heq
        obtain ⟨_, honto⟩ := interval_of_card (f := iv) r3 hinj hrange
        have honto := honto heq
        have hke : ∀ u, u < n → (Desc n et u (iv last) ↔ k ≤ u ∧ u ≤ iv last) := by
          intro u hu
          constructor
          · intro hd
            obtain ⟨a, b⟩ := (hsub u hu).mp hd
            have := hrange (q u) a b
            rwa [C.ivq u hu] at this
          · rintro ⟨a, b⟩
            obtain ⟨i, h1, h2, e⟩ := honto u a b
            rw [← e]; exact (hin i h1 h2).2.2
        refine ⟨by simpa using hs, ?_, ?_, r7, r8, ?_, ?_⟩
        · intro s hsn hqs
          rw [getD_setIfInBounds', if_neg (fun c => by rw [c.1] at hqs; omega)]
          exact hhi s hsn (by omega)
        · intro s hsn
          rw [getD_setIfInBounds']
          by_cases e : s = k
          · subst e
            right
            refine ⟨iv last, by simp [hs, hsn], hkl, hl.1, by omega, hke, ?_, ?_, ?_⟩
            · intro hlt
              have := r4 (by omega)
              rw [hdesc last r2, r1] at this
              omega
            · intro _
              rw [hl.2.1]; exact r10
            · intro t ht1 ht2
              rw [getD_setIfInBounds', if_neg (by omega)]
              have htn : t < n := by omega
              exact hhi t htn ((hsub t htn).mp ((hke t htn).mpr ⟨by omega, ht2⟩)).1
          · rw [if_neg (fun c => e c.1)]
            rcases hlo s hsn with h1 | ⟨e', he1, he2, he3, he4, he5, he6, he6', he7⟩
            · exact Or.inl h1
            · right
              refine ⟨e', he1, he2, he3, by omega, he5, he6, he6', ?_⟩
              intro t ht1 ht2
              rw [getD_setIfInBounds']
              have := hold s e' t he3 he4 he5 (by omega) ht2
              rw [if_neg (fun c => by rw [c.1] at this; omega)]
              exact he7 t ht1 ht2
        · intro k' hk'n hqk hlk
          by_cases hkj' : q k' < j
          · obtain ⟨s, e, a, b, c⟩ := hcov k' hk'n hkj' hlk
            refine ⟨s, e, a, b, ?_⟩
            rw [getD_setIfInBounds', if_neg]
            · exact c
            · rintro ⟨c1, _⟩
              rw [c1, hrek] at c
              exact absurd c (by simp)
          · by_cases hkl' : q k' ≤ last
            · obtain ⟨a, b⟩ := (hke k' hk'n).mp ((hsub k' hk'n).mpr ⟨by omega, hkl'⟩)
              refine ⟨k, iv last, a, b, ?_⟩
              rw [getD_setIfInBounds', if_pos ⟨rfl, by omega⟩]
            · exact absurd hlk (r9 (q k') (by omega) hqk (C.qlt k' hk'n))
        · intro i hi hinx hsm hbig s hsubs
          by_cases hij : i < j
          · have c := htops i hi hij hsm hbig s hsubs
            rw [getD_setIfInBounds', if_neg]
            · exact c
            · rintro ⟨c1, _⟩
              rw [c1, hrek] at c
              exact absurd c (by simp)
          · have := htop i hi (by omega) hinx hsm hbig
            subst this
            obtain ⟨hsk, _⟩ := hcontig s hsubs
            rw [hsk, getD_setIfInBounds', if_pos ⟨rfl, by omega⟩]
      · -- not consecutive: every leaf of the block becomes a supernode of one column
        rename_i hne
        have hnew : ∀ s, (∃ i ∈ (List.range (last + 1 - j)).map (· + j), (desc.getD i 0 == 0) = true ∧ iv i = s) →
            s < n ∧ j ≤ q s ∧ q s ≤ last ∧ lo (q s) = q s := by
          rintro s ⟨i, hi, hp, rfl⟩
          obtain ⟨h1, h2⟩ := (hblk i).mp hi
          obtain ⟨a, b, _⟩ := hin i h1 h2
          have hi' : i < n := by omega
          have hd0 : desc.getD i 0 = 0 := by simpa using hp
          rw [hdesc i hi'] at hd0
          have := C.post.lo_le i hi'
          rw [b]
          exact ⟨a, h1, h2, by omega⟩
        have hsz := leafFold_size (fun i => desc.getD i 0 == 0) iv ((List.range (last + 1 - j)).map (· + j)) re
        have hhit := leafFold_hit (fun i => desc.getD i 0 == 0) iv ((List.range (last + 1 - j)).map (· + j)) re
        have hmiss := leafFold_miss (fun i => desc.getD i 0 == 0) iv ((List.range (last + 1 - j)).map (· + j)) re
        refine ⟨by rw [hsz]; exact hs, ?_, ?_, r7, r8, ?_, ?_⟩
        · intro s hsn hqs
          rw [hmiss s (fun c => by have := hnew s c; omega)]
          exact hhi s hsn (by omega)
        · intro s hsn
          by_cases hn : ∃ i ∈ (List.range (last + 1 - j)).map (· + j), (desc.getD i 0 == 0) = true ∧ iv i = s
          · right
            obtain ⟨_, n1, n2, n3⟩ := hnew s hn
            refine ⟨s, hhit s (by omega) hn, Nat.le_refl _, hsn, by omega, ?_, fun c => by omega,
              fun c => by omega, fun t a b => by omega⟩
            intro u hu
            rw [C.q_block hu hsn, n3]
            constructor
            · intro hq
              have : q u = q s := by omega
              have := congrArg iv this
              rw [C.ivq u hu, C.ivq s hsn] at this
              omega
            · rintro ⟨a, b⟩
              have : u = s := by omega
              subst this
              exact ⟨Nat.le_refl _, Nat.le_refl _⟩
          · rw [hmiss s hn]
            rcases hlo s hsn with h1 | ⟨e', he1, he2, he3, he4, he5, he6, he6', he7⟩
            · exact Or.inl h1
            · right
              refine ⟨e', he1, he2, he3, by omega, he5, he6, he6', ?_⟩
              intro t ht1 ht2
              have := hold s e' t he3 he4 he5 (by omega) ht2
              rw [hmiss t (fun c => by have := hnew t c; omega)]
              exact he7 t ht1 ht2
        · intro k' hk'n hqk hlk
          by_cases hkj' : q k' < j
          · obtain ⟨s, e, a, b, c⟩ := hcov k' hk'n hkj' hlk
            refine ⟨s, e, a, b, ?_⟩
            rw [hmiss s]
            · exact c
            · intro hc
              obtain ⟨n0, n1, _, _⟩ := hnew s hc
              rw [hhi s n0 n1] at c
              exact absurd c (by simp)
          · by_cases hkl' : q k' ≤ last
            · refine ⟨k', k', Nat.le_refl _, Nat.le_refl _, hhit k' (by omega) ?_⟩
              refine ⟨q k', (hblk _).mpr ⟨by omega, hkl'⟩, ?_, C.ivq k' hk'n⟩
              rw [hdesc _ (C.qlt k' hk'n), hlk]
              simp
            · exact absurd hlk (r9 (q k') (by omega) hqk (C.qlt k' hk'n))
        · intro i hi hinx hsm hbig s hsubs
          by_cases hij : i < j
          · have c := htops i hi hij hsm hbig s hsubs
            rw [hmiss s]
            · exact c
            · intro hc
              obtain ⟨n0, n1, _, _⟩ := hnew s hc
              rw [hhi s n0 n1] at c
              exact absurd c (by simp)
          · have := htop i hi (by omega) hinx hsm hbig
            subst this
            exact absurd (hcontig s hsubs).2 hne

/-! ### the setting holds for every heap-ordered forest -/

/-- **the postorder, its inverse and the relabelled forest** computed by the first three loops of
heap_relax_snode form the setting `HeapCtx`, whatever the heap-ordered forest -/
theorem heapCtx_of_heap {n : Nat} {et : Array Nat} (h : Heap n et) :
    ∃ lo : Nat → Nat, HeapCtx n et
      (firstN n (scatter n (fun j => (treePostorder n et).getD j 0)
        (fun i => (treePostorder n et).getD (et.getD i 0) 0) (Array.replicate (n + 1) 0)))
      (fun j => (treePostorder n et).getD j 0)
      (fun i => (scatter (n + 1) (fun j => (treePostorder n et).getD j 0) id (Array.replicate (n + 1) 0)).getD i 0)
      lo := by
  generalize hq : (fun j => (treePostorder n et).getD j 0) = q
  have hqv : ∀ j, (treePostorder n et).getD j 0 = q j := fun j => by rw [← hq]
  simp only [hqv]
  generalize het' : firstN n (scatter n q (fun i => q (et.getD i 0)) (Array.replicate (n + 1) 0)) = et'
  have hqn : q n = n := by rw [← hqv]; exact post_root h
  have hinj : ∀ a ≤ n, ∀ b ≤ n, q a = q b → a = b := by
    intro a ha b hb e; rw [← hqv, ← hqv] at e; exact post_inj h a b ha hb e
  have hqlt : ∀ j, j < n → q j < n := by
    intro j hj
    have h1 := post_lt h j (Nat.le_of_lt hj)
    rw [hqv] at h1
    have h2 : q j ≠ n := by
      intro e
      have := hinj j (Nat.le_of_lt hj) n (Nat.le_refl _) (by rw [e, hqn])
      omega
    omega
  have hinj' : ∀ i < n, ∀ j < n, q i = q j → i = j :=
    fun i hi j hj e => hinj i (Nat.le_of_lt hi) j (Nat.le_of_lt hj) e
  have hperm : isPerm n (firstN n (treePostorder n et)) = true := by
    refine isPerm_of_injective _ _ (firstN_size _ _) ?_ ?_
    · intro i hi; rw [firstN_getD _ _ _ hi, hqv]; exact hqlt i hi
    · intro i hi j hj e
      rw [firstN_getD _ _ _ hi, firstN_getD _ _ _ hj, hqv, hqv] at e
      exact hinj' i hi j hj e
  have hsurj : ∀ c, c < n → ∃ j, j < n ∧ q j = c := by
    intro c hc
    obtain ⟨j, hj, e⟩ := ((isPerm_iff n _).mp hperm).2.2.2 c hc
    rw [firstN_getD _ _ _ hj, hqv] at e
    exact ⟨j, hj, e⟩
  have hrel : ∀ j, j < n → et'.getD (q j) 0 = q (et.getD j 0) := by
    intro j hj; rw [← het']; exact relabel_getD n q _ hqlt hinj' j hj
  have hivq : ∀ j, j ≤ n → (scatter (n + 1) q id (Array.replicate (n + 1) 0)).getD (q j) 0 = j := by
    intro j hj
    refine scatter_getD (n + 1) q id _ (fun a ha b hb e => hinj a (by omega) b (by omega) e) ?_ j (by omega)
    intro i hi
    rcases Nat.lt_or_eq_of_le (Nat.le_of_lt_succ hi) with c | c
    · have := hqlt i c; simp; omega
    · rw [c, hqn]; simp
  have hheap' : Heap n et' := by
    intro k hk
    obtain ⟨j, hj, hjk⟩ := hsurj k hk
    rw [← hjk, hrel j hj]
    rcases h j hj with e | ⟨e1, e2⟩
    · left; rw [e]; exact hqn
    · right
      have := post_parent h j hj
      rw [hqv, hqv] at this
      exact ⟨this, hqlt _ e2⟩
  have hdesc_iff : ∀ u v, u < n → v < n → (Desc n et' (q u) (q v) ↔ Desc n et u v) := by
    intro u v hu hv
    constructor
    · intro hd
      obtain ⟨b, hb, hqb, hdb⟩ := desc_unrelabel (q := q) h hqn hinj hrel hd u (Nat.le_of_lt hu) rfl
      have : b = v := hinj b hb v (Nat.le_of_lt hv) hqb
      exact this ▸ hdb
    · exact desc_relabel (q := q) hqlt hrel
  have hpost : ∀ v, ∃ lo, v < n → ∀ u, u < n → (Desc n et' u v ↔ lo ≤ u ∧ u ≤ v) := by
    intro v
    by_cases hv : v < n
    · obtain ⟨j, hj, hjv⟩ := hsurj v hv
      obtain ⟨lo, hlo⟩ := post_subtree h j (Nat.le_of_lt hj)
      refine ⟨lo, fun _ u hu => ?_⟩
      obtain ⟨i, hi, hiu⟩ := hsurj u hu
      have := hlo i (Nat.le_of_lt hi)
      rw [hqv, hqv] at this
      rw [← hiu, ← hjv, hdesc_iff i j hi hj]
      exact this
    · exact ⟨0, fun c => absurd c hv⟩
  choose lo hlo using hpost
  refine ⟨lo, ⟨h, hheap', fun v hv u hu => hlo v hv u hu, hqlt, hqn, hrel, ?_, ?_,
    fun j hj => hivq j (Nat.le_of_lt hj), hdesc_iff⟩⟩
  · intro i hi
    obtain ⟨j, hj, e⟩ := hsurj i hi
    rw [← e, hivq j (Nat.le_of_lt hj)]; exact hj
  · intro i hi
    obtain ⟨j, hj, e⟩ := hsurj i hi
    rw [← e, hivq j (Nat.le_of_lt hj)]

/-- the subtree of `v` in the caller's forest has as many vertices as its block of postorder labels -/
theorem HeapCtx.order_length {n : Nat} {et et' : Array Nat} {q iv lo : Nat → Nat} (C : HeapCtx n et et' q iv lo)
    (v : Nat) (hv : v < n) : (order et v).length = q v - lo (q v) + 1 := by
  have hl := C.post.lo_le (q v) (C.qlt v hv)
  have hqv := C.qlt v hv
  have hperm : ((order et v).map q).Perm (List.range' (lo (q v)) (q v - lo (q v) + 1)) := by
    rw [List.perm_ext_iff_of_nodup ?_ (List.nodup_range' (step := 1) (by omega))]
    · intro x
      rw [List.mem_range'_1, List.mem_map]
      constructor
      · rintro ⟨u, hu, rfl⟩
        have hd := desc_of_mem_order (n := n) (Nat.le_of_lt hv) hu
        have := (C.q_block (desc_lt_n hd hv) hv).mp hd
        omega
      · rintro ⟨a, b⟩
        have hx : x < n := by omega
        refine ⟨iv x, mem_order_of_desc C.heap ((C.q_block (C.ivlt x hx) hv).mpr ?_), C.qiv x hx⟩
        rw [C.qiv x hx]; omega
    · refine List.Nodup.map_on ?_ (nodup_order et v)
      intro x hx y hy e
      have hxn : x < n := by have := le_of_mem_order et v x hx; omega
      have hyn : y < n := by have := le_of_mem_order et v y hy; omega
      have := congrArg iv e
      rwa [C.ivq x hxn, C.ivq y hyn] at this
  have := hperm.length_eq
  rwa [List.length_map, List.length_range'] at this

/-- **heap_relax_snode, loop invariant at exit.**  On every heap-ordered forest, with `q` the postorder:
the returned `relax_end` satisfies `HeapInv` at some `j' ≥ n`, and the returned `descendants` (postorder
labels) are `v - lo v`, the number of proper descendants in the relabelled forest. -/
theorem heapRelaxSnode_inv (n relax : Nat) (et : Array Nat) (h : Heap n et) :
    ∃ (et' desc : Array Nat) (iv lo : Nat → Nat) (j' : Nat),
      HeapCtx n et et' (fun j => (treePostorder n et).getD j 0) iv lo ∧ n ≤ j' ∧
      HeapInv n relax et et' desc (fun j => (treePostorder n et).getD j 0) iv lo j' (heapRelaxSnode n relax et).2 ∧
      (heapRelaxSnode n relax et).1.size = n ∧
      (∀ v, v < n → (heapRelaxSnode n relax et).1.getD v 0 = v - lo v) ∧
      ∀ v, v < n → desc.getD v 0 = v - lo v := by
  obtain ⟨lo, C⟩ := heapCtx_of_heap h
  have hdesc := fun v hv => C.post.descendants C.heap' v hv
  obtain ⟨j', hj', hinv⟩ := heapRelaxLoop_inv (relax := relax) C (fun i => rfl) hdesc (n + 1) 0
    (Array.replicate n (-1))
    ⟨by simp, fun s _ _ => by
        simp only [Array.getD_eq_getD_getElem?, Array.getElem?_replicate]; split <;> rfl,
      fun s _ => Or.inl (by simp only [Array.getD_eq_getD_getElem?, Array.getElem?_replicate]; split <;> rfl),
      fun v _ hl _ => by omega, fun h0 => by have := C.post.lo_le 0 h0; omega,
      fun k _ hk => by omega, fun i _ hi => by omega⟩ (by omega)
  refine ⟨_, _, _, lo, j', C, hj', hinv, firstN_size _ _, fun v hv => ?_, hdesc⟩
  show (firstN n _).getD v 0 = _
  rw [firstN_getD _ _ _ hv]
  exact hdesc v hv

end Slu.Order
