import SluProofs.Lemmas.Gssvx
import SluProofs.Lemmas.Solve
import SluProofs.Lemmas.SolveT
import Mathlib.Algebra.BigOperators.Ring.Finset
/-
C05 end to end: the LU model (`Slu.LU.luFactor`, `gstrsN`, `gstrsT`) as the inner solver of the expert
driver model `Slu.Gssvx.gssvx`.

* `denseK` — the dense reading of a stored entry list over any commutative ring (duplicates summed),
  and the entry-list products `opMul .N/.T/.C` as the `Finset` sums the solve theorems speak about;
* `conjRingHom` — `HasConj.conj` is a ring homomorphism under `ScalarLaws` (Rat: identity, Cx Rat:
  `zz_conj`);
* `luParams` — the matrix handed to `gstrf` by the driver: `A_eq * Pc`, column `permC[c]` of the
  factored matrix is dense column `c` of the equilibrated stored matrix (the convention of
  `gssv_solves`, Props/C01.lean);
* `solveLU` / `innerLU` — `gstrs(NOTRANS / TRANS / CONJ)` with the factors of that matrix;
* `solveLU_correct` — under the invariant of C02 the three solves satisfy `op(A_eq) x = b` in the
  reading `opMul` of C05, for every n, every column permutation, every right-hand side;
* `solveLU_zero` — the three solves map a zero vector (of any length) to a zero vector, whatever the
  factors: the hypothesis `hlin` of `refine_noop_of_solution` (Props/C05.lean).
-/
set_option linter.unusedSectionVars false
namespace Slu.Gssvx
open Slu Slu.Equil Slu.Lacon Slu.LU Finset

section dense
variable {K : Type} [CommRing K]

/-- dense reading of a stored entry list over any scalar type: entry `(r,c)` is the sum of the
stored values at `(r,c)` (`denseAt` of Lemmas/RefineDense.lean is the instance `K = Rat`) -/
def denseK (es : List (Entry K)) (r c : Nat) : K :=
  (es.map fun e => if e.row = r ∧ e.col = c then e.val else 0).sum

theorem sum_pickK {α : Type} (es : List α) (r c : α → Nat) (v : α → K) (x : Nat → K) (n i : Nat)
    (h : ∀ e ∈ es, c e < n) :
    ∑ j ∈ Finset.range n, (es.map fun e => if r e = i ∧ c e = j then v e else 0).sum * x j =
      (es.map fun e => if r e = i then v e * x (c e) else 0).sum := by
  induction es with
  | nil => simp
  | cons a t ih =>
    simp only [List.map_cons, List.sum_cons, add_mul, Finset.sum_add_distrib]
    rw [ih (fun e he => h e (List.mem_cons_of_mem _ he))]
    congr 1
    by_cases hr : r a = i
    · simp only [hr, true_and, if_true, ite_mul, zero_mul]
      rw [Finset.sum_ite_eq]
      simp [h a List.mem_cons_self]
    · simp [hr]

/-- a ring homomorphism goes through the dense reading -/
theorem map_denseK (f : K →+* K) (es : List (Entry K)) (r c : Nat) :
    f (denseK es r c) = (es.map fun e => if e.row = r ∧ e.col = c then f e.val else 0).sum := by
  unfold denseK
  rw [map_list_sum, List.map_map]
  congr 1
  apply List.map_congr_left
  intro e _
  simp only [Function.comp]
  split <;> simp

end dense

section ops
variable {K : Type} [CommRing K] [Mag K Rat] [HasConj K] [ScalarLaws K]

/-- conjugation is a ring homomorphism of every scalar type with the laws of `ScalarLaws` -/
def conjRingHom : K →+* K where
  toFun := HasConj.conj
  map_one' := by have := conj_iota (K := K) 1; simpa using this
  map_mul' := ScalarLaws.conj_mul
  map_zero' := ScalarLaws.conj_zero
  map_add' := ScalarLaws.conj_add

theorem conjRingHom_apply (z : K) : conjRingHom z = HasConj.conj z := rfl

theorem opMul_N_dense (n : Nat) (es : List (Entry K)) (hes : InRange n es) (x : Nat → K) (i : Nat) :
    opMul .N es x i = ∑ c ∈ range n, denseK es i c * x c :=
  (sum_pickK es Entry.row Entry.col Entry.val x n i (fun e he => (hes e he).2)).symm

theorem opMul_T_dense (n : Nat) (es : List (Entry K)) (hes : InRange n es) (x : Nat → K) (i : Nat) :
    opMul .T es x i = ∑ r ∈ range n, denseK es r i * x r := by
  have := sum_pickK es Entry.col Entry.row Entry.val x n i (fun e he => (hes e he).1)
  simp only [denseK, and_comm (a := Entry.row _ = _)]
  rw [this]; rfl

theorem opMul_C_dense (n : Nat) (es : List (Entry K)) (hes : InRange n es) (x : Nat → K) (i : Nat) :
    opMul .C es x i = ∑ r ∈ range n, HasConj.conj (denseK es r i) * x r := by
  have := sum_pickK es Entry.col Entry.row (fun e => conjRingHom e.val) x n i (fun e he => (hes e he).1)
  simp only [← conjRingHom_apply, map_denseK, and_comm (a := Entry.row _ = _)]
  rw [this]; rfl

end ops

section lu
variable {K : Type} [Field K] [Mag K Rat] [HasConj K] [ScalarLaws K]

/-- the column of A that the column order `permC` sends to position `j` of the factored matrix
(`perm_c[c] = j`; the lookup `gstrsT` itself uses) -/
def invPermC (n : Nat) (permC : Array Nat) (j : Nat) : Nat :=
  ((List.range n).find? fun c => permC.getD c 0 = j).getD 0

/-- the factorization parameters of the expert driver: the matrix handed to `gstrf` is `A_eq * Pc`,
i.e. column `permC[c]` of the factored matrix is the dense column `c` of the equilibrated stored
entry list (duplicates summed); threshold, candidate orders and the pivot memory are free -/
def luParams (n : Nat) (esEq : List (Entry K)) (permC : Array Nat) (u : Rat) (order : Nat → List Nat)
    (oldPiv diagRow : Nat → Nat) : Params K Rat :=
  { m := n, n := n, col := fun j => (Array.range n).map fun i => denseK esEq i (invPermC n permC j),
    u := u, order := order, oldPiv := oldPiv, diagRow := diagRow }

/-- `gstrs(trans)` on the factors `st` with column order `permC` -/
def solveLU (st : St K) (permC : Array Nat) : Trans → Array K → Array K
  | .N, b => gstrsN st.piv st.L st.U permC b
  | .T, b => gstrsT id st.piv st.L st.U permC b
  | .C, b => gstrsT HasConj.conj st.piv st.L st.U permC b

/-- the inner solver of the expert driver built from the LU model: factor `A_eq * Pc`, then
`gstrs(trans)` with the factors -/
def innerLU (n : Nat) (esEq : List (Entry K)) (permC : Array Nat) (u : Rat) (order : Nat → List Nat)
    (oldPiv diagRow : Nat → Nat) : Trans → Array K → Array K :=
  solveLU (luFactor (luParams n esEq permC u order oldPiv diagRow) false) permC

theorem permC_inj (n : Nat) (permC : Array Nat)
    (hperm : ((List.range n).map fun c => permC.getD c 0).Perm (List.range n)) :
    ∀ a < n, ∀ b < n, permC.getD a 0 = permC.getD b 0 → a = b := by
  intro a ha b hb hab
  have hnd : ((List.range n).map fun c => permC.getD c 0).Nodup := hperm.nodup_iff.mpr List.nodup_range
  have := List.inj_on_of_nodup_map hnd (List.mem_range.mpr ha) (List.mem_range.mpr hb) hab
  exact this

theorem luParams_col_get (n : Nat) (esEq : List (Entry K)) (permC : Array Nat) (u : Rat) (order : Nat → List Nat)
    (oldPiv diagRow : Nat → Nat)
    (hperm : ((List.range n).map fun c => permC.getD c 0).Perm (List.range n))
    (c : Nat) (hc : c < n) (i : Nat) (hi : i < n) :
    ((luParams n esEq permC u order oldPiv diagRow).col (permC.getD c 0)).get i = denseK esEq i c := by
  have hinv : invPermC n permC (permC.getD c 0) = c := find_inv (fun c => permC.getD c 0) n (permC_inj n permC hperm) c hc
  show Vec.get ((Array.range n).map fun i => denseK esEq i (invPermC n permC (permC.getD c 0))) i = _
  rw [hinv]
  simp [Vec.get, Array.getD_eq_getD_getElem?, hi]

theorem getD_default_eq [Inhabited K] (a : Array K) (k : Nat) (hk : k < a.size) : a.getD k default = a.getD k 0 := by
  simp [Array.getD_eq_getD_getElem?, Array.getElem?_eq_getElem hk]

/-- **The LU model is a correct inner solver.**  If the invariant of C02 holds for the factors of
`A_eq * Pc`, the three solves `gstrs(NOTRANS / TRANS / CONJ)` return vectors of length n with
`op(A_eq) x = b` in the entry-list reading `opMul` used by C05. -/
theorem solveLU_correct [Inhabited K] (n : Nat) (esEq : List (Entry K)) (hes : InRange n esEq) (permC : Array Nat)
    (u : Rat) (order : Nat → List Nat) (oldPiv diagRow : Nat → Nat) (st : St K)
    (inv : Inv (luParams n esEq permC u order oldPiv diagRow) st n)
    (hpc : permC.size = n)
    (hperm : ((List.range n).map fun c => permC.getD c 0).Perm (List.range n))
    (tr : Trans) (b : Array K) (hb : b.size = n) :
    (solveLU st permC tr b).size = n ∧
    ∀ i < n, opMul (opOfTrans tr) esEq (fun k => (solveLU st permC tr b).getD k default) i = b.getD i default := by
  let P := luParams n esEq permC u order oldPiv diagRow
  have hsq : P.m = P.n := rfl
  have hcol : ∀ j, (P.col j).size = P.m := by intro j; simp [P, luParams]
  have hsz : (solveLU st permC tr b).size = n := by
    cases tr
    · simp [solveLU, gstrsN, hpc]
    · simp only [solveLU]; rw [gstrsT_size, inv.sizes.1]
    · simp only [solveLU]; rw [gstrsT_size, inv.sizes.1]
  refine ⟨hsz, ?_⟩
  intro i hi
  rw [getD_default_eq b i (by omega)]
  have hx : ∀ k < n, (fun k => (solveLU st permC tr b).getD k default) k = Vec.get (solveLU st permC tr b) k := by
    intro k hk; exact getD_default_eq _ k (by omega)
  rw [opMul_congr (opOfTrans tr) n esEq hes _ _ hx i]
  cases tr
  · rw [opOfTrans, opMul_N_dense n esEq hes]
    have := gstrsN_solves P st hsq inv hcol permC hpc hperm b hb i hi
    refine Eq.trans ?_ this
    apply Finset.sum_congr rfl
    intro c hc
    rw [luParams_col_get n esEq permC u order oldPiv diagRow hperm c (Finset.mem_range.mp hc) i hi]
    rfl
  · rw [opOfTrans, opMul_T_dense n esEq hes]
    have := gstrsT_solves (RingHom.id K) P st hsq inv permC hperm b i hi
    refine Eq.trans ?_ this
    apply Finset.sum_congr rfl
    intro r hr
    rw [luParams_col_get n esEq permC u order oldPiv diagRow hperm i hi r (Finset.mem_range.mp hr)]
    rfl
  · rw [opOfTrans, opMul_C_dense n esEq hes]
    have := gstrsT_solves conjRingHom P st hsq inv permC hperm b i hi
    refine Eq.trans ?_ this
    apply Finset.sum_congr rfl
    intro r hr
    rw [luParams_col_get n esEq permC u order oldPiv diagRow hperm i hi r (Finset.mem_range.mp hr)]
    rfl

end lu
/-! ### the LU solves are linear at zero (what `refine_noop_of_solution` needs) -/

section zero
variable {K : Type} [Field K]

theorem list_getD_zero (l : List K) (h : ∀ z ∈ l, z = 0) (t : Nat) : l.getD t 0 = 0 := by
  rw [List.getD_eq_getElem?_getD]
  cases ht : l[t]? with
  | none => rfl
  | some v => exact h v (List.mem_of_getElem? ht)

theorem axpy_zero (w l : Vec K) (hw : ∀ i, w.getD i 0 = 0) (i : Nat) : (axpy w l 0).getD i 0 = 0 := by
  have := hw i
  simp only [axpy, Array.getD_eq_getD_getElem?, Array.getElem?_mapIdx] at this ⊢
  cases hi : w[i]? with
  | none => rfl
  | some v => rw [hi] at this; simpa using this

/-- forward elimination of the zero vector gives zero multipliers -/
theorem elim_zero (prev : List (Nat × Vec K)) (w : Vec K) (hw : ∀ i, w.getD i 0 = 0) :
    ∀ y ∈ (elim prev w).2, y = 0 := by
  induction prev generalizing w with
  | nil => simp [elim]
  | cons pl rest ih =>
    obtain ⟨p, l⟩ := pl
    have hp : w.get p = 0 := hw p
    simp only [elim, hp]
    intro y hy
    rcases List.mem_cons.mp hy with rfl | hy
    · rfl
    · exact ih _ (axpy_zero w l hw) y hy

theorem backSub_zero (U : Array (Array K)) (y : Array K) (hy : ∀ i, y.getD i 0 = 0) (n k : Nat) :
    ∀ z ∈ backSub U y n k, z = 0 := by
  induction k with
  | zero => simp [backSub]
  | succ k ih =>
    simp only [backSub]
    intro z hz
    rcases List.mem_cons.mp hz with rfl | hz
    · rw [foldl_sub]
      simp only [list_getD_zero _ ih, hy, mul_zero, Finset.sum_const_zero, sub_zero, zero_div]
    · exact ih z hz

theorem triBack_zero (M : Nat → Nat → K) (y : Nat → K) (hy : ∀ i, y i = 0) (n k : Nat) :
    ∀ z ∈ triBack M y n k, z = 0 := by
  induction k with
  | zero => simp [triBack]
  | succ k ih =>
    simp only [triBack]
    intro z hz
    rcases List.mem_cons.mp hz with rfl | hz
    · rw [foldl_sub]
      simp only [list_getD_zero _ ih, hy, mul_zero, Finset.sum_const_zero, sub_zero, zero_div]
    · exact ih z hz

theorem map_range_getD_zero (n : Nat) (g : Nat → K) (hg : ∀ i, g i = 0) (i : Nat) :
    ((Array.range n).map g).getD i 0 = 0 := by
  simp only [Array.getD_eq_getD_getElem?, Array.getElem?_map]
  cases (Array.range n)[i]? with
  | none => rfl
  | some v => simp [hg]

theorem gstrsN_zero (piv : Array Nat) (L : Array (Vec K)) (U : Array (Array K)) (permC : Array Nat) (w : Vec K)
    (hw : ∀ i, w.getD i 0 = 0) (i : Nat) : (gstrsN piv L U permC w).getD i 0 = 0 := by
  unfold gstrsN
  apply map_range_getD_zero
  intro c
  simp only [backSolve]
  rw [Array.getD_eq_getD_getElem?, List.getElem?_toArray, ← List.getD_eq_getElem?_getD]
  apply list_getD_zero
  apply backSub_zero
  intro t
  rw [Array.getD_eq_getD_getElem?, List.getElem?_toArray, ← List.getD_eq_getElem?_getD]
  exact list_getD_zero _ (elim_zero _ w hw) t

theorem gstrsT_zero (f : K → K) (piv : Array Nat) (L : Array (Vec K)) (U : Array (Array K)) (permC : Array Nat) (w : Vec K)
    (hw : ∀ i, w.getD i 0 = 0) (i : Nat) : (gstrsT f piv L U permC w).getD i 0 = 0 := by
  unfold gstrsT
  apply map_range_getD_zero
  intro c
  apply list_getD_zero
  apply triBack_zero
  intro k
  apply list_getD_zero
  apply triBack_zero
  intro a
  exact hw _

/-- the three LU solves map the zero vector (of any length) to the zero vector -/
theorem solveLU_zero (st : St K) [HasConj K] (permC : Array Nat) (tr : Trans) (w : Array K)
    (hw : ∀ i, w.getD i 0 = 0) (i : Nat) : (solveLU st permC tr w).getD i 0 = 0 := by
  cases tr
  · exact gstrsN_zero _ _ _ _ w hw i
  · exact gstrsT_zero _ _ _ _ _ w hw i
  · exact gstrsT_zero _ _ _ _ _ w hw i
end zero
end Slu.Gssvx
