import SluProofs.Lemmas.DfsTopo
import SluProofs.Lemmas.SymbSound
/-
SYMMETRIC PRUNING (Eisenstat–Liu; SRC/[sdcz]pruneL.c, consumed by [sdcz]column_dfs.c / panel_dfs.c through
`xprune`) does not change what the depth-first searches reach, nor the schedule they produce.

Rows are in PIVOT numbering (row `r` is pivotal in column `r`).  `struct k r` : row `r` belongs to
struct(L_k) below the diagonal.  After column `c` has been factored, [sdcz]pruneL looks at every column
`k` in the U-structure of `c` (`segrep`, `repfnz ≠ EMPTY`) that is not pruned yet
(`xprune[k] >= xlsub[k+1]`) and whose structure contains the pivot row of `c`: a SYMMETRIC PAIR
(`U(k,c) ≠ 0` and `L(c,k) ≠ 0` structurally).  It partitions the row list of `k` so that the rows that
are pivotal by now (`perm_r ≠ EMPTY`: rows `≤ c`) come first and sets `xprune[k]` behind them.  All later
searches scan `xlsub[k] .. xprune[k]-1` only — both for the pivotal rows they FOLLOW and for the
non-pivotal rows they COLLECT as new rows of L.  A column is pruned once, at the first symmetric pair met.

Here `p k = some c` says "the list of `k` has been cut at column `c`"; the only thing assumed about `p`
is `PruneOk`: `k < c`, `c ∈ struct k`, and the FILL PROPERTY for that pair, `r ∈ struct k, r > c ⟹
r ∈ struct c`.  For the symbolic structure the fill property holds for every `k` in the U-structure of
`c` (`fillSym_colStruct`, read off `ColReach.step`), so ANY choice of symmetric pairs is allowed, not
only the least one (`pruneOk_of_symPair`).

Part A (relations, any `struct`):
* `prune_detour`     — whatever the full list of a column `k < t` holds is held by the PRUNED list of a
                       column reached from `k` in the pruned graph (`k → c → c' → …`, the cut columns);
* `prune_reach`      — (1) the pruned graph `G'_t` and the full graph `G_t` have the same reachability;
* `prune_hits`,
  `prune_newRows`    — (2) the rows met by a search (in particular the new rows `≥ t` of L) are the same.
Part B (the executable search, `adj : Nat → List Nat`):
* `reach_pruneAdj`, `mem_dfsPost_pruneAdj`, `dfsPost_pruneAdj_perm` — the search on the pruned lists
                       `pruneAdj p adj` visits exactly the same columns;
* `dfsRevPost_topo_reach`, `dfsPost_topo_reach` — a search lists every node before EVERYTHING reachable
                       from it (not only its successors);
* `dfsRevPost_pruneAdj_topo_full` — so the order found on the pruned lists is topological for the FULL
                       lists;
* `validSchedule_prunedDfs` — and is a valid elimination schedule whenever the FULL lists contain the
                       numerically nonzero pattern.
Part C (the column-level symbolic factorization `ColReach` of Lemmas/SymbSound.lean):
* `colReach_iff_search`, `colReach_iff_prunedSearch` — `ColReach cols t` is exactly what the search for
                       column `t` meets, on the full lists and on lists pruned at any symmetric pairs.
-/
namespace Slu.Symb

/-! ### Part A: pruning on relations -/

/-- **symmetric pair** `(k, j)`: `k < j`, the pivot row of `j` lies in struct(L_k) and `k` lies in the
structure of `U(:,j)` -/
def SymPair (struct ustruct : Nat → Nat → Prop) (k j : Nat) : Prop := k < j ∧ struct k j ∧ ustruct j k

/-- **fill property (F)** for symmetric pairs: the part of struct(L_k) below row `j` is inside struct(L_j) -/
def FillSym (struct ustruct : Nat → Nat → Prop) : Prop :=
  ∀ k j, SymPair struct ustruct k j → ∀ r, struct k r → j < r → struct j r

/-- what the theorems need of the cuts `p` (`p k = some c`: the list of `k` was cut at column `c`) -/
def PruneOk (struct : Nat → Nat → Prop) (p : Nat → Option Nat) : Prop :=
  ∀ k c, p k = some c → k < c ∧ struct k c ∧ ∀ r, struct k r → c < r → struct c r

/-- any choice of symmetric pairs is a legal set of cuts when (F) holds for symmetric pairs -/
theorem pruneOk_of_symPair {struct ustruct : Nat → Nat → Prop} {p : Nat → Option Nat}
    (hF : FillSym struct ustruct) (hp : ∀ k c, p k = some c → SymPair struct ustruct k c) :
    PruneOk struct p :=
  fun k c h => ⟨(hp k c h).1, (hp k c h).2.1, hF k c (hp k c h)⟩

theorem rtg_mono {r q : Nat → Nat → Prop} (h : ∀ a b, r a b → q a b) {a b : Nat}
    (hab : Relation.ReflTransGen r a b) : Relation.ReflTransGen q a b := by
  induction hab with
  | refl => exact Relation.ReflTransGen.refl
  | tail _ hbc ih => exact ih.tail (h _ _ hbc)

section rel
variable (struct : Nat → Nat → Prop) (p : Nat → Option Nat)

/-- the row list of column `k` as scanned by the search for column `t`: cut at `c` when `p k = some c`
and column `c` is already factored (`c < t`) -/
def PrunedStruct (t k r : Nat) : Prop := struct k r ∧ ∀ c, p k = some c → c < t → r ≤ c

/-- edge of the FULL graph `G_t`: `k → r` for a pivotal row `r < t` of struct(L_k), `k < t` -/
def FullEdge (t k r : Nat) : Prop := k < t ∧ r < t ∧ struct k r

/-- edge of the PRUNED graph `G'_t` -/
def PrunedEdge (t k r : Nat) : Prop := k < t ∧ r < t ∧ PrunedStruct struct p t k r

variable {struct p}

theorem PrunedEdge.full {t k r : Nat} (h : PrunedEdge struct p t k r) : FullEdge struct t k r :=
  ⟨h.1, h.2.1, h.2.2.1⟩

/-- **The detour.** A row `r` (pivotal or not) of the full list of a column `k < t` is in the PRUNED list
of a column `k'` that the pruned graph reaches from `k`: `k' = k` if `r` survived the cut, otherwise follow
the cut columns `k → c → c' → …` (each edge `k → c` survives since `c ≤ c`; `r ∈ struct c` by (F)); the
cut columns increase and stay below `t`. -/
theorem prune_detour (hp : PruneOk struct p) (t : Nat) {k r : Nat} (hk : k < t) (hr : struct k r) :
    ∃ k', Relation.ReflTransGen (PrunedEdge struct p t) k k' ∧ k' < t ∧ PrunedStruct struct p t k' r := by
  have key : ∀ d k, t ≤ k + d → k < t → struct k r →
      ∃ k', Relation.ReflTransGen (PrunedEdge struct p t) k k' ∧ k' < t ∧ PrunedStruct struct p t k' r := by
    intro d
    induction d with
    | zero => intro k h1 h2; omega
    | succ d ih =>
      intro k hd hk hr
      cases hpk : p k with
      | none => exact ⟨k, Relation.ReflTransGen.refl, hk, hr, fun c hc => by rw [hpk] at hc; cases hc⟩
      | some c =>
        by_cases hcut : c < t ∧ c < r
        · obtain ⟨hkc, hsc, hfill⟩ := hp k c hpk
          obtain ⟨k', hpath, hk', hs⟩ := ih c (by omega) hcut.1 (hfill r hr hcut.2)
          refine ⟨k', Relation.ReflTransGen.head ⟨hk, hcut.1, hsc, ?_⟩ hpath, hk', hs⟩
          intro c' hc' _
          rw [hpk] at hc'
          cases hc'
          exact Nat.le_refl _
        · refine ⟨k, Relation.ReflTransGen.refl, hk, hr, ?_⟩
          intro c' hc' hct
          rw [hpk] at hc'
          cases hc'
          omega
  exact key t k (by omega) hk hr

/-- **(1) Pruning preserves reachability.** For every `t` and every pair of vertices, `b` is reachable
from `a` in the pruned graph `G'_t` iff it is in the full graph `G_t`. -/
theorem prune_reach (hp : PruneOk struct p) (t a b : Nat) :
    Relation.ReflTransGen (PrunedEdge struct p t) a b ↔ Relation.ReflTransGen (FullEdge struct t) a b := by
  constructor
  · exact rtg_mono (fun _ _ h => PrunedEdge.full h)
  · intro h
    induction h with
    | refl => exact Relation.ReflTransGen.refl
    | tail _ hbc ih =>
      obtain ⟨k', hpath, hk', hs⟩ := prune_detour hp t hbc.1 hbc.2.2
      exact (ih.trans hpath).tail ⟨hk', hbc.2.1, hs⟩

/-- (1) for a set of roots: the reached sets coincide -/
theorem prune_reach_roots (hp : PruneOk struct p) (t : Nat) (roots : Nat → Prop) (x : Nat) :
    (∃ s, roots s ∧ Relation.ReflTransGen (PrunedEdge struct p t) s x) ↔
    (∃ s, roots s ∧ Relation.ReflTransGen (FullEdge struct t) s x) := by
  constructor
  · rintro ⟨s, hs, h⟩; exact ⟨s, hs, (prune_reach hp t s x).mp h⟩
  · rintro ⟨s, hs, h⟩; exact ⟨s, hs, (prune_reach hp t s x).mpr h⟩

variable (struct p)

/-- rows met by the search for column `t` from `roots` on the FULL lists: the rows `own` of the column
itself and every row of the list of a reached column -/
def HitsFull (t : Nat) (roots own : Nat → Prop) (r : Nat) : Prop :=
  own r ∨ ∃ s k, roots s ∧ Relation.ReflTransGen (FullEdge struct t) s k ∧ k < t ∧ struct k r

/-- rows met by the search for column `t` from `roots` on the PRUNED lists -/
def HitsPruned (t : Nat) (roots own : Nat → Prop) (r : Nat) : Prop :=
  own r ∨ ∃ s k, roots s ∧ Relation.ReflTransGen (PrunedEdge struct p t) s k ∧ k < t ∧ PrunedStruct struct p t k r

variable {struct p}

/-- **(2) the rows met are the same**, pivotal or not -/
theorem prune_hits (hp : PruneOk struct p) (t : Nat) (roots own : Nat → Prop) (r : Nat) :
    HitsPruned struct p t roots own r ↔ HitsFull struct t roots own r := by
  constructor
  · rintro (h | ⟨s, k, hs, hpath, hk, hr⟩)
    · exact Or.inl h
    · exact Or.inr ⟨s, k, hs, (prune_reach hp t s k).mp hpath, hk, hr.1⟩
  · rintro (h | ⟨s, k, hs, hpath, hk, hr⟩)
    · exact Or.inl h
    · obtain ⟨k', hpath', hk', hs'⟩ := prune_detour hp t hk hr
      exact Or.inr ⟨s, k', hs, ((prune_reach hp t s k).mpr hpath).trans hpath', hk', hs'⟩

/-- **(2) the new rows of L** (the NON-pivotal rows `r ≥ t` collected by the search for column `t`) are
the same with and without pruning -/
theorem prune_newRows (hp : PruneOk struct p) (t : Nat) (roots own : Nat → Prop) (r : Nat) :
    (t ≤ r ∧ HitsPruned struct p t roots own r) ↔ (t ≤ r ∧ HitsFull struct t roots own r) := by
  rw [prune_hits hp]

end rel

/-! ### Part C: the column-level symbolic factorization is what the (pruned) search computes -/

/-- struct(L_k) below the diagonal, column level -/
def LStruct (cols : Nat → List Nat) (k r : Nat) : Prop := k < r ∧ ColReach cols k r
/-- struct(U(:,j)) above the diagonal, column level -/
def UStruct (cols : Nat → List Nat) (j k : Nat) : Prop := k < j ∧ ColReach cols j k

theorem lStruct_iff_colStruct (cols : Nat → List Nat) (k r : Nat) : LStruct cols k r ↔ (ColStruct cols k r ∧ r ≠ k) := by
  unfold LStruct ColStruct
  constructor
  · rintro ⟨h1, h2⟩; exact ⟨Or.inr ⟨h1, h2⟩, by omega⟩
  · rintro ⟨h | h, hne⟩
    · exact absurd h hne
    · exact h

theorem uStruct_iff_colUStruct (cols : Nat → List Nat) (j k : Nat) : UStruct cols j k ↔ (ColUStruct cols j k ∧ k ≠ j) := by
  unfold UStruct ColUStruct
  constructor
  · rintro ⟨h1, h2⟩; exact ⟨Or.inr ⟨h1, h2⟩, by omega⟩
  · rintro ⟨h | h, hne⟩
    · exact absurd h hne
    · exact h

/-- **(F) holds for the symbolic structure**: it is `ColReach.step` (only `k ∈ ustruct j` is used) -/
theorem fillSym_colStruct (cols : Nat → List Nat) : FillSym (LStruct cols) (UStruct cols) := by
  rintro k j ⟨hkj, _, _, hjk⟩ r ⟨hkr, hr⟩ hjr
  exact ⟨hjr, ColReach.step hjk hkj hkr hr⟩

/-- cuts at symmetric pairs of the symbolic structure are legal -/
theorem pruneOk_colStruct (cols : Nat → List Nat) (p : Nat → Option Nat)
    (hp : ∀ k c, p k = some c → SymPair (LStruct cols) (UStruct cols) k c) : PruneOk (LStruct cols) p :=
  pruneOk_of_symPair (fillSym_colStruct cols) hp

/-- `ColReach cols t` is exactly the set of rows met by the search for column `t` on the full lists:
roots = the pivotal rows `s < t` of `B(:,t)`, own rows = all rows of `B(:,t)`. -/
theorem colReach_iff_search (cols : Nat → List Nat) (t r : Nat) :
    ColReach cols t r ↔ HitsFull (LStruct cols) t (fun s => s ∈ cols t ∧ s < t) (fun r => r ∈ cols t) r := by
  constructor
  · intro h
    induction h with
    | base h => exact Or.inl h
    | @step j k r _ hkj hkr h2 ih1 _ =>
      rcases ih1 with h | ⟨s, k0, hs, hpath, hk0, hk0k⟩
      · exact Or.inr ⟨k, k, ⟨h, hkj⟩, Relation.ReflTransGen.refl, hkj, hkr, h2⟩
      · exact Or.inr ⟨s, k, hs, hpath.tail ⟨hk0, hkj, hk0k⟩, hkj, hkr, h2⟩
  · have hreach : ∀ s k, s ∈ cols t → Relation.ReflTransGen (FullEdge (LStruct cols) t) s k → ColReach cols t k := by
      intro s k hs hpath
      induction hpath with
      | refl => exact ColReach.base hs
      | tail _ hbc ih => exact ColReach.step ih hbc.1 hbc.2.2.1 hbc.2.2.2
    rintro (h | ⟨s, k, ⟨hs, hst⟩, hpath, hk, hkr, hr⟩)
    · exact ColReach.base h
    · exact ColReach.step (hreach s k hs hpath) hk hkr hr

/-- **Pruned search = symbolic factorization.** With the lists cut at ANY symmetric pairs of the
symbolic structure, the search for column `t` still meets exactly `ColReach cols t`: the pivotal rows
`< t` (structure of `U(:,t)`) and the non-pivotal rows `≥ t` (structure of `L(:,t)`). -/
theorem colReach_iff_prunedSearch (cols : Nat → List Nat) (p : Nat → Option Nat)
    (hp : ∀ k c, p k = some c → SymPair (LStruct cols) (UStruct cols) k c) (t r : Nat) :
    ColReach cols t r ↔
      HitsPruned (LStruct cols) p t (fun s => s ∈ cols t ∧ s < t) (fun r => r ∈ cols t) r := by
  rw [prune_hits (pruneOk_colStruct cols p hp)]
  exact colReach_iff_search cols t r

end Slu.Symb

/-! ### Part B: the executable search on pruned adjacency lists -/
namespace Slu.LU
open Slu List

/-- does row `r` survive a cut (`none`: no cut; `some c`: rows `≤ c` stay) -/
def keepRow (c : Option Nat) (r : Nat) : Bool :=
  match c with
  | none => true
  | some c => decide (r ≤ c)

/-- the adjacency lists cut by `p`: what `xlsub[k] .. xprune[k]-1` holds -/
def pruneAdj (p : Nat → Option Nat) (adj : Nat → List Nat) (k : Nat) : List Nat :=
  (adj k).filter (keepRow (p k))

/-- legal cuts of adjacency lists: `p k = some c` only if `c` is a successor of `k` and every successor
of `k` beyond `c` is a successor of `c` (fill property of the pair `(k, c)`) -/
def PruneOkAdj (adj : Nat → List Nat) (p : Nat → Option Nat) : Prop :=
  ∀ k c, p k = some c → c ∈ adj k ∧ ∀ r ∈ adj k, c < r → r ∈ adj c

theorem mem_pruneAdj (p : Nat → Option Nat) (adj : Nat → List Nat) (k r : Nat) :
    r ∈ pruneAdj p adj k ↔ r ∈ adj k ∧ ∀ c, p k = some c → r ≤ c := by
  unfold pruneAdj keepRow
  rw [mem_filter]
  cases p k with
  | none => simp
  | some c => simp

theorem pruneAdj_subset (p : Nat → Option Nat) (adj : Nat → List Nat) (k r : Nat) (h : r ∈ pruneAdj p adj k) :
    r ∈ adj k := ((mem_pruneAdj p adj k r).mp h).1

theorem pruneAdj_sublist (p : Nat → Option Nat) (adj : Nat → List Nat) (k : Nat) : pruneAdj p adj k <+ adj k :=
  filter_sublist

section graph
variable {adj : Nat → List Nat} {j : Nat} {p : Nat → Option Nat}

theorem pruneAdj_bound (hadj : ∀ k, ∀ r ∈ adj k, k < r ∧ r < j) :
    ∀ k, ∀ r ∈ pruneAdj p adj k, k < r ∧ r < j :=
  fun k r hr => hadj k r (pruneAdj_subset p adj k r hr)

/-- **(1) on lists**: the pruned lists have the same reachability as the full ones -/
theorem reach_pruneAdj (hadj : ∀ k, ∀ r ∈ adj k, k < r ∧ r < j) (hp : PruneOkAdj adj p) (a b : Nat) :
    Reach (pruneAdj p adj) a b ↔ Reach adj a b := by
  have hok : Symb.PruneOk (fun k r => r ∈ adj k) p := by
    intro k c h
    exact ⟨(hadj k c (hp k c h).1).1, (hp k c h).1, (hp k c h).2⟩
  have e1 : ∀ x y, y ∈ pruneAdj p adj x ↔ Symb.PrunedEdge (fun k r => r ∈ adj k) p j x y := by
    intro x y
    rw [mem_pruneAdj]
    constructor
    · rintro ⟨h1, h2⟩
      have := hadj x y h1
      exact ⟨by omega, this.2, h1, fun c hc _ => h2 c hc⟩
    · rintro ⟨_, _, h1, h2⟩
      exact ⟨h1, fun c hc => h2 c hc (hadj x c (hp x c hc).1).2⟩
  have e2 : ∀ x y, y ∈ adj x ↔ Symb.FullEdge (fun k r => r ∈ adj k) j x y := by
    intro x y
    constructor
    · intro h
      have := hadj x y h
      exact ⟨by omega, this.2, h⟩
    · exact fun h => h.2.2
  unfold Reach
  constructor
  · intro h
    have := (Symb.prune_reach hok j a b).mp (Symb.rtg_mono (fun x y h => (e1 x y).mp h) h)
    exact Symb.rtg_mono (fun x y h => (e2 x y).mpr h) this
  · intro h
    have := (Symb.prune_reach hok j a b).mpr (Symb.rtg_mono (fun x y h => (e2 x y).mp h) h)
    exact Symb.rtg_mono (fun x y h => (e1 x y).mpr h) this

/-- the search on the pruned lists visits exactly the columns the search on the full lists visits -/
theorem mem_dfsRevPost_pruneAdj (hadj : ∀ k, ∀ r ∈ adj k, k < r ∧ r < j) (hp : PruneOkAdj adj p)
    (roots : List Nat) (hroots : ∀ r ∈ roots, r < j) (x : Nat) :
    x ∈ dfsRevPost j (pruneAdj p adj) roots ↔ x ∈ dfsRevPost j adj roots := by
  rw [mem_dfsRevPost_iff (pruneAdj_bound hadj) roots hroots, mem_dfsRevPost_iff hadj roots hroots]
  constructor
  · rintro ⟨s, hs, h⟩; exact ⟨s, hs, (reach_pruneAdj hadj hp s x).mp h⟩
  · rintro ⟨s, hs, h⟩; exact ⟨s, hs, (reach_pruneAdj hadj hp s x).mpr h⟩

/-- **(3) same vertices** in the postorder (`segrep`) -/
theorem mem_dfsPost_pruneAdj (hadj : ∀ k, ∀ r ∈ adj k, k < r ∧ r < j) (hp : PruneOkAdj adj p)
    (roots : List Nat) (hroots : ∀ r ∈ roots, r < j) (x : Nat) :
    x ∈ dfsPost j (pruneAdj p adj) roots ↔ x ∈ dfsPost j adj roots := by
  rw [dfsPost, dfsPost, mem_reverse, mem_reverse]
  exact mem_dfsRevPost_pruneAdj hadj hp roots hroots x

/-- the two postorders are permutations of each other -/
theorem dfsPost_pruneAdj_perm (hadj : ∀ k, ∀ r ∈ adj k, k < r ∧ r < j) (hp : PruneOkAdj adj p)
    (roots : List Nat) (hroots : ∀ r ∈ roots, r < j) :
    (dfsPost j (pruneAdj p adj) roots).Perm (dfsPost j adj roots) :=
  (perm_ext_iff_of_nodup (dfsPost_nodup (pruneAdj_bound hadj) roots hroots) (dfsPost_nodup hadj roots hroots)).mpr
    (mem_dfsPost_pruneAdj hadj hp roots hroots)

end graph

/-- in a successor-closed list with every successor behind its node, EVERYTHING reachable from a node
(other than the node) is behind it -/
theorem TopoClosed.sublist_reach {adj : Nat → List Nat} {post : List Nat} (h : TopoClosed adj post) :
    ∀ k ∈ post, ∀ r, Reach adj k r → r ≠ k → [k, r] <+ post := by
  induction post with
  | nil => intro k hk; simp at hk
  | cons c B ih =>
    intro k hk r hr hne
    rcases mem_cons.mp hk with rfl | hk
    · rcases Relation.ReflTransGen.cases_head hr with e | ⟨m, hm, hmr⟩
      · exact absurd e.symm hne
      · exact Sublist.cons_cons _ (singleton_sublist.mpr (h.2.reach (h.1 m hm) hmr))
    · exact (ih h.2 k hk r hr hne).cons _

section graph
variable {adj : Nat → List Nat} {j : Nat}

/-- (c) strengthened to REACHABILITY: in the reverse postorder every node precedes everything
reachable from it -/
theorem dfsRevPost_topo_reach (hadj : ∀ k, ∀ r ∈ adj k, k < r ∧ r < j) (roots : List Nat)
    (hroots : ∀ r ∈ roots, r < j) (k : Nat) (hk : k ∈ dfsRevPost j adj roots) (r : Nat) (hr : Reach adj k r)
    (hne : r ≠ k) : [k, r] <+ dfsRevPost j adj roots :=
  (dfsRevPost_step hadj roots hroots).topo.sublist_reach k hk r hr hne

/-- **(c) for reachability**: whatever is reachable from a listed node `k` occurs BEFORE `k` in the
postorder -/
theorem dfsPost_topo_reach (hadj : ∀ k, ∀ r ∈ adj k, k < r ∧ r < j) (roots : List Nat)
    (hroots : ∀ r ∈ roots, r < j) (k : Nat) (hk : k ∈ dfsPost j adj roots) (r : Nat) (hr : Reach adj k r)
    (hne : r ≠ k) : [r, k] <+ dfsPost j adj roots := by
  rw [dfsPost, mem_reverse] at hk
  have := (dfsRevPost_topo_reach hadj roots hroots k hk r hr hne).reverse
  simpa [dfsPost] using this

/-- **The order found on the pruned lists is topological for the FULL lists**: every visited node
precedes each of its successors in the full adjacency, also those whose edge was cut. -/
theorem dfsRevPost_pruneAdj_topo_full {p : Nat → Option Nat} (hadj : ∀ k, ∀ r ∈ adj k, k < r ∧ r < j)
    (hp : PruneOkAdj adj p) (roots : List Nat) (hroots : ∀ r ∈ roots, r < j)
    (k : Nat) (hk : k ∈ dfsRevPost j (pruneAdj p adj) roots) (r : Nat) (hr : r ∈ adj k) :
    [k, r] <+ dfsRevPost j (pruneAdj p adj) roots := by
  refine dfsRevPost_topo_reach (pruneAdj_bound hadj) roots hroots k hk r ?_ ?_
  · exact (reach_pruneAdj hadj hp k r).mpr (Relation.ReflTransGen.single hr)
  · have := (hadj k r hr).1; omega

theorem dfsPost_pruneAdj_topo_full {p : Nat → Option Nat} (hadj : ∀ k, ∀ r ∈ adj k, k < r ∧ r < j)
    (hp : PruneOkAdj adj p) (roots : List Nat) (hroots : ∀ r ∈ roots, r < j)
    (k : Nat) (hk : k ∈ dfsPost j (pruneAdj p adj) roots) (r : Nat) (hr : r ∈ adj k) :
    [r, k] <+ dfsPost j (pruneAdj p adj) roots := by
  rw [dfsPost, mem_reverse] at hk
  have := (dfsRevPost_pruneAdj_topo_full hadj hp roots hroots k hk r hr).reverse
  simpa [dfsPost] using this

end graph

variable {K : Type} [Field K]

/-- **The reverse postorder of the PRUNED search is a valid schedule.**  As `validSchedule_dfs`, but
the search runs on `pruneAdj p adj`; it is the FULL pattern `adj` that contains the numerically nonzero
one (`hpat`) — a cut edge is a dependency that the order still respects, because its target stays
reachable. -/
theorem validSchedule_prunedDfs (Ls : List (Nat × Vec K)) (w : Vec K) (adj : Nat → List Nat) (roots : List Nat)
    (p : Nat → Option Nat) (f : Nat → Nat × Vec K) (hU : UnitLower Ls)
    (hf : ∀ k (hk : k < Ls.length), f k = Ls[k])
    (hadj : ∀ k, ∀ r ∈ adj k, k < r ∧ r < Ls.length)
    (hrootlt : ∀ r ∈ roots, r < Ls.length)
    (hprune : PruneOkAdj adj p)
    (hpat : ∀ k k' (_ : k < k') (hk' : k' < Ls.length), (Ls[k]).2.get (Ls[k']).1 ≠ 0 → k' ∈ adj k)
    (hroots : ∀ k (hk : k < Ls.length), w.get (Ls[k]).1 ≠ 0 → k ∈ roots)
    (bs : List (List (Nat × Vec K)))
    (hbs : bs.flatten = (dfsRevPost Ls.length (pruneAdj p adj) roots).map f) :
    ValidSchedule Ls w bs := by
  have hadj' := pruneAdj_bound (p := p) hadj
  refine validSchedule_of_closedTopo Ls w _ f hU hf (dfsRevPost_nodup hadj' roots hrootlt)
    (dfsRevPost_lt hadj' roots hrootlt) ?_ ?_ bs hbs
  · intro k hk hw
    exact (mem_dfsRevPost_iff hadj' roots hrootlt k).mpr ⟨k, hroots k hk hw, Relation.ReflTransGen.refl⟩
  · intro k k' hkk' hk' hk hne
    exact dfsRevPost_pruneAdj_topo_full hadj hprune roots hrootlt k hk k' (hpat k k' hkk' hk' hne)

end Slu.LU
