import Slu.Model.Cblas2
/-
Lemmas for the C14 theorems about the level-2 reference BLAS mirrors (Slu/Model/Cblas2.lean):
the dense column list `denseCSC`, its columns and entries.
-/
import SluProofs.Lemmas.Cblas
import SluProofs.Lemmas.Gemv
namespace Slu.Cblas
open Finset Slu.Kernels

section dense
variable {K : Type} [Inhabited K]

theorem dense_colptr (m n lda : Nat) (a : Array K) (j : Nat) (hj : j ≤ n) :
    (denseCSC m n lda a).colptr[j]! = j * m := by
  simp [denseCSC, Nat.lt_succ_of_le hj]

theorem dense_col (m n lda : Nat) (a : Array K) (j : Nat) (hj : j < n) :
    (denseCSC m n lda a).col j = (List.range m).map fun i => (i, a[i + j * lda]!) := by
  unfold CSC.col
  rw [dense_colptr m n lda a (j + 1) (by omega), dense_colptr m n lda a j (by omega)]
  have : (j + 1) * m - j * m = m := by rw [Nat.succ_mul]; omega
  rw [this]
  apply List.map_congr_left
  intro d hd
  have hd' : d < m := by simpa using hd
  have hlt : j * m + d < m * n := by
    calc j * m + d < j * m + m := by omega
      _ = (j + 1) * m := by rw [Nat.succ_mul]
      _ ≤ n * m := Nat.mul_le_mul_right m (by omega)
      _ = m * n := Nat.mul_comm _ _
  have hmod : (j * m + d) % m = d := by rw [Nat.mul_comm, Nat.mul_add_mod, Nat.mod_eq_of_lt hd']
  have hdiv : (j * m + d) / m = j := by
    rw [Nat.mul_comm, Nat.mul_add_div (by omega), Nat.div_eq_of_lt hd']; simp
  simp [denseCSC, hlt, hmod, hdiv]

end dense

section spec
variable {K : Type} [Field K] [Conj K] [Inhabited K]

omit [Conj K] [Inhabited K] in
theorem foldl_dense (m : Nat) (g : Nat → K) (h : K → K) (i : Nat) :
    ((List.range m).map (fun r => (r, g r))).foldl (fun acc (e : Nat × K) => if e.1 = i then acc + h e.2 else acc) 0 =
      if i < m then h (g i) else 0 := by
  induction m with
  | zero => simp
  | succ m ih =>
    rw [List.range_succ, List.map_append, List.foldl_append, ih]
    by_cases him : i = m
    · subst him; simp
    · by_cases hlt : i < m
      · have : i < m + 1 := by omega
        simp [hlt, this, Ne.symm him]
      · have : ¬ i < m + 1 := by omega
        simp [hlt, this, Ne.symm him]

/-- entry `(i, j)` of `op(A)` for the dense column-major array -/
def opA (tr : Tr) (a : Array K) (lda : Nat) (i j : Nat) : K :=
  if tr == Tr.N then a[i + j * lda]! else cj tr a[j + i * lda]!

theorem dense_opEntry (tr : Tr) (m n lda : Nat) (a : Array K) (i j : Nat)
    (hi : i < lenY tr (denseCSC m n lda a)) (hj : j < lenX tr (denseCSC m n lda a)) :
    opEntry tr (denseCSC m n lda a) i j = opA tr a lda i j := by
  unfold opEntry opA
  by_cases h : (tr == Tr.N) = true
  · simp only [h, if_true]
    have hi' : i < m := by simpa [lenY, h, denseCSC] using hi
    have hj' : j < n := by simpa [lenX, h, denseCSC] using hj
    rw [dense_col m n lda a j hj']
    have := foldl_dense m (fun r => a[r + j * lda]!) id i
    simpa [hi'] using this
  · simp only [h]
    have hi' : i < n := by simpa [lenY, h, denseCSC] using hi
    have hj' : j < m := by simpa [lenX, h, denseCSC] using hj
    rw [dense_col m n lda a i hi']
    have := foldl_dense m (fun r => a[r + i * lda]!) (cj tr) j
    simpa [hj'] using this

end spec
/-! ### the dot-product sweeps of `?trsv_` -/
section trsv
variable {K : Type} [Field K] [Conj K] [Inhabited K]

omit [Conj K] [Inhabited K] in
theorem loop_sub_eq_sum (n : Nat) (g : Nat → K) (a : K) :
    loop n (fun t i => t - g i) a = a - ∑ i ∈ range n, g i := by
  induction n with
  | zero => simp [loop_zero]
  | succ n ih => rw [loop_succ, ih, Finset.sum_range_succ]; ring

/-- the sweep of the `uplo = U, trans = T/C` branch of `?trsv_` (dtrsv.c:230-262, ztrsv.c:262-345) -/
def sweepUT (P : Nat → Nat) (c : Nat → Nat → K) (dg : Nat → K) (nounit : Bool) (x : Array K) (m : Nat) : Array K :=
  loop m (fun (x : Array K) j =>
    let temp := loop j (fun (t : K) i => t - c i j * x[P i]!) x[P j]!
    let temp := if nounit then temp / dg j else temp
    x.setIfInBounds (P j) temp) x

omit [Conj K] in
theorem sweepUT_spec (n : Nat) (P : Nat → Nat) (c : Nat → Nat → K) (dg : Nat → K) (nounit : Bool) (x : Array K)
    (hinj : ∀ i j, i < n → j < n → P i = P j → i = j) (hb : ∀ i, i < n → P i < x.size) (m : Nat) (hm : m ≤ n) :
    (sweepUT P c dg nounit x m).size = x.size ∧
    (∀ j, j < m → (sweepUT P c dg nounit x m)[P j]! =
      (fwdSub (fun j i => c i j) (fun j => if nounit then dg j else 1) (fun i => x[P i]!) m).getD j 0) ∧
    (∀ j, m ≤ j → j < n → (sweepUT P c dg nounit x m)[P j]! = x[P j]!) ∧
    (∀ p, (∀ i, i < n → P i ≠ p) → (sweepUT P c dg nounit x m)[p]! = x[p]!) := by
  induction m with
  | zero => simp [sweepUT, loop_zero]
  | succ m ih =>
    obtain ⟨h1, h2, h3, h4⟩ := ih (by omega)
    have hstep : sweepUT P c dg nounit x (m + 1) =
        (sweepUT P c dg nounit x m).setIfInBounds (P m)
          (if nounit then (loop m (fun (t : K) i => t - c i m * (sweepUT P c dg nounit x m)[P i]!) (sweepUT P c dg nounit x m)[P m]!) / dg m
           else loop m (fun (t : K) i => t - c i m * (sweepUT P c dg nounit x m)[P i]!) (sweepUT P c dg nounit x m)[P m]!) := by
      simp [sweepUT, loop_succ]
    have htemp : loop m (fun (t : K) i => t - c i m * (sweepUT P c dg nounit x m)[P i]!) (sweepUT P c dg nounit x m)[P m]! =
        x[P m]! - ∑ i ∈ range m, c i m *
          (fwdSub (fun j i => c i j) (fun j => if nounit then dg j else 1) (fun i => x[P i]!) m).getD i 0 := by
      rw [h3 m (le_refl _) (by omega)]
      rw [loop_congr m _ (fun (t : K) i => t - c i m *
          (fwdSub (fun j i => c i j) (fun j => if nounit then dg j else 1) (fun i => x[P i]!) m).getD i 0)]
      · exact loop_sub_eq_sum m _ _
      · intro t i hi; rw [h2 i hi]
    have hval : (if nounit then (loop m (fun (t : K) i => t - c i m * (sweepUT P c dg nounit x m)[P i]!) (sweepUT P c dg nounit x m)[P m]!) / dg m
           else loop m (fun (t : K) i => t - c i m * (sweepUT P c dg nounit x m)[P i]!) (sweepUT P c dg nounit x m)[P m]!) =
        (fwdSub (fun j i => c i j) (fun j => if nounit then dg j else 1) (fun i => x[P i]!) (m + 1)).getD m 0 := by
      rw [fwdSub_last, htemp]
      cases nounit <;> simp
    rw [hstep, hval]
    have hPm : P m < (sweepUT P c dg nounit x m).size := by rw [h1]; exact hb m (by omega)
    refine ⟨by simp [h1], ?_, ?_, ?_⟩
    · intro j hj
      rw [getElem!_setIfInBounds]
      by_cases hjm : j = m
      · subst hjm; simp [hPm]
      · have hne : ¬ (P m = P j ∧ P m < (sweepUT P c dg nounit x m).size) := by
          intro hc; exact hjm (hinj j m (by omega) (by omega) hc.1.symm)
        rw [if_neg hne, h2 j (by omega), fwdSub_prefix _ _ _ m j (by omega)]
    · intro j hj hjn
      rw [getElem!_setIfInBounds]
      have hne : ¬ (P m = P j ∧ P m < (sweepUT P c dg nounit x m).size) := by
        intro hc
        have := hinj j m hjn (by omega) hc.1.symm
        omega
      rw [if_neg hne, h3 j (by omega) hjn]
    · intro p hp
      rw [getElem!_setIfInBounds]
      have hne : ¬ (P m = p ∧ P m < (sweepUT P c dg nounit x m).size) := by
        intro hc; exact hp m (by omega) hc.1
      rw [if_neg hne, h4 p hp]

/-- the sweep of the `uplo = L, trans = T/C` branch of `?trsv_` (dtrsv.c:264-300, ztrsv.c:347-440):
columns `n-1` down to `0`, inner index `i = n-1, ..., j+1` -/
def sweepLT (n : Nat) (P : Nat → Nat) (c : Nat → Nat → K) (dg : Nat → K) (nounit : Bool) (x : Array K) (m : Nat) : Array K :=
  loop m (fun (x : Array K) jj =>
    let j := n - 1 - jj
    let temp := loop (n - 1 - j) (fun (t : K) ii => let i := n - 1 - ii; t - c i j * x[P i]!) x[P j]!
    let temp := if nounit then temp / dg j else temp
    x.setIfInBounds (P j) temp) x

omit [Conj K] in
theorem sweepLT_spec (n : Nat) (P : Nat → Nat) (c : Nat → Nat → K) (dg : Nat → K) (nounit : Bool) (x : Array K)
    (hinj : ∀ i j, i < n → j < n → P i = P j → i = j) (hb : ∀ i, i < n → P i < x.size)
    (hd : nounit = true → ∀ j, j < n → dg j ≠ 0) (m : Nat) (hm : m ≤ n) :
    (sweepLT n P c dg nounit x m).size = x.size ∧
    (∀ j, n - m ≤ j → j < n →
      (∑ ii ∈ range (n - 1 - j), c (n - 1 - ii) j * (sweepLT n P c dg nounit x m)[P (n - 1 - ii)]!) +
        (if nounit then dg j else 1) * (sweepLT n P c dg nounit x m)[P j]! = x[P j]!) ∧
    (∀ j, j < n - m → (sweepLT n P c dg nounit x m)[P j]! = x[P j]!) ∧
    (∀ p, (∀ i, i < n → P i ≠ p) → (sweepLT n P c dg nounit x m)[p]! = x[p]!) := by
  induction m with
  | zero =>
    refine ⟨by simp [sweepLT, loop_zero], ?_, by simp [sweepLT, loop_zero], by simp [sweepLT, loop_zero]⟩
    intro j h1 h2; omega
  | succ m ih =>
    obtain ⟨h1, h2, h3, h4⟩ := ih (by omega)
    have hj0 : n - 1 - m < n := by omega
    have hstep : sweepLT n P c dg nounit x (m + 1) =
        (sweepLT n P c dg nounit x m).setIfInBounds (P (n - 1 - m))
          (if nounit then (loop (n - 1 - (n - 1 - m)) (fun (t : K) ii => t - c (n - 1 - ii) (n - 1 - m) * (sweepLT n P c dg nounit x m)[P (n - 1 - ii)]!)
              (sweepLT n P c dg nounit x m)[P (n - 1 - m)]!) / dg (n - 1 - m)
           else loop (n - 1 - (n - 1 - m)) (fun (t : K) ii => t - c (n - 1 - ii) (n - 1 - m) * (sweepLT n P c dg nounit x m)[P (n - 1 - ii)]!)
              (sweepLT n P c dg nounit x m)[P (n - 1 - m)]!) := by
      simp [sweepLT, loop_succ]
    have htemp : loop (n - 1 - (n - 1 - m)) (fun (t : K) ii => t - c (n - 1 - ii) (n - 1 - m) * (sweepLT n P c dg nounit x m)[P (n - 1 - ii)]!)
          (sweepLT n P c dg nounit x m)[P (n - 1 - m)]! =
        x[P (n - 1 - m)]! - ∑ ii ∈ range (n - 1 - (n - 1 - m)), c (n - 1 - ii) (n - 1 - m) * (sweepLT n P c dg nounit x m)[P (n - 1 - ii)]! := by
      rw [h3 (n - 1 - m) (by omega)]
      exact loop_sub_eq_sum _ _ _
    rw [hstep, htemp]
    have hsz : P (n - 1 - m) < (sweepLT n P c dg nounit x m).size := by rw [h1]; exact hb _ hj0
    -- positions other than `P (n-1-m)` keep their value
    have keep : ∀ i, i < n → i ≠ n - 1 - m → ∀ v : K,
        ((sweepLT n P c dg nounit x m).setIfInBounds (P (n - 1 - m)) v)[P i]! = (sweepLT n P c dg nounit x m)[P i]! := by
      intro i hi hne v
      rw [getElem!_setIfInBounds]
      have : ¬ (P (n - 1 - m) = P i ∧ P (n - 1 - m) < (sweepLT n P c dg nounit x m).size) := by
        intro hc; exact hne (hinj i (n - 1 - m) hi hj0 hc.1.symm)
      rw [if_neg this]
    refine ⟨by simp [h1], ?_, ?_, ?_⟩
    · intro j hj hjn
      have hsum : ∀ v : K, ∑ ii ∈ range (n - 1 - j), c (n - 1 - ii) j *
            ((sweepLT n P c dg nounit x m).setIfInBounds (P (n - 1 - m)) v)[P (n - 1 - ii)]! =
          ∑ ii ∈ range (n - 1 - j), c (n - 1 - ii) j * (sweepLT n P c dg nounit x m)[P (n - 1 - ii)]! := by
        intro v
        apply Finset.sum_congr rfl
        intro ii hii
        have := mem_range.mp hii
        rw [keep (n - 1 - ii) (by omega) (by omega) v]
      rw [hsum]
      by_cases hjm : j = n - 1 - m
      · subst hjm
        rw [getElem!_setIfInBounds]
        simp only [hsz, and_self, if_true]
        cases hnu : nounit
        · simp
        · have := hd hnu (n - 1 - m) hj0
          simp only [if_true]
          field_simp
          ring
      · rw [keep j hjn hjm]
        exact h2 j (by omega) hjn
    · intro j hj
      rw [keep j (by omega) (by omega)]
      exact h3 j (by omega)
    · intro p hp
      rw [getElem!_setIfInBounds]
      have : ¬ (P (n - 1 - m) = p ∧ P (n - 1 - m) < (sweepLT n P c dg nounit x m).size) := by
        intro hc; exact hp _ hj0 hc.1
      rw [if_neg this, h4 p hp]

end trsv
/-! ### the column sweeps of `?trsv_` (`trans = N`) -/
section trsvN
variable {K : Type} [Field K] [Inhabited K]

/-- one column of the `trans = N, uplo = L` sweep (dtrsv.c:196-226) -/
def colStepLN [BEq K] (n : Nat) (P : Nat → Nat) (M : Nat → Nat → K) (nounit : Bool) (x : Array K) (j : Nat) : Array K :=
  if x[P j]! == 0 then x else
  let x := if nounit then x.setIfInBounds (P j) (x[P j]! / M j j) else x
  let temp := x[P j]!
  loop (n - 1 - j) (fun (x : Array K) ii => let i := j + 1 + ii
    x.setIfInBounds (P i) (x[P i]! - temp * M i j)) x

omit [Inhabited K] in
theorem fwdSub_entry (M : Nat → Nat → K) (d b : Nat → K) (n m : Nat) (hm : m < n) :
    (fwdSub M d b n).getD m 0 = (b m - ∑ j ∈ range m, M m j * (fwdSub M d b n).getD j 0) / d m := by
  rw [fwdSub_stable M d b (m + 1) n m (by omega) (by omega), fwdSub_last]
  congr 2
  apply Finset.sum_congr rfl
  intro j hj
  rw [fwdSub_stable M d b m n j (mem_range.mp hj) (by omega)]

variable [BEq K] [LawfulBEq K]

theorem colStepLN_spec (n : Nat) (P : Nat → Nat) (M : Nat → Nat → K) (nounit : Bool) (b : Nat → K) (x0 X : Array K)
    (hinj : ∀ i j, i < n → j < n → P i = P j → i = j) (hb : ∀ i, i < n → P i < X.size) (m : Nat) (hm : m < n)
    (h1 : ∀ j, j < m → X[P j]! = (fwdSub M (fun j => if nounit then M j j else 1) b n).getD j 0)
    (h2 : ∀ i, m ≤ i → i < n → X[P i]! = b i - ∑ j ∈ range m, M i j * (fwdSub M (fun j => if nounit then M j j else 1) b n).getD j 0)
    (h3 : ∀ p, (∀ i, i < n → P i ≠ p) → X[p]! = x0[p]!) :
    (colStepLN n P M nounit X m).size = X.size ∧
    (∀ j, j < m + 1 → (colStepLN n P M nounit X m)[P j]! = (fwdSub M (fun j => if nounit then M j j else 1) b n).getD j 0) ∧
    (∀ i, m + 1 ≤ i → i < n → (colStepLN n P M nounit X m)[P i]! =
        b i - ∑ j ∈ range (m + 1), M i j * (fwdSub M (fun j => if nounit then M j j else 1) b n).getD j 0) ∧
    (∀ p, (∀ i, i < n → P i ≠ p) → (colStepLN n P M nounit X m)[p]! = x0[p]!) := by
  have hfs := fwdSub_entry M (fun j => if nounit then M j j else 1) b n m hm
  rw [← h2 m (le_refl _) hm] at hfs
  unfold colStepLN
  by_cases hz : X[P m]! = 0
  · have : (X[P m]! == 0) = true := by simp [hz]
    simp only [this, if_true]
    have hfm : (fwdSub M (fun j => if nounit then M j j else 1) b n).getD m 0 = 0 := by rw [hfs, hz]; simp
    refine ⟨by simp, ?_, ?_, h3⟩
    · intro j hj
      by_cases hjm : j = m
      · subst hjm; rw [hz, hfm]
      · exact h1 j (by omega)
    · intro i hi hin
      rw [h2 i (by omega) hin, Finset.sum_range_succ, hfm]; simp
  · have : (X[P m]! == 0) = false := by simp [hz]
    simp only [this, Bool.false_eq_true, if_false]
    -- the array after the optional division
    have hX1 : ∃ X1 : Array K, (if nounit then X.setIfInBounds (P m) (X[P m]! / M m m) else X) = X1 ∧ X1.size = X.size ∧
        X1[P m]! = (fwdSub M (fun j => if nounit then M j j else 1) b n).getD m 0 ∧
        (∀ p, p ≠ P m → X1[p]! = X[p]!) := by
      by_cases hnu : nounit = true
      · simp only [hnu, if_true] at hfs ⊢
        refine ⟨X.setIfInBounds (P m) (X[P m]! / M m m), rfl, by simp, ?_, ?_⟩
        · rw [getElem!_setIfInBounds]
          simp only [hb m hm, and_self, if_true]
          exact hfs.symm
        · intro p hp
          rw [getElem!_setIfInBounds]
          have : ¬ (P m = p ∧ P m < X.size) := fun hc => hp hc.1.symm
          rw [if_neg this]
      · have hnu' : nounit = false := by simpa using hnu
        simp only [hnu', Bool.false_eq_true, if_false] at hfs ⊢
        refine ⟨X, rfl, rfl, ?_, fun _ _ => rfl⟩
        rw [hfs]; simp
    obtain ⟨X1, hX1e, hs1, hv1, ho1⟩ := hX1
    rw [hX1e]
    have hupd := updTo_spec (n - 1 - m) (fun ii => P (m + 1 + ii)) (fun ii v => v - X1[P m]! * M (m + 1 + ii) m) X1
      (fun i j hi hj h => by have := hinj _ _ (by omega) (by omega) h; omega)
      (fun i hi => by rw [hs1]; exact hb _ (by omega)) (n - 1 - m) (le_refl _)
    have hY : loop (n - 1 - m) (fun (x : Array K) ii => x.setIfInBounds (P (m + 1 + ii)) (x[P (m + 1 + ii)]! - X1[P m]! * M (m + 1 + ii) m)) X1 =
        updTo (fun ii => P (m + 1 + ii)) (fun ii v => v - X1[P m]! * M (m + 1 + ii) m) X1 (n - 1 - m) := rfl
    rw [hY]
    obtain ⟨u1, u2, u3⟩ := hupd
    have hoff : ∀ j, j < m + 1 → ∀ ii, ii < n - 1 - m → P (m + 1 + ii) ≠ P j := by
      intro j hj ii hii hc
      have := hinj _ _ (by omega) (by omega) hc
      omega
    refine ⟨by rw [u1, hs1], ?_, ?_, ?_⟩
    · intro j hj
      rw [u3 (P j) (hoff j hj)]
      by_cases hjm : j = m
      · subst hjm; exact hv1
      · have hne : P j ≠ P m := fun hc => hjm (hinj _ _ (by omega) hm hc)
        rw [ho1 _ hne]; exact h1 j (by omega)
    · intro i hi hin
      have hi' : i = m + 1 + (i - m - 1) := by omega
      have := u2 (i - m - 1) (by omega)
      simp only [show i - m - 1 < n - 1 - m by omega, if_true] at this
      rw [← hi'] at this
      rw [this, hv1]
      have hne : P i ≠ P m := fun hc => by have := hinj _ _ hin hm hc; omega
      rw [ho1 _ hne, h2 i (by omega) hin, Finset.sum_range_succ]
      ring
    · intro p hp
      rw [u3 p (fun ii hii => hp _ (by omega))]
      have hne : p ≠ P m := fun hc => hp m hm hc.symm
      rw [ho1 p hne]; exact h3 p hp

theorem sweepLN_spec (n : Nat) (P : Nat → Nat) (M : Nat → Nat → K) (nounit : Bool) (x : Array K)
    (hinj : ∀ i j, i < n → j < n → P i = P j → i = j) (hb : ∀ i, i < n → P i < x.size) (m : Nat) (hm : m ≤ n) :
    (loop m (colStepLN n P M nounit) x).size = x.size ∧
    (∀ j, j < m → (loop m (colStepLN n P M nounit) x)[P j]! =
      (fwdSub M (fun j => if nounit then M j j else 1) (fun i => x[P i]!) n).getD j 0) ∧
    (∀ i, m ≤ i → i < n → (loop m (colStepLN n P M nounit) x)[P i]! =
      x[P i]! - ∑ j ∈ range m, M i j * (fwdSub M (fun j => if nounit then M j j else 1) (fun i => x[P i]!) n).getD j 0) ∧
    (∀ p, (∀ i, i < n → P i ≠ p) → (loop m (colStepLN n P M nounit) x)[p]! = x[p]!) := by
  induction m with
  | zero => simp [loop_zero]
  | succ m ih =>
    obtain ⟨s, h1, h2, h3⟩ := ih (by omega)
    rw [loop_succ]
    obtain ⟨t, g1, g2, g3⟩ := colStepLN_spec n P M nounit (fun i => x[P i]!) x (loop m (colStepLN n P M nounit) x)
      hinj (fun i hi => by rw [s]; exact hb i hi) m (by omega) h1 h2 h3
    exact ⟨by rw [t, s], g1, g2, g3⟩

end trsvN
end Slu.Cblas
