import Slu.Model.Cblas2
/-
Lemmas for the C14 theorems about the level-2 reference BLAS mirrors (Slu/Model/Cblas2.lean):
the dense column list `denseCSC`, its columns and entries.
-/
import SluProofs.Lemmas.Cblas
import SluProofs.Lemmas.Gemv
namespace Slu.Cblas
open Finset Slu.Kernels

section dense
variable {K : Type} [Inhabited K]

theorem dense_colptr (m n lda : Nat) (a : Array K) (j : Nat) (hj : j ≤ n) :
    (denseCSC m n lda a).colptr[j]! = j * m := by
  simp [denseCSC, Nat.lt_succ_of_le hj]

theorem dense_col (m n lda : Nat) (a : Array K) (j : Nat) (hj : j < n) :
    (denseCSC m n lda a).col j = (List.range m).map fun i => (i, a[i + j * lda]!) := by
  unfold CSC.col
  rw [dense_colptr m n lda a (j + 1) (by omega), dense_colptr m n lda a j (by omega)]
  have : (j + 1) * m - j * m = m := by rw [Nat.succ_mul]; omega
  rw [this]
  apply List.map_congr_left
  intro d hd
  have hd' : d < m := by simpa using hd
  have hlt : j * m + d < m * n := by
    calc j * m + d < j * m + m := by omega
      _ = (j + 1) * m := by rw [Nat.succ_mul]
      _ ≤ n * m := Nat.mul_le_mul_right m (by omega)
      _ = m * n := Nat.mul_comm _ _
  have hmod : (j * m + d) % m = d := by rw [Nat.mul_comm, Nat.mul_add_mod, Nat.mod_eq_of_lt hd']
  have hdiv : (j * m + d) / m = j := by
    rw [Nat.mul_comm, Nat.mul_add_div (by omega), Nat.div_eq_of_lt hd']; simp
  simp [denseCSC, hlt, hmod, hdiv]

end dense

section spec
variable {K : Type} [Field K] [Conj K] [Inhabited K]

omit [Conj K] [Inhabited K] in
theorem foldl_dense (m : Nat) (g : Nat → K) (h : K → K) (i : Nat) :
    ((List.range m).map (fun r => (r, g r))).foldl (fun acc (e : Nat × K) => if e.1 = i then acc + h e.2 else acc) 0 =
      if i < m then h (g i) else 0 := by
  induction m with
  | zero => simp
  | succ m ih =>
    rw [List.range_succ, List.map_append, List.foldl_append, ih]
    by_cases him : i = m
    · subst him; simp
    · by_cases hlt : i < m
      · have : i < m + 1 := by omega
        simp [hlt, this, Ne.symm him]
      · have : ¬ i < m + 1 := by omega
        simp [hlt, this, Ne.symm him]

/-- entry `(i, j)` of `op(A)` for the dense column-major array -/
def opA (tr : Tr) (a : Array K) (lda : Nat) (i j : Nat) : K :=
  if tr == Tr.N then a[i + j * lda]! else cj tr a[j + i * lda]!

theorem dense_opEntry (tr : Tr) (m n lda : Nat) (a : Array K) (i j : Nat)
    (hi : i < lenY tr (denseCSC m n lda a)) (hj : j < lenX tr (denseCSC m n lda a)) :
    opEntry tr (denseCSC m n lda a) i j = opA tr a lda i j := by
  unfold opEntry opA
  by_cases h : (tr == Tr.N) = true
  · simp only [h, if_true]
    have hi' : i < m := by simpa [lenY, h, denseCSC] using hi
    have hj' : j < n := by simpa [lenX, h, denseCSC] using hj
    rw [dense_col m n lda a j hj']
    have := foldl_dense m (fun r => a[r + j * lda]!) id i
    simpa [hi'] using this
  · simp only [h]
    have hi' : i < n := by simpa [lenY, h, denseCSC] using hi
    have hj' : j < m := by simpa [lenX, h, denseCSC] using hj
    rw [dense_col m n lda a i hi']
    have := foldl_dense m (fun r => a[r + i * lda]!) (cj tr) j
    simpa [hj'] using this

end spec
end Slu.Cblas
