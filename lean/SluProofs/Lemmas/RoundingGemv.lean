import SluProofs.Lemmas.Rounding
/-
Forward error of `y := alpha*op(A)*x + beta*y` (`sp_[sd]gemv`, C14) in every evaluation order.

SRC/dsp_blas2.c:446-480 forms, per output entry (`k` = stored entries of the row/column of `op(A)`):
  NOTRANS:  `y_i = fl(beta*y_i)`, `temp_j = fl(alpha*x_j)`, `y_i += fl(temp_j * a_ij)` (in column order)
  TRANS:    `temp = Σ fl(a_ij * x_i)` accumulated, then `y_j = fl(fl(beta*y_j) + fl(alpha*temp))`
Both are covered, in any order of accumulation, with or without FMA:
  `|ŷ - (alpha Σ a x + beta y)| ≤ γ_{k+2} (|alpha| Σ|a||x| + |beta||y|)`
(the run-time check uses `g(k+4)`).
-/
set_option linter.unusedSectionVars false
namespace Slu.Rounding
open Finset

variable {F : Type} [Field F] [LinearOrder F] [IsStrictOrderedRing F] {u : F}

/-- `y` is a computed value of `Σ_{(a,b) ∈ l} a b` in SOME order (`0` for the empty sum) -/
def SumOf (u : F) (l : List (F × F)) (y : F) : Prop :=
  (l = [] ∧ y = 0) ∨ ∃ s : STree F, s.leaves.Perm l ∧ s.Eval u y

/-- a computed sum of `k` products is within `γ_k Σ|a||b|` of the exact one -/
theorem SumOf.bound (hu0 : 0 ≤ u) {l : List (F × F)} {y : F} (h : SumOf u l y)
    (hk : (l.length : F) * u < 1) : |y - dotSum l| ≤ gamma u l.length * dotAbs l := by
  rcases h with ⟨rfl, rfl⟩ | ⟨s, hperm, hs⟩
  · simp [dotSum, dotAbs]
  · rw [← dotSum_perm hperm, ← dotAbs_perm hperm, ← hperm.length_eq] at *
    have hpos := s.leaves_length_pos
    have hu1 : u < 1 := by
      have : (1 : F) ≤ s.leaves.length := by exact_mod_cast hpos
      nlinarith
    exact (hs.psum hu0 hu1).bound hu0 hk

theorem SumOf.bound_le (hu0 : 0 ≤ u) {l : List (F × F)} {y : F} (h : SumOf u l y) {K : Nat}
    (hK : l.length ≤ K) (hKu : (K : F) * u < 1) : |y - dotSum l| ≤ gamma u K * dotAbs l :=
  (h.bound hu0 (mul_lt_one_of_le hu0 hK hKu)).trans
    (mul_le_mul_of_nonneg_right (gamma_mono hu0 hK hKu) (dotAbs_nonneg l))

/-- **gemv, NOTRANS form**: `temp_j = fl(alpha x_j)`, then `beta*y_i` and the `temp_j * a_j` summed in
any order. -/
theorem gemv_notrans_bound (hu0 : 0 ≤ u) {k : Nat} (a x temp : Nat → F) (alpha beta yi y' : F)
    (htemp : ∀ j < k, Rnd u (alpha * x j) (temp j))
    (hy' : SumOf u ((beta, yi) :: (List.range k).map fun j => (temp j, a j)) y')
    (hu : ((k + 2 : Nat) : F) * u < 1) :
    |y' - (alpha * ∑ j ∈ range k, a j * x j + beta * yi)| ≤
      gamma u (k + 2) * (|alpha| * ∑ j ∈ range k, |a j| * |x j| + |beta| * |yi|) := by
  have hu1 : u < 1 := by
    have : (1 : F) ≤ ((k + 2 : Nat) : F) := by exact_mod_cast Nat.succ_pos _
    nlinarith
  have h1u : ((1 : Nat) : F) * u < 1 := by simpa using hu1
  have hk1 : ((k + 1 : Nat) : F) * u < 1 := mul_lt_one_of_le hu0 (by omega) hu
  have gk1 := gamma_nonneg hu0 hk1
  have hb := hy'.bound_le hu0 (K := k + 1) (by simp) hk1
  have e1 : dotSum ((beta, yi) :: (List.range k).map fun j => (temp j, a j)) =
      beta * yi + ∑ j ∈ range k, temp j * a j := by
    have : dotSum ((beta, yi) :: (List.range k).map fun j => (temp j, a j)) =
        beta * yi + dotSum ((List.range k).map fun j => (temp j, a j)) := by simp [dotSum]
    rw [this, dotSum_range]
  have e2 : dotAbs ((beta, yi) :: (List.range k).map fun j => (temp j, a j)) =
      |beta| * |yi| + ∑ j ∈ range k, |temp j| * |a j| := by
    have : dotAbs ((beta, yi) :: (List.range k).map fun j => (temp j, a j)) =
        |beta| * |yi| + dotAbs ((List.range k).map fun j => (temp j, a j)) := by simp [dotAbs]
    rw [this, dotAbs_range]
  rw [e1, e2] at hb
  set S : F := ∑ j ∈ range k, |a j| * |x j| with hS
  have hS0 : 0 ≤ S := Finset.sum_nonneg fun j _ => by positivity
  -- temp_j = alpha x_j (1 + d_j)
  have ht : ∀ j < k, |temp j * a j - alpha * (a j * x j)| ≤ u * (|alpha| * (|a j| * |x j|)) ∧
      |temp j| * |a j| ≤ (1 + u) * (|alpha| * (|a j| * |x j|)) := by
    intro j hj
    obtain ⟨d, hd, e⟩ := htemp j hj
    have hd1 : |1 + d| ≤ 1 + u := (abs_add_le 1 d).trans (by simpa using hd)
    constructor
    · have : temp j * a j - alpha * (a j * x j) = alpha * (a j * x j) * d := by rw [e]; ring
      rw [this, abs_mul, abs_mul, abs_mul, mul_comm]
      exact mul_le_mul_of_nonneg_right hd (by positivity)
    · rw [e, abs_mul, abs_mul]
      calc |alpha| * |x j| * |1 + d| * |a j| = |1 + d| * (|alpha| * (|a j| * |x j|)) := by ring
        _ ≤ (1 + u) * (|alpha| * (|a j| * |x j|)) := mul_le_mul_of_nonneg_right hd1 (by positivity)
  have T1 : |∑ j ∈ range k, temp j * a j - alpha * ∑ j ∈ range k, a j * x j| ≤ u * (|alpha| * S) := by
    rw [Finset.mul_sum, ← Finset.sum_sub_distrib]
    refine (Finset.abs_sum_le_sum_abs _ _).trans ?_
    rw [hS, Finset.mul_sum, Finset.mul_sum]
    exact Finset.sum_le_sum fun j hj => (ht j (Finset.mem_range.mp hj)).1
  have T2 : ∑ j ∈ range k, |temp j| * |a j| ≤ (1 + u) * (|alpha| * S) := by
    rw [hS, Finset.mul_sum, Finset.mul_sum]
    exact Finset.sum_le_sum fun j hj => (ht j (Finset.mem_range.mp hj)).2
  have split : y' - (alpha * ∑ j ∈ range k, a j * x j + beta * yi) =
      (y' - (beta * yi + ∑ j ∈ range k, temp j * a j)) +
        (∑ j ∈ range k, temp j * a j - alpha * ∑ j ∈ range k, a j * x j) := by ring
  rw [split]
  refine (abs_add_le _ _).trans ?_
  have hu_le : u ≤ gamma u 1 := by simpa using le_gamma hu0 h1u
  have hadd := gamma_add hu0 (j := k + 1) (k := 1) hu
  have hmono := gamma_mono hu0 (j := k + 1) (k := k + 2) (by omega) hu
  have aS : 0 ≤ |alpha| * S := mul_nonneg (abs_nonneg _) hS0
  have by0 : 0 ≤ |beta| * |yi| := by positivity
  have g1 := gamma_nonneg hu0 h1u
  -- coefficient of |alpha| S: γ_{k+1}(1+u) + u ≤ γ_{k+2}
  have hc : gamma u (k + 1) * (1 + u) + u ≤ gamma u (k + 2) := by nlinarith
  calc |y' - (beta * yi + ∑ j ∈ range k, temp j * a j)| +
        |∑ j ∈ range k, temp j * a j - alpha * ∑ j ∈ range k, a j * x j|
      ≤ gamma u (k + 1) * (|beta| * |yi| + (1 + u) * (|alpha| * S)) + u * (|alpha| * S) := by
        have := mul_le_mul_of_nonneg_left (add_le_add_left T2 (|beta| * |yi|)) gk1
        linarith
    _ = (gamma u (k + 1) * (1 + u) + u) * (|alpha| * S) + gamma u (k + 1) * (|beta| * |yi|) := by ring
    _ ≤ gamma u (k + 2) * (|alpha| * S) + gamma u (k + 2) * (|beta| * |yi|) :=
        add_le_add (mul_le_mul_of_nonneg_right hc aS) (mul_le_mul_of_nonneg_right hmono by0)
    _ = gamma u (k + 2) * (|alpha| * S + |beta| * |yi|) := by ring

/-- **gemv, TRANS form**: `temp` = the inner product summed in any order, then
`y' = fl(beta*y) + fl(alpha*temp)` summed. -/
theorem gemv_trans_bound (hu0 : 0 ≤ u) {k : Nat} (a x : Nat → F) (alpha beta yi temp y' : F)
    (htemp : SumOf u ((List.range k).map fun j => (a j, x j)) temp)
    (hy' : SumOf u [(beta, yi), (alpha, temp)] y')
    (hu : ((k + 2 : Nat) : F) * u < 1) :
    |y' - (alpha * ∑ j ∈ range k, a j * x j + beta * yi)| ≤
      gamma u (k + 2) * (|alpha| * ∑ j ∈ range k, |a j| * |x j| + |beta| * |yi|) := by
  have hk : (k : F) * u < 1 := mul_lt_one_of_le hu0 (by omega) hu
  have h2 : ((2 : Nat) : F) * u < 1 := mul_lt_one_of_le hu0 (by omega) hu
  have gk := gamma_nonneg hu0 hk
  have g2 := gamma_nonneg hu0 h2
  have hb1 := htemp.bound_le hu0 (K := k) (by simp) hk
  rw [dotSum_range, dotAbs_range] at hb1
  have hb2 := hy'.bound_le hu0 (K := 2) (by simp) h2
  have e1 : dotSum [(beta, yi), (alpha, temp)] = beta * yi + alpha * temp := by simp [dotSum]
  have e2 : dotAbs [(beta, yi), (alpha, temp)] = |beta| * |yi| + |alpha| * |temp| := by simp [dotAbs]
  rw [e1, e2] at hb2
  set S : F := ∑ j ∈ range k, |a j| * |x j| with hS
  set D0 : F := ∑ j ∈ range k, a j * x j with hD
  have hS0 : 0 ≤ S := Finset.sum_nonneg fun j _ => by positivity
  have hDS : |D0| ≤ S :=
    (Finset.abs_sum_le_sum_abs _ _).trans (le_of_eq (Finset.sum_congr rfl fun j _ => abs_mul _ _))
  have htemp_abs : |temp| ≤ (1 + gamma u k) * S := by
    have := abs_add_le (temp - D0) D0
    simp only [sub_add_cancel] at this
    nlinarith
  have split : y' - (alpha * D0 + beta * yi) = (y' - (beta * yi + alpha * temp)) + alpha * (temp - D0) := by
    ring
  rw [split]
  refine (abs_add_le _ _).trans ?_
  have T2 : |alpha * (temp - D0)| ≤ |alpha| * (gamma u k * S) := by
    rw [abs_mul]; exact mul_le_mul_of_nonneg_left hb1 (abs_nonneg _)
  have hadd := gamma_add hu0 (j := k) (k := 2) hu
  have hmono := gamma_mono hu0 (j := 2) (k := k + 2) (by omega) hu
  have a0 := abs_nonneg alpha
  have aS : 0 ≤ |alpha| * S := mul_nonneg a0 hS0
  have by0 : 0 ≤ |beta| * |yi| := by positivity
  have hc : gamma u 2 * (1 + gamma u k) + gamma u k ≤ gamma u (k + 2) := by nlinarith
  have hat : |alpha| * |temp| ≤ |alpha| * ((1 + gamma u k) * S) := mul_le_mul_of_nonneg_left htemp_abs a0
  calc |y' - (beta * yi + alpha * temp)| + |alpha * (temp - D0)|
      ≤ gamma u 2 * (|beta| * |yi| + |alpha| * ((1 + gamma u k) * S)) + |alpha| * (gamma u k * S) := by
        have := mul_le_mul_of_nonneg_left (add_le_add_left hat (|beta| * |yi|)) g2
        linarith
    _ = (gamma u 2 * (1 + gamma u k) + gamma u k) * (|alpha| * S) + gamma u 2 * (|beta| * |yi|) := by ring
    _ ≤ gamma u (k + 2) * (|alpha| * S) + gamma u (k + 2) * (|beta| * |yi|) :=
        add_le_add (mul_le_mul_of_nonneg_right hc aS) (mul_le_mul_of_nonneg_right hmono by0)
    _ = gamma u (k + 2) * (|alpha| * S + |beta| * |yi|) := by ring

end Slu.Rounding
