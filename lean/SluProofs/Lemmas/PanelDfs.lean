import Slu.Model.PanelDfs
import SluProofs.Lemmas.ColDfs
/-
`[sdcz]panel_dfs` (Slu/Model/PanelDfs.lean): the explicit-stack loop of one panel column is the machine of
`[sdcz]column_dfs` (Slu/Model/ColDfs.lean) in LOCKSTEP — the stack-loop proof of Lemmas/ColDfs.lean is reused,
not repeated.

For a panel column `jj` the panel state `ps` is related (`Sim`) to a COMPANION column_dfs state `cs` over the
same read-only arrays (`e.cenv`, `jcol` = first column of the panel):
  * `cs.lsub` agrees with `Glu->lsub` on `[0, |lsub|)` and receives its appended rows beyond (the panel routine
    puts them into `panel_lsub` instead);
  * row `r` carries the mark `jj` in `marker[0..m)`  iff  it carries the mark `jcol` in the companion's `marker2`;
  * `repfnz_col[s] = cs.repfnz[s]`, `parent`/`xplore` are equal;
  * with `X` the sequence of representatives the companion has appended to its `segrep` in this column, the
    panel has appended `pushNew M0 X` — those whose `marker1` entry was `< jcol` at column entry (`M0`), first
    occurrence only — and set their `marker1` to `jj`.
Both machines then take the same branch at every transition (`rowStep_sim`, `popStep_sim`, `run_sim`,
`rootStep_sim`, `search_sim`); the only facts needed about the run itself are the flat invariants `Inv`/`PInv`
(the current node and the parent of every discovered node are discovered representatives, `xplore` of a parent
points into its own list) which keep every read of `lsub` inside `[xlsub[krep], xprune[krep])`.
-/
namespace Slu.PanelDfs
open Slu Slu.LU List
open Slu.ColDfs (EMPTY oob rd wr repOf slice size_wr rd_wr_ne rd_wr_eq rd_wr_self_or slice_snoc slice_congr slice_nil
  EnvOK mk2 mk2_mark_iff disc_wr)

/-! ### `pushNew` -/

/-- the elements of `X` with `M0 x < jcol`, first occurrence only, in order -/
def pushNew (jcol : Int) (M0 : Int → Int) (X : List Int) : List Int :=
  X.foldl (fun acc x => if M0 x < jcol ∧ x ∉ acc then acc ++ [x] else acc) []

theorem pushNew_snoc (jcol : Int) (M0 : Int → Int) (X : List Int) (x : Int) :
    pushNew jcol M0 (X ++ [x]) =
      if M0 x < jcol ∧ x ∉ pushNew jcol M0 X then pushNew jcol M0 X ++ [x] else pushNew jcol M0 X := by
  unfold pushNew; rw [foldl_append]; rfl

theorem pushNew_aux (jcol : Int) (M0 : Int → Int) : ∀ (X acc : List Int), X.Nodup → (∀ x ∈ X, x ∉ acc) →
    X.foldl (fun acc x => if M0 x < jcol ∧ x ∉ acc then acc ++ [x] else acc) acc =
      acc ++ X.filter (fun x => decide (M0 x < jcol))
  | [], acc, _, _ => by simp
  | x :: X, acc, hnd, hdis => by
    have hx : x ∉ acc := hdis x mem_cons_self
    have hnd' := (nodup_cons.mp hnd)
    rw [foldl_cons]
    by_cases hp : M0 x < jcol
    · simp only [hp, hx, not_false_eq_true, and_self, if_true]
      rw [pushNew_aux jcol M0 X (acc ++ [x]) hnd'.2 (fun y hy => by
        intro hmem
        rcases mem_append.mp hmem with h | h
        · exact hdis y (mem_cons_of_mem _ hy) h
        · rw [mem_singleton] at h; subst h; exact hnd'.1 hy)]
      simp [hp]
    · simp only [hp, false_and, if_false]
      rw [pushNew_aux jcol M0 X acc hnd'.2 (fun y hy => hdis y (mem_cons_of_mem _ hy))]
      simp [hp]

/-- on a duplicate-free sequence `pushNew` is a filter -/
theorem pushNew_eq_filter (jcol : Int) (M0 : Int → Int) {X : List Int} (h : X.Nodup) :
    pushNew jcol M0 X = X.filter (fun x => decide (M0 x < jcol)) := by
  unfold pushNew
  rw [pushNew_aux jcol M0 X [] h (fun _ _ => by simp)]
  simp

/-! ### the relation and the invariants -/

/-- `marker1[t]` -/
def m1 (e : Env) (st : St) (t : Int) : Int := rd st.marker (e.m + t)

/-- what the lockstep needs from the read-only arrays of panel column `jj` -/
structure PEnvOK (e : Env) : Prop where
  env : EnvOK e.cenv e.lsub e.lsub.size
  jm : e.jcol ≤ e.m
  jj : e.jcol ≤ e.jj
  off0 : 0 ≤ e.off

structure Sim (e : Env) (B : St) (M0 : Int → Int) (P0 : List Int) (n0p n0c : Int) (X : List Int) (ps : St) (cs : ColDfs.St) : Prop where
  lsub : ∀ x : Int, 0 ≤ x → x < e.lsub.size → rd cs.lsub x = rd e.lsub x
  nextl : (e.lsub.size : Int) ≤ cs.nextl
  szM : (ps.marker.size : Int) = 3 * e.m
  szMc : (cs.marker.size : Int) = 3 * e.m
  mark : ∀ r, 0 ≤ r → r < e.m → (rd ps.marker r = e.jj ↔ mk2 e.cenv cs r = e.jcol)
  szR : e.off + e.m ≤ ps.repfnz.size
  szRc : e.jcol ≤ cs.repfnz.size
  fnz : ∀ s, 0 ≤ s → s < e.jcol → fnz e ps s = rd cs.repfnz s
  parent : ps.parent = cs.parent
  xplore : ps.xplore = cs.xplore
  szP : e.jcol ≤ ps.parent.size
  szX : e.jcol ≤ ps.xplore.size
  hn0p : 0 ≤ n0p ∧ n0p ≤ ps.nseg
  hn0c : 0 ≤ n0c
  cnseg : cs.nseg = n0c + X.length
  cseg : cs.nseg ≤ cs.segrep.size → slice cs.segrep n0c cs.nseg = X
  seg : slice ps.segrep n0p ps.nseg = pushNew e.jcol M0 X
  m1 : ∀ t, 0 ≤ t → t < e.jcol → m1 e ps t = if t ∈ pushNew e.jcol M0 X then e.jj else M0 t
  sgnd : (slice ps.segrep 0 ps.nseg).Nodup
  sgrng : ∀ t ∈ slice ps.segrep 0 ps.nseg, 0 ≤ t ∧ t < e.jcol ∧ e.jcol ≤ PanelDfs.m1 e ps t
  szS : e.jcol ≤ ps.segrep.size
  segpre : slice ps.segrep 0 n0p = P0
  rsz : ps.repfnz.size = B.repfnz.size
  rfr : ∀ x, (x < e.off ∨ e.off + e.m ≤ x) → rd ps.repfnz x = rd B.repfnz x
  mfr : ∀ r, 0 ≤ r → r < e.m → rd ps.marker r = e.jj ∨ rd ps.marker r = rd B.marker r

/-- the parent of every discovered representative is EMPTY or a discovered representative whose saved
position lies in its own list -/
def PInv (e : Env) (st : St) : Prop :=
  ∀ t, 0 ≤ t → t < e.jcol → fnz e st t ≠ EMPTY →
    rd st.parent t = EMPTY ∨
      (0 ≤ rd st.parent t ∧ rd st.parent t < e.jcol ∧ repOf e.cenv (rd st.parent t) = rd st.parent t ∧
        fnz e st (rd st.parent t) ≠ EMPTY ∧ rd e.xlsub (rd st.parent t) ≤ rd st.xplore (rd st.parent t))

structure Inv (e : Env) (c : Cfg) : Prop where
  k0 : 0 ≤ c.krep ∧ c.krep < e.jcol ∧ repOf e.cenv c.krep = c.krep
  kd : fnz e c.st c.krep ≠ EMPTY
  mx : c.maxdfs = rd e.xprune c.krep
  xd : rd e.xlsub c.krep ≤ c.xdfs
  P : PInv e c.st

variable {e : Env} {B : St} {M0 : Int → Int} {P0 : List Int} {n0p n0c : Int}

theorem PInv.of_disc {st st' : St} (h : PInv e st) (hd : ∀ t, fnz e st' t ≠ EMPTY ↔ fnz e st t ≠ EMPTY)
    (h2 : st'.parent = st.parent) (h3 : st'.xplore = st.xplore) : PInv e st' := by
  intro t t0 t1 ht
  rw [h2, h3]
  rcases h t t0 t1 ((hd t).mp ht) with hp | ⟨a, b, c, d, f⟩
  · exact Or.inl hp
  · exact Or.inr ⟨a, b, c, (hd _).mpr d, f⟩

theorem fnz_wr_ne {st : St} {s t v : Int} (h : t ≠ s) :
    fnz e { st with repfnz := wr st.repfnz (e.off + s) v } t = fnz e st t := by
  unfold fnz; exact rd_wr_ne (by omega)

theorem fnz_wr_eq {st : St} {s v : Int} (hoff : 0 ≤ e.off) (h0 : 0 ≤ s) (h1 : s < e.m) (hsz : e.off + e.m ≤ st.repfnz.size) :
    fnz e { st with repfnz := wr st.repfnz (e.off + s) v } s = v := by
  unfold fnz; exact rd_wr_eq (by omega) (by omega)

theorem lowerFnz_disc {st : St} {rep myfnz kp : Int} (hkp : kp ≠ EMPTY) (hd : fnz e st rep ≠ EMPTY) (t : Int) :
    fnz e (lowerFnz e st rep myfnz kp) t ≠ EMPTY ↔ fnz e st t ≠ EMPTY := by
  unfold lowerFnz
  split
  · unfold fnz at hd ⊢
    by_cases ht : t = rep
    · subst ht; exact disc_wr hkp hd _
    · rw [rd_wr_ne (by omega)]
  · exact Iff.rfl

/-- descent into an undiscovered representative `chrep` from the discovered representative `krep` -/
theorem PInv.descend {st st' : St} (h : PInv e st) {krep chrep chperm x' : Int}
    (hk : 0 ≤ krep ∧ krep < e.jcol ∧ repOf e.cenv krep = krep) (hkd : fnz e st krep ≠ EMPTY)
    (hx : rd e.xlsub krep ≤ x') (hc0 : 0 ≤ chrep) (hc1 : chrep < e.jcol) (hcd : fnz e st chrep = EMPTY)
    (szP : e.jcol ≤ st.parent.size) (szX : e.jcol ≤ st.xplore.size)
    (e1 : st'.repfnz = wr st.repfnz (e.off + chrep) chperm) (e2 : st'.parent = wr st.parent chrep krep)
    (e3 : st'.xplore = wr st.xplore krep x') : PInv e st' := by
  have hne : krep ≠ chrep := by intro hh; rw [hh] at hkd; exact hkd hcd
  have hf : ∀ t, t ≠ chrep → fnz e st' t = fnz e st t := by
    intro t ht; unfold fnz; rw [e1]; exact rd_wr_ne (by omega)
  intro t t0 t1 ht
  rw [e2, e3]
  by_cases htc : t = chrep
  · subst htc
    right
    rw [rd_wr_eq t0 (by omega)]
    refine ⟨hk.1, hk.2.1, hk.2.2, ?_, ?_⟩
    · rw [hf _ hne]; exact hkd
    · rw [rd_wr_eq hk.1 (by omega)]; exact hx
  · rw [hf _ htc] at ht
    rw [rd_wr_ne htc]
    rcases h t t0 t1 ht with hp | ⟨a, b, c, d, f⟩
    · exact Or.inl hp
    · right
      have hpc : rd st.parent t ≠ chrep := by intro hh; rw [hh] at d; exact d hcd
      refine ⟨a, b, c, by rw [hf _ hpc]; exact d, ?_⟩
      by_cases hpk : rd st.parent t = krep
      · rw [hpk, rd_wr_eq hk.1 (by omega)]; exact hx
      · rw [rd_wr_ne hpk]; exact f

/-- start of a search at an undiscovered representative -/
theorem PInv.rootStart {st st' : St} (h : PInv e st) {krep kperm : Int}
    (hc0 : 0 ≤ krep) (hc1 : krep < e.jcol) (hcd : fnz e st krep = EMPTY) (szP : e.jcol ≤ st.parent.size)
    (e1 : st'.repfnz = wr st.repfnz (e.off + krep) kperm) (e2 : st'.parent = wr st.parent krep EMPTY)
    (e3 : st'.xplore = st.xplore) : PInv e st' := by
  have hf : ∀ t, t ≠ krep → fnz e st' t = fnz e st t := by
    intro t ht; unfold fnz; rw [e1]; exact rd_wr_ne (by omega)
  intro t t0 t1 ht
  rw [e2, e3]
  by_cases htc : t = krep
  · subst htc
    left
    exact rd_wr_eq t0 (by omega)
  · rw [hf _ htc] at ht
    rw [rd_wr_ne htc]
    rcases h t t0 t1 ht with hp | ⟨a, b, c, d, f⟩
    · exact Or.inl hp
    · right
      have hpc : rd st.parent t ≠ krep := by intro hh; rw [hh] at d; exact d hcd
      exact ⟨a, b, c, by rw [hf _ hpc]; exact d, f⟩

/-! ### primitive paired updates -/

section prim
variable {X : List Int} {ps : St} {cs : ColDfs.St}

theorem Sim.markRow (h : Sim e B M0 P0 n0p n0c X ps cs) {r : Int} (r0 : 0 ≤ r) (r1 : r < e.m) :
    Sim e B M0 P0 n0p n0c X { ps with marker := wr ps.marker r e.jj }
      { cs with marker := wr cs.marker (2 * e.cenv.m + r) e.cenv.jcol } := by
  have hsz := h.szM
  have hszc := h.szMc
  have em : e.cenv.m = e.m := rfl
  have ej : e.cenv.jcol = e.jcol := rfl
  have hm1 : ∀ t, 0 ≤ t → PanelDfs.m1 e { ps with marker := wr ps.marker r e.jj } t = PanelDfs.m1 e ps t := by
    intro t t0; unfold PanelDfs.m1; exact rd_wr_ne (by omega)
  exact { h with
    szM := by show ((wr ps.marker r e.jj).size : Int) = _; rw [size_wr]; exact hsz
    szMc := by show ((wr cs.marker _ _).size : Int) = _; rw [size_wr]; exact hszc
    mark := by
      intro q q0 q1
      have hk := mk2_mark_iff (e := e.cenv) (st := cs) (row := r) (r := q) (by rw [em]; omega) (by rw [em]; omega)
      refine Iff.trans ?_ hk.symm
      rw [show (mk2 e.cenv cs q = e.cenv.jcol) = (rd ps.marker q = e.jj) from propext (h.mark q q0 q1).symm]
      show rd (wr ps.marker r e.jj) q = e.jj ↔ _
      by_cases hq : q = r
      · subst hq; rw [rd_wr_eq q0 (by omega)]; simp
      · rw [rd_wr_ne hq]; simp [hq]
    m1 := fun t t0 t1 => by rw [hm1 t t0]; exact h.m1 t t0 t1
    sgrng := fun t ht => by
      obtain ⟨a, b, c⟩ := h.sgrng t ht
      exact ⟨a, b, by rw [hm1 t a]; exact c⟩
    mfr := fun q q0 q1 => by
      show rd (wr ps.marker r e.jj) q = e.jj ∨ rd (wr ps.marker r e.jj) q = _
      by_cases hq : q = r
      · subst hq; left; exact rd_wr_eq q0 (by omega)
      · rw [rd_wr_ne hq]; exact h.mfr q q0 q1 }

theorem Sim.append (h : Sim e B M0 P0 n0p n0c X ps cs) (row mark : Int) :
    Sim e B M0 P0 n0p n0c X (appendRow ps row) (ColDfs.appendRow e.cenv cs row mark) := by
  have hnl := h.nextl
  have key : Sim e B M0 P0 n0p n0c X (appendRow ps row) { cs with lsub := wr cs.lsub cs.nextl row, nextl := cs.nextl + 1 } :=
    { h with
      lsub := fun x x0 x1 => by
        show rd (wr cs.lsub cs.nextl row) x = _
        rw [rd_wr_ne (by omega)]; exact h.lsub x x0 x1
      nextl := by show _ ≤ cs.nextl + 1; omega }
  unfold ColDfs.appendRow
  split
  · exact { key with }
  · exact key

theorem Sim.lower (h : Sim e B M0 P0 n0p n0c X ps cs) (hE : PEnvOK e) {rep kp myfnz myfnz' : Int} (r0 : 0 ≤ rep) (r1 : rep < e.jcol)
    (hmy : myfnz = myfnz') :
    Sim e B M0 P0 n0p n0c X (lowerFnz e ps rep myfnz kp) (ColDfs.lowerFnz cs rep myfnz' kp) := by
  subst hmy
  unfold lowerFnz ColDfs.lowerFnz
  have hjm := hE.jm
  have hoff := hE.off0
  split
  · exact { h with
      szR := by show _ ≤ ((wr ps.repfnz _ _).size : Int); rw [size_wr]; exact h.szR
      szRc := by show _ ≤ ((wr cs.repfnz _ _).size : Int); rw [size_wr]; exact h.szRc
      fnz := fun s s0 s1 => by
        by_cases hs : s = rep
        · subst hs
          rw [fnz_wr_eq hoff s0 (by omega) h.szR]
          show _ = rd (wr cs.repfnz s kp) s
          rw [rd_wr_eq s0 (by have := h.szRc; omega)]
        · rw [fnz_wr_ne hs]
          show _ = rd (wr cs.repfnz rep kp) s
          rw [rd_wr_ne hs]; exact h.fnz s s0 s1
      rsz := by show (wr ps.repfnz _ _).size = _; rw [size_wr]; exact h.rsz
      rfr := fun x hx => by
        show rd (wr ps.repfnz (e.off + rep) kp) x = _
        rw [rd_wr_ne (by omega)]; exact h.rfr x hx }
  · exact h

end prim

theorem int_nodup_range {l : List Int} {n : Int} (hn : 0 ≤ n) (hnd : l.Nodup) (hr : ∀ t ∈ l, 0 ≤ t ∧ t < n) : (l.length : Int) ≤ n := by
  have h1 : (l.map Int.toNat).Nodup := by
    refine Nodup.map_on ?_ hnd
    intro a ha b hb hab
    have := (hr a ha).1; have := (hr b hb).1; omega
  have h2 : ∀ t ∈ l.map Int.toNat, t < n.toNat := by
    intro t ht
    obtain ⟨a, ha, rfl⟩ := mem_map.mp ht
    have := hr a ha; omega
  have := ColDfs.nodup_lt_length h1 h2
  rw [length_map] at this
  omega

theorem record_parent (e : Env) (st : St) (k : Int) : (record e st k).parent = st.parent ∧ (record e st k).xplore = st.xplore ∧
    (record e st k).repfnz = st.repfnz := by
  unfold record; split <;> exact ⟨rfl, rfl, rfl⟩

theorem lowerFnz_parent (e : Env) (st : St) (a b c : Int) : (lowerFnz e st a b c).parent = st.parent ∧ (lowerFnz e st a b c).xplore = st.xplore := by
  unfold lowerFnz; split <;> exact ⟨rfl, rfl⟩

section prim2
variable {X : List Int} {ps : St} {cs : ColDfs.St}

/-- lines 234-238 against `segrep[nseg++] = krep` of column_dfs -/
theorem Sim.record (h : Sim e B M0 P0 n0p n0c X ps cs) (hE : PEnvOK e) {krep : Int} (k0 : 0 ≤ krep) (k1 : krep < e.jcol) :
    Sim e B M0 P0 n0p n0c (X ++ [krep]) (record e ps krep) { cs with segrep := wr cs.segrep cs.nseg krep, nseg := cs.nseg + 1 } := by
  have hjj := hE.jj
  have hjm := hE.jm
  have hcn := h.cnseg
  have hn0c := h.hn0c
  have hcseg : ((wr cs.segrep cs.nseg krep).size : Int) ≥ cs.nseg + 1 → slice (wr cs.segrep cs.nseg krep) n0c (cs.nseg + 1) = X ++ [krep] := by
    intro hle
    rw [size_wr] at hle
    rw [slice_snoc _ hn0c (by omega), rd_wr_eq (by omega) (by omega)]
    congr 1
    rw [slice_congr hn0c (fun y _ hy => rd_wr_ne (by omega))]
    exact h.cseg (by omega)
  have hm1k := h.m1 krep k0 k1
  have htest : PanelDfs.m1 e ps krep < e.jcol ↔ (M0 krep < e.jcol ∧ krep ∉ pushNew e.jcol M0 X) := by
    rw [hm1k]
    by_cases hin : krep ∈ pushNew e.jcol M0 X
    · simp only [hin, if_true, not_true_eq_false, and_false, iff_false]; omega
    · simp [hin]
  unfold PanelDfs.record
  by_cases hT : rd ps.marker (e.m + krep) < e.jcol
  · have hT' := htest.mp hT
    simp only [hT, if_true]
    have hpn : pushNew e.jcol M0 (X ++ [krep]) = pushNew e.jcol M0 X ++ [krep] := by
      rw [pushNew_snoc]; simp [hT'.1, hT'.2]
    have hnotin : krep ∉ slice ps.segrep 0 ps.nseg := by
      intro hin
      have := (h.sgrng krep hin).2.2
      unfold PanelDfs.m1 at this; omega
    have hp0 := h.hn0p
    have hcap : ps.nseg < ps.segrep.size := by
      have hnd : (slice ps.segrep 0 ps.nseg ++ [krep]).Nodup := by
        rw [nodup_append]
        exact ⟨h.sgnd, by simp, fun a ha b hb => by
          rw [mem_singleton] at hb; subst hb; intro hab; subst hab; exact hnotin ha⟩
      have hlen := int_nodup_range (n := e.jcol) hE.env.jcol0 hnd (fun t ht => by
        rcases mem_append.mp ht with ht | ht
        · exact ⟨(h.sgrng t ht).1, (h.sgrng t ht).2.1⟩
        · rw [mem_singleton] at ht; subst ht; exact ⟨k0, k1⟩)
      rw [length_append, ColDfs.slice_length] at hlen
      have hsz := h.szS
      simp only [length_singleton] at hlen
      omega
    have hslice : ∀ a, 0 ≤ a → a ≤ ps.nseg → slice (wr ps.segrep ps.nseg krep) a (ps.nseg + 1) = slice ps.segrep a ps.nseg ++ [krep] := by
      intro a a0 a1
      rw [slice_snoc _ a0 a1, rd_wr_eq (by omega) hcap]
      congr 1
      exact slice_congr a0 (fun y _ hy => rd_wr_ne (by omega))
    have hm1' : ∀ t, 0 ≤ t → rd (wr ps.marker (e.m + krep) e.jj) (e.m + t) = if t = krep then e.jj else PanelDfs.m1 e ps t := by
      intro t t0
      by_cases ht : t = krep
      · subst ht; simp only [if_true]; exact rd_wr_eq (by omega) (by have := h.szM; omega)
      · simp only [ht, if_false]; exact rd_wr_ne (by omega)
    exact { h with
      szM := by show ((wr ps.marker _ _).size : Int) = _; rw [size_wr]; exact h.szM
      mark := fun r r0 r1 => by
        show rd (wr ps.marker (e.m + krep) e.jj) r = e.jj ↔ _
        rw [rd_wr_ne (by omega)]; exact h.mark r r0 r1
      hn0p := ⟨hp0.1, by show n0p ≤ ps.nseg + 1; omega⟩
      cnseg := by show cs.nseg + 1 = n0c + ((X ++ [krep]).length : Int); rw [length_append]; simp; omega
      cseg := fun hle => hcseg (by exact hle)
      seg := by
        show slice (wr ps.segrep ps.nseg krep) n0p (ps.nseg + 1) = _
        rw [hslice n0p hp0.1 hp0.2, hpn, h.seg]
      m1 := fun t t0 t1 => by
        show rd (wr ps.marker (e.m + krep) e.jj) (e.m + t) = _
        rw [hm1' t t0, hpn, h.m1 t t0 t1]
        by_cases ht : t = krep
        · simp [ht]
        · simp [ht]
      sgnd := by
        show (slice (wr ps.segrep ps.nseg krep) 0 (ps.nseg + 1)).Nodup
        rw [hslice 0 (le_refl _) (by omega), nodup_append]
        exact ⟨h.sgnd, by simp, fun a ha b hb => by
          rw [mem_singleton] at hb; subst hb; intro hab; subst hab; exact hnotin ha⟩
      sgrng := fun t ht => by
        have ht' : t ∈ slice (wr ps.segrep ps.nseg krep) 0 (ps.nseg + 1) := ht
        rw [hslice 0 (le_refl _) (by omega)] at ht'
        show 0 ≤ t ∧ t < e.jcol ∧ e.jcol ≤ rd (wr ps.marker (e.m + krep) e.jj) (e.m + t)
        rcases mem_append.mp ht' with ht' | ht'
        · obtain ⟨a, b, c⟩ := h.sgrng t ht'
          refine ⟨a, b, ?_⟩
          rw [hm1' t a]; split
          · exact hjj
          · exact c
        · rw [mem_singleton] at ht'; subst ht'
          refine ⟨k0, k1, ?_⟩
          rw [hm1' t k0]; simp [hjj]
      szS := by show _ ≤ ((wr ps.segrep _ _).size : Int); rw [size_wr]; exact h.szS
      segpre := by
        show slice (wr ps.segrep ps.nseg krep) 0 n0p = P0
        rw [slice_congr (le_refl _) (fun y _ hy => rd_wr_ne (by omega))]; exact h.segpre
      mfr := fun r r0 r1 => by
        show rd (wr ps.marker (e.m + krep) e.jj) r = e.jj ∨ rd (wr ps.marker (e.m + krep) e.jj) r = _
        rw [rd_wr_ne (by omega)]; exact h.mfr r r0 r1 }
  · have hT' : ¬ (M0 krep < e.jcol ∧ krep ∉ pushNew e.jcol M0 X) := fun hh => hT (htest.mpr hh)
    simp only [hT, if_false]
    have hpn : pushNew e.jcol M0 (X ++ [krep]) = pushNew e.jcol M0 X := by
      rw [pushNew_snoc]; simp only [hT', if_false]
    exact { h with
      cnseg := by show cs.nseg + 1 = n0c + ((X ++ [krep]).length : Int); rw [length_append]; simp; omega
      cseg := fun hle => hcseg (by exact hle)
      seg := by rw [hpn]; exact h.seg
      m1 := fun t t0 t1 => by rw [hpn]; exact h.m1 t t0 t1 }

end prim2

/-! ### the transitions in lockstep -/

/-- the companion configuration -/
def cc (pc : Cfg) (cs : ColDfs.St) : ColDfs.Cfg := ⟨pc.krep, pc.xdfs, pc.maxdfs, cs⟩

/-- `Slu.ColDfs.rowStep` with the row read from `lsub` made a parameter -/
def crowK (e : ColDfs.Env) (c : ColDfs.Cfg) (kchild : Int) : ColDfs.Cfg :=
  let st := c.st
  let xdfs := c.xdfs + 1
  let chmark := mk2 e st kchild
  if chmark ≠ e.jcol then
    let st := { st with marker := wr st.marker (2 * e.m + kchild) e.jcol }
    let chperm := rd e.perm_r kchild
    if chperm = EMPTY then
      { c with xdfs := xdfs, st := ColDfs.appendRow e st kchild chmark }
    else
      let chrep := repOf e chperm
      let myfnz := rd st.repfnz chrep
      if myfnz ≠ EMPTY then
        { c with xdfs := xdfs, st := ColDfs.lowerFnz st chrep myfnz chperm }
      else
        let st := { st with xplore := wr st.xplore c.krep xdfs }
        let st := { st with parent := wr st.parent chrep c.krep }
        let st := { st with repfnz := wr st.repfnz chrep chperm }
        { krep := chrep, xdfs := rd e.xlsub chrep, maxdfs := rd e.xprune chrep, st := st }
  else { c with xdfs := xdfs }

theorem crow_eq (e : ColDfs.Env) (c : ColDfs.Cfg) : ColDfs.rowStep e c = crowK e c (rd c.st.lsub c.xdfs) := rfl

theorem PEnvOK.lists (hE : PEnvOK e) {s : Int} (s0 : 0 ≤ s) (s1 : s < e.jcol) (s2 : repOf e.cenv s = s) :
    0 ≤ rd e.xlsub s ∧ rd e.xlsub s ≤ rd e.xprune s ∧ rd e.xprune s ≤ e.lsub.size ∧
    ∀ x, rd e.xlsub s ≤ x → x < rd e.xprune s →
      0 ≤ rd e.lsub x ∧ rd e.lsub x < e.m ∧
        (rd e.perm_r (rd e.lsub x) = EMPTY ∨ s ≤ rd e.perm_r (rd e.lsub x) ∨ repOf e.cenv (rd e.perm_r (rd e.lsub x)) = s) :=
  hE.env.lists s s0 s1 s2

theorem PEnvOK.perm (hE : PEnvOK e) {r : Int} (r0 : 0 ≤ r) (r1 : r < e.m) :
    rd e.perm_r r = EMPTY ∨ (0 ≤ rd e.perm_r r ∧ rd e.perm_r r < e.jcol) := hE.env.perm r r0 r1

theorem PEnvOK.rep (hE : PEnvOK e) {k : Int} (k0 : 0 ≤ k) (k1 : k < e.jcol) :
    k ≤ repOf e.cenv k ∧ repOf e.cenv k < e.jcol ∧ repOf e.cenv (repOf e.cenv k) = repOf e.cenv k := hE.env.rep k k0 k1

theorem rowStep_sim (hE : PEnvOK e) {X : List Int} {pc : Cfg} {cs : ColDfs.St}
    (hS : Sim e B M0 P0 n0p n0c X pc.st cs) (hI : Inv e pc) (hlt : pc.xdfs < pc.maxdfs) :
    ∃ cs', ColDfs.rowStep e.cenv (cc pc cs) = cc (rowStep e pc) cs' ∧ Sim e B M0 P0 n0p n0c X (rowStep e pc).st cs' ∧ Inv e (rowStep e pc) := by
  obtain ⟨k0, k1, k2⟩ := hI.k0
  obtain ⟨l0, l1, l2, l3⟩ := hE.lists k0 k1 k2
  have hxd := hI.xd
  have hmx := hI.mx
  obtain ⟨kc0, kc1, kcp⟩ := l3 pc.xdfs hxd (by omega)
  have hread : rd cs.lsub pc.xdfs = rd e.lsub pc.xdfs := hS.lsub _ (by omega) (by omega)
  rw [crow_eq]
  show ∃ cs', crowK e.cenv (cc pc cs) (rd cs.lsub pc.xdfs) = _ ∧ _
  rw [hread]
  have hmkiff := hS.mark _ kc0 kc1
  have hjm := hE.jm
  have hoff := hE.off0
  unfold rowStep crowK
  by_cases hmk : rd pc.st.marker (rd e.lsub pc.xdfs) = e.jj
  · have hmk' : mk2 e.cenv cs (rd e.lsub pc.xdfs) = e.cenv.jcol := hmkiff.mp hmk
    have hmk'' : mk2 e.cenv (cc pc cs).st (rd e.lsub pc.xdfs) = e.cenv.jcol := hmk'
    simp only [hmk, hmk'', ne_eq, not_true_eq_false, if_false]
    exact ⟨cs, rfl, hS, { hI with xd := by show rd e.xlsub pc.krep ≤ pc.xdfs + 1; omega }⟩
  · have hmk' : ¬ mk2 e.cenv (cc pc cs).st (rd e.lsub pc.xdfs) = e.cenv.jcol := fun hh => hmk (hmkiff.mpr hh)
    simp only [hmk, hmk', ne_eq, not_false_eq_true, if_true]
    have hS1 := hS.markRow kc0 kc1
    have hP1 : PInv e { pc.st with marker := wr pc.st.marker (rd e.lsub pc.xdfs) e.jj } :=
      hI.P.of_disc (fun _ => Iff.rfl) rfl rfl
    by_cases hp : rd e.perm_r (rd e.lsub pc.xdfs) = EMPTY
    · have hp' : rd e.cenv.perm_r (rd e.lsub pc.xdfs) = EMPTY := hp
      simp only [hp, hp', if_true]
      refine ⟨_, rfl, hS1.append _ _, ?_⟩
      exact { k0 := ⟨k0, k1, k2⟩, kd := hI.kd, mx := hmx, xd := by show rd e.xlsub pc.krep ≤ pc.xdfs + 1; omega,
              P := hP1.of_disc (fun _ => Iff.rfl) rfl rfl }
    · have hp' : ¬ rd e.cenv.perm_r (rd e.lsub pc.xdfs) = EMPTY := hp
      simp only [hp, hp', if_false]
      have hpr : 0 ≤ rd e.perm_r (rd e.lsub pc.xdfs) ∧ rd e.perm_r (rd e.lsub pc.xdfs) < e.jcol := by
        rcases hE.perm kc0 kc1 with h | h
        · exact absurd h hp
        · exact h
      obtain ⟨r1, r2, r3⟩ := hE.rep hpr.1 hpr.2
      have hc0 : 0 ≤ repOf e.cenv (rd e.perm_r (rd e.lsub pc.xdfs)) := by omega
      have hf := hS.fnz _ hc0 r2
      by_cases h3 : fnz e pc.st (repOf e.cenv (rd e.perm_r (rd e.lsub pc.xdfs))) = EMPTY
      · have h3' : rd cs.repfnz (repOf e.cenv (rd e.perm_r (rd e.lsub pc.xdfs))) = EMPTY := by rw [← hf]; exact h3
        have h3a : fnz e { pc.st with marker := wr pc.st.marker (rd e.lsub pc.xdfs) e.jj } (repOf e.cenv (rd e.perm_r (rd e.lsub pc.xdfs))) = EMPTY := h3
        have h3b : rd ({ (cc pc cs).st with marker := wr (cc pc cs).st.marker (2 * e.cenv.m + rd e.lsub pc.xdfs) e.cenv.jcol } : ColDfs.St).repfnz
            (repOf e.cenv (rd e.cenv.perm_r (rd e.lsub pc.xdfs))) = EMPTY := h3'
        simp only [h3a, h3b, ne_eq, not_true_eq_false, if_false]
        refine ⟨_, rfl, ?_, ?_⟩
        · exact { hS1 with
            szR := by show _ ≤ ((wr pc.st.repfnz _ _).size : Int); rw [size_wr]; exact hS.szR
            szRc := by show _ ≤ ((wr cs.repfnz _ _).size : Int); rw [size_wr]; exact hS.szRc
            fnz := fun s s0 s1 => by
              by_cases hs : s = repOf e.cenv (rd e.perm_r (rd e.lsub pc.xdfs))
              · rw [hs]
                show rd (wr pc.st.repfnz (e.off + repOf e.cenv (rd e.perm_r (rd e.lsub pc.xdfs))) (rd e.perm_r (rd e.lsub pc.xdfs))) (e.off + repOf e.cenv (rd e.perm_r (rd e.lsub pc.xdfs))) =
                  rd (wr cs.repfnz (repOf e.cenv (rd e.perm_r (rd e.lsub pc.xdfs))) (rd e.perm_r (rd e.lsub pc.xdfs))) (repOf e.cenv (rd e.perm_r (rd e.lsub pc.xdfs)))
                rw [rd_wr_eq (by omega) (by have := hS.szR; omega), rd_wr_eq hc0 (by have := hS.szRc; omega)]
              · show rd (wr pc.st.repfnz (e.off + repOf e.cenv (rd e.perm_r (rd e.lsub pc.xdfs))) (rd e.perm_r (rd e.lsub pc.xdfs))) (e.off + s) =
                  rd (wr cs.repfnz (repOf e.cenv (rd e.perm_r (rd e.lsub pc.xdfs))) (rd e.perm_r (rd e.lsub pc.xdfs))) s
                rw [rd_wr_ne (by omega), rd_wr_ne hs]; exact hS.fnz s s0 s1
            parent := by show wr pc.st.parent _ _ = wr cs.parent _ _; rw [hS.parent]; rfl
            xplore := by show wr pc.st.xplore _ _ = wr cs.xplore _ _; rw [hS.xplore]; rfl
            szP := by show _ ≤ ((wr pc.st.parent _ _).size : Int); rw [size_wr]; exact hS.szP
            szX := by show _ ≤ ((wr pc.st.xplore _ _).size : Int); rw [size_wr]; exact hS.szX
            rsz := by show (wr pc.st.repfnz _ _).size = _; rw [size_wr]; exact hS.rsz
            rfr := fun x hx => by
              show rd (wr pc.st.repfnz (e.off + repOf e.cenv (rd e.perm_r (rd e.lsub pc.xdfs))) (rd e.perm_r (rd e.lsub pc.xdfs))) x = _
              rw [rd_wr_ne (by omega)]; exact hS.rfr x hx }
        · refine { k0 := ⟨hc0, r2, r3⟩, kd := ?_, mx := rfl, xd := le_refl _, P := ?_ }
          · show rd (wr pc.st.repfnz (e.off + _) _) (e.off + _) ≠ EMPTY
            rw [rd_wr_eq (by omega) (by have := hS.szR; omega)]; exact hp
          · exact hP1.descend (x' := pc.xdfs + 1) ⟨k0, k1, k2⟩ hI.kd (by omega) hc0 r2 h3 hS.szP hS.szX rfl rfl rfl
      · have h3' : ¬ rd cs.repfnz (repOf e.cenv (rd e.perm_r (rd e.lsub pc.xdfs))) = EMPTY := by rw [← hf]; exact h3
        have h3a : ¬ fnz e { pc.st with marker := wr pc.st.marker (rd e.lsub pc.xdfs) e.jj } (repOf e.cenv (rd e.perm_r (rd e.lsub pc.xdfs))) = EMPTY := h3
        have h3b : ¬ rd ({ (cc pc cs).st with marker := wr (cc pc cs).st.marker (2 * e.cenv.m + rd e.lsub pc.xdfs) e.cenv.jcol } : ColDfs.St).repfnz
            (repOf e.cenv (rd e.cenv.perm_r (rd e.lsub pc.xdfs))) = EMPTY := h3'
        simp only [h3a, h3b, ne_eq, not_false_eq_true, if_true]
        refine ⟨_, rfl, hS1.lower hE hc0 r2 hf, ?_⟩
        have hd := fun t => lowerFnz_disc (e := e) (st := { pc.st with marker := wr pc.st.marker (rd e.lsub pc.xdfs) e.jj })
          (myfnz := fnz e { pc.st with marker := wr pc.st.marker (rd e.lsub pc.xdfs) e.jj } (repOf e.cenv (rd e.perm_r (rd e.lsub pc.xdfs)))) hp h3 t
        exact { k0 := ⟨k0, k1, k2⟩, kd := (hd _).mpr hI.kd, mx := hmx, xd := by show rd e.xlsub pc.krep ≤ pc.xdfs + 1; omega,
                P := hP1.of_disc hd (lowerFnz_parent _ _ _ _ _).1 (lowerFnz_parent _ _ _ _ _).2 }

theorem popStep_sim (hE : PEnvOK e) {X : List Int} {pc : Cfg} {cs : ColDfs.St}
    (hS : Sim e B M0 P0 n0p n0c X pc.st cs) (hI : Inv e pc) :
    (∃ ps' cs', popStep e pc = .inr ps' ∧ ColDfs.popStep e.cenv (cc pc cs) = .inr cs' ∧
        Sim e B M0 P0 n0p n0c (X ++ [pc.krep]) ps' cs' ∧ PInv e ps') ∨
    (∃ pc' cs', popStep e pc = .inl pc' ∧ ColDfs.popStep e.cenv (cc pc cs) = .inl (cc pc' cs') ∧
        Sim e B M0 P0 n0p n0c (X ++ [pc.krep]) pc'.st cs' ∧ Inv e pc') := by
  obtain ⟨k0, k1, k2⟩ := hI.k0
  have hS' := hS.record hE k0 k1
  obtain ⟨q1, q2, q3⟩ := record_parent e pc.st pc.krep
  have hP' : PInv e (record e pc.st pc.krep) := hI.P.of_disc (fun t => by unfold fnz; rw [q3]) q1 q2
  have hpar : rd (record e pc.st pc.krep).parent pc.krep = rd cs.parent pc.krep := by rw [q1, hS.parent]
  unfold popStep ColDfs.popStep
  by_cases hk : rd cs.parent pc.krep = EMPTY
  · left
    have hk1 : rd (record e pc.st pc.krep).parent pc.krep = EMPTY := by rw [hpar]; exact hk
    have hk2 : rd ({ (cc pc cs).st with segrep := wr (cc pc cs).st.segrep (cc pc cs).st.nseg (cc pc cs).krep, nseg := (cc pc cs).st.nseg + 1 } : ColDfs.St).parent (cc pc cs).krep = EMPTY := hk
    simp only [hk1, hk2, if_true]
    exact ⟨_, _, rfl, rfl, hS', hP'⟩
  · right
    have hk1 : ¬ rd (record e pc.st pc.krep).parent pc.krep = EMPTY := by rw [hpar]; exact hk
    have hk2 : ¬ rd ({ (cc pc cs).st with segrep := wr (cc pc cs).st.segrep (cc pc cs).st.nseg (cc pc cs).krep, nseg := (cc pc cs).st.nseg + 1 } : ColDfs.St).parent (cc pc cs).krep = EMPTY := hk
    simp only [hk1, hk2, if_false]
    have hkd' : fnz e (record e pc.st pc.krep) pc.krep ≠ EMPTY := by unfold fnz; rw [q3]; exact hI.kd
    rcases hP' pc.krep k0 k1 hkd' with hh | ⟨a, b, c, d, f⟩
    · exact absurd hh hk1
    · refine ⟨_, _, rfl, ?_, hS', { k0 := ⟨a, b, c⟩, kd := d, mx := rfl, xd := f, P := hP' }⟩
      show _ = Sum.inl (cc _ _)
      unfold cc
      simp only
      rw [hpar, q2, hS.xplore]
      rfl

theorem run_sim (hE : PEnvOK e) : ∀ (F : Nat) (X : List Int) (pc : Cfg) (cs cs' : ColDfs.St),
    Sim e B M0 P0 n0p n0c X pc.st cs → Inv e pc → ColDfs.run e.cenv F (cc pc cs) = some cs' →
    ∃ ps' X', run e F pc = some ps' ∧ Sim e B M0 P0 n0p n0c X' ps' cs' ∧ PInv e ps'
  | 0, _, _, _, _, _, _, h => by simp [ColDfs.run] at h
  | F + 1, X, pc, cs, cs', hS, hI, h => by
    unfold ColDfs.run ColDfs.step at h
    unfold run step
    have hx : (cc pc cs).xdfs = pc.xdfs := rfl
    have hm : (cc pc cs).maxdfs = pc.maxdfs := rfl
    rw [hx, hm] at h
    by_cases hlt : pc.xdfs < pc.maxdfs
    · simp only [hlt, if_true] at h ⊢
      obtain ⟨cs1, h1, hS1, hI1⟩ := rowStep_sim hE hS hI hlt
      rw [h1] at h
      exact run_sim hE F X (rowStep e pc) cs1 cs' hS1 hI1 h
    · simp only [hlt, if_false] at h ⊢
      rcases popStep_sim hE hS hI with ⟨ps', cs1, h1, h2, hS1, hP1⟩ | ⟨pc', cs1, h1, h2, hS1, hI1⟩
      · rw [h2] at h
        rw [h1]
        simp only at h ⊢
        cases h
        exact ⟨ps', _, rfl, hS1, hP1⟩
      · rw [h2] at h
        rw [h1]
        simp only at h ⊢
        exact run_sim hE F _ pc' cs1 cs' hS1 hI1 h

/-! ### one nonzero of the column, the column -/

theorem rootStep_sim (hE : PEnvOK e) {fuel : Nat} {X : List Int} {ps : St} {cs cs' : ColDfs.St} {krow : Int}
    (hS : Sim e B M0 P0 n0p n0c X ps cs) (hP : PInv e ps) (r0 : 0 ≤ krow) (r1 : krow < e.m)
    (h : ColDfs.rootStep e.cenv fuel cs krow = some cs') :
    ∃ ps' X', rootStep e fuel ps krow = some ps' ∧ Sim e B M0 P0 n0p n0c X' ps' cs' ∧ PInv e ps' := by
  have hmkiff := hS.mark _ r0 r1
  have hjm := hE.jm
  have hoff := hE.off0
  unfold ColDfs.rootStep at h
  unfold rootStep
  by_cases hmk : rd ps.marker krow = e.jj
  · have hmk' : mk2 e.cenv cs krow = e.cenv.jcol := hmkiff.mp hmk
    simp only [hmk, hmk', if_true] at h ⊢
    cases h
    exact ⟨ps, X, rfl, hS, hP⟩
  · have hmk' : ¬ mk2 e.cenv cs krow = e.cenv.jcol := fun hh => hmk (hmkiff.mpr hh)
    simp only [hmk, hmk', if_false] at h ⊢
    have hS1 := hS.markRow r0 r1
    have hP1 : PInv e { ps with marker := wr ps.marker krow e.jj } := hP.of_disc (fun _ => Iff.rfl) rfl rfl
    by_cases hp : rd e.perm_r krow = EMPTY
    · have hp' : rd e.cenv.perm_r krow = EMPTY := hp
      simp only [hp, hp', if_true] at h ⊢
      cases h
      exact ⟨_, X, rfl, hS1.append _ _, hP1.of_disc (fun _ => Iff.rfl) rfl rfl⟩
    · have hp' : ¬ rd e.cenv.perm_r krow = EMPTY := hp
      simp only [hp, hp', if_false] at h ⊢
      have hpr : 0 ≤ rd e.perm_r krow ∧ rd e.perm_r krow < e.jcol := by
        rcases hE.perm r0 r1 with hh | hh
        · exact absurd hh hp
        · exact hh
      obtain ⟨q1, q2, q3⟩ := hE.rep hpr.1 hpr.2
      have hc0 : 0 ≤ repOf e.cenv (rd e.perm_r krow) := by omega
      have hf := hS.fnz _ hc0 q2
      by_cases h3 : fnz e ps (repOf e.cenv (rd e.perm_r krow)) = EMPTY
      · have h3a : fnz e { ps with marker := wr ps.marker krow e.jj } (repOf e.cenv (rd e.perm_r krow)) = EMPTY := h3
        have h3b : rd ({ cs with marker := wr cs.marker (2 * e.cenv.m + krow) e.cenv.jcol } : ColDfs.St).repfnz
            (repOf e.cenv (rd e.cenv.perm_r krow)) = EMPTY := by
          show rd cs.repfnz (repOf e.cenv (rd e.perm_r krow)) = EMPTY
          rw [← hf]; exact h3
        simp only [h3a, h3b, ne_eq, not_true_eq_false, if_false] at h ⊢
        have hS2 : Sim e B M0 P0 n0p n0c X { ps with marker := wr ps.marker krow e.jj, parent := wr ps.parent (repOf e.cenv (rd e.perm_r krow)) EMPTY, repfnz := wr ps.repfnz (e.off + repOf e.cenv (rd e.perm_r krow)) (rd e.perm_r krow) } { cs with marker := wr cs.marker (2 * e.cenv.m + krow) e.cenv.jcol, parent := wr cs.parent (repOf e.cenv (rd e.perm_r krow)) EMPTY, repfnz := wr cs.repfnz (repOf e.cenv (rd e.perm_r krow)) (rd e.perm_r krow) } :=
          { hS1 with
            szR := by show _ ≤ ((wr ps.repfnz _ _).size : Int); rw [size_wr]; exact hS.szR
            szRc := by show _ ≤ ((wr cs.repfnz _ _).size : Int); rw [size_wr]; exact hS.szRc
            fnz := fun s s0 s1 => by
              by_cases hs : s = repOf e.cenv (rd e.perm_r krow)
              · rw [hs]
                show rd (wr ps.repfnz (e.off + repOf e.cenv (rd e.perm_r krow)) (rd e.perm_r krow)) (e.off + repOf e.cenv (rd e.perm_r krow)) =
                  rd (wr cs.repfnz (repOf e.cenv (rd e.perm_r krow)) (rd e.perm_r krow)) (repOf e.cenv (rd e.perm_r krow))
                rw [rd_wr_eq (by omega) (by have := hS.szR; omega), rd_wr_eq hc0 (by have := hS.szRc; omega)]
              · show rd (wr ps.repfnz (e.off + repOf e.cenv (rd e.perm_r krow)) (rd e.perm_r krow)) (e.off + s) =
                  rd (wr cs.repfnz (repOf e.cenv (rd e.perm_r krow)) (rd e.perm_r krow)) s
                rw [rd_wr_ne (by omega), rd_wr_ne hs]; exact hS.fnz s s0 s1
            parent := by show wr ps.parent _ _ = wr cs.parent _ _; rw [hS.parent]
            szP := by show _ ≤ ((wr ps.parent _ _).size : Int); rw [size_wr]; exact hS.szP
            rsz := by show (wr ps.repfnz _ _).size = _; rw [size_wr]; exact hS.rsz
            rfr := fun x hx => by
              show rd (wr ps.repfnz (e.off + repOf e.cenv (rd e.perm_r krow)) (rd e.perm_r krow)) x = _
              rw [rd_wr_ne (by omega)]; exact hS.rfr x hx }
        have hI2 : Inv e (Cfg.mk (repOf e.cenv (rd e.perm_r krow)) (rd e.xlsub (repOf e.cenv (rd e.perm_r krow))) (rd e.xprune (repOf e.cenv (rd e.perm_r krow))) { ps with marker := wr ps.marker krow e.jj, parent := wr ps.parent (repOf e.cenv (rd e.perm_r krow)) EMPTY, repfnz := wr ps.repfnz (e.off + repOf e.cenv (rd e.perm_r krow)) (rd e.perm_r krow) }) := by
          refine { k0 := ⟨hc0, q2, q3⟩, kd := ?_, mx := rfl, xd := le_refl _, P := ?_ }
          · show rd (wr ps.repfnz (e.off + _) _) (e.off + _) ≠ EMPTY
            rw [rd_wr_eq (by omega) (by have := hS.szR; omega)]; exact hp
          · exact hP1.rootStart hc0 q2 h3 hS.szP rfl rfl rfl
        exact run_sim hE fuel X _ _ cs' hS2 hI2 h
      · have h3a : ¬ fnz e { ps with marker := wr ps.marker krow e.jj } (repOf e.cenv (rd e.perm_r krow)) = EMPTY := h3
        have h3b : ¬ rd ({ cs with marker := wr cs.marker (2 * e.cenv.m + krow) e.cenv.jcol } : ColDfs.St).repfnz
            (repOf e.cenv (rd e.cenv.perm_r krow)) = EMPTY := by
          show ¬ rd cs.repfnz (repOf e.cenv (rd e.perm_r krow)) = EMPTY
          rw [← hf]; exact h3
        simp only [h3a, h3b, ne_eq, not_false_eq_true, if_true] at h ⊢
        cases h
        refine ⟨_, X, rfl, hS1.lower hE hc0 q2 hf, ?_⟩
        have hd := fun t => lowerFnz_disc (e := e) (st := { ps with marker := wr ps.marker krow e.jj })
          (myfnz := fnz e { ps with marker := wr ps.marker krow e.jj } (repOf e.cenv (rd e.perm_r krow))) hp h3 t
        exact hP1.of_disc hd (lowerFnz_parent _ _ _ _ _).1 (lowerFnz_parent _ _ _ _ _).2

theorem search_sim (hE : PEnvOK e) {fuel : Nat} : ∀ (rows : List Int) (X : List Int) (ps : St) (cs cs' : ColDfs.St),
    Sim e B M0 P0 n0p n0c X ps cs → PInv e ps → (∀ r ∈ rows, 0 ≤ r ∧ r < e.m) →
    ColDfs.search e.cenv fuel rows cs = some cs' →
    ∃ ps' X', search e fuel rows ps = some ps' ∧ Sim e B M0 P0 n0p n0c X' ps' cs' ∧ PInv e ps'
  | [], X, ps, cs, cs', hS, hP, _, h => by
    simp only [ColDfs.search] at h; cases h
    exact ⟨ps, X, rfl, hS, hP⟩
  | krow :: rows, X, ps, cs, cs', hS, hP, hr, h => by
    simp only [ColDfs.search] at h
    cases h1 : ColDfs.rootStep e.cenv fuel cs krow with
    | none => rw [h1] at h; simp at h
    | some cs1 =>
      rw [h1] at h
      obtain ⟨ps1, X1, g1, hS1, hP1⟩ := rootStep_sim hE hS hP (hr krow mem_cons_self).1 (hr krow mem_cons_self).2 h1
      obtain ⟨ps2, X2, g2, hS2, hP2⟩ := search_sim hE rows X1 ps1 cs1 cs' hS1 hP1 (fun r hr' => hr r (mem_cons_of_mem _ hr')) h
      exact ⟨ps2, X2, by simp only [search, g1]; exact g2, hS2, hP2⟩

/-! ### the companion state at the entry of a panel column, and the column theorem -/

/-- the column_dfs state that accompanies the panel state at the entry of a column: same stack arrays,
clean `repfnz`, no row marked, room in `lsub` for every unpivoted row, empty `segrep` -/
def companion (e : Env) (ps : St) : ColDfs.St :=
  { lsub := (e.lsub.toList ++ List.replicate (ColDfs.unpivoted e.m e.perm_r).length 0).toArray
    marker := (List.replicate (3 * e.m).toNat (e.jcol - 1)).toArray
    repfnz := (List.replicate e.jcol.toNat EMPTY).toArray
    parent := ps.parent, xplore := ps.xplore
    segrep := (List.replicate e.jcol.toNat 0).toArray
    nseg := 0, nextl := e.lsub.size, jsuper := 0 }

theorem rd_replicate {n : Nat} {v i : Int} (h0 : 0 ≤ i) (h1 : i < n) : rd (List.replicate n v).toArray i = v := by
  unfold rd
  simp only [h0, if_true, Array.getD_eq_getD_getElem?, List.getElem?_toArray, List.getElem?_replicate]
  have : i.toNat < n := by omega
  simp [this]

theorem rd_append_left {a : Array Int} {l : List Int} {i : Int} (h0 : 0 ≤ i) (h1 : i < a.size) :
    rd (a.toList ++ l).toArray i = rd a i := by
  unfold rd
  simp only [h0, if_true, Array.getD_eq_getD_getElem?, List.getElem?_toArray]
  rw [List.getElem?_append_left (by simp; omega)]
  simp

/-- what a panel column needs on entry (the shared-marker state): its `repfnz` slice is clean, no row carries
its mark, `segrep[0..nseg)` lists distinct representatives, all recorded for this panel (`marker1 >= jcol`) -/
structure ColOK (e : Env) (ps : St) : Prop where
  env : PEnvOK e
  szM : (ps.marker.size : Int) = 3 * e.m
  szR : e.off + e.m ≤ ps.repfnz.size
  szP : e.jcol ≤ ps.parent.size
  szX : e.jcol ≤ ps.xplore.size
  szS : e.jcol ≤ ps.segrep.size
  fresh : ∀ s, 0 ≤ s → s < e.jcol → fnz e ps s = EMPTY
  unmarked : ∀ r, 0 ≤ r → r < e.m → rd ps.marker r ≠ e.jj
  nseg0 : 0 ≤ ps.nseg
  sgnd : (slice ps.segrep 0 ps.nseg).Nodup
  sgrng : ∀ t ∈ slice ps.segrep 0 ps.nseg, 0 ≤ t ∧ t < e.jcol ∧ e.jcol ≤ m1 e ps t

variable {ps : St}

theorem companion_mk2 (_hC : ColOK e ps) {r : Int} (r0 : 0 ≤ r) (r1 : r < e.m) : mk2 e.cenv (companion e ps) r = e.jcol - 1 := by
  unfold mk2
  show rd (List.replicate (3 * e.m).toNat (e.jcol - 1)).toArray (2 * e.m + r) = _
  exact rd_replicate (by omega) (by omega)

theorem companion_sim (hC : ColOK e ps) :
    Sim e ps (m1 e ps) (slice ps.segrep 0 ps.nseg) ps.nseg 0 [] ps (companion e ps) where
  lsub := fun x x0 x1 => rd_append_left x0 x1
  nextl := le_refl _
  szM := hC.szM
  szMc := by
    have := hC.env.env.m0
    show (((List.replicate (3 * e.m).toNat (e.jcol - 1)).toArray.size : Nat) : Int) = 3 * e.m
    simp; exact this
  mark := fun r r0 r1 => by
    rw [companion_mk2 hC r0 r1]
    constructor
    · intro h; exact absurd h (hC.unmarked r r0 r1)
    · intro h; omega
  szR := hC.szR
  szRc := by
    have := hC.env.env.jcol0
    show e.jcol ≤ (((List.replicate e.jcol.toNat EMPTY).toArray.size : Nat) : Int)
    simp
  fnz := fun s s0 s1 => by
    rw [hC.fresh s s0 s1]
    show _ = rd (List.replicate e.jcol.toNat EMPTY).toArray s
    rw [rd_replicate s0 (by omega)]
  parent := rfl
  xplore := rfl
  szP := hC.szP
  szX := hC.szX
  hn0p := ⟨hC.nseg0, le_refl _⟩
  hn0c := le_refl _
  cnseg := by show (0 : Int) = 0 + (([] : List Int).length : Int); simp
  cseg := fun _ => by show slice _ 0 0 = []; exact slice_nil _ _
  seg := by rw [slice_nil]; rfl
  m1 := fun t _ _ => by simp [pushNew]
  sgnd := hC.sgnd
  sgrng := hC.sgrng
  szS := hC.szS
  segpre := rfl
  rsz := rfl
  rfr := fun _ _ => rfl
  mfr := fun _ _ _ => Or.inr rfl

theorem companion_root (hC : ColOK e ps) :
    ColDfs.Root (e := e.cenv) (L := e.lsub) (nextl0 := e.lsub.size) [] (companion e ps) := by
  have hj := hC.env.env.jcol0
  have hm := hC.env.env.m0
  have hj' : 0 ≤ e.jcol := hj
  have hm' : 0 ≤ e.m := hm
  have hnomark : ∀ r, 0 ≤ r → r < e.m → mk2 e.cenv (companion e ps) r ≠ e.cenv.jcol := by
    intro r r0 r1; rw [companion_mk2 hC r0 r1]; show e.jcol - 1 ≠ e.jcol; omega
  refine ⟨⟨⟨by omega, ?_, ?_, ?_⟩, fun x x0 x1 => rd_append_left x0 x1, le_refl _, ?_, hC.szP, hC.szX, ?_, ?_, le_refl _⟩,
    ⟨nodup_nil, by simp, by simp, ?_⟩, ?_, ?_⟩
  · show (slice (companion e ps).lsub (e.lsub.size : Int) (e.lsub.size : Int)).Nodup
    rw [slice_nil]; exact nodup_nil
  · intro r hr
    have hr' : r ∈ slice (companion e ps).lsub (e.lsub.size : Int) (e.lsub.size : Int) := hr
    rw [slice_nil] at hr'; simp at hr'
  · show (e.lsub.size : Int) + _ ≤ (((e.lsub.toList ++ List.replicate (ColDfs.unpivoted e.m e.perm_r).length 0).toArray.size : Nat) : Int)
    simp
    rfl
  · show e.jcol ≤ (((List.replicate e.jcol.toNat EMPTY).toArray.size : Nat) : Int)
    simp
  · show (((List.replicate (3 * e.m).toNat (e.jcol - 1)).toArray.size : Nat) : Int) = 3 * e.m
    simp; exact hm'
  · intro r r0 r1 hmk; exact absurd hmk (hnomark r r0 r1)
  · refine ⟨?_, ?_, ?_⟩
    · show (slice (companion e ps).segrep 0 0).Nodup
      rw [slice_nil]; exact nodup_nil
    · intro v hv
      have hv' : v ∈ slice (companion e ps).segrep 0 0 := hv
      rw [slice_nil] at hv'; simp at hv'
    · show e.jcol ≤ (((List.replicate e.jcol.toNat 0).toArray.size : Nat) : Int)
      rw [List.size_toArray, List.length_replicate]; omega
  · intro t ht hd
    exfalso; apply hd
    show rd (List.replicate e.jcol.toNat EMPTY).toArray (t : Int) = EMPTY
    exact rd_replicate (by omega) (by have : (t : Int) < e.jcol := ht; omega)
  · intro r r0 r1 hmk; exact absurd hmk (hnomark r r0 r1)

/-- **one panel column = the recursive search, recorded through the shared `marker1`** -/
theorem panelCol_eq_dfsList (hC : ColOK e ps) {fuel : Nat} (hfuel : (e.jcol.toNat + 1) * (e.lsub.size + 2) ≤ fuel)
    {rows : List Int} (hrows : ∀ r ∈ rows, 0 ≤ r ∧ r < e.m) :
    ∃ ps' post, search e fuel rows ps = some ps' ∧
      post = dfsList (ColDfs.adjR e.cenv e.lsub) e.jcol.toNat ((ColDfs.rootCols e.cenv rows).map (ColDfs.repN e.cenv)) [] ∧
      (∀ s : Nat, (s : Int) < e.jcol → (fnz e ps' s ≠ EMPTY ↔ s ∈ post)) ∧
      ps.nseg ≤ ps'.nseg ∧
      slice ps'.segrep ps.nseg ps'.nseg = (post.reverse.map Int.ofNat).filter (fun t => decide (m1 e ps t < e.jcol)) ∧
      slice ps'.segrep 0 ps.nseg = slice ps.segrep 0 ps.nseg ∧
      (∀ t, 0 ≤ t → t < e.jcol → m1 e ps' t =
        if t ∈ (post.reverse.map Int.ofNat).filter (fun t => decide (m1 e ps t < e.jcol)) then e.jj else m1 e ps t) ∧
      (slice ps'.segrep 0 ps'.nseg).Nodup ∧
      (∀ t ∈ slice ps'.segrep 0 ps'.nseg, 0 ≤ t ∧ t < e.jcol ∧ e.jcol ≤ m1 e ps' t) ∧
      ((∀ s ∈ post, (s : Int) < e.jcol) ∧ ps'.repfnz.size = ps.repfnz.size ∧
       (∀ x, (x < e.off ∨ e.off + e.m ≤ x) → rd ps'.repfnz x = rd ps.repfnz x) ∧
       (∀ r, 0 ≤ r → r < e.m → rd ps'.marker r = e.jj ∨ rd ps'.marker r = rd ps.marker r) ∧
       (ps'.marker.size : Int) = 3 * e.m ∧ e.jcol ≤ ps'.parent.size ∧ e.jcol ≤ ps'.xplore.size ∧ e.jcol ≤ ps'.segrep.size) := by
  have hfuel' : (e.cenv.jcol.toNat + 1) * ColDfs.stepK (e.lsub.size : Int) ≤ fuel := by
    unfold ColDfs.stepK
    have : ((e.lsub.size : Int)).toNat = e.lsub.size := by omega
    rw [this]; exact hfuel
  obtain ⟨cs', post', hs, hR', hSeg, hp, _⟩ := ColDfs.search_spec hC.env.env (adj := ColDfs.adjR e.cenv e.lsub)
    (fun s h1 h2 => ColDfs.adjR_eq _ _ s h1 h2) hfuel' rows (companion e ps) [] (companion_root hC) hrows
    (fun v hv => by
      have hv' : v ∈ slice (companion e ps).segrep 0 0 := hv
      rw [slice_nil] at hv'; simp at hv')
  have hP0 : PInv e ps := fun t t0 t1 ht => absurd (hC.fresh t t0 t1) ht
  obtain ⟨ps', X', g, hS', _⟩ := search_sim hC.env rows [] ps _ cs' (companion_sim hC) hP0 hrows hs
  obtain ⟨nw, n1, n2, n3⟩ := hSeg.new
  rw [append_nil] at n1
  subst n1
  have hlen : post'.length ≤ e.jcol.toNat := ColDfs.nodup_lt_length hR'.pok.nodup (fun t ht => by
    have : (t : Int) < e.jcol := hR'.pok.lt t ht
    omega)
  have hcap : cs'.nseg ≤ cs'.segrep.size := by
    obtain ⟨h1, h2, h3⟩ := hR'.pok.cap
    have hj : 0 ≤ e.jcol := hC.env.env.jcol0
    have h3' : e.jcol ≤ cs'.segrep.size := h3
    have hn := hR'.ok.nseg0
    rcases ColDfs.nodup_int_length h1 h2 with h | h
    · rw [ColDfs.slice_length] at h
      have h' : ((cs'.nseg - 0).toNat : Int) ≤ e.jcol := h
      omega
    · have := congrArg List.length h
      rw [ColDfs.slice_length] at this
      simp at this; omega
  have hX : X' = post'.reverse.map Int.ofNat := by rw [← hS'.cseg hcap]; exact n3
  have hXnd : X'.Nodup := by
    rw [hX]
    exact Nodup.map_on (fun a _ b _ h => Int.ofNat.inj h) (nodup_reverse.mpr hR'.pok.nodup)
  have hpn := pushNew_eq_filter e.jcol (m1 e ps) hXnd
  rw [hX] at hpn
  refine ⟨ps', post', g, ?_, ?_, hS'.hn0p.2, ?_, hS'.segpre, ?_, hS'.sgnd, hS'.sgrng,
    hR'.pok.lt, hS'.rsz, hS'.rfr, hS'.mfr, hS'.szM, hS'.szP, hS'.szX, hS'.szS⟩
  · rw [hp, dfsList, foldl_map]; rfl
  · intro s hs'
    have hj : 0 ≤ e.jcol := hC.env.env.jcol0
    rw [hS'.fnz s (by omega) hs']
    constructor
    · intro hd; exact hR'.fin s hs' hd
    · intro hin; exact hR'.pok.fin s hin
  · rw [hS'.seg, hX, hpn]
  · intro t t0 t1
    rw [hS'.m1 t t0 t1, hX, hpn]

/-! ### from the decidable predicate `wfPanelIn` -/

section wf
variable {V : Type} {i : Input V}
open Slu.ColDfs (allBelow_iff mem_slice_iff adjRows)

theorem wfPanelIn_unpack (h : wfPanelIn i = true) :
    (0 ≤ i.jcol ∧ 1 ≤ i.w ∧ i.jcol + i.w ≤ i.m ∧ (i.perm_r.size : Int) = i.m ∧ (i.marker.size : Int) = 3 * i.m) ∧
    ((i.repfnz.size : Int) = i.w * i.m ∧ i.jcol ≤ i.parent.size ∧ i.jcol ≤ i.xplore.size ∧ i.jcol ≤ i.segrep.size) ∧
    (0 ≤ rd i.xlsub i.jcol ∧ rd i.xlsub i.jcol ≤ i.lsub.size) ∧
    (∀ r : Nat, (r : Int) < i.m → rd i.perm_r r = EMPTY ∨ (0 ≤ rd i.perm_r r ∧ rd i.perm_r r < i.jcol)) ∧
    (∀ r : Nat, (r : Int) < i.m → rd i.marker r < i.jcol) ∧
    (∀ s : Nat, (s : Int) < i.jcol → rd i.marker (i.m + s) < i.jcol) ∧
    (∀ x : Nat, (x : Int) < i.w * i.m → rd i.repfnz x = EMPTY) ∧
    (∀ k : Nat, (k : Int) < i.jcol → (k : Int) ≤ repOf i.cenv k ∧ repOf i.cenv k < i.jcol ∧ repOf i.cenv (repOf i.cenv k) = repOf i.cenv k) ∧
    (∀ s : Nat, (s : Int) < i.jcol → repOf i.cenv s = s →
      0 ≤ rd i.xlsub s ∧ rd i.xlsub s ≤ rd i.xprune s ∧ rd i.xprune s ≤ rd i.xlsub i.jcol ∧
      ∀ row ∈ adjRows i.cenv i.lsub s, 0 ≤ row ∧ row < i.m ∧ (rd i.perm_r row = EMPTY ∨ (s : Int) ≤ rd i.perm_r row)) ∧
    (∀ k : Nat, (k : Int) < i.w → ∀ row ∈ colRows i (i.jcol + k), 0 ≤ row ∧ row < i.m) := by
  simp only [wfPanelIn, Bool.and_eq_true, decide_eq_true_eq] at h
  rcases h with ⟨⟨⟨⟨⟨⟨⟨⟨⟨⟨⟨⟨⟨⟨⟨⟨⟨⟨⟨h1, h2⟩, h3⟩, h4⟩, h5⟩, h6⟩, _⟩, _⟩, h9⟩, h10⟩, h11⟩, h12⟩, h13⟩, h14⟩, h15⟩, h16⟩, h17⟩, h18⟩, h19⟩, h20⟩
  refine ⟨⟨h1, h2, h3, h4, h5⟩, ⟨h6, h9, h10, h11⟩, ⟨h12, h13⟩, ?_, ?_, ?_, ?_, ?_, ?_, ?_⟩
  · intro r hr; have := allBelow_iff.mp h14 r hr; simpa using this
  · intro r hr; have := allBelow_iff.mp h15 r hr; simpa using this
  · intro r hr; have := allBelow_iff.mp h16 r hr; simpa using this
  · intro r hr; have := allBelow_iff.mp h17 r hr; simpa using this
  · intro k hk; have := allBelow_iff.mp h18 k hk; simpa [and_assoc] using this
  · intro s hs hrs
    have := allBelow_iff.mp h19 s hs
    simp only [Bool.or_eq_true, Bool.and_eq_true, decide_eq_true_eq, List.all_eq_true, ne_eq, decide_not,
      Bool.not_eq_true', decide_eq_false_iff_not] at this
    rcases this with h | h
    · exact absurd hrs h
    · obtain ⟨⟨⟨a, b⟩, c⟩, d⟩ := h
      exact ⟨a, b, c, fun row hrow => by have := d row hrow; simpa [and_assoc] using this⟩
  · intro k hk row hrow
    have := allBelow_iff.mp h20 k hk
    simp only [Bool.and_eq_true, decide_eq_true_eq, List.all_eq_true] at this
    have := this.2 row hrow
    simpa using this

theorem wfPanelIn_env (h : wfPanelIn i = true) : EnvOK i.cenv i.lsub i.lsub.size := by
  obtain ⟨⟨a1, a2, a3, a4, a5⟩, _, ⟨c1, c2⟩, hperm, _, _, _, hrep, hlists, _⟩ := wfPanelIn_unpack h
  refine ⟨a1, (by show 0 ≤ i.m; omega), ?_, ?_, ?_⟩
  · intro r r0 r1
    obtain ⟨k, rfl⟩ := Int.eq_ofNat_of_zero_le r0
    exact hperm k r1
  · intro k k0 k1
    obtain ⟨n, rfl⟩ := Int.eq_ofNat_of_zero_le k0
    exact hrep n k1
  · intro s s0 s1 hs
    obtain ⟨n, rfl⟩ := Int.eq_ofNat_of_zero_le s0
    obtain ⟨x1, x2, x3, x4⟩ := hlists n s1 hs
    refine ⟨x1, x2, by show rd i.xprune _ ≤ _; omega, fun x hx1 hx2 => ?_⟩
    obtain ⟨y1, y2, y3⟩ := x4 _ ((mem_slice_iff x1).mpr ⟨x, hx1, hx2, rfl⟩)
    exact ⟨y1, y2, y3.imp_right Or.inl⟩

theorem env_off (i : Input V) (k : Int) : (i.env (i.jcol + k)).off = k * i.m := by
  show (i.jcol + k - i.jcol) * i.m = k * i.m
  congr 1; omega

theorem wfPanelIn_penv (h : wfPanelIn i = true) {k : Int} (k0 : 0 ≤ k) : PEnvOK (i.env (i.jcol + k)) := by
  obtain ⟨⟨a1, a2, a3, a4, a5⟩, _⟩ := wfPanelIn_unpack h
  refine ⟨wfPanelIn_env h, by show i.jcol ≤ i.m; omega, by show i.jcol ≤ i.jcol + k; omega, ?_⟩
  rw [env_off]
  exact Int.mul_nonneg k0 (by omega)

/-- the first column of the panel starts in a state accepted by `ColOK` -/
theorem wfPanelIn_colOK0 (h : wfPanelIn i = true) : ColOK (i.env i.jcol) { i.st0 with nextl := (i.env i.jcol).off } := by
  obtain ⟨⟨a1, a2, a3, a4, a5⟩, ⟨b1, b2, b3, b4⟩, _, _, hmk, _, hfresh, _, _, _⟩ := wfPanelIn_unpack h
  have hpe := wfPanelIn_penv h (k := 0) (le_refl _)
  rw [Int.add_zero] at hpe
  have hoff : (i.env i.jcol).off = 0 := by
    have := env_off i 0; rw [Int.add_zero] at this; rw [this]; simp
  have hwm : i.m ≤ i.w * i.m := by
    have : 1 * i.m ≤ i.w * i.m := Int.mul_le_mul_of_nonneg_right a2 (by omega)
    omega
  refine { env := hpe, szM := a5, szR := ?_, szP := b2, szX := b3, szS := b4, fresh := ?_, unmarked := ?_,
           nseg0 := le_refl _, sgnd := ?_, sgrng := ?_ }
  · rw [hoff]; show 0 + i.m ≤ (i.repfnz.size : Int); omega
  · intro s s0 s1
    obtain ⟨n, rfl⟩ := Int.eq_ofNat_of_zero_le s0
    unfold fnz; rw [hoff]
    show rd i.repfnz (0 + (n : Int)) = EMPTY
    rw [Int.zero_add]
    exact hfresh n (by have : (n : Int) < i.jcol := s1; omega)
  · intro r r0 r1
    obtain ⟨n, rfl⟩ := Int.eq_ofNat_of_zero_le r0
    have := hmk n r1
    show rd i.marker n ≠ i.jcol
    omega
  · show (slice i.segrep 0 0).Nodup
    rw [slice_nil]; exact nodup_nil
  · intro t ht
    have ht' : t ∈ slice i.segrep 0 0 := ht
    rw [slice_nil] at ht'; simp at ht'

theorem wfPanelIn_rows (h : wfPanelIn i = true) {k : Nat} (hk : (k : Int) < i.w) :
    ∀ r ∈ colRows i (i.jcol + k), 0 ≤ r ∧ r < (i.env (i.jcol + k)).m :=
  (wfPanelIn_unpack h).2.2.2.2.2.2.2.2.2 k hk

end wf

/-! ### the loop over the panel columns -/

section panel
variable {V : Type} {i : Input V}
open Slu.ColDfs (slice_append)

/-- reverse postorder of the recursive search for panel column `jcol + k` (nothing visited on entry) -/
def colPost (i : Input V) (k : Nat) : List Nat :=
  dfsList (ColDfs.adjR i.cenv i.lsub) i.jcol.toNat
    ((ColDfs.rootCols i.cenv (colRows i (i.jcol + k))).map (ColDfs.repN i.cenv)) []

/-- what `segrep` holds after the first `k` panel columns: for each column in turn its postorder, restricted
to the representatives no earlier column has recorded -/
def segSpec (i : Input V) : Nat → List Int
  | 0 => []
  | k + 1 => segSpec i k ++ ((colPost i k).reverse.map Int.ofNat).filter (fun t => decide (t ∉ segSpec i k))

theorem mul_bound {k w m : Int} (hk : k + 1 ≤ w) (hm : 0 ≤ m) : k * m + m ≤ w * m := by
  have := Int.mul_le_mul_of_nonneg_right hk hm
  rw [Int.add_mul, Int.one_mul] at this; exact this

/-- the state between two panel columns (`k` columns done) -/
structure LoopInv (i : Input V) (k : Nat) (st : St) : Prop where
  szM : (st.marker.size : Int) = 3 * i.m
  szR : (st.repfnz.size : Int) = i.w * i.m
  szP : i.jcol ≤ st.parent.size
  szX : i.jcol ≤ st.xplore.size
  szS : i.jcol ≤ st.segrep.size
  fresh : ∀ x : Int, k * i.m ≤ x → x < i.w * i.m → rd st.repfnz x = EMPTY
  done : ∀ k' : Nat, k' < k → ∀ s : Nat, (s : Int) < i.jcol → (rd st.repfnz (k' * i.m + s) ≠ EMPTY ↔ s ∈ colPost i k')
  mark : ∀ r, 0 ≤ r → r < i.m → rd st.marker r < i.jcol + k
  nseg0 : 0 ≤ st.nseg
  seg : slice st.segrep 0 st.nseg = segSpec i k
  sgnd : (segSpec i k).Nodup
  m1iff : ∀ t, 0 ≤ t → t < i.jcol → (i.jcol ≤ rd st.marker (i.m + t) ↔ t ∈ segSpec i k)
  segrng : ∀ t ∈ segSpec i k, 0 ≤ t ∧ t < i.jcol

theorem loopInv0 (h : wfPanelIn i = true) : LoopInv i 0 i.st0 := by
  obtain ⟨⟨a1, a2, a3, a4, a5⟩, ⟨b1, b2, b3, b4⟩, _, _, hmk, hmk1, hfresh, _, _, _⟩ := wfPanelIn_unpack h
  refine { szM := a5, szR := b1, szP := b2, szX := b3, szS := b4, fresh := ?_, done := fun k' hk' => absurd hk' (by omega),
           mark := ?_, nseg0 := le_refl _, seg := slice_nil _ _, sgnd := nodup_nil, m1iff := ?_, segrng := by simp [segSpec] }
  · intro x x0 x1
    have hx : 0 ≤ x := by simpa using x0
    obtain ⟨n, rfl⟩ := Int.eq_ofNat_of_zero_le hx
    exact hfresh n x1
  · intro r r0 r1
    obtain ⟨n, rfl⟩ := Int.eq_ofNat_of_zero_le r0
    have := hmk n r1
    show rd i.marker n < i.jcol + ((0 : Nat) : Int)
    simpa using this
  · intro t t0 t1
    obtain ⟨n, rfl⟩ := Int.eq_ofNat_of_zero_le t0
    have := hmk1 n t1
    show i.jcol ≤ rd i.marker (i.m + n) ↔ _
    simp only [segSpec, not_mem_nil, iff_false]
    omega

theorem colOK_of_loopInv (h : wfPanelIn i = true) {k : Nat} {st : St} (hk : (k : Int) < i.w) (hL : LoopInv i k st) :
    ColOK (i.env (i.jcol + k)) { st with nextl := (i.env (i.jcol + k)).off } := by
  obtain ⟨⟨a1, a2, a3, a4, a5⟩, _⟩ := wfPanelIn_unpack h
  have hoff := env_off i (k : Int)
  have hm0 : 0 ≤ i.m := by omega
  have hmb := mul_bound (k := k) (w := i.w) (m := i.m) (by omega) hm0
  refine { env := wfPanelIn_penv h (by omega), szM := hL.szM, szR := ?_, szP := hL.szP, szX := hL.szX, szS := hL.szS,
           fresh := ?_, unmarked := ?_, nseg0 := hL.nseg0, sgnd := ?_, sgrng := ?_ }
  · rw [hoff]; show (k : Int) * i.m + i.m ≤ (st.repfnz.size : Int); rw [hL.szR]; exact hmb
  · intro s s0 s1
    unfold fnz; rw [hoff]
    have s1' : s < i.jcol := s1
    exact hL.fresh _ (by omega) (by omega)
  · intro r r0 r1
    have := hL.mark r r0 r1
    show rd st.marker r ≠ i.jcol + k
    omega
  · show (slice st.segrep 0 st.nseg).Nodup
    rw [hL.seg]; exact hL.sgnd
  · intro t ht
    have ht' : t ∈ slice st.segrep 0 st.nseg := ht
    rw [hL.seg] at ht'
    obtain ⟨a, b⟩ := hL.segrng t ht'
    exact ⟨a, b, (hL.m1iff t a b).mpr ht'⟩

theorem loop_step (h : wfPanelIn i = true) {k : Nat} {st : St} (hk : (k : Int) < i.w) (hL : LoopInv i k st) :
    ∃ ps', search (i.env (i.jcol + k)) (fuelBound i) (colRows i (i.jcol + k)) { st with nextl := (i.env (i.jcol + k)).off } = some ps' ∧
      LoopInv i (k + 1) ps' := by
  obtain ⟨⟨a1, a2, a3, a4, a5⟩, _⟩ := wfPanelIn_unpack h
  have hm0 : 0 ≤ i.m := by omega
  have hoff := env_off i (k : Int)
  obtain ⟨ps', post, g, hpost, hvis, hle, hseg, hpre, hm1, hnd, hrng, hlt, hrsz, hrfr, hmfr, hszM, hszP, hszX, hszS⟩ :=
    panelCol_eq_dfsList (colOK_of_loopInv h hk hL) (fuel := fuelBound i) (le_refl _) (wfPanelIn_rows h hk)
  have hpost' : post = colPost i k := hpost
  subst hpost'
  rw [hoff] at hrfr
  have hF : ((colPost i k).reverse.map Int.ofNat).filter (fun t => decide (m1 (i.env (i.jcol + k)) { st with nextl := (i.env (i.jcol + k)).off } t < (i.env (i.jcol + k)).jcol)) =
      ((colPost i k).reverse.map Int.ofNat).filter (fun t => decide (t ∉ segSpec i k)) := by
    apply filter_congr
    intro t ht
    obtain ⟨s, hs, rfl⟩ := mem_map.mp ht
    have hs' := hlt s (mem_reverse.mp hs)
    have hs'' : (s : Int) < i.jcol := hs'
    have := hL.m1iff (Int.ofNat s) (by simp) hs''
    show decide (rd st.marker (i.m + Int.ofNat s) < i.jcol) = decide (Int.ofNat s ∉ segSpec i k)
    rw [decide_eq_decide]
    constructor
    · intro hlt' hin; have := this.mpr hin; omega
    · intro hnin; by_contra hge; exact hnin (this.mp (by omega))
  rw [hF] at hseg hm1
  have hsegAll : slice ps'.segrep 0 ps'.nseg = segSpec i (k + 1) := by
    rw [slice_append ps'.segrep (le_refl 0) hL.nseg0 hle, hpre, hseg]
    show slice st.segrep 0 st.nseg ++ _ = _
    rw [hL.seg]; rfl
  refine ⟨ps', g, { szM := hszM, szR := by rw [hrsz]; exact hL.szR, szP := hszP, szX := hszX, szS := hszS, fresh := ?_, done := ?_,
                    mark := ?_, nseg0 := le_trans hL.nseg0 hle, seg := hsegAll, sgnd := by rw [← hsegAll]; exact hnd,
                    m1iff := ?_, segrng := ?_ }⟩
  · intro x x0 x1
    have : ((k + 1 : Nat) : Int) * i.m = k * i.m + i.m := by push_cast; rw [Int.add_mul, Int.one_mul]
    rw [this] at x0
    rw [hrfr x (Or.inr x0)]
    have hk0 : 0 ≤ (k : Int) * i.m := Int.mul_nonneg (by omega) hm0
    exact hL.fresh x (by omega) x1
  · intro k' hk' s hs
    by_cases hkk : k' = k
    · subst hkk
      have := hvis s hs
      unfold fnz at this; rw [hoff] at this
      exact this
    · have hlt' : k' < k := by omega
      have hb := mul_bound (k := k') (w := k) (m := i.m) (by omega) hm0
      rw [hrfr _ (Or.inl (by omega))]
      exact hL.done k' hlt' s hs
  · intro r r0 r1
    have := hL.mark r r0 r1
    rcases hmfr r r0 r1 with hh | hh
    · rw [hh]; show i.jcol + (k : Int) < i.jcol + ((k + 1 : Nat) : Int); omega
    · rw [hh]; show rd st.marker r < i.jcol + ((k + 1 : Nat) : Int); omega
  · intro t t0 t1
    have h1 := hm1 t t0 t1
    have hold := hL.m1iff t t0 t1
    show i.jcol ≤ m1 (i.env (i.jcol + k)) ps' t ↔ t ∈ segSpec i (k + 1)
    rw [h1]
    show _ ↔ t ∈ segSpec i k ++ _
    rw [mem_append]
    by_cases hin : t ∈ ((colPost i k).reverse.map Int.ofNat).filter (fun t => decide (t ∉ segSpec i k))
    · simp only [hin, if_true, or_true, iff_true]
      show i.jcol ≤ i.jcol + (k : Int); omega
    · simp only [hin, if_false, or_false]
      exact hold
  · intro t ht
    rw [← hsegAll] at ht
    exact ⟨(hrng t ht).1, (hrng t ht).2.1⟩

theorem panelLoop_spec (h : wfPanelIn i = true) : ∀ (n k : Nat) (st : St) (dense : Array V), ((k + n : Nat) : Int) = i.w →
    LoopInv i k st → ∃ st' dense', panelLoop i (fuelBound i) n (i.jcol + k) st dense = some (st', dense') ∧ LoopInv i (k + n) st'
  | 0, k, st, dense, _, hL => ⟨st, dense, rfl, hL⟩
  | n + 1, k, st, dense, hkn, hL => by
    obtain ⟨ps', g, hL'⟩ := loop_step h (k := k) (by push_cast at hkn; omega) hL
    obtain ⟨st', dense', g', hL''⟩ := panelLoop_spec h n (k + 1) ps' (scatter dense (i.env (i.jcol + k)).off (colEntries i (i.jcol + k)))
      (by push_cast at hkn ⊢; omega) hL'
    refine ⟨st', dense', ?_, by rw [show k + (n + 1) = k + 1 + n by omega]; exact hL''⟩
    unfold panelLoop
    simp only [g]
    have : i.jcol + (k : Int) + 1 = i.jcol + ((k + 1 : Nat) : Int) := by push_cast; omega
    rw [this]; exact g'

/-- **`[sdcz]panel_dfs` = the recursive search, column by column** -/
theorem panelDfs_spec (h : wfPanelIn i = true) :
    ∃ o, panelDfs i (fuelBound i) = some o ∧
      (∀ k : Nat, (k : Int) < i.w → ∀ s : Nat, (s : Int) < i.jcol → (rd o.repfnz (k * i.m + s) ≠ EMPTY ↔ s ∈ colPost i k)) ∧
      0 ≤ o.nseg ∧ slice o.segrep 0 o.nseg = segSpec i i.w.toNat ∧ (segSpec i i.w.toNat).Nodup ∧
      (∀ t ∈ segSpec i i.w.toNat, 0 ≤ t ∧ t < i.jcol) := by
  obtain ⟨⟨a1, a2, a3, a4, a5⟩, _⟩ := wfPanelIn_unpack h
  obtain ⟨st', dense', g, hL⟩ := panelLoop_spec h i.w.toNat 0 i.st0 i.dense (by rw [Nat.zero_add]; omega) (loopInv0 h)
  have g' : panelLoop i (fuelBound i) i.w.toNat i.jcol i.st0 i.dense = some (st', dense') := by
    have : i.jcol + ((0 : Nat) : Int) = i.jcol := by simp
    rw [this] at g; exact g
  rw [Nat.zero_add] at hL
  refine ⟨{ nseg := st'.nseg, dense := dense', panelLsub := st'.panelLsub, segrep := st'.segrep, repfnz := st'.repfnz,
             marker := st'.marker, parent := st'.parent, xplore := st'.xplore }, by simp only [panelDfs, g'], ?_, hL.nseg0, hL.seg, hL.sgnd, hL.segrng⟩
  intro k hk s hs
  exact hL.done k (by omega) s hs

/-- membership in `segSpec`: reached by some earlier column -/
theorem mem_segSpec {V : Type} (i : Input V) (t : Int) : ∀ k, t ∈ segSpec i k ↔ ∃ k', k' < k ∧ t ∈ (colPost i k').map Int.ofNat
  | 0 => by simp [segSpec]
  | k + 1 => by
    have ih := mem_segSpec i t k
    show t ∈ segSpec i k ++ _ ↔ _
    rw [mem_append, mem_filter]
    constructor
    · rintro (h | ⟨h1, _⟩)
      · obtain ⟨k', a, b⟩ := ih.mp h; exact ⟨k', by omega, b⟩
      · refine ⟨k, by omega, ?_⟩
        obtain ⟨s, hs, rfl⟩ := mem_map.mp h1
        exact mem_map.mpr ⟨s, mem_reverse.mp hs, rfl⟩
    · rintro ⟨k', a, b⟩
      by_cases hin : t ∈ segSpec i k
      · exact Or.inl hin
      · right
        have : k' = k := by
          by_contra hne
          exact hin (ih.mpr ⟨k', by omega, b⟩)
        subst this
        obtain ⟨s, hs, rfl⟩ := mem_map.mp b
        exact ⟨mem_map.mpr ⟨s, mem_reverse.mpr hs, rfl⟩, by simpa using hin⟩

theorem segSpec_topo {V : Type} (i : Input V) (h : wfPanelIn i = true) : ∀ k : Nat, (k : Int) ≤ i.w → ∀ a r : Nat,
    (a : Int) ∈ segSpec i k → r ∈ ColDfs.adjR i.cenv i.lsub a → [(r : Int), (a : Int)] <+ segSpec i k
  | 0, _, a, r, ha, _ => by simp [segSpec] at ha
  | k + 1, hk, a, r, ha, hr => by
    have hE := wfPanelIn_env h
    have hadj := ColDfs.adjR_lt hE
    have hroots := ColDfs.rootCols_lt hE (wfPanelIn_rows h (k := k) (by push_cast at hk; omega))
    have ih := segSpec_topo i h k (by push_cast at hk ⊢; omega)
    have ha' : (a : Int) ∈ segSpec i k ++ ((colPost i k).reverse.map Int.ofNat).filter (fun t => decide (t ∉ segSpec i k)) := ha
    show _ <+ segSpec i k ++ ((colPost i k).reverse.map Int.ofNat).filter (fun t => decide (t ∉ segSpec i k))
    rcases mem_append.mp ha' with h1 | h1
    · exact (ih a r h1 hr).trans (sublist_append_left _ _)
    · rw [mem_filter] at h1
      obtain ⟨s, hs, hsa⟩ := mem_map.mp h1.1
      have hsa' : s = a := Int.ofNat.inj hsa
      subst hsa'
      have htopo : [r, s] <+ (colPost i k).reverse :=
        dfsPost_topo hadj _ hroots s hs r hr
      have hmap : [(r : Int), (s : Int)] <+ (colPost i k).reverse.map Int.ofNat := htopo.map Int.ofNat
      by_cases hrin : (r : Int) ∈ segSpec i k
      · have h2 : [(s : Int)] <+ ((colPost i k).reverse.map Int.ofNat).filter (fun t => decide (t ∉ segSpec i k)) :=
          singleton_sublist.mpr (mem_filter.mpr h1)
        exact (singleton_sublist.mpr hrin).append h2
      · have hf := hmap.filter (fun t => decide (t ∉ segSpec i k))
        have hnotin : (s : Int) ∉ segSpec i k := by simpa using h1.2
        have : [(r : Int), (s : Int)].filter (fun t => decide (t ∉ segSpec i k)) = [(r : Int), (s : Int)] := by
          simp [hrin, hnotin]
        rw [this] at hf
        exact hf.trans (sublist_append_right _ _)

end panel

/-! ### "restricted to the new representatives" = "earlier representatives count as visited" -/

section visited
variable {adj : Nat → List Nat} {j : Nat}

theorem closed_reach {V : List Nat} (hV : ∀ x ∈ V, ∀ r ∈ adj x, r ∈ V) {a b : Nat} (ha : a ∈ V) (hr : Reach adj a b) : b ∈ V := by
  induction hr with
  | refl => exact ha
  | tail _ hbc ih => exact hV _ ih _ hbc

theorem dfsList_visited_of {V : List Nat} {fuel : Nat}
    (ih : ∀ k A, k < j → j ≤ k + fuel → A.Nodup → TopoClosed adj A →
      dfsVisit adj fuel k (A.filter (fun x => decide (x ∉ V)) ++ V) = (dfsVisit adj fuel k A).filter (fun x => decide (x ∉ V)) ++ V)
    (hadj : ∀ k, ∀ r ∈ adj k, k < r ∧ r < j) :
    ∀ (rs A : List Nat), (∀ r ∈ rs, r < j ∧ j ≤ r + fuel) → A.Nodup → TopoClosed adj A →
      dfsList adj fuel rs (A.filter (fun x => decide (x ∉ V)) ++ V) = (dfsList adj fuel rs A).filter (fun x => decide (x ∉ V)) ++ V
  | [], A, _, _, _ => by simp [dfsList]
  | r :: rs, A, hrs, hnd, htc => by
    have h1 := dfsVisit_step hadj fuel r A (hrs r mem_cons_self).1 (hrs r mem_cons_self).2 hnd htc
    have e : ∀ X, dfsList adj fuel (r :: rs) X = dfsList adj fuel rs (dfsVisit adj fuel r X) := by intro X; simp [dfsList]
    rw [e, e, ih r A (hrs r mem_cons_self).1 (hrs r mem_cons_self).2 hnd htc]
    exact dfsList_visited_of ih hadj rs _ (fun x hx => hrs x (mem_cons_of_mem _ hx)) h1.nodup h1.topo

theorem dfsVisit_visited (hadj : ∀ k, ∀ r ∈ adj k, k < r ∧ r < j) {V : List Nat} (hV : ∀ x ∈ V, ∀ r ∈ adj x, r ∈ V) :
    ∀ fuel k A, k < j → j ≤ k + fuel → A.Nodup → TopoClosed adj A →
      dfsVisit adj fuel k (A.filter (fun x => decide (x ∉ V)) ++ V) = (dfsVisit adj fuel k A).filter (fun x => decide (x ∉ V)) ++ V := by
  intro fuel
  induction fuel with
  | zero => intro k A hk hf; omega
  | succ fuel ih =>
    intro k A hk hf hnd htc
    have hstep := dfsVisit_step hadj (fuel + 1) k A hk hf hnd htc
    by_cases hA : k ∈ A
    · have hin : k ∈ A.filter (fun x => decide (x ∉ V)) ++ V := by
        by_cases hv : k ∈ V
        · exact mem_append_right _ hv
        · exact mem_append_left _ (mem_filter.mpr ⟨hA, by simpa using hv⟩)
      rw [dfsVisit, if_pos hin, dfsVisit, if_pos hA]
    · by_cases hv : k ∈ V
      · have hin : k ∈ A.filter (fun x => decide (x ∉ V)) ++ V := mem_append_right _ hv
        rw [dfsVisit, if_pos hin]
        obtain ⟨new, en, rn⟩ := hstep.ext
        rw [en, filter_append]
        have : new.filter (fun x => decide (x ∉ V)) = [] := by
          rw [filter_eq_nil_iff]
          intro x hx
          obtain ⟨s, hs, hsx⟩ := rn x hx
          rw [mem_singleton] at hs; subst hs
          have := closed_reach hV hv hsx
          simpa using this
        rw [this, nil_append]
      · have hnin : k ∉ A.filter (fun x => decide (x ∉ V)) ++ V := by
          intro hh
          rcases mem_append.mp hh with hh | hh
          · exact hA (mem_filter.mp hh).1
          · exact hv hh
        rw [dfsVisit, if_neg hnin, dfsVisit, if_neg hA]
        have hl := dfsList_visited_of (V := V) ih hadj (adj k) A
          (fun r hr => ⟨(hadj k r hr).2, by have := (hadj k r hr).1; omega⟩) hnd htc
        unfold dfsList at hl
        rw [hl, filter_cons]
        simp [hv]

/-- with the set `V` closed under successors: searching with `V` already visited = searching afresh and dropping
what lies in `V` -/
theorem dfsList_visited (hadj : ∀ k, ∀ r ∈ adj k, k < r ∧ r < j) {V : List Nat} (hV : ∀ x ∈ V, ∀ r ∈ adj x, r ∈ V)
    (roots : List Nat) (hroots : ∀ r ∈ roots, r < j) :
    dfsList adj j roots V = (dfsList adj j roots []).filter (fun x => decide (x ∉ V)) ++ V := by
  have := dfsList_visited_of (V := V) (fun k A a b c d => dfsVisit_visited hadj hV j k A a b c d) hadj roots []
    (fun r hr => ⟨hroots r hr, by omega⟩) nodup_nil trivial
  simpa using this

end visited

section panelVisited
variable {V : Type} {i : Input V}

/-- the representatives found by the first `k` panel columns, as the accumulator of ONE recursive search that
runs over the columns in turn and keeps what earlier columns found as visited -/
def visAcc (i : Input V) : Nat → List Nat
  | 0 => []
  | k + 1 => dfsList (ColDfs.adjR i.cenv i.lsub) i.jcol.toNat
      ((ColDfs.rootCols i.cenv (colRows i (i.jcol + k))).map (ColDfs.repN i.cenv)) (visAcc i k)

theorem segSpec_eq_visAcc (h : wfPanelIn i = true) : ∀ k : Nat, (k : Int) ≤ i.w →
    segSpec i k = (visAcc i k).reverse.map Int.ofNat ∧ (visAcc i k).Nodup ∧ TopoClosed (ColDfs.adjR i.cenv i.lsub) (visAcc i k)
  | 0, _ => ⟨rfl, nodup_nil, trivial⟩
  | k + 1, hk => by
    obtain ⟨e1, hnd, htc⟩ := segSpec_eq_visAcc h k (by push_cast at hk ⊢; omega)
    have hE := wfPanelIn_env h
    have hadj := ColDfs.adjR_lt hE
    have hroots := ColDfs.rootCols_lt hE (wfPanelIn_rows h (k := k) (by push_cast at hk; omega))
    have hstep := dfsList_step_of (dfsVisit_step hadj i.jcol.toNat) _ (visAcc i k)
      (fun r hr => ⟨hroots r hr, Nat.le_add_left _ _⟩) hnd htc
    refine ⟨?_, hstep.nodup, hstep.topo⟩
    show segSpec i k ++ _ = (visAcc i (k + 1)).reverse.map Int.ofNat
    have hv : visAcc i (k + 1) = (colPost i k).filter (fun x => decide (x ∉ visAcc i k)) ++ visAcc i k :=
      dfsList_visited hadj htc.closed _ hroots
    rw [hv, reverse_append, map_append, ← e1]
    congr 1
    rw [← filter_reverse, filter_map]
    congr 1
    apply filter_congr
    intro s _
    show decide (Int.ofNat s ∉ segSpec i k) = decide (s ∉ visAcc i k)
    rw [e1, decide_eq_decide, not_iff_not]
    constructor
    · intro hm
      obtain ⟨s', hs', hss⟩ := mem_map.mp hm
      have : s' = s := Int.ofNat.inj hss
      subst this; exact mem_reverse.mp hs'
    · intro hm; exact mem_map.mpr ⟨s, mem_reverse.mpr hm, rfl⟩

end panelVisited

end Slu.PanelDfs
