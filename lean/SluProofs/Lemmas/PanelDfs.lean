import Slu.Model.PanelDfs
import SluProofs.Lemmas.ColDfs
/-
`[sdcz]panel_dfs` (Slu/Model/PanelDfs.lean): the explicit-stack loop of one panel column is the machine of
`[sdcz]column_dfs` (Slu/Model/ColDfs.lean) in LOCKSTEP — the stack-loop proof of Lemmas/ColDfs.lean is reused,
not repeated.

For a panel column `jj` the panel state `ps` is related (`Sim`) to a COMPANION column_dfs state `cs` over the
same read-only arrays (`e.cenv`, `jcol` = first column of the panel):
  * `cs.lsub` agrees with `Glu->lsub` on `[0, |lsub|)` and receives its appended rows beyond (the panel routine
    puts them into `panel_lsub` instead);
  * row `r` carries the mark `jj` in `marker[0..m)`  iff  it carries the mark `jcol` in the companion's `marker2`;
  * `repfnz_col[s] = cs.repfnz[s]`, `parent`/`xplore` are equal;
  * with `X` the sequence of representatives the companion has appended to its `segrep` in this column, the
    panel has appended `pushNew M0 X` — those whose `marker1` entry was `< jcol` at column entry (`M0`), first
    occurrence only — and set their `marker1` to `jj`.
Both machines then take the same branch at every transition (`rowStep_sim`, `popStep_sim`, `run_sim`,
`rootStep_sim`, `search_sim`); the only facts needed about the run itself are the flat invariants `Inv`/`PInv`
(the current node and the parent of every discovered node are discovered representatives, `xplore` of a parent
points into its own list) which keep every read of `lsub` inside `[xlsub[krep], xprune[krep])`.
-/
namespace Slu.PanelDfs
open Slu Slu.LU List
open Slu.ColDfs (EMPTY oob rd wr repOf slice size_wr rd_wr_ne rd_wr_eq rd_wr_self_or slice_snoc slice_congr slice_nil
  EnvOK mk2 mk2_mark_iff disc_wr)

/-! ### `pushNew` -/

/-- the elements of `X` with `M0 x < jcol`, first occurrence only, in order -/
def pushNew (jcol : Int) (M0 : Int → Int) (X : List Int) : List Int :=
  X.foldl (fun acc x => if M0 x < jcol ∧ x ∉ acc then acc ++ [x] else acc) []

theorem pushNew_snoc (jcol : Int) (M0 : Int → Int) (X : List Int) (x : Int) :
    pushNew jcol M0 (X ++ [x]) =
      if M0 x < jcol ∧ x ∉ pushNew jcol M0 X then pushNew jcol M0 X ++ [x] else pushNew jcol M0 X := by
  unfold pushNew; rw [foldl_append]; rfl

theorem pushNew_aux (jcol : Int) (M0 : Int → Int) : ∀ (X acc : List Int), X.Nodup → (∀ x ∈ X, x ∉ acc) →
    X.foldl (fun acc x => if M0 x < jcol ∧ x ∉ acc then acc ++ [x] else acc) acc =
      acc ++ X.filter (fun x => decide (M0 x < jcol))
  | [], acc, _, _ => by simp
  | x :: X, acc, hnd, hdis => by
    have hx : x ∉ acc := hdis x mem_cons_self
    have hnd' := (nodup_cons.mp hnd)
    rw [foldl_cons]
    by_cases hp : M0 x < jcol
    · simp only [hp, hx, not_false_eq_true, and_self, if_true]
      rw [pushNew_aux jcol M0 X (acc ++ [x]) hnd'.2 (fun y hy => by
        intro hmem
        rcases mem_append.mp hmem with h | h
        · exact hdis y (mem_cons_of_mem _ hy) h
        · rw [mem_singleton] at h; subst h; exact hnd'.1 hy)]
      simp [hp]
    · simp only [hp, false_and, if_false]
      rw [pushNew_aux jcol M0 X acc hnd'.2 (fun y hy => hdis y (mem_cons_of_mem _ hy))]
      simp [hp]

/-- on a duplicate-free sequence `pushNew` is a filter -/
theorem pushNew_eq_filter (jcol : Int) (M0 : Int → Int) {X : List Int} (h : X.Nodup) :
    pushNew jcol M0 X = X.filter (fun x => decide (M0 x < jcol)) := by
  unfold pushNew
  rw [pushNew_aux jcol M0 X [] h (fun _ _ => by simp)]
  simp

/-! ### the relation and the invariants -/

/-- `marker1[t]` -/
def m1 (e : Env) (st : St) (t : Int) : Int := rd st.marker (e.m + t)

/-- what the lockstep needs from the read-only arrays of panel column `jj` -/
structure PEnvOK (e : Env) : Prop where
  env : EnvOK e.cenv e.lsub e.lsub.size
  jm : e.jcol ≤ e.m
  jj : e.jcol ≤ e.jj
  off0 : 0 ≤ e.off

structure Sim (e : Env) (M0 : Int → Int) (n0p n0c : Int) (X : List Int) (ps : St) (cs : ColDfs.St) : Prop where
  lsub : ∀ x, 0 ≤ x → x < e.lsub.size → rd cs.lsub x = rd e.lsub x
  nextl : (e.lsub.size : Int) ≤ cs.nextl
  szM : (ps.marker.size : Int) = 3 * e.m
  szMc : (cs.marker.size : Int) = 3 * e.m
  mark : ∀ r, 0 ≤ r → r < e.m → (rd ps.marker r = e.jj ↔ mk2 e.cenv cs r = e.jcol)
  szR : e.off + e.m ≤ ps.repfnz.size
  szRc : e.jcol ≤ cs.repfnz.size
  fnz : ∀ s, 0 ≤ s → s < e.jcol → fnz e ps s = rd cs.repfnz s
  parent : ps.parent = cs.parent
  xplore : ps.xplore = cs.xplore
  szP : e.jcol ≤ ps.parent.size
  szX : e.jcol ≤ ps.xplore.size
  hn0p : 0 ≤ n0p ∧ n0p ≤ ps.nseg
  hn0c : 0 ≤ n0c
  cnseg : cs.nseg = n0c + X.length
  cseg : cs.nseg ≤ cs.segrep.size → slice cs.segrep n0c cs.nseg = X
  seg : slice ps.segrep n0p ps.nseg = pushNew e.jcol M0 X
  m1 : ∀ t, 0 ≤ t → t < e.jcol → m1 e ps t = if t ∈ pushNew e.jcol M0 X then e.jj else M0 t
  sgnd : (slice ps.segrep 0 ps.nseg).Nodup
  sgrng : ∀ t ∈ slice ps.segrep 0 ps.nseg, 0 ≤ t ∧ t < e.jcol ∧ e.jcol ≤ PanelDfs.m1 e ps t
  szS : e.jcol ≤ ps.segrep.size

/-- the parent of every discovered representative is EMPTY or a discovered representative whose saved
position lies in its own list -/
def PInv (e : Env) (st : St) : Prop :=
  ∀ t, 0 ≤ t → t < e.jcol → fnz e st t ≠ EMPTY →
    rd st.parent t = EMPTY ∨
      (0 ≤ rd st.parent t ∧ rd st.parent t < e.jcol ∧ repOf e.cenv (rd st.parent t) = rd st.parent t ∧
        fnz e st (rd st.parent t) ≠ EMPTY ∧ rd e.xlsub (rd st.parent t) ≤ rd st.xplore (rd st.parent t))

structure Inv (e : Env) (c : Cfg) : Prop where
  k0 : 0 ≤ c.krep ∧ c.krep < e.jcol ∧ repOf e.cenv c.krep = c.krep
  kd : fnz e c.st c.krep ≠ EMPTY
  mx : c.maxdfs = rd e.xprune c.krep
  xd : rd e.xlsub c.krep ≤ c.xdfs
  P : PInv e c.st

variable {e : Env} {M0 : Int → Int} {n0p n0c : Int}

theorem PInv.of_disc {st st' : St} (h : PInv e st) (hd : ∀ t, fnz e st' t ≠ EMPTY ↔ fnz e st t ≠ EMPTY)
    (h2 : st'.parent = st.parent) (h3 : st'.xplore = st.xplore) : PInv e st' := by
  intro t t0 t1 ht
  rw [h2, h3]
  rcases h t t0 t1 ((hd t).mp ht) with hp | ⟨a, b, c, d, f⟩
  · exact Or.inl hp
  · exact Or.inr ⟨a, b, c, (hd _).mpr d, f⟩

theorem fnz_wr_ne {st : St} {s t v : Int} (h : t ≠ s) :
    fnz e { st with repfnz := wr st.repfnz (e.off + s) v } t = fnz e st t := by
  unfold fnz; exact rd_wr_ne (by omega)

theorem fnz_wr_eq {st : St} {s v : Int} (hoff : 0 ≤ e.off) (h0 : 0 ≤ s) (h1 : s < e.m) (hsz : e.off + e.m ≤ st.repfnz.size) :
    fnz e { st with repfnz := wr st.repfnz (e.off + s) v } s = v := by
  unfold fnz; exact rd_wr_eq (by omega) (by omega)

theorem lowerFnz_disc {st : St} {rep myfnz kp : Int} (hkp : kp ≠ EMPTY) (hd : fnz e st rep ≠ EMPTY) (t : Int) :
    fnz e (lowerFnz e st rep myfnz kp) t ≠ EMPTY ↔ fnz e st t ≠ EMPTY := by
  unfold lowerFnz
  split
  · unfold fnz at hd ⊢
    by_cases ht : t = rep
    · subst ht; exact disc_wr hkp hd _
    · rw [rd_wr_ne (by omega)]
  · exact Iff.rfl

/-- descent into an undiscovered representative `chrep` from the discovered representative `krep` -/
theorem PInv.descend {st st' : St} (h : PInv e st) {krep chrep chperm x' : Int}
    (hk : 0 ≤ krep ∧ krep < e.jcol ∧ repOf e.cenv krep = krep) (hkd : fnz e st krep ≠ EMPTY)
    (hx : rd e.xlsub krep ≤ x') (hc0 : 0 ≤ chrep) (hc1 : chrep < e.jcol) (hcd : fnz e st chrep = EMPTY)
    (szP : e.jcol ≤ st.parent.size) (szX : e.jcol ≤ st.xplore.size)
    (e1 : st'.repfnz = wr st.repfnz (e.off + chrep) chperm) (e2 : st'.parent = wr st.parent chrep krep)
    (e3 : st'.xplore = wr st.xplore krep x') : PInv e st' := by
  have hne : krep ≠ chrep := by intro hh; rw [hh] at hkd; exact hkd hcd
  have hf : ∀ t, t ≠ chrep → fnz e st' t = fnz e st t := by
    intro t ht; unfold fnz; rw [e1]; exact rd_wr_ne (by omega)
  intro t t0 t1 ht
  rw [e2, e3]
  by_cases htc : t = chrep
  · subst htc
    right
    rw [rd_wr_eq t0 (by omega)]
    refine ⟨hk.1, hk.2.1, hk.2.2, ?_, ?_⟩
    · rw [hf _ hne]; exact hkd
    · rw [rd_wr_eq hk.1 (by omega)]; exact hx
  · rw [hf _ htc] at ht
    rw [rd_wr_ne htc]
    rcases h t t0 t1 ht with hp | ⟨a, b, c, d, f⟩
    · exact Or.inl hp
    · right
      have hpc : rd st.parent t ≠ chrep := by intro hh; rw [hh] at d; exact d hcd
      refine ⟨a, b, c, by rw [hf _ hpc]; exact d, ?_⟩
      by_cases hpk : rd st.parent t = krep
      · rw [hpk, rd_wr_eq hk.1 (by omega)]; exact hx
      · rw [rd_wr_ne hpk]; exact f

/-- start of a search at an undiscovered representative -/
theorem PInv.rootStart {st st' : St} (h : PInv e st) {krep kperm : Int}
    (hc0 : 0 ≤ krep) (hc1 : krep < e.jcol) (hcd : fnz e st krep = EMPTY) (szP : e.jcol ≤ st.parent.size)
    (e1 : st'.repfnz = wr st.repfnz (e.off + krep) kperm) (e2 : st'.parent = wr st.parent krep EMPTY)
    (e3 : st'.xplore = st.xplore) : PInv e st' := by
  have hf : ∀ t, t ≠ krep → fnz e st' t = fnz e st t := by
    intro t ht; unfold fnz; rw [e1]; exact rd_wr_ne (by omega)
  intro t t0 t1 ht
  rw [e2, e3]
  by_cases htc : t = krep
  · subst htc
    left
    exact rd_wr_eq t0 (by omega)
  · rw [hf _ htc] at ht
    rw [rd_wr_ne htc]
    rcases h t t0 t1 ht with hp | ⟨a, b, c, d, f⟩
    · exact Or.inl hp
    · right
      have hpc : rd st.parent t ≠ krep := by intro hh; rw [hh] at d; exact d hcd
      exact ⟨a, b, c, by rw [hf _ hpc]; exact d, f⟩

/-! ### primitive paired updates -/

section prim
variable {X : List Int} {ps : St} {cs : ColDfs.St}

theorem Sim.markRow (h : Sim e M0 n0p n0c X ps cs) (hm0 : 0 ≤ e.m) {r : Int} (r0 : 0 ≤ r) (r1 : r < e.m) :
    Sim e M0 n0p n0c X { ps with marker := wr ps.marker r e.jj }
      { cs with marker := wr cs.marker (2 * e.cenv.m + r) e.cenv.jcol } := by
  have hsz := h.szM
  have hszc := h.szMc
  have em : e.cenv.m = e.m := rfl
  have ej : e.cenv.jcol = e.jcol := rfl
  have hm1 : ∀ t, 0 ≤ t → PanelDfs.m1 e { ps with marker := wr ps.marker r e.jj } t = PanelDfs.m1 e ps t := by
    intro t t0; unfold PanelDfs.m1; exact rd_wr_ne (by omega)
  exact { h with
    szM := by show ((wr ps.marker r e.jj).size : Int) = _; rw [size_wr]; exact hsz
    szMc := by show ((wr cs.marker _ _).size : Int) = _; rw [size_wr]; exact hszc
    mark := by
      intro q q0 q1
      have hk := mk2_mark_iff (e := e.cenv) (st := cs) (row := r) (r := q) (by rw [em]; omega) (by rw [em]; omega)
      refine Iff.trans ?_ hk.symm
      rw [show (mk2 e.cenv cs q = e.cenv.jcol) = (rd ps.marker q = e.jj) from propext (h.mark q q0 q1).symm]
      show rd (wr ps.marker r e.jj) q = e.jj ↔ _
      by_cases hq : q = r
      · subst hq; rw [rd_wr_eq q0 (by omega)]; simp
      · rw [rd_wr_ne hq]; simp [hq]
    m1 := fun t t0 t1 => by rw [hm1 t t0]; exact h.m1 t t0 t1
    sgrng := fun t ht => by
      obtain ⟨a, b, c⟩ := h.sgrng t ht
      exact ⟨a, b, by rw [hm1 t a]; exact c⟩ }

theorem Sim.append (h : Sim e M0 n0p n0c X ps cs) (row mark : Int) :
    Sim e M0 n0p n0c X (appendRow ps row) (ColDfs.appendRow e.cenv cs row mark) := by
  have hnl := h.nextl
  have key : Sim e M0 n0p n0c X (appendRow ps row) { cs with lsub := wr cs.lsub cs.nextl row, nextl := cs.nextl + 1 } :=
    { h with
      lsub := fun x x0 x1 => by
        show rd (wr cs.lsub cs.nextl row) x = _
        rw [rd_wr_ne (by omega)]; exact h.lsub x x0 x1
      nextl := by show _ ≤ cs.nextl + 1; omega }
  unfold ColDfs.appendRow
  split
  · exact { key with }
  · exact key

theorem Sim.lower (h : Sim e M0 n0p n0c X ps cs) (hE : PEnvOK e) {rep kp myfnz : Int} (r0 : 0 ≤ rep) (r1 : rep < e.jcol) :
    Sim e M0 n0p n0c X (lowerFnz e ps rep myfnz kp) (ColDfs.lowerFnz cs rep myfnz kp) := by
  unfold lowerFnz ColDfs.lowerFnz
  have hjm := hE.jm
  have hoff := hE.off0
  split
  · exact { h with
      szR := by show _ ≤ ((wr ps.repfnz _ _).size : Int); rw [size_wr]; exact h.szR
      szRc := by show _ ≤ ((wr cs.repfnz _ _).size : Int); rw [size_wr]; exact h.szRc
      fnz := fun s s0 s1 => by
        by_cases hs : s = rep
        · subst hs
          rw [fnz_wr_eq hoff s0 (by omega) h.szR]
          show _ = rd (wr cs.repfnz s kp) s
          rw [rd_wr_eq s0 (by have := h.szRc; omega)]
        · rw [fnz_wr_ne hs]
          show _ = rd (wr cs.repfnz rep kp) s
          rw [rd_wr_ne hs]; exact h.fnz s s0 s1 }
  · exact h

end prim

end Slu.PanelDfs
