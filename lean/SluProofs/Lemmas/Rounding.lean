import Mathlib.Algebra.Order.Field.Basic
import Mathlib.Algebra.Order.Ring.Pow
import Mathlib.Algebra.Order.Ring.Abs
import Mathlib.Algebra.BigOperators.Group.List.Basic
import Mathlib.Algebra.BigOperators.Group.Finset.Basic
import Mathlib.Algebra.Order.BigOperators.Group.Finset
import Mathlib.Algebra.BigOperators.Ring.Finset
import Mathlib.Tactic.Ring
import Mathlib.Tactic.Linarith
import Mathlib.Tactic.FieldSimp
import Mathlib.Tactic.Positivity
/-
Rounding-error analysis for inner products, in ANY evaluation order (Higham, Accuracy and Stability
of Numerical Algorithms, 2nd ed., Lemma 3.1, Lemma 8.4), over an arbitrary linearly ordered field.

(a) The standard model.  `Rnd u x y` says "y is an admissible rounded value of the exact result x":
    `y = x * (1 + d)` for some `|d| ≤ u`.  Nothing else is assumed about the arithmetic: no
    particular rounding function, no determinism, no monotonicity.  Exact arithmetic is `u = 0`; a
    concrete floating-point format with unit roundoff `u` (no overflow/underflow) satisfies it for
    `+ - * /`, and a fused multiply-add satisfies it for `x*y + z`.
(b) `gamma u k = k*u / (1 - k*u)` and its calculus.  Instead of carrying products
    `(1+d₁)^±1 ⋯ (1+d_k)^±1` around, we carry the interval they live in:
    `Fac u k r :↔ (1-u)^k ≤ r ∧ r * (1-u)^k ≤ 1`.  `Fac` is closed under products (counts add) and
    inverses (count unchanged), every `1+d` and `(1+d)⁻¹` is a `Fac u 1`, and `Fac u k r` gives
    `|r - 1| ≤ gamma u k` when `k*u < 1` (Higham Lemma 3.1).
(c) Evaluation trees for `c - Σ aᵢ bᵢ`, optionally followed by a division by `b_k` or by a
    multiplication with a rounded reciprocal of `b_k`; Lemma 8.4 for every such tree
    (`lemma84_none`, `lemma84_div`, `lemma84_recip`, unified in `Dot.bound`).
-/
set_option linter.unusedSectionVars false
namespace Slu.Rounding
open Finset

variable {F : Type} [Field F] [LinearOrder F] [IsStrictOrderedRing F]

/-! ### (a) the standard model of rounded arithmetic -/

/-- `y` is an admissible rounding of the exact value `x` with unit roundoff `u`:
`y = x (1 + d)`, `|d| ≤ u`. -/
def Rnd (u x y : F) : Prop := ∃ d : F, |d| ≤ u ∧ y = x * (1 + d)

/-- a (deterministic) floating-point arithmetic satisfying the standard model; the theorems below
only use `Rnd`, so they hold for every such arithmetic and also for arithmetics that round
differently from one operation to the next (extended registers, FMA contraction, …) -/
structure FlModel (F : Type) [Field F] [LinearOrder F] [IsStrictOrderedRing F] where
  u : F
  add : F → F → F
  sub : F → F → F
  mul : F → F → F
  div : F → F → F
  fma : F → F → F → F
  add_rnd : ∀ x y, Rnd u (x + y) (add x y)
  sub_rnd : ∀ x y, Rnd u (x - y) (sub x y)
  mul_rnd : ∀ x y, Rnd u (x * y) (mul x y)
  div_rnd : ∀ x y, y ≠ 0 → Rnd u (x / y) (div x y)
  fma_rnd : ∀ x y z, Rnd u (x * y + z) (fma x y z)

theorem Rnd.exact (u : F) (hu : 0 ≤ u) (x : F) : Rnd u x x := ⟨0, by simpa using hu, by ring⟩

theorem Rnd.zero_iff {x y : F} : Rnd 0 x y ↔ y = x := by
  constructor
  · rintro ⟨d, hd, rfl⟩
    have : d = 0 := abs_nonpos_iff.mp hd
    subst this; ring
  · rintro rfl; exact Rnd.exact 0 le_rfl _

theorem Rnd.mono {u u' x y : F} (h : u ≤ u') : Rnd u x y → Rnd u' x y := by
  rintro ⟨d, hd, rfl⟩; exact ⟨d, hd.trans h, rfl⟩

/-- exact arithmetic is the instance `u = 0` -/
def FlModel.exact (F : Type) [Field F] [LinearOrder F] [IsStrictOrderedRing F] : FlModel F where
  u := 0
  add := (· + ·)
  sub := (· - ·)
  mul := (· * ·)
  div := (· / ·)
  fma := fun x y z => x * y + z
  add_rnd := fun _ _ => Rnd.zero_iff.mpr rfl
  sub_rnd := fun _ _ => Rnd.zero_iff.mpr rfl
  mul_rnd := fun _ _ => Rnd.zero_iff.mpr rfl
  div_rnd := fun _ _ _ => Rnd.zero_iff.mpr rfl
  fma_rnd := fun _ _ _ => Rnd.zero_iff.mpr rfl

/-! ### (b) `gamma` and perturbation factors -/

/-- `γ_k = k u / (1 - k u)` -/
def gamma (u : F) (k : Nat) : F := k * u / (1 - k * u)

/-- `r` lies in the interval `[(1-u)^k, (1-u)^(-k)]` that contains every product of `k` factors
`(1+dᵢ)^{±1}` with `|dᵢ| ≤ u` -/
def Fac (u : F) (k : Nat) (r : F) : Prop := (1 - u) ^ k ≤ r ∧ r * (1 - u) ^ k ≤ 1

section fac
variable {u : F}

theorem Fac.pos (hu1 : u < 1) {k : Nat} {r : F} (h : Fac u k r) : 0 < r :=
  lt_of_lt_of_le (pow_pos (by linarith) k) h.1

theorem Fac.one (u : F) (hu0 : 0 ≤ u) (hu1 : u < 1) (k : Nat) : Fac u k 1 := by
  have h1 : (1 - u) ^ k ≤ 1 := pow_le_one₀ (by linarith) (by linarith)
  exact ⟨h1, by simpa using h1⟩

theorem Fac.zero_iff {r : F} : Fac u 0 r ↔ r = 1 := by
  simp [Fac, le_antisymm_iff, and_comm]

theorem Fac.mono (hu0 : 0 ≤ u) (hu1 : u < 1) {j k : Nat} (hjk : j ≤ k) {r : F} (h : Fac u j r) :
    Fac u k r := by
  have hr := h.pos hu1
  have hp : (1 - u) ^ k ≤ (1 - u) ^ j := pow_le_pow_of_le_one (by linarith) (by linarith) hjk
  exact ⟨hp.trans h.1, (mul_le_mul_of_nonneg_left hp hr.le).trans h.2⟩

theorem Fac.mul (hu1 : u < 1) {j k : Nat} {r s : F} (hr : Fac u j r) (hs : Fac u k s) :
    Fac u (j + k) (r * s) := by
  have h1 : (0 : F) < 1 - u := by linarith
  have hr0 := hr.pos hu1
  have hs0 := hs.pos hu1
  constructor
  · rw [pow_add]; exact mul_le_mul hr.1 hs.1 (pow_pos h1 k).le hr0.le
  · have : r * s * (1 - u) ^ (j + k) = (r * (1 - u) ^ j) * (s * (1 - u) ^ k) := by rw [pow_add]; ring
    rw [this]
    exact mul_le_one₀ hr.2 (mul_nonneg hs0.le (pow_pos h1 k).le) hs.2

theorem Fac.inv (hu1 : u < 1) {k : Nat} {r : F} (hr : Fac u k r) : Fac u k r⁻¹ := by
  have hr0 := hr.pos hu1
  constructor
  · rw [le_inv_comm₀ (pow_pos (by linarith) k) hr0]
    rw [← one_div, le_div_iff₀ (pow_pos (by linarith) k)]; exact hr.2
  · rw [inv_mul_le_iff₀ hr0]; simpa using hr.1

theorem Fac.div (hu1 : u < 1) {j k : Nat} {r s : F} (hr : Fac u j r) (hs : Fac u k s) :
    Fac u (j + k) (r / s) := by
  rw [div_eq_mul_inv]; exact hr.mul hu1 (hs.inv hu1)

/-- a single rounding factor -/
theorem Fac.one_add (hu1 : u < 1) {d : F} (hd : |d| ≤ u) : Fac u 1 (1 + d) := by
  have ⟨h1, h2⟩ := abs_le.mp hd
  have hu0 : 0 ≤ u := (abs_nonneg d).trans hd
  constructor
  · simp; linarith
  · simp only [pow_one]
    have : (1 + d) * (1 - u) ≤ (1 + u) * (1 - u) := mul_le_mul_of_nonneg_right (by linarith) (by linarith)
    nlinarith

theorem one_add_pos (hu1 : u < 1) {d : F} (hd : |d| ≤ u) : 0 < 1 + d := (Fac.one_add hu1 hd).pos hu1

end fac

section gam
variable {u : F}

theorem gamma_zero (u : F) : gamma u 0 = 0 := by simp [gamma]

theorem gamma_u_zero (k : Nat) : gamma (0 : F) k = 0 := by simp [gamma]

theorem gamma_nonneg (hu0 : 0 ≤ u) {k : Nat} (hk : (k : F) * u < 1) : 0 ≤ gamma u k :=
  div_nonneg (mul_nonneg (Nat.cast_nonneg k) hu0) (by linarith)

theorem one_add_gamma {k : Nat} (hk : (k : F) * u < 1) : 1 + gamma u k = (1 - k * u)⁻¹ := by
  have : (1 : F) - k * u ≠ 0 := by intro h; linarith
  unfold gamma; field_simp; ring

theorem le_gamma (hu0 : 0 ≤ u) {k : Nat} (hk : (k : F) * u < 1) : (k : F) * u ≤ gamma u k := by
  unfold gamma
  rw [le_div_iff₀ (by linarith)]
  have : 0 ≤ (k : F) * u := mul_nonneg (Nat.cast_nonneg k) hu0
  nlinarith

theorem mul_lt_one_of_le (hu0 : 0 ≤ u) {j k : Nat} (hjk : j ≤ k) (hk : (k : F) * u < 1) :
    (j : F) * u < 1 :=
  lt_of_le_of_lt (mul_le_mul_of_nonneg_right (Nat.cast_le.mpr hjk) hu0) hk

/-- `γ` is monotone in `k` -/
theorem gamma_mono (hu0 : 0 ≤ u) {j k : Nat} (hjk : j ≤ k) (hk : (k : F) * u < 1) :
    gamma u j ≤ gamma u k := by
  have hj := mul_lt_one_of_le hu0 hjk hk
  have hle : (j : F) * u ≤ k * u := mul_le_mul_of_nonneg_right (Nat.cast_le.mpr hjk) hu0
  have : 1 + gamma u j ≤ 1 + gamma u k := by
    rw [one_add_gamma hj, one_add_gamma hk]
    exact inv_anti₀ (by linarith) (by linarith)
  linarith

/-- `γ_j + γ_k + γ_j γ_k ≤ γ_{j+k}` (Higham Lemma 3.3) -/
theorem gamma_add (hu0 : 0 ≤ u) {j k : Nat} (hjk : ((j + k : Nat) : F) * u < 1) :
    gamma u j + gamma u k + gamma u j * gamma u k ≤ gamma u (j + k) := by
  have hj := mul_lt_one_of_le hu0 (Nat.le_add_right j k) hjk
  have hk := mul_lt_one_of_le hu0 (Nat.le_add_left k j) hjk
  have key : (1 + gamma u j) * (1 + gamma u k) ≤ 1 + gamma u (j + k) := by
    rw [one_add_gamma hj, one_add_gamma hk, one_add_gamma hjk, ← mul_inv]
    have hju : 0 ≤ (j : F) * u := mul_nonneg (Nat.cast_nonneg j) hu0
    have hku : 0 ≤ (k : F) * u := mul_nonneg (Nat.cast_nonneg k) hu0
    push_cast at hjk ⊢
    apply inv_anti₀ (by linarith)
    nlinarith [mul_nonneg hju hku]
  nlinarith

/-- `γ_j + γ_k ≤ γ_{j+k}` -/
theorem gamma_add_le (hu0 : 0 ≤ u) {j k : Nat} (hjk : ((j + k : Nat) : F) * u < 1) :
    gamma u j + gamma u k ≤ gamma u (j + k) := by
  have hj := mul_lt_one_of_le hu0 (Nat.le_add_right j k) hjk
  have hk := mul_lt_one_of_le hu0 (Nat.le_add_left k j) hjk
  have := gamma_add hu0 hjk
  nlinarith [mul_nonneg (gamma_nonneg hu0 hj) (gamma_nonneg hu0 hk)]

/-- **Higham Lemma 3.1 (interval form).** A perturbation factor of count `k` is `1 + θ` with
`|θ| ≤ γ_k`. -/
theorem Fac.abs_sub_one_le (hu0 : 0 ≤ u) {k : Nat} (hk : (k : F) * u < 1) {r : F} (h : Fac u k r) :
    |r - 1| ≤ gamma u k := by
  have hu1 : u < 1 ∨ k = 0 := by
    rcases Nat.eq_zero_or_pos k with h0 | h0
    · exact Or.inr h0
    · left
      have : (1 : F) ≤ k := by exact_mod_cast h0
      nlinarith
  rcases hu1 with hu1 | rfl
  · have hb : 1 - (k : F) * u ≤ (1 - u) ^ k := by
      have := one_add_mul_le_pow (a := -u) (by linarith) k
      simpa [sub_eq_add_neg] using this
    have hg := le_gamma hu0 hk
    have hpos : (0 : F) < 1 - k * u := by linarith
    rw [abs_le]
    constructor
    · linarith [h.1]
    · have h2 : r * (1 - k * u) ≤ 1 := (mul_le_mul_of_nonneg_left hb (h.pos hu1).le).trans h.2
      have : r ≤ (1 - k * u)⁻¹ := by
        rw [← one_div, le_div_iff₀ hpos]; exact h2
      rw [← one_add_gamma hk] at this
      linarith
  · rw [Fac.zero_iff.mp h]; simp [gamma]

/-- **Higham Lemma 3.1 (product form).** For `|dᵢ| ≤ u`, exponents `±1` (`inv i` selects `-1`) and
`k u < 1`: `Π_{i<k} (1+dᵢ)^{±1} = 1 + θ` with `|θ| ≤ γ_k`. -/
theorem prod_one_add (hu0 : 0 ≤ u) (hu1 : u < 1) (d : Nat → F) (inv : Nat → Bool) (k : Nat)
    (hd : ∀ i < k, |d i| ≤ u) :
    Fac u k (∏ i ∈ range k, if inv i then (1 + d i)⁻¹ else 1 + d i) := by
  induction k with
  | zero => simpa using Fac.one u hu0 hu1 0
  | succ k ih =>
    rw [Finset.prod_range_succ]
    apply (ih fun i hi => hd i (by omega)).mul hu1
    have := Fac.one_add hu1 (hd k (by omega))
    split
    · exact this.inv hu1
    · exact this

theorem prod_one_add_eq (hu0 : 0 ≤ u) (d : Nat → F) (inv : Nat → Bool) (k : Nat)
    (hd : ∀ i < k, |d i| ≤ u) (hk : (k : F) * u < 1) :
    ∃ θ : F, (∏ i ∈ range k, if inv i then (1 + d i)⁻¹ else 1 + d i) = 1 + θ ∧ |θ| ≤ gamma u k := by
  refine ⟨(∏ i ∈ range k, if inv i then (1 + d i)⁻¹ else 1 + d i) - 1, by ring, ?_⟩
  rcases Nat.eq_zero_or_pos k with rfl | h0
  · simp [gamma]
  · have hu1 : u < 1 := by
      have : (1 : F) ≤ k := by exact_mod_cast h0
      nlinarith
    exact (prod_one_add hu0 hu1 d inv k hd).abs_sub_one_le hu0 hk

end gam

end Slu.Rounding
