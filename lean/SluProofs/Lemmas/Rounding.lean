import Mathlib.Algebra.Order.Field.Basic
import Mathlib.Algebra.Order.Ring.Pow
import Mathlib.Algebra.Order.Ring.Abs
import Mathlib.Algebra.BigOperators.Group.List.Basic
import Mathlib.Algebra.BigOperators.Group.Finset.Basic
import Mathlib.Algebra.Order.BigOperators.Group.Finset
import Mathlib.Algebra.BigOperators.Ring.Finset
import Mathlib.Tactic.Ring
import Mathlib.Tactic.Linarith
import Mathlib.Tactic.FieldSimp
import Mathlib.Tactic.Positivity
import Mathlib.Tactic.LinearCombination
/-
Rounding-error analysis for inner products, in ANY evaluation order (Higham, Accuracy and Stability
of Numerical Algorithms, 2nd ed., Lemma 3.1, Lemma 8.4), over an arbitrary linearly ordered field.

(a) The standard model.  `Rnd u x y` says "y is an admissible rounded value of the exact result x":
    `y = x * (1 + d)` for some `|d| ≤ u`.  Nothing else is assumed about the arithmetic: no
    particular rounding function, no determinism, no monotonicity.  Exact arithmetic is `u = 0`; a
    concrete floating-point format with unit roundoff `u` (no overflow/underflow) satisfies it for
    `+ - * /`, and a fused multiply-add satisfies it for `x*y + z`.
(b) `gamma u k = k*u / (1 - k*u)` and its calculus.  Instead of carrying products
    `(1+d₁)^±1 ⋯ (1+d_k)^±1` around, we carry the interval they live in:
    `Fac u k r :↔ (1-u)^k ≤ r ∧ r * (1-u)^k ≤ 1`.  `Fac` is closed under products (counts add) and
    inverses (count unchanged), every `1+d` and `(1+d)⁻¹` is a `Fac u 1`, and `Fac u k r` gives
    `|r - 1| ≤ gamma u k` when `k*u < 1` (Higham Lemma 3.1).
(c) Evaluation trees for `c - Σ aᵢ bᵢ`, optionally followed by a division by `b_k` or by a
    multiplication with a rounded reciprocal of `b_k`; Lemma 8.4 for every such tree
    (`lemma84_none`, `lemma84_div`, `lemma84_recip`, unified in `Dot.bound`).
-/
set_option linter.unusedSectionVars false
namespace Slu.Rounding
open Finset

variable {F : Type} [Field F] [LinearOrder F] [IsStrictOrderedRing F]

/-! ### (a) the standard model of rounded arithmetic -/

/-- `y` is an admissible rounding of the exact value `x` with unit roundoff `u`:
`y = x (1 + d)`, `|d| ≤ u`. -/
def Rnd (u x y : F) : Prop := ∃ d : F, |d| ≤ u ∧ y = x * (1 + d)

/-- a (deterministic) floating-point arithmetic satisfying the standard model; the theorems below
only use `Rnd`, so they hold for every such arithmetic and also for arithmetics that round
differently from one operation to the next (extended registers, FMA contraction, …) -/
structure FlModel (F : Type) [Field F] [LinearOrder F] [IsStrictOrderedRing F] where
  u : F
  add : F → F → F
  sub : F → F → F
  mul : F → F → F
  div : F → F → F
  fma : F → F → F → F
  add_rnd : ∀ x y, Rnd u (x + y) (add x y)
  sub_rnd : ∀ x y, Rnd u (x - y) (sub x y)
  mul_rnd : ∀ x y, Rnd u (x * y) (mul x y)
  div_rnd : ∀ x y, y ≠ 0 → Rnd u (x / y) (div x y)
  fma_rnd : ∀ x y z, Rnd u (x * y + z) (fma x y z)

theorem Rnd.exact (u : F) (hu : 0 ≤ u) (x : F) : Rnd u x x := ⟨0, by simpa using hu, by ring⟩

theorem Rnd.zero_iff {x y : F} : Rnd 0 x y ↔ y = x := by
  constructor
  · rintro ⟨d, hd, rfl⟩
    have : d = 0 := abs_nonpos_iff.mp hd
    subst this; ring
  · rintro rfl; exact Rnd.exact 0 le_rfl _

theorem Rnd.mono {u u' x y : F} (h : u ≤ u') : Rnd u x y → Rnd u' x y := by
  rintro ⟨d, hd, rfl⟩; exact ⟨d, hd.trans h, rfl⟩

/-- exact arithmetic is the instance `u = 0` -/
def FlModel.exact (F : Type) [Field F] [LinearOrder F] [IsStrictOrderedRing F] : FlModel F where
  u := 0
  add := (· + ·)
  sub := (· - ·)
  mul := (· * ·)
  div := (· / ·)
  fma := fun x y z => x * y + z
  add_rnd := fun _ _ => Rnd.zero_iff.mpr rfl
  sub_rnd := fun _ _ => Rnd.zero_iff.mpr rfl
  mul_rnd := fun _ _ => Rnd.zero_iff.mpr rfl
  div_rnd := fun _ _ _ => Rnd.zero_iff.mpr rfl
  fma_rnd := fun _ _ _ => Rnd.zero_iff.mpr rfl

/-- a deterministic, total, genuinely inexact arithmetic obeying the model for any `u ≥ 0`: every
result is inflated by the factor `1 + u` (a worst case of "round away from zero") -/
def FlModel.inflate (u : F) (hu : 0 ≤ u) : FlModel F where
  u := u
  add := fun x y => (x + y) * (1 + u)
  sub := fun x y => (x - y) * (1 + u)
  mul := fun x y => (x * y) * (1 + u)
  div := fun x y => (x / y) * (1 + u)
  fma := fun x y z => (x * y + z) * (1 + u)
  add_rnd := fun _ _ => ⟨u, le_of_eq (abs_of_nonneg hu), rfl⟩
  sub_rnd := fun _ _ => ⟨u, le_of_eq (abs_of_nonneg hu), rfl⟩
  mul_rnd := fun _ _ => ⟨u, le_of_eq (abs_of_nonneg hu), rfl⟩
  div_rnd := fun _ _ _ => ⟨u, le_of_eq (abs_of_nonneg hu), rfl⟩
  fma_rnd := fun _ _ _ => ⟨u, le_of_eq (abs_of_nonneg hu), rfl⟩

/-! ### (b) `gamma` and perturbation factors -/

/-- `γ_k = k u / (1 - k u)` -/
def gamma (u : F) (k : Nat) : F := k * u / (1 - k * u)

/-- `r` lies in the interval `[(1-u)^k, (1-u)^(-k)]` that contains every product of `k` factors
`(1+dᵢ)^{±1}` with `|dᵢ| ≤ u` -/
def Fac (u : F) (k : Nat) (r : F) : Prop := (1 - u) ^ k ≤ r ∧ r * (1 - u) ^ k ≤ 1

section fac
variable {u : F}

theorem Fac.pos (hu1 : u < 1) {k : Nat} {r : F} (h : Fac u k r) : 0 < r :=
  lt_of_lt_of_le (pow_pos (by linarith) k) h.1

theorem Fac.one (u : F) (hu0 : 0 ≤ u) (hu1 : u < 1) (k : Nat) : Fac u k 1 := by
  have h1 : (1 - u) ^ k ≤ 1 := pow_le_one₀ (by linarith) (by linarith)
  exact ⟨h1, by simpa using h1⟩

theorem Fac.zero_iff {r : F} : Fac u 0 r ↔ r = 1 := by
  simp [Fac, le_antisymm_iff, and_comm]

theorem Fac.mono (hu0 : 0 ≤ u) (hu1 : u < 1) {j k : Nat} (hjk : j ≤ k) {r : F} (h : Fac u j r) :
    Fac u k r := by
  have hr := h.pos hu1
  have hp : (1 - u) ^ k ≤ (1 - u) ^ j := pow_le_pow_of_le_one (by linarith) (by linarith) hjk
  exact ⟨hp.trans h.1, (mul_le_mul_of_nonneg_left hp hr.le).trans h.2⟩

theorem Fac.mul (hu1 : u < 1) {j k : Nat} {r s : F} (hr : Fac u j r) (hs : Fac u k s) :
    Fac u (j + k) (r * s) := by
  have h1 : (0 : F) < 1 - u := by linarith
  have hr0 := hr.pos hu1
  have hs0 := hs.pos hu1
  constructor
  · rw [pow_add]; exact mul_le_mul hr.1 hs.1 (pow_pos h1 k).le hr0.le
  · have : r * s * (1 - u) ^ (j + k) = (r * (1 - u) ^ j) * (s * (1 - u) ^ k) := by rw [pow_add]; ring
    rw [this]
    exact mul_le_one₀ hr.2 (mul_nonneg hs0.le (pow_pos h1 k).le) hs.2

theorem Fac.inv (hu1 : u < 1) {k : Nat} {r : F} (hr : Fac u k r) : Fac u k r⁻¹ := by
  have hr0 := hr.pos hu1
  constructor
  · rw [le_inv_comm₀ (pow_pos (by linarith) k) hr0]
    rw [← one_div, le_div_iff₀ (pow_pos (by linarith) k)]; exact hr.2
  · rw [inv_mul_le_iff₀ hr0]; simpa using hr.1

theorem Fac.div (hu1 : u < 1) {j k : Nat} {r s : F} (hr : Fac u j r) (hs : Fac u k s) :
    Fac u (j + k) (r / s) := by
  rw [div_eq_mul_inv]; exact hr.mul hu1 (hs.inv hu1)

/-- a single rounding factor -/
theorem Fac.one_add (hu1 : u < 1) {d : F} (hd : |d| ≤ u) : Fac u 1 (1 + d) := by
  have ⟨h1, h2⟩ := abs_le.mp hd
  have hu0 : 0 ≤ u := (abs_nonneg d).trans hd
  constructor
  · simp; linarith
  · simp only [pow_one]
    have : (1 + d) * (1 - u) ≤ (1 + u) * (1 - u) := mul_le_mul_of_nonneg_right (by linarith) (by linarith)
    nlinarith

theorem one_add_pos (hu1 : u < 1) {d : F} (hd : |d| ≤ u) : 0 < 1 + d := (Fac.one_add hu1 hd).pos hu1

end fac

section gam
variable {u : F}

theorem gamma_zero (u : F) : gamma u 0 = 0 := by simp [gamma]

theorem gamma_u_zero (k : Nat) : gamma (0 : F) k = 0 := by simp [gamma]

theorem gamma_nonneg (hu0 : 0 ≤ u) {k : Nat} (hk : (k : F) * u < 1) : 0 ≤ gamma u k :=
  div_nonneg (mul_nonneg (Nat.cast_nonneg k) hu0) (by linarith)

theorem one_add_gamma {k : Nat} (hk : (k : F) * u < 1) : 1 + gamma u k = (1 - k * u)⁻¹ := by
  have : (1 : F) - k * u ≠ 0 := by intro h; linarith
  unfold gamma; field_simp; ring

theorem le_gamma (hu0 : 0 ≤ u) {k : Nat} (hk : (k : F) * u < 1) : (k : F) * u ≤ gamma u k := by
  unfold gamma
  rw [le_div_iff₀ (by linarith)]
  have : 0 ≤ (k : F) * u := mul_nonneg (Nat.cast_nonneg k) hu0
  nlinarith

theorem mul_lt_one_of_le (hu0 : 0 ≤ u) {j k : Nat} (hjk : j ≤ k) (hk : (k : F) * u < 1) :
    (j : F) * u < 1 :=
  lt_of_le_of_lt (mul_le_mul_of_nonneg_right (Nat.cast_le.mpr hjk) hu0) hk

/-- `γ` is monotone in `k` -/
theorem gamma_mono (hu0 : 0 ≤ u) {j k : Nat} (hjk : j ≤ k) (hk : (k : F) * u < 1) :
    gamma u j ≤ gamma u k := by
  have hj := mul_lt_one_of_le hu0 hjk hk
  have hle : (j : F) * u ≤ k * u := mul_le_mul_of_nonneg_right (Nat.cast_le.mpr hjk) hu0
  have : 1 + gamma u j ≤ 1 + gamma u k := by
    rw [one_add_gamma hj, one_add_gamma hk]
    exact inv_anti₀ (by linarith) (by linarith)
  linarith

/-- `γ_j + γ_k + γ_j γ_k ≤ γ_{j+k}` (Higham Lemma 3.3) -/
theorem gamma_add (hu0 : 0 ≤ u) {j k : Nat} (hjk : ((j + k : Nat) : F) * u < 1) :
    gamma u j + gamma u k + gamma u j * gamma u k ≤ gamma u (j + k) := by
  have hj := mul_lt_one_of_le hu0 (Nat.le_add_right j k) hjk
  have hk := mul_lt_one_of_le hu0 (Nat.le_add_left k j) hjk
  have key : (1 + gamma u j) * (1 + gamma u k) ≤ 1 + gamma u (j + k) := by
    rw [one_add_gamma hj, one_add_gamma hk, one_add_gamma hjk, ← mul_inv]
    have hju : 0 ≤ (j : F) * u := mul_nonneg (Nat.cast_nonneg j) hu0
    have hku : 0 ≤ (k : F) * u := mul_nonneg (Nat.cast_nonneg k) hu0
    push_cast at hjk ⊢
    apply inv_anti₀ (by linarith)
    nlinarith [mul_nonneg hju hku]
  nlinarith

/-- `γ_j + γ_k ≤ γ_{j+k}` -/
theorem gamma_add_le (hu0 : 0 ≤ u) {j k : Nat} (hjk : ((j + k : Nat) : F) * u < 1) :
    gamma u j + gamma u k ≤ gamma u (j + k) := by
  have hj := mul_lt_one_of_le hu0 (Nat.le_add_right j k) hjk
  have hk := mul_lt_one_of_le hu0 (Nat.le_add_left k j) hjk
  have := gamma_add hu0 hjk
  nlinarith [mul_nonneg (gamma_nonneg hu0 hj) (gamma_nonneg hu0 hk)]

/-- **Higham Lemma 3.1 (interval form).** A perturbation factor of count `k` is `1 + θ` with
`|θ| ≤ γ_k`. -/
theorem Fac.abs_sub_one_le (hu0 : 0 ≤ u) {k : Nat} (hk : (k : F) * u < 1) {r : F} (h : Fac u k r) :
    |r - 1| ≤ gamma u k := by
  have hu1 : u < 1 ∨ k = 0 := by
    rcases Nat.eq_zero_or_pos k with h0 | h0
    · exact Or.inr h0
    · left
      have : (1 : F) ≤ k := by exact_mod_cast h0
      nlinarith
  rcases hu1 with hu1 | rfl
  · have hb : 1 - (k : F) * u ≤ (1 - u) ^ k := by
      have := one_add_mul_le_pow (a := -u) (by linarith) k
      simpa [sub_eq_add_neg] using this
    have hg := le_gamma hu0 hk
    have hpos : (0 : F) < 1 - k * u := by linarith
    rw [abs_le]
    constructor
    · linarith [h.1]
    · have h2 : r * (1 - k * u) ≤ 1 := (mul_le_mul_of_nonneg_left hb (h.pos hu1).le).trans h.2
      have : r ≤ (1 - k * u)⁻¹ := by
        rw [← one_div, le_div_iff₀ hpos]; exact h2
      rw [← one_add_gamma hk] at this
      linarith
  · rw [Fac.zero_iff.mp h]; simp [gamma]

/-- **Higham Lemma 3.1 (product form).** For `|dᵢ| ≤ u`, exponents `±1` (`inv i` selects `-1`) and
`k u < 1`: `Π_{i<k} (1+dᵢ)^{±1} = 1 + θ` with `|θ| ≤ γ_k`. -/
theorem prod_one_add (hu0 : 0 ≤ u) (hu1 : u < 1) (d : Nat → F) (inv : Nat → Bool) (k : Nat)
    (hd : ∀ i < k, |d i| ≤ u) :
    Fac u k (∏ i ∈ range k, if inv i then (1 + d i)⁻¹ else 1 + d i) := by
  induction k with
  | zero => simpa using Fac.one u hu0 hu1 0
  | succ k ih =>
    rw [Finset.prod_range_succ]
    apply (ih fun i hi => hd i (by omega)).mul hu1
    have := Fac.one_add hu1 (hd k (by omega))
    split
    · exact this.inv hu1
    · exact this

theorem prod_one_add_eq (hu0 : 0 ≤ u) (d : Nat → F) (inv : Nat → Bool) (k : Nat)
    (hd : ∀ i < k, |d i| ≤ u) (hk : (k : F) * u < 1) :
    ∃ θ : F, (∏ i ∈ range k, if inv i then (1 + d i)⁻¹ else 1 + d i) = 1 + θ ∧ |θ| ≤ gamma u k := by
  refine ⟨(∏ i ∈ range k, if inv i then (1 + d i)⁻¹ else 1 + d i) - 1, by ring, ?_⟩
  rcases Nat.eq_zero_or_pos k with rfl | h0
  · simp [gamma]
  · have hu1 : u < 1 := by
      have : (1 : F) ≤ k := by exact_mod_cast h0
      nlinarith
    exact (prod_one_add hu0 hu1 d inv k hd).abs_sub_one_le hu0 hk

end gam

/-! ### (c) evaluation trees for `c - Σ aᵢ bᵢ` and Higham's Lemma 8.4 in every order

An evaluation of `c - Σ aᵢ bᵢ` is a binary tree whose leaves are `c` (once) and the products.  The
path from `c` to the root is the SPINE (`CTree`); what hangs off the spine are sums of products
accumulated separately (`STree`: a panel / supernode / gemv block, a BLAS kernel's partial sums).
Every product, addition, subtraction is rounded once (`Rnd`); a fused multiply-add/subtract rounds
once for the pair; negation is exact (as it is in binary floating point).  Signs are free:
`t + s`, `t - s`, `s₁ - s₂`, `-s`, `s ± a*b` are all available, and `leaves` records each product
with the sign it effectively carries, so that a tree always computes `head - Σ_{(a,b) ∈ leaves} a b`. -/

/-- a signed sum of products in some association -/
inductive STree (F : Type) where
  | leaf (a b : F)                    -- fl(a*b)
  | add (s t : STree F)               -- fl(s + t)
  | sub (s t : STree F)               -- fl(s - t)
  | neg (s : STree F)                 -- -s (exact)
  | fma (s : STree F) (a b : F)       -- fl(s + a*b), one rounding
  | fms (s : STree F) (a b : F)       -- fl(s - a*b), one rounding

/-- the spine that carries `c` -/
inductive CTree (F : Type) where
  | lit (c : F)                       -- the datum itself (no rounding)
  | sub (t : CTree F) (s : STree F)   -- fl(t - s)
  | add (t : CTree F) (s : STree F)   -- fl(t + s)
  | fms (t : CTree F) (a b : F)       -- fl(t - a*b), one rounding
  | fma (t : CTree F) (a b : F)       -- fl(t + a*b), one rounding

/-- flip the sign of every product -/
def negl (l : List (F × F)) : List (F × F) := l.map fun p => (-p.1, p.2)

/-- the products of a sum tree, left to right, with their effective signs: the tree computes
`Σ_{(a,b) ∈ leaves} a b` -/
def STree.leaves : STree F → List (F × F)
  | .leaf a b => [(a, b)]
  | .add s t => s.leaves ++ t.leaves
  | .sub s t => s.leaves ++ negl t.leaves
  | .neg s => negl s.leaves
  | .fma s a b => s.leaves ++ [(a, b)]
  | .fms s a b => s.leaves ++ [(-a, b)]

/-- the products SUBTRACTED from the head: the tree computes `head - Σ_{(a,b) ∈ leaves} a b` -/
def CTree.leaves : CTree F → List (F × F)
  | .lit _ => []
  | .sub t s => t.leaves ++ s.leaves
  | .add t s => t.leaves ++ negl s.leaves
  | .fms t a b => t.leaves ++ [(a, b)]
  | .fma t a b => t.leaves ++ [(-a, b)]

/-- the datum the products are subtracted from -/
def CTree.head : CTree F → F
  | .lit c => c
  | .sub t _ => t.head
  | .add t _ => t.head
  | .fms t _ _ => t.head
  | .fma t _ _ => t.head

/-- `s.Eval u y`: `y` is a value the tree can produce when every operation obeys the standard model -/
inductive STree.Eval (u : F) : STree F → F → Prop
  | leaf {a b y : F} : Rnd u (a * b) y → STree.Eval u (.leaf a b) y
  | add {s t : STree F} {ys yt y : F} : STree.Eval u s ys → STree.Eval u t yt → Rnd u (ys + yt) y →
      STree.Eval u (.add s t) y
  | sub {s t : STree F} {ys yt y : F} : STree.Eval u s ys → STree.Eval u t yt → Rnd u (ys - yt) y →
      STree.Eval u (.sub s t) y
  | neg {s : STree F} {ys : F} : STree.Eval u s ys → STree.Eval u (.neg s) (-ys)
  | fma {s : STree F} {a b ys y : F} : STree.Eval u s ys → Rnd u (ys + a * b) y →
      STree.Eval u (.fma s a b) y
  | fms {s : STree F} {a b ys y : F} : STree.Eval u s ys → Rnd u (ys - a * b) y →
      STree.Eval u (.fms s a b) y

inductive CTree.Eval (u : F) : CTree F → F → Prop
  | lit (c : F) : CTree.Eval u (.lit c) c
  | sub {t : CTree F} {s : STree F} {yt ys y : F} : CTree.Eval u t yt → STree.Eval u s ys →
      Rnd u (yt - ys) y → CTree.Eval u (.sub t s) y
  | add {t : CTree F} {s : STree F} {yt ys y : F} : CTree.Eval u t yt → STree.Eval u s ys →
      Rnd u (yt + ys) y → CTree.Eval u (.add t s) y
  | fms {t : CTree F} {a b yt y : F} : CTree.Eval u t yt → Rnd u (yt - a * b) y →
      CTree.Eval u (.fms t a b) y
  | fma {t : CTree F} {a b yt y : F} : CTree.Eval u t yt → Rnd u (yt + a * b) y →
      CTree.Eval u (.fma t a b) y

/-- exact sum of the products and of their absolute values -/
def dotSum (l : List (F × F)) : F := (l.map fun p => p.1 * p.2).sum
def dotAbs (l : List (F × F)) : F := (l.map fun p => |p.1| * |p.2|).sum

theorem dotSum_append (l l' : List (F × F)) : dotSum (l ++ l') = dotSum l + dotSum l' := by
  simp [dotSum]
theorem dotAbs_append (l l' : List (F × F)) : dotAbs (l ++ l') = dotAbs l + dotAbs l' := by
  simp [dotAbs]
theorem dotSum_perm {l l' : List (F × F)} (h : l.Perm l') : dotSum l = dotSum l' :=
  (h.map _).sum_eq
theorem dotAbs_perm {l l' : List (F × F)} (h : l.Perm l') : dotAbs l = dotAbs l' :=
  (h.map _).sum_eq
theorem dotAbs_nonneg (l : List (F × F)) : 0 ≤ dotAbs l := by
  induction l with
  | nil => simp [dotAbs]
  | cons p l ih =>
    have : dotAbs (p :: l) = |p.1| * |p.2| + dotAbs l := by simp [dotAbs]
    rw [this]; positivity

theorem dotSum_range (a b : Nat → F) (k : Nat) :
    dotSum ((List.range k).map fun i => (a i, b i)) = ∑ i ∈ range k, a i * b i := by
  induction k with
  | zero => simp [dotSum]
  | succ k ih =>
    rw [List.range_succ, List.map_append, dotSum_append, ih, Finset.sum_range_succ]; simp [dotSum]
theorem dotAbs_range (a b : Nat → F) (k : Nat) :
    dotAbs ((List.range k).map fun i => (a i, b i)) = ∑ i ∈ range k, |a i| * |b i| := by
  induction k with
  | zero => simp [dotAbs]
  | succ k ih =>
    rw [List.range_succ, List.map_append, dotAbs_append, ih, Finset.sum_range_succ]; simp [dotAbs]

@[simp] theorem negl_length (l : List (F × F)) : (negl l).length = l.length := by simp [negl]
theorem negl_negl (l : List (F × F)) : negl (negl l) = l := by
  induction l with
  | nil => rfl
  | cons p l ih => simp only [negl, List.map_cons, neg_neg] at ih ⊢; rw [ih]
theorem dotSum_negl (l : List (F × F)) : dotSum (negl l) = -dotSum l := by
  induction l with
  | nil => simp [negl, dotSum]
  | cons p l ih =>
    have e1 : dotSum (negl (p :: l)) = -p.1 * p.2 + dotSum (negl l) := by simp [negl, dotSum]
    have e2 : dotSum (p :: l) = p.1 * p.2 + dotSum l := by simp [dotSum]
    rw [e1, e2, ih]; ring
theorem dotAbs_negl (l : List (F × F)) : dotAbs (negl l) = dotAbs l := by
  induction l with
  | nil => simp [negl, dotAbs]
  | cons p l ih =>
    have e1 : dotAbs (negl (p :: l)) = |(-p.1)| * |p.2| + dotAbs (negl l) := by simp [negl, dotAbs]
    have e2 : dotAbs (p :: l) = |p.1| * |p.2| + dotAbs l := by simp [dotAbs]
    rw [e1, e2, ih, abs_neg]

/-- `PSum u k l y`: `y = Σ_{(a,b) ∈ l} a b r` with every `r` a perturbation factor of count `k` -/
inductive PSum (u : F) (k : Nat) : List (F × F) → F → Prop
  | nil : PSum u k [] 0
  | cons {a b r y : F} {l : List (F × F)} : Fac u k r → PSum u k l y → PSum u k ((a, b) :: l) (a * b * r + y)

section psum
variable {u : F}

theorem PSum.mono (hu0 : 0 ≤ u) (hu1 : u < 1) {j k : Nat} (hjk : j ≤ k) {l : List (F × F)} {y : F}
    (h : PSum u j l y) : PSum u k l y := by
  induction h with
  | nil => exact .nil
  | cons hr _ ih => exact .cons (hr.mono hu0 hu1 hjk) ih

theorem PSum.append {k : Nat} {l l' : List (F × F)} {y y' : F}
    (h : PSum u k l y) (h' : PSum u k l' y') : PSum u k (l ++ l') (y + y') := by
  induction h with
  | nil => simpa using h'
  | cons hr _ ih =>
    rw [List.cons_append, add_assoc]; exact .cons hr ih

theorem PSum.scale (hu1 : u < 1) {j k : Nat} {l : List (F × F)} {y r : F}
    (h : PSum u k l y) (hr : Fac u j r) : PSum u (k + j) l (y * r) := by
  induction h with
  | nil => simpa using PSum.nil
  | @cons a b r' y l hr' _ ih =>
    have : (a * b * r' + y) * r = a * b * (r' * r) + y * r := by ring
    rw [this]; exact .cons (hr'.mul hu1 hr) ih

theorem PSum.single {k : Nat} {r : F} (a b : F) (hr : Fac u k r) :
    PSum u k [(a, b)] (a * b * r) := by
  simpa using PSum.cons (a := a) (b := b) hr (PSum.nil (u := u) (k := k))

theorem PSum.neg {k : Nat} {l : List (F × F)} {y : F} (h : PSum u k l y) : PSum u k (negl l) (-y) := by
  induction h with
  | nil => simpa [negl] using PSum.nil (u := u) (k := k)
  | @cons a b r y l hr _ ih =>
    have e : -(a * b * r + y) = -a * b * r + -y := by ring
    rw [e]; exact .cons hr ih

/-- one rounded addition of two separately accumulated sums -/
theorem PSum.step_add (hu0 : 0 ≤ u) (hu1 : u < 1) {j k : Nat} {l l' : List (F × F)} {y y' d : F}
    (hj : 0 < j) (hk : 0 < k) (h : PSum u j l y) (h' : PSum u k l' y') (hd : |d| ≤ u) :
    PSum u (j + k) (l ++ l') ((y + y') * (1 + d)) := by
  have h1 := (h.mono hu0 hu1 (k := j + k - 1) (by omega)).append (h'.mono hu0 hu1 (k := j + k - 1) (by omega))
  have h2 := h1.scale hu1 (Fac.one_add hu1 hd)
  have e : j + k - 1 + 1 = j + k := by omega
  rwa [e] at h2

/-- one fused multiply-add onto an accumulated sum -/
theorem PSum.step_fma (hu0 : 0 ≤ u) (hu1 : u < 1) {j : Nat} {l : List (F × F)} {y d : F} (a b : F)
    (h : PSum u j l y) (hd : |d| ≤ u) : PSum u (j + 1) (l ++ [(a, b)]) ((y + a * b) * (1 + d)) := by
  have h0 : PSum u j [(a, b)] (a * b) := by simpa using PSum.single a b (Fac.one u hu0 hu1 j)
  exact (h.append h0).scale hu1 (Fac.one_add hu1 hd)

/-- the perturbed sum is within `γ_k Σ|a||b|` of the exact sum -/
theorem PSum.bound (hu0 : 0 ≤ u) {k : Nat} (hk : (k : F) * u < 1) {l : List (F × F)} {y : F}
    (h : PSum u k l y) : |y - dotSum l| ≤ gamma u k * dotAbs l := by
  induction h with
  | nil => simp [dotSum, dotAbs]
  | @cons a b r y l hr _ ih =>
    have e1 : dotSum ((a, b) :: l) = a * b + dotSum l := by simp [dotSum]
    have e2 : dotAbs ((a, b) :: l) = |a| * |b| + dotAbs l := by simp [dotAbs]
    rw [e1, e2]
    have : a * b * r + y - (a * b + dotSum l) = a * b * (r - 1) + (y - dotSum l) := by ring
    rw [this]
    refine (abs_add_le _ _).trans ?_
    have h1 : |a * b * (r - 1)| ≤ gamma u k * (|a| * |b|) := by
      rw [abs_mul, abs_mul, mul_comm]
      exact mul_le_mul_of_nonneg_right (hr.abs_sub_one_le hu0 hk) (by positivity)
    linarith

end psum

section trees
variable {u : F}

theorem STree.leaves_length_pos (s : STree F) : 0 < s.leaves.length := by
  induction s with
  | leaf a b => simp [STree.leaves]
  | add s t ihs _ => simp only [STree.leaves, List.length_append]; omega
  | sub s t ihs _ => simp only [STree.leaves, List.length_append]; omega
  | neg s ih => simpa [STree.leaves] using ih
  | fma s a b _ => simp [STree.leaves]
  | fms s a b _ => simp [STree.leaves]

/-- every value of a sum tree with `j` products is a perturbed sum with factors of count `j` -/
theorem STree.Eval.psum (hu0 : 0 ≤ u) (hu1 : u < 1) {s : STree F} {y : F} (h : s.Eval u y) :
    PSum u s.leaves.length s.leaves y := by
  induction h with
  | @leaf a b y h =>
    obtain ⟨d, hd, rfl⟩ := h
    exact PSum.single a b (Fac.one_add hu1 hd)
  | @add s t ys yt y _ _ h ihs iht =>
    obtain ⟨d, hd, rfl⟩ := h
    simp only [STree.leaves, List.length_append]
    exact PSum.step_add hu0 hu1 s.leaves_length_pos t.leaves_length_pos ihs iht hd
  | @sub s t ys yt y _ _ h ihs iht =>
    obtain ⟨d, hd, rfl⟩ := h
    simp only [STree.leaves, List.length_append, negl_length]
    have := PSum.step_add hu0 hu1 s.leaves_length_pos t.leaves_length_pos ihs iht.neg hd
    rwa [← sub_eq_add_neg] at this
  | @neg s ys _ ih =>
    simp only [STree.leaves, negl_length]
    exact ih.neg
  | @fma s a b ys y _ h ihs =>
    obtain ⟨d, hd, rfl⟩ := h
    simp only [STree.leaves, List.length_append, List.length_singleton]
    exact PSum.step_fma hu0 hu1 a b ihs hd
  | @fms s a b ys y _ h ihs =>
    obtain ⟨d, hd, rfl⟩ := h
    simp only [STree.leaves, List.length_append, List.length_singleton]
    have := PSum.step_fma hu0 hu1 (-a) b ihs hd
    have e : ys + -a * b = ys - a * b := by ring
    rwa [e] at this

/-- one spine step `fl(t - s)` -/
theorem spine_sub (hu0 : 0 ≤ u) (hu1 : u < 1) {c yt r0 y' ys d : F} {kt js : Nat}
    {lt ls : List (F × F)} (hr0 : Fac u kt r0) (hy' : PSum u kt lt y') (e : yt * r0 = c - y')
    (hs : PSum u js ls ys) (hjs : 0 < js) (hd : |d| ≤ u) :
    ∃ r0' y'' : F, Fac u (kt + js) r0' ∧ PSum u (kt + js) (lt ++ ls) y'' ∧
      (yt - ys) * (1 + d) * r0' = c - y'' := by
  have hpos := one_add_pos hu1 hd
  refine ⟨r0 / (1 + d), y' + ys * r0, ?_, ?_, ?_⟩
  · exact (hr0.div hu1 (Fac.one_add hu1 hd)).mono hu0 hu1 (by omega)
  · refine (hy'.mono hu0 hu1 (by omega)).append ?_
    have := hs.scale hu1 hr0
    rwa [add_comm] at this
  · field_simp
    linear_combination e

/-- one spine step `fl(t - a*b)` with a single rounding -/
theorem spine_fms (hu0 : 0 ≤ u) (hu1 : u < 1) {c yt r0 y' d : F} {kt : Nat}
    {lt : List (F × F)} (a b : F) (hr0 : Fac u kt r0) (hy' : PSum u kt lt y') (e : yt * r0 = c - y')
    (hd : |d| ≤ u) :
    ∃ r0' y'' : F, Fac u (kt + 1) r0' ∧ PSum u (kt + 1) (lt ++ [(a, b)]) y'' ∧
      (yt - a * b) * (1 + d) * r0' = c - y'' := by
  have hpos := one_add_pos hu1 hd
  refine ⟨r0 / (1 + d), y' + a * b * r0, ?_, ?_, ?_⟩
  · exact hr0.div hu1 (Fac.one_add hu1 hd)
  · exact (hy'.mono hu0 hu1 (by omega)).append (PSum.single a b (hr0.mono hu0 hu1 (by omega)))
  · field_simp
    linear_combination e

/-- **spine invariant**: a value `y` of a tree with `k` products satisfies `y r₀ = c - Σ aᵢ bᵢ rᵢ`
with `r₀` and all `rᵢ` perturbation factors of count `k` -/
theorem CTree.Eval.psum (hu0 : 0 ≤ u) (hu1 : u < 1) {T : CTree F} {y : F} (h : T.Eval u y) :
    ∃ r0 y' : F, Fac u T.leaves.length r0 ∧ PSum u T.leaves.length T.leaves y' ∧ y * r0 = T.head - y' := by
  induction h with
  | lit c => exact ⟨1, 0, Fac.one u hu0 hu1 _, .nil, by simp [CTree.head]⟩
  | @sub t s yt ys y _ hs h ih =>
    obtain ⟨r0, y', hr0, hy', e⟩ := ih
    obtain ⟨d, hd, rfl⟩ := h
    simp only [CTree.leaves, List.length_append, CTree.head]
    exact spine_sub hu0 hu1 hr0 hy' e (hs.psum hu0 hu1) s.leaves_length_pos hd
  | @add t s yt ys y _ hs h ih =>
    obtain ⟨r0, y', hr0, hy', e⟩ := ih
    obtain ⟨d, hd, rfl⟩ := h
    simp only [CTree.leaves, List.length_append, CTree.head, negl_length]
    have := spine_sub hu0 hu1 hr0 hy' e (hs.psum hu0 hu1).neg s.leaves_length_pos hd
    rwa [sub_neg_eq_add] at this
  | @fms t a b yt y _ h ih =>
    obtain ⟨r0, y', hr0, hy', e⟩ := ih
    obtain ⟨d, hd, rfl⟩ := h
    simp only [CTree.leaves, List.length_append, List.length_singleton, CTree.head]
    exact spine_fms hu0 hu1 a b hr0 hy' e hd
  | @fma t a b yt y _ h ih =>
    obtain ⟨r0, y', hr0, hy', e⟩ := ih
    obtain ⟨d, hd, rfl⟩ := h
    simp only [CTree.leaves, List.length_append, List.length_singleton, CTree.head]
    have := spine_fms hu0 hu1 (-a) b hr0 hy' e hd
    have e' : yt - -a * b = yt + a * b := by ring
    rwa [e'] at this

/-- from the invariant to Higham's form -/
theorem bound_of_psum (hu0 : 0 ≤ u) {k : Nat} (hk : (k : F) * u < 1) {l : List (F × F)}
    {c bk y r0 y' : F} (hr0 : Fac u k r0) (hy' : PSum u k l y') (e : y * bk * r0 = c - y') :
    |c - dotSum l - bk * y| ≤ gamma u k * (dotAbs l + |bk| * |y|) := by
  have h1 := hr0.abs_sub_one_le hu0 hk
  have h2 := hy'.bound hu0 hk
  have : c - dotSum l - bk * y = bk * y * (r0 - 1) + (y' - dotSum l) := by linear_combination (-1 : F) * e
  rw [this]
  refine (abs_add_le _ _).trans ?_
  have h3 : |bk * y * (r0 - 1)| ≤ gamma u k * (|bk| * |y|) := by
    rw [abs_mul, abs_mul, mul_comm]
    exact mul_le_mul_of_nonneg_right h1 (by positivity)
  linarith

end trees

/-! #### Lemma 8.4, three ways of finishing -/

section lemma84
variable {u : F}

/-- **Lemma 8.4, no division** (`k` products, any tree): the computed `y ≈ c - Σ aᵢ bᵢ` satisfies
`|c - Σ aᵢ bᵢ - y| ≤ γ_k (Σ |aᵢ||bᵢ| + |y|)`. -/
theorem lemma84_none (hu0 : 0 ≤ u) {T : CTree F} {y : F} (h : T.Eval u y)
    (hk : (T.leaves.length : F) * u < 1) :
    |T.head - dotSum T.leaves - y| ≤ gamma u T.leaves.length * (dotAbs T.leaves + |y|) := by
  rcases Nat.eq_zero_or_pos T.leaves.length with h0 | h0
  · -- no product at all: y = c
    cases h with
    | lit c => simp [CTree.leaves, CTree.head, dotSum, dotAbs, gamma]
    | @sub t s _ _ _ _ _ _ =>
      have := s.leaves_length_pos; simp only [CTree.leaves, List.length_append] at h0; omega
    | @add t s _ _ _ _ _ _ =>
      have := s.leaves_length_pos; simp only [CTree.leaves, List.length_append, negl_length] at h0; omega
    | fms _ _ => simp [CTree.leaves] at h0
    | fma _ _ => simp [CTree.leaves] at h0
  · have hu1 : u < 1 := by
      have : (1 : F) ≤ T.leaves.length := by exact_mod_cast h0
      nlinarith
    obtain ⟨r0, y', hr0, hy', e⟩ := h.psum hu0 hu1
    have := bound_of_psum hu0 hk (bk := 1) hr0 hy' (by simpa using e)
    simpa using this

/-- **Lemma 8.4 with a rounded division** `y = fl(w / b_k)`, `w` any tree value (`k` products):
`|c - Σ aᵢ bᵢ - b_k y| ≤ γ_{k+1} (Σ |aᵢ||bᵢ| + |b_k||y|)`. -/
theorem lemma84_div (hu0 : 0 ≤ u) {T : CTree F} {w bk y : F} (h : T.Eval u w) (hb : bk ≠ 0)
    (hy : Rnd u (w / bk) y) (hk : ((T.leaves.length + 1 : Nat) : F) * u < 1) :
    |T.head - dotSum T.leaves - bk * y| ≤ gamma u (T.leaves.length + 1) * (dotAbs T.leaves + |bk| * |y|) := by
  have hu1 : u < 1 := by
    have : (1 : F) ≤ ((T.leaves.length + 1 : Nat) : F) := by exact_mod_cast Nat.succ_pos _
    nlinarith
  obtain ⟨r0, y', hr0, hy', e⟩ := h.psum hu0 hu1
  obtain ⟨d, hd, rfl⟩ := hy
  have hpos := one_add_pos hu1 hd
  refine bound_of_psum hu0 hk (r0 := r0 / (1 + d)) (hr0.div hu1 (Fac.one_add hu1 hd))
    (hy'.mono hu0 hu1 (by omega)) ?_
  field_simp
  linear_combination e

/-- **Lemma 8.4 with a rounded reciprocal** (what `[sdcz]pivotL` does: `temp = 1.0 / pivot`, then
`l *= temp`): `ρ = fl(1 / b_k)`, `y = fl(w ρ)`:
`|c - Σ aᵢ bᵢ - b_k y| ≤ γ_{k+2} (Σ |aᵢ||bᵢ| + |b_k||y|)`. -/
theorem lemma84_recip (hu0 : 0 ≤ u) {T : CTree F} {w bk ρ y : F} (h : T.Eval u w) (hb : bk ≠ 0)
    (hρ : Rnd u (1 / bk) ρ) (hy : Rnd u (w * ρ) y) (hk : ((T.leaves.length + 2 : Nat) : F) * u < 1) :
    |T.head - dotSum T.leaves - bk * y| ≤ gamma u (T.leaves.length + 2) * (dotAbs T.leaves + |bk| * |y|) := by
  have hu1 : u < 1 := by
    have : (1 : F) ≤ ((T.leaves.length + 2 : Nat) : F) := by exact_mod_cast Nat.succ_pos _
    nlinarith
  obtain ⟨r0, y', hr0, hy', e⟩ := h.psum hu0 hu1
  obtain ⟨d1, hd1, rfl⟩ := hρ
  obtain ⟨d2, hd2, rfl⟩ := hy
  have hp1 := one_add_pos hu1 hd1
  have hp2 := one_add_pos hu1 hd2
  refine bound_of_psum hu0 hk (r0 := r0 / (1 + d1) / (1 + d2))
    ((hr0.div hu1 (Fac.one_add hu1 hd1)).div hu1 (Fac.one_add hu1 hd2))
    (hy'.mono hu0 hu1 (by omega)) ?_
  field_simp
  linear_combination e

end lemma84

/-! #### one interface for the three cases -/

/-- how the accumulated value `w` becomes the stored entry -/
inductive Finish where
  | none    -- stored as is (the divisor is 1: rows of U, forward substitution with unit L)
  | div     -- `fl(w / b_k)`
  | recip   -- `fl(w * fl(1 / b_k))`
deriving DecidableEq, Repr

/-- extra roundings on top of the `k` of the inner product -/
def Finish.cost : Finish → Nat
  | .none => 0
  | .div => 1
  | .recip => 2

def Finish.Eval (u bk : F) : Finish → F → F → Prop
  | .none, w, y => bk = 1 ∧ y = w
  | .div, w, y => bk ≠ 0 ∧ Rnd u (w / bk) y
  | .recip, w, y => bk ≠ 0 ∧ ∃ ρ, Rnd u (1 / bk) ρ ∧ Rnd u (w * ρ) y

/-- `Dot u c l bk f y`: `y` is a computed value of `(c - Σ_{(a,b) ∈ l} a b) / bk`, obtained from
SOME evaluation tree whose products are the pairs of `l` in some order, finished by `f` -/
def Dot (u c : F) (l : List (F × F)) (bk : F) (f : Finish) (y : F) : Prop :=
  ∃ T : CTree F, T.head = c ∧ T.leaves.Perm l ∧ ∃ w, T.Eval u w ∧ f.Eval u bk w y

/-- **Higham Lemma 8.4, order-independent form.**  For every evaluation tree of
`(c - Σ_{i<k} aᵢ bᵢ)/b_k` (any association and order of the products, additions, subtractions, with
or without fused multiply-adds, the division exact-free (`none`), rounded (`div`) or replaced by a
rounded reciprocal and a rounded product (`recip`)), with `k' = k + f.cost`, `k' u < 1`:
`|c - Σ aᵢ bᵢ - b_k y| ≤ γ_{k'} (Σ |aᵢ||bᵢ| + |b_k||y|)`. -/
theorem Dot.bound {u : F} (hu0 : 0 ≤ u) {c bk y : F} {l : List (F × F)} {f : Finish}
    (h : Dot u c l bk f y) (hk : ((l.length + f.cost : Nat) : F) * u < 1) :
    |c - dotSum l - bk * y| ≤ gamma u (l.length + f.cost) * (dotAbs l + |bk| * |y|) := by
  obtain ⟨T, rfl, hperm, w, hw, hf⟩ := h
  rw [← dotSum_perm hperm, ← dotAbs_perm hperm, ← hperm.length_eq] at *
  cases f with
  | none =>
    obtain ⟨rfl, rfl⟩ := hf
    simpa [Finish.cost] using lemma84_none hu0 hw (by simpa [Finish.cost] using hk)
  | div => exact lemma84_div hu0 hw hf.1 hf.2 hk
  | recip =>
    obtain ⟨hb, ρ, hρ, hy⟩ := hf
    exact lemma84_recip hu0 hw hb hρ hy hk

/-- the same with any larger constant (monotonicity of `γ`) -/
theorem Dot.bound_le {u : F} (hu0 : 0 ≤ u) {c bk y : F} {l : List (F × F)} {f : Finish}
    (h : Dot u c l bk f y) {K : Nat} (hK : l.length + f.cost ≤ K) (hk : (K : F) * u < 1) :
    |c - dotSum l - bk * y| ≤ gamma u K * (dotAbs l + |bk| * |y|) := by
  refine (h.bound hu0 (mul_lt_one_of_le hu0 hK hk)).trans ?_
  exact mul_le_mul_of_nonneg_right (gamma_mono hu0 hK hk)
    (add_nonneg (dotAbs_nonneg l) (by positivity))

/-- indexed form: `l = [(a 0, b 0), …, (a (k-1), b (k-1))]` -/
theorem Dot.bound_range {u : F} (hu0 : 0 ≤ u) {c bk y : F} (a b : Nat → F) (k : Nat) {f : Finish}
    (h : Dot u c ((List.range k).map fun i => (a i, b i)) bk f y) {K : Nat} (hK : k + f.cost ≤ K)
    (hk : (K : F) * u < 1) :
    |c - ∑ i ∈ range k, a i * b i - bk * y| ≤ gamma u K * (∑ i ∈ range k, |a i| * |b i| + |bk| * |y|) := by
  have := h.bound_le hu0 (K := K) (by simpa using hK) hk
  rwa [dotSum_range, dotAbs_range] at this

/-! #### monotonicity in `u`: operations carried out more accurately (extended registers, a
wider accumulator, exact products) are covered by the same hypotheses -/

theorem STree.Eval.mono {u u' : F} (h : u ≤ u') {s : STree F} {y : F} (hs : s.Eval u y) : s.Eval u' y := by
  induction hs with
  | leaf hr => exact .leaf (hr.mono h)
  | add _ _ hr ihs iht => exact .add ihs iht (hr.mono h)
  | sub _ _ hr ihs iht => exact .sub ihs iht (hr.mono h)
  | neg _ ih => exact .neg ih
  | fma _ hr ih => exact .fma ih (hr.mono h)
  | fms _ hr ih => exact .fms ih (hr.mono h)

theorem CTree.Eval.mono {u u' : F} (h : u ≤ u') {T : CTree F} {y : F} (hT : T.Eval u y) : T.Eval u' y := by
  induction hT with
  | lit c => exact .lit c
  | sub _ hs hr ih => exact .sub ih (hs.mono h) (hr.mono h)
  | add _ hs hr ih => exact .add ih (hs.mono h) (hr.mono h)
  | fms _ hr ih => exact .fms ih (hr.mono h)
  | fma _ hr ih => exact .fma ih (hr.mono h)

theorem Dot.mono {u u' c bk y : F} (h : u ≤ u') {l : List (F × F)} {f : Finish}
    (hd : Dot u c l bk f y) : Dot u' c l bk f y := by
  obtain ⟨T, hc, hperm, w, hw, hf⟩ := hd
  refine ⟨T, hc, hperm, w, hw.mono h, ?_⟩
  cases f with
  | none => exact hf
  | div => exact ⟨hf.1, hf.2.mono h⟩
  | recip =>
    obtain ⟨hb, ρ, h1, h2⟩ := hf
    exact ⟨hb, ρ, h1.mono h, h2.mono h⟩

/-! #### sparsity: skipped zero terms

A sparse code never forms the products whose factor is a structural zero.  Such an evaluation is
also an evaluation of the FULL inner product: insert the zero products anywhere with exact results
(`d = 0` is admissible).  Hence hypotheses stated with the full lists `t < k` cover sparse kernels. -/

theorem Dot.perm {u c bk y : F} {l l' : List (F × F)} {f : Finish} (h : Dot u c l bk f y)
    (hp : l.Perm l') : Dot u c l' bk f y := by
  obtain ⟨T, hc, hperm, w, hw, hf⟩ := h
  exact ⟨T, hc, hperm.trans hp, w, hw, hf⟩

/-- a product that is zero may be added to the list -/
theorem Dot.insert_zero {u c bk y : F} (hu0 : 0 ≤ u) {l : List (F × F)} {f : Finish} {a b : F}
    (hab : a * b = 0) (h : Dot u c l bk f y) : Dot u c ((a, b) :: l) bk f y := by
  obtain ⟨T, hc, hperm, w, hw, hf⟩ := h
  refine ⟨.fms T a b, hc, ?_, w, .fms hw ⟨0, by simpa using hu0, by rw [hab]; ring⟩, hf⟩
  simp only [CTree.leaves]
  exact List.perm_append_comm.trans (by simpa using hperm)

/-- an evaluation over the nonzero products only is an evaluation of the full inner product -/
theorem Dot.of_filter {u c bk y : F} (hu0 : 0 ≤ u) {f : Finish} (l : List (F × F))
    (h : Dot u c (l.filter fun p => p.1 * p.2 ≠ 0) bk f y) : Dot u c l bk f y := by
  suffices H : ∀ (l l0 : List (F × F)), Dot u c (l0 ++ l.filter fun p => p.1 * p.2 ≠ 0) bk f y →
      Dot u c (l0 ++ l) bk f y by simpa using H l [] (by simpa using h)
  intro l
  induction l with
  | nil => intro l0 h; simpa using h
  | cons p l ih =>
    intro l0 h
    by_cases hp : p.1 * p.2 = 0
    · have h' : Dot u c (l0 ++ l.filter fun p => p.1 * p.2 ≠ 0) bk f y := by
        rwa [List.filter_cons_of_neg (p := fun p : F × F => decide (p.1 * p.2 ≠ 0))
          (fun h => (of_decide_eq_true h) hp)] at h
      have := (ih l0 h').insert_zero hu0 (a := p.1) (b := p.2) hp
      exact this.perm (List.perm_middle.symm)
    · have h' : Dot u c ((l0 ++ [p]) ++ l.filter fun p => p.1 * p.2 ≠ 0) bk f y := by
        rw [List.filter_cons_of_pos (p := fun p : F × F => decide (p.1 * p.2 ≠ 0)) (decide_eq_true hp)] at h
        rwa [List.append_assoc, List.singleton_append]
      simpa using ih (l0 ++ [p]) h'

/-! #### the trees are inhabited: left-to-right evaluation in any `FlModel` -/

/-- the left-to-right tree `(((c - a₀b₀) - a₁b₁) - …)` with separately rounded products -/
def leftTree (c : F) : List (F × F) → CTree F
  | [] => .lit c
  | p :: l => .sub (leftTree c l) (.leaf p.1 p.2)

/-- its value in a concrete arithmetic (the LAST pair of the list is subtracted first) -/
def leftEval (M : FlModel F) (c : F) : List (F × F) → F
  | [] => c
  | p :: l => M.sub (leftEval M c l) (M.mul p.1 p.2)

theorem leftTree_head (c : F) (l : List (F × F)) : (leftTree c l).head = c := by
  induction l with
  | nil => rfl
  | cons p l ih => simpa [leftTree, CTree.head] using ih

theorem leftTree_leaves (c : F) (l : List (F × F)) : (leftTree c l).leaves.Perm l := by
  induction l with
  | nil => simp [leftTree, CTree.leaves]
  | cons p l ih =>
    simp only [leftTree, CTree.leaves, STree.leaves]
    exact (List.perm_append_comm.trans (by simpa using ih))

theorem leftTree_eval (M : FlModel F) (c : F) (l : List (F × F)) :
    (leftTree c l).Eval M.u (leftEval M c l) := by
  induction l with
  | nil => exact .lit c
  | cons p l ih => exact .sub ih (.leaf (M.mul_rnd _ _)) (M.sub_rnd _ _)

/-- the same with one fused multiply-subtract per term -/
def leftTreeFma (c : F) : List (F × F) → CTree F
  | [] => .lit c
  | p :: l => .fms (leftTreeFma c l) p.1 p.2

def leftEvalFma (M : FlModel F) (c : F) : List (F × F) → F
  | [] => c
  | p :: l => M.fma (-p.1) p.2 (leftEvalFma M c l)

theorem leftTreeFma_head (c : F) (l : List (F × F)) : (leftTreeFma c l).head = c := by
  induction l with
  | nil => rfl
  | cons p l ih => simpa [leftTreeFma, CTree.head] using ih

theorem leftTreeFma_leaves (c : F) (l : List (F × F)) : (leftTreeFma c l).leaves.Perm l := by
  induction l with
  | nil => simp [leftTreeFma, CTree.leaves]
  | cons p l ih =>
    simp only [leftTreeFma, CTree.leaves]
    exact (List.perm_append_comm.trans (by simpa using ih))

theorem leftTreeFma_eval (M : FlModel F) (c : F) (l : List (F × F)) :
    (leftTreeFma c l).Eval M.u (leftEvalFma M c l) := by
  induction l with
  | nil => exact .lit c
  | cons p l ih =>
    refine .fms ih ?_
    have := M.fma_rnd (-p.1) p.2 (leftEvalFma M c l)
    have e : -p.1 * p.2 + leftEvalFma M c l = leftEvalFma M c l - p.1 * p.2 := by ring
    rwa [e] at this

/-- left-to-right evaluation in any arithmetic obeying the model is a `Dot` -/
theorem dot_left (M : FlModel F) (c : F) (l : List (F × F)) :
    Dot M.u c l 1 .none (leftEval M c l) :=
  ⟨leftTree c l, leftTree_head c l, leftTree_leaves c l, _, leftTree_eval M c l, rfl, rfl⟩

theorem dot_left_div (M : FlModel F) (c : F) (l : List (F × F)) (bk : F) (hb : bk ≠ 0) :
    Dot M.u c l bk .div (M.div (leftEval M c l) bk) :=
  ⟨leftTree c l, leftTree_head c l, leftTree_leaves c l, _, leftTree_eval M c l, hb, M.div_rnd _ _ hb⟩

theorem dot_left_recip (M : FlModel F) (c : F) (l : List (F × F)) (bk : F) (hb : bk ≠ 0) :
    Dot M.u c l bk .recip (M.mul (leftEval M c l) (M.div 1 bk)) :=
  ⟨leftTree c l, leftTree_head c l, leftTree_leaves c l, _, leftTree_eval M c l, hb, _,
    M.div_rnd _ _ hb, M.mul_rnd _ _⟩

theorem dot_leftFma (M : FlModel F) (c : F) (l : List (F × F)) :
    Dot M.u c l 1 .none (leftEvalFma M c l) :=
  ⟨leftTreeFma c l, leftTreeFma_head c l, leftTreeFma_leaves c l, _, leftTreeFma_eval M c l, rfl, rfl⟩

end Slu.Rounding
