import Slu.Model.IluDropU
import SluProofs.Lemmas.IluDrop
import SluProofs.Lemmas.RatBasic
import Mathlib.Tactic.Linarith
import Mathlib.Algebra.Order.Field.Rat
/-
C15 — lemmas about the U-dropping model `Slu.IluDropU` (Slu/Model/IluDropU.lean): invariants of the first loop and of the
second sweep of `ilu_[sdcz]copy_to_ucol`, valid for EVERY scalar instance `UOps`.
-/
namespace Slu.IluDropU
open Slu Slu.Ilu Slu.IluDrop Slu.QSelect

/-! ### lists -/

theorem set_append_perm {α} (l : List α) (i : Nat) (h : i < l.length) (b : α) :
    (l.set i b ++ [l[i]]).Perm (l ++ [b]) := by
  induction l generalizing i with
  | nil => simp at h
  | cons a t ih =>
    cases i with
    | zero =>
      simp only [List.set_cons_zero, List.getElem_cons_zero, List.cons_append]
      exact ((List.perm_append_singleton a t).cons b).trans
        ((List.Perm.swap a b t).trans ((List.perm_append_singleton b t).symm.cons a))
    | succ k =>
      simp only [List.set_cons_succ, List.getElem_cons_succ, List.cons_append]
      exact (ih k (by simpa using h)).cons a

/-- moving the last of the first `c` entries into position `i < c` and shortening by one removes entry `i` -/
theorem take_set_last_perm {α} (l : List α) (i c : Nat) (hi : i < c) (hc : c ≤ l.length) :
    ((l.set i (l[c - 1]'(by omega))).take (c - 1) ++ [l[i]'(by omega)]).Perm (l.take c) := by
  have hc1 : c = (c - 1) + 1 := by omega
  have htk : l.take c = l.take (c - 1) ++ [l[c - 1]'(by omega)] := by
    conv_lhs => rw [hc1]
    rw [List.take_succ_eq_append_getElem]
  rw [htk, List.take_set]
  by_cases hic : i = c - 1
  · subst hic
    rw [List.set_eq_of_length_le (by simp)]
  · have hl : i < (l.take (c - 1)).length := by simp; omega
    have := set_append_perm (l.take (c - 1)) i hl (l[c - 1]'(by omega))
    simpa using this

theorem range_map_get_eq_take {α} [Inhabited α] (a : Array α) (c : Nat) (h : c ≤ a.size) :
    (List.range c).map (fun i => a[i]!) = a.toList.take c := by
  apply List.ext_getElem
  · simp; omega
  · intro i h1 h2
    simp only [List.length_map, List.length_range] at h1
    simp [getElem!_pos a i (by omega)]

/-- writing `f 0 .. f (m-1)` at `x0 ..` -/
theorem foldl_set_get {α} [Inhabited α] (f : Nat → α) (x0 : Nat) (arr : Array α) (m : Nat) (h : x0 + m ≤ arr.size) :
    ((List.range m).foldl (fun a i => a.setIfInBounds (x0 + i) (f i)) arr).size = arr.size ∧
    ∀ j, ((List.range m).foldl (fun a i => a.setIfInBounds (x0 + i) (f i)) arr)[j]! =
      if x0 ≤ j ∧ j < x0 + m then f (j - x0) else arr[j]! := by
  induction m with
  | zero => simp
  | succ k ih =>
    obtain ⟨h1, h2⟩ := ih (by omega)
    rw [List.range_succ, List.foldl_append]
    simp only [List.foldl_cons, List.foldl_nil]
    refine ⟨by simp [h1], fun j => ?_⟩
    rw [get!_set, h2 j, h1]
    by_cases hj : x0 + k = j
    · subst hj
      simp only [true_and, show x0 + k < arr.size by omega, if_true]
      rw [if_pos (by omega)]
      congr 1; omega
    · rw [if_neg (by omega)]
      by_cases hr : x0 ≤ j ∧ j < x0 + k
      · rw [if_pos hr, if_pos (by omega)]
      · rw [if_neg hr, if_neg (by omega)]

/-! ### the first loop -/
section
variable {K R T : Type} [Inhabited K] [Inhabited R] [LT R] [DecidableLT R]

/-- the `(row, value)` pairs as the first loop reads them: a row listed again is read as zero -/
def visits (z : K) : Array K → List Nat → List (Nat × K)
  | _, [] => []
  | d, r :: rs => (r, d[r]!) :: visits z (d.setIfInBounds r z) rs

/-- the test of the first rule (l.128) -/
def keepC (ops : UOps K R T) (dropTol : T) (quota : Int) (x : K) : Bool :=
  decide (0 < quota) && ops.geTol (ops.abs1 x) dropTol

/-- what the first loop adds to `*sum` for a dropped value (l.134-147) -/
def acc1 (ops : UOps K R T) (milu : Milu) (s x : K) : K :=
  match milu with
  | .smilu1 | .smilu2 => ops.addK s x
  | .smilu3 => ops.addR s (ops.abs1 x)
  | .silu => s

/-- what the second sweep adds (l.198-210; `tmp` is the stale register) -/
def acc2 (ops : UOps K R T) (milu : Milu) (tmp : R) (s x : K) : K :=
  match milu with
  | .smilu1 | .smilu2 => ops.addK s x
  | .smilu3 => ops.sec3 s x tmp
  | .silu => s

variable (ops : UOps K R T) (milu : Milu) (dt : T) (q : Int) (pr : Array Int)

theorem step1_dense (s : S1 K R) (r : Nat) :
    (step1 ops milu dt q pr s r).dense = s.dense.setIfInBounds r ops.zeroK := by
  unfold step1; dsimp only; split <;> rfl

theorem step1_keep (s : S1 K R) (r : Nat) (h : keepC ops dt q (s.dense[r]!) = true) :
    (step1 ops milu dt q pr s r).kept = s.kept.push (pr[r]!, s.dense[r]!) ∧
    (step1 ops milu dt q pr s r).keptRows = (r, s.dense[r]!) :: s.keptRows ∧
    (step1 ops milu dt q pr s r).dropped = s.dropped ∧ (step1 ops milu dt q pr s r).sum = s.sum := by
  unfold keepC at h
  unfold step1; dsimp only; rw [if_pos h]; exact ⟨rfl, rfl, rfl, rfl⟩

theorem step1_drop (s : S1 K R) (r : Nat) (h : keepC ops dt q (s.dense[r]!) = false) :
    (step1 ops milu dt q pr s r).kept = s.kept ∧
    (step1 ops milu dt q pr s r).keptRows = s.keptRows ∧
    (step1 ops milu dt q pr s r).dropped = (r, s.dense[r]!) :: s.dropped ∧
    (step1 ops milu dt q pr s r).sum = acc1 ops milu s.sum (s.dense[r]!) := by
  unfold keepC at h
  unfold step1; dsimp only; rw [if_neg (by simp [h])]
  refine ⟨rfl, rfl, rfl, ?_⟩
  cases milu <;> rfl

/-- invariant of the first loop -/
theorem pass1_inv (rows : List Nat) : ∀ s : S1 K R,
    ∃ ks ds : List (Nat × K),
      (rows.foldl (step1 ops milu dt q pr) s).keptRows = ks ++ s.keptRows ∧
      (rows.foldl (step1 ops milu dt q pr) s).dropped = ds ++ s.dropped ∧
      (ks ++ ds).Perm (visits ops.zeroK s.dense rows) ∧
      (rows.foldl (step1 ops milu dt q pr) s).kept.toList = s.kept.toList ++ ks.reverse.map (fun e => (pr[e.1]!, e.2)) ∧
      (∀ e ∈ ks, keepC ops dt q e.2 = true) ∧ (∀ e ∈ ds, keepC ops dt q e.2 = false) ∧
      (rows.foldl (step1 ops milu dt q pr) s).sum = ds.reverse.foldl (fun a e => acc1 ops milu a e.2) s.sum ∧
      (rows.foldl (step1 ops milu dt q pr) s).dense = rows.foldl (fun d r => d.setIfInBounds r ops.zeroK) s.dense := by
  induction rows with
  | nil => intro s; exact ⟨[], [], by simp [visits]⟩
  | cons r rs ih =>
    intro s
    simp only [List.foldl_cons]
    obtain ⟨ks, ds, h1, h2, h3, h4, h5, h6, h7, h8⟩ := ih (step1 ops milu dt q pr s r)
    rw [step1_dense] at h3 h8
    cases hk : keepC ops dt q (s.dense[r]!) with
    | true =>
      obtain ⟨e1, e2, e3, e4⟩ := step1_keep ops milu dt q pr s r hk
      rw [e2] at h1; rw [e3] at h2; rw [e1] at h4; rw [e4] at h7
      refine ⟨ks ++ [(r, s.dense[r]!)], ds, by simp [h1], h2, ?_, ?_, ?_, h6, h7, h8⟩
      · simp only [visits, List.append_assoc, List.singleton_append]
        exact List.perm_middle.trans (h3.cons _)
      · rw [h4]; simp
      · intro e he
        rcases List.mem_append.mp he with h | h
        · exact h5 e h
        · simp only [List.mem_singleton] at h; subst h; exact hk
    | false =>
      obtain ⟨e1, e2, e3, e4⟩ := step1_drop ops milu dt q pr s r hk
      rw [e2] at h1; rw [e3] at h2; rw [e1] at h4; rw [e4] at h7
      refine ⟨ks, ds ++ [(r, s.dense[r]!)], h1, by simp [h2], ?_, h4, h5, ?_, ?_, h8⟩
      · simp only [visits, ← List.append_assoc]
        exact (List.perm_append_singleton _ _).trans (h3.cons _)
      · intro e he
        rcases List.mem_append.mp he with h | h
        · exact h6 e h
        · simp only [List.mem_singleton] at h; subst h; exact hk
      · rw [h7]; simp

/-- zeroing a list of rows -/
theorem zeroed_get (z : K) (rows : List Nat) : ∀ (d : Array K) (r : Nat),
    (rows.foldl (fun d r => d.setIfInBounds r z) d).size = d.size ∧
    (rows.foldl (fun d r => d.setIfInBounds r z) d)[r]! = if r ∈ rows ∧ r < d.size then z else d[r]! := by
  induction rows with
  | nil => intro d r; simp
  | cons a t ih =>
    intro d r
    simp only [List.foldl_cons]
    obtain ⟨h1, h2⟩ := ih (d.setIfInBounds a z) r
    refine ⟨by rw [h1]; simp, ?_⟩
    rw [h2, get!_set]
    simp only [Array.size_setIfInBounds, List.mem_cons]
    by_cases hr : r ∈ t ∧ r < d.size
    · rw [if_pos hr, if_pos ⟨Or.inr hr.1, hr.2⟩]
    · rw [if_neg hr]
      by_cases ha : a = r ∧ a < d.size
      · rw [if_pos ha, if_pos ⟨Or.inl ha.1.symm, ha.1 ▸ ha.2⟩]
      · rw [if_neg ha, if_neg]
        rintro ⟨h | h, h'⟩
        · exact ha ⟨h.symm, h ▸ h'⟩
        · exact hr ⟨h, h'⟩

/-! ### the second sweep -/

variable (tol : T) (tmp : R)

theorem sweep_drop (f i : Nat) (s : S2 K) (hic : i < s.cnt) (ht : ops.base.leTol (ops.abs1 (s.a[i]!).2) tol = true) :
    sweep ops milu tol tmp (f + 1) i s = sweep ops milu tol tmp f i
      { a := s.a.setIfInBounds i s.a[s.cnt - 1]!, cnt := s.cnt - 1, sum := acc2 ops milu tmp s.sum (s.a[i]!).2,
        removed := s.a[i]! :: s.removed } := by
  conv_lhs => unfold sweep
  rw [if_pos hic]; dsimp only; rw [if_pos ht]
  cases milu <;> rfl

theorem sweep_keep (f i : Nat) (s : S2 K) (hic : i < s.cnt) (ht : ops.base.leTol (ops.abs1 (s.a[i]!).2) tol = false) :
    sweep ops milu tol tmp (f + 1) i s = sweep ops milu tol tmp f (i + 1) s := by
  conv_lhs => unfold sweep
  rw [if_pos hic]; dsimp only; rw [if_neg (by simp [ht])]

theorem sweep_stop (f i : Nat) (s : S2 K) (hic : ¬ i < s.cnt) : sweep ops milu tol tmp f i s = s := by
  cases f with
  | zero => rfl
  | succ f => conv_lhs => unfold sweep
              rw [if_neg hic]

/-- invariant of the second sweep -/
theorem sweep_inv : ∀ (f i : Nat) (s : S2 K), s.cnt ≤ s.a.size → i ≤ s.cnt →
    ∃ rm : List (Int × K),
      (sweep ops milu tol tmp f i s).removed = rm ++ s.removed ∧
      ((sweep ops milu tol tmp f i s).a.toList.take (sweep ops milu tol tmp f i s).cnt ++ rm).Perm (s.a.toList.take s.cnt) ∧
      (∀ e ∈ rm, ops.base.leTol (ops.abs1 e.2) tol = true) ∧
      (sweep ops milu tol tmp f i s).sum = rm.reverse.foldl (fun a e => acc2 ops milu tmp a e.2) s.sum ∧
      (sweep ops milu tol tmp f i s).a.size = s.a.size ∧
      (sweep ops milu tol tmp f i s).cnt + rm.length = s.cnt := by
  intro f
  induction f with
  | zero => intro i s _ _; exact ⟨[], by simp [sweep]⟩
  | succ f ih =>
    intro i s hs hi
    by_cases hic : i < s.cnt
    · cases ht : ops.base.leTol (ops.abs1 (s.a[i]!).2) tol with
      | true =>
        rw [sweep_drop ops milu tol tmp f i s hic ht]
        obtain ⟨rm, h1, h2, h3, h4, h5, h6⟩ := ih i
          { a := s.a.setIfInBounds i s.a[s.cnt - 1]!, cnt := s.cnt - 1, sum := acc2 ops milu tmp s.sum (s.a[i]!).2,
            removed := s.a[i]! :: s.removed }
          (by simp only [Array.size_setIfInBounds]; omega) (by simp only; omega)
        simp only [Array.size_setIfInBounds] at h5 h6
        refine ⟨rm ++ [s.a[i]!], by simp [h1], ?_, ?_, ?_, h5, by simp only [List.length_append, List.length_singleton]; omega⟩
        · rw [← List.append_assoc]
          refine (h2.append_right _).trans ?_
          simp only [Array.toList_setIfInBounds]
          have hc' : s.cnt ≤ s.a.toList.length := by simpa using hs
          have := take_set_last_perm s.a.toList i s.cnt hic hc'
          rw [getElem!_pos s.a i (by omega), getElem!_pos s.a (s.cnt - 1) (by omega)]
          simpa using this
        · intro e he
          rcases List.mem_append.mp he with h | h
          · exact h3 e h
          · simp only [List.mem_singleton] at h; subst h; exact ht
        · rw [h4]; simp
      | false =>
        rw [sweep_keep ops milu tol tmp f i s hic ht]
        exact ih (i + 1) s hs (by omega)
    · rw [sweep_stop ops milu tol tmp (f + 1) i s hic]; exact ⟨[], by simp⟩

/-- with enough fuel, every live entry left by the sweep failed the test `|u| <= tol` -/
theorem sweep_kept : ∀ (f i : Nat) (s : S2 K), s.cnt ≤ s.a.size → i ≤ s.cnt → s.cnt - i ≤ f →
    (∀ k, k < i → ops.base.leTol (ops.abs1 (s.a[k]!).2) tol = false) →
    ∀ k, k < (sweep ops milu tol tmp f i s).cnt → ops.base.leTol (ops.abs1 ((sweep ops milu tol tmp f i s).a[k]!).2) tol = false := by
  intro f
  induction f with
  | zero =>
    intro i s _ hi hf hk k hkc
    rw [sweep_stop ops milu tol tmp 0 i s (by omega)] at hkc ⊢
    exact hk k (by omega)
  | succ f ih =>
    intro i s hs hi hf hk
    by_cases hic : i < s.cnt
    · cases ht : ops.base.leTol (ops.abs1 (s.a[i]!).2) tol with
      | true =>
        rw [sweep_drop ops milu tol tmp f i s hic ht]
        apply ih
        · simp only [Array.size_setIfInBounds]; omega
        · simp only; omega
        · simp only; omega
        · intro k hki
          simp only
          rw [get!_set, if_neg (by omega)]
          exact hk k hki
      | false =>
        rw [sweep_keep ops milu tol tmp f i s hic ht]
        apply ih (i + 1) s hs (by omega) (by omega)
        intro k hki
        by_cases hke : k = i
        · subst hke; exact ht
        · exact hk k (by omega)
    · rw [sweep_stop ops milu tol tmp (f + 1) i s hic]
      intro k hkc; exact hk k (by omega)

theorem visits_length (z : K) (rows : List Nat) : ∀ d : Array K, (visits z d rows).length = rows.length := by
  induction rows with
  | nil => intro d; rfl
  | cons r rs ih => intro d; simp [visits, ih]

/-- the effective arguments after l.91-93 -/
def effTol (ops : UOps K R T) (rule : Rule) (dt : T) : T := if rule.nodrop then ops.negOneT else dt
def effQuota (rule : Rule) (q : Int) (n : Nat) : Int := if rule.nodrop then (n : Int) else q

/-- everything the two rules guarantee, on `dropCore` -/
theorem dropCore_inv (rule : Rule) (dt0 : T) (q0 : Int) (n : Nat) (dense : Array K) (work : Array R) (rows : List Nat) :
    ∃ ks : List (Nat × K),
      let c := dropCore ops rule milu dt0 q0 n pr dense work rows
      (ks ++ c.1.dropped).Perm (visits ops.zeroK dense rows) ∧
      c.1.kept.toList = ks.reverse.map (fun e => (pr[e.1]!, e.2)) ∧
      (∀ e ∈ ks, keepC ops (effTol ops rule dt0) (effQuota rule q0 n) e.2 = true) ∧
      (∀ e ∈ c.1.dropped, keepC ops (effTol ops rule dt0) (effQuota rule q0 n) e.2 = false) ∧
      (c.2.1.a.toList.take c.2.1.cnt ++ c.2.1.removed).Perm c.1.kept.toList ∧
      (∀ e ∈ c.2.1.removed, ∃ tol, c.2.2.1 = some tol ∧ ops.base.leTol (ops.abs1 e.2) tol = true) ∧
      (∀ tol, c.2.2.1 = some tol → ∀ k, k < c.2.1.cnt → ops.base.leTol (ops.abs1 (c.2.1.a[k]!).2) tol = false) ∧
      c.2.1.sum = c.2.1.removed.reverse.foldl (fun a e => acc2 ops milu c.1.tmp a e.2)
        (c.1.dropped.reverse.foldl (fun a e => acc1 ops milu a e.2) ops.zeroK) ∧
      c.2.1.a.size = c.1.kept.size ∧ c.2.1.cnt + c.2.1.removed.length = c.1.kept.size ∧
      c.1.dense = rows.foldl (fun d r => d.setIfInBounds r ops.zeroK) dense := by
  have h5t : ∀ x, keepC ops (effTol ops rule dt0) (effQuota rule q0 n) x =
      keepC ops (if rule.nodrop then ops.negOneT else dt0) (if rule.nodrop then (n : Int) else q0) x := fun _ => rfl
  simp only [h5t]
  unfold dropCore
  simp only
  generalize (if rule.nodrop = true then ops.negOneT else dt0) = dt
  generalize (if rule.nodrop = true then (n : Int) else q0) = q
  obtain ⟨ks, ds, h1, h2, h3, h4, h5, h6, h7, h8⟩ := pass1_inv ops milu dt q pr rows
    { kept := #[], dense := dense, sum := ops.zeroK, dmax := ops.base.zeroR, dmin := ops.dminInit, tmp := ops.base.zeroR }
  simp only [List.append_nil, Array.toList_empty, List.nil_append] at h1 h2 h3 h4 h7 h8
  refine ⟨ks, ?_⟩
  have hp : pass1 ops milu dt q pr dense rows =
      rows.foldl (step1 ops milu dt q pr)
        { kept := #[], dense := dense, sum := ops.zeroK, dmax := ops.base.zeroR, dmin := ops.dminInit, tmp := ops.base.zeroR } := rfl
  rw [hp]
  generalize rows.foldl (step1 ops milu dt q pr)
        { kept := #[], dense := dense, sum := ops.zeroK, dmax := ops.base.zeroR, dmin := ops.dminInit, tmp := ops.base.zeroR } = s1
    at h1 h2 h4 h7 h8
  subst h2
  by_cases hsec : (rule.secondary && decide (q < (s1.kept.size : Int))) = true
  · simp only [hsec, if_true]
    obtain ⟨rm, g1, g2, g3, g4, g5, g6⟩ := sweep_inv ops milu
      (secTol ops rule q n s1 work).1 s1.tmp s1.kept.size 0
      { a := s1.kept, cnt := s1.kept.size, sum := s1.sum } (Nat.le_refl _) (Nat.zero_le _)
    have gk := sweep_kept ops milu
      (secTol ops rule q n s1 work).1 s1.tmp s1.kept.size 0
      { a := s1.kept, cnt := s1.kept.size, sum := s1.sum } (Nat.le_refl _) (Nat.zero_le _) (by simp) (by intro k hk; omega)
    simp only [List.append_nil] at g1
    simp only [← Array.length_toList, List.take_length] at g2
    refine ⟨h3, h4, h5, h6, ?_, ?_, ?_, ?_, g5, ?_, h8⟩
    · rw [g1]; simpa using g2
    · intro e he; rw [g1] at he; exact ⟨_, rfl, g3 e he⟩
    · intro tol ht k hk
      have : (secTol ops rule q n s1 work).1 = tol := by simpa using ht
      rw [← this]; exact gk k hk
    · rw [g4, g1, h7]
    · rw [g1]; exact g6
  · simp only [hsec, Bool.false_eq_true, if_false]
    refine ⟨h3, h4, h5, h6, ?_, by simp, by simp, by simp [h7], trivial, by simp, h8⟩
    simp only [List.append_nil]
    rw [← Array.length_toList, List.take_length]

/-- with distinct rows every value is read as it was on entry -/
theorem visits_nodup (z : K) (rows : List Nat) : ∀ d : Array K, rows.Nodup → visits z d rows = rows.map fun t => (t, d[t]!) := by
  induction rows with
  | nil => intro d _; rfl
  | cons r rs ih =>
    intro d hnd
    have hr : r ∉ rs := (List.nodup_cons.mp hnd).1
    simp only [visits, List.map_cons]
    rw [ih _ (List.nodup_cons.mp hnd).2]
    congr 1
    apply List.map_congr_left
    intro t ht
    rw [get!_set, if_neg (by rintro ⟨h, -⟩; exact hr (h ▸ ht))]

variable (inp : UIn K R T)

/-- the rows the U-segments of the call list, in the order of the routine -/
def rowsOf (inp : UIn K R T) : List Nat :=
  segRows inp.jcol inp.nseg inp.segrep inp.repfnz inp.xsup inp.supno inp.lsub inp.xlsub

/-- the column on entry: the `(perm_r[row], value)` pairs of the listed rows (a row listed again counts with value 0) -/
def colPairs : List (Int × K) := (visits ops.zeroK inp.dense (rowsOf inp)).map fun e => (inp.permR[e.1]!, e.2)

/-- the column on exit: `(usub[i], ucol[i])` for `xusub[jcol] <= i < xusub[jcol+1]` -/
def stored (o : UOut K R T) : List (Int × K) :=
  (List.range o.cnt).map fun i => (o.usub[(inp.xusub[inp.jcol]!).toNat + i]!, o.ucol[(inp.xusub[inp.jcol]!).toNat + i]!)

theorem stored_eq (hU : (inp.xusub[inp.jcol]!).toNat + (rowsOf inp).length ≤ inp.ucol.size)
    (hS : (inp.xusub[inp.jcol]!).toNat + (rowsOf inp).length ≤ inp.usub.size) :
    stored inp (copyToUcol ops inp) = (copyToUcol ops inp).s2.a.toList.take (copyToUcol ops inp).s2.cnt := by
  obtain ⟨ks, hP, hk, -, -, -, -, -, -, hsz, hcnt, -⟩ := dropCore_inv ops inp.milu inp.permR inp.rule inp.dropTol inp.quota inp.n
    inp.dense inp.work (rowsOf inp)
  have hm : (dropCore ops inp.rule inp.milu inp.dropTol inp.quota inp.n inp.permR inp.dense inp.work (rowsOf inp)).1.kept.size
      ≤ (rowsOf inp).length := by
    rw [← Array.length_toList, hk, List.length_map, List.length_reverse, ← visits_length ops.zeroK (rowsOf inp) inp.dense, ← hP.length_eq]
    simp
  rw [← range_map_get_eq_take _ _ (by
    show (dropCore ops inp.rule inp.milu inp.dropTol inp.quota inp.n inp.permR inp.dense inp.work (rowsOf inp)).2.1.cnt ≤
      (dropCore ops inp.rule inp.milu inp.dropTol inp.quota inp.n inp.permR inp.dense inp.work (rowsOf inp)).2.1.a.size
    omega)]
  unfold stored
  apply List.map_congr_left
  intro i hi
  have hi' : i < (dropCore ops inp.rule inp.milu inp.dropTol inp.quota inp.n inp.permR inp.dense inp.work (rowsOf inp)).2.1.cnt := by
    exact List.mem_range.mp hi
  have g1 := (foldl_set_get (fun i => ((dropCore ops inp.rule inp.milu inp.dropTol inp.quota inp.n inp.permR inp.dense inp.work (rowsOf inp)).2.1.a[i]!).1)
    (inp.xusub[inp.jcol]!).toNat inp.usub _ (by omega : _ + (dropCore ops inp.rule inp.milu inp.dropTol inp.quota inp.n inp.permR inp.dense inp.work (rowsOf inp)).1.kept.size ≤ _)).2
      ((inp.xusub[inp.jcol]!).toNat + i)
  have g2 := (foldl_set_get (fun i => ((dropCore ops inp.rule inp.milu inp.dropTol inp.quota inp.n inp.permR inp.dense inp.work (rowsOf inp)).2.1.a[i]!).2)
    (inp.xusub[inp.jcol]!).toNat inp.ucol _ (by omega : _ + (dropCore ops inp.rule inp.milu inp.dropTol inp.quota inp.n inp.permR inp.dense inp.work (rowsOf inp)).1.kept.size ≤ _)).2
      ((inp.xusub[inp.jcol]!).toNat + i)
  rw [if_pos (by omega)] at g1 g2
  simp only [Nat.add_sub_cancel_left] at g1 g2
  show ((copyToUcol ops inp).usub[_]!, (copyToUcol ops inp).ucol[_]!) = _
  exact Prod.ext g1 g2

end

/-! ### exact arithmetic -/

theorem foldl_add_sum {α} (g : α → Rat) (l : List α) : ∀ init : Rat, l.foldl (fun a e => a + g e) init = init + (l.map g).sum := by
  induction l with
  | nil => intro i; simp
  | cons x t ih => intro i; simp only [List.foldl_cons, List.map_cons, List.sum_cons]; rw [ih]; ring

/-- the summand of a dropped value under each MILU mode -/
def miluTerm (milu : Milu) (x : Rat) : Rat :=
  match milu with
  | .smilu1 | .smilu2 => x
  | .smilu3 => rabs x
  | .silu => 0

theorem acc1_rat (nrm2 : Array Rat → Rat) (d0 : Rat) (milu : Milu) (s x : Rat) :
    acc1 (uopsRat nrm2 d0) milu s x = s + miluTerm milu x := by
  cases milu <;> simp [acc1, miluTerm, uopsRat]

theorem acc2_rat (nrm2 : Array Rat → Rat) (d0 : Rat) (milu : Milu) (tmp s x : Rat) :
    acc2 (uopsRat nrm2 d0) milu tmp s x = s + miluTerm milu x := by
  cases milu <;> simp [acc2, miluTerm, uopsRat]


end Slu.IluDropU
