import Slu.Model.Readers
import Mathlib.Tactic.IntervalCases
import Mathlib.Tactic.Ring
/-
C16 — text layer of the readers: digit strings, Fortran edit descriptors, fixed-width integer
blocks.  Everything is stated about the executable model `Slu.Readers`.
-/
namespace Slu.Readers

/-! ## 1. Digits -/

theorem isDigit_ofNat (d : Nat) (h : d < 10) : isDigit (Char.ofNat (48 + d)) = true := by
  interval_cases d <;> decide

theorem digitVal_ofNat (d : Nat) (h : d < 10) : digitVal (Char.ofNat (48 + d)) = d := by
  interval_cases d <;> decide

theorem natDigits_lt (n : Nat) (h : n < 10) : natDigits n = [Char.ofNat (48 + n)] := by
  rw [natDigits]; simp [h]

theorem natDigits_ge (n : Nat) (h : ¬ n < 10) :
    natDigits n = natDigits (n / 10) ++ [Char.ofNat (48 + n % 10)] := by
  rw [natDigits]; simp [h]

theorem takeDigits_natDigits (n acc cnt : Nat) (rest : List Char) :
    takeDigits acc cnt (natDigits n ++ rest) =
      takeDigits (acc * 10 ^ (natDigits n).length + n) (cnt + (natDigits n).length) rest := by
  induction n using Nat.strongRecOn generalizing acc cnt rest with
  | _ n ih =>
    by_cases h : n < 10
    · rw [natDigits_lt n h]
      simp [takeDigits, isDigit_ofNat n h, digitVal_ofNat n h]
    · rw [natDigits_ge n h, List.append_assoc, ih (n / 10) (by omega)]
      have hm : n % 10 < 10 := Nat.mod_lt _ (by omega)
      simp only [List.singleton_append, takeDigits, isDigit_ofNat _ hm, digitVal_ofNat _ hm,
        if_true, List.length_append, List.length_singleton]
      congr 1
      · rw [Nat.pow_succ, ← Nat.mul_assoc]
        generalize acc * 10 ^ (natDigits (n / 10)).length = X
        omega

theorem natDigits_all_digits (n : Nat) : ∀ c ∈ natDigits n, isDigit c = true := by
  induction n using Nat.strongRecOn with
  | _ n ih =>
    by_cases h : n < 10
    · rw [natDigits_lt n h]; intro c hc
      simp at hc; subst hc; exact isDigit_ofNat n h
    · rw [natDigits_ge n h]; intro c hc
      rcases List.mem_append.mp hc with hc | hc
      · exact ih (n / 10) (by omega) c hc
      · simp at hc; subst hc; exact isDigit_ofNat _ (Nat.mod_lt _ (by omega))

theorem natDigits_ne_nil (n : Nat) : natDigits n ≠ [] := by
  by_cases h : n < 10
  · rw [natDigits_lt n h]; simp
  · rw [natDigits_ge n h]; simp

theorem natDigits_length_pos (n : Nat) : 0 < (natDigits n).length :=
  List.length_pos_iff.mpr (natDigits_ne_nil n)

/-- a digit string starts with a digit -/
theorem natDigits_cons (n : Nat) : ∃ c tl, natDigits n = c :: tl ∧ isDigit c = true := by
  cases hd : natDigits n with
  | nil => exact absurd hd (natDigits_ne_nil n)
  | cons c tl => exact ⟨c, tl, rfl, natDigits_all_digits n c (by rw [hd]; simp)⟩

theorem isSpace_of_isDigit (c : Char) (h : isDigit c = true) : isSpace c = false := by
  simp only [isDigit, Bool.and_eq_true, decide_eq_true_eq] at h
  have h1 : 48 ≤ c.toNat := h.1
  have h2 : c.toNat ≤ 57 := h.2
  have hne : ∀ d : Char, d.toNat < 48 → (c == d) = false := by
    intro d hd
    rw [beq_eq_false_iff_ne]; intro he; subst he; omega
  simp only [isSpace, hne ' ' (by decide), hne '\t' (by decide), hne '\n' (by decide),
    hne '\r' (by decide), Bool.false_or, Bool.or_eq_false_iff, beq_eq_false_iff_ne]
  omega

theorem takeSign_of_isDigit (c : Char) (cs : List Char) (h : isDigit c = true) :
    takeSign (c :: cs) = (false, c :: cs) := by
  simp only [isDigit, Bool.and_eq_true, decide_eq_true_eq] at h
  have h1 : 48 ≤ c.toNat := h.1
  have hm : c ≠ '-' := by intro he; subst he; revert h1; decide
  have hp : c ≠ '+' := by intro he; subst he; revert h1; decide
  unfold takeSign
  split
  · rename_i heq; injection heq with h3 _; exact absurd h3 hm
  · rename_i heq; injection heq with h3 _; exact absurd h3 hp
  · rfl

theorem takeDigits_stop (acc cnt : Nat) (rest : List Char)
    (h : ∀ c, rest.head? = some c → isDigit c = false) : takeDigits acc cnt rest = (acc, cnt, rest) := by
  cases rest with
  | nil => rfl
  | cons c cs => simp [takeDigits, h c rfl]

theorem scanInt_natDigits (n : Nat) (rest : List Char) (h : ∀ c, rest.head? = some c → isDigit c = false) :
    scanInt (natDigits n ++ rest) = some ((n : Int), rest) := by
  obtain ⟨c, tl, hd, hc⟩ := natDigits_cons n
  have hsk : skipWs (natDigits n ++ rest) = natDigits n ++ rest := by
    rw [hd]; simp [skipWs, isSpace_of_isDigit c hc]
  have hsg : takeSign (natDigits n ++ rest) = (false, natDigits n ++ rest) := by
    rw [hd]; exact takeSign_of_isDigit c _ hc
  unfold scanInt
  rw [hsk, hsg]
  simp only [takeDigits_natDigits, takeDigits_stop _ _ rest h]
  simp [natDigits_ne_nil]

theorem atoi_natDigits (n : Nat) (rest : List Char) (h : ∀ c, rest.head? = some c → isDigit c = false) :
    atoi (natDigits n ++ rest) = (n : Int) := by
  simp [atoi, scanInt_natDigits n rest h]

theorem scanInt_neg_natDigits (n : Nat) (rest : List Char) (h : ∀ c, rest.head? = some c → isDigit c = false) :
    scanInt ('-' :: (natDigits n ++ rest)) = some (-(n : Int), rest) := by
  unfold scanInt
  have hsk : skipWs ('-' :: (natDigits n ++ rest)) = '-' :: (natDigits n ++ rest) := by
    simp [skipWs, show isSpace '-' = false by decide]
  rw [hsk]
  simp only [takeSign, takeDigits_natDigits, takeDigits_stop _ _ rest h]
  simp [natDigits_ne_nil]

/-! ## 2. Integer descriptor `(kIw)` -/

theorem afterParen_append (pre s : List Char) (hpre : ∀ c ∈ pre, c ≠ '(') :
    afterParen (pre ++ '(' :: s) = some s := by
  induction pre with
  | nil => simp [afterParen]
  | cons c cs ih =>
    have hc : c ≠ '(' := hpre c (by simp)
    simp only [List.cons_append, afterParen, beq_iff_eq, hc, if_false]
    exact ih (fun d hd => hpre d (by simp [hd]))

theorem dropUntil_append (p : Char → Bool) (ds : List Char) (c : Char) (r : List Char)
    (hds : ∀ d ∈ ds, p d = false) (hc : p c = true) : dropUntil p (ds ++ c :: r) = some (c :: r) := by
  induction ds with
  | nil => simp [dropUntil, hc]
  | cons d ds ih =>
    simp only [List.cons_append, dropUntil, hds d (by simp)]
    exact ih (fun e he => hds e (by simp [he]))

theorem not_I_of_isDigit (c : Char) (h : isDigit c = true) : (c == 'I' || c == 'i') = false := by
  simp only [isDigit, Bool.and_eq_true, decide_eq_true_eq] at h
  have h2 : c.toNat ≤ 57 := h.2
  rw [Bool.or_eq_false_iff, beq_eq_false_iff_ne, beq_eq_false_iff_ne]
  constructor <;> (intro he; subst he; revert h2; decide)

theorem head_cons_not_digit (c : Char) (r : List Char) (hc : isDigit c = false) :
    ∀ d, (c :: r).head? = some d → isDigit d = false := by
  intro d hd; simp at hd; subst hd; exact hc

theorem parseIntFormat_letter (k w : Nat) (l : Char) (hl : (l == 'I' || l == 'i') = true)
    (hld : isDigit l = false) (pre post : List Char) (hpre : ∀ c ∈ pre, c ≠ '(') :
    parseIntFormat (pre ++ ['('] ++ natDigits k ++ [l] ++ natDigits w ++ [')'] ++ post) = some (k, w) := by
  have e : pre ++ ['('] ++ natDigits k ++ [l] ++ natDigits w ++ [')'] ++ post =
      pre ++ '(' :: (natDigits k ++ l :: (natDigits w ++ ')' :: post)) := by simp
  rw [e]
  unfold parseIntFormat
  rw [afterParen_append pre _ hpre]
  simp only [Option.bind_eq_bind, Option.bind_some]
  rw [scanInt_natDigits k _ (head_cons_not_digit l _ hld)]
  rw [dropUntil_append _ (natDigits k) l _
    (fun d hd => not_I_of_isDigit d (natDigits_all_digits k d hd)) hl]
  simp only [Option.bind_some, List.drop_succ_cons, List.drop_zero]
  rw [scanInt_natDigits w _ (head_cons_not_digit ')' _ (by decide))]
  simp

theorem parseIntFormat_render (k w : Nat) (pre post : List Char) (hpre : ∀ c ∈ pre, c ≠ '(') :
    parseIntFormat (pre ++ renderIntFmt k w ++ post) = some (k, w) := by
  have := parseIntFormat_letter k w 'I' (by decide) (by decide) pre post hpre
  simpa [renderIntFmt] using this

theorem parseIntFormat_render_lower (k w : Nat) (pre post : List Char) (hpre : ∀ c ∈ pre, c ≠ '(') :
    parseIntFormat (pre ++ ['('] ++ natDigits k ++ ['i'] ++ natDigits w ++ [')'] ++ post) = some (k, w) :=
  parseIntFormat_letter k w 'i' (by decide) (by decide) pre post hpre

/-! ## 3. Value descriptor `(kEw.d)`, `(sPkEw.d)`, `(sP,kEw.d)` -/

/-- characters the descriptor scan walks over without any effect -/
def plainChar (c : Char) : Bool := !isEDF c && !(c == 'P' || c == 'p') && !(c == ',')

theorem floatScan_plain (num sc : Int) (ds rest : List Char) (h : ∀ c ∈ ds, plainChar c = true) :
    floatScan num sc (ds ++ rest) = floatScan num sc rest := by
  induction ds with
  | nil => rfl
  | cons c cs ih =>
    have hc := h c (by simp)
    simp only [plainChar, Bool.and_eq_true, Bool.not_eq_eq_eq_not] at hc
    obtain ⟨⟨h1, h2⟩, h3⟩ := hc
    simp only [List.cons_append, floatScan, h1, h2, h3]
    exact ih (fun e he => h e (by simp [he]))

theorem plainChar_of_isDigit (c : Char) (h : isDigit c = true) : plainChar c = true := by
  simp only [isDigit, Bool.and_eq_true, decide_eq_true_eq] at h
  have h1 : 48 ≤ c.toNat := h.1
  have h2 : c.toNat ≤ 57 := h.2
  have hne : ∀ d : Char, (d.toNat < 48 ∨ 57 < d.toNat) → (c == d) = false := by
    intro d hd
    rw [beq_eq_false_iff_ne]; intro he; subst he; omega
  simp [plainChar, isEDF, hne 'E' (by decide), hne 'e' (by decide), hne 'D' (by decide),
    hne 'd' (by decide), hne 'F' (by decide), hne 'f' (by decide), hne 'P' (by decide),
    hne 'p' (by decide), hne ',' (by decide)]

theorem isDigit_of_isEDF (c : Char) (h : isEDF c = true) : isDigit c = false := by
  simp only [isEDF, Bool.or_eq_true, beq_iff_eq] at h
  rcases h with ((((h | h) | h) | h) | h) | h <;> subst h <;> decide

/-- optional minus sign and digits of an integer -/
def sgnDigits (z : Int) : List Char := if z < 0 then '-' :: natDigits z.natAbs else natDigits z.natAbs

theorem sgnDigits_plain (z : Int) : ∀ c ∈ sgnDigits z, plainChar c = true := by
  intro c hc
  unfold sgnDigits at hc
  split at hc
  · rcases List.mem_cons.mp hc with rfl | hc
    · decide
    · exact plainChar_of_isDigit c (natDigits_all_digits _ c hc)
  · exact plainChar_of_isDigit c (natDigits_all_digits _ c hc)

theorem atoi_sgnDigits (z : Int) (rest : List Char) (h : ∀ c, rest.head? = some c → isDigit c = false) :
    atoi (sgnDigits z ++ rest) = z := by
  unfold sgnDigits
  split
  · simp only [atoi, List.cons_append, scanInt_neg_natDigits _ rest h]; omega
  · simp only [atoi, scanInt_natDigits _ rest h]; omega

theorem floatScan_body (k : Nat) (num sc : Int) (letter : Char) (hl : isEDF letter = true) (r : List Char) :
    floatScan num sc (natDigits k ++ letter :: r) = some (num, sc, letter, r) := by
  rw [floatScan_plain num sc _ _ (fun c hc => plainChar_of_isDigit c (natDigits_all_digits k c hc))]
  simp [floatScan, hl]

theorem renderFloatFmt_eq (scale : Option (Int × Bool)) (k w d : Nat) (letter : Char) :
    renderFloatFmt scale k letter w d =
      '(' :: ((match scale with
        | some (sc, comma) => sgnDigits sc ++ 'P' :: (if comma then [','] else [])
        | none => []) ++ (natDigits k ++ letter :: (natDigits w ++ '.' :: (natDigits d ++ [')'])))) := by
  unfold renderFloatFmt sgnDigits
  rcases scale with _ | ⟨sc, comma⟩ <;> simp

theorem parseFloatFormat_render (scale : Option (Int × Bool)) (k w d : Nat) (letter : Char)
    (hl : isEDF letter = true) (pre post : List Char) (hpre : ∀ c ∈ pre, c ≠ '(') :
    parseFloatFormat (pre ++ renderFloatFmt scale k letter w d ++ post) =
      some { count := k, width := w,
             scale := (match scale with | some (s, _) => s | none => 0), letter := letter } := by
  have hld := isDigit_of_isEDF letter hl
  have hbody : ∀ r, atoi (natDigits k ++ letter :: r) = (k : Int) :=
    fun r => atoi_natDigits k _ (head_cons_not_digit letter r hld)
  have hw : atoi (natDigits w ++ '.' :: (natDigits d ++ ')' :: post)) = (w : Int) :=
    atoi_natDigits w _ (head_cons_not_digit '.' _ (by decide))
  rw [renderFloatFmt_eq]
  unfold parseFloatFormat
  rcases scale with _ | ⟨sc, comma⟩
  · simp only [List.nil_append, List.append_assoc, List.cons_append]
    rw [afterParen_append pre _ hpre]
    simp only [Option.bind_eq_bind, Option.bind_some, hbody, floatScan_body k _ _ letter hl, hw]
    simp
  · cases comma
    · simp only [List.nil_append, List.append_assoc, List.cons_append, Bool.false_eq_true, if_false]
      rw [afterParen_append pre _ hpre]
      simp only [Option.bind_eq_bind, Option.bind_some]
      rw [floatScan_plain _ _ _ _ (sgnDigits_plain sc),
        atoi_sgnDigits sc _ (head_cons_not_digit 'P' _ (by decide))]
      simp only [floatScan, show isEDF 'P' = false by decide, hbody, floatScan_body k _ _ letter hl]
      simp [hw]
    · simp only [List.nil_append, List.append_assoc, List.cons_append, if_true]
      rw [afterParen_append pre _ hpre]
      simp only [Option.bind_eq_bind, Option.bind_some]
      rw [floatScan_plain _ _ _ _ (sgnDigits_plain sc),
        atoi_sgnDigits sc _ (head_cons_not_digit 'P' _ (by decide))]
      simp only [floatScan, show isEDF 'P' = false by decide, show isEDF ',' = false by decide,
        hbody, floatScan_body k _ _ letter hl]
      simp [hw]

/-! ## 4. Fixed-width integer blocks -/

theorem fgets_line (lim : Nat) (body rest : List Char) (hnl : ∀ c ∈ body, c ≠ '\n')
    (hlen : body.length + 1 < lim) : fgets lim (body ++ '\n' :: rest) = (body ++ ['\n'], rest) := by
  induction body generalizing lim with
  | nil =>
    obtain ⟨m, rfl⟩ : ∃ m, lim = m + 2 := ⟨lim - 2, by simp at hlen; omega⟩
    simp [fgets]
  | cons c cs ih =>
    obtain ⟨m, rfl⟩ : ∃ m, lim = m + 2 := ⟨lim - 2, by simp at hlen; omega⟩
    have hc : c ≠ '\n' := hnl c (by simp)
    have := ih (m + 1) (fun d hd => hnl d (by simp [hd])) (by simp at hlen; omega)
    simp [fgets, hc, this]

theorem printField_length (w x : Nat) (h : (natDigits x).length ≤ w) : (printField w x).length = w := by
  simp [printField]; omega

theorem printField_no_newline (w x : Nat) : ∀ c ∈ printField w x, c ≠ '\n' := by
  intro c hc
  simp only [printField, List.mem_append, List.mem_replicate] at hc
  rcases hc with ⟨_, rfl⟩ | hc
  · decide
  · have := natDigits_all_digits x c hc
    intro he; subst he; revert this; decide

theorem scanInt_spaces (m : Nat) (s : List Char) : scanInt (List.replicate m ' ' ++ s) = scanInt s := by
  induction m with
  | zero => rfl
  | succ m ih =>
    rw [← ih]
    unfold scanInt
    simp [List.replicate_succ, skipWs, show isSpace ' ' = true by decide]

theorem atoi_printField (w x : Nat) : atoi (printField w x) = (x : Int) := by
  have h := scanInt_natDigits x [] (by simp)
  rw [List.append_nil] at h
  simp [atoi, printField, scanInt_spaces, h]

theorem field_zero_append (b X : List Char) (w : Nat) (hb : b.length = w) : field (b ++ X) 0 w = b := by
  subst hb; simp [field]

theorem field_succ_append (b X : List Char) (j w : Nat) (hb : b.length = w) :
    field (b ++ X) (j + 1) w = field X j w := by
  subst hb
  unfold field
  rw [show (j + 1) * b.length = b.length + j * b.length by rw [Nat.succ_mul, Nat.add_comm], List.drop_append]
  simp [List.drop_eq_nil_of_le (Nat.le_add_right b.length (j * b.length))]

theorem field_flatten (blocks : List (List Char)) (tail : List Char) (w : Nat)
    (h : ∀ b ∈ blocks, b.length = w) :
    (List.range blocks.length).map (fun j => field (blocks.flatten ++ tail) j w) = blocks := by
  induction blocks with
  | nil => rfl
  | cons b bs ih =>
    have hb := h b (by simp)
    have ih' := ih (fun c hc => h c (by simp [hc]))
    rw [List.length_cons, List.range_succ_eq_map, List.map_cons, List.map_map, List.flatten_cons,
      List.append_assoc, field_zero_append b _ w hb]
    congr 1
    rw [← ih']
    simp only [List.length_map, List.length_range]
    apply List.map_congr_left
    intro j _
    simp only [Function.comp, field_succ_append b _ j w hb]
    rw [ih']

theorem flatten_length_const (blocks : List (List Char)) (w : Nat) (h : ∀ b ∈ blocks, b.length = w) :
    blocks.flatten.length = blocks.length * w := by
  induction blocks with
  | nil => simp
  | cons b bs ih =>
    rw [List.flatten_cons, List.length_append, ih (fun c hc => h c (by simp [hc])), h b (by simp),
      List.length_cons, Nat.succ_mul, Nat.add_comm]

theorem lineFields_printLine (k w cnt : Nat) (ys : List Nat) (hlen : ys.length = min k cnt)
    (hfit : ∀ x ∈ ys, (natDigits x).length ≤ w) :
    lineFields (printLine w ys) k w cnt = ys.map (printField w) := by
  unfold lineFields printLine
  rw [← hlen, List.flatMap_def]
  have := field_flatten (ys.map (printField w)) ['\n'] w (by
    intro b hb
    obtain ⟨x, hx, rfl⟩ := List.mem_map.mp hb
    exact printField_length w x (hfit x hx))
  rwa [List.length_map] at this

theorem printInts_nil (k w : Nat) : printInts k w [] = [] := by
  rw [printInts]; simp

theorem printInts_of_ne_nil (k w : Nat) (xs : List Nat) (hk : k ≠ 0) (hx : xs ≠ []) :
    printInts k w xs = printLine w (xs.take k) ++ printInts k w (xs.drop k) := by
  rw [printInts]; simp [hk, hx]

theorem readFields_zero (k w : Nat) (s : List Char) : readFields k w 0 s = some ([], s) := by
  rw [readFields]; simp

theorem readFields_step (k w n : Nat) (s : List Char) (hk : k ≠ 0) (hn : n ≠ 0) :
    readFields k w n s =
      (readFields k w (n - min k n) (fgets 100 s).2).map
        (fun p => (lineFields (fgets 100 s).1 k w n ++ p.1, p.2)) := by
  rw [readFields]; simp [hk, hn]
  split <;> simp_all

theorem readFields_printInts (k w : Nat) (xs : List Nat) (hk : 0 < k) (hkw : k * w + 1 < 100)
    (hfit : ∀ x ∈ xs, (natDigits x).length ≤ w) :
    readFields k w xs.length (printInts k w xs) = some (xs.map (printField w), []) := by
  generalize hn : xs.length = n
  induction n using Nat.strongRecOn generalizing xs with
  | _ n ih =>
    by_cases hx : xs = []
    · subst hx; simp at hn; subst hn
      rw [printInts_nil, readFields_zero]; rfl
    · have hn0 : n ≠ 0 := by
        intro h; subst h; exact hx (List.length_eq_zero_iff.mp hn)
      have hfitT : ∀ x ∈ xs.take k, (natDigits x).length ≤ w :=
        fun x hx => hfit x (List.mem_of_mem_take hx)
      have hfitD : ∀ x ∈ xs.drop k, (natDigits x).length ≤ w :=
        fun x hx => hfit x (List.mem_of_mem_drop hx)
      have hlenT : (xs.take k).length = min k n := by rw [List.length_take, hn]
      have hblk : ∀ b ∈ (xs.take k).map (printField w), b.length = w := by
        intro b hb
        obtain ⟨x, hx, rfl⟩ := List.mem_map.mp hb
        exact printField_length w x (hfitT x hx)
      have hbody : ((xs.take k).flatMap (printField w)).length + 1 < 100 := by
        rw [List.flatMap_def, flatten_length_const _ w hblk, List.length_map, hlenT]
        have : min k n * w ≤ k * w := Nat.mul_le_mul_right w (Nat.min_le_left k n)
        omega
      have hnl : ∀ c ∈ (xs.take k).flatMap (printField w), c ≠ '\n' := by
        intro c hc
        obtain ⟨x, _, hcx⟩ := List.mem_flatMap.mp hc
        exact printField_no_newline w x c hcx
      have hfg : fgets 100 (printInts k w xs) = (printLine w (xs.take k), printInts k w (xs.drop k)) := by
        rw [printInts_of_ne_nil k w xs (by omega) hx]
        unfold printLine
        rw [List.append_assoc, List.singleton_append]
        exact fgets_line 100 _ _ hnl hbody
      have hrec := ih (n - min k n) (by omega) (xs.drop k) hfitD (by rw [List.length_drop, hn]; omega)
      rw [readFields_step k w n _ (by omega) hn0, hfg]
      simp only [hrec, lineFields_printLine k w n (xs.take k) hlenT hfitT]
      simp only [Option.map_some]
      rw [← List.map_append, List.take_append_drop]

theorem readVector_printInts (k w : Nat) (xs : List Nat) (hk : 0 < k) (hw : 0 < w) (hkw : k * w + 1 < 100)
    (hfit : ∀ x ∈ xs, (natDigits x).length ≤ w) :
    readVector k w xs.length (printInts k w xs) = some (xs.map (fun x : Nat => (x : Int) - 1), []) := by
  unfold readVector
  rw [readFields_printInts k w xs hk hkw hfit]
  simp [atoi_printField]

/-- a number below `10^w` fits in `w` columns -/
theorem natDigits_length_le (w n : Nat) (hw : 0 < w) (h : n < 10 ^ w) : (natDigits n).length ≤ w := by
  induction w generalizing n with
  | zero => omega
  | succ w ih =>
    by_cases h10 : n < 10
    · rw [natDigits_lt n h10]; simp
    · rw [natDigits_ge n h10, List.length_append, List.length_singleton]
      have hw0 : 0 < w := by
        rcases Nat.eq_zero_or_pos w with rfl | hw0
        · simp at h; omega
        · exact hw0
      have : n / 10 < 10 ^ w := by
        rw [Nat.pow_succ] at h
        exact Nat.div_lt_of_lt_mul (by rw [Nat.mul_comm]; exact h)
      have := ih (n / 10) hw0 this
      omega

/-- `readVector_printInts` with the fit condition stated as a bound on the numbers -/
theorem readVector_printInts_of_lt (k w : Nat) (xs : List Nat) (hk : 0 < k) (hw : 0 < w)
    (hkw : k * w + 1 < 100) (hfit : ∀ x ∈ xs, x < 10 ^ w) :
    readVector k w xs.length (printInts k w xs) = some (xs.map (fun x : Nat => (x : Int) - 1), []) :=
  readVector_printInts k w xs hk hw hkw (fun x hx => natDigits_length_le w x hw (hfit x hx))

/-! ## 5. Non-vacuity -/

example : parseFloatFormat "(1P,4E20.12)        ".toList =
    some { count := 4, width := 20, scale := 1, letter := 'E' } := by decide

example : parseFloatFormat "(1P4E20.12)         ".toList =
    some { count := 4, width := 20, scale := 1, letter := 'E' } := by decide

example : parseFloatFormat "(-2P,3D25.16)".toList =
    some { count := 3, width := 25, scale := -2, letter := 'D' } := by decide

example : parseFloatFormat "(5F16.8)".toList =
    some { count := 5, width := 16, scale := 0, letter := 'F' } := by decide

example : parseIntFormat "(13I6)          ".toList = some (13, 6) := by decide

example : parseIntFormat "  (8i10)".toList = some (8, 10) := by decide

example : readVector 3 4 5 (printInts 3 4 [1, 22, 333, 4444, 5]) = some ([0, 21, 332, 4443, 4], []) :=
  readVector_printInts_of_lt 3 4 [1, 22, 333, 4444, 5] (by decide) (by decide) (by decide) (by decide)

example : renderFloatFmt (some (1, true)) 4 'E' 20 12 = "(1P,4E20.12)".toList := by
  simp [renderFloatFmt, natDigits_ge, natDigits_lt]

example : renderFloatFmt (some (-2, false)) 3 'D' 25 16 = "(-2P3D25.16)".toList := by
  simp [renderFloatFmt, natDigits_ge, natDigits_lt]

example : renderIntFmt 13 6 = "(13I6)".toList := by
  simp [renderIntFmt, natDigits_ge, natDigits_lt]

example : printInts 3 4 [1, 22, 333, 4444, 5] = "   1  22 333\n4444   5\n".toList := by
  simp [printInts_of_ne_nil, printInts_nil, printLine, printField, natDigits_ge, natDigits_lt]

end Slu.Readers
