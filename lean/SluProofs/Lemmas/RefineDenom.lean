import Slu.Model.Refine
import SluProofs.Lemmas.RefineResid
/-
Entrywise reading of the denominator `rwork = |op(A)||x| + |b|` that `[sdcz]gsrfs` accumulates
(`Slu.Refine.denom`, dgsrfs.c:299-315): in exact arithmetic the scatter (NOTRANS) and gather
(TRANS / CONJ) folds compute, for every row `i` of the work array, `|b_i| + sum |a| |x|` over the stored
entries of row `i` of `op(A)` (any order, duplicates summed).  Companion of `RefineResid.lean`.
-/
set_option linter.unusedSectionVars false
namespace Slu.Gssvx
open Slu Slu.Equil Slu.Lacon Slu.Refine

variable {K : Type} [CommRing K] [Inhabited K]

/-- the magnitude and the multiply-add of the arithmetic record behave as in exact arithmetic -/
structure AbsLaws (Ar : Arith K Rat) : Prop where
  mulAdd : ∀ acc a b, Ar.mulAdd acc a b = acc + a * b
  abs_nonneg : ∀ v, 0 ≤ Ar.absK v
  abs_zero : ∀ v, Ar.absK v = 0 → v = 0

theorem absQ_laws : AbsLaws arithQ where
  mulAdd _ _ _ := rfl
  abs_nonneg v := by simp [arithQ]
  abs_zero v h := by simpa [arithQ] using h

theorem absQC_laws : AbsLaws arithQC where
  mulAdd _ _ _ := rfl
  abs_nonneg v := by
    show (0 : Rat) ≤ rabs v.re + rabs v.im
    simp only [rabs_eq_abs]; positivity
  abs_zero v h := by
    have h : rabs v.re + rabs v.im = 0 := h
    simp only [rabs_eq_abs] at h
    have h1 : |v.re| = 0 := by linarith [abs_nonneg v.re, abs_nonneg v.im]
    have h2 : |v.im| = 0 := by linarith [abs_nonneg v.re, abs_nonneg v.im]
    ext
    · simpa using abs_eq_zero.mp h1
    · simpa using abs_eq_zero.mp h2

/-- the stored entries with their magnitudes -/
def absEntries (Ar : Arith K Rat) (A : CSC K) : List (Entry Rat) :=
  (List.range A.n).flatMap fun j => (A.col j).map fun e => { row := e.1, col := j, val := Ar.absK e.2 }

theorem getD_set_rat (y : Array Rat) (k i : Nat) (v : Rat) (hi : i < y.size) :
    (y.setIfInBounds k v).getD i 0 = if k = i then v else y.getD i 0 := by
  simp only [Array.getD_eq_getD_getElem?, Array.getElem?_setIfInBounds]
  split
  · rename_i h; subst h; simp [hi]
  · rfl

theorem foldl_add_rat {α : Type} (l : List α) (g : α → Rat) (s0 : Rat) :
    l.foldl (fun s e => s + g e) s0 = s0 + (l.map g).sum := by
  induction l generalizing s0 with
  | nil => simp
  | cons a t ih => simp only [List.foldl_cons, List.map_cons, List.sum_cons, ih]; ring

section denom
variable (Ar : Arith K Rat) (al : AbsLaws Ar)
include al

omit al in
theorem scatterAbs_spec (t : Rat) (f : K → Rat) (l : List (Nat × K)) (y : Array Rat) :
    (l.foldl (fun (y : Array Rat) e => y.setIfInBounds e.1 (y.getD e.1 0 + f e.2 * t)) y).size = y.size ∧
    ∀ i < y.size, (l.foldl (fun (y : Array Rat) e => y.setIfInBounds e.1 (y.getD e.1 0 + f e.2 * t)) y).getD i 0 =
      y.getD i 0 + (l.map fun e => if e.1 = i then f e.2 * t else 0).sum := by
  induction l generalizing y with
  | nil => simp
  | cons a r ih =>
    simp only [List.foldl_cons, List.map_cons, List.sum_cons]
    obtain ⟨h1, h2⟩ := ih (y.setIfInBounds a.1 (y.getD a.1 0 + f a.2 * t))
    refine ⟨by rw [h1]; simp, fun i hi => ?_⟩
    rw [h2 i (by simpa using hi), getD_set_rat _ _ _ _ hi]
    by_cases h : a.1 = i
    · simp only [h, if_true]; ring
    · simp only [h, if_false]; ring

theorem denomN_spec (A : CSC K) (x : Array K) (js : List Nat) (y : Array Rat) :
    let r := js.foldl (fun (rw : Array Rat) k =>
      let xk := Ar.absK (x.getD k Ar.kzero)
      (A.col k).foldl (fun (rw : Array Rat) e => rw.setIfInBounds e.1 (Ar.mulAdd (rw.getD e.1 0) (Ar.absK e.2) xk)) rw) y
    r.size = y.size ∧ ∀ i < y.size, r.getD i 0 = y.getD i 0 +
      (js.map fun k => ((A.col k).map fun e => if e.1 = i then Ar.absK e.2 * Ar.absK (x.getD k Ar.kzero) else 0).sum).sum := by
  induction js generalizing y with
  | nil => simp
  | cons j t ih =>
    simp only [List.foldl_cons, List.map_cons, List.sum_cons, al.mulAdd]
    obtain ⟨hs, hv⟩ := scatterAbs_spec (Ar.absK (x.getD j Ar.kzero)) Ar.absK (A.col j) y
    have ih' := ih ((A.col j).foldl (fun (rw : Array Rat) e =>
      rw.setIfInBounds e.1 (rw.getD e.1 0 + Ar.absK e.2 * Ar.absK (x.getD j Ar.kzero))) y)
    simp only [al.mulAdd] at ih'
    obtain ⟨hs2, hv2⟩ := ih'
    refine ⟨by rw [hs2, hs], fun i hi => ?_⟩
    rw [hv2 i (by rw [hs]; exact hi), hv i hi]
    ring

theorem denomT_spec (A : CSC K) (x : Array K) (js : List Nat) (y : Array Rat) :
    let r := js.foldl (fun (rw : Array Rat) k =>
      let s := (A.col k).foldl (fun s e => Ar.mulAdd s (Ar.absK e.2) (Ar.absK (x.getD e.1 Ar.kzero))) 0
      rw.setIfInBounds k (rw.getD k 0 + s)) y
    r.size = y.size ∧ ∀ i < y.size, r.getD i 0 = y.getD i 0 +
      (js.map fun k => if k = i then ((A.col k).map fun e => Ar.absK e.2 * Ar.absK (x.getD e.1 Ar.kzero)).sum else 0).sum := by
  induction js generalizing y with
  | nil => simp
  | cons j t ih =>
    simp only [List.foldl_cons, List.map_cons, List.sum_cons, al.mulAdd]
    have hsum : (A.col j).foldl (fun s e => s + Ar.absK e.2 * Ar.absK (x.getD e.1 Ar.kzero)) 0 =
        ((A.col j).map fun e => Ar.absK e.2 * Ar.absK (x.getD e.1 Ar.kzero)).sum := by
      rw [foldl_add_rat, zero_add]
    have ih' := ih (y.setIfInBounds j (y.getD j 0 +
      (A.col j).foldl (fun s e => s + Ar.absK e.2 * Ar.absK (x.getD e.1 Ar.kzero)) 0))
    simp only [al.mulAdd] at ih'
    obtain ⟨hs2, hv2⟩ := ih'
    refine ⟨by rw [hs2]; simp, fun i hi => ?_⟩
    rw [hv2 i (by simpa using hi), getD_set_rat _ _ _ _ hi, hsum]
    by_cases h : j = i
    · simp only [h, if_true]; ring
    · simp only [h, if_false]; ring

/-- **the denominator `gsrfs` forms is `|b| + |op(A)||x|`**, entry by entry, in exact arithmetic -/
theorem denom_exact (hk : Ar.kzero = 0) (tr : Trans) (A : CSC K) (x b : Array K) :
    (denom Ar tr A x b).size = b.size ∧
    ∀ i < b.size, (denom Ar tr A x b).getD i 0 =
      Ar.absK (b.getD i 0) + opMul (opOfTrans tr) (absEntries Ar A) (fun k => Ar.absK (x.getD k 0)) i := by
  have hsum : ∀ (op : Op) (i : Nat), opMul op (absEntries Ar A) (fun k => Ar.absK (x.getD k 0)) i =
      ((List.range A.n).map fun j => ((A.col j).map fun e =>
        opTerm op (fun k => Ar.absK (x.getD k 0)) i { row := e.1, col := j, val := Ar.absK e.2 }).sum).sum := by
    intro op i
    unfold opMul absEntries
    rw [sum_flatMap_map]
    congr 1
    apply List.map_congr_left
    intro j _
    rw [List.map_map]; rfl
  have hb0 : ∀ i < b.size, (b.map Ar.absK).getD i 0 = Ar.absK (b.getD i 0) := by
    intro i hi; simp [Array.getD_eq_getD_getElem?, hi]
  cases tr
  · obtain ⟨hs, hv⟩ := denomN_spec Ar al A x (List.range A.n) (b.map Ar.absK)
    refine ⟨by simpa [denom] using hs, fun i hi => ?_⟩
    simp only [denom]
    rw [hv i (by simpa using hi), hb0 i hi, opOfTrans, hsum, hk]
    simp only [opTerm]
  · obtain ⟨hs, hv⟩ := denomT_spec Ar al A x (List.range A.n) (b.map Ar.absK)
    refine ⟨by simpa [denom] using hs, fun i hi => ?_⟩
    simp only [denom]
    rw [hv i (by simpa using hi), hb0 i hi, opOfTrans, hsum, hk]
    congr 2
    apply List.map_congr_left
    intro j _
    split
    · rename_i h; subst h; simp [opTerm]
    · rename_i h; simp [opTerm, h]
  · obtain ⟨hs, hv⟩ := denomT_spec Ar al A x (List.range A.n) (b.map Ar.absK)
    refine ⟨by simpa [denom] using hs, fun i hi => ?_⟩
    simp only [denom]
    rw [hv i (by simpa using hi), hb0 i hi, opOfTrans, hsum, hk]
    congr 2
    apply List.map_congr_left
    intro j _
    split
    · rename_i h; subst h; simp [opTerm, HasConj.conj]
    · rename_i h; simp [opTerm, h]

omit al in
theorem list_sum_zero_nonneg (l : List Rat) (hnn : ∀ t ∈ l, 0 ≤ t) (h : l.sum = 0) : ∀ t ∈ l, t = 0 := by
  induction l with
  | nil => intro t ht; cases ht
  | cons a r ih =>
    have ha : 0 ≤ a := hnn a List.mem_cons_self
    have hr : 0 ≤ r.sum := List.sum_nonneg (fun t ht => hnn t (List.mem_cons_of_mem _ ht))
    rw [List.sum_cons] at h
    have ha0 : a = 0 := by linarith
    have hr0 : r.sum = 0 := by linarith
    intro t ht
    rcases List.mem_cons.mp ht with rfl | ht
    · exact ha0
    · exact ih (fun t ht => hnn t (List.mem_cons_of_mem _ ht)) hr0 t ht

omit al in
theorem absEntries_eq (A : CSC K) :
    absEntries Ar A = (cscEntries A).map (fun e => { row := e.row, col := e.col, val := Ar.absK e.val }) := by
  unfold absEntries cscEntries
  rw [List.map_flatMap]
  congr 1
  funext j
  rw [List.map_map]; rfl

/-- a row with a zero denominator has a zero residual: every stored product in it vanishes and so does `b_i` -/
theorem resid_zero_of_denom_zero [HasConj K] [Mag K Rat] [ScalarLaws K] (tr : Trans) (A : CSC K) (x b : Array K) (i : Nat)
    (h : Ar.absK (b.getD i 0) + opMul (opOfTrans tr) (absEntries Ar A) (fun k => Ar.absK (x.getD k 0)) i = 0) :
    b.getD i 0 - opMul (opOfTrans tr) (cscEntries A) (fun k => x.getD k 0) i = 0 := by
  have hnn : ∀ t ∈ (absEntries Ar A).map (opTerm (opOfTrans tr) (fun k => Ar.absK (x.getD k 0)) i), 0 ≤ t := by
    intro t ht
    obtain ⟨e, he, rfl⟩ := List.mem_map.mp ht
    rw [absEntries_eq] at he
    obtain ⟨e0, _, rfl⟩ := List.mem_map.mp he
    cases tr <;> simp only [opOfTrans, opTerm, HasConj.conj] <;> split <;>
      first | exact le_refl _ | exact mul_nonneg (al.abs_nonneg _) (al.abs_nonneg _)
  have hs : 0 ≤ opMul (opOfTrans tr) (absEntries Ar A) (fun k => Ar.absK (x.getD k 0)) i :=
    List.sum_nonneg hnn
  have hb : Ar.absK (b.getD i 0) = 0 := by linarith [al.abs_nonneg (b.getD i 0)]
  have hm : opMul (opOfTrans tr) (absEntries Ar A) (fun k => Ar.absK (x.getD k 0)) i = 0 := by
    linarith [al.abs_nonneg (b.getD i 0)]
  have hterms := list_sum_zero_nonneg _ hnn hm
  have hz : opMul (opOfTrans tr) (cscEntries A) (fun k => x.getD k 0) i = 0 := by
    unfold opMul
    apply List.sum_eq_zero
    intro t ht
    obtain ⟨e, he, rfl⟩ := List.mem_map.mp ht
    have h0 := hterms (opTerm (opOfTrans tr) (fun k => Ar.absK (x.getD k 0)) i
      { row := e.row, col := e.col, val := Ar.absK e.val }) (by
        rw [absEntries_eq, List.map_map]
        exact List.mem_map.mpr ⟨e, he, rfl⟩)
    have key : ∀ (a v : K), Ar.absK a * Ar.absK v = 0 → a = 0 ∨ v = 0 := by
      intro a v hav
      rcases mul_eq_zero.mp hav with h1 | h1
      · exact Or.inl (al.abs_zero _ h1)
      · exact Or.inr (al.abs_zero _ h1)
    cases tr <;> simp only [opOfTrans, opTerm, HasConj.conj] at h0 ⊢ <;> split <;> rename_i hc <;>
      simp only [hc, if_true, if_false, id] at h0 <;> try rfl
    · rcases key _ _ h0 with h1 | h1 <;> simp [h1]
    · rcases key _ _ h0 with h1 | h1 <;> simp [h1]
    · rcases key _ _ h0 with h1 | h1 <;> simp [h1, ScalarLaws.conj_zero]
  rw [hz, al.abs_zero _ hb, sub_zero]

end denom
end Slu.Gssvx
