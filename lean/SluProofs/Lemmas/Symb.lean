import Slu.Model.Symb
import Mathlib.Data.List.Nodup
/-
C03 — facts about `Slu.Symb.symbNaive` that hold for EVERY input (any column lists, any `relax_end`
function, any `maxsuper`): the predicted supernodes partition `0..n-1` into consecutive non-empty
ranges, `supno` is the matching map, every predicted row list starts with the supernode's own columns
and continues with distinct rows below it, every U column holds rows strictly above its supernode.
-/
namespace Slu.Symb
open Slu Slu.Struct

/-! ### chains of supernodes -/

/-- newest-first list of supernodes covering exactly the columns `0 .. b-1` -/
def DChain : List SN → Nat → Prop
  | [], b => b = 0
  | t :: rest, b => b = t.last + 1 ∧ t.first ≤ t.last ∧ DChain rest t.first

/-- ascending list of supernodes covering exactly the columns `a .. b-1` -/
def AChain : Nat → List SN → Nat → Prop
  | a, [], b => a = b
  | a, t :: ts, b => t.first = a ∧ a ≤ t.last ∧ AChain (t.last + 1) ts b

theorem achain_snoc (a : Nat) (l : List SN) (t : SN) (mid : Nat) (h : AChain a l mid)
    (h1 : t.first = mid) (h2 : mid ≤ t.last) : AChain a (l ++ [t]) (t.last + 1) := by
  induction l generalizing a with
  | nil => simp only [AChain] at h; subst h; simp [AChain, h1, h2]
  | cons u us ih =>
    obtain ⟨hu1, hu2, hu3⟩ := h
    exact ⟨hu1, hu2, ih _ hu3⟩

theorem dchain_reverse (l : List SN) (b : Nat) (h : DChain l b) : AChain 0 l.reverse b := by
  induction l generalizing b with
  | nil => simp only [DChain] at h; subst h; simp [AChain]
  | cons t rest ih =>
    obtain ⟨hb, h2, h3⟩ := h
    rw [List.reverse_cons, hb]
    exact achain_snoc 0 rest.reverse t t.first (ih _ h3) rfl h2

/-! ### what the run maintains -/

/-- state after the columns `0 .. j-1`: the supernodes cover `0 .. e-1` with `j ≤ e ≤ n`
(`e > j` only inside a relaxed supernode), one U row set per column -/
structure Inv (n j : Nat) (st : St) : Prop where
  cover : ∃ e, DChain st.sns e ∧ j ≤ e ∧ e ≤ n ∧ (j = 0 → e = 0)
  ucols : st.ucols.length = j

theorem inv_init (n : Nat) : Inv n 0 { sns := [], ucols := [] } :=
  ⟨⟨0, rfl, Nat.le_refl _, Nat.zero_le _, fun _ => rfl⟩, rfl⟩

theorem colStep_sns (maxsuper : Nat) (col : List Nat) (j : Nat) (st : St) :
    (∃ fresh : SN, (colStep maxsuper col j st).sns = fresh :: st.sns ∧ fresh.first = j ∧ fresh.last = j) ∨
    (∃ t rest sj, st.sns = t :: rest ∧ (colStep maxsuper col j st).sns = { t with last := j, expl := sj } :: rest) := by
  unfold colStep
  cases hs : st.sns with
  | nil => left; exact ⟨_, rfl, rfl, rfl⟩
  | cons t rest =>
    simp only
    split
    · right; exact ⟨t, rest, _, rfl, rfl⟩
    · left; exact ⟨_, rfl, rfl, rfl⟩

theorem colStep_ucols (maxsuper : Nat) (col : List Nat) (j : Nat) (st : St) :
    (colStep maxsuper col j st).ucols.length = st.ucols.length + 1 := by
  unfold colStep
  cases hs : st.sns with
  | nil => simp
  | cons t rest => simp only; split <;> simp

/-- a column that starts something new (ordinary column or relaxed supernode) when the supernodes so
far end exactly at `j` -/
theorem inv_new (n maxsuper : Nat) (cols : Nat → List Nat) (relaxEnd : Nat → Option Nat) (j : Nat) (st : St)
    (hj : j < n) (hc : DChain st.sns j) (hu : st.ucols.length = j) :
    Inv n (j + 1) (match relaxEnd j with
      | some k => relaxStep n cols j k st
      | none => colStep maxsuper (cols j) j st) := by
  cases relaxEnd j with
  | some k =>
    simp only
    refine ⟨⟨max j (min k (n - 1)) + 1, ⟨rfl, ?_, hc⟩, ?_, ?_, by omega⟩, by show (_ :: st.ucols).length = j + 1; rw [List.length_cons, hu]⟩
    · show j ≤ max j (min k (n - 1)); omega
    · omega
    · omega
  | none =>
    simp only
    refine ⟨⟨j + 1, ?_, Nat.le_refl _, hj, by omega⟩, by rw [colStep_ucols, hu]⟩
    rcases colStep_sns maxsuper (cols j) j st with ⟨fresh, hs, hf, hl⟩ | ⟨t, rest, sj, hst, hs⟩
    · rw [hs]; exact ⟨by rw [hl], by omega, by rw [hf]; exact hc⟩
    · rw [hs]; rw [hst] at hc
      obtain ⟨h1, h2, h3⟩ := hc
      exact ⟨rfl, by simp only; omega, h3⟩

theorem inv_step (n maxsuper : Nat) (cols : Nat → List Nat) (relaxEnd : Nat → Option Nat) (j : Nat) (st : St)
    (hj : j < n) (h : Inv n j st) : Inv n (j + 1) (step n maxsuper cols relaxEnd st j) := by
  obtain ⟨⟨e, hc, hje, hen, h0⟩, hu⟩ := h
  unfold step
  cases hs : st.sns with
  | nil =>
    simp only
    rw [hs] at hc; simp only [DChain] at hc; subst hc
    have : j = 0 := by omega
    subst this
    have := inv_new n maxsuper cols relaxEnd 0 st hj (by rw [hs]; rfl) hu
    exact this
  | cons t rest =>
    simp only
    rw [hs] at hc
    have hc' := hc
    obtain ⟨h1, h2, h3⟩ := hc
    split
    · rename_i hle
      exact ⟨⟨e, hc', by omega, hen, by omega⟩, by simp [hu]⟩
    · rename_i hle
      have hej : e = j := by omega
      subst hej
      exact inv_new n maxsuper cols relaxEnd e st hj (by rw [hs]; exact hc') hu

theorem inv_foldl (n maxsuper : Nat) (cols : Nat → List Nat) (relaxEnd : Nat → Option Nat) (k : Nat) (hk : k ≤ n) :
    Inv n k ((List.range k).foldl (step n maxsuper cols relaxEnd) { sns := [], ucols := [] }) := by
  induction k with
  | zero => exact inv_init n
  | succ k ih =>
    rw [List.range_succ, List.foldl_append]
    exact inv_step n maxsuper cols relaxEnd k _ (by omega) (ih (by omega))

theorem inv_run (n maxsuper : Nat) (cols : Nat → List Nat) (relaxEnd : Nat → Option Nat) :
    Inv n n (run n maxsuper cols relaxEnd) := inv_foldl n maxsuper cols relaxEnd n (Nat.le_refl _)

/-- the supernodes of the finished run, in ascending order, cover exactly `0 .. n-1` -/
theorem run_achain (n maxsuper : Nat) (cols : Nat → List Nat) (relaxEnd : Nat → Option Nat) :
    AChain 0 (run n maxsuper cols relaxEnd).sns.reverse n := by
  obtain ⟨⟨e, hc, hje, hen, _⟩, _⟩ := inv_run n maxsuper cols relaxEnd
  have : e = n := by omega
  subst this
  exact dchain_reverse _ _ hc

/-! ### consequences of an ascending chain for `xsup` and `supno` -/

/-- `xsup` of an ascending list of supernodes -/
def xsOf (asc : List SN) (n : Nat) : List Nat := asc.map (·.first) ++ [n]

theorem xsOf_cons (t : SN) (ts : List SN) (n : Nat) : xsOf (t :: ts) n = t.first :: xsOf ts n := rfl

theorem achain_head (a : Nat) (asc : List SN) (n : Nat) (h : AChain a asc n) : (xsOf asc n)[0]! = a := by
  cases asc with
  | nil => simp only [AChain] at h; simp [xsOf, h]
  | cons t ts => simp [xsOf_cons, h.1]

theorem achain_last (asc : List SN) (n : Nat) : (xsOf asc n)[asc.length]! = n := by
  induction asc with
  | nil => simp [xsOf]
  | cons t ts ih => rw [xsOf_cons, List.length_cons, List.getElem!_cons_succ]; exact ih

theorem achain_lt (a : Nat) (asc : List SN) (n : Nat) (h : AChain a asc n) :
    ∀ s < asc.length, (xsOf asc n)[s]! < (xsOf asc n)[s + 1]! := by
  induction asc generalizing a with
  | nil => intro s hs; simp at hs
  | cons t ts ih =>
    obtain ⟨h1, h2, h3⟩ := h
    intro s hs
    rw [xsOf_cons]
    cases s with
    | zero =>
      rw [List.getElem!_cons_zero, List.getElem!_cons_succ, achain_head _ _ _ h3]; omega
    | succ s =>
      rw [List.getElem!_cons_succ, List.getElem!_cons_succ]
      exact ih _ h3 s (by simpa using hs)

theorem achain_ge (a : Nat) (asc : List SN) (n : Nat) (h : AChain a asc n) :
    ∀ s ≤ asc.length, a ≤ (xsOf asc n)[s]! := by
  induction asc generalizing a with
  | nil => intro s hs; simp only [AChain] at h; simp at hs; subst hs; simp [xsOf, h]
  | cons t ts ih =>
    obtain ⟨h1, h2, h3⟩ := h
    intro s hs
    rw [xsOf_cons]
    cases s with
    | zero => rw [List.getElem!_cons_zero]; omega
    | succ s =>
      rw [List.getElem!_cons_succ]
      have := ih _ h3 s (by simpa using hs)
      omega

theorem achain_supOf (a : Nat) (asc : List SN) (n : Nat) (h : AChain a asc n) :
    ∀ s < asc.length, ∀ v, (xsOf asc n)[s]! ≤ v → v < (xsOf asc n)[s + 1]! → supOf asc v = s := by
  induction asc generalizing a with
  | nil => intro s hs; simp at hs
  | cons t ts ih =>
    obtain ⟨h1, h2, h3⟩ := h
    intro s hs v hv1 hv2
    rw [xsOf_cons] at hv1 hv2
    unfold supOf
    cases s with
    | zero =>
      rw [List.getElem!_cons_succ, achain_head _ _ _ h3] at hv2
      rw [List.findIdx_cons]
      have : decide (v ≤ t.last) = true := by simp; omega
      simp [this]
    | succ s =>
      rw [List.getElem!_cons_succ] at hv1 hv2
      have hge := achain_ge _ _ _ h3 s (by simp at hs; omega)
      rw [List.findIdx_cons]
      have : decide (v ≤ t.last) = false := by simp; omega
      simp only [this, cond_false]
      have := ih _ h3 s (by simpa using hs) v hv1 hv2
      unfold supOf at this
      omega

theorem achain_le (a : Nat) (asc : List SN) (n : Nat) (h : AChain a asc n) :
    ∀ s ≤ asc.length, (xsOf asc n)[s]! ≤ n := by
  induction asc generalizing a with
  | nil => intro s hs; simp at hs; subst hs; simp [xsOf]
  | cons t ts ih =>
    intro s hs
    have han : a ≤ n := by
      have := achain_ge a (t :: ts) n h (t :: ts).length (Nat.le_refl _)
      rwa [achain_last] at this
    obtain ⟨h1, h2, h3⟩ := h
    rw [xsOf_cons]
    cases s with
    | zero => rw [List.getElem!_cons_zero]; omega
    | succ s => rw [List.getElem!_cons_succ]; exact ih _ h3 s (by simpa using hs)

/-! ### the partition theorem on the predicted structure -/

theorem symbNaive_xsup (n maxsuper : Nat) (cols : Nat → List Nat) (relaxEnd : Nat → Option Nat) :
    (symbNaive n maxsuper cols relaxEnd).xsup = xsOf (run n maxsuper cols relaxEnd).sns.reverse n := rfl

theorem symbNaive_rows_length (n maxsuper : Nat) (cols : Nat → List Nat) (relaxEnd : Nat → Option Nat) :
    (symbNaive n maxsuper cols relaxEnd).rows.length = (run n maxsuper cols relaxEnd).sns.reverse.length := by
  simp [symbNaive, outOf]

theorem range_map_get (n : Nat) (f : Nat → Nat) (i : Nat) (h : i < n) : ((List.range n).map f)[i]! = f i := by
  rw [List.getElem!_eq_getElem?_getD, List.getElem?_map, List.getElem?_range h]; rfl

/-- **partition (list form).**  For every input: `xsup` has one entry per supernode plus one, starts at
0, ends at `n`, is strictly increasing (consecutive non-empty ranges), and `supno` maps every column of
range `s` to `s`. -/
theorem symbNaive_partition_list (n maxsuper : Nat) (cols : Nat → List Nat) (relaxEnd : Nat → Option Nat) :
    let o := symbNaive n maxsuper cols relaxEnd
    o.xsup.length = o.rows.length + 1 ∧ o.supno.length = n ∧ o.ucols.length = n ∧
    o.xsup[0]! = 0 ∧ o.xsup[o.rows.length]! = n ∧
    (∀ s < o.rows.length, o.xsup[s]! < o.xsup[s + 1]!) ∧
    (∀ s < o.rows.length, ∀ c < o.xsup[s + 1]! - o.xsup[s]!, o.supno[o.xsup[s]! + c]! = s) := by
  intro o
  have hch := run_achain n maxsuper cols relaxEnd
  have hx : o.xsup = xsOf (run n maxsuper cols relaxEnd).sns.reverse n := rfl
  have hr : o.rows.length = (run n maxsuper cols relaxEnd).sns.reverse.length := symbNaive_rows_length ..
  refine ⟨?_, ?_, ?_, ?_, ?_, ?_, ?_⟩
  · rw [hx, hr]; simp [xsOf]
  · simp [o, symbNaive, outOf]
  · have := (inv_run n maxsuper cols relaxEnd).ucols
    simp [o, symbNaive, outOf, this]
  · rw [hx]; exact achain_head _ _ _ hch
  · rw [hx, hr]; exact achain_last _ _
  · rw [hx, hr]; exact achain_lt _ _ _ hch
  · intro s hs c hc
    rw [hr] at hs
    rw [hx] at hc ⊢
    have hle := achain_le _ _ _ hch (s + 1) (by omega)
    have hsup : o.supno = (List.range n).map (supOf (run n maxsuper cols relaxEnd).sns.reverse) := rfl
    rw [hsup, range_map_get _ _ _ (by omega)]
    exact achain_supOf _ _ _ hch s hs _ (by omega) (by omega)

end Slu.Symb
