import Slu.Model.Symb
import Mathlib.Data.List.Nodup
import Mathlib.Data.List.Range
/-
C03 — facts about `Slu.Symb.symbNaive` that hold for EVERY input (any column lists, any `relax_end`
function, any `maxsuper`): the predicted supernodes partition `0..n-1` into consecutive non-empty
ranges, `supno` is the matching map, every predicted row list starts with the supernode's own columns
and continues with distinct rows below it, every U column holds distinct rows strictly above its
supernode.  With row indices `< m` in the input and `n ≤ m`, all predicted rows are `< m`.
-/
namespace Slu.Symb
open Slu Slu.Struct

/-! ### list utilities: `union`, `seg`, `useg`, `reach` -/

theorem union_nodup (a b : List Nat) (h : a.Nodup) : (union a b).Nodup := by
  unfold union
  induction b generalizing a with
  | nil => simpa [markerFilter] using h
  | cons r rs ih =>
    simp only [markerFilter]
    split
    · exact ih a h
    · rename_i hc
      apply ih
      rw [List.nodup_append]
      refine ⟨h, by simp, ?_⟩
      intro x hx y hy
      simp at hy; subst hy
      intro hxy; subst hxy
      exact hc (by simpa using hx)

theorem mem_union (a b : List Nat) (x : Nat) : x ∈ union a b ↔ x ∈ a ∨ x ∈ b := by
  unfold union
  induction b generalizing a with
  | nil => simp [markerFilter]
  | cons r rs ih =>
    simp only [markerFilter]
    split
    · rename_i hc
      have hr : r ∈ a := by simpa using hc
      rw [ih a]
      constructor
      · rintro (h | h)
        · exact Or.inl h
        · exact Or.inr (List.mem_cons_of_mem _ h)
      · rintro (h | h)
        · exact Or.inl h
        · rcases List.mem_cons.mp h with rfl | h
          · exact Or.inl hr
          · exact Or.inr h
    · rw [ih (a ++ [r])]
      simp only [List.mem_append, List.mem_cons]
      tauto

theorem mem_seg (lo hi r : Nat) : r ∈ seg lo hi ↔ lo ≤ r ∧ r ≤ hi := by
  unfold seg
  simp only [List.mem_map, List.mem_range]
  constructor
  · rintro ⟨i, hi', rfl⟩; omega
  · rintro ⟨h1, h2⟩; exact ⟨r - lo, by omega, by omega⟩

theorem seg_length (lo hi : Nat) : (seg lo hi).length = hi + 1 - lo := by simp [seg]

theorem seg_get (lo hi c : Nat) (h : c < hi + 1 - lo) : (seg lo hi)[c]! = lo + c := by
  unfold seg
  rw [List.getElem!_eq_getElem?_getD, List.getElem?_map, List.getElem?_range h]
  simp; omega

theorem seg_sorted (lo hi : Nat) : (seg lo hi).Pairwise (· < ·) := by
  unfold seg
  rw [List.pairwise_map]
  exact List.Pairwise.imp (fun h => by omega) List.pairwise_lt_range

theorem foldl_min_ge (c h : Nat) (hs : List Nat) (hh : c ≤ h) (hall : ∀ x ∈ hs, c ≤ x) : c ≤ hs.foldl min h := by
  induction hs generalizing h with
  | nil => simpa using hh
  | cons y ys ih =>
    simp only [List.foldl_cons]
    exact ih _ (by have := hall y (by simp); omega) (fun x hx => hall x (by simp [hx]))

theorem mem_hits (t : SN) (R : List Nat) (r : Nat) : r ∈ hits t R ↔ r ∈ R ∧ t.first ≤ r ∧ r ≤ t.last := by
  simp [hits]

theorem mem_useg (t : SN) (R : List Nat) (r : Nat) (h : r ∈ useg t R) : t.first ≤ r ∧ r ≤ t.last := by
  unfold useg at h
  cases hh : hits t R with
  | nil => rw [hh] at h; simp at h
  | cons x xs =>
    rw [hh] at h
    simp only at h
    rw [mem_seg] at h
    refine ⟨?_, h.2⟩
    have hx : t.first ≤ x := ((mem_hits t R x).mp (by rw [hh]; simp)).2.1
    have hxs : ∀ y ∈ xs, t.first ≤ y := fun y hy => ((mem_hits t R y).mp (by rw [hh]; simp [hy])).2.1
    have := foldl_min_ge t.first x xs hx hxs
    split at h <;> omega

theorem useg_sorted (t : SN) (R : List Nat) : (useg t R).Pairwise (· < ·) := by
  unfold useg
  cases hits t R with
  | nil => simp
  | cons x xs => exact seg_sorted _ _

theorem reach_nodup (sns : List SN) (col : List Nat) : (reach sns col).Nodup := by
  unfold reach
  induction sns with
  | nil => exact union_nodup [] col List.nodup_nil
  | cons t ts ih =>
    simp only [List.foldr_cons]
    split
    · exact ih
    · exact union_nodup _ _ ih

/-- every reached row comes from the column itself or from the explored list of a supernode -/
theorem mem_reach (sns : List SN) (col : List Nat) (r : Nat) (h : r ∈ reach sns col) :
    r ∈ col ∨ ∃ t ∈ sns, r ∈ t.expl := by
  unfold reach at h
  induction sns with
  | nil => left; simpa [mem_union] using h
  | cons t ts ih =>
    simp only [List.foldr_cons] at h
    split at h
    · rcases ih h with h | ⟨u, hu, hr⟩
      · exact Or.inl h
      · exact Or.inr ⟨u, List.mem_cons_of_mem _ hu, hr⟩
    · rw [mem_union] at h
      rcases h with h | h
      · rcases ih h with h | ⟨u, hu, hr⟩
        · exact Or.inl h
        · exact Or.inr ⟨u, List.mem_cons_of_mem _ hu, hr⟩
      · exact Or.inr ⟨t, by simp, h⟩

/-! ### chains of supernodes -/

/-- newest-first list of supernodes covering exactly the columns `0 .. b-1` -/
def DChain : List SN → Nat → Prop
  | [], b => b = 0
  | t :: rest, b => b = t.last + 1 ∧ t.first ≤ t.last ∧ DChain rest t.first

/-- ascending list of supernodes covering exactly the columns `a .. b-1` -/
def AChain : Nat → List SN → Nat → Prop
  | a, [], b => a = b
  | a, t :: ts, b => t.first = a ∧ a ≤ t.last ∧ AChain (t.last + 1) ts b

theorem achain_snoc (a : Nat) (l : List SN) (t : SN) (mid : Nat) (h : AChain a l mid)
    (h1 : t.first = mid) (h2 : mid ≤ t.last) : AChain a (l ++ [t]) (t.last + 1) := by
  induction l generalizing a with
  | nil => simp only [AChain] at h; subst h; simp [AChain, h1, h2]
  | cons u us ih =>
    obtain ⟨hu1, hu2, hu3⟩ := h
    exact ⟨hu1, hu2, ih _ hu3⟩

theorem dchain_reverse (l : List SN) (b : Nat) (h : DChain l b) : AChain 0 l.reverse b := by
  induction l generalizing b with
  | nil => simp only [DChain] at h; subst h; simp [AChain]
  | cons t rest ih =>
    obtain ⟨hb, h2, h3⟩ := h
    rw [List.reverse_cons, hb]
    exact achain_snoc 0 rest.reverse t t.first (ih _ h3) rfl h2


theorem achain_ab (a : Nat) (asc : List SN) (b : Nat) (h : AChain a asc b) : a ≤ b := by
  induction asc generalizing a with
  | nil => simp only [AChain] at h; omega
  | cons t ts ih => obtain ⟨h1, h2, h3⟩ := h; have := ih _ h3; omega

/-- U rows collected from an ascending chain covering `a .. b-1`: all in `[a, b)`, strictly increasing -/
theorem achain_flat (a : Nat) (asc : List SN) (b : Nat) (R : List Nat) (h : AChain a asc b) :
    (∀ r ∈ asc.flatMap (fun t => useg t R), a ≤ r ∧ r < b) ∧ (asc.flatMap (fun t => useg t R)).Pairwise (· < ·) := by
  induction asc generalizing a with
  | nil => simp
  | cons t ts ih =>
    obtain ⟨h1, h2, h3⟩ := h
    obtain ⟨ih1, ih2⟩ := ih _ h3
    have hab := achain_ab _ _ _ h3
    rw [List.flatMap_cons]
    constructor
    · intro r hr
      rcases List.mem_append.mp hr with hr | hr
      · have := mem_useg t R r hr; omega
      · have := ih1 r hr; omega
    · rw [List.pairwise_append]
      refine ⟨useg_sorted t R, ih2, ?_⟩
      intro x hx y hy
      have := mem_useg t R x hx
      have := ih1 y hy
      omega

theorem ucolOf_spec (l : List SN) (b : Nat) (R : List Nat) (h : DChain l b) :
    (∀ r ∈ ucolOf l R, r < b) ∧ (ucolOf l R).Pairwise (· < ·) := by
  have := achain_flat 0 l.reverse b R (dchain_reverse l b h)
  exact ⟨fun r hr => (this.1 r hr).2, this.2⟩

/-! ### what the run maintains -/

/-- newest-first supernodes `l` covering the columns `0 .. b-1` together with the U row sets `us`
(newest first) of exactly those columns: every U row lies strictly above the column's supernode and
each U column is strictly increasing; row sets are duplicate-free -/
def SInv : List SN → List (List Nat) → Nat → Prop
  | [], us, b => b = 0 ∧ us = []
  | t :: rest, us, b => b = t.last + 1 ∧ t.first ≤ t.last ∧ t.rows.Nodup ∧
      ∃ mine others, us = mine ++ others ∧ mine.length = t.last + 1 - t.first ∧
        (∀ u ∈ mine, (∀ r ∈ u, r < t.first) ∧ u.Pairwise (· < ·)) ∧ SInv rest others t.first

theorem sinv_dchain (l : List SN) (us : List (List Nat)) (b : Nat) (h : SInv l us b) : DChain l b := by
  induction l generalizing us b with
  | nil => exact h.1
  | cons t rest ih =>
    obtain ⟨h1, h2, _, mine, others, _, _, _, h7⟩ := h
    exact ⟨h1, h2, ih _ _ h7⟩

theorem sinv_length (l : List SN) (us : List (List Nat)) (b : Nat) (h : SInv l us b) : us.length = b := by
  induction l generalizing us b with
  | nil => obtain ⟨h1, h2⟩ := h; simp [h1, h2]
  | cons t rest ih =>
    obtain ⟨h1, h2, _, mine, others, h4, h5, _, h7⟩ := h
    have := ih _ _ h7
    rw [h4, List.length_append, h5, this]; omega

theorem sinv_rows_nodup (l : List SN) (us : List (List Nat)) (b : Nat) (h : SInv l us b) : ∀ t ∈ l, t.rows.Nodup := by
  induction l generalizing us b with
  | nil => intro t ht; simp at ht
  | cons t rest ih =>
    obtain ⟨_, _, h3, mine, others, _, _, _, h7⟩ := h
    intro u hu
    rcases List.mem_cons.mp hu with rfl | hu
    · exact h3
    · exact ih _ _ h7 u hu

theorem sinv_ucols_sorted (l : List SN) (us : List (List Nat)) (b : Nat) (h : SInv l us b) : ∀ u ∈ us, u.Pairwise (· < ·) := by
  induction l generalizing us b with
  | nil => intro u hu; rw [h.2] at hu; simp at hu
  | cons t rest ih =>
    obtain ⟨_, _, _, mine, others, h4, _, h6, h7⟩ := h
    intro u hu
    rw [h4] at hu
    rcases List.mem_append.mp hu with hu | hu
    · exact (h6 u hu).2
    · exact ih _ _ h7 u hu

theorem foldl_union_nodup (cols : Nat → List Nat) (is : List Nat) (acc : List Nat) (h : acc.Nodup) :
    (is.foldl (fun acc i => union acc (cols i)) acc).Nodup := by
  induction is generalizing acc with
  | nil => exact h
  | cons i is ih => exact ih _ (union_nodup _ _ h)

theorem sj_nodup (j : Nat) (R : List Nat) (h : R.Nodup) : (j :: R.filter (fun r => decide (j < r))).Nodup := by
  rw [List.nodup_cons]
  refine ⟨?_, h.filter _⟩
  intro hm
  have := (List.mem_filter.mp hm).2
  simp at this

theorem sinv_relaxStep (n : Nat) (cols : Nat → List Nat) (j k : Nat) (st : St) (h : SInv st.sns st.ucols j) :
    SInv (relaxStep n cols j k st).sns (relaxStep n cols j k st).ucols (max j (min k (n - 1)) + 1) := by
  refine ⟨rfl, ?_, ?_, List.replicate (max j (min k (n - 1)) + 1 - j) [], st.ucols, rfl, ?_, ?_, h⟩
  · show j ≤ max j (min k (n - 1)); omega
  · exact foldl_union_nodup cols _ [] List.nodup_nil
  · simp
  · intro u hu
    have : u = [] := (List.mem_replicate.mp hu).2
    subst this; simp

theorem sinv_colStep (maxsuper : Nat) (col : List Nat) (j : Nat) (st : St) (h : SInv st.sns st.ucols j) :
    SInv (colStep maxsuper col j st).sns (colStep maxsuper col j st).ucols (j + 1) := by
  unfold colStep
  cases hs : st.sns with
  | nil =>
    rw [hs] at h
    simp only
    refine ⟨rfl, Nat.le_refl _, sj_nodup _ _ (reach_nodup _ _), [ucolOf [] (reach [] col)], st.ucols, rfl, by simp, ?_, h⟩
    intro u hu
    have : u = [] := by simpa [ucolOf] using hu
    subst this; simp
  | cons t rest =>
    rw [hs] at h
    have hd := sinv_dchain _ _ _ h
    obtain ⟨h1, h2, h3, mine, others, h4, h5, h6, h7⟩ := h
    simp only
    split
    · refine ⟨rfl, by show t.first ≤ j; omega, h3, ucolOf rest (reach (t :: rest) col) :: mine, others, by simp [h4], ?_, ?_, h7⟩
      · show (_ :: mine).length = j + 1 - t.first
        rw [List.length_cons, h5]; omega
      · intro u hu
        rcases List.mem_cons.mp hu with rfl | hu
        · exact ucolOf_spec rest t.first _ (sinv_dchain _ _ _ h7)
        · exact h6 u hu
    · refine ⟨rfl, Nat.le_refl _, sj_nodup _ _ (reach_nodup _ _), [ucolOf (t :: rest) (reach (t :: rest) col)], st.ucols, rfl, by simp, ?_,
        ⟨h1, h2, h3, mine, others, h4, h5, h6, h7⟩⟩
      intro u hu
      have : u = ucolOf (t :: rest) (reach (t :: rest) col) := by simpa using hu
      subst this
      exact ucolOf_spec (t :: rest) j _ hd

/-- state after the columns `0 .. j-1`: the supernodes cover `0 .. e-1` with `j ≤ e ≤ n`
(`e > j` only inside a relaxed supernode) -/
structure Inv (n j : Nat) (st : St) : Prop where
  cover : ∃ e, SInv st.sns st.ucols e ∧ j ≤ e ∧ e ≤ n ∧ (j = 0 → e = 0)

theorem inv_init (n : Nat) : Inv n 0 { sns := [], ucols := [] } :=
  ⟨⟨0, ⟨rfl, rfl⟩, Nat.le_refl _, Nat.zero_le _, fun _ => rfl⟩⟩

/-- a column that starts something new (ordinary column or relaxed supernode) when the supernodes so
far end exactly at `j` -/
theorem inv_new (n maxsuper : Nat) (cols : Nat → List Nat) (relaxEnd : Nat → Option Nat) (j : Nat) (st : St)
    (hj : j < n) (hc : SInv st.sns st.ucols j) :
    Inv n (j + 1) (match relaxEnd j with
      | some k => relaxStep n cols j k st
      | none => colStep maxsuper (cols j) j st) := by
  cases relaxEnd j with
  | some k => exact ⟨⟨_, sinv_relaxStep n cols j k st hc, by omega, by omega, by omega⟩⟩
  | none => exact ⟨⟨_, sinv_colStep maxsuper (cols j) j st hc, Nat.le_refl _, hj, by omega⟩⟩

theorem inv_step (n maxsuper : Nat) (cols : Nat → List Nat) (relaxEnd : Nat → Option Nat) (j : Nat) (st : St)
    (hj : j < n) (h : Inv n j st) : Inv n (j + 1) (step n maxsuper cols relaxEnd st j) := by
  obtain ⟨⟨e, hc, hje, hen, h0⟩⟩ := h
  unfold step
  cases hs : st.sns with
  | nil =>
    simp only
    have he : e = 0 := by rw [hs] at hc; exact hc.1
    subst he
    have : j = 0 := by omega
    subst this
    exact inv_new n maxsuper cols relaxEnd 0 st hj hc
  | cons t rest =>
    simp only
    have he : e = t.last + 1 := by rw [hs] at hc; exact hc.1
    split
    · exact ⟨⟨e, hc, by omega, hen, by omega⟩⟩
    · have hej : e = j := by omega
      subst hej
      exact inv_new n maxsuper cols relaxEnd e st hj hc

theorem inv_foldl (n maxsuper : Nat) (cols : Nat → List Nat) (relaxEnd : Nat → Option Nat) (k : Nat) (hk : k ≤ n) :
    Inv n k ((List.range k).foldl (step n maxsuper cols relaxEnd) { sns := [], ucols := [] }) := by
  induction k with
  | zero => exact inv_init n
  | succ k ih =>
    rw [List.range_succ, List.foldl_append]
    exact inv_step n maxsuper cols relaxEnd k _ (by omega) (ih (by omega))

/-- the finished run satisfies the invariant with every column covered -/
theorem run_sinv (n maxsuper : Nat) (cols : Nat → List Nat) (relaxEnd : Nat → Option Nat) :
    SInv (run n maxsuper cols relaxEnd).sns (run n maxsuper cols relaxEnd).ucols n := by
  obtain ⟨⟨e, hc, hje, hen, _⟩⟩ := inv_foldl n maxsuper cols relaxEnd n (Nat.le_refl _)
  have : e = n := by omega
  subst this
  exact hc

/-- the supernodes of the finished run, in ascending order, cover exactly `0 .. n-1` -/
theorem run_achain (n maxsuper : Nat) (cols : Nat → List Nat) (relaxEnd : Nat → Option Nat) :
    AChain 0 (run n maxsuper cols relaxEnd).sns.reverse n :=
  dchain_reverse _ _ (sinv_dchain _ _ _ (run_sinv n maxsuper cols relaxEnd))

/-! ### consequences of an ascending chain for `xsup` and `supno` -/

/-- `xsup` of an ascending list of supernodes -/
def xsOf (asc : List SN) (n : Nat) : List Nat := asc.map (·.first) ++ [n]

theorem xsOf_cons (t : SN) (ts : List SN) (n : Nat) : xsOf (t :: ts) n = t.first :: xsOf ts n := rfl

theorem achain_head (a : Nat) (asc : List SN) (n : Nat) (h : AChain a asc n) : (xsOf asc n)[0]! = a := by
  cases asc with
  | nil => simp only [AChain] at h; simp [xsOf, h]
  | cons t ts => simp [xsOf_cons, h.1]

theorem achain_last (asc : List SN) (n : Nat) : (xsOf asc n)[asc.length]! = n := by
  induction asc with
  | nil => simp [xsOf]
  | cons t ts ih => rw [xsOf_cons, List.length_cons, List.getElem!_cons_succ]; exact ih

theorem achain_lt (a : Nat) (asc : List SN) (n : Nat) (h : AChain a asc n) :
    ∀ s < asc.length, (xsOf asc n)[s]! < (xsOf asc n)[s + 1]! := by
  induction asc generalizing a with
  | nil => intro s hs; simp at hs
  | cons t ts ih =>
    obtain ⟨h1, h2, h3⟩ := h
    intro s hs
    rw [xsOf_cons]
    cases s with
    | zero =>
      rw [List.getElem!_cons_zero, List.getElem!_cons_succ, achain_head _ _ _ h3]; omega
    | succ s =>
      rw [List.getElem!_cons_succ, List.getElem!_cons_succ]
      exact ih _ h3 s (by simpa using hs)

theorem achain_ge (a : Nat) (asc : List SN) (n : Nat) (h : AChain a asc n) :
    ∀ s ≤ asc.length, a ≤ (xsOf asc n)[s]! := by
  induction asc generalizing a with
  | nil => intro s hs; simp only [AChain] at h; simp at hs; subst hs; simp [xsOf, h]
  | cons t ts ih =>
    obtain ⟨h1, h2, h3⟩ := h
    intro s hs
    rw [xsOf_cons]
    cases s with
    | zero => rw [List.getElem!_cons_zero]; omega
    | succ s =>
      rw [List.getElem!_cons_succ]
      have := ih _ h3 s (by simpa using hs)
      omega

theorem achain_supOf (a : Nat) (asc : List SN) (n : Nat) (h : AChain a asc n) :
    ∀ s < asc.length, ∀ v, (xsOf asc n)[s]! ≤ v → v < (xsOf asc n)[s + 1]! → supOf asc v = s := by
  induction asc generalizing a with
  | nil => intro s hs; simp at hs
  | cons t ts ih =>
    obtain ⟨h1, h2, h3⟩ := h
    intro s hs v hv1 hv2
    rw [xsOf_cons] at hv1 hv2
    unfold supOf
    cases s with
    | zero =>
      rw [List.getElem!_cons_succ, achain_head _ _ _ h3] at hv2
      rw [List.findIdx_cons]
      have : decide (v ≤ t.last) = true := by simp; omega
      simp [this]
    | succ s =>
      rw [List.getElem!_cons_succ] at hv1 hv2
      have hge := achain_ge _ _ _ h3 s (by simp at hs; omega)
      rw [List.findIdx_cons]
      have : decide (v ≤ t.last) = false := by simp; omega
      simp only [this, cond_false]
      have := ih _ h3 s (by simpa using hs) v hv1 hv2
      unfold supOf at this
      omega

theorem achain_le (a : Nat) (asc : List SN) (n : Nat) (h : AChain a asc n) :
    ∀ s ≤ asc.length, (xsOf asc n)[s]! ≤ n := by
  induction asc generalizing a with
  | nil => intro s hs; simp at hs; subst hs; simp [xsOf]
  | cons t ts ih =>
    intro s hs
    have han : a ≤ n := by
      have := achain_ge a (t :: ts) n h (t :: ts).length (Nat.le_refl _)
      rwa [achain_last] at this
    obtain ⟨h1, h2, h3⟩ := h
    rw [xsOf_cons]
    cases s with
    | zero => rw [List.getElem!_cons_zero]; omega
    | succ s => rw [List.getElem!_cons_succ]; exact ih _ h3 s (by simpa using hs)

/-! ### the partition theorem on the predicted structure -/

theorem symbNaive_xsup (n maxsuper : Nat) (cols : Nat → List Nat) (relaxEnd : Nat → Option Nat) :
    (symbNaive n maxsuper cols relaxEnd).xsup = xsOf (run n maxsuper cols relaxEnd).sns.reverse n := rfl

theorem symbNaive_rows_length (n maxsuper : Nat) (cols : Nat → List Nat) (relaxEnd : Nat → Option Nat) :
    (symbNaive n maxsuper cols relaxEnd).rows.length = (run n maxsuper cols relaxEnd).sns.reverse.length := by
  simp [symbNaive, outOf]

theorem range_map_get (n : Nat) (f : Nat → Nat) (i : Nat) (h : i < n) : ((List.range n).map f)[i]! = f i := by
  rw [List.getElem!_eq_getElem?_getD, List.getElem?_map, List.getElem?_range h]; rfl

/-- **partition (list form).**  For every input: `xsup` has one entry per supernode plus one, starts at
0, ends at `n`, is strictly increasing (consecutive non-empty ranges), and `supno` maps every column of
range `s` to `s`. -/
theorem symbNaive_partition_list (n maxsuper : Nat) (cols : Nat → List Nat) (relaxEnd : Nat → Option Nat) :
    let o := symbNaive n maxsuper cols relaxEnd
    o.xsup.length = o.rows.length + 1 ∧ o.supno.length = n ∧ o.ucols.length = n ∧
    o.xsup[0]! = 0 ∧ o.xsup[o.rows.length]! = n ∧
    (∀ s < o.rows.length, o.xsup[s]! < o.xsup[s + 1]!) ∧
    (∀ s < o.rows.length, ∀ c < o.xsup[s + 1]! - o.xsup[s]!, o.supno[o.xsup[s]! + c]! = s) := by
  intro o
  have hch := run_achain n maxsuper cols relaxEnd
  have hx : o.xsup = xsOf (run n maxsuper cols relaxEnd).sns.reverse n := rfl
  have hr : o.rows.length = (run n maxsuper cols relaxEnd).sns.reverse.length := symbNaive_rows_length ..
  refine ⟨?_, ?_, ?_, ?_, ?_, ?_, ?_⟩
  · rw [hx, hr]; simp [xsOf]
  · simp [o, symbNaive, outOf]
  · have := sinv_length _ _ _ (run_sinv n maxsuper cols relaxEnd)
    simp [o, symbNaive, outOf, this]
  · rw [hx]; exact achain_head _ _ _ hch
  · rw [hx, hr]; exact achain_last _ _
  · rw [hx, hr]; exact achain_lt _ _ _ hch
  · intro s hs c hc
    rw [hr] at hs
    rw [hx] at hc ⊢
    have hle := achain_le _ _ _ hch (s + 1) (by omega)
    have hsup : o.supno = (List.range n).map (supOf (run n maxsuper cols relaxEnd).sns.reverse) := rfl
    rw [hsup, range_map_get _ _ _ (by omega)]
    exact achain_supOf _ _ _ hch s hs _ (by omega) (by omega)


/-! ### row lists -/

theorem getElem!_mem_of_lt {α : Type} [Inhabited α] (l : List α) (i : Nat) (h : i < l.length) : l[i]! ∈ l := by
  rw [List.getElem!_eq_getElem?_getD, List.getElem?_eq_getElem h]; exact List.getElem_mem h

theorem getElem!_map_of_lt {α β : Type} [Inhabited α] [Inhabited β] (f : α → β) (l : List α) (i : Nat) (h : i < l.length) :
    (l.map f)[i]! = f l[i]! := by
  rw [List.getElem!_eq_getElem?_getD, List.getElem?_map, List.getElem!_eq_getElem?_getD, List.getElem?_eq_getElem h]; rfl

theorem achain_first_next (a : Nat) (asc : List SN) (n : Nat) (h : AChain a asc n) :
    ∀ s < asc.length, (xsOf asc n)[s]! = asc[s]!.first ∧ (xsOf asc n)[s + 1]! = asc[s]!.last + 1 := by
  induction asc generalizing a with
  | nil => intro s hs; simp at hs
  | cons t ts ih =>
    obtain ⟨h1, h2, h3⟩ := h
    intro s hs
    rw [xsOf_cons]
    cases s with
    | zero =>
      rw [List.getElem!_cons_zero, List.getElem!_cons_succ, achain_head _ _ _ h3, List.getElem!_cons_zero]
      exact ⟨rfl, rfl⟩
    | succ s =>
      rw [List.getElem!_cons_succ, List.getElem!_cons_succ, List.getElem!_cons_succ]
      exact ih _ h3 s (by simpa using hs)

/-- **row lists.**  For every input and every predicted supernode `s = [f .. f+w-1]`: the row list has at
least `w` entries, its leading `w` entries are `f, f+1, …` in order, the remaining entries are distinct
rows strictly below the supernode. -/
theorem symbNaive_rows_list (n maxsuper : Nat) (cols : Nat → List Nat) (relaxEnd : Nat → Option Nat) :
    let o := symbNaive n maxsuper cols relaxEnd
    ∀ s < o.rows.length,
      o.xsup[s + 1]! - o.xsup[s]! ≤ (o.rows[s]!).length ∧
      (∀ c < o.xsup[s + 1]! - o.xsup[s]!, (o.rows[s]!)[c]! = o.xsup[s]! + c) ∧
      (∀ r ∈ (o.rows[s]!).drop (o.xsup[s + 1]! - o.xsup[s]!), o.xsup[s + 1]! - 1 < r) ∧
      ((o.rows[s]!).drop (o.xsup[s + 1]! - o.xsup[s]!)).Nodup := by
  intro o s hs
  have hch := run_achain n maxsuper cols relaxEnd
  have hinv := run_sinv n maxsuper cols relaxEnd
  have hx : o.xsup = xsOf (run n maxsuper cols relaxEnd).sns.reverse n := rfl
  have hr : o.rows = (run n maxsuper cols relaxEnd).sns.reverse.map rowList := rfl
  have hs' : s < (run n maxsuper cols relaxEnd).sns.reverse.length := by rw [hr] at hs; simpa using hs
  obtain ⟨hf, hl⟩ := achain_first_next _ _ _ hch s hs'
  rw [hx, hf, hl, hr, getElem!_map_of_lt _ _ _ hs']
  generalize htdef : (run n maxsuper cols relaxEnd).sns.reverse[s]! = t
  have htm : t ∈ (run n maxsuper cols relaxEnd).sns := by
    rw [← htdef]; exact List.mem_reverse.mp (getElem!_mem_of_lt _ _ hs')
  have hnd := sinv_rows_nodup _ _ _ hinv t htm
  have hlen : (seg t.first t.last).length = t.last + 1 - t.first := seg_length _ _
  unfold rowList
  refine ⟨by rw [List.length_append, hlen]; omega, ?_, ?_, ?_⟩
  · intro c hc
    rw [List.getElem!_eq_getElem?_getD, List.getElem?_append_left (by rw [hlen]; exact hc),
      ← List.getElem!_eq_getElem?_getD, seg_get _ _ _ hc]
  · rw [List.drop_left' hlen]
    intro r hr'
    have := (List.mem_filter.mp hr').2
    simp at this; omega
  · rw [List.drop_left' hlen]
    exact hnd.filter _


/-! ### U columns -/

/-- ascending supernodes with the U row sets of their columns (ascending): all rows of a column lie
strictly above the column's supernode -/
def AUInv : List SN → List (List Nat) → Prop
  | [], us => us = []
  | t :: ts, us => ∃ mine others, us = mine ++ others ∧ mine.length = t.last + 1 - t.first ∧
      (∀ u ∈ mine, ∀ r ∈ u, r < t.first) ∧ AUInv ts others

theorem auinv_snoc (asc : List SN) (U : List (List Nat)) (t : SN) (mine : List (List Nat)) (h : AUInv asc U)
    (hl : mine.length = t.last + 1 - t.first) (hb : ∀ u ∈ mine, ∀ r ∈ u, r < t.first) : AUInv (asc ++ [t]) (U ++ mine) := by
  induction asc generalizing U with
  | nil => simp only [AUInv] at h; subst h; exact ⟨mine, [], by simp, hl, hb, rfl⟩
  | cons u us ih =>
    obtain ⟨m', o', h1, h2, h3, h4⟩ := h
    exact ⟨m', o' ++ mine, by rw [h1, List.append_assoc], h2, h3, ih _ h4⟩

theorem sinv_auinv (l : List SN) (us : List (List Nat)) (b : Nat) (h : SInv l us b) : AUInv l.reverse us.reverse := by
  induction l generalizing us b with
  | nil => obtain ⟨_, h2⟩ := h; subst h2; rfl
  | cons t rest ih =>
    obtain ⟨_, _, _, mine, others, h4, h5, h6, h7⟩ := h
    rw [h4, List.reverse_append, List.reverse_cons]
    exact auinv_snoc _ _ t mine.reverse (ih _ _ h7) (by rw [List.length_reverse, h5])
      (fun u hu r hr => (h6 u (List.mem_reverse.mp hu)).1 r hr)

theorem auinv_get (a : Nat) (asc : List SN) (n : Nat) (U : List (List Nat)) (hc : AChain a asc n) (hu : AUInv asc U) :
    ∀ v, a ≤ v → v < n → ∀ r ∈ U[v - a]!, r < (xsOf asc n)[supOf asc v]! := by
  induction asc generalizing a U with
  | nil => intro v h1 h2; simp only [AChain] at hc; omega
  | cons t ts ih =>
    obtain ⟨h1, h2, h3⟩ := hc
    obtain ⟨mine, others, e1, e2, e3, e4⟩ := hu
    intro v hv1 hv2 r hr
    unfold supOf
    rw [List.findIdx_cons, xsOf_cons]
    by_cases hle : v ≤ t.last
    · have : decide (v ≤ t.last) = true := by simpa using hle
      simp only [this, cond_true]
      rw [List.getElem!_cons_zero]
      have hlt : v - a < mine.length := by omega
      rw [e1, List.getElem!_eq_getElem?_getD, List.getElem?_append_left hlt, ← List.getElem!_eq_getElem?_getD] at hr
      exact e3 _ (getElem!_mem_of_lt _ _ hlt) r hr
    · have : decide (v ≤ t.last) = false := by simpa using hle
      simp only [this, cond_false]
      rw [List.getElem!_cons_succ]
      have hge : mine.length ≤ v - a := by omega
      rw [e1, List.getElem!_eq_getElem?_getD, List.getElem?_append_right hge, ← List.getElem!_eq_getElem?_getD] at hr
      have hidx : v - a - mine.length = v - (t.last + 1) := by omega
      rw [hidx] at hr
      exact ih _ _ h3 e4 v (by omega) hv2 r hr

/-- **U columns.**  For every input and every column `j`: the predicted U rows lie strictly above the
column's supernode and are strictly increasing (so: no repeats). -/
theorem symbNaive_ucols_list (n maxsuper : Nat) (cols : Nat → List Nat) (relaxEnd : Nat → Option Nat) :
    let o := symbNaive n maxsuper cols relaxEnd
    ∀ j < n, (∀ r ∈ o.ucols[j]!, r < o.xsup[o.supno[j]!]!) ∧ (o.ucols[j]!).Pairwise (· < ·) := by
  intro o j hj
  have hch := run_achain n maxsuper cols relaxEnd
  have hinv := run_sinv n maxsuper cols relaxEnd
  have hx : o.xsup = xsOf (run n maxsuper cols relaxEnd).sns.reverse n := rfl
  have hu : o.ucols = (run n maxsuper cols relaxEnd).ucols.reverse := rfl
  have hsup : o.supno = (List.range n).map (supOf (run n maxsuper cols relaxEnd).sns.reverse) := rfl
  constructor
  · intro r hr
    rw [hsup, range_map_get _ _ _ hj, hx]
    have := auinv_get 0 _ n _ hch (sinv_auinv _ _ _ hinv) j (Nat.zero_le _) hj r
    exact this (by simpa [hu] using hr)
  · have hlen : j < o.ucols.length := by rw [hu, List.length_reverse, sinv_length _ _ _ hinv]; exact hj
    have hm := getElem!_mem_of_lt o.ucols j hlen
    rw [hu] at hm ⊢
    exact sinv_ucols_sorted _ _ _ hinv _ (List.mem_reverse.mp hm)


/-! ### all predicted rows are `< m` when the input's rows are and `n ≤ m` -/

def RowsLt (m : Nat) (sns : List SN) : Prop := ∀ t ∈ sns, (∀ r ∈ t.rows, r < m) ∧ (∀ r ∈ t.expl, r < m)

theorem foldl_union_mem (cols : Nat → List Nat) (is : List Nat) (acc : List Nat) (x : Nat)
    (h : x ∈ is.foldl (fun acc i => union acc (cols i)) acc) : x ∈ acc ∨ ∃ i ∈ is, x ∈ cols i := by
  induction is generalizing acc with
  | nil => exact Or.inl h
  | cons i is ih =>
    rcases ih _ h with h | ⟨k, hk, hx⟩
    · rcases (mem_union _ _ _).mp h with h | h
      · exact Or.inl h
      · exact Or.inr ⟨i, by simp, h⟩
    · exact Or.inr ⟨k, by simp [hk], hx⟩

theorem rowsLt_step (m n maxsuper : Nat) (cols : Nat → List Nat) (relaxEnd : Nat → Option Nat) (hnm : n ≤ m)
    (hcols : ∀ j < n, ∀ r ∈ cols j, r < m) (j : Nat) (hj : j < n) (st : St) (h : RowsLt m st.sns) :
    RowsLt m (step n maxsuper cols relaxEnd st j).sns := by
  have hrelax : ∀ k, RowsLt m (relaxStep n cols j k st).sns := by
    intro k t ht
    rcases List.mem_cons.mp ht with rfl | ht
    · have hall : ∀ r ∈ (seg j (max j (min k (n - 1)))).foldl (fun acc i => union acc (cols i)) [], r < m := by
        intro r hr
        rcases foldl_union_mem cols _ [] r hr with h0 | ⟨i, hi, hx⟩
        · simp at h0
        · have := (mem_seg _ _ _).mp hi
          exact hcols i (by omega) r hx
      exact ⟨hall, hall⟩
    · exact h t ht
  have hcol : RowsLt m (colStep maxsuper (cols j) j st).sns := by
    have hsj : ∀ r ∈ j :: (reach st.sns (cols j)).filter (fun r => decide (j < r)), r < m := by
      intro r hr
      rcases List.mem_cons.mp hr with rfl | hr
      · omega
      · rcases mem_reach _ _ _ (List.mem_filter.mp hr).1 with hc | ⟨t, ht, he⟩
        · exact hcols j hj r hc
        · exact (h t ht).2 r he
    unfold colStep
    cases hs : st.sns with
    | nil =>
      intro t ht
      have : t = _ := List.mem_singleton.mp ht
      subst this
      rw [hs] at hsj
      exact ⟨hsj, hsj⟩
    | cons u rest =>
      rw [hs] at hsj h
      simp only
      split
      · intro t ht
        rcases List.mem_cons.mp ht with rfl | ht
        · exact ⟨(h u (by simp)).1, hsj⟩
        · exact h t (by simp [ht])
      · intro t ht
        rcases List.mem_cons.mp ht with rfl | ht
        · exact ⟨hsj, hsj⟩
        · exact h t ht
  unfold step
  cases hs : st.sns with
  | nil =>
    simp only
    cases relaxEnd j with
    | some k => exact hrelax k
    | none => exact hcol
  | cons t rest =>
    simp only
    split
    · exact h
    · cases relaxEnd j with
      | some k => exact hrelax k
      | none => exact hcol

theorem rowsLt_run (m n maxsuper : Nat) (cols : Nat → List Nat) (relaxEnd : Nat → Option Nat) (hnm : n ≤ m)
    (hcols : ∀ j < n, ∀ r ∈ cols j, r < m) : RowsLt m (run n maxsuper cols relaxEnd).sns := by
  have : ∀ k ≤ n, RowsLt m ((List.range k).foldl (step n maxsuper cols relaxEnd) { sns := [], ucols := [] }).sns := by
    intro k hk
    induction k with
    | zero => intro t ht; simp at ht
    | succ k ih =>
      rw [List.range_succ, List.foldl_append]
      exact rowsLt_step m n maxsuper cols relaxEnd hnm hcols k (by omega) _ (ih (by omega))
  exact this n (Nat.le_refl _)

/-- **rows in range.**  If every row index of the input is `< m` and `n ≤ m`, every predicted row is `< m`. -/
theorem symbNaive_rows_lt (m n maxsuper : Nat) (cols : Nat → List Nat) (relaxEnd : Nat → Option Nat) (hnm : n ≤ m)
    (hcols : ∀ j < n, ∀ r ∈ cols j, r < m) :
    let o := symbNaive n maxsuper cols relaxEnd
    ∀ s < o.rows.length, ∀ r ∈ o.rows[s]!, r < m := by
  intro o s hs r hr
  have hch := run_achain n maxsuper cols relaxEnd
  have hr' : o.rows = (run n maxsuper cols relaxEnd).sns.reverse.map rowList := rfl
  have hs' : s < (run n maxsuper cols relaxEnd).sns.reverse.length := by rw [hr'] at hs; simpa using hs
  obtain ⟨_, hl⟩ := achain_first_next _ _ _ hch s hs'
  have hle := achain_le _ _ _ hch (s + 1) (by omega)
  rw [hl] at hle
  rw [hr', getElem!_map_of_lt _ _ _ hs'] at hr
  generalize htdef : (run n maxsuper cols relaxEnd).sns.reverse[s]! = t at hr hle
  have htm : t ∈ (run n maxsuper cols relaxEnd).sns := by
    rw [← htdef]; exact List.mem_reverse.mp (getElem!_mem_of_lt _ _ hs')
  unfold rowList at hr
  rcases List.mem_append.mp hr with hr | hr
  · have := (mem_seg _ _ _).mp hr; omega
  · exact (rowsLt_run m n maxsuper cols relaxEnd hnm hcols t htm).1 r (List.mem_filter.mp hr).1

end Slu.Symb
