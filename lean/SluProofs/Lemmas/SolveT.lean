import SluProofs.Lemmas.Solve
/-
Abstract triangular back substitution (`Slu.LU.triBack`) and the transposed solve (`gstrsT`).
-/
namespace Slu.LU
open Slu Finset

variable {K : Type} [Field K]

theorem triBack_length (M : Nat → Nat → K) (y : Nat → K) (n k : Nat) : (triBack M y n k).length = k := by
  induction k with
  | zero => simp [triBack]
  | succ k ih => simp [triBack, ih]

/-- `Σ_{t ≤ t' < k} M(j, n-k+t') z_{n-k+t'} = y_j` for `j = n-k+t` -/
theorem triBack_spec (M : Nat → Nat → K) (y : Nat → K) (n : Nat) (hd : ∀ j < n, M j j ≠ 0)
    (k : Nat) (hk : k ≤ n) (t : Nat) (ht : t < k) :
    ∑ t' ∈ range (k - t), M (n - k + t) (n - k + t + t') * (triBack M y n k).getD (t + t') 0 = y (n - k + t) := by
  induction k generalizing t with
  | zero => omega
  | succ k ih =>
    cases t with
    | zero =>
      simp only [triBack, Nat.add_zero, Nat.zero_add, Nat.sub_zero]
      rw [Finset.sum_range_succ']
      simp only [Nat.add_zero, List.getD_cons_zero, List.getD_cons_succ]
      rw [foldl_sub]
      have hne := hd (n - (k + 1)) (by omega)
      have hidx : ∀ t', M (n - (k + 1)) (n - (k + 1) + (t' + 1)) = M (n - (k + 1)) (n - (k + 1) + 1 + t') := by
        intro t'; congr 1; omega
      simp only [hidx]
      field_simp
      ring
    | succ t =>
      have h := ih (by omega) t (by omega)
      have e1 : n - (k + 1) + (t + 1) = n - k + t := by omega
      have e2 : k + 1 - (t + 1) = k - t := by omega
      rw [e2]
      simp only [triBack]
      have : ∀ (z0 : K) t', (z0 :: triBack M y n k).getD (t + 1 + t') 0 = (triBack M y n k).getD (t + t') 0 := by
        intro z0 t'
        have : t + 1 + t' = (t + t') + 1 := by omega
        rw [this, List.getD_cons_succ]
      simp only [this, e1]
      exact h

/-- the full solve in index form: `Σ_{j ≤ j' < n} M j j' z_j' = y j` -/
theorem triBack_solves (M : Nat → Nat → K) (y : Nat → K) (n : Nat) (hd : ∀ j < n, M j j ≠ 0) (j : Nat) (hj : j < n) :
    ∑ j' ∈ Ico j n, M j j' * (triBack M y n n).getD j' 0 = y j := by
  have := triBack_spec M y n hd n (le_refl _) j hj
  simp only [Nat.sub_self, Nat.zero_add] at this
  rw [Finset.sum_Ico_eq_sum_range]
  exact this

end Slu.LU
