import SluProofs.Lemmas.Solve
import Mathlib.Algebra.Ring.Hom.Defs
import Mathlib.Algebra.GroupWithZero.Units.Lemmas
/-
Abstract triangular back substitution (`Slu.LU.triBack`) and the transposed solve (`gstrsT`).
-/
namespace Slu.LU
open Slu Finset

variable {K : Type} [Field K]

theorem triBack_length (M : Nat → Nat → K) (y : Nat → K) (n k : Nat) : (triBack M y n k).length = k := by
  induction k with
  | zero => simp [triBack]
  | succ k ih => simp [triBack, ih]

/-- `Σ_{t ≤ t' < k} M(j, n-k+t') z_{n-k+t'} = y_j` for `j = n-k+t` -/
theorem triBack_spec (M : Nat → Nat → K) (y : Nat → K) (n : Nat) (hd : ∀ j < n, M j j ≠ 0)
    (k : Nat) (hk : k ≤ n) (t : Nat) (ht : t < k) :
    ∑ t' ∈ range (k - t), M (n - k + t) (n - k + t + t') * (triBack M y n k).getD (t + t') 0 = y (n - k + t) := by
  induction k generalizing t with
  | zero => omega
  | succ k ih =>
    cases t with
    | zero =>
      simp only [triBack, Nat.add_zero, Nat.zero_add, Nat.sub_zero]
      rw [Finset.sum_range_succ']
      simp only [Nat.add_zero, List.getD_cons_zero, List.getD_cons_succ]
      rw [foldl_sub]
      have hne := hd (n - (k + 1)) (by omega)
      have hidx : ∀ t', M (n - (k + 1)) (n - (k + 1) + (t' + 1)) = M (n - (k + 1)) (n - (k + 1) + 1 + t') := by
        intro t'; congr 1; omega
      simp only [hidx]
      field_simp
      ring
    | succ t =>
      have h := ih (by omega) t (by omega)
      have e1 : n - (k + 1) + (t + 1) = n - k + t := by omega
      have e2 : k + 1 - (t + 1) = k - t := by omega
      rw [e2]
      simp only [triBack]
      have : ∀ (z0 : K) t', (z0 :: triBack M y n k).getD (t + 1 + t') 0 = (triBack M y n k).getD (t + t') 0 := by
        intro z0 t'
        have : t + 1 + t' = (t + t') + 1 := by omega
        rw [this, List.getD_cons_succ]
      simp only [this, e1]
      exact h

/-- the full solve in index form: `Σ_{j ≤ j' < n} M j j' z_j' = y j` -/
theorem triBack_solves (M : Nat → Nat → K) (y : Nat → K) (n : Nat) (hd : ∀ j < n, M j j ≠ 0) (j : Nat) (hj : j < n) :
    ∑ j' ∈ Ico j n, M j j' * (triBack M y n n).getD j' 0 = y j := by
  have := triBack_spec M y n hd n (le_refl _) j hj
  simp only [Nat.sub_self, Nat.zero_add] at this
  rw [Finset.sum_Ico_eq_sum_range]
  exact this

end Slu.LU

namespace Slu.LU
open Slu Finset

section
variable {K : Type} [Field K]

/-- inverse lookup by `find?` for a map that is injective on `0..n-1` -/
theorem find_inv (g : Nat → Nat) (n : Nat) (hinj : ∀ a < n, ∀ b < n, g a = g b → a = b) (c : Nat) (hc : c < n) :
    ((List.range n).find? fun c' => g c' = g c).getD 0 = c := by
  have : (List.range n).find? (fun c' => decide (g c' = g c)) = some c := by
    rw [List.find?_range_eq_some]
    refine ⟨by simp, by simpa using hc, ?_⟩
    intro j hj
    simp only [Bool.not_eq_true', decide_eq_false_iff_not]
    intro h
    have := hinj j (by omega) c hc h
    omega
  rw [this]; rfl

theorem getD_inj_of_nodup (piv : Array Nat) (hnd : piv.toList.Nodup) (a b : Nat) (ha : a < piv.size)
    (hb : b < piv.size) (hab : piv.getD a 0 = piv.getD b 0) : a = b := by
  have ha' : a < piv.toList.length := by simpa using ha
  have hb' : b < piv.toList.length := by simpa using hb
  have e : piv.toList[a] = piv.toList[b] := by
    have h1 : piv.getD a 0 = piv.toList[a] := by simp [Array.getD, ha]
    have h2 : piv.getD b 0 = piv.toList[b] := by simp [Array.getD, hb]
    simpa [h1, h2] using hab
  exact (List.Nodup.getElem_inj_iff hnd).mp e

/-- index form of `UnitLower` -/
theorem unitLower_index (Ls : List (Nat × Vec K)) (hU : UnitLower Ls) (a : Nat) (x : Nat × Vec K) (hx : Ls[a]? = some x) :
    x.2.get x.1 = 1 ∧ ∀ (a' : Nat) (y : Nat × Vec K), a' < a → Ls[a']? = some y → x.2.get y.1 = 0 := by
  induction Ls generalizing a with
  | nil => simp at hx
  | cons pl rest ih =>
    obtain ⟨p, l⟩ := pl
    obtain ⟨h1, h2, h3⟩ := hU
    cases a with
    | zero =>
      simp at hx; subst hx
      exact ⟨h1, fun a' y ha' _ => by omega⟩
    | succ a =>
      simp at hx
      have := ih h3 a hx
      refine ⟨this.1, ?_⟩
      intro a' y ha' hy
      cases a' with
      | zero => simp at hy; subst hy; exact h2 x (List.mem_of_getElem? hx)
      | succ a' => simp at hy; exact this.2 a' y (by omega) hy
end

/-- the transposed solve returns a vector with one entry per pivot (= per row of a square matrix) -/
theorem gstrsT_size {K : Type} [Field K] (f : K → K) (piv : Array Nat) (L : Array (Vec K)) (U : Array (Array K))
    (permC : Array Nat) (b : Vec K) : (gstrsT f piv L U permC b).size = piv.size := by
  simp [gstrsT]

variable {K : Type} [Field K] [Mag K Rat]

/-- **The transposed / conjugate-transposed solve is correct (exact arithmetic, square case).**
For a ring homomorphism `f` (the identity for TRANS, conjugation for CONJ): if the invariant of C02
holds for all `n = m` columns then, for every column permutation `permC` (a rearrangement of
`0..n-1`) and every right-hand side `b`, `x = gstrsT f piv L U permC b` satisfies, for every column
`c` of A, `Σ_i f (A(i,c)) * x_i = b_c`, where column `c` of A is column `permC[c]` of the factored
matrix `A*Pc` — i.e. `op(A)ᵀ x = b`. -/
theorem gstrsT_solves (f : K →+* K) (P : Params K Rat) (st : St K) (hsq : P.m = P.n) (inv : Inv P st P.n)
    (permC : Array Nat)
    (hperm : ((List.range P.n).map fun c => permC.getD c 0).Perm (List.range P.n))
    (b : Vec K) (c : Nat) (hc : c < P.n) :
    ∑ i ∈ range P.m, f ((P.col (permC.getD c 0)).get i) * (gstrsT f st.piv st.L st.U permC b).get i = b.get c := by
  obtain ⟨hs1, hs2, hs3⟩ := inv.sizes
  rw [hsq]
  set n := P.n with hn
  -- abbreviations
  let piv : Nat → Nat := fun k => st.piv.getD k 0
  let Lf : Nat → Nat → K := fun k i => (st.L.getD k #[]).get i
  let Uf : Nat → Nat → K := fun j k => (st.U.getD j #[]).getD k 0
  let cp : Nat → K := fun j => b.get (((List.range n).find? fun c => permC.getD c 0 = j).getD 0)
  let M1 : Nat → Nat → K := fun a a' => f (Uf (n - 1 - a) (n - 1 - a'))
  let zs := triBack M1 (fun a => cp (n - 1 - a)) n n
  let t : Nat → K := fun k => zs.getD (n - 1 - k) 0
  let M2 : Nat → Nat → K := fun k k' => if k = k' then 1 else f (Lf k (piv k'))
  let xi := triBack M2 t n n
  have hx : ∀ i < n, (gstrsT f st.piv st.L st.U permC b).get i
      = xi.getD (((List.range n).find? fun k => piv k = i).getD 0) 0 := by
    intro i hi
    simp only [gstrsT, Vec.get, hs1]
    simp [hi, Array.getD]
    rfl
  -- permutations are injective
  have hpinj : ∀ a < n, ∀ a' < n, permC.getD a 0 = permC.getD a' 0 → a = a' := by
    intro a ha a' ha' h
    have hnd : ((List.range n).map fun c => permC.getD c 0).Nodup := (hperm.nodup_iff).mpr List.nodup_range
    exact List.inj_on_of_nodup_map hnd (List.mem_range.mpr ha) (List.mem_range.mpr ha') h
  have hjn : permC.getD c 0 < n := by
    have : permC.getD c 0 ∈ (List.range n).map fun c => permC.getD c 0 :=
      List.mem_map.mpr ⟨c, List.mem_range.mpr hc, rfl⟩
    exact List.mem_range.mp (hperm.mem_iff.mp this)
  have hpivinj : ∀ a < n, ∀ a' < n, piv a = piv a' → a = a' := by
    intro a ha a' ha' h
    exact getD_inj_of_nodup st.piv inv.nodup a a' (by omega) (by omega) h
  have hpivlt : ∀ k < n, piv k < n := fun k hk => by rw [← hsq]; exact inv.prange k hk
  -- step 1: the permuted right-hand side
  have hcp : cp (permC.getD c 0) = b.get c := by
    show b.get _ = b.get c
    rw [find_inv (fun c => permC.getD c 0) n hpinj c hc]
  -- step 4: the scatter by pivot rows
  have hxpiv : ∀ k < n, (gstrsT f st.piv st.L st.U permC b).get (piv k) = xi.getD k 0 := by
    intro k hk
    rw [hx _ (hpivlt k hk), find_inv piv n hpivinj k hk]
  -- step 2: op(U)ᵀ t = c'
  have hU : ∀ k < n, ∑ k' ∈ range (k + 1), f (Uf k k') * t k' = cp k := by
    intro k hk
    have hd : ∀ j < n, M1 j j ≠ 0 := fun j hj => (map_ne_zero f).mpr (inv.udiag _ (by omega))
    have := triBack_solves M1 (fun a => cp (n - 1 - a)) n hd (n - 1 - k) (by omega)
    have e : n - 1 - (n - 1 - k) = k := by omega
    simp only [e] at this
    rw [← this]
    apply Finset.sum_nbij' (fun k' => n - 1 - k') (fun a => n - 1 - a)
    · intro a ha; simp only [mem_range, mem_Ico] at ha ⊢; omega
    · intro a ha; simp only [mem_range, mem_Ico] at ha ⊢; omega
    · intro a ha; simp only [mem_range] at ha; omega
    · intro a ha; simp only [mem_Ico] at ha; omega
    · intro a ha
      simp only [mem_range] at ha
      have e' : n - 1 - (n - 1 - a) = a := by omega
      show f (Uf k a) * t a = f (Uf (n - 1 - (n - 1 - k)) (n - 1 - (n - 1 - a))) * zs.getD (n - 1 - a) 0
      rw [e', e]
  -- step 3: op(L)ᵀ ξ = t in pivot order
  have hL : ∀ k < n, ∑ k' ∈ range n, f (Lf k (piv k')) * xi.getD k' 0 = t k := by
    intro k hk
    have := triBack_solves M2 t n (fun j _ => by simp [M2]) k hk
    rw [← this]
    have hget : ∀ a < n, (prev st n)[a]? = some (piv a, st.L.getD a #[]) := by
      intro a ha; simp [prev, ha, piv]
    have hunit := unitLower_index _ inv.unit k _ (hget k hk)
    rw [← Finset.sum_subset (s₁ := Ico k n) (s₂ := range n)]
    · apply Finset.sum_congr rfl
      intro k' hk'
      simp only [mem_Ico] at hk'
      by_cases e : k = k'
      · subst e
        simp only [M2, if_true]
        show f ((st.L.getD k #[]).get (piv k)) * _ = _
        rw [hunit.1, map_one]
      · simp only [M2, if_neg e]
        rfl
    · intro a ha; simp only [mem_range, mem_Ico] at ha ⊢; omega
    · intro k' hk' hnot
      simp only [mem_range, mem_Ico] at hk' hnot
      have hlt : k' < k := by omega
      have h0 := hunit.2 k' _ hlt (hget k' hk')
      show f ((st.L.getD k #[]).get (piv k')) * _ = 0
      rw [h0, map_zero, zero_mul]
  -- LU identity in every column
  have hid : ∀ j < n, ∀ i < n, (P.col j).get i = ∑ k ∈ range (j + 1), Uf j k * Lf k i := by
    intro j hj i hi
    rw [inv.ident j hj i (by rw [hsq]; exact hi),
      dotL_prev _ _ (j + 1) i (by rw [Array.length_toList]; exact inv.usize j hj), list_sum_range]
    apply Finset.sum_congr rfl
    intro t _
    congr 1
    show _ = (st.U.getD j #[]).getD t 0
    generalize st.U.getD j #[] = a
    by_cases ht : t < a.size <;> simp [Array.getD, List.getD, ht]
  -- step 5
  set j := permC.getD c 0 with hj
  rw [← hcp, ← hU j hjn]
  calc ∑ i ∈ range n, f ((P.col j).get i) * (gstrsT f st.piv st.L st.U permC b).get i
      = ∑ k' ∈ range n, f ((P.col j).get (piv k')) * xi.getD k' 0 := by
        symm
        apply Finset.sum_nbij piv
        · intro a ha; simp only [mem_range] at ha ⊢; exact hpivlt a ha
        · intro a ha a' ha' h
          simp only [coe_range, Set.mem_Iio] at ha ha'
          exact hpivinj a ha a' ha' h
        · intro i hi
          simp only [coe_range, Set.mem_Iio, Set.mem_image] at hi ⊢
          obtain ⟨k, hk, hki⟩ := pivots_cover st.piv n hs1 inv.nodup hpivlt i hi
          exact ⟨k, hk, hki⟩
        · intro a ha
          simp only [mem_range] at ha
          rw [hxpiv a ha]
    _ = ∑ k' ∈ range n, ∑ k ∈ range (j + 1), f (Uf j k) * (f (Lf k (piv k')) * xi.getD k' 0) := by
        apply Finset.sum_congr rfl
        intro k' hk'
        simp only [mem_range] at hk'
        rw [hid j hjn (piv k') (hpivlt k' hk'), map_sum, Finset.sum_mul]
        apply Finset.sum_congr rfl
        intro k _
        rw [map_mul, mul_assoc]
    _ = ∑ k ∈ range (j + 1), ∑ k' ∈ range n, f (Uf j k) * (f (Lf k (piv k')) * xi.getD k' 0) := Finset.sum_comm
    _ = ∑ k ∈ range (j + 1), f (Uf j k) * t k := by
        apply Finset.sum_congr rfl
        intro k hk
        simp only [mem_range] at hk
        rw [← Finset.mul_sum, hL k (by omega)]
end Slu.LU
