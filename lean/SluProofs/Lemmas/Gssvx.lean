import Slu.Model.Gssvx
import SluProofs.Lemmas.RatBasic
import SluProofs.Lemmas.CxRing
import Mathlib.Algebra.BigOperators.Ring.List
/-
Helper lemmas for C05: the algebra that ties `Mag.rscale` / `HasConj.conj` to a commutative ring
(`ScalarLaws`, instances for `Rat` and `Cx Rat`), the mathematical reading `opMul` of a stored entry
list acting on a vector, how it commutes with row / column scalings, and index lemmas for the
column-major arrays B and X.
-/
set_option linter.unusedSectionVars false
set_option linter.unnecessarySeqFocus false
namespace Slu.Gssvx
open Slu Slu.Equil Slu.Lacon

/-! ### scalars -/

/-- laws of the real scaling `x * r` (`zd_mult`) and of conjugation -/
class ScalarLaws (K : Type) [CommRing K] [Mag K Rat] [HasConj K] : Prop where
  rscale_eq : ∀ (x : K) (r : Rat), Mag.rscale x r = x * Mag.rscale (1 : K) r
  iota_mul : ∀ r s : Rat, Mag.rscale (1 : K) (r * s) = Mag.rscale (1 : K) r * Mag.rscale (1 : K) s
  iota_one : Mag.rscale (1 : K) (1 : Rat) = 1
  conj_mul : ∀ x y : K, HasConj.conj (x * y) = HasConj.conj x * HasConj.conj y
  conj_add : ∀ x y : K, HasConj.conj (x + y) = HasConj.conj x + HasConj.conj y
  conj_zero : HasConj.conj (0 : K) = 0
  conj_conj : ∀ x : K, HasConj.conj (HasConj.conj x) = x
  conj_iota : ∀ r : Rat, HasConj.conj (Mag.rscale (1 : K) r) = Mag.rscale (1 : K) r

instance : ScalarLaws Rat where
  rscale_eq x r := by simp [Mag.rscale]
  iota_mul r s := by simp [Mag.rscale]
  iota_one := by simp [Mag.rscale]
  conj_mul _ _ := rfl
  conj_add _ _ := rfl
  conj_zero := rfl
  conj_conj _ := rfl
  conj_iota _ := rfl

instance : ScalarLaws (Cx Rat) where
  rscale_eq x r := by ext <;> simp [Mag.rscale]
  iota_mul r s := by ext <;> simp [Mag.rscale]
  iota_one := by ext <;> simp [Mag.rscale]
  conj_mul x y := by ext <;> simp [HasConj.conj] <;> ring
  conj_add x y := by ext <;> simp [HasConj.conj] <;> ring
  conj_zero := by ext <;> simp [HasConj.conj]
  conj_conj x := by ext <;> simp [HasConj.conj]
  conj_iota r := by ext <;> simp [HasConj.conj, Mag.rscale]

section alg
variable {K : Type} [CommRing K] [Mag K Rat] [HasConj K] [ScalarLaws K]

/-- the image of a real factor in `K` -/
def iota (r : Rat) : K := Mag.rscale (1 : K) r

theorem rscale_iota (x : K) (r : Rat) : Mag.rscale x r = x * iota r := ScalarLaws.rscale_eq x r
theorem iota_mul (r s : Rat) : (iota (r * s) : K) = iota r * iota s := ScalarLaws.iota_mul r s
@[simp] theorem iota_one : (iota 1 : K) = 1 := ScalarLaws.iota_one
theorem conj_iota (r : Rat) : HasConj.conj (iota r : K) = iota r := ScalarLaws.conj_iota r

theorem iota_cancel {r : Rat} (hr : r ≠ 0) {a b : K} (h : iota r * a = iota r * b) : a = b := by
  have h1 : (iota (1 / r) : K) * iota r = 1 := by
    rw [← iota_mul, one_div, inv_mul_cancel₀ hr, iota_one]
  calc a = (iota (1 / r) * iota r) * a := by rw [h1, one_mul]
    _ = iota (1 / r) * (iota r * a) := by ring
    _ = iota (1 / r) * (iota r * b) := by rw [h]
    _ = (iota (1 / r) * iota r) * b := by ring
    _ = b := by rw [h1, one_mul]

theorem conj_list_sum (l : List K) : HasConj.conj l.sum = (l.map HasConj.conj).sum := by
  induction l with
  | nil => simp [ScalarLaws.conj_zero]
  | cons a t ih => simp [ScalarLaws.conj_add, ih]

/-! ### a stored entry list acting on a vector -/

/-- one term of `(op(A) x)_i` -/
def opTerm (op : Op) (x : Nat → K) (i : Nat) (e : Entry K) : K :=
  match op with
  | .N => if e.row = i then e.val * x e.col else 0
  | .T => if e.col = i then e.val * x e.row else 0
  | .C => if e.col = i then HasConj.conj e.val * x e.row else 0
  | .J => if e.row = i then HasConj.conj e.val * x e.col else 0

/-- `(op(A) x)_i` where `A(r,c)` is the sum of the stored entries at `(r,c)` -/
def opMul (op : Op) (es : List (Entry K)) (x : Nat → K) (i : Nat) : K := (es.map (opTerm op x i)).sum

/-- the entries are inside an n x n matrix -/
def InRange (n : Nat) (es : List (Entry K)) : Prop := ∀ e ∈ es, e.row < n ∧ e.col < n

theorem opMul_congr (op : Op) (n : Nat) (es : List (Entry K)) (hr : InRange n es) (x x' : Nat → K)
    (h : ∀ k < n, x k = x' k) (i : Nat) : opMul op es x i = opMul op es x' i := by
  unfold opMul
  congr 1
  apply List.map_congr_left
  intro e he
  obtain ⟨h1, h2⟩ := hr e he
  cases op <;> simp only [opTerm, h _ h1, h _ h2]

/-- the stored list with every value multiplied by a row factor and a column factor -/
def scaleEs (sr sc : Nat → Rat) (es : List (Entry K)) : List (Entry K) :=
  es.map fun e => { e with val := e.val * iota (sr e.row) * iota (sc e.col) }

theorem scaleEs_inRange (n : Nat) (sr sc : Nat → Rat) (es : List (Entry K)) (h : InRange n es) :
    InRange n (scaleEs sr sc es) := by
  intro e he
  simp only [scaleEs, List.mem_map] at he
  obtain ⟨e0, he0, rfl⟩ := he
  exact h e0 he0

/-- row-like operators (`A x`, `conj(A) x`): `(D_r A D_c) y = D_r (A (D_c y))` -/
theorem opMul_scale_row (op : Op) (hop : op = .N ∨ op = .J) (sr sc : Nat → Rat) (es : List (Entry K))
    (y : Nat → K) (i : Nat) :
    opMul op (scaleEs sr sc es) y i = iota (sr i) * opMul op es (fun k => iota (sc k) * y k) i := by
  unfold opMul scaleEs
  rw [List.map_map, ← List.sum_map_mul_left]
  congr 1
  apply List.map_congr_left
  intro e _
  rcases hop with rfl | rfl
  · simp only [opTerm, Function.comp]
    split
    · rename_i h; subst h; ring
    · simp
  · simp only [opTerm, Function.comp, ScalarLaws.conj_mul, conj_iota]
    split
    · rename_i h; subst h; ring
    · simp

/-- column-like operators (`A' x`, `A^H x`): `(D_r A D_c)' y = D_c (A' (D_r y))` -/
theorem opMul_scale_col (op : Op) (hop : op = .T ∨ op = .C) (sr sc : Nat → Rat) (es : List (Entry K))
    (y : Nat → K) (i : Nat) :
    opMul op (scaleEs sr sc es) y i = iota (sc i) * opMul op es (fun k => iota (sr k) * y k) i := by
  unfold opMul scaleEs
  rw [List.map_map, ← List.sum_map_mul_left]
  congr 1
  apply List.map_congr_left
  intro e _
  rcases hop with rfl | rfl
  · simp only [opTerm, Function.comp]
    split
    · rename_i h; subst h; ring
    · simp
  · simp only [opTerm, Function.comp, ScalarLaws.conj_mul, conj_iota]
    split
    · rename_i h; subst h; ring
    · simp

/-- `conj(A) x = conj (A conj(x))` -/
theorem opMul_J (es : List (Entry K)) (x : Nat → K) (i : Nat) :
    opMul .J es x i = HasConj.conj (opMul .N es (fun k => HasConj.conj (x k)) i) := by
  unfold opMul
  rw [conj_list_sum, List.map_map]
  congr 1
  apply List.map_congr_left
  intro e _
  simp only [opTerm, Function.comp]
  split
  · simp [ScalarLaws.conj_mul, ScalarLaws.conj_conj]
  · simp [ScalarLaws.conj_zero]

/-- solving the scaled row-like system solves the original one -/
theorem solve_row (op : Op) (hop : op = .N ∨ op = .J) (sr sc : Nat → Rat) (es : List (Entry K))
    (y : Nat → K) (b : K) (i : Nat) (hr : sr i ≠ 0)
    (h : opMul op (scaleEs sr sc es) y i = iota (sr i) * b) :
    opMul op es (fun k => iota (sc k) * y k) i = b := by
  rw [opMul_scale_row op hop] at h
  exact iota_cancel hr h

theorem solve_col (op : Op) (hop : op = .T ∨ op = .C) (sr sc : Nat → Rat) (es : List (Entry K))
    (y : Nat → K) (b : K) (i : Nat) (hc : sc i ≠ 0)
    (h : opMul op (scaleEs sr sc es) y i = iota (sc i) * b) :
    opMul op es (fun k => iota (sr k) * y k) i = b := by
  rw [opMul_scale_col op hop] at h
  exact iota_cancel hc h

end alg

/-! ### column-major arrays -/

section arr
variable {K : Type} [Inhabited K]

/-- entry `(i, j)` of a column-major array with leading dimension `ld` -/
def cell (M : Array K) (ld i j : Nat) : K := M.getD (i + j * ld) default

theorem idx_mod {n ld i j : Nat} (hi : i < n) (hn : n ≤ ld) : (i + j * ld) % ld = i := by
  rw [Nat.add_mul_mod_self_right]; exact Nat.mod_eq_of_lt (by omega)

theorem idx_div {n ld i j : Nat} (hi : i < n) (hn : n ≤ ld) : (i + j * ld) / ld = j := by
  have hld : 0 < ld := by omega
  rw [Nat.add_mul_div_right _ _ hld, Nat.div_eq_of_lt (by omega)]; simp

theorem idx_lt {n nrhs ld i j sz : Nat} (hi : i < n) (hn : n ≤ ld) (hj : j < nrhs) (hs : ld * nrhs ≤ sz) :
    i + j * ld < sz := by
  have : (j + 1) * ld ≤ nrhs * ld := Nat.mul_le_mul_right ld hj
  have h2 : nrhs * ld = ld * nrhs := Nat.mul_comm _ _
  have h3 : (j + 1) * ld = j * ld + ld := by ring
  omega

variable {R : Type} [Mag K R]

theorem scaleMat_size (n nrhs ld : Nat) (M : Array K) (s : Nat → R) : (scaleMat n nrhs ld M s).size = M.size := by
  simp [scaleMat]

theorem scaleMat_cell (n nrhs ld : Nat) (M : Array K) (s : Nat → R) (i j : Nat) (hi : i < n) (hn : n ≤ ld)
    (hj : j < nrhs) (hs : ld * nrhs ≤ M.size) :
    cell (scaleMat n nrhs ld M s) ld i j = Mag.rscale (cell M ld i j) (s i) := by
  have hlt := idx_lt hi hn hj hs
  simp only [cell, scaleMat, Array.getD_eq_getD_getElem?, Array.getElem?_mapIdx, Array.getElem?_eq_getElem hlt,
    Option.map_some, Option.getD_some, idx_mod hi hn, idx_div hi hn, hi, hj, and_self, if_true]

/-- cells outside the `n x nrhs` block keep their value -/
theorem scaleMat_outside (n nrhs ld : Nat) (M : Array K) (s : Nat → R) (k : Nat)
    (h : ¬ (k % ld < n ∧ k / ld < nrhs)) : (scaleMat n nrhs ld M s)[k]? = M[k]? := by
  simp only [scaleMat, Array.getElem?_mapIdx]
  cases hk : M[k]? with
  | none => rfl
  | some v => simp [h]

theorem copyMat_outside (n nrhs ldb ldx : Nat) (B X : Array K) (k : Nat)
    (h : ¬ (k % ldx < n ∧ k / ldx < nrhs)) : (copyMat n nrhs ldb ldx B X)[k]? = X[k]? := by
  simp only [copyMat, Array.getElem?_mapIdx]
  cases hk : X[k]? with
  | none => rfl
  | some v => simp [h]

theorem setCols_outside (n nrhs ld : Nat) (M : Array K) (f : Nat → Array K) (k : Nat)
    (h : ¬ (k % ld < n ∧ k / ld < nrhs)) : (setCols n nrhs ld M f)[k]? = M[k]? := by
  simp only [setCols, Array.getElem?_mapIdx]
  cases hk : M[k]? with
  | none => rfl
  | some v => simp [h]

theorem copyMat_size (n nrhs ldb ldx : Nat) (B X : Array K) : (copyMat n nrhs ldb ldx B X).size = X.size := by
  simp [copyMat]

theorem copyMat_cell (n nrhs ldb ldx : Nat) (B X : Array K) (i j : Nat) (hi : i < n) (hnb : n ≤ ldb) (hnx : n ≤ ldx)
    (hj : j < nrhs) (hsb : ldb * nrhs ≤ B.size) (hsx : ldx * nrhs ≤ X.size) :
    cell (copyMat n nrhs ldb ldx B X) ldx i j = cell B ldb i j := by
  have hx := idx_lt hi hnx hj hsx
  have hb := idx_lt hi hnb hj hsb
  simp only [cell, copyMat, Array.getD_eq_getD_getElem?, Array.getElem?_mapIdx, Array.getElem?_eq_getElem hx,
    Array.getElem?_eq_getElem hb, Option.map_some, Option.getD_some, idx_mod hi hnx, idx_div hi hnx, hi, hj, and_self, if_true]

theorem setCols_size (n nrhs ld : Nat) (M : Array K) (f : Nat → Array K) : (setCols n nrhs ld M f).size = M.size := by
  simp [setCols]

theorem setCols_cell (n nrhs ld : Nat) (M : Array K) (f : Nat → Array K) (i j : Nat) (hi : i < n) (hn : n ≤ ld)
    (hj : j < nrhs) (hs : ld * nrhs ≤ M.size) (hf : i < (f j).size) :
    cell (setCols n nrhs ld M f) ld i j = (f j).getD i default := by
  have hlt := idx_lt hi hn hj hs
  simp only [cell, setCols, Array.getD_eq_getD_getElem?, Array.getElem?_mapIdx, Array.getElem?_eq_getElem hlt,
    Array.getElem?_eq_getElem hf, Option.map_some, Option.getD_some, idx_mod hi hn, idx_div hi hn, hi, hj, and_self, if_true]

theorem colOf_size (n ld : Nat) (M : Array K) (j : Nat) : (colOf n ld M j).size = n := by
  simp [colOf]

theorem colOf_getD (n ld : Nat) (M : Array K) (j i : Nat) (hi : i < n) :
    (colOf n ld M j).getD i default = cell M ld i j := by
  simp [colOf, cell, Array.getD_eq_getD_getElem?, hi]

end arr

/-! ### the equilibration step -/

section equ
variable {K R : Type} [Mag K R]
variable [Zero R] [One R] [Mul R] [Div R] [LT R] [DecidableLT R] [LE R] [DecidableLE R] [BEq R]

/-- the stored values after the equilibration step are the C11 `laqgsEntry` of the values on entry,
with the `equed`, `R`, `C` the step leaves behind (any arithmetic, in particular floating point) -/
theorem equilStep_aout (equil : Bool) (n : Nat) (es : List (Entry K)) (M : Mach R) (r0 c0 : Nat → R) :
    (equilStep equil n es M r0 c0).aout =
      es.map (laqgsEntry (equilStep equil n es M r0 c0).equed (equilStep equil n es M r0 c0).r (equilStep equil n es M r0 c0).c) := by
  unfold equilStep
  cases equil
  · simp [laqgsEntry]
  · simp only [Bool.not_true, Bool.false_eq_true, if_false]
    split
    · simp [laqgsEntry]
    · unfold laqgs
      by_cases hn : n = 0
      · simp [hn, laqgsEntry]
      · simp [hn]

theorem equilStep_noequil (n : Nat) (es : List (Entry K)) (M : Mach R) (r0 c0 : Nat → R) :
    equilStep false n es M r0 c0 = { equed := .N, r := r0, c := c0, aout := es.map (·.val) } := by
  simp [equilStep]

end equ

section fac
variable {K : Type} [CommRing K] [Mag K Rat] [HasConj K] [ScalarLaws K]

/-- the row factor named by `equed`: `R[i]` for R and B, otherwise 1 -/
def rowFac (q : Equed) (r : Nat → Rat) : Nat → Rat := fun i => if Equed.rowequ q then r i else 1
/-- the column factor named by `equed`: `C[j]` for C and B, otherwise 1 -/
def colFac (q : Equed) (c : Nat → Rat) : Nat → Rat := fun j => if Equed.colequ q then c j else 1

/-- the stored entries with their values replaced -/
def eqEntries (es : List (Entry K)) (vals : List K) : List (Entry K) :=
  List.zipWith (fun e v => { e with val := v }) es vals

theorem eqEntries_map (es : List (Entry K)) (f : Entry K → K) :
    eqEntries es (es.map f) = es.map fun e => { e with val := f e } := by
  induction es with
  | nil => rfl
  | cons e t ih => simp only [eqEntries, List.map_cons, List.zipWith_cons_cons] at ih ⊢; rw [ih]

theorem laqgsEntry_exact (q : Equed) (r c : Nat → Rat) (e : Entry K) :
    laqgsEntry q r c e = e.val * iota (rowFac q r e.row) * iota (colFac q c e.col) := by
  cases q <;> simp [laqgsEntry, rowFac, colFac, Equed.rowequ, Equed.colequ, rscale_iota, iota_mul] <;> ring

theorem eqEntries_laqgs (es : List (Entry K)) (q : Equed) (r c : Nat → Rat) :
    eqEntries es (es.map (laqgsEntry q r c)) = scaleEs (rowFac q r) (colFac q c) es := by
  rw [eqEntries_map, scaleEs]
  apply List.map_congr_left
  intro e _
  rw [laqgsEntry_exact]

variable [Inhabited K]

/-- B after `scaleB`: the block is multiplied by the row factor (notran) resp. the column factor -/
theorem scaleB_cell (notran : Bool) (q : Equed) (n nrhs ldb : Nat) (B : Array K) (r c : Nat → Rat) (i j : Nat)
    (hi : i < n) (hn : n ≤ ldb) (hj : j < nrhs) (hs : ldb * nrhs ≤ B.size) :
    cell (scaleB notran q n nrhs ldb B r c) ldb i j =
      iota ((if notran then rowFac q r else colFac q c) i) * cell B ldb i j := by
  unfold scaleB
  cases notran <;> simp only [Bool.false_eq_true, if_false, if_true]
  · by_cases hc : Equed.colequ q = true
    · simp only [hc, if_true, colFac, scaleMat_cell n nrhs ldb B c i j hi hn hj hs, rscale_iota]; ring
    · simp [hc, colFac]
  · by_cases hr : Equed.rowequ q = true
    · simp only [hr, if_true, rowFac, scaleMat_cell n nrhs ldb B r i j hi hn hj hs, rscale_iota]; ring
    · simp [hr, rowFac]

theorem scaleB_size (notran : Bool) (q : Equed) (n nrhs ldb : Nat) (B : Array K) (r c : Nat → Rat) :
    (scaleB notran q n nrhs ldb B r c).size = B.size := by
  unfold scaleB; split <;> split <;> simp [scaleMat_size]

/-- X after `unscaleX`: the block is multiplied by the column factor (notran) resp. the row factor -/
theorem unscaleX_cell (notran : Bool) (q : Equed) (n nrhs ldx : Nat) (X : Array K) (r c : Nat → Rat) (i j : Nat)
    (hi : i < n) (hn : n ≤ ldx) (hj : j < nrhs) (hs : ldx * nrhs ≤ X.size) :
    cell (unscaleX notran q n nrhs ldx X r c) ldx i j =
      iota ((if notran then colFac q c else rowFac q r) i) * cell X ldx i j := by
  unfold unscaleX
  cases notran <;> simp only [Bool.false_eq_true, if_false, if_true]
  · by_cases hr : Equed.rowequ q = true
    · simp only [hr, if_true, rowFac, scaleMat_cell n nrhs ldx X r i j hi hn hj hs, rscale_iota]; ring
    · simp [hr, rowFac]
  · by_cases hc : Equed.colequ q = true
    · simp only [hc, if_true, colFac, scaleMat_cell n nrhs ldx X c i j hi hn hj hs, rscale_iota]; ring
    · simp [hc, colFac]

end fac
end Slu.Gssvx
