import SluProofs.Lemmas.Rounding
import Mathlib.Algebra.BigOperators.Intervals
import Mathlib.Algebra.Order.BigOperators.Ring.Finset
import Mathlib.Data.Finset.Card
/-
Componentwise backward error of LU factorization and of the triangular solves, for EVERY
evaluation order (Higham, Accuracy and Stability of Numerical Algorithms, 2nd ed., Thm 8.5,
Thm 9.3, Thm 9.4), lifted from `Slu.Rounding.Dot.bound` (Lemma 8.4, order-independent form).

Matrices are functions `Nat → Nat → F`, vectors `Nat → F`, sums run over `Finset.range`.

What is assumed about the computed factors (`LUComputed`): each stored entry is the value of SOME
evaluation tree (`Dot`) of its defining formula in terms of A and previously computed entries —
`û_kj` a value of `a_kj - Σ_{t<k} l̂_kt û_tj`, `l̂_ik` a value of `(a_ik - Σ_{t<k} l̂_it û_tk)/û_kk`
finished by a rounded division or by `fl(w * fl(1/û_kk))` (SuperLU's `temp = 1.0/pivot; l *= temp`).
Nothing is assumed about the order in which the entries were produced (left-looking, right-looking,
panels, supernodes, BLAS-2/3 kernels, FMA): Doolittle's formulas hold for all of them.

Constants reached (`q` = largest `Finish.cost` used for L, `0 ≤ q ≤ 2`):
* LU:            `|A - L̂Û| ≤ γ_{n-1+q} |L̂||Û|`      (division: γ_n = Higham's; reciprocal: γ_{n+1})
* lower solve:   `|b - T ŷ| ≤ γ_{n-1+q} |T||ŷ|`
* upper solve:   `|y - T x̂| ≤ γ_{n-1+q} |T||x̂|`
* both + LU:     `|b - A x̂| ≤ γ_{3n-3+q_L+q_U} |L̂||Û||x̂|`  (reciprocal everywhere: γ_{3n+1})
all `≤` the constants the run-time checks use (`g(n+2)` and `g(4n+4)`).
-/
set_option linter.unusedSectionVars false
namespace Slu.Rounding
open Finset

variable {F : Type} [Field F] [LinearOrder F] [IsStrictOrderedRing F]

/-! ### small sum lemmas -/

theorem sum_range_trunc (f : Nat → F) {k n : Nat} (hkn : k ≤ n) (h : ∀ t, k ≤ t → t < n → f t = 0) :
    ∑ t ∈ range n, f t = ∑ t ∈ range k, f t := by
  symm
  apply Finset.sum_subset (Finset.range_subset_range.2 hkn)
  intro t ht hnt
  simp only [Finset.mem_range, not_lt] at ht hnt
  exact h t hnt ht

/-- split a row of an upper triangular product at the diagonal -/
theorem sum_range_upper (f : Nat → F) {i n : Nat} (hi : i < n) (h : ∀ t, t < i → f t = 0) :
    ∑ t ∈ range n, f t = f i + ∑ s ∈ range (n - (i + 1)), f (i + 1 + s) := by
  have h0 : ∑ t ∈ Ico 0 i, f t = 0 := Finset.sum_eq_zero fun t ht => h t (by simpa using ht)
  rw [Finset.range_eq_Ico, ← Finset.sum_Ico_consecutive f (Nat.zero_le i) (le_of_lt hi), h0, zero_add,
    Finset.sum_eq_sum_Ico_succ_bot hi, Finset.sum_Ico_eq_sum_range]

section solves
variable {u : F}

/-! ### triangular solves (Thm 8.5 shape) -/

/-- `y` was obtained by substitution with the lower triangular `T` (`T y = b`): entry `i` is a value
of some evaluation tree of `(b_i - Σ_{t<i} T_it y_t)/T_ii`, finished with cost at most `q`
(`Finish.none`, cost 0, requires `T_ii = 1`: the unit lower triangular case) -/
def LowerSolved (u : F) (n q : Nat) (T : Nat → Nat → F) (b y : Nat → F) : Prop :=
  ∀ i < n, ∃ f : Finish, f.cost ≤ q ∧
    Dot u (b i) ((List.range i).map fun t => (T i t, y t)) (T i i) f (y i)

/-- `x` was obtained by back substitution with the upper triangular `T` (`T x = y`): entry `i` is a
value of some tree of `(y_i - Σ_{i<t<n} T_it x_t)/T_ii` -/
def UpperSolved (u : F) (n q : Nat) (T : Nat → Nat → F) (y x : Nat → F) : Prop :=
  ∀ i < n, ∃ f : Finish, f.cost ≤ q ∧
    Dot u (y i) ((List.range (n - (i + 1))).map fun s => (T i (i + 1 + s), x (i + 1 + s))) (T i i) f (x i)

/-- **Thm 8.5 (lower), any order**: `|b - T ŷ| ≤ γ_K |T||ŷ|` for `K ≥ n - 1 + q`. -/
theorem lower_solve_bound (hu0 : 0 ≤ u) {n q K : Nat} {T : Nat → Nat → F} {b y : Nat → F}
    (hT : ∀ i t, i < t → T i t = 0) (h : LowerSolved u n q T b y)
    (hK : n + q ≤ K + 1) (hKu : (K : F) * u < 1) (i : Nat) (hi : i < n) :
    |b i - ∑ t ∈ range n, T i t * y t| ≤ gamma u K * ∑ t ∈ range n, |T i t| * |y t| := by
  obtain ⟨f, hf, hd⟩ := h i hi
  have := hd.bound_range hu0 (T i) y i (K := K) (by omega) hKu
  rw [sum_range_trunc (fun t => T i t * y t) (k := i + 1) (by omega)
      (fun t h1 _ => by simp [hT i t (by omega)]),
    sum_range_trunc (fun t => |T i t| * |y t|) (k := i + 1) (by omega)
      (fun t h1 _ => by simp [hT i t (by omega)]),
    Finset.sum_range_succ, Finset.sum_range_succ]
  rwa [← sub_sub]

/-- **Thm 8.5 (upper), any order**: `|y - T x̂| ≤ γ_K |T||x̂|` for `K ≥ n - 1 + q`. -/
theorem upper_solve_bound (hu0 : 0 ≤ u) {n q K : Nat} {T : Nat → Nat → F} {y x : Nat → F}
    (hT : ∀ i t, t < i → T i t = 0) (h : UpperSolved u n q T y x)
    (hK : n + q ≤ K + 1) (hKu : (K : F) * u < 1) (i : Nat) (hi : i < n) :
    |y i - ∑ t ∈ range n, T i t * x t| ≤ gamma u K * ∑ t ∈ range n, |T i t| * |x t| := by
  obtain ⟨f, hf, hd⟩ := h i hi
  have := hd.bound_range hu0 (fun s => T i (i + 1 + s)) (fun s => x (i + 1 + s)) (n - (i + 1))
    (K := K) (by omega) hKu
  rw [sum_range_upper (fun t => T i t * x t) hi (fun t ht => by simp [hT i t ht]),
    sum_range_upper (fun t => |T i t| * |x t|) hi (fun t ht => by simp [hT i t ht])]
  have e : y i - (T i i * x i + ∑ s ∈ range (n - (i + 1)), T i (i + 1 + s) * x (i + 1 + s)) =
      y i - ∑ s ∈ range (n - (i + 1)), T i (i + 1 + s) * x (i + 1 + s) - T i i * x i := by ring
  rw [e, add_comm (|T i i| * |x i|)]
  exact this

end solves

/-! ### LU factorization (Thm 9.3 shape) -/

/-- `L̂` (m × n, unit lower trapezoidal) and `Û` (n × n, upper triangular) were computed from the
m × n matrix `A` by ANY algorithm that evaluates Doolittle's formulas entry by entry in some order
of operations obeying the standard model; `q` bounds the cost of the final scaling of the L entries
(`1`: rounded division, `2`: rounded reciprocal then rounded product) -/
structure LUComputed (u : F) (m n q : Nat) (A L U : Nat → Nat → F) : Prop where
  L_diag : ∀ i < n, L i i = 1
  L_upper : ∀ i t, i < t → L i t = 0
  U_lower : ∀ t j, j < t → U t j = 0
  U_entry : ∀ k j, k ≤ j → j < n →
    Dot u (A k j) ((List.range k).map fun t => (L k t, U t j)) 1 .none (U k j)
  L_entry : ∀ i k, k < i → i < m → k < n → ∃ f : Finish, f.cost ≤ q ∧
    Dot u (A i k) ((List.range k).map fun t => (L i t, U t k)) (U k k) f (L i k)

/-- **Thm 9.3, any evaluation order.**  `|A - L̂Û|_{ij} ≤ γ_K (|L̂||Û|)_{ij}` for every
`K ≥ n - 1 + q` with `K u < 1`. -/
theorem lu_backward_error {u : F} (hu0 : 0 ≤ u) {m n q K : Nat} {A L U : Nat → Nat → F}
    (h : LUComputed u m n q A L U) (hK : n + q ≤ K + 1) (hKu : (K : F) * u < 1)
    (i : Nat) (hi : i < m) (j : Nat) (hj : j < n) :
    |A i j - ∑ t ∈ range n, L i t * U t j| ≤ gamma u K * ∑ t ∈ range n, |L i t| * |U t j| := by
  rcases Nat.lt_or_ge j i with hji | hij
  · -- below the diagonal: the entry l̂_ij
    obtain ⟨f, hf, hd⟩ := h.L_entry i j hji hi hj
    have := hd.bound_range hu0 (L i) (fun t => U t j) j (K := K) (by omega) hKu
    rw [sum_range_trunc (fun t => L i t * U t j) (k := j + 1) (by omega)
        (fun t h1 _ => by simp [h.U_lower t j (by omega)]),
      sum_range_trunc (fun t => |L i t| * |U t j|) (k := j + 1) (by omega)
        (fun t h1 _ => by simp [h.U_lower t j (by omega)]),
      Finset.sum_range_succ, Finset.sum_range_succ, ← sub_sub, mul_comm (L i j), mul_comm |L i j|]
    exact this
  · -- on or above the diagonal: the entry û_ij
    have hd := h.U_entry i j hij hj
    have := hd.bound_range hu0 (L i) (fun t => U t j) i (K := K) (by simp [Finish.cost]; omega) hKu
    rw [sum_range_trunc (fun t => L i t * U t j) (k := i + 1) (by omega)
        (fun t h1 _ => by simp [h.L_upper i t (by omega)]),
      sum_range_trunc (fun t => |L i t| * |U t j|) (k := i + 1) (by omega)
        (fun t h1 _ => by simp [h.L_upper i t (by omega)]),
      Finset.sum_range_succ, Finset.sum_range_succ, ← sub_sub, h.L_diag i (by omega)]
    simpa using this

/-! ### factorization + two solves (Thm 9.4 shape) -/

/-- the algebra of Thm 9.4 for any three componentwise bounds: if `|M - PQ| ≤ γ_c |P||Q|`,
`|b - P y| ≤ γ_a |P||y|` and `|y - Q x| ≤ γ_b |Q||x|` then `|b - M x| ≤ γ_{a+b+c} |P||Q||x|` -/
theorem solve_combine {u : F} (hu0 : 0 ≤ u) {n : Nat} {M P Q : Nat → Nat → F} {b y x : Nat → F}
    {ka kb kc K : Nat}
    (hM : ∀ i < n, ∀ j < n, |M i j - ∑ t ∈ range n, P i t * Q t j| ≤
      gamma u kc * ∑ t ∈ range n, |P i t| * |Q t j|)
    (hP : ∀ i < n, |b i - ∑ t ∈ range n, P i t * y t| ≤ gamma u ka * ∑ t ∈ range n, |P i t| * |y t|)
    (hQ : ∀ t < n, |y t - ∑ j ∈ range n, Q t j * x j| ≤ gamma u kb * ∑ j ∈ range n, |Q t j| * |x j|)
    (hK : ka + kb + kc ≤ K) (hKu : (K : F) * u < 1) (i : Nat) (hi : i < n) :
    |b i - ∑ j ∈ range n, M i j * x j| ≤
      gamma u K * ∑ j ∈ range n, (∑ t ∈ range n, |P i t| * |Q t j|) * |x j| := by
  have hab : ((ka + kb : Nat) : F) * u < 1 := mul_lt_one_of_le hu0 (by omega) hKu
  have habc : ((ka + kb + kc : Nat) : F) * u < 1 := mul_lt_one_of_le hu0 hK hKu
  have ha : (ka : F) * u < 1 := mul_lt_one_of_le hu0 (by omega) hKu
  have hb : (kb : F) * u < 1 := mul_lt_one_of_le hu0 (by omega) hKu
  have hc : (kc : F) * u < 1 := mul_lt_one_of_le hu0 (by omega) hKu
  have ga := gamma_nonneg hu0 ha
  have gb := gamma_nonneg hu0 hb
  have gc := gamma_nonneg hu0 hc
  set V : Nat → F := fun t => ∑ j ∈ range n, |Q t j| * |x j| with hV
  set W : F := ∑ t ∈ range n, |P i t| * V t with hW
  have hV0 : ∀ t, 0 ≤ V t := fun t => Finset.sum_nonneg fun j _ => by positivity
  have hW0 : 0 ≤ W := Finset.sum_nonneg fun t _ => mul_nonneg (abs_nonneg _) (hV0 t)
  -- |P||Q||x| in the two groupings
  have eW : ∑ j ∈ range n, (∑ t ∈ range n, |P i t| * |Q t j|) * |x j| = W := by
    simp only [hW, hV, Finset.mul_sum, Finset.sum_mul]
    rw [Finset.sum_comm]
    exact Finset.sum_congr rfl fun t _ => Finset.sum_congr rfl fun j _ => by ring
  -- |ŷ| ≤ (1 + γ_b) |Q||x|
  have hy : ∀ t < n, |y t| ≤ (1 + gamma u kb) * V t := by
    intro t ht
    have h1 := hQ t ht
    have h2 : |∑ j ∈ range n, Q t j * x j| ≤ V t :=
      (Finset.abs_sum_le_sum_abs _ _).trans (le_of_eq (Finset.sum_congr rfl fun j _ => abs_mul _ _))
    have h3 : |y t| ≤ |y t - ∑ j ∈ range n, Q t j * x j| + |∑ j ∈ range n, Q t j * x j| := by
      have := abs_add_le (y t - ∑ j ∈ range n, Q t j * x j) (∑ j ∈ range n, Q t j * x j)
      simpa using this
    have : (1 + gamma u kb) * V t = gamma u kb * V t + V t := by ring
    rw [this]; linarith
  -- the three pieces
  set S1 : F := ∑ t ∈ range n, P i t * y t with hS1
  set S2 : F := ∑ t ∈ range n, P i t * ∑ j ∈ range n, Q t j * x j with hS2
  have eS2 : S2 = ∑ j ∈ range n, (∑ t ∈ range n, P i t * Q t j) * x j := by
    simp only [hS2, Finset.mul_sum, Finset.sum_mul]
    rw [Finset.sum_comm]
    exact Finset.sum_congr rfl fun t _ => Finset.sum_congr rfl fun j _ => by ring
  have e2 : ∑ t ∈ range n, P i t * (y t - ∑ j ∈ range n, Q t j * x j) = S1 - S2 := by
    simp only [hS1, hS2, mul_sub, Finset.sum_sub_distrib]
  have e3 : ∑ j ∈ range n, (∑ t ∈ range n, P i t * Q t j - M i j) * x j =
      S2 - ∑ j ∈ range n, M i j * x j := by
    rw [eS2]; simp only [sub_mul, Finset.sum_sub_distrib]
  have split : b i - ∑ j ∈ range n, M i j * x j =
      (b i - S1) + ∑ t ∈ range n, P i t * (y t - ∑ j ∈ range n, Q t j * x j) +
        ∑ j ∈ range n, (∑ t ∈ range n, P i t * Q t j - M i j) * x j := by
    rw [e2, e3]; ring
  have T1 : |b i - S1| ≤ gamma u ka * ((1 + gamma u kb) * W) := by
    refine (hP i hi).trans (mul_le_mul_of_nonneg_left ?_ ga)
    rw [hW, Finset.mul_sum]
    refine Finset.sum_le_sum fun t ht => ?_
    have := mul_le_mul_of_nonneg_left (hy t (Finset.mem_range.mp ht)) (abs_nonneg (P i t))
    calc |P i t| * |y t| ≤ |P i t| * ((1 + gamma u kb) * V t) := this
      _ = (1 + gamma u kb) * (|P i t| * V t) := by ring
  have T2 : |∑ t ∈ range n, P i t * (y t - ∑ j ∈ range n, Q t j * x j)| ≤ gamma u kb * W := by
    refine (Finset.abs_sum_le_sum_abs _ _).trans ?_
    rw [hW, Finset.mul_sum]
    refine Finset.sum_le_sum fun t ht => ?_
    rw [abs_mul]
    calc |P i t| * |y t - ∑ j ∈ range n, Q t j * x j| ≤ |P i t| * (gamma u kb * V t) :=
          mul_le_mul_of_nonneg_left (hQ t (Finset.mem_range.mp ht)) (abs_nonneg _)
      _ = gamma u kb * (|P i t| * V t) := by ring
  have T3 : |∑ j ∈ range n, (∑ t ∈ range n, P i t * Q t j - M i j) * x j| ≤ gamma u kc * W := by
    refine (Finset.abs_sum_le_sum_abs _ _).trans ?_
    rw [← eW, Finset.mul_sum]
    refine Finset.sum_le_sum fun j hj => ?_
    rw [abs_mul, abs_sub_comm]
    calc |M i j - ∑ t ∈ range n, P i t * Q t j| * |x j| ≤
          (gamma u kc * ∑ t ∈ range n, |P i t| * |Q t j|) * |x j| :=
          mul_le_mul_of_nonneg_right (hM i hi j (Finset.mem_range.mp hj)) (abs_nonneg _)
      _ = gamma u kc * ((∑ t ∈ range n, |P i t| * |Q t j|) * |x j|) := by ring
  rw [eW, split]
  have tri := (abs_add_le ((b i - S1) + ∑ t ∈ range n, P i t * (y t - ∑ j ∈ range n, Q t j * x j))
    (∑ j ∈ range n, (∑ t ∈ range n, P i t * Q t j - M i j) * x j)).trans
    (add_le_add_left (abs_add_le _ _) _)
  have g1 := gamma_add hu0 hab
  have g2 := gamma_add_le hu0 habc
  have g3 := gamma_mono hu0 hK hKu
  have hsum : gamma u ka * ((1 + gamma u kb) * W) + gamma u kb * W + gamma u kc * W ≤ gamma u K * W := by
    have : gamma u ka * ((1 + gamma u kb) * W) + gamma u kb * W + gamma u kc * W =
        (gamma u ka + gamma u kb + gamma u ka * gamma u kb + gamma u kc) * W := by ring
    rw [this]
    exact mul_le_mul_of_nonneg_right (by linarith) hW0
  linarith

/-- **Thm 9.4, any evaluation order** (`A x = b` by `L̂ ŷ = b`, `Û x̂ = ŷ`, square `A`):
`|b - A x̂| ≤ γ_K |L̂||Û||x̂|` componentwise for every `K ≥ 3n - 3 + qL + qU` with `K u < 1`
(`qL`, `qU` = costs of the scalings in the factorization and in the back substitution). -/
theorem lu_solve_backward_error {u : F} (hu0 : 0 ≤ u) {n qL qU K : Nat} {A L U : Nat → Nat → F}
    {b y x : Nat → F} (hLU : LUComputed u n n qL A L U)
    (hy : LowerSolved u n 0 L b y) (hx : UpperSolved u n qU U y x)
    (hK : 3 * n + qL + qU ≤ K + 3) (hKu : (K : F) * u < 1) (i : Nat) (hi : i < n) :
    |b i - ∑ j ∈ range n, A i j * x j| ≤
      gamma u K * ∑ j ∈ range n, (∑ t ∈ range n, |L i t| * |U t j|) * |x j| := by
  have hn : 1 ≤ n := by omega
  have h1 : ((n - 1 : Nat) : F) * u < 1 := mul_lt_one_of_le hu0 (by omega) hKu
  have h2 : ((n - 1 + qU : Nat) : F) * u < 1 := mul_lt_one_of_le hu0 (by omega) hKu
  have h3 : ((n - 1 + qL : Nat) : F) * u < 1 := mul_lt_one_of_le hu0 (by omega) hKu
  exact solve_combine hu0 (ka := n - 1) (kb := n - 1 + qU) (kc := n - 1 + qL)
    (fun i hi j hj => lu_backward_error hu0 hLU (by omega) h3 i hi j hj)
    (fun i hi => lower_solve_bound hu0 hLU.L_upper hy (by omega) h1 i hi)
    (fun t ht => upper_solve_bound hu0 hLU.U_lower hx (by omega) h2 t ht)
    (by omega) hKu i hi

/-- **Thm 9.4 for the transposed system** (`Aᵀ x = b` by `Ûᵀ ŵ = b`, `L̂ᵀ x̂ = ŵ`):
`|b - Aᵀ x̂| ≤ γ_K |Ûᵀ||L̂ᵀ||x̂|`. -/
theorem lu_solve_trans_backward_error {u : F} (hu0 : 0 ≤ u) {n qL qU K : Nat} {A L U : Nat → Nat → F}
    {b w x : Nat → F} (hLU : LUComputed u n n qL A L U)
    (hw : LowerSolved u n qU (fun i t => U t i) b w) (hx : UpperSolved u n 0 (fun i t => L t i) w x)
    (hK : 3 * n + qL + qU ≤ K + 3) (hKu : (K : F) * u < 1) (i : Nat) (hi : i < n) :
    |b i - ∑ j ∈ range n, A j i * x j| ≤
      gamma u K * ∑ j ∈ range n, (∑ t ∈ range n, |U t i| * |L j t|) * |x j| := by
  have hn : 1 ≤ n := by omega
  have h1 : ((n - 1 : Nat) : F) * u < 1 := mul_lt_one_of_le hu0 (by omega) hKu
  have h2 : ((n - 1 + qU : Nat) : F) * u < 1 := mul_lt_one_of_le hu0 (by omega) hKu
  have h3 : ((n - 1 + qL : Nat) : F) * u < 1 := mul_lt_one_of_le hu0 (by omega) hKu
  refine solve_combine hu0 (M := fun i j => A j i) (P := fun i t => U t i) (Q := fun t j => L j t)
    (ka := n - 1 + qU) (kb := n - 1) (kc := n - 1 + qL) ?_
    (fun i hi => lower_solve_bound hu0 (fun i t h => hLU.U_lower t i h) hw (by omega) h2 i hi)
    (fun t ht => upper_solve_bound hu0 (fun i t h => hLU.L_upper t i h) hx (by omega) h1 t ht)
    (by omega) hKu i hi
  intro i hi j hj
  have := lu_backward_error hu0 hLU (K := n - 1 + qL) (by omega) h3 j hj i hi
  simpa only [mul_comm] using this

/-- **two triangular solves with given factors** (`[sdcz]gstrs` checked against `A := L U` formed
exactly from the stored factors, C14): `|b - (P Q) x̂| ≤ γ_K |P||Q||x̂|` for `K ≥ 2n - 2 + qa + qb`,
`P` lower and `Q` upper triangular (NOTRANS: `P = L̂`, `Q = Û`; TRANS: `P = Ûᵀ`, `Q = L̂ᵀ`). -/
theorem two_solves_bound {u : F} (hu0 : 0 ≤ u) {n qa qb K : Nat} {P Q : Nat → Nat → F}
    {b y x : Nat → F} (hP : ∀ i t, i < t → P i t = 0) (hQ : ∀ i t, t < i → Q i t = 0)
    (hy : LowerSolved u n qa P b y) (hx : UpperSolved u n qb Q y x)
    (hK : 2 * n + qa + qb ≤ K + 2) (hKu : (K : F) * u < 1) (i : Nat) (hi : i < n) :
    |b i - ∑ j ∈ range n, (∑ t ∈ range n, P i t * Q t j) * x j| ≤
      gamma u K * ∑ j ∈ range n, (∑ t ∈ range n, |P i t| * |Q t j|) * |x j| := by
  have hn : 1 ≤ n := by omega
  have h1 : ((n - 1 + qa : Nat) : F) * u < 1 := mul_lt_one_of_le hu0 (by omega) hKu
  have h2 : ((n - 1 + qb : Nat) : F) * u < 1 := mul_lt_one_of_le hu0 (by omega) hKu
  refine solve_combine hu0 (M := fun i j => ∑ t ∈ range n, P i t * Q t j)
    (ka := n - 1 + qa) (kb := n - 1 + qb) (kc := 0) ?_
    (fun i hi => lower_solve_bound hu0 hP hy (by omega) h1 i hi)
    (fun t ht => upper_solve_bound hu0 hQ hx (by omega) h2 t ht)
    (by omega) hKu i hi
  intro i _ j _
  simp [gamma_zero]

/-! ### column permutation of the unknowns, exact arithmetic as the instance `u = 0` -/

/-- reindexing a full sum by a permutation of `range n` -/
theorem sum_range_perm (f : Nat → F) {n : Nat} {pc : Nat → Nat} (hpc : ∀ j < n, pc j < n)
    (hinj : ∀ j < n, ∀ j' < n, pc j = pc j' → j = j') :
    ∑ c ∈ range n, f c = ∑ j ∈ range n, f (pc j) := by
  have hinj' : Set.InjOn pc (range n : Set Nat) := by
    intro a ha b hb hab
    exact hinj a (by simpa using ha) b (by simpa using hb) hab
  have himg : (range n).image pc = range n := by
    apply Finset.eq_of_subset_of_card_le
    · intro c hc
      obtain ⟨j, hj, rfl⟩ := Finset.mem_image.mp hc
      exact Finset.mem_range.mpr (hpc j (Finset.mem_range.mp hj))
    · rw [Finset.card_image_of_injOn hinj']
  conv_lhs => rw [← himg]
  exact Finset.sum_image hinj'

/-- **Thm 9.4 with SuperLU's permutations**: `Pr A Pc = L̂Û` computed (`(Pr A Pc)(i,j) = A (pr i) (pc j)`),
`L̂ ŷ = Pr b`, `Û ẑ = ŷ`, `x̂ (pc j) = ẑ j` (permutations are exact).  Row `pr i` of the residual of the
ORIGINAL system is bounded by row `i` of `|L̂||Û|` against `Pcᵀ|x̂|`. -/
theorem lu_solve_backward_error_perm {u : F} (hu0 : 0 ≤ u) {n qL qU K : Nat} {A L U : Nat → Nat → F}
    {b y x : Nat → F} {pr pc : Nat → Nat} (hpc : ∀ j < n, pc j < n)
    (hinj : ∀ j < n, ∀ j' < n, pc j = pc j' → j = j')
    (hLU : LUComputed u n n qL (fun i j => A (pr i) (pc j)) L U)
    (hy : LowerSolved u n 0 L (fun i => b (pr i)) y) (hx : UpperSolved u n qU U y (fun j => x (pc j)))
    (hK : 3 * n + qL + qU ≤ K + 3) (hKu : (K : F) * u < 1) (i : Nat) (hi : i < n) :
    |b (pr i) - ∑ c ∈ range n, A (pr i) c * x c| ≤
      gamma u K * ∑ j ∈ range n, (∑ t ∈ range n, |L i t| * |U t j|) * |x (pc j)| := by
  rw [sum_range_perm (fun c => A (pr i) c * x c) hpc hinj]
  exact lu_solve_backward_error hu0 hLU hy hx hK hKu i hi

theorem leftEval_exact (c : F) (l : List (F × F)) : leftEval (FlModel.exact F) c l = c - dotSum l := by
  induction l with
  | nil => simp [leftEval, dotSum]
  | cons p l ih =>
    have : dotSum (p :: l) = p.1 * p.2 + dotSum l := by simp [dotSum]
    rw [this]
    show leftEval (FlModel.exact F) c l - p.1 * p.2 = _
    rw [ih]; ring

/-- every exact factorization `A = L U` (unit lower `L`, upper `U` with nonzero diagonal) satisfies
the hypotheses with `u = 0`: the rounding model contains exact arithmetic -/
theorem LUComputed.of_exact {m n : Nat} {A L U : Nat → Nat → F}
    (hLd : ∀ i < n, L i i = 1) (hLu : ∀ i t, i < t → L i t = 0) (hUl : ∀ t j, j < t → U t j = 0)
    (hUd : ∀ k < n, U k k ≠ 0) (hA : ∀ i j, j < n → A i j = ∑ t ∈ range n, L i t * U t j) :
    LUComputed (0 : F) m n 1 A L U where
  L_diag := hLd
  L_upper := hLu
  U_lower := hUl
  U_entry := by
    intro k j hkj hj
    have h := dot_left (FlModel.exact F) (A k j) ((List.range k).map fun t => (L k t, U t j))
    have e : leftEval (FlModel.exact F) (A k j) ((List.range k).map fun t => (L k t, U t j)) = U k j := by
      rw [leftEval_exact, dotSum_range, hA k j hj,
        sum_range_trunc (fun t => L k t * U t j) (k := k + 1) (by omega)
          (fun t h1 _ => by simp [hLu k t (by omega)]),
        Finset.sum_range_succ, hLd k (by omega)]
      ring
    rw [e] at h; exact h
  L_entry := by
    intro i k hki _ hk
    refine ⟨.div, le_rfl, ?_⟩
    have h := dot_left_div (FlModel.exact F) (A i k) ((List.range k).map fun t => (L i t, U t k))
      (U k k) (hUd k hk)
    have e : (FlModel.exact F).div
        (leftEval (FlModel.exact F) (A i k) ((List.range k).map fun t => (L i t, U t k))) (U k k) = L i k := by
      rw [leftEval_exact, dotSum_range, hA i k hk,
        sum_range_trunc (fun t => L i t * U t k) (k := k + 1) (by omega)
          (fun t h1 _ => by simp [hUl t k (by omega)]),
        Finset.sum_range_succ]
      have := hUd k hk
      simp only [FlModel.exact]
      field_simp
      ring
    rw [e] at h; exact h

/-- conversely, with `u = 0` the bound collapses to the exact identity (`luFactor_identity` of C02) -/
theorem LUComputed.exact_identity {m n q : Nat} {A L U : Nat → Nat → F}
    (h : LUComputed (0 : F) m n q A L U) (i : Nat) (hi : i < m) (j : Nat) (hj : j < n) :
    A i j = ∑ t ∈ range n, L i t * U t j := by
  have := lu_backward_error (le_refl (0 : F)) h (K := n + q) (by omega) (by simp) i hi j hj
  rw [gamma_u_zero, zero_mul] at this
  exact sub_eq_zero.mp (abs_nonpos_iff.mp this)

/-! ### monotonicity in `u`, and the exact solve -/

theorem LUComputed.mono {u u' : F} (h : u ≤ u') {m n q : Nat} {A L U : Nat → Nat → F}
    (hLU : LUComputed u m n q A L U) : LUComputed u' m n q A L U where
  L_diag := hLU.L_diag
  L_upper := hLU.L_upper
  U_lower := hLU.U_lower
  U_entry := fun k j hkj hj => (hLU.U_entry k j hkj hj).mono h
  L_entry := fun i k hki hi hk => by
    obtain ⟨f, hf, hd⟩ := hLU.L_entry i k hki hi hk
    exact ⟨f, hf, hd.mono h⟩

theorem LowerSolved.mono {u u' : F} (h : u ≤ u') {n q : Nat} {T : Nat → Nat → F} {b y : Nat → F}
    (hs : LowerSolved u n q T b y) : LowerSolved u' n q T b y := fun i hi => by
  obtain ⟨f, hf, hd⟩ := hs i hi
  exact ⟨f, hf, hd.mono h⟩

theorem UpperSolved.mono {u u' : F} (h : u ≤ u') {n q : Nat} {T : Nat → Nat → F} {y x : Nat → F}
    (hs : UpperSolved u n q T y x) : UpperSolved u' n q T y x := fun i hi => by
  obtain ⟨f, hf, hd⟩ := hs i hi
  exact ⟨f, hf, hd.mono h⟩

/-- with `u = 0` the solve bound collapses to `A x = b` (the exact theorem `gstrsN_solves` of C01) -/
theorem lu_solve_exact {n qL qU : Nat} {A L U : Nat → Nat → F} {b y x : Nat → F}
    (hLU : LUComputed (0 : F) n n qL A L U) (hy : LowerSolved (0 : F) n 0 L b y)
    (hx : UpperSolved (0 : F) n qU U y x) (i : Nat) (hi : i < n) :
    ∑ j ∈ range n, A i j * x j = b i := by
  have := lu_solve_backward_error (le_refl (0 : F)) hLU hy hx (K := 3 * n + qL + qU) (by omega)
    (by simp) i hi
  rw [gamma_u_zero, zero_mul] at this
  exact (sub_eq_zero.mp (abs_nonpos_iff.mp this)).symm

end Slu.Rounding
