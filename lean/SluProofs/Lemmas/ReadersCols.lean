import Slu.Model.Readers
import Mathlib.Data.List.Basic
import Mathlib.Data.List.Induction
/-
C16 helper lemmas: `cscOfCols` (the `a_colptr[j+1] = k` bookkeeping of FormFullA, dreadhb.c:244-271)
lays the columns out one after the other.
-/
namespace Slu.Readers

variable {α : Type}

/-- one step of the fold of `cscOfCols` -/
def colStep (acc : Array Nat × Array (Trip α)) (c : List (Trip α)) : Array Nat × Array (Trip α) :=
  (acc.1.push (acc.2.size + c.length), acc.2 ++ c.toArray)

theorem cscOfCols_eq (cols : List (List (Trip α))) : cscOfCols cols = cols.foldl colStep (#[0], #[]) := rfl

theorem cscOfCols_snoc (cols : List (List (Trip α))) (c : List (Trip α)) :
    cscOfCols (cols ++ [c]) = colStep (cscOfCols cols) c := by
  simp [cscOfCols_eq, List.foldl_append]

/-- pointers are the cumulated column lengths, the entry array is the concatenation -/
theorem cscOfCols_inv (cols : List (List (Trip α))) :
    (cscOfCols cols).1.size = cols.length + 1 ∧
    (cscOfCols cols).2.toList = cols.flatten ∧
    ∀ i, i ≤ cols.length → (cscOfCols cols).1[i]? = some (cols.take i).flatten.length := by
  induction cols using List.reverseRecOn with
  | nil => 
    refine ⟨by simp [cscOfCols], by simp [cscOfCols], ?_⟩
    intro i hi
    have : i = 0 := by simpa using hi
    subst this
    simp [cscOfCols]
  | append_singleton cols c ih =>
    obtain ⟨h1, h2, h3⟩ := ih
    rw [cscOfCols_snoc]
    refine ⟨by simp [colStep, h1], by simp [colStep, h2], ?_⟩
    intro i hi
    simp only [colStep, Array.getElem?_push, h1]
    by_cases hlast : i = cols.length + 1
    · subst hlast
      have hsz : (cscOfCols cols).2.size = cols.flatten.length := by rw [← Array.length_toList, h2]
      have htk : (cols ++ [c]).take (cols.length + 1) = cols ++ [c] := List.take_of_length_le (by simp)
      rw [htk]
      simp [hsz]
    · have hi' : i ≤ cols.length := by simp at hi; omega
      simp only [hlast, if_false]
      rw [h3 i hi', List.take_append_of_le_length hi']

theorem flatten_segment_aux (L : List (List (Trip α))) (j : Nat) (hj : j < L.length) :
    (L.flatten.drop (L.take j).flatten.length).take L[j].length = L[j] := by
  induction L generalizing j with
  | nil => simp at hj
  | cons a L ih =>
    cases j with
    | zero => simp
    | succ j =>
      have hj' : j < L.length := by simpa using hj
      simp only [List.take_succ_cons, List.flatten_cons, List.length_append, List.getElem_cons_succ]
      rw [← List.drop_drop, List.drop_left]
      exact ih j hj'

theorem flatten_segment (L : List (List (Trip α))) (j : Nat) (hj : j < L.length) :
    (L.flatten.drop (L.take j).flatten.length).take ((L.take (j + 1)).flatten.length - (L.take j).flatten.length) = L[j] := by
  have htake : L.take (j + 1) = L.take j ++ [L[j]] := by
    rw [List.take_succ_eq_append_getElem hj]
  rw [htake]
  simp only [List.flatten_append, List.flatten_cons, List.flatten_nil, List.append_nil, List.length_append,
    Nat.add_sub_cancel_left]
  exact flatten_segment_aux L j hj

/-- **the storage segment of column `j` is the `j`-th column list** -/
theorem cscOfCols_colSeg (cols : List (List (Trip α))) (j : Nat) (hj : j < cols.length) :
    colSeg (cscOfCols cols).1 (cscOfCols cols).2 j = cols[j] := by
  obtain ⟨_, h2, h3⟩ := cscOfCols_inv cols
  unfold colSeg
  rw [Array.getD_eq_getD_getElem?, Array.getD_eq_getD_getElem?, h3 j (by omega), h3 (j + 1) (by omega), h2]
  simp only [Option.getD_some]
  exact flatten_segment cols j hj

end Slu.Readers
