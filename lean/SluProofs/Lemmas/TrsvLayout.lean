import Slu.Model.Struct
import SluProofs.Lemmas.Trsv
import Mathlib.Data.List.Nodup
/-
Whatever passes the structural checker `Slu.Struct.wfb` (C03; applied by the driver to every (L, U)
pair the implementation returns) has the layout `SCLayout` the proofs of `Lemmas/Trsv.lean` use.
-/
set_option linter.unusedSectionVars false
set_option linter.unusedVariables false
namespace Slu.Kernels
open Slu Slu.Struct

variable {K : Type} [Field K] [Conj K] [Inhabited K]

theorem nodup_true : ∀ (l : List Nat), nodup l = true → l.Nodup
  | [], _ => List.nodup_nil
  | x :: xs, h => by
    simp only [nodup, Bool.and_eq_true, Bool.not_eq_true'] at h
    refine List.nodup_cons.mpr ⟨?_, nodup_true xs h.2⟩
    intro hm
    have : xs.contains x = true := by simpa using hm
    rw [this] at h; exact absurd h.1 (by simp)

theorem xsup_mono (xs : Array Nat) (N : Nat) (h : ∀ s, s < N → xs[s]! < xs[s+1]!) (a b : Nat) (hab : a ≤ b) (hb : b ≤ N) :
    xs[a]! ≤ xs[b]! := by
  induction b with
  | zero => have : a = 0 := by omega
            subst this; exact le_refl _
  | succ b ih =>
    by_cases he : a = b + 1
    · subst he; exact le_refl _
    · have := ih (by omega) (by omega)
      have := h b (by omega)
      omega

theorem layout_of_wfb (F : LUFac K) (ilu : Bool) (hn : F.L.n ≠ 0) (hsq : F.L.m = F.L.n) (h : wfb F ilu = true) :
    SCLayout F := by
  unfold wfb at h
  simp only [hn, decide_false, Bool.false_or, Bool.and_eq_true, decide_eq_true_eq, List.all_eq_true,
    List.mem_range, Bool.or_eq_true] at h
  obtain ⟨h, h19⟩ := h
  obtain ⟨h, h18⟩ := h
  obtain ⟨h, h17⟩ := h
  obtain ⟨h, h16⟩ := h
  obtain ⟨h, h15⟩ := h
  obtain ⟨h, h14⟩ := h
  obtain ⟨h, h13⟩ := h
  obtain ⟨h, h12⟩ := h
  obtain ⟨h, h11⟩ := h
  obtain ⟨h, h10⟩ := h
  obtain ⟨h, h9⟩ := h
  obtain ⟨h, h8⟩ := h
  obtain ⟨h, h7⟩ := h
  obtain ⟨h, h6⟩ := h
  obtain ⟨h, h5⟩ := h
  refine ⟨h5, h6, fun k hk => ?_⟩
  have hne := (h7 k hk).1
  have hle : F.L.xsup[k+1]! ≤ F.L.n := by
    rw [← h6]; exact xsup_mono F.L.xsup (F.L.nsuper + 1) (fun s hs => (h7 s hs).1) (k+1) (F.L.nsuper + 1) (by omega) (le_refl _)
  obtain ⟨⟨⟨⟨⟨g1, g2⟩, g3⟩, g4⟩, g5⟩, g6⟩ := h16 k hk
  -- abbreviations
  have hf : (snode F.L k).fsupc = F.L.xsup[k]! := rfl
  have hw : (snode F.L k).nsupc = F.L.xsup[k+1]! - F.L.xsup[k]! := rfl
  have hist : (snode F.L k).istart = F.L.xlsub[F.L.xsup[k]!]! := rfl
  have hnr : (snode F.L k).nsupr = F.L.xlsub[F.L.xsup[k]! + 1]! - F.L.xlsub[F.L.xsup[k]!]! := rfl
  have hlu : (snode F.L k).luptr = F.L.xlusup[F.L.xsup[k]!]! := rfl
  have hw' : F.L.xsup[k+1]! - 1 - F.L.xsup[k]! + 1 = F.L.xsup[k+1]! - F.L.xsup[k]! := by omega
  rw [hw'] at g1 g3 g4 g5 g6
  have hlen : (rowsOf F.L k).length = (snode F.L k).nsupr := by simp [rowsOf, hnr]
  have hget : ∀ p, p < (snode F.L k).nsupr → (rowsOf F.L k)[p]! = rowAt F.L (snode F.L k) p := by
    intro p hp
    rw [hnr] at hp
    simp [rowsOf, rowAt, hist, hp]
  have hdrop : ∀ p (hp1 : (snode F.L k).nsupc ≤ p) (hp2 : p < (snode F.L k).nsupr),
      rowAt F.L (snode F.L k) p = ((rowsOf F.L k).drop (F.L.xsup[k+1]! - F.L.xsup[k]!))[p - (snode F.L k).nsupc]'(by
        rw [List.length_drop, hlen]; rw [hw] at hp1 ⊢; omega) := by
    intro p hp1 hp2
    rw [List.getElem_drop, ← hget p hp2]
    have : F.L.xsup[k+1]! - F.L.xsup[k]! + (p - (snode F.L k).nsupc) = p := by rw [← hw]; omega
    simp only [this]
    rw [List.getElem!_eq_getElem?_getD, List.getElem?_eq_getElem (by rw [hlen]; exact hp2)]
    rfl
  refine ⟨by rw [hw]; omega, by rw [hf, hw]; omega, hle, fun c hc => (h7 k hk).2 c (by rw [← hw]; exact hc),
    by rw [← hlen, hw]; exact g1, ?_, ?_, ?_, ?_, ?_⟩
  · intro c hc
    rw [← hget c (by rw [← hlen]; rw [hw] at hc; omega), hf]
    exact g3 c (by rw [← hw]; exact hc)
  · intro p hp1 hp2
    have hm := g4 (rowAt F.L (snode F.L k) p) (by rw [hdrop p hp1 hp2]; exact List.getElem_mem _)
    rw [hf, hw]
    constructor
    · omega
    · rw [← hsq]; exact hm.2
  · intro p q hp1 hp2 hq1 hq2 he
    rw [hdrop p hp1 hp2, hdrop q hq1 hq2] at he
    have := (List.Nodup.getElem_inj_iff (nodup_true _ g5)).mp he
    omega
  · intro c hc
    rw [hf, hlu, ← hlen]
    induction c with
    | zero => simp
    | succ c ih =>
      have ih := ih (by omega)
      have hs := g6 c (by rw [← hw]; omega)
      have hmono := (h11 (F.L.xsup[k]! + c) (by rw [hw] at hc; omega)).1.2
      have e : F.L.xsup[k]! + (c + 1) = F.L.xsup[k]! + c + 1 := by omega
      rw [e, Nat.succ_mul]
      omega
  · intro c hc e he
    rw [hf] at he ⊢
    have hu := (h17 (F.L.xsup[k]! + c) (by rw [hw] at hc; omega)).1 e.1 (by
      unfold ucolRows
      unfold CSC.col at he
      obtain ⟨d, hd, rfl⟩ := List.mem_map.mp he
      exact List.mem_map.mpr ⟨d, hd, rfl⟩)
    rw [(h7 k hk).2 c (by rw [← hw]; exact hc)] at hu
    exact hu

end Slu.Kernels

namespace Slu.Kernels
open Slu Slu.Struct
variable {K : Type} [Inhabited K]

/-- without the ILU relaxation the checker also guarantees distinct row indices in every column of U -/
theorem ucol_nodup_of_wfb (F : LUFac K) (hn : F.L.n ≠ 0) (h : wfb F false = true) :
    ∀ j, j < F.L.n → ((F.U.col j).map Prod.fst).Nodup := by
  unfold wfb at h
  simp only [hn, decide_false, Bool.false_or, Bool.and_eq_true, decide_eq_true_eq, List.all_eq_true,
    List.mem_range, Bool.or_eq_true] at h
  obtain ⟨⟨⟨_, h17⟩, _⟩, _⟩ := h
  intro j hj
  have hnd := nodup_true _ (h17 j hj).2
  have : (F.U.col j).map Prod.fst = ucolRows F j := by
    unfold CSC.col ucolRows
    rw [List.map_map]; rfl
  rw [this]; exact hnd

theorem getElem!_nat (a : Array Nat) (i : Nat) : a[i]! = a.getD i 0 := by
  simp [Array.getElem!_eq_getD]

end Slu.Kernels
