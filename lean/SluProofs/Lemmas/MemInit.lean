import Slu.Model.Mem
import SluProofs.Lemmas.Mem
/-
`LUMemInit` (repaired) establishes the workspace invariant `Inv`, for every problem size, fill
estimate, workspace length and alignment — including every path through the retry/halving loop.
-/
namespace Slu.Mem

/-- state between the allocations of `LUMemInit` in a workspace: only the head of the stack is in use,
everything is a multiple of 4 -/
structure Mid (s : St) : Prop where
  user : s.user = true
  nexp : s.nexp = 0
  top2 : s.top2 = s.size
  used : s.used = s.top1
  t4 : s.top1 % 4 = 0
  s4 : s.size % 4 = 0
  t0 : 0 ≤ s.top1
  ts : s.top1 ≤ s.size

theorem lword_mul4 {w : Words} (hw : w.Ok) (t : MemType) (p : Int) : (p * w.lword t) % 4 = 0 := by
  obtain ⟨k1, h1⟩ := hw.liw4
  obtain ⟨k2, h2⟩ := hw.dw4
  cases t <;> simp only [Words.lword]
  · rw [h2]; have : p * (4 * k2) = 4 * (p * k2) := by ring
    rw [this]; exact Int.mul_emod_right 4 _
  · rw [h2]; have : p * (4 * k2) = 4 * (p * k2) := by ring
    rw [this]; exact Int.mul_emod_right 4 _
  · rw [h1]; have : p * (4 * k1) = 4 * (p * k1) := by ring
    rw [this]; exact Int.mul_emod_right 4 _
  · rw [h1]; have : p * (4 * k1) = 4 * (p * k1) := by ring
    rw [this]; exact Int.mul_emod_right 4 _

/-- the alignment padding is 0 or 4 when the offset is a multiple of 4 -/
theorem alignPad_cases (s : St) (p : Int) (hp : p % 4 = 0) : s.alignPad p = 0 ∨ s.alignPad p = 4 := by
  unfold St.alignPad St.addr8
  split <;> omega

/-- alignment padding put in front of array `t` (only the two scalar arrays are aligned) -/
def padOf (s : St) (t : MemType) : Int :=
  if (t = MemType.LUSUP ∨ t = MemType.UCOL) then s.alignPad s.top1 else 0

/-- first allocation of array `t` in a workspace, as a closed formula -/
theorem expand_user_first (fx : Fixes) (w : Words) (fail : Nat → Bool) (prev : Int) (t : MemType) (keep : Bool)
    (s : St) (hu : s.user = true) (hn : s.nexp = 0) :
    expand fx w fail prev t keep s =
      if s.full (prev * w.lword t) then ((s.setOff t 0).setCap t prev, none)
      else
        ((({ s with top1 := s.top1 + prev * w.lword t + padOf s t,
                    used := s.used + prev * w.lword t + padOf s t }).setOff t (s.top1 + padOf s t)).setCap t prev,
          some prev) := by
  unfold expand padOf
  rw [if_pos hn, if_neg (by simp [hu])]
  by_cases hf : s.full (prev * w.lword t)
  · simp [userMallocHead, hf]
  · simp only [userMallocHead, hf, if_false]
    cases t <;> simp [St.setOff, St.setCap, St.alignPad, St.addr8]

/-- fields that the first allocations never touch -/
structure Frame (s s' : St) : Prop where
  user : s'.user = s.user
  base4 : s'.base4 = s.base4
  n : s'.n = s.n
  size : s'.size = s.size
  top2 : s'.top2 = s.top2
  hdrOk : s'.hdrOk = s.hdrOk
  hdrEnd : s'.hdrEnd = s.hdrEnd
  nexp : s'.nexp = s.nexp

theorem Frame.refl (s : St) : Frame s s := ⟨rfl, rfl, rfl, rfl, rfl, rfl, rfl, rfl⟩
theorem Frame.trans {a b c : St} (h1 : Frame a b) (h2 : Frame b c) : Frame a c :=
  ⟨h2.user.trans h1.user, h2.base4.trans h1.base4, h2.n.trans h1.n, h2.size.trans h1.size, h2.top2.trans h1.top2,
   h2.hdrOk.trans h1.hdrOk, h2.hdrEnd.trans h1.hdrEnd, h2.nexp.trans h1.nexp⟩

/-- one first allocation: the intermediate invariant is kept whether or not the array fits; if it
fits, it lies between the old and the new `top1` -/
theorem first_step (fx : Fixes) (w : Words) (hw : w.Ok) (fail : Nat → Bool) (prev : Int) (t : MemType) (keep : Bool)
    (s : St) (hm : Mid s) (hp : 0 ≤ prev) :
    Mid (expand fx w fail prev t keep s).1 ∧ Frame s (expand fx w fail prev t keep s).1 ∧
    (∀ t', t' ≠ t → (expand fx w fail prev t keep s).1.off t' = s.off t' ∧
                     (expand fx w fail prev t keep s).1.cap t' = s.cap t') ∧
    (expand fx w fail prev t keep s).1.cap t = prev ∧
    s.top1 ≤ (expand fx w fail prev t keep s).1.top1 ∧
    ((expand fx w fail prev t keep s).2.isSome = true →
      s.top1 ≤ (expand fx w fail prev t keep s).1.off t ∧
      (expand fx w fail prev t keep s).1.off t + prev * w.lword t = (expand fx w fail prev t keep s).1.top1) := by
  obtain ⟨hu, hn, h2, hus, h4, hs4, h0, hts⟩ := hm
  rw [expand_user_first _ _ _ _ _ _ _ hu hn]
  have hb4 := lword_mul4 hw t prev
  have hb0 : 0 ≤ prev * w.lword t := Int.mul_nonneg hp (le_of_lt (hw.lword_pos t))
  have hpad : padOf s t = 0 ∨ padOf s t = 4 := by
    unfold padOf; split
    · exact alignPad_cases s _ h4
    · exact Or.inl rfl
  generalize prev * w.lword t = bytes at *
  generalize padOf s t = pad at *
  by_cases hf : s.full bytes
  · rw [if_pos hf]
    refine ⟨?_, ?_, ?_, ?_, ?_, ?_⟩
    · cases t <;> constructor <;> simp [St.setOff, St.setCap] <;> omega
    · cases t <;> constructor <;> simp [St.setOff, St.setCap]
    · intro t' ht'; cases t <;> cases t' <;> simp_all [St.setOff, St.setCap, St.off, St.cap]
    · cases t <;> simp [St.setOff, St.setCap, St.cap]
    · cases t <;> simp [St.setOff, St.setCap]
    · simp
  · rw [if_neg hf]
    simp only [St.full] at hf
    refine ⟨?_, ?_, ?_, ?_, ?_, ?_⟩
    · cases t <;> constructor <;> simp [St.setOff, St.setCap] <;> omega
    · cases t <;> constructor <;> simp [St.setOff, St.setCap]
    · intro t' ht'; cases t <;> cases t' <;> simp_all [St.setOff, St.setCap, St.off, St.cap]
    · cases t <;> simp [St.setOff, St.setCap, St.cap]
    · cases t <;> simp [St.setOff, St.setCap] <;> omega
    · intro _; cases t <;> simp [St.setOff, St.setCap, St.off] <;> omega

/-- the four arrays are allocated, in address order, right behind where the stack head was -/
structure Arr4 (w : Words) (s0 s : St) (nzlu nzu nzl : Int) : Prop where
  capL : s.capL = nzlu
  capU : s.capU = nzu
  capS : s.capS = nzl
  capB : s.capB = nzu
  c1 : s0.top1 ≤ s.offL
  c2 : s.offL + nzlu * w.dw ≤ s.offU
  c3 : s.offU + nzu * w.dw ≤ s.offS
  c4 : s.offS + nzl * w.liw ≤ s.offB
  c5 : s.offB + nzu * w.liw = s.top1

theorem init4_spec (fx : Fixes) (w : Words) (hw : w.Ok) (fail : Nat → Bool) (nzlu nzu nzl : Int) (s : St)
    (hm : Mid s) (h1 : 0 ≤ nzlu) (h2 : 0 ≤ nzu) (h3 : 0 ≤ nzl) :
    Mid (init4 fx w fail nzlu nzu nzl s).1 ∧ Frame s (init4 fx w fail nzlu nzu nzl s).1 ∧
    ((init4 fx w fail nzlu nzu nzl s).2 = true → Arr4 w s (init4 fx w fail nzlu nzu nzl s).1 nzlu nzu nzl) := by
  simp only [init4]
  obtain ⟨m1, f1, o1, cp1, t1, ok1⟩ := first_step fx w hw fail nzlu .LUSUP false s hm h1
  obtain ⟨m2, f2, o2, cp2, t2, ok2⟩ := first_step fx w hw fail nzu .UCOL false _ m1 h2
  obtain ⟨m3, f3, o3, cp3, t3, ok3⟩ := first_step fx w hw fail nzl .LSUB false _ m2 h3
  obtain ⟨m4, f4, o4, cp4, t4, ok4⟩ := first_step fx w hw fail nzu .USUB true _ m3 h2
  refine ⟨m4, (f1.trans f2).trans (f3.trans f4), ?_⟩
  intro hall
  simp only [Bool.and_eq_true] at hall
  obtain ⟨⟨⟨e1, e2⟩, e3⟩, e4⟩ := hall
  obtain ⟨p1, q1⟩ := ok1 e1
  obtain ⟨p2, q2⟩ := ok2 e2
  obtain ⟨p3, q3⟩ := ok3 e3
  obtain ⟨p4, q4⟩ := ok4 e4
  have aL2 := o2 .LUSUP (by decide); have aL3 := o3 .LUSUP (by decide); have aL4 := o4 .LUSUP (by decide)
  have aU3 := o3 .UCOL (by decide); have aU4 := o4 .UCOL (by decide)
  have aS4 := o4 .LSUB (by decide)
  simp only [St.off, St.cap, Words.lword] at *
  constructor <;> omega

/-- the retry/halving loop: whenever it ends with the four arrays allocated, they are laid out right
behind the pointer arrays, whatever happened in the failed attempts before -/
theorem initLoop_spec (fx : Fixes) (h3 : fx.d3 = true) (w : Words) (hw : w.Ok) (fail : Nat → Bool) (annz : Int) :
    ∀ (fuel : Nat) (nzlu nzu nzl : Int) (s : St), Mid s → 0 ≤ nzlu → 0 ≤ nzu → 0 ≤ nzl →
      ∀ (s' : St) (a b c : Int), initLoop fx w fail annz fuel nzlu nzu nzl s = (s', .ok a b c) →
        Mid s' ∧ Frame s s' ∧ Arr4 w s s' a b c ∧ 0 ≤ a ∧ 0 ≤ b ∧ 0 ≤ c := by
  intro fuel
  induction fuel with
  | zero => intro nzlu nzu nzl s _ _ _ _ s' a b c h; simp [initLoop] at h
  | succ f ih =>
    intro nzlu nzu nzl s hm h1 h2 h3' s' a b c h
    simp only [initLoop] at h
    obtain ⟨m4, f4, a4⟩ := init4_spec fx w hw fail nzlu nzu nzl s hm h1 h2 h3'
    cases hi : init4 fx w fail nzlu nzu nzl s with
    | mk s4 ok =>
      rw [hi] at m4 f4 a4 h
      dsimp only at m4 f4 a4
      cases ok with
      | true =>
        simp only [] at h
        injection h with hs hr
        injection hr with ha hb hc
        subst hs; subst ha; subst hb; subst hc
        exact ⟨m4, f4, a4 rfl, h1, h2, h3'⟩
      | false =>
        simp only [] at h
        have hu' := hm.user
        simp only [hu', h3, Bool.true_eq_false, if_false, if_true] at h
        split at h
        · simp at h
        · have hm5 : Mid { s4 with used := s.used, top1 := s.top1 } := by
            obtain ⟨hu, hn, h2', hus, h4, hs4, h0, hts⟩ := hm
            obtain ⟨fu, fb, fn, fs, ft2, fo, fe, fx⟩ := f4
            exact ⟨fu.trans hu, fx.trans hn, by simp only []; rw [ft2, fs]; exact h2', hus, h4,
              by simp only []; rw [fs]; exact hs4, h0, by simp only []; rw [fs]; exact hts⟩
          have hf5 : Frame s { s4 with used := s.used, top1 := s.top1 } := by
            obtain ⟨fu, fb, fn, fs, ft2, fo, fe, fx⟩ := f4
            constructor <;> simp <;> assumption
          obtain ⟨r1, r2, r3, r4, r5, r6⟩ := ih (nzlu / 2) (nzu / 2) (nzl / 2) _ hm5 (by omega) (by omega) (by omega) s' a b c h
          refine ⟨r1, hf5.trans r2, ?_, r4, r5, r6⟩
          obtain ⟨k1, k2, k3, k4, k5, k6, k7, k8, k9⟩ := r3
          exact ⟨k1, k2, k3, k4, by simpa using k5, k6, k7, k8, k9⟩

/-! ### the pointer arrays and the work arrays -/

theorem umh_ok (b : Int) (s : St) (h : (userMallocHead b s).2.isSome = true) :
    (userMallocHead b s).1 = { s with top1 := s.top1 + b, used := s.used + b } ∧ b + s.used < s.size := by
  unfold userMallocHead at h ⊢
  by_cases hf : s.full b
  · simp [hf] at h
  · simp only [hf, if_false]; simp only [St.full] at hf; exact ⟨trivial, by omega⟩

/-- if all five pointer arrays fit, they occupy `[0, 2*hb + 3*hbl)` and nothing else is in use -/
theorem hdrAlloc_spec (hb hbl : Int) (s0 : St) (h0 : 0 ≤ hb) (hb4 : hb % 4 = 0) (h0l : 0 ≤ hbl) (hbl4 : hbl % 4 = 0)
    (hu : s0.user = true) (hn : s0.nexp = 0)
    (ht1 : s0.top1 = 0) (hus : s0.used = 0) (ht2 : s0.top2 = s0.size) (hs4 : s0.size % 4 = 0)
    (hok : (hdrAlloc hb hbl s0).hdrOk = true) :
    Mid (hdrAlloc hb hbl s0) ∧ (hdrAlloc hb hbl s0).top1 = 2 * hb + 3 * hbl ∧
      (hdrAlloc hb hbl s0).hdrEnd = 2 * hb + 3 * hbl ∧
      (hdrAlloc hb hbl s0).n = s0.n ∧ (hdrAlloc hb hbl s0).base4 = s0.base4 ∧ (hdrAlloc hb hbl s0).size = s0.size := by
  simp only [hdrAlloc, Bool.and_eq_true] at hok ⊢
  obtain ⟨⟨⟨⟨e1, e2⟩, e3⟩, e4⟩, e5⟩ := hok
  obtain ⟨r1, q1⟩ := umh_ok _ _ e1
  rw [r1] at e2 e3 e4 e5 ⊢
  obtain ⟨r2, q2⟩ := umh_ok _ _ e2
  rw [r2] at e3 e4 e5 ⊢
  obtain ⟨r3, q3⟩ := umh_ok _ _ e3
  rw [r3] at e4 e5 ⊢
  obtain ⟨r4, q4⟩ := umh_ok _ _ e4
  rw [r4] at e5 ⊢
  obtain ⟨r5, q5⟩ := umh_ok _ _ e5
  rw [r5]
  simp only [] at q1 q2 q3 q4 q5
  refine ⟨?_, ?_, ?_, rfl, rfl, rfl⟩
  · constructor <;> simp <;> omega
  · simp; omega
  · simp; omega

theorem addr8_cases (s : St) (p : Int) (hp : p % 4 = 0) : s.addr8 p = 0 ∨ s.addr8 p = 4 := by
  unfold St.addr8; split <;> omega

/-- the two work arrays at the tail: if both fit, the full invariant holds -/
theorem workInit_inv (c : Cfg) (hw : c.w.Ok) (s0 s : St) (hm : Mid s) (hn : 1 ≤ c.n) (hsn : s.n = c.n)
    (hI : 0 ≤ isize c) (hD : 0 ≤ dsize c) (hI4 : isize c % 4 = 0) (hD4 : dsize c % 4 = 0)
    (hh : 0 ≤ s.hdrEnd - (2 * ((s.n + 1) * c.w.iw) + 3 * ((s.n + 1) * c.w.liw))) (a b cc : Int) (ha : 0 ≤ a) (hb : 0 ≤ b) (hc : 0 ≤ cc)
    (arr : Arr4 c.w s0 s a b cc) (h0 : s.hdrEnd ≤ s0.top1) (h : (workInitUser c s).2 = 0) :
    Inv c.w { (workInitUser c s).1 with nexp := (workInitUser c s).1.nexp + 1 } := by
  obtain ⟨hu, hne, h2, hus, h4, hs4, ht0, hts⟩ := hm
  obtain ⟨k1, k2, k3, k4, k5, k6, k7, k8, k9⟩ := arr
  unfold workInitUser userMallocTail at h ⊢
  by_cases f1 : s.full (isize c)
  · simp only [f1, if_true] at h; omega
  · simp only [f1, if_false] at h ⊢
    by_cases f2 : ({ s with top2 := s.top2 - isize c, used := s.used + isize c, iwork := s.top2 - isize c,
                            iworkLen := isize c } : St).full (dsize c)
    · simp only [f2, if_true] at h; omega
    · simp only [f2, if_false] at h ⊢
      simp only [St.full] at f1 f2
      have hp4 : (s.top2 - isize c - dsize c) % 4 = 0 := by omega
      have hcases : ((if s.base4 = true then 4 else 0) + (s.top2 - isize c - dsize c)) % 8 = 0 ∨
          ((if s.base4 = true then 4 else 0) + (s.top2 - isize c - dsize c)) % 8 = 4 := by
        split <;> omega
      simp only [St.addr8]
      subst k1; subst k2; subst k3
      rcases hcases with hc0 | hc4
      · constructor <;> simp [hc0] <;> omega
      · constructor <;> simp [hc4] <;> omega

theorem initLoop_short_nonneg (fx : Fixes) (w : Words) (fail : Nat → Bool) (annz : Int) :
    ∀ (fuel : Nat) (nzlu nzu nzl : Int) (s : St), 0 ≤ nzlu → 0 ≤ nzu → 0 ≤ nzl →
      ∀ (s' : St) (a b c : Int), initLoop fx w fail annz fuel nzlu nzu nzl s = (s', .short a b c) →
        0 ≤ a ∧ 0 ≤ b ∧ 0 ≤ c := by
  intro fuel
  induction fuel with
  | zero => intro nzlu nzu nzl s _ _ _ s' a b c h; simp [initLoop] at h
  | succ f ih =>
    intro nzlu nzu nzl s h1 h2 h3 s' a b c h
    simp only [initLoop] at h
    cases hi : init4 fx w fail nzlu nzu nzl s with
    | mk s4 ok =>
      rw [hi] at h
      cases ok with
      | true => simp at h
      | false =>
        simp only [] at h
        split at h
        · injection h with _ hr
          injection hr with ha hb hc
          subst ha; subst hb; subst hc
          refine ⟨?_, ?_, ?_⟩ <;> omega
        · exact ih _ _ _ _ (by omega) (by omega) (by omega) s' a b c h

theorem initLoop_ok_nonneg (fx : Fixes) (w : Words) (fail : Nat → Bool) (annz : Int) :
    ∀ (fuel : Nat) (nzlu nzu nzl : Int) (s : St), 0 ≤ nzlu → 0 ≤ nzu → 0 ≤ nzl →
      ∀ (s' : St) (a b c : Int), initLoop fx w fail annz fuel nzlu nzu nzl s = (s', .ok a b c) →
        0 ≤ a ∧ 0 ≤ b ∧ 0 ≤ c := by
  intro fuel
  induction fuel with
  | zero => intro nzlu nzu nzl s _ _ _ s' a b c h; simp [initLoop] at h
  | succ f ih =>
    intro nzlu nzu nzl s h1 h2 h3 s' a b c h
    simp only [initLoop] at h
    cases hi : init4 fx w fail nzlu nzu nzl s with
    | mk s4 ok =>
      rw [hi] at h
      cases ok with
      | true =>
        simp only [] at h
        injection h with _ hr
        injection hr with ha hb hc
        subst ha; subst hb; subst hc
        exact ⟨h1, h2, h3⟩
      | false =>
        simp only [] at h
        split at h
        · simp at h
        · exact ih _ _ _ _ (by omega) (by omega) (by omega) s' a b c h

theorem memoryUsage_nonneg (w : Words) (hw : w.Ok) (a b c n : Int) (ha : 0 ≤ a) (hb : 0 ≤ b) (hc : 0 ≤ c) (hn : 0 ≤ n) :
    10 * n ≤ memoryUsage w a b c n := by
  unfold memoryUsage
  rw [hw.iw]
  have e1 : 0 ≤ a * w.liw := Int.mul_nonneg ha (le_of_lt hw.liw_pos)
  have e2 : 0 ≤ b * (w.liw + w.dw) := Int.mul_nonneg hb (by have := hw.dw_pos; have := hw.liw_pos; omega)
  have e3 : 0 ≤ c * w.dw := Int.mul_nonneg hc (le_of_lt hw.dw_pos)
  omega

theorem workInitUser_code (c : Cfg) (s : St) (hn : 1 ≤ c.n) (hI : 0 ≤ isize c) (hD : 0 ≤ dsize c) :
    (workInitUser c s).2 = 0 ∨ 1 ≤ (workInitUser c s).2 := by
  unfold workInitUser userMallocTail
  by_cases f1 : s.full (isize c)
  · simp only [f1, if_true]; right; omega
  · simp only [f1, if_false]
    split
    · rename_i heq
      split at heq
      · simp at heq; right; omega
      · simp at heq
    · left; rfl

/-- the retry loop terminates: with `nnz(A) ≥ 1` the halved lengths fall below `nnz(A)` before the fuel of
the model runs out (so the model never reports "the C loop would not terminate") -/
theorem initLoop_no_spin (fx : Fixes) (w : Words) (fail : Nat → Bool) (annz : Int) (ha : 1 ≤ annz) :
    ∀ (fuel : Nat) (nzlu nzu nzl : Int) (s : St), 0 ≤ nzlu → nzlu < (fuel : Int) →
      (initLoop fx w fail annz fuel nzlu nzu nzl s).2 ≠ .spin := by
  intro fuel
  induction fuel with
  | zero => intro nzlu nzu nzl s h0 h1; simp at h1; omega
  | succ f ih =>
    intro nzlu nzu nzl s h0 h1
    simp only [initLoop]
    cases hi : init4 fx w fail nzlu nzu nzl s with
    | mk s4 ok =>
      cases ok with
      | true => simp
      | false =>
        simp only []
        split
        · simp
        · exact ih _ _ _ _ (by omega) (by push_cast at h1 ⊢; omega)

theorem memInit_no_spin (fx : Fixes) (fail : Nat → Bool) (c : Cfg) (ha : 1 ≤ c.annz) (hnz : 0 ≤ c.fill * c.annz) :
    (memInit fx fail c).spin = false := by
  unfold memInit
  simp only []
  generalize (if (setupSpace c).user = false then setupSpace c
    else hdrAlloc ((c.n + 1) * c.w.iw) ((c.n + 1) * (if fx.d11 = true then c.w.liw else c.w.iw)) (setupSpace c)) = s1
  by_cases hd : fx.d3 = true ∧ s1.hdrOk = false
  · rw [if_pos hd]
  · rw [if_neg hd]
    have hns := initLoop_no_spin fx c.w fail c.annz ha ((c.fill * c.annz).toNat + 2) (c.fill * c.annz)
        (c.fill * c.annz) (c.fill * c.annz) s1 hnz (by push_cast; omega)
    cases hl : initLoop fx c.w fail c.annz ((c.fill * c.annz).toNat + 2) (c.fill * c.annz) (c.fill * c.annz)
        (c.fill * c.annz) s1 with
    | mk s2 al =>
      rw [hl] at hns
      cases al with
      | spin => exact absurd rfl hns
      | short a b cc => rfl
      | ok a b cc =>
        simp only []
        by_cases hs : s2.user = true <;> simp only [hs, if_true, if_false] <;>
          (split <;> (first | rfl | (split <;> rfl)))

theorem workInitSys_code (c : Cfg) (fail : Nat → Bool) (s : St) (hn : 1 ≤ c.n) (hI : 0 ≤ isize c) (hD : 0 ≤ dsize c) :
    (workInitSys c fail s).2 = 0 ∨ 1 ≤ (workInitSys c fail s).2 := by
  unfold workInitSys
  by_cases hf : fail s.mallocs = true
  · simp only [hf, if_true]; right; omega
  · simp only [hf]; left; rfl

/-- a nonzero return value of `LUMemInit` exceeds `n` -/
theorem memInit_info_gt (fx : Fixes) (fail : Nat → Bool) (c : Cfg) (hw : c.w.Ok) (hn : 1 ≤ c.n) (ha : 1 ≤ c.annz)
    (hI : 0 ≤ isize c) (hD : 0 ≤ dsize c) (hnz : 0 ≤ c.fill * c.annz)
    (h : (memInit fx fail c).info ≠ 0) : c.n < (memInit fx fail c).info := by
  unfold memInit at h ⊢
  simp only [] at h ⊢
  generalize (if (setupSpace c).user = false then setupSpace c
    else hdrAlloc ((c.n + 1) * c.w.iw) ((c.n + 1) * (if fx.d11 = true then c.w.liw else c.w.iw)) (setupSpace c)) = s1 at h ⊢
  by_cases hd : fx.d3 = true ∧ s1.hdrOk = false
  · rw [if_pos hd] at h ⊢
    have := memoryUsage_nonneg c.w hw _ _ _ c.n hnz hnz hnz (by omega)
    show c.n < memoryUsage c.w (c.fill * c.annz) (c.fill * c.annz) (c.fill * c.annz) c.n + c.n
    omega
  · rw [if_neg hd] at h ⊢
    have hns := initLoop_no_spin fx c.w fail c.annz ha ((c.fill * c.annz).toNat + 2) (c.fill * c.annz)
        (c.fill * c.annz) (c.fill * c.annz) s1 hnz (by push_cast; omega)
    revert h
    cases hl : initLoop fx c.w fail c.annz ((c.fill * c.annz).toNat + 2) (c.fill * c.annz) (c.fill * c.annz)
        (c.fill * c.annz) s1 with
    | mk s2 al =>
      intro h
      rw [hl] at hns
      cases al with
      | spin => exact absurd rfl hns
      | short a b cc =>
        obtain ⟨h1, h2, h3⟩ := initLoop_short_nonneg _ _ _ _ _ _ _ _ _ hnz hnz hnz _ _ _ _ hl
        have := memoryUsage_nonneg c.w hw _ _ _ c.n h3 h2 h1 (by omega)
        show c.n < memoryUsage c.w cc b a c.n + c.n
        omega
      | ok a b cc =>
        have hnn : 0 ≤ a ∧ 0 ≤ b ∧ 0 ≤ cc := initLoop_ok_nonneg _ _ _ _ _ _ _ _ _ hnz hnz hnz _ _ _ _ hl
        obtain ⟨h1, h2, h3⟩ := hnn
        have hmu := memoryUsage_nonneg c.w hw _ _ _ c.n h3 h2 h1 (by omega)
        simp only [] at h ⊢
        by_cases hs : s2.user = true
        · simp only [hs, if_true] at h ⊢
          rcases workInitUser_code c s2 hn hI hD with hz | hp
          · simp [hz] at h
          · have hne : ¬ ((workInitUser c s2).2 = 0) := by omega
            simp only [ne_eq, hne, not_false_eq_true, if_true]
            show c.n < (workInitUser c s2).2 + memoryUsage c.w cc b a c.n + c.n
            omega
        · have hs' : s2.user = false := by simpa using hs
          simp only [hs', Bool.false_eq_true, if_false] at h ⊢
          rcases workInitSys_code c fail s2 hn hI hD with hz | hp
          · simp [hz] at h
          · have hne : ¬ ((workInitSys c fail s2).2 = 0) := by omega
            simp only [ne_eq, hne, not_false_eq_true, if_true]
            show c.n < (workInitSys c fail s2).2 + memoryUsage c.w cc b a c.n + c.n
            omega

/-- **`LUMemInit` (repaired) establishes the invariant**: for every matrix size, fill estimate,
workspace length `lwork > 0` and alignment, if the routine returns 0 then the state it leaves satisfies
`Inv` — whatever happened in the retry/halving loop. -/
theorem memInit_inv_of_d3 (fx : Fixes) (h3 : fx.d3 = true) (h11 : fx.d11 = true) (fail : Nat → Bool) (c : Cfg) (hw : c.w.Ok) (hl : 0 < c.lwork)
    (hn : 1 ≤ c.n) (hI : 0 ≤ isize c) (hD : 0 ≤ dsize c) (hnz : 0 ≤ c.fill * c.annz)
    (hspin : (memInit fx fail c).spin = false) (h : (memInit fx fail c).info = 0) :
    Inv c.w (memInit fx fail c).st := by
  have hI4 : isize c % 4 = 0 := by
    unfold isize; rw [hw.iw]; omega
  have hD4 : dsize c % 4 = 0 := by
    unfold dsize; obtain ⟨k, hk⟩ := hw.dw4; rw [hk]
    have : (c.m * c.panel + numTempv c) * (4 * k) = 4 * ((c.m * c.panel + numTempv c) * k) := by ring
    rw [this]; exact Int.mul_emod_right 4 _
  have hhb0 : 0 ≤ (c.n + 1) * c.w.iw := by rw [hw.iw]; omega
  have hhb4 : ((c.n + 1) * c.w.iw) % 4 = 0 := by rw [hw.iw]; omega
  have hhl0 : 0 ≤ (c.n + 1) * c.w.liw := Int.mul_nonneg (by omega) (le_of_lt hw.liw_pos)
  have hhl4 : ((c.n + 1) * c.w.liw) % 4 = 0 := by
    obtain ⟨k, hk⟩ := hw.liw4; rw [hk]
    have : (c.n + 1) * (4 * k) = 4 * ((c.n + 1) * k) := by ring
    rw [this]; exact Int.mul_emod_right 4 _
  have hs0 : setupSpace c = { user := true, base4 := c.base4, n := c.n, top2 := (c.lwork / 4) * 4, size := (c.lwork / 4) * 4 } := by
    unfold setupSpace; rw [if_neg (by omega)]
  unfold memInit at h hspin ⊢
  simp only [hs0, h3, h11, Bool.true_eq_false, if_false, if_true, true_and] at h hspin ⊢
  by_cases hok : (hdrAlloc ((c.n + 1) * c.w.iw) ((c.n + 1) * c.w.liw)
      { user := true, base4 := c.base4, n := c.n, top2 := (c.lwork / 4) * 4, size := (c.lwork / 4) * 4 }).hdrOk = false
  · simp only [hok, if_true] at h
    have := memoryUsage_nonneg c.w hw _ _ _ c.n hnz hnz hnz (by omega)
    omega
  · simp only [hok, if_false] at h hspin ⊢
    have hok' : (hdrAlloc ((c.n + 1) * c.w.iw) ((c.n + 1) * c.w.liw)
      { user := true, base4 := c.base4, n := c.n, top2 := (c.lwork / 4) * 4, size := (c.lwork / 4) * 4 }).hdrOk = true := by
      simpa using hok
    obtain ⟨hm, ht1, he, hn', hb', hsz⟩ := hdrAlloc_spec _ _ _ hhb0 hhb4 hhl0 hhl4 rfl rfl rfl rfl rfl (by simp) hok'
    simp only [] at hn' hb' hsz
    generalize hdrAlloc ((c.n + 1) * c.w.iw) ((c.n + 1) * c.w.liw)
      { user := true, base4 := c.base4, n := c.n, top2 := (c.lwork / 4) * 4, size := (c.lwork / 4) * 4 } = s1 at *
    revert h hspin
    cases hloop : initLoop fx c.w fail c.annz ((c.fill * c.annz).toNat + 2) (c.fill * c.annz)
        (c.fill * c.annz) (c.fill * c.annz) s1 with
    | mk s2 al =>
      intro h hspin
      cases al with
      | spin => simp at hspin
      | short a b cc =>
        simp at h
        obtain ⟨ha, hb, hcc⟩ := initLoop_short_nonneg _ _ _ _ _ _ _ _ _ hnz hnz hnz _ _ _ _ hloop
        have := memoryUsage_nonneg c.w hw _ _ _ c.n hcc hb ha (by omega)
        omega
      | ok a b cc =>
        obtain ⟨m2, f2, arr, ha, hb, hcc⟩ := initLoop_spec fx h3 c.w hw fail c.annz _ _ _ _ s1 hm hnz hnz hnz _ _ _ _ hloop
        simp only [] at h ⊢
        have hu2 : s2.user = true := m2.user
        simp only [hu2, if_true] at h ⊢
        rcases workInitUser_code c s2 hn hI hD with hz | hp
        · simp only [hz, ne_eq, not_true_eq_false, if_false] at h ⊢
          refine workInit_inv c hw s1 s2 m2 hn (by rw [f2.n, hn']) hI hD hI4 hD4 ?_ a b cc ha hb hcc arr ?_ hz
          · rw [f2.hdrEnd, f2.n, he, hn']; omega
          · rw [f2.hdrEnd, he, ht1]
        · have := memoryUsage_nonneg c.w hw _ _ _ c.n hcc hb ha (by omega)
          have hne : ¬ ((workInitUser c s2).2 = 0) := by omega
          simp [hne] at h
          omega

theorem memInit_fixed_inv (fail : Nat → Bool) (c : Cfg) (hw : c.w.Ok) (hl : 0 < c.lwork) (hn : 1 ≤ c.n)
    (hI : 0 ≤ isize c) (hD : 0 ≤ dsize c) (hnz : 0 ≤ c.fill * c.annz)
    (hspin : (memInit fixed fail c).spin = false) (h : (memInit fixed fail c).info = 0) :
    Inv c.w (memInit fixed fail c).st :=
  memInit_inv_of_d3 fixed rfl rfl fail c hw hl hn hI hD hnz hspin h

end Slu.Mem
