import Slu.Model.IluDrop
import Mathlib.Tactic.Linarith
import Mathlib.Algebra.Order.Field.Rat
/-
C15 — lemmas about the row-dropping model `Slu.IluDrop` (Slu/Model/IluDrop.lean): the loop invariant of the two
dropping loops of `ilu_[sd]drop_row`, valid for EVERY scalar instance `DropOps` (Float, Float32, Rat).
-/
namespace Slu.IluDrop
open Slu Slu.Ilu Slu.QSelect

theorem get!_set {α} [Inhabited α] (a : Array α) (i j : Nat) (v : α) :
    (a.setIfInBounds i v)[j]! = if i = j ∧ i < a.size then v else a[j]! := by
  simp only [getElem!_def, Array.getElem?_setIfInBounds]
  by_cases h : i = j
  · subst h
    by_cases h2 : i < a.size <;> simp [h2]
  · simp [h]

variable {K R T : Type} [Inhabited K] [Inhabited R] [LT R] [DecidableLT R]

/-- one accumulation step of the MILU compensation row (l.148-163) -/
def accStep (ops : DropOps K R T) (milu : Milu) (acc x : Array K) : Array K :=
  match milu with
  | .smilu1 | .smilu2 => Array.zipWith ops.add acc x
  | .smilu3 => Array.zipWith ops.addAbs acc x
  | .silu => acc

/-- the content of row `m-1` after the rows `xs` were dropped in this order: the first one as it is (through `fabs`
under SMILU_3), the later ones accumulated in order — the exact order of the floating-point additions -/
def accOf (ops : DropOps K R T) (milu : Milu) : List (Array K) → Array K
  | [] => #[]
  | x :: xs => xs.foldl (accStep ops milu) (if milu == .smilu3 then x.map ops.absK else x)

theorem accOf_snoc (ops : DropOps K R T) (milu : Milu) (x : Array K) (xs : List (Array K)) (y : Array K) :
    accOf ops milu ((x :: xs) ++ [y]) = accStep ops milu (accOf ops milu (x :: xs)) y := by
  simp [accOf, List.foldl_append]

/-- the invariant of both dropping loops; `rows0`, `subs0` are the block on entry -/
structure Inv (ops : DropOps K R T) (milu : Milu) (m n : Nat) (rows0 : Array (Array K)) (subs0 : Array Int)
    (s : DSt K R) : Prop where
  rsize : s.rows.size = m
  ssize : s.subs.size = m
  osize : s.orig.size = m
  cnt : s.m1 + 1 + s.r = m
  tlen : s.trace.length = s.r
  n_le : n ≤ s.m1 + 1
  kept : ∀ p, p ≤ s.m1 → s.rows[p]! = rows0[s.orig[p]!]! ∧ s.subs[p]! = subs0[s.orig[p]!]! ∧ s.orig[p]! < m
  diag : ∀ p, p < n → s.orig[p]! = p
  inj : ∀ p q, p < m → q < m → s.orig[p]! = s.orig[q]! → p = q
  /-- the k-th dropped row (in time order) sits at position `m-1-k` of the ghost map -/
  gone : ∀ k, k < s.r → (s.trace.reverse[k]!).1 = s.orig[m - 1 - k]!
  acc : 0 < s.r → s.rows[m - 1]! = accOf ops milu (s.trace.reverse.map fun e => rows0[e.1]!)
  olt : ∀ p, p < m → s.orig[p]! < m

theorem inv_init (ops : DropOps K R T) (milu : Milu) (m n : Nat) (hnm : n < m) (rows0 : Array (Array K)) (subs0 : Array Int)
    (hr : rows0.size = m) (hs : subs0.size = m) (temp : Array R) (a b : R) :
    Inv ops milu m n rows0 subs0 { rows := rows0, subs := subs0, temp := temp, m1 := m - 1, r := 0, dmax := a, dmin := b, orig := Array.range m } := by
  have hg : ∀ p, p < m → (Array.range m)[p]! = p := by
    intro p hp; simp [getElem!_def, hp]
  refine ⟨hr, hs, by simp, by simp; omega, rfl, by simp; omega, ?_, ?_, ?_, ?_, ?_, fun p hp => by rw [hg p hp]; exact hp⟩
  · intro p hp
    have : p < m := by simp at hp; omega
    simp [hg p this, this]
  · intro p hp; exact hg p (by omega)
  · intro p q hp hq h; simpa [hg p hp, hg q hq] using h
  · intro k hk; simp at hk
  · intro h; simp at h


/-! ### `dropAt` -/

theorem dropAt_rows_pos (ops : DropOps K R T) (milu : Milu) (m : Nat) (s : DSt K R) (i : Nat) (c : R) (hr : 0 < s.r) :
    (dropAt ops milu m s i c).rows =
      (s.rows.setIfInBounds (m - 1) (accStep ops milu s.rows[m - 1]! s.rows[i]!)).setIfInBounds i
        (s.rows.setIfInBounds (m - 1) (accStep ops milu s.rows[m - 1]! s.rows[i]!))[s.m1]! := by
  have : 1 < s.r + 1 := by omega
  simp only [dropAt, this, if_true]
  rfl

theorem dropAt_rows_zero (ops : DropOps K R T) (milu : Milu) (m : Nat) (s : DSt K R) (i : Nat) (c : R) (hr : s.r = 0) :
    (dropAt ops milu m s i c).rows =
      let rows := (s.rows.setIfInBounds s.m1 s.rows[i]!).setIfInBounds i s.rows[s.m1]!
      if milu == .smilu3 then rows.setIfInBounds s.m1 (rows[s.m1]!.map ops.absK) else rows := by
  have : ¬ 1 < s.r + 1 := by omega
  simp only [dropAt, this, if_false]

theorem get!_set_ne {α} [Inhabited α] (a : Array α) (i j : Nat) (v : α) (h : i ≠ j) :
    (a.setIfInBounds i v)[j]! = a[j]! := by rw [get!_set]; simp [h]

theorem get!_set_eq {α} [Inhabited α] (a : Array α) (i : Nat) (v : α) (h : i < a.size) :
    (a.setIfInBounds i v)[i]! = v := by rw [get!_set]; simp [h]

/-- the exchange of positions `a` and `b` -/
def swp (a b p : Nat) : Nat := if p = a then b else if p = b then a else p

theorem dropAt_orig (ops : DropOps K R T) (milu : Milu) (m : Nat) (s : DSt K R) (i : Nat) (c : R)
    (osize : s.orig.size = m) (hi : i < m) (hm1 : s.m1 < m) (p : Nat) :
    (dropAt ops milu m s i c).orig[p]! = s.orig[swp s.m1 i p]! := by
  show ((s.orig.setIfInBounds i s.orig[s.m1]!).setIfInBounds s.m1 s.orig[i]!)[p]! = _
  unfold swp
  by_cases h1 : p = s.m1
  · rw [h1, get!_set_eq _ _ _ (by simp [osize, hm1])]; simp
  · rw [get!_set_ne _ _ _ _ (fun e => h1 e.symm)]
    by_cases h2 : p = i
    · rw [h2, get!_set_eq _ _ _ (by simp [osize, hi])]; simp [h1, ← h2]
    · rw [get!_set_ne _ _ _ _ (fun e => h2 e.symm)]; simp [h1, h2]

theorem dropAt_rows_lt (ops : DropOps K R T) (milu : Milu) (m : Nat) (s : DSt K R) (i : Nat) (c : R)
    (rsize : s.rows.size = m) (cnt : s.m1 + 1 + s.r = m) (hi2 : i ≤ s.m1) (p : Nat) (hp : p < s.m1) :
    (dropAt ops milu m s i c).rows[p]! = if p = i then s.rows[s.m1]! else s.rows[p]! := by
  by_cases hr : 0 < s.r
  · rw [dropAt_rows_pos ops milu m s i c hr]
    by_cases h2 : p = i
    · rw [if_pos h2, h2, get!_set_eq _ _ _ (by simp [rsize]; omega), get!_set_ne _ _ _ _ (by omega)]
    · rw [if_neg h2, get!_set_ne _ _ _ _ (fun e => h2 e.symm), get!_set_ne _ _ _ _ (by omega)]
  · rw [dropAt_rows_zero ops milu m s i c (by omega)]
    have main : ((s.rows.setIfInBounds s.m1 s.rows[i]!).setIfInBounds i s.rows[s.m1]!)[p]! = if p = i then s.rows[s.m1]! else s.rows[p]! := by
      by_cases h2 : p = i
      · rw [if_pos h2, h2, get!_set_eq _ _ _ (by simp [rsize]; omega)]
      · rw [if_neg h2, get!_set_ne _ _ _ _ (fun e => h2 e.symm), get!_set_ne _ _ _ _ (by omega)]
    by_cases h3 : (milu == Milu.smilu3) = true
    · simp only [h3, if_true]; rw [get!_set_ne _ _ _ _ (by omega)]; exact main
    · simp only [h3]; exact main

theorem dropAt_rows_size (ops : DropOps K R T) (milu : Milu) (m : Nat) (s : DSt K R) (i : Nat) (c : R) :
    (dropAt ops milu m s i c).rows.size = s.rows.size := by
  by_cases hr : 0 < s.r
  · rw [dropAt_rows_pos ops milu m s i c hr]; simp
  · rw [dropAt_rows_zero ops milu m s i c (by omega)]
    by_cases h3 : (milu == Milu.smilu3) = true <;> simp [h3]

/-- row `m-1` after the step: the accumulator -/
theorem dropAt_rows_last (ops : DropOps K R T) (milu : Milu) (m : Nat) (s : DSt K R) (i : Nat) (c : R)
    (rsize : s.rows.size = m) (cnt : s.m1 + 1 + s.r = m) (hi2 : i ≤ s.m1) :
    (dropAt ops milu m s i c).rows[m - 1]! =
      if 0 < s.r then accStep ops milu s.rows[m - 1]! s.rows[i]!
      else if milu == .smilu3 then s.rows[i]!.map ops.absK else s.rows[i]! := by
  by_cases hr : 0 < s.r
  · rw [if_pos hr, dropAt_rows_pos ops milu m s i c hr, get!_set_ne _ _ _ _ (by omega), get!_set_eq _ _ _ (by omega)]
  · rw [if_neg hr, dropAt_rows_zero ops milu m s i c (by omega)]
    have hm : s.m1 = m - 1 := by omega
    have main : ((s.rows.setIfInBounds s.m1 s.rows[i]!).setIfInBounds i s.rows[s.m1]!)[s.m1]! = s.rows[i]! := by
      by_cases h2 : i = s.m1
      · rw [h2, get!_set_eq _ _ _ (by simp [rsize]; omega)]
      · rw [get!_set_ne _ _ _ _ h2, get!_set_eq _ _ _ (by omega)]
    by_cases h3 : (milu == Milu.smilu3) = true
    · simp only [h3, if_true]; rw [← hm, get!_set_eq _ _ _ (by simp [rsize]; omega), main]
    · simp only [h3]; rw [← hm]; exact main

theorem dropAt_inv (ops : DropOps K R T) (milu : Milu) (m n : Nat) (rows0 : Array (Array K)) (subs0 : Array Int)
    (s : DSt K R) (i : Nat) (c : R) (h : Inv ops milu m n rows0 subs0 s) (hn : 1 ≤ n) (hi1 : n ≤ i) (hi2 : i ≤ s.m1) :
    Inv ops milu m n rows0 subs0 (dropAt ops milu m s i c) := by
  obtain ⟨rsize, ssize, osize, cnt, tlen, n_le, kept, diag, inj, gone, acc, olt⟩ := h
  have hm1 : s.m1 < m := by omega
  have horig := dropAt_orig ops milu m s i c osize (by omega) hm1
  have hrows := dropAt_rows_lt ops milu m s i c rsize cnt hi2
  have hsubs : ∀ p, p < s.m1 → (dropAt ops milu m s i c).subs[p]! = if p = i then s.subs[s.m1]! else s.subs[p]! := by
    intro p hp
    show (s.subs.setIfInBounds i s.subs[s.m1]!)[p]! = _
    by_cases h2 : p = i
    · rw [if_pos h2, h2, get!_set_eq _ _ _ (by omega)]
    · rw [if_neg h2, get!_set_ne _ _ _ _ (fun e => h2 e.symm)]
  refine ⟨?_, ?_, ?_, ?_, ?_, ?_, ?_, ?_, ?_, ?_, ?_, ?_⟩
  · rw [dropAt_rows_size, rsize]
  · simp [dropAt, ssize]
  · simp [dropAt, osize]
  · show s.m1 - 1 + 1 + (s.r + 1) = m; omega
  · show ((s.orig[i]!, c) :: s.trace).length = s.r + 1; simp [tlen]
  · show n ≤ s.m1 - 1 + 1; omega
  · intro p hp
    have hp' : p < s.m1 := by
      have : (dropAt ops milu m s i c).m1 = s.m1 - 1 := rfl
      omega
    rw [hrows p hp', hsubs p hp', horig p]
    unfold swp
    have e1 : ¬ p = s.m1 := by omega
    by_cases h2 : p = i
    · simp only [e1, h2, if_true, if_false]
      have e3 : ¬ i = s.m1 := by omega
      simp only [e3, if_false]; exact kept s.m1 (Nat.le_refl _)
    · simp only [e1, h2, if_false]; exact kept p (by omega)
  · intro p hp
    rw [horig p]
    have e1 : ¬ p = s.m1 := by omega
    have e2 : ¬ p = i := by omega
    simp only [swp, e1, e2, if_false]; exact diag p hp
  · intro p q hp hq
    rw [horig p, horig q]
    intro e
    have h1 : swp s.m1 i p < m := by unfold swp; split_ifs <;> omega
    have h2 : swp s.m1 i q < m := by unfold swp; split_ifs <;> omega
    have := inj _ _ h1 h2 e
    unfold swp at this
    split_ifs at this <;> omega
  · intro k hk
    have hk' : k < s.r + 1 := hk
    show (((s.orig[i]!, c) :: s.trace).reverse[k]!).1 = _
    rw [List.reverse_cons, horig]
    by_cases hkr : k < s.r
    · have hl : k < s.trace.reverse.length := by simp [tlen, hkr]
      rw [getElem!_def, List.getElem?_append_left hl, ← getElem!_def, gone k hkr]
      have e1 : ¬ m - 1 - k = s.m1 := by omega
      have e2 : ¬ m - 1 - k = i := by omega
      simp only [swp, e1, e2, if_false]
    · have hke : k = s.r := by omega
      have hl : s.trace.reverse.length ≤ k := by simp [tlen, hke]
      have e1 : m - 1 - k = s.m1 := by omega
      rw [getElem!_def, List.getElem?_append_right hl, e1]
      simp [swp, tlen, hke]
  · intro _
    show (dropAt ops milu m s i c).rows[m - 1]! = accOf ops milu ((((s.orig[i]!, c) :: s.trace).reverse).map fun e => rows0[e.1]!)
    have hki := (kept i hi2).1
    rw [List.reverse_cons, List.map_append, dropAt_rows_last ops milu m s i c rsize cnt hi2, hki]
    by_cases hr : 0 < s.r
    · rw [if_pos hr, acc hr]
      cases hl : (s.trace.reverse.map fun e => rows0[e.1]!) with
      | nil =>
        have : (s.trace.reverse.map fun e => rows0[e.1]!).length = s.r := by simp [tlen]
        rw [hl] at this; simp at this; omega
      | cons x xs => simp only [List.map_cons, List.map_nil]; rw [accOf_snoc]
    · have hr0 : s.r = 0 := by omega
      have ht : s.trace = [] := List.eq_nil_of_length_eq_zero (by rw [tlen, hr0])
      rw [if_neg hr, ht]
      simp [accOf]
  · intro p hp
    rw [horig p]
    exact olt _ (by unfold swp; split_ifs <;> omega)


/-! ### the two loops -/

/-- `Inv` only reads rows, subs, m1, r, trace, orig -/
theorem Inv.congr {ops : DropOps K R T} {milu : Milu} {m n : Nat} {rows0 : Array (Array K)} {subs0 : Array Int}
    {s s' : DSt K R} (h : Inv ops milu m n rows0 subs0 s) (h1 : s'.rows = s.rows) (h2 : s'.subs = s.subs)
    (h3 : s'.m1 = s.m1) (h4 : s'.r = s.r) (h5 : s'.trace = s.trace) (h6 : s'.orig = s.orig) :
    Inv ops milu m n rows0 subs0 s' := by
  obtain ⟨a1, a2, a3, a4, a5, a6, a7, a8, a9, a10, a11, a12⟩ := h
  refine ⟨?_, ?_, ?_, ?_, ?_, ?_, ?_, ?_, ?_, ?_, ?_, ?_⟩ <;> simp only [h1, h2, h3, h4, h5, h6] <;> assumption

/-- what is recorded for a row dropped by the first loop: its own norm, below `drop_tol` (strictly) -/
def Q1 (ops : DropOps K R T) (nrm : Nrm) (dropTol : T) (rows0 : Array (Array K)) (e : Nat × R) : Prop :=
  e.2 = ops.rowNorm nrm rows0[e.1]! ∧ ops.ltTol e.2 dropTol = true

theorem pass1_inv (ops : DropOps K R T) (nrm : Nrm) (milu : Milu) (basic : Bool) (dropTol : T) (m n : Nat)
    (rows0 : Array (Array K)) (subs0 : Array Int) (hn : 1 ≤ n) :
    ∀ (f i : Nat) (s : DSt K R), n ≤ i → Inv ops milu m n rows0 subs0 s → (∀ e ∈ s.trace, Q1 ops nrm dropTol rows0 e) →
      Inv ops milu m n rows0 subs0 (pass1 ops nrm milu basic dropTol m f i s) ∧
      (∀ e ∈ (pass1 ops nrm milu basic dropTol m f i s).trace, Q1 ops nrm dropTol rows0 e) ∧
      (basic = false → (pass1 ops nrm milu basic dropTol m f i s).r = s.r) := by
  intro f
  induction f with
  | zero => intro i s _ h hq; exact ⟨h, hq, fun _ => rfl⟩
  | succ f ih =>
    intro i s hi h hq
    unfold pass1
    by_cases hle : i ≤ s.m1
    · simp only [hle, if_true]
      by_cases hd : (basic && ops.ltTol (ops.rowNorm nrm s.rows[i]!) dropTol) = true
      · simp only [hd, if_true]
        have h' : Inv ops milu m n rows0 subs0 { s with temp := s.temp.setIfInBounds i (ops.rowNorm nrm s.rows[i]!) } :=
          h.congr rfl rfl rfl rfl rfl rfl
        have h2 := dropAt_inv ops milu m n rows0 subs0 _ i (ops.rowNorm nrm s.rows[i]!) h' hn hi hle
        have hq2 : ∀ e ∈ (dropAt ops milu m { s with temp := s.temp.setIfInBounds i (ops.rowNorm nrm s.rows[i]!) } i (ops.rowNorm nrm s.rows[i]!)).trace,
            Q1 ops nrm dropTol rows0 e := by
          intro e he
          have : e = (s.orig[i]!, ops.rowNorm nrm s.rows[i]!) ∨ e ∈ s.trace := by
            simpa [dropAt] using he
          rcases this with rfl | he
          · simp only [Bool.and_eq_true] at hd
            exact ⟨by rw [(h.kept i hle).1], hd.2⟩
          · exact hq e he
        obtain ⟨r1, r2, r3⟩ := ih i _ hi h2 hq2
        refine ⟨r1, r2, fun hb => ?_⟩
        rw [hb] at hd; simp at hd
      · simp only [hd]
        refine ih (i + 1) _ (by omega) ?_ hq
        exact h.congr rfl rfl rfl rfl rfl rfl
    · rw [if_neg hle]; exact ⟨h, hq, fun _ => rfl⟩

/-- what is recorded for a row dropped by either loop: `Q1`, or the norm CONSULTED (`temp[i]`) is `<= tol` -/
def Q2 (ops : DropOps K R T) (nrm : Nrm) (dropTol tol : T) (rows0 : Array (Array K)) (e : Nat × R) : Prop :=
  Q1 ops nrm dropTol rows0 e ∨ ops.leTol e.2 tol = true

theorem pass2_inv (ops : DropOps K R T) (nrm : Nrm) (milu : Milu) (dropTol tol : T) (m n : Nat)
    (rows0 : Array (Array K)) (subs0 : Array Int) (hn : 1 ≤ n) :
    ∀ (f i : Nat) (s : DSt K R), n ≤ i → Inv ops milu m n rows0 subs0 s → (∀ e ∈ s.trace, Q2 ops nrm dropTol tol rows0 e) →
      Inv ops milu m n rows0 subs0 (pass2 ops milu tol m f i s) ∧
      (∀ e ∈ (pass2 ops milu tol m f i s).trace, Q2 ops nrm dropTol tol rows0 e) := by
  intro f
  induction f with
  | zero => intro i s _ h hq; exact ⟨h, hq⟩
  | succ f ih =>
    intro i s hi h hq
    unfold pass2
    by_cases hle : i ≤ s.m1
    · simp only [hle, if_true]
      by_cases hd : ops.leTol s.temp[i]! tol = true
      · simp only [hd, if_true]
        have h2 := dropAt_inv ops milu m n rows0 subs0 s i s.temp[i]! h hn hi hle
        have hq2 : ∀ e ∈ (dropAt ops milu m s i s.temp[i]!).trace, Q2 ops nrm dropTol tol rows0 e := by
          intro e he
          have : e = (s.orig[i]!, s.temp[i]!) ∨ e ∈ s.trace := by simpa [dropAt] using he
          rcases this with rfl | he
          · exact Or.inr hd
          · exact hq e he
        exact ih i _ hi (h2.congr rfl rfl rfl rfl rfl rfl) hq2
      · simp only [hd]; exact ih (i + 1) s (by omega) h hq
    · simp only [hle, if_false]; exact ⟨h, hq⟩


theorem secondary_inv (ops : DropOps K R T) (nrm : Nrm) (rule : Rule) (milu : Milu) (dropTol : T) (quota : Int) (m n : Nat)
    (rows0 : Array (Array K)) (subs0 : Array Int) (hn : 1 ≤ n) (s : DSt K R)
    (h : Inv ops milu m n rows0 subs0 s) (hq : ∀ e ∈ s.trace, Q1 ops nrm dropTol rows0 e) :
    Inv ops milu m n rows0 subs0 (secondary ops rule milu quota m n s).1 ∧
    ∃ tol, ∀ e ∈ (secondary ops rule milu quota m n s).1.trace, Q2 ops nrm dropTol tol rows0 e := by
  unfold secondary
  dsimp only
  split
  · have key := fun tol => pass2_inv ops nrm milu dropTol tol m n rows0 subs0 hn (s.m1 + 1 - n) n s (Nat.le_refl _) h
      (fun e he => Or.inl (hq e he))
    exact ⟨(key _).1, _, (key _).2⟩
  · exact ⟨h, ops.tolOfR s.dmax, fun e he => Or.inl (hq e he)⟩

/-- **the two loops of `ilu_?drop_row` on a block**: the invariant holds of the final state, and every recorded
drop satisfied the test of the loop that made it -/
theorem dropBlock_inv (ops : DropOps K R T) (rule : Rule) (milu : Milu) (nrm : Nrm) (dropTol : T) (quota : Int) (alpha : R)
    (fillTol : T) (m n : Nat) (rows : Array (Array K)) (subs : Array Int) (hn : 1 ≤ n) (hnm : n < m)
    (hr : rows.size = m) (hs : subs.size = m) :
    Inv ops milu m n rows subs (dropBlock ops rule milu nrm dropTol quota alpha fillTol m n rows subs).1 ∧
    ∃ tol, ∀ e ∈ (dropBlock ops rule milu nrm dropTol quota alpha fillTol m n rows subs).1.trace, Q2 ops nrm dropTol tol rows e := by
  have h0 := inv_init ops milu m n hnm rows subs hr hs (Array.replicate m ops.zeroR) ops.zeroR ops.oneR
  obtain ⟨h1, q1, _⟩ := pass1_inv ops nrm milu rule.basic dropTol m n rows subs hn (m - n) n _ (Nat.le_refl _) h0 (by intro e he; simp at he)
  have h2 := secondary_inv ops nrm rule milu dropTol quota m n rows subs hn _ h1 q1
  unfold dropBlock
  dsimp only
  split <;> exact h2


/-! ### the diagonal compensation -/

/-- what `diagFix` leaves in row `p` -/
def fixedRow (ops : DropOps K R T) (milu : Milu) (alpha : R) (fillTol : T) (m : Nat) (rows : Array (Array K)) (p : Nat) : Array K :=
  if ops.isZero ((rows[m - 1]!)[p]!) then rows[p]!
  else (rows[p]!).setIfInBounds p (ops.diagComp milu alpha fillTol ((rows[p]!)[p]!) ((rows[m - 1]!)[p]!)).1

theorem diagFix_fold (ops : DropOps K R T) (milu : Milu) (alpha : R) (fillTol : T) (m : Nat) (rows : Array (Array K))
    (hm : rows.size = m) : ∀ k, k < m →
    (((List.range k).foldl (fun (acc : Array (Array K) × Nat) j =>
        let t := (acc.1[m - 1]!)[j]!
        if ops.isZero t then acc else
        let d := (acc.1[j]!)[j]!
        let o := ops.diagComp milu alpha fillTol d t
        (acc.1.setIfInBounds j ((acc.1[j]!).setIfInBounds j o.1), if o.2 then acc.2 + 1 else acc.2)) (rows, 0)).1).size = m ∧
    ∀ p, (((List.range k).foldl (fun (acc : Array (Array K) × Nat) j =>
        let t := (acc.1[m - 1]!)[j]!
        if ops.isZero t then acc else
        let d := (acc.1[j]!)[j]!
        let o := ops.diagComp milu alpha fillTol d t
        (acc.1.setIfInBounds j ((acc.1[j]!).setIfInBounds j o.1), if o.2 then acc.2 + 1 else acc.2)) (rows, 0)).1)[p]! =
      if p < k then fixedRow ops milu alpha fillTol m rows p else rows[p]! := by
  intro k
  induction k with
  | zero => intro _; exact ⟨by simpa using hm, fun p => by simp⟩
  | succ k ih =>
    intro hk
    rw [List.range_succ, List.foldl_append]
    simp only [List.foldl_cons, List.foldl_nil]
    obtain ⟨hsz, ihk⟩ := ih (by omega)
    generalize (List.range k).foldl _ (rows, 0) = acc at hsz ihk ⊢
    have e1 : (acc.1[m - 1]!) = rows[m - 1]! := by
      rw [ihk (m - 1)]; have : ¬ m - 1 < k := by omega
      simp only [this, if_false]
    have e2 : (acc.1[k]!) = rows[k]! := by rw [ihk k]; simp
    by_cases hz : ops.isZero ((rows[m - 1]!)[k]!) = true
    · simp only [e1, hz, if_true]
      refine ⟨hsz, fun p => ?_⟩
      rw [ihk p]
      by_cases h1 : p < k
      · simp [h1, Nat.lt_succ_of_lt h1]
      · by_cases h2 : p = k
        · subst h2; simp [fixedRow, hz]
        · have : ¬ p < k + 1 := by omega
          simp [h1, this]
    · have hz' : ops.isZero ((rows[m - 1]!)[k]!) = false := by simpa using hz
      simp only [e1, e2, hz', Bool.false_eq_true, if_false]
      refine ⟨by simp [hsz], fun p => ?_⟩
      by_cases h2 : p = k
      · subst h2
        rw [get!_set_eq _ _ _ (by omega)]
        simp [fixedRow, hz']
      · rw [get!_set_ne _ _ _ _ (fun e => h2 e.symm), ihk p]
        by_cases h1 : p < k
        · simp [h1, Nat.lt_succ_of_lt h1]
        · have : ¬ p < k + 1 := by omega
          simp [h1, this]

/-- row `p` of the block after `diagFix`: rows of the diagonal block get their diagonal entry compensated, every other
row is untouched -/
theorem diagFix_get (ops : DropOps K R T) (milu : Milu) (alpha : R) (fillTol : T) (m n : Nat) (rows : Array (Array K))
    (hm : rows.size = m) (hnm : n < m) (p : Nat) :
    (diagFix ops milu alpha fillTol m n rows).1[p]! =
      if milu ≠ .silu ∧ p < n then fixedRow ops milu alpha fillTol m rows p else rows[p]! := by
  have key := (diagFix_fold ops milu alpha fillTol m rows hm n hnm).2 p
  unfold diagFix
  cases milu
  · simp only [show (Milu.silu == Milu.silu) = true from rfl, if_true]; simp
  · simp only [show (Milu.smilu1 == Milu.silu) = false from rfl, Bool.false_eq_true, if_false]; rw [key]; simp
  · simp only [show (Milu.smilu2 == Milu.silu) = false from rfl, Bool.false_eq_true, if_false]; rw [key]; simp
  · simp only [show (Milu.smilu3 == Milu.silu) = false from rfl, Bool.false_eq_true, if_false]; rw [key]; simp


/-! ### the block-level statements -/

theorem dropBlock_rows (ops : DropOps K R T) (rule : Rule) (milu : Milu) (nrm : Nrm) (dropTol : T) (quota : Int) (alpha : R)
    (fillTol : T) (m n : Nat) (rows : Array (Array K)) (subs : Array Int) :
    (dropBlock ops rule milu nrm dropTol quota alpha fillTol m n rows subs).2.2.1 =
      if (dropBlock ops rule milu nrm dropTol quota alpha fillTol m n rows subs).1.r = 0
      then (dropBlock ops rule milu nrm dropTol quota alpha fillTol m n rows subs).1.rows
      else (diagFix ops milu alpha fillTol m n (dropBlock ops rule milu nrm dropTol quota alpha fillTol m n rows subs).1.rows).1 := by
  unfold dropBlock
  dsimp only
  split <;> rename_i h <;> simp [h]

theorem trace_mem_pos {ops : DropOps K R T} {milu : Milu} {m n : Nat} {rows0 : Array (Array K)} {subs0 : Array Int} {s : DSt K R}
    (h : Inv ops milu m n rows0 subs0 s) (e : Nat × R) (he : e ∈ s.trace) :
    ∃ k, k < s.r ∧ e.1 = s.orig[m - 1 - k]! := by
  have he' : e ∈ s.trace.reverse := List.mem_reverse.mpr he
  obtain ⟨k, hk, hke⟩ := List.mem_iff_getElem.mp he'
  have hkr : k < s.r := by simpa [h.tlen] using hk
  refine ⟨k, hkr, ?_⟩
  rw [← h.gone k hkr, getElem!_def, List.getElem?_eq_getElem hk, hke]

/-- a dropped row is never a row of the diagonal block, and it is not among the kept rows -/
theorem trace_not_kept {ops : DropOps K R T} {milu : Milu} {m n : Nat} {rows0 : Array (Array K)} {subs0 : Array Int} {s : DSt K R}
    (h : Inv ops milu m n rows0 subs0 s) (e : Nat × R) (he : e ∈ s.trace) :
    n ≤ e.1 ∧ ∀ p, p ≤ s.m1 → s.orig[p]! ≠ e.1 := by
  obtain ⟨k, hk, hke⟩ := trace_mem_pos h e he
  have hcnt := h.cnt
  have hnle := h.n_le
  have hnk : ∀ p, p ≤ s.m1 → s.orig[p]! ≠ e.1 := by
    intro p hp heq
    have := h.inj p (m - 1 - k) (by omega) (by omega) (by rw [heq, hke])
    omega
  refine ⟨?_, hnk⟩
  by_contra hlt
  have hlt : e.1 < n := by omega
  exact hnk e.1 (by omega) (h.diag e.1 hlt)

/-! ### the accumulator over `Rat` -/

theorem zipWith_get! {α} [Inhabited α] (f : α → α → α) (a b : Array α) (j : Nat) (ha : j < a.size) (hb : j < b.size) :
    (Array.zipWith f a b)[j]! = f a[j]! b[j]! := by
  rw [getElem!_pos _ j (by simp; omega), Array.getElem_zipWith, getElem!_pos a j ha, getElem!_pos b j hb]

/-- the signed / absolute column sums accumulated by `accStep` over `Rat` -/
theorem foldl_accStep_rat (nrm2 : Array Rat → Rat) (milu : Milu) (n j : Nat) (hj : j < n) :
    ∀ (xs : List (Array Rat)) (acc : Array Rat), acc.size = n → (∀ x ∈ xs, x.size = n) →
      (xs.foldl (accStep (opsRat nrm2) milu) acc).size = n ∧
      (xs.foldl (accStep (opsRat nrm2) milu) acc)[j]! =
        match milu with
        | .smilu1 | .smilu2 => acc[j]! + (xs.map fun x => x[j]!).sum
        | .smilu3 => acc[j]! + (xs.map fun x => rabs x[j]!).sum
        | .silu => acc[j]! := by
  intro xs
  induction xs with
  | nil => intro acc h _; cases milu <;> simp [h]
  | cons x xs ih =>
    intro acc h hx
    have hxs : x.size = n := hx x (List.mem_cons_self)
    have hrest : ∀ y ∈ xs, y.size = n := fun y hy => hx y (List.mem_cons_of_mem _ hy)
    rw [List.foldl_cons]
    cases milu
    · simpa [accStep] using ih acc h hrest
    · have hs : (accStep (opsRat nrm2) .smilu1 acc x).size = n := by simp [accStep, h, hxs]
      obtain ⟨a, b⟩ := ih _ hs hrest
      refine ⟨a, ?_⟩
      rw [b]; simp only [accStep, List.map_cons, List.sum_cons]
      rw [zipWith_get! _ _ _ _ (by omega) (by omega)]; simp only [opsRat]; rw [add_assoc]
    · have hs : (accStep (opsRat nrm2) .smilu2 acc x).size = n := by simp [accStep, h, hxs]
      obtain ⟨a, b⟩ := ih _ hs hrest
      refine ⟨a, ?_⟩
      rw [b]; simp only [accStep, List.map_cons, List.sum_cons]
      rw [zipWith_get! _ _ _ _ (by omega) (by omega)]; simp only [opsRat]; rw [add_assoc]
    · have hs : (accStep (opsRat nrm2) .smilu3 acc x).size = n := by simp [accStep, h, hxs]
      obtain ⟨a, b⟩ := ih _ hs hrest
      refine ⟨a, ?_⟩
      rw [b]; simp only [accStep, List.map_cons, List.sum_cons]
      rw [zipWith_get! _ _ _ _ (by omega) (by omega)]; simp only [opsRat]; rw [add_assoc]

/-- **the MILU accumulator over `Rat`, per column**: SMILU_1/2 the signed sum of the dropped entries, SMILU_3 the sum
of their moduli, SILU the first dropped row (never used) -/
theorem accOf_rat (nrm2 : Array Rat → Rat) (milu : Milu) (n j : Nat) (hj : j < n) (x : Array Rat) (xs : List (Array Rat))
    (hx : ∀ y ∈ x :: xs, y.size = n) :
    (accOf (opsRat nrm2) milu (x :: xs))[j]! =
      match milu with
      | .smilu1 | .smilu2 => ((x :: xs).map fun y => y[j]!).sum
      | .smilu3 => ((x :: xs).map fun y => rabs y[j]!).sum
      | .silu => x[j]! := by
  have hxs : x.size = n := hx x (List.mem_cons_self)
  have hrest : ∀ y ∈ xs, y.size = n := fun y hy => hx y (List.mem_cons_of_mem _ hy)
  unfold accOf
  cases milu
  · simp only [show (Milu.silu == Milu.smilu3) = false from rfl, Bool.false_eq_true, if_false]
    simpa using (foldl_accStep_rat nrm2 .silu n j hj xs x hxs hrest).2
  · simp only [show (Milu.smilu1 == Milu.smilu3) = false from rfl, Bool.false_eq_true, if_false]
    simpa using (foldl_accStep_rat nrm2 .smilu1 n j hj xs x hxs hrest).2
  · simp only [show (Milu.smilu2 == Milu.smilu3) = false from rfl, Bool.false_eq_true, if_false]
    simpa using (foldl_accStep_rat nrm2 .smilu2 n j hj xs x hxs hrest).2
  · have h3 : (Milu.smilu3 == Milu.smilu3) = true := rfl
    simp only [h3, if_true]
    have := (foldl_accStep_rat nrm2 .smilu3 n j hj xs (x.map (opsRat nrm2).absK) (by simp [hxs]) hrest).2
    simp only at this
    rw [this]
    have : (x.map (opsRat nrm2).absK)[j]! = rabs x[j]! := by
      rw [getElem!_pos _ j (by simp; omega), Array.getElem_map, getElem!_pos x j (by omega)]; rfl
    rw [this]; simp

theorem trace_lt {ops : DropOps K R T} {milu : Milu} {m n : Nat} {rows0 : Array (Array K)} {subs0 : Array Int} {s : DSt K R}
    (h : Inv ops milu m n rows0 subs0 s) (e : Nat × R) (he : e ∈ s.trace) : e.1 < m := by
  obtain ⟨k, hk, hke⟩ := trace_mem_pos h e he
  rw [hke]; exact h.olt _ (by have := h.cnt; omega)

end Slu.IluDrop
