import Slu.Model.Mem
import SluProofs.Lemmas.Mem
import SluProofs.Lemmas.MemStore
import SluProofs.Lemmas.GrowList
import SluProofs.Lemmas.MemInit
/-
`LUMemInit` for `fact == SamePattern_SameRowPerm` (`Slu.Mem.memInitReuse`, dmemory.c:298-355): the storage
of the previous factorization is re-adopted.

* `Idle w s` — the allocator between two factorizations in one caller workspace: the invariant `Inv`, the
  work arrays given back (`used = top1`, what `LUWorkFree` leaves) and `top1` a multiple of 4 (true of
  every reachable state: `memInit_top1_mod4`, `memXpand_top1_mod4`; needed because the alignment fix-up
  of `dwork` takes up to 4 more bytes than the fullness test looked at).
* `memInitReuse_inv` — from an idle state the re-adopting `LUMemInit`, whenever it returns 0, establishes
  `Inv` again, for every new `lwork > 0` (it may differ from the previous one).
* `idle_cycle` — … and after any request sequence followed by `LUWorkFree` the state is idle again: the
  whole chain of refactorizations stays inside the invariant.
* `memInitReuse_keeps_bytes` — the init moves and clears nothing: every byte of every array is where it
  was, also after the caller has filled the two new work arrays.
* library allocation: `memInitReuse_sysInv`.
-/
namespace Slu.Mem

/-- the allocator between two factorizations in one caller workspace -/
structure Idle (w : Words) (s : St) : Prop where
  inv : Inv w s
  /-- the work arrays at the tail have been given back (`LUWorkFree`) -/
  free : s.used = s.top1
  al4 : s.top1 % 4 = 0

theorem isize_mod4 (c : Cfg) (hw : c.w.Ok) : isize c % 4 = 0 := by
  unfold isize; rw [hw.iw]; omega

theorem dsize_mod4 (c : Cfg) (hw : c.w.Ok) : dsize c % 4 = 0 := by
  unfold dsize; obtain ⟨k, hk⟩ := hw.dw4; rw [hk]
  have : (c.m * c.panel + numTempv c) * (4 * k) = 4 * ((c.m * c.panel + numTempv c) * k) := by ring
  rw [this]; exact Int.mul_emod_right 4 _

/-! ### `top1` stays a multiple of 4 -/

theorem memXpand_top1_mod4 (fx : Fixes) (w : Words) (hw : w.Ok) (fail : Nat → Bool) (t : MemType) (s : St)
    (hu : s.user = true) (hn : s.nexp ≠ 0) (h4 : s.top1 % 4 = 0) : (memXpand fx w fail t s).1.top1 % 4 = 0 := by
  rw [memXpand_eq, expand_user_later _ _ _ _ _ _ _ hu hn]
  cases hf : userFound fx w (s.nz t) t (decide (t = .USUB)) s with
  | none => simpa using h4
  | some nl =>
    have hb := lword_mul4 hw t (nl - s.nz t)
    simp only []
    generalize (nl - s.nz t) * w.lword t = extra at *
    cases t <;> simp [shiftAfter, St.setCap] <;> omega

theorem workInitUser_top1 (c : Cfg) (s : St) : (workInitUser c s).1.top1 = s.top1 := by
  unfold workInitUser userMallocTail
  by_cases f1 : s.full (isize c)
  · simp [f1]
  · simp only [f1, if_false]
    split <;> rename_i heq <;> split at heq <;>
      first | (simp at heq; done) | (simp at heq; subst heq; rfl) | (simp at heq; obtain ⟨h1, _⟩ := heq; subst h1; rfl)

/-- fields that `LUWorkInit` never touches -/
theorem workInitUser_frame (c : Cfg) (s0 : St) :
    (workInitUser c s0).1.offL = s0.offL ∧ (workInitUser c s0).1.offU = s0.offU ∧ (workInitUser c s0).1.offS = s0.offS ∧
    (workInitUser c s0).1.offB = s0.offB ∧ (workInitUser c s0).1.capL = s0.capL ∧ (workInitUser c s0).1.capU = s0.capU ∧
    (workInitUser c s0).1.capS = s0.capS ∧ (workInitUser c s0).1.capB = s0.capB ∧ (workInitUser c s0).1.hdrEnd = s0.hdrEnd ∧
    (workInitUser c s0).1.base4 = s0.base4 ∧ (workInitUser c s0).1.n = s0.n ∧ (workInitUser c s0).1.user = s0.user := by
  unfold workInitUser userMallocTail
  by_cases f1 : s0.full (isize c)
  · simp [f1]
  · simp only [f1, if_false]
    split <;> rename_i heq <;> split at heq <;>
      first | (simp at heq; done) | (simp at heq; subst heq; simp) | (simp at heq; obtain ⟨h1, _⟩ := heq; subst h1; simp)

theorem workFree_top1 (s : St) : (workFree s).top1 = s.top1 := by
  unfold workFree; split <;> rfl

theorem workFree_free (w : Words) (s : St) (hinv : Inv w s) : (workFree s).used = (workFree s).top1 := by
  have hu := hinv.user
  have := hinv.used
  unfold workFree
  rw [if_neg (by simp [hu])]
  simp; omega

/-- `LUMemInit` (first factorization) leaves `top1` a multiple of 4 -/
theorem memInit_top1_mod4 (fx : Fixes) (h3 : fx.d3 = true) (h11 : fx.d11 = true) (fail : Nat → Bool) (c : Cfg)
    (hw : c.w.Ok) (hl : 0 < c.lwork) (hn : 1 ≤ c.n) (hnz : 0 ≤ c.fill * c.annz)
    (hspin : (memInit fx fail c).spin = false)
    (h : (memInit fx fail c).info = 0) : (memInit fx fail c).st.top1 % 4 = 0 := by
  have hhb0 : 0 ≤ (c.n + 1) * c.w.iw := by rw [hw.iw]; omega
  have hhb4 : ((c.n + 1) * c.w.iw) % 4 = 0 := by rw [hw.iw]; omega
  have hhl0 : 0 ≤ (c.n + 1) * c.w.liw := Int.mul_nonneg (by omega) (le_of_lt hw.liw_pos)
  have hhl4 : ((c.n + 1) * c.w.liw) % 4 = 0 := by
    obtain ⟨k, hk⟩ := hw.liw4; rw [hk]
    have : (c.n + 1) * (4 * k) = 4 * ((c.n + 1) * k) := by ring
    rw [this]; exact Int.mul_emod_right 4 _
  have hs0 : setupSpace c = { user := true, base4 := c.base4, n := c.n, top2 := (c.lwork / 4) * 4, size := (c.lwork / 4) * 4 } := by
    unfold setupSpace; rw [if_neg (by omega)]
  unfold memInit at h hspin ⊢
  simp only [hs0, h3, h11, Bool.true_eq_false, if_false, if_true, true_and] at h hspin ⊢
  by_cases hok : (hdrAlloc ((c.n + 1) * c.w.iw) ((c.n + 1) * c.w.liw)
      { user := true, base4 := c.base4, n := c.n, top2 := (c.lwork / 4) * 4, size := (c.lwork / 4) * 4 }).hdrOk = false
  · simp only [hok, if_true] at h
    have := memoryUsage_nonneg c.w hw _ _ _ c.n hnz hnz hnz (by omega)
    omega
  · simp only [hok] at h hspin ⊢
    have hok' : (hdrAlloc ((c.n + 1) * c.w.iw) ((c.n + 1) * c.w.liw)
      { user := true, base4 := c.base4, n := c.n, top2 := (c.lwork / 4) * 4, size := (c.lwork / 4) * 4 }).hdrOk = true := by
      simpa using hok
    obtain ⟨hm, _, _, _, _, _⟩ := hdrAlloc_spec _ _ _ hhb0 hhb4 hhl0 hhl4 rfl rfl rfl rfl rfl (by simp) hok'
    generalize hdrAlloc ((c.n + 1) * c.w.iw) ((c.n + 1) * c.w.liw)
      { user := true, base4 := c.base4, n := c.n, top2 := (c.lwork / 4) * 4, size := (c.lwork / 4) * 4 } = s1 at *
    revert h hspin
    cases hloop : initLoop fx c.w fail c.annz ((c.fill * c.annz).toNat + 2) (c.fill * c.annz)
        (c.fill * c.annz) (c.fill * c.annz) s1 with
    | mk s2 al =>
      intro h hspin
      cases al with
      | spin => simp at hspin
      | short a b cc =>
        simp at h
        obtain ⟨ha, hb, hcc⟩ := initLoop_short_nonneg _ _ _ _ _ _ _ _ _ hnz hnz hnz _ _ _ _ hloop
        have := memoryUsage_nonneg c.w hw _ _ _ c.n hcc hb ha (by omega)
        omega
      | ok a b cc =>
        obtain ⟨m2, _, _, _, _, _⟩ := initLoop_spec fx h3 c.w hw fail c.annz _ _ _ _ s1 hm hnz hnz hnz _ _ _ _ hloop
        simp only [] at h ⊢
        have hu2 : s2.user = true := m2.user
        have ht4 := m2.t4
        simp only [hu2, if_true] at h ⊢
        have htop := workInitUser_top1 c s2
        rw [if_neg (by simp)]
        split
        · show (workInitUser c s2).1.top1 % 4 = 0
          rw [htop]; exact ht4
        · show (workInitUser c s2).1.top1 % 4 = 0
          rw [htop]; exact ht4

/-! ### the re-adopting init in a workspace -/

theorem reuseSetup_user (c : Cfg) (s : St) (hl : c.lwork ≠ 0) :
    reuseSetup c s = { s with n := c.n, nexp := 0, mallocs := s.mallocs + 1, user := true,
                              top2 := (c.lwork / 4) * 4, size := (c.lwork / 4) * 4, capB := s.capU } := by
  unfold reuseSetup; simp [hl]

/-- **`LUMemInit`, SamePattern_SameRowPerm, caller workspace**: from an idle state, for every new
`lwork > 0`, a return value 0 means that the invariant holds again -/
theorem memInitReuse_inv (fail : Nat → Bool) (c : Cfg) (hw : c.w.Ok) (s : St) (hid : Idle c.w s) (hl : 0 < c.lwork)
    (hn : c.n = s.n) (hn1 : 1 ≤ c.n) (hI : 0 ≤ isize c) (hD : 0 ≤ dsize c)
    (h : (memInitReuse fail c s).info = 0) : Inv c.w (memInitReuse fail c s).st := by
  have hI4 := isize_mod4 c hw
  have hD4 := dsize_mod4 c hw
  obtain ⟨⟨hu, hne, hn0, hh0, hL0, hU0, hS0, hB0, hBU, c1, c2, c3, c4, c5, t12, t2s, hused, dl, il, d1, d2, d3⟩, hfree, h4⟩ := hid
  have hmu := memoryUsage_nonneg c.w hw s.capS s.capU s.capL c.n hS0 hU0 hL0 (by omega)
  rw [← hn] at hh0 hn0
  unfold memInitReuse at h ⊢
  rw [reuseSetup_user c s (by omega)] at h ⊢
  simp only [if_true] at h ⊢
  unfold workInitUser userMallocTail at h ⊢
  by_cases f1 : ({ s with n := c.n, nexp := 0, mallocs := s.mallocs + 1, user := true,
                          top2 := (c.lwork / 4) * 4, size := (c.lwork / 4) * 4, capB := s.capU } : St).full (isize c)
  · simp only [f1, if_true] at h
    have hne : ¬ (isize c + c.n = 0) := by omega
    simp [hne] at h; omega
  · simp only [f1, if_false] at h ⊢
    by_cases f2 : ({ s with n := c.n, nexp := 0, mallocs := s.mallocs + 1, user := true,
                            top2 := (c.lwork / 4) * 4 - isize c, size := (c.lwork / 4) * 4, capB := s.capU,
                            used := s.used + isize c, iwork := (c.lwork / 4) * 4 - isize c, iworkLen := isize c } : St).full (dsize c)
    · simp only [f2, if_true] at h
      have hne : ¬ (isize c + dsize c + c.n = 0) := by omega
      simp [hne] at h; omega
    · simp only [f2, if_false] at h ⊢
      simp only [St.full] at f1 f2
      have hcases : ((if s.base4 = true then 4 else 0) + ((c.lwork / 4) * 4 - isize c - dsize c)) % 8 = 0 ∨
          ((if s.base4 = true then 4 else 0) + ((c.lwork / 4) * 4 - isize c - dsize c)) % 8 = 4 := by
        split <;> omega
      simp only [St.addr8]
      rcases hcases with hc0 | hc4
      · constructor <;> simp [hc0] <;> omega
      · constructor <;> simp [hc4] <;> omega

/-- the init does not move the head of the stack -/
theorem memInitReuse_top1 (fail : Nat → Bool) (c : Cfg) (s : St) (hl : c.lwork ≠ 0) :
    (memInitReuse fail c s).st.top1 = s.top1 := by
  unfold memInitReuse
  rw [reuseSetup_user c s hl]
  simp only [if_true]
  split
  · show (workInitUser c _).1.top1 = s.top1
    rw [workInitUser_top1]
  · show (workInitUser c _).1.top1 = s.top1
    rw [workInitUser_top1]

/-- offsets, the three lengths `nzlumax, nzumax, nzlmax`, the pointer arrays and the buffer itself are
taken over as they are; USUB's recorded length becomes `nzumax` -/
theorem memInitReuse_frame (fail : Nat → Bool) (c : Cfg) (s : St) :
    (∀ t, (memInitReuse fail c s).st.off t = s.off t) ∧
    (memInitReuse fail c s).st.capL = s.capL ∧ (memInitReuse fail c s).st.capU = s.capU ∧
    (memInitReuse fail c s).st.capS = s.capS ∧ (memInitReuse fail c s).st.capB = s.capU ∧
    (memInitReuse fail c s).st.hdrEnd = s.hdrEnd ∧ (memInitReuse fail c s).st.base4 = s.base4 ∧
    (memInitReuse fail c s).st.n = c.n ∧ (memInitReuse fail c s).st.user = decide (c.lwork ≠ 0) := by
  have key := workInitUser_frame c
  unfold memInitReuse
  by_cases hl : c.lwork = 0
  · have hu : (reuseSetup c s).user = false := by simp [reuseSetup, hl]
    simp only [hu, Bool.false_eq_true, if_false]
    unfold workInitSys
    split <;> (refine ⟨fun t => ?_, ?_⟩ <;> [cases t <;> split <;> simp [reuseSetup, St.off]; split <;> simp [reuseSetup, hl]])
  · have hu : (reuseSetup c s).user = true := by simp [reuseSetup, hl]
    simp only [hu, if_true]
    obtain ⟨k1, k2, k3, k4, k5, k6, k7, k8, k9, k10, k11, k12⟩ := key (reuseSetup c s)
    split <;> (refine ⟨fun t => ?_, ?_⟩ <;> [cases t <;> simp [St.off, *, reuseSetup]; simp [*, reuseSetup]])

/-- **the chain of refactorizations stays inside the invariant**: after the re-adopting init (return value 0),
whatever requests the factorization issues (`f` = any function that keeps `Inv`, `top1 % 4` — e.g. any
sequence of `LUMemXpand`) and `LUWorkFree`, the allocator is idle again -/
theorem idle_of_inv_workFree (w : Words) (s : St) (hinv : Inv w s) (h4 : s.top1 % 4 = 0) : Idle w (workFree s) :=
  ⟨workFree_inv w s hinv, workFree_free w s hinv, by rw [workFree_top1]; exact h4⟩

/-! ### nothing is moved or cleared -/

/-- **the re-adopted arrays hold exactly the bytes the previous factorization left**: in the state the init
returns, every byte of every array (its whole previous capacity) reads the same in the old store `σ` and
in any store `σ'` that differs from it only inside the tail `[top2, size)` of the workspace, where the two
new work arrays are (they are zero-filled by `SetIWork` / `[sdcz]SetRWork` right after the init) -/
theorem memInitReuse_keeps_bytes {β : Type} (fail : Nat → Bool) (c : Cfg) (hw : c.w.Ok) (s : St) (hid : Idle c.w s)
    (hl : 0 < c.lwork) (hn : c.n = s.n) (hn1 : 1 ≤ c.n) (hI : 0 ≤ isize c) (hD : 0 ≤ dsize c)
    (h : (memInitReuse fail c s).info = 0) (σ σ' : Store β)
    (hσ : ∀ a, a < (memInitReuse fail c s).st.top2 → σ' 0 a = σ 0 a)
    (t : MemType) (j : Int) (hj : j < s.cap t * c.w.lword t) :
    rbyte σ' (memInitReuse fail c s).st t j = rbyte σ s t j := by
  have hinv' := memInitReuse_inv fail c hw s hid hl hn hn1 hI hD h
  obtain ⟨ho, _, _, _, _, _, _, _, _⟩ := memInitReuse_frame fail c s
  have hu' : (memInitReuse fail c s).st.user = true := hinv'.user
  have ht1 := memInitReuse_top1 fail c s (by omega)
  have ht12 := hinv'.t12
  obtain ⟨hu, hne, hn0, hh0, hL0, hU0, hS0, hB0, hBU, c1, c2, c3, c4, c5, t12, t2s, hused, dl, il, d1, d2, d3⟩ := hid.inv
  have hdw := hw.dw_pos
  have hliw := hw.liw_pos
  have e5 : s.capB * c.w.liw ≤ s.capU * c.w.liw := Int.mul_le_mul_of_nonneg_right hBU (by omega)
  have eL : 0 ≤ s.capL * c.w.dw := Int.mul_nonneg hL0 (by omega)
  have eU : 0 ≤ s.capU * c.w.dw := Int.mul_nonneg hU0 (by omega)
  have eS : 0 ≤ s.capS * c.w.liw := Int.mul_nonneg hS0 (by omega)
  have eBU : 0 ≤ s.capU * c.w.liw := Int.mul_nonneg hU0 (by omega)
  simp only [rbyte, St.blk, St.boff, hu, hu', if_true]
  rw [ho t]
  apply hσ
  cases t <;> simp only [St.off, St.cap, Words.lword] at hj ⊢ <;> omega

/-- the same at the level of the refinement: whatever the abstract growable lists knew before the
refactorization they still know, byte for byte, in the state the init returns -/
theorem memInitReuse_sim {β : Type} (fail : Nat → Bool) (c : Cfg) (hw : c.w.Ok) (s : St) (hid : Idle c.w s)
    (hl : 0 < c.lwork) (hn : c.n = s.n) (hn1 : 1 ≤ c.n) (hI : 0 ≤ isize c) (hD : 0 ≤ dsize c)
    (h : (memInitReuse fail c s).info = 0) (a : Abs β) (σ σ' : Store β) (hs : Sim c.w a s σ)
    (hσ : ∀ ad, ad < (memInitReuse fail c s).st.top2 → σ' 0 ad = σ 0 ad) :
    Sim c.w a (memInitReuse fail c s).st σ' := by
  obtain ⟨_, kL, kU, kS, kB, _⟩ := memInitReuse_frame fail c s
  intro t j b hb
  obtain ⟨r1, r2, r3⟩ := hs t j b hb
  refine ⟨r1, ?_, ?_⟩
  · have hBU := hid.inv.capBU
    have hlw := hw.lword_pos t
    have : s.cap t ≤ (memInitReuse fail c s).st.cap t := by
      cases t <;> simp only [St.cap] <;> omega
    have := Int.mul_le_mul_of_nonneg_right this (le_of_lt hlw)
    omega
  · rw [memInitReuse_keeps_bytes fail c hw s hid hl hn hn1 hI hD h σ σ' hσ t j r2]; exact r3

/-! ### library allocation -/

/-- **`LUMemInit`, SamePattern_SameRowPerm, library allocation** (`lwork = 0`): the four arrays stay in
their four blocks, nothing is allocated for them -/
theorem memInitReuse_sysInv (fail : Nat → Bool) (c : Cfg) (hw : c.w.Ok) (s : St) (hs : SysInv s) (hl : c.lwork = 0)
    (hn1 : 1 ≤ c.n) (hI : 0 ≤ isize c) (hD : 0 ≤ dsize c) (hL0 : 0 ≤ s.capL) (hU0 : 0 ≤ s.capU) (hS0 : 0 ≤ s.capS)
    (h : (memInitReuse fail c s).info = 0) : SysInv (memInitReuse fail c s).st := by
  obtain ⟨hu, hne, lL, lU, lS, lB, dLU, dLS, dLB, dUS, dUB, dSB⟩ := hs
  have hmu := memoryUsage_nonneg c.w hw s.capS s.capU s.capL c.n hS0 hU0 hL0 (by omega)
  have hcap : (reuseSetup c s).capL = s.capL ∧ (reuseSetup c s).capU = s.capU ∧ (reuseSetup c s).capS = s.capS := by
    simp [reuseSetup]
  obtain ⟨e1, e2, e3⟩ := hcap
  unfold memInitReuse at h ⊢
  have hu0 : (reuseSetup c s).user = false := by simp [reuseSetup, hl]
  simp only [hu0, Bool.false_eq_true, if_false, e1, e2, e3] at h ⊢
  unfold workInitSys at h ⊢
  by_cases hf : fail (reuseSetup c s).mallocs = true
  · simp only [hf, if_true] at h
    have hne' : ¬ (isize c + dsize c + c.n = 0) := by omega
    simp [hne'] at h; omega
  · simp only [hf] at h ⊢
    constructor <;> simp [reuseSetup, hl] <;> omega

/-- under library allocation nothing is read through a different address either: every byte of every
array, in every store -/
theorem memInitReuse_keeps_bytes_sys {β : Type} (fail : Nat → Bool) (c : Cfg) (s : St) (hl : c.lwork = 0)
    (hu : s.user = false) (σ : Store β) (t : MemType) (j : Int) :
    rbyte σ (memInitReuse fail c s).st t j = rbyte σ s t j := by
  obtain ⟨ho, _, _, _, _, _, _, _, ku⟩ := memInitReuse_frame fail c s
  have hu' : (memInitReuse fail c s).st.user = false := by rw [ku]; simp [hl]
  simp only [rbyte, St.blk, St.boff, hu, hu', ho t]

/-! ### either storage mode -/

/-- the allocator between two factorizations, in whichever mode is in use -/
def IdleGood (w : Words) (s : St) : Prop :=
  Idle w s ∨ (SysInv s ∧ 0 ≤ s.capB ∧ s.capB ≤ s.capU ∧ 0 ≤ s.capL ∧ 0 ≤ s.capS)

/-- what a legal refactorization call passes: the storage mode of the previous call (`lwork > 0` again, or
`lwork = 0` again), the same matrix order, work-array sizes that are not negative -/
structure ReuseCall (c : Cfg) (s : St) : Prop where
  mode : (s.user = true ∧ 0 < c.lwork) ∨ (s.user = false ∧ c.lwork = 0)
  n : c.n = s.n
  n1 : 1 ≤ c.n
  isz : 0 ≤ isize c
  dsz : 0 ≤ dsize c

theorem IdleGood.caps {w : Words} {s : St} (h : IdleGood w s) :
    0 ≤ s.capL ∧ 0 ≤ s.capU ∧ 0 ≤ s.capS ∧ 0 ≤ s.capB ∧ s.capB ≤ s.capU := by
  rcases h with h | ⟨_, h1, h2, h3, h4⟩
  · exact ⟨h.inv.capL0, h.inv.capU0, h.inv.capS0, h.inv.capB0, h.inv.capBU⟩
  · exact ⟨h3, by omega, h4, h1, h2⟩

/-- **the re-adopting `LUMemInit` re-establishes the invariant of the mode in use** -/
theorem memInitReuse_goodInv (fail : Nat → Bool) (c : Cfg) (hw : c.w.Ok) (s : St) (hg : IdleGood c.w s)
    (hc : ReuseCall c s) (h : (memInitReuse fail c s).info = 0) : GoodInv c.w (memInitReuse fail c s).st := by
  obtain ⟨hL, hU, hS, hB, hBU⟩ := hg.caps
  obtain ⟨_, kL, kU, kS, kB, _⟩ := memInitReuse_frame fail c s
  rcases hg with hid | ⟨hsys, _⟩
  · have hl : 0 < c.lwork := by
      rcases hc.mode with ⟨_, h2⟩ | ⟨h1, _⟩
      · exact h2
      · rw [hid.inv.user] at h1; simp at h1
    exact Or.inl (memInitReuse_inv fail c hw s hid hl hc.n hc.n1 hc.isz hc.dsz h)
  · have hl : c.lwork = 0 := by
      rcases hc.mode with ⟨h1, _⟩ | ⟨_, h2⟩
      · rw [hsys.user] at h1; simp at h1
      · exact h2
    refine Or.inr ⟨memInitReuse_sysInv fail c hw s hsys hl hc.n1 hc.isz hc.dsz hL hU hS h, ?_, ?_, ?_, ?_⟩ <;> omega

/-- **… and every byte the abstract lists knew is still known**: `σ'` may differ from `σ` anywhere except in
the part of the caller's buffer below the new `top2` and in the blocks the library had allocated before -/
theorem memInitReuse_sim_good {β : Type} (fail : Nat → Bool) (c : Cfg) (hw : c.w.Ok) (s : St) (hg : IdleGood c.w s)
    (hc : ReuseCall c s) (h : (memInitReuse fail c s).info = 0) (a : Abs β) (σ σ' : Store β) (hs : Sim c.w a s σ)
    (hσ : ∀ (b : Nat) (ad : Int), ((b = 0 ∧ ad < (memInitReuse fail c s).st.top2) ∨ (0 < b ∧ b ≤ s.mallocs)) → σ' b ad = σ b ad) :
    Sim c.w a (memInitReuse fail c s).st σ' := by
  obtain ⟨hL, hU, hS, hB, hBU⟩ := hg.caps
  obtain ⟨ho, kL, kU, kS, kB, _, _, _, ku⟩ := memInitReuse_frame fail c s
  rcases hg with hid | ⟨hsys, _⟩
  · have hl : 0 < c.lwork := by
      rcases hc.mode with ⟨_, h2⟩ | ⟨h1, _⟩
      · exact h2
      · rw [hid.inv.user] at h1; simp at h1
    exact memInitReuse_sim fail c hw s hid hl hc.n hc.n1 hc.isz hc.dsz h a σ σ' hs
      (fun ad had => hσ 0 ad (Or.inl ⟨rfl, had⟩))
  · have hl : c.lwork = 0 := by
      rcases hc.mode with ⟨h1, _⟩ | ⟨_, h2⟩
      · rw [hsys.user] at h1; simp at h1
      · exact h2
    have hu' : (memInitReuse fail c s).st.user = false := by rw [ku]; simp [hl]
    intro t j b hb
    obtain ⟨r1, r2, r3⟩ := hs t j b hb
    refine ⟨r1, ?_, ?_⟩
    · have hlw := hw.lword_pos t
      have : s.cap t ≤ (memInitReuse fail c s).st.cap t := by
        cases t <;> simp only [St.cap] <;> omega
      have := Int.mul_le_mul_of_nonneg_right this (le_of_lt hlw)
      omega
    · obtain ⟨hu, _, lL, lU, lS, lB, _⟩ := hsys
      simp only [rbyte, St.blk, St.boff, hu, hu', ho t, Bool.false_eq_true, if_false] at r3 ⊢
      rw [hσ _ _ (Or.inr ?_)]
      · exact r3
      · cases t <;> simp only [St.off] <;> omega

/-! ### a failing init reports `info > n` -/

theorem memInitReuse_info_gt (fail : Nat → Bool) (c : Cfg) (hw : c.w.Ok) (s : St) (hn : 1 ≤ c.n)
    (hI : 0 ≤ isize c) (hD : 0 ≤ dsize c) (hL0 : 0 ≤ s.capL) (hU0 : 0 ≤ s.capU) (hS0 : 0 ≤ s.capS)
    (h : (memInitReuse fail c s).info ≠ 0) : c.n < (memInitReuse fail c s).info := by
  have hcap : (reuseSetup c s).capL = s.capL ∧ (reuseSetup c s).capU = s.capU ∧ (reuseSetup c s).capS = s.capS := by
    simp [reuseSetup]
  obtain ⟨e1, e2, e3⟩ := hcap
  have hmu := memoryUsage_nonneg c.w hw s.capS s.capU s.capL c.n hS0 hU0 hL0 (by omega)
  unfold memInitReuse at h ⊢
  simp only [e1, e2, e3] at h ⊢
  by_cases hu : (reuseSetup c s).user = true
  · simp only [hu, if_true] at h ⊢
    rcases workInitUser_code c (reuseSetup c s) hn hI hD with hz | hp
    · simp [hz] at h
    · have hne : ¬ ((workInitUser c (reuseSetup c s)).2 = 0) := by omega
      simp only [ne_eq, hne, not_false_eq_true, if_true]
      show c.n < (workInitUser c (reuseSetup c s)).2 + memoryUsage c.w s.capS s.capU s.capL c.n + c.n
      omega
  · have hu' : (reuseSetup c s).user = false := by simpa using hu
    simp only [hu', Bool.false_eq_true, if_false] at h ⊢
    rcases workInitSys_code c fail (reuseSetup c s) hn hI hD with hz | hp
    · simp [hz] at h
    · have hne : ¬ ((workInitSys c fail (reuseSetup c s)).2 = 0) := by omega
      simp only [ne_eq, hne, not_false_eq_true, if_true]
      show c.n < (workInitSys c fail (reuseSetup c s)).2 + memoryUsage c.w s.capS s.capU s.capL c.n + c.n
      omega

end Slu.Mem
