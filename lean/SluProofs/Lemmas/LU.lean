import Slu.Model.LU
import Mathlib.Tactic.Ring
import Mathlib.Tactic.Linarith
import Mathlib.Tactic.LinearCombination
import Mathlib.Tactic.FieldSimp
import Mathlib.Algebra.Field.Basic
/-
Helper lemmas for the column LU model (`Slu.LU`): vector updates and the forward elimination.
-/
namespace Slu.LU
open Slu

variable {K : Type} [Field K]

@[simp] theorem axpy_size (w l : Vec K) (u : K) : (axpy w l u).size = w.size := by
  simp [axpy]

theorem axpy_get (w l : Vec K) (u : K) (i : Nat) (hi : i < w.size) :
    (axpy w l u).get i = w.get i - u * l.get i := by
  simp [axpy, Vec.get, Array.getD, hi]

theorem get_of_size_le (w : Vec K) (i : Nat) (hi : w.size ≤ i) : w.get i = 0 := by
  simp [Vec.get, Array.getD, Nat.not_lt.mpr hi]

/-- `Σ_k us[k] * (Ls[k].2).get i` -/
def dotL (us : List K) (Ls : List (Nat × Vec K)) (i : Nat) : K :=
  (List.zipWith (fun u (pl : Nat × Vec K) => u * pl.2.get i) us Ls).sum

@[simp] theorem dotL_nil (i : Nat) : dotL ([] : List K) [] i = 0 := by simp [dotL]
@[simp] theorem dotL_cons (u : K) (us : List K) (pl : Nat × Vec K) (Ls : List (Nat × Vec K)) (i : Nat) :
    dotL (u :: us) (pl :: Ls) i = u * pl.2.get i + dotL us Ls i := by simp [dotL]

theorem elim_size (Ls : List (Nat × Vec K)) (w : Vec K) : (elim Ls w).1.size = w.size := by
  induction Ls generalizing w with
  | nil => simp [elim]
  | cons pl rest ih => obtain ⟨p, l⟩ := pl; simp [elim, ih]

theorem elim_length (Ls : List (Nat × Vec K)) (w : Vec K) : (elim Ls w).2.length = Ls.length := by
  induction Ls generalizing w with
  | nil => simp [elim]
  | cons pl rest ih => obtain ⟨p, l⟩ := pl; simp [elim, ih]

/-- **Central lemma.** Forward elimination only subtracts multiples of the previous L columns:
`w = Σ_k u_k L_k + w'`, row by row. -/
theorem elim_spec (Ls : List (Nat × Vec K)) (w : Vec K) (i : Nat) (hi : i < w.size) :
    w.get i = dotL (elim Ls w).2 Ls i + (elim Ls w).1.get i := by
  induction Ls generalizing w with
  | nil => simp [elim]
  | cons pl rest ih =>
    obtain ⟨p, l⟩ := pl
    simp only [elim, dotL_cons]
    have h := ih (axpy w l (w.get p)) (by simpa using hi)
    rw [axpy_get w l (w.get p) i hi] at h
    linear_combination h

/-- the L columns are 1 at their own pivot row and vanish at every earlier pivot row -/
def UnitLower : List (Nat × Vec K) → Prop
  | [] => True
  | (p, l) :: rest => l.get p = 1 ∧ (∀ pl ∈ rest, pl.2.get p = 0) ∧ UnitLower rest

/-- after eliminating with such columns the remaining vector vanishes at every pivot row (and at
every row `q` where it vanished before and where all the columns vanish) -/
theorem elim_zero_at_pivots (Ls : List (Nat × Vec K)) (w : Vec K) (hU : UnitLower Ls)
    (hsz : ∀ pl ∈ Ls, pl.1 < w.size)
    (pre : List Nat) (hpre : ∀ q ∈ pre, w.get q = 0 ∧ q < w.size)
    (hprelow : ∀ q ∈ pre, ∀ pl ∈ Ls, pl.2.get q = 0) :
    (∀ pl ∈ Ls, (elim Ls w).1.get pl.1 = 0) ∧ (∀ q ∈ pre, (elim Ls w).1.get q = 0) := by
  induction Ls generalizing w pre with
  | nil => exact ⟨fun pl h => absurd h (by simp), fun q hq => by simpa [elim] using (hpre q hq).1⟩
  | cons pl rest ih =>
    obtain ⟨p, l⟩ := pl
    obtain ⟨hl1, hlow, hrest⟩ := hU
    simp only [elim]
    have hp : p < w.size := hsz (p, l) List.mem_cons_self
    set w1 := axpy w l (w.get p) with hw1
    have hw1p : w1.get p = 0 := by
      rw [hw1, axpy_get _ _ _ _ hp, hl1]; ring
    have hw1pre : ∀ q ∈ pre, w1.get q = 0 ∧ q < w1.size := by
      intro q hq
      obtain ⟨h0, hlt⟩ := hpre q hq
      refine ⟨?_, by simpa [hw1] using hlt⟩
      rw [hw1, axpy_get _ _ _ _ hlt, h0, hprelow q hq (p, l) List.mem_cons_self]; ring
    obtain ⟨h1, h2⟩ := ih w1 hrest
      (fun pl h => by simpa [hw1] using hsz pl (List.mem_cons_of_mem _ h))
      (p :: pre)
      (by
        intro q hq
        rcases List.mem_cons.mp hq with rfl | hq
        · exact ⟨hw1p, by simpa [hw1] using hp⟩
        · exact hw1pre q hq)
      (by
        intro q hq pl hpl
        rcases List.mem_cons.mp hq with rfl | hq
        · exact hlow pl hpl
        · exact hprelow q hq pl (List.mem_cons_of_mem _ hpl))
    constructor
    · intro pl hpl
      rcases List.mem_cons.mp hpl with rfl | hpl
      · exact h2 p List.mem_cons_self
      · exact h1 pl hpl
    · intro q hq
      exact h2 q (List.mem_cons_of_mem _ hq)

end Slu.LU
