import Slu.Model.Symb
import SluProofs.Lemmas.LUInv
import SluProofs.Lemmas.ElimOrder
import Mathlib.Algebra.BigOperators.Group.Finset.Basic
import Mathlib.Algebra.Field.Basic
import Mathlib.Tactic.Ring
/-
C03 — soundness of symbolic factorization, STAGE 1 (column level, no supernodes).

Rows are in PIVOT numbering (`B = Pr·A·Pc`, the pivot of column `j` is row `j`), as in
lean/Slu/Model/Symb.lean.  `ColReach cols j r` is the classical column-level symbolic factorization:
the reach of column `j` is the least set that contains the rows of `B(:,j)` and is closed under "a
reached row `k < j` adds the rows of `struct(k)` below `k`", `struct(k) = {k} ∪ {r > k reached}`.

* `colReach_contains_LU` / `colStruct_contains_LU`: for ANY exact factorization `B = L·U` over a field
  (L unit lower triangular, U upper triangular with nonzero diagonal — hence for THE factorization, which
  is unique), every nonzero of `U(:,j)` above the diagonal lies in the reach of column `j` and every
  nonzero of `L(:,j)` below the diagonal lies in `struct(j)`.
* `inv_colStruct`: the same for the factors held by a state of the numeric model `Slu.LU.luFactor` that
  satisfies its invariant `Slu.LU.Inv` and chose the diagonal pivots (`piv k = k`).

Modelling choice for (L, U): the core theorem takes L, U as arbitrary functions constrained only by the
matrix identity and the triangular shapes (no recurrences: they are consequences), which is the weakest
hypothesis; the numeric model is then an instance through `Inv.ident`, `Inv.unit`, `Inv.usize`,
`Inv.udiag`.
-/
namespace Slu.Symb

/-- **column-level reach**: `ColReach cols j r` — row `r` is reached by column `j`.  The least relation with
`rows(B(:,j)) ⊆ reach(j)` and "`k ∈ reach(j)`, `k < j`, `r ∈ struct(k)`, `r > k` ⟹ `r ∈ reach(j)`" (the
rows of `struct(k)` below `k` are the rows `r > k` of `reach(k)`).  `colReachL_iff` (Lemmas/SymbContain.lean)
shows that it is exactly what the one-pass algorithm `Symb.reach` computes when every column is its own
supernode. -/
inductive ColReach (cols : Nat → List Nat) : Nat → Nat → Prop
  | base {j r : Nat} : r ∈ cols j → ColReach cols j r
  | step {j k r : Nat} : ColReach cols j k → k < j → k < r → ColReach cols k r → ColReach cols j r

/-- **column-level structure** of column `j` of L: `struct(j) = {j} ∪ {r > j reached}` (R3) -/
def ColStruct (cols : Nat → List Nat) (j r : Nat) : Prop := r = j ∨ (j < r ∧ ColReach cols j r)

/-- **column-level structure** of column `j` of U, diagonal included: `{j} ∪ {k < j reached}` -/
def ColUStruct (cols : Nat → List Nat) (j k : Nat) : Prop := k = j ∨ (k < j ∧ ColReach cols j k)

variable {K : Type} [Field K]

/-- **Stage 1 (core).**  Strong induction on the column `j`, inside it strong induction on the row `k`
of U.  `U(k,j) = B(k,j) − Σ_{t<k} L(k,t) U(t,j)`: if it is nonzero then `B(k,j) ≠ 0` (base) or some
`L(k,t) U(t,j) ≠ 0` with `t < k`, so `t ∈ reach(j)` (inner induction) and `k ∈ struct(t)` (outer
induction), hence `k ∈ reach(j)` (closure).  `L(i,j) U(j,j) = B(i,j) − Σ_{t<j} L(i,t) U(t,j)` likewise. -/
theorem colReach_contains_LU (n : Nat) (B L U : Nat → Nat → K) (cols : Nat → List Nat)
    (hcols : ∀ i < n, ∀ j < n, B i j ≠ 0 → i ∈ cols j)
    (hB : ∀ i < n, ∀ j < n, B i j = ∑ t ∈ Finset.range n, L i t * U t j)
    (hL1 : ∀ i < n, L i i = 1) (hL0 : ∀ i < n, ∀ t < n, i < t → L i t = 0)
    (hU0 : ∀ t < n, ∀ j < n, j < t → U t j = 0) (hUd : ∀ j < n, U j j ≠ 0) :
    ∀ j < n, (∀ k < j, U k j ≠ 0 → ColReach cols j k) ∧ (∀ i < n, j < i → L i j ≠ 0 → ColReach cols j i) := by
  intro j
  induction j using Nat.strong_induction_on with
  | _ j ihj =>
    intro hj
    have hU : ∀ k < j, U k j ≠ 0 → ColReach cols j k := by
      intro k
      induction k using Nat.strong_induction_on with
      | _ k ihk =>
        intro hkj hne
        have hk : k < n := by omega
        by_cases hb : B k j = 0
        · by_contra hnot
          apply hne
          have hz : ∀ t < k, L k t * U t j = 0 := by
            intro t ht
            by_contra hprod
            have h1 : L k t ≠ 0 := left_ne_zero_of_mul hprod
            have h2 : U t j ≠ 0 := right_ne_zero_of_mul hprod
            exact hnot (ColReach.step (ihk t ht (by omega) h2) (by omega) ht ((ihj t (by omega) (by omega)).2 k hk ht h1))
          have hs := hB k hk j hj
          rw [hb, Finset.sum_eq_single k] at hs
          · rw [hL1 k hk, one_mul] at hs; exact hs.symm
          · intro t htn htk
            have htn' : t < n := Finset.mem_range.mp htn
            rcases Nat.lt_or_gt_of_ne htk with h | h
            · exact hz t h
            · rw [hL0 k hk t htn' h, zero_mul]
          · intro hk'; exact absurd (Finset.mem_range.mpr hk) hk'
        · exact ColReach.base (hcols k hk j hj hb)
    refine ⟨hU, ?_⟩
    intro i hi hji hne
    by_cases hb : B i j = 0
    · by_contra hnot
      apply hne
      have hz : ∀ t < j, L i t * U t j = 0 := by
        intro t ht
        by_contra hprod
        have h1 : L i t ≠ 0 := left_ne_zero_of_mul hprod
        have h2 : U t j ≠ 0 := right_ne_zero_of_mul hprod
        exact hnot (ColReach.step (hU t ht h2) ht (by omega) ((ihj t ht (by omega)).2 i hi (by omega) h1))
      have hs := hB i hi j hj
      rw [hb, Finset.sum_eq_single j] at hs
      · exact (mul_eq_zero.mp hs.symm).resolve_right (hUd j hj)
      · intro t htn htj
        have htn' : t < n := Finset.mem_range.mp htn
        rcases Nat.lt_or_gt_of_ne htj with h | h
        · exact hz t h
        · rw [hU0 t htn' j hj h, mul_zero]
      · intro hj'; exact absurd (Finset.mem_range.mpr hj) hj'
    · exact ColReach.base (hcols i hi j hj hb)

/-- **Stage 1.**  For any exact factorization `B = L·U` of an `n × n` matrix over a field, L unit lower
triangular, U upper triangular with nonzero diagonal, and any pattern `cols` that covers the nonzeros of
B: every nonzero of `L(:,j)` lies in the column-level structure `struct(j)` and every nonzero of `U(:,j)`
in `{j} ∪ {k < j : k ∈ reach(j)}`. -/
theorem colStruct_contains_LU (n : Nat) (B L U : Nat → Nat → K) (cols : Nat → List Nat)
    (hcols : ∀ i < n, ∀ j < n, B i j ≠ 0 → i ∈ cols j)
    (hB : ∀ i < n, ∀ j < n, B i j = ∑ t ∈ Finset.range n, L i t * U t j)
    (hL1 : ∀ i < n, L i i = 1) (hL0 : ∀ i < n, ∀ t < n, i < t → L i t = 0)
    (hU0 : ∀ t < n, ∀ j < n, j < t → U t j = 0) (hUd : ∀ j < n, U j j ≠ 0) :
    ∀ j < n, (∀ i < n, L i j ≠ 0 → ColStruct cols j i) ∧ (∀ k < n, U k j ≠ 0 → ColUStruct cols j k) := by
  intro j hj
  obtain ⟨h1, h2⟩ := colReach_contains_LU n B L U cols hcols hB hL1 hL0 hU0 hUd j hj
  constructor
  · intro i hi hne
    rcases Nat.lt_trichotomy i j with h | h | h
    · exact absurd (hL0 i hi j hj h) hne
    · exact Or.inl h
    · exact Or.inr ⟨h, h2 i hi h hne⟩
  · intro k hk hne
    rcases Nat.lt_trichotomy k j with h | h | h
    · exact Or.inr ⟨h, h1 k h hne⟩
    · exact Or.inl h
    · exact absurd (hU0 k hk j hj h) hne

end Slu.Symb

namespace Slu.LU
open Slu
variable {K : Type} [Field K] [Mag K Rat]

omit [Mag K Rat] in
theorem list_sum_range_eq (f : Nat → K) (m : Nat) : ((List.range m).map f).sum = ∑ t ∈ Finset.range m, f t := by
  induction m with
  | zero => simp
  | succ m ih => rw [List.range_succ, List.map_append, List.sum_append, ih, Finset.sum_range_succ]; simp

/-- entries of the factors held by a state: `L(i,t)` (row `i` in ORIGINAL numbering, which is the pivot
numbering when `piv k = k`) and `U(t,j)` -/
def entL (st : St K) (i t : Nat) : K := (st.L.getD t #[]).get i
def entU (st : St K) (t j : Nat) : K := (st.U.getD j #[]).getD t 0

omit [Field K] [Mag K Rat] in
theorem prev_getElem? (st : St K) (n t : Nat) (ht : t < n) : (prev st n)[t]? = some (st.piv.getD t 0, st.L.getD t #[]) := by
  simp [prev, ht]

theorem inv_entL (P : Params K Rat) (st : St K) (n : Nat) (inv : Inv P st n) (hpiv : ∀ k < n, st.piv.getD k 0 = k) :
    (∀ i < n, entL st i i = 1) ∧ (∀ i < n, ∀ t < n, i < t → entL st i t = 0) := by
  obtain ⟨h1, h2⟩ := (unitLower_iff _).mp inv.unit
  constructor
  · intro i hi
    have hm : (st.piv.getD i 0, st.L.getD i #[]) ∈ prev st n := List.mem_of_getElem? (prev_getElem? st n i hi)
    have := h1 _ hm
    simpa [hpiv i hi, entL] using this
  · intro i hi t ht hit
    have := List.pairwise_iff_getElem.mp h2 i t (by simp [prev_length]; exact hi) (by simp [prev_length]; exact ht) hit
    simp only [prev, List.getElem_map, List.getElem_range] at this
    rw [hpiv i hi] at this
    exact this

theorem inv_entU (P : Params K Rat) (st : St K) (n : Nat) (inv : Inv P st n) :
    (∀ t < n, ∀ j < n, j < t → entU st t j = 0) ∧ (∀ j < n, entU st j j ≠ 0) := by
  constructor
  · intro t _ j hj hjt
    have := inv.usize j hj
    simp only [entU]
    generalize st.U.getD j #[] = a at this
    simp [Array.getD]
    omega
  · intro j hj; exact inv.udiag j hj

theorem inv_product (P : Params K Rat) (st : St K) (n : Nat) (hm : P.m = n) (inv : Inv P st n) :
    ∀ i < n, ∀ j < n, (P.col j).get i = ∑ t ∈ Finset.range n, entL st i t * entU st t j := by
  intro i hi j hj
  rw [inv.ident j hj i (by omega), dotL_prev _ _ (j + 1) i (by rw [Array.length_toList]; exact inv.usize j hj),
    list_sum_range_eq]
  have hsub : Finset.range (j + 1) ⊆ Finset.range n := Finset.range_subset_range.mpr (by omega)
  rw [← Finset.sum_subset hsub]
  · apply Finset.sum_congr rfl
    intro t _
    rw [mul_comm]
    congr 1
    simp only [entU]
    generalize st.U.getD j #[] = a
    by_cases ht : t < a.size <;> simp [Array.getD, List.getD, ht]
  · intro t htn htj
    have htn' : t < n := Finset.mem_range.mp htn
    have : j < t := by
      have := Finset.mem_range.not.mp htj; omega
    rw [(inv_entU P st n inv).1 t htn' j hj this, mul_zero]

/-- **Stage 1 on the numeric model.**  A state of the column LU `Slu.LU.step` that satisfies the invariant
`Inv` after `n` columns of a square matrix and chose the diagonal pivots (`piv k = k`: rows already in
pivot numbering) holds factors whose nonzeros lie in the column-level structure of any pattern `cols`
covering the nonzeros of the matrix. -/
theorem inv_colStruct (P : Params K Rat) (st : St K) (n : Nat) (hm : P.m = n) (inv : Inv P st n)
    (hpiv : ∀ k < n, st.piv.getD k 0 = k) (cols : Nat → List Nat)
    (hcols : ∀ i < n, ∀ j < n, (P.col j).get i ≠ 0 → i ∈ cols j) :
    ∀ j < n, (∀ i, entL st i j ≠ 0 → Symb.ColStruct cols j i) ∧ (∀ k, entU st k j ≠ 0 → Symb.ColUStruct cols j k) := by
  intro j hj
  obtain ⟨hL1, hL0⟩ := inv_entL P st n inv hpiv
  obtain ⟨hU0, hUd⟩ := inv_entU P st n inv
  obtain ⟨h1, h2⟩ := Symb.colStruct_contains_LU n (fun i j => (P.col j).get i) (entL st) (entU st) cols hcols
    (inv_product P st n hm inv) hL1 hL0 hU0 hUd j hj
  constructor
  · intro i hne
    by_cases hi : i < n
    · exact h1 i hi hne
    · exact absurd (get_of_size_le _ i (by rw [inv.lsize j hj]; omega)) hne
  · intro k hne
    by_cases hk : k < n
    · exact h2 k hk hne
    · have hsz := inv.usize j hj
      refine absurd ?_ hne
      simp only [entU]
      generalize st.U.getD j #[] = a at hsz
      simp [Array.getD]
      omega

end Slu.LU
