import Slu.Model.Ilu
import SluProofs.Lemmas.Kernels
import Mathlib.Data.Finset.Card
/-
Lemmas for C15: permutations as arrays.
-/
namespace Slu.Ilu
open Slu Slu.Kernels

/-- first `m` steps of `invPerm` -/
def invPermTo (perm : Array Nat) (m : Nat) : Array Nat :=
  (List.range m).foldl (fun (ip : Array Nat) i => ip.setIfInBounds perm[i]! i) (Array.replicate perm.size 0)

theorem invPermTo_size (perm : Array Nat) (m : Nat) : (invPermTo perm m).size = perm.size := by
  induction m with
  | zero => simp [invPermTo]
  | succ m ih =>
    simp only [invPermTo, List.range_succ, List.foldl_append, List.foldl_cons, List.foldl_nil, Array.size_setIfInBounds] at ih ⊢
    exact ih

theorem invPermTo_get (n : Nat) (perm : Array Nat) (h : PermOn n perm) (m : Nat) (hm : m ≤ n) :
    ∀ i, i < m → (invPermTo perm m)[perm[i]!]! = i := by
  induction m with
  | zero => intro i hi; omega
  | succ m ih =>
    intro i hi
    have hs := invPermTo_size perm m
    have hstep : invPermTo perm (m + 1) = (invPermTo perm m).setIfInBounds perm[m]! m := by
      simp [invPermTo, List.range_succ, List.foldl_append]
    rw [hstep, getElem!_setIfInBounds, hs]
    by_cases hi' : i = m
    · subst hi'
      have : perm[i]! < perm.size := by rw [h.1]; exact h.2.1 i (by omega)
      simp [this]
    · have hne : ¬ (perm[m]! = perm[i]! ∧ perm[m]! < perm.size) := by
        intro hc
        exact hi' (h.2.2 i m (by omega) (by omega) hc.1.symm)
      rw [if_neg hne]
      exact ih (by omega) i (by omega)

/-- `iperm[perm[i]] = i` -/
theorem invPerm_perm (n : Nat) (perm : Array Nat) (h : PermOn n perm) (i : Nat) (hi : i < n) :
    (invPerm perm)[perm[i]!]! = i := by
  have : invPerm perm = invPermTo perm perm.size := rfl
  rw [this, h.1]
  exact invPermTo_get n perm h n (le_refl n) i hi

/-- an injection of `0..n-1` into itself is onto -/
theorem permOn_surj (n : Nat) (p : Array Nat) (h : PermOn n p) (v : Nat) (hv : v < n) : ∃ i, i < n ∧ p[i]! = v := by
  classical
  have himg : (Finset.range n).image (fun i => p[i]!) = Finset.range n := by
    apply Finset.eq_of_subset_of_card_le
    · intro x hx
      obtain ⟨i, hi, rfl⟩ := Finset.mem_image.mp hx
      exact Finset.mem_range.mpr (h.2.1 i (Finset.mem_range.mp hi))
    · rw [Finset.card_image_of_injOn]
      intro i hi j hj hij
      exact h.2.2 i j (Finset.mem_range.mp hi) (Finset.mem_range.mp hj) hij
  have : v ∈ (Finset.range n).image (fun i => p[i]!) := by rw [himg]; exact Finset.mem_range.mpr hv
  obtain ⟨i, hi, hiv⟩ := Finset.mem_image.mp this
  exact ⟨i, Finset.mem_range.mp hi, hiv⟩

theorem foldPerm_get (permr perm : Array Nat) (i : Nat) (hi : i < perm.size) :
    (foldPerm permr perm)[i]! = permr[perm[i]!]! := by
  simp [foldPerm, Array.getElem!_eq_getD, Array.getD_eq_getD_getElem?, hi]

end Slu.Ilu
