import Slu.Model.Ilu
import SluProofs.Lemmas.Kernels
import Mathlib.Data.Finset.Card
import SluProofs.Lemmas.RatBasic
/-
Lemmas for C15: permutations as arrays.
-/
namespace Slu.Ilu
open Slu Slu.Kernels

/-- first `m` steps of `invPerm` -/
def invPermTo (perm : Array Nat) (m : Nat) : Array Nat :=
  (List.range m).foldl (fun (ip : Array Nat) i => ip.setIfInBounds perm[i]! i) (Array.replicate perm.size 0)

theorem invPermTo_size (perm : Array Nat) (m : Nat) : (invPermTo perm m).size = perm.size := by
  induction m with
  | zero => simp [invPermTo]
  | succ m ih =>
    simp only [invPermTo, List.range_succ, List.foldl_append, List.foldl_cons, List.foldl_nil, Array.size_setIfInBounds] at ih ⊢
    exact ih

theorem invPermTo_get (n : Nat) (perm : Array Nat) (h : PermOn n perm) (m : Nat) (hm : m ≤ n) :
    ∀ i, i < m → (invPermTo perm m)[perm[i]!]! = i := by
  induction m with
  | zero => intro i hi; omega
  | succ m ih =>
    intro i hi
    have hs := invPermTo_size perm m
    have hstep : invPermTo perm (m + 1) = (invPermTo perm m).setIfInBounds perm[m]! m := by
      simp [invPermTo, List.range_succ, List.foldl_append]
    rw [hstep, getElem!_setIfInBounds, hs]
    by_cases hi' : i = m
    · subst hi'
      have : perm[i]! < perm.size := by rw [h.1]; exact h.2.1 i (by omega)
      simp [this]
    · have hne : ¬ (perm[m]! = perm[i]! ∧ perm[m]! < perm.size) := by
        intro hc
        exact hi' (h.2.2 i m (by omega) (by omega) hc.1.symm)
      rw [if_neg hne]
      exact ih (by omega) i (by omega)

/-- `iperm[perm[i]] = i` -/
theorem invPerm_perm (n : Nat) (perm : Array Nat) (h : PermOn n perm) (i : Nat) (hi : i < n) :
    (invPerm perm)[perm[i]!]! = i := by
  have : invPerm perm = invPermTo perm perm.size := rfl
  rw [this, h.1]
  exact invPermTo_get n perm h n (le_refl n) i hi

/-- an injection of `0..n-1` into itself is onto -/
theorem permOn_surj (n : Nat) (p : Array Nat) (h : PermOn n p) (v : Nat) (hv : v < n) : ∃ i, i < n ∧ p[i]! = v := by
  classical
  have himg : (Finset.range n).image (fun i => p[i]!) = Finset.range n := by
    apply Finset.eq_of_subset_of_card_le
    · intro x hx
      obtain ⟨i, hi, rfl⟩ := Finset.mem_image.mp hx
      exact Finset.mem_range.mpr (h.2.1 i (Finset.mem_range.mp hi))
    · rw [Finset.card_image_of_injOn]
      intro i hi j hj hij
      exact h.2.2 i j (Finset.mem_range.mp hi) (Finset.mem_range.mp hj) hij
  have : v ∈ (Finset.range n).image (fun i => p[i]!) := by rw [himg]; exact Finset.mem_range.mpr hv
  obtain ⟨i, hi, hiv⟩ := Finset.mem_image.mp this
  exact ⟨i, Finset.mem_range.mp hi, hiv⟩

theorem foldPerm_get (permr perm : Array Nat) (i : Nat) (hi : i < perm.size) :
    (foldPerm permr perm)[i]! = permr[perm[i]!]! := by
  simp [foldPerm, Array.getElem!_eq_getD, Array.getD_eq_getD_getElem?, hi]


/-! ### the scan loop of the pivot policy (real arithmetic) -/

def scanTo (inp : PivIn Rat Rat) (m : Nat) : Scan Rat := (List.range m).foldl (scanStep inp) scanInit

theorem scanTo_succ (inp : PivIn Rat Rat) (m : Nat) : scanTo inp (m + 1) = scanStep inp (scanTo inp m) m := by
  simp [scanTo, List.range_succ, List.foldl_append]

theorem scan_eq_scanTo (inp : PivIn Rat Rat) : scan inp = scanTo inp inp.cands.length := rfl

def eligAt (inp : PivIn Rat Rat) (k : Nat) : Bool := (inp.cands[k]!).elig
def magAt (inp : PivIn Rat Rat) (k : Nat) : Rat := scanMag inp.milu inp.dropSum (inp.cands[k]!).val

theorem magAt_nonneg (inp : PivIn Rat Rat) (k : Nat) : 0 ≤ magAt inp k := by
  unfold magAt scanMag
  split <;> exact rabs_nonneg _

structure ScanInv (inp : PivIn Rat Rat) (m : Nat) (s : Scan Rat) : Prop where
  alt : (s.pivmax = -1 ∧ s.ptr0 = none ∧ ∀ k, k < m → eligAt inp k = false) ∨
        (0 ≤ s.pivmax ∧ s.pivptr < m ∧ magAt inp s.pivptr = s.pivmax ∧ ∃ p0, s.ptr0 = some p0 ∧ p0 < m)
  diag_lt : ∀ d, s.diag = some d → d < m
  old_lt : ∀ d, s.oldPtr = some d → d < m

theorem scanInv_scanTo (inp : PivIn Rat Rat) (m : Nat) : ScanInv inp m (scanTo inp m) := by
  induction m with
  | zero =>
    refine ⟨Or.inl ⟨rfl, rfl, fun k hk => by omega⟩, ?_, ?_⟩ <;> intro d hd <;> simp [scanTo, scanInit] at hd
  | succ m ih =>
    rw [scanTo_succ]
    generalize scanTo inp m = s at ih
    unfold scanStep
    by_cases he : (inp.cands[m]!).elig = true
    · simp only [he, Bool.not_true, Bool.false_eq_true, if_false]
      have hmag : scanMag inp.milu inp.dropSum (inp.cands[m]!).val = magAt inp m := rfl
      rw [hmag]
      have hnn := magAt_nonneg inp m
      refine ⟨Or.inr ?_, ?_, ?_⟩
      · rcases ih.alt with ⟨h1, h2, _⟩ | ⟨h1, h2, h3, p0, h4, h5⟩
        · have hgt : magAt inp m > s.pivmax := by rw [h1]; linarith
          simp only [hgt, if_true, h2, Option.isNone_none]
          exact ⟨hnn, by omega, trivial, m, rfl, by omega⟩
        · by_cases hgt : magAt inp m > s.pivmax
          · simp only [hgt, if_true, h4, Option.isNone_some, Bool.false_eq_true, if_false]
            exact ⟨hnn, by omega, trivial, p0, rfl, by omega⟩
          · simp only [hgt, if_false, h4, Option.isNone_some, Bool.false_eq_true]
            exact ⟨h1, by omega, h3, p0, rfl, by omega⟩
      · intro d hd
        simp only at hd
        split at hd
        · injection hd with hd; omega
        · have := ih.diag_lt d hd; omega
      · intro d hd
        simp only at hd
        split at hd
        · injection hd with hd; omega
        · have := ih.old_lt d hd; omega
    · have he' : (inp.cands[m]!).elig = false := by simpa using he
      simp only [he', Bool.not_false, if_true]
      refine ⟨?_, ?_, ?_⟩
      · rcases ih.alt with ⟨h1, h2, h3⟩ | ⟨h1, h2, h3, p0, h4, h5⟩
        · left
          refine ⟨h1, h2, fun k hk => ?_⟩
          by_cases hkm : k = m
          · subst hkm; exact he'
          · exact h3 k (by omega)
        · right; exact ⟨h1, by omega, h3, p0, h4, by omega⟩
      · intro d hd; have := ih.diag_lt d hd; omega
      · intro d hd; have := ih.old_lt d hd; omega

end Slu.Ilu
