import Slu.Model.Ilu
import SluProofs.Lemmas.Kernels
import Mathlib.Data.Finset.Card
import SluProofs.Lemmas.RatBasic
/-
Lemmas for C15: permutations as arrays.
-/
namespace Slu.Ilu
open Slu Slu.Kernels

/-- first `m` steps of `invPerm` -/
def invPermTo (perm : Array Nat) (m : Nat) : Array Nat :=
  (List.range m).foldl (fun (ip : Array Nat) i => ip.setIfInBounds perm[i]! i) (Array.replicate perm.size 0)

theorem invPermTo_size (perm : Array Nat) (m : Nat) : (invPermTo perm m).size = perm.size := by
  induction m with
  | zero => simp [invPermTo]
  | succ m ih =>
    simp only [invPermTo, List.range_succ, List.foldl_append, List.foldl_cons, List.foldl_nil, Array.size_setIfInBounds] at ih ⊢
    exact ih

theorem invPermTo_get (n : Nat) (perm : Array Nat) (h : PermOn n perm) (m : Nat) (hm : m ≤ n) :
    ∀ i, i < m → (invPermTo perm m)[perm[i]!]! = i := by
  induction m with
  | zero => intro i hi; omega
  | succ m ih =>
    intro i hi
    have hs := invPermTo_size perm m
    have hstep : invPermTo perm (m + 1) = (invPermTo perm m).setIfInBounds perm[m]! m := by
      simp [invPermTo, List.range_succ, List.foldl_append]
    rw [hstep, getElem!_setIfInBounds, hs]
    by_cases hi' : i = m
    · subst hi'
      have : perm[i]! < perm.size := by rw [h.1]; exact h.2.1 i (by omega)
      simp [this]
    · have hne : ¬ (perm[m]! = perm[i]! ∧ perm[m]! < perm.size) := by
        intro hc
        exact hi' (h.2.2 i m (by omega) (by omega) hc.1.symm)
      rw [if_neg hne]
      exact ih (by omega) i (by omega)

/-- `iperm[perm[i]] = i` -/
theorem invPerm_perm (n : Nat) (perm : Array Nat) (h : PermOn n perm) (i : Nat) (hi : i < n) :
    (invPerm perm)[perm[i]!]! = i := by
  have : invPerm perm = invPermTo perm perm.size := rfl
  rw [this, h.1]
  exact invPermTo_get n perm h n (le_refl n) i hi

/-- an injection of `0..n-1` into itself is onto -/
theorem permOn_surj (n : Nat) (p : Array Nat) (h : PermOn n p) (v : Nat) (hv : v < n) : ∃ i, i < n ∧ p[i]! = v := by
  classical
  have himg : (Finset.range n).image (fun i => p[i]!) = Finset.range n := by
    apply Finset.eq_of_subset_of_card_le
    · intro x hx
      obtain ⟨i, hi, rfl⟩ := Finset.mem_image.mp hx
      exact Finset.mem_range.mpr (h.2.1 i (Finset.mem_range.mp hi))
    · rw [Finset.card_image_of_injOn]
      intro i hi j hj hij
      exact h.2.2 i j (Finset.mem_range.mp hi) (Finset.mem_range.mp hj) hij
  have : v ∈ (Finset.range n).image (fun i => p[i]!) := by rw [himg]; exact Finset.mem_range.mpr hv
  obtain ⟨i, hi, hiv⟩ := Finset.mem_image.mp this
  exact ⟨i, Finset.mem_range.mp hi, hiv⟩

theorem foldPerm_get (permr perm : Array Nat) (i : Nat) (hi : i < perm.size) :
    (foldPerm permr perm)[i]! = permr[perm[i]!]! := by
  simp [foldPerm, Array.getElem!_eq_getD, Array.getD_eq_getD_getElem?, hi]


/-! ### the scan loop of the pivot policy (any scalar type whose magnitude is a non-negative rational) -/

/-- the library's magnitude is non-negative (`|x|` on `Rat`, `|re| + |im|` on `Cx Rat`) -/
class MagNonneg (K : Type) [Mag K Rat] : Prop where
  nonneg : ∀ v : K, 0 ≤ (Mag.abs1 v : Rat)

instance : MagNonneg Rat := ⟨fun v => rabs_nonneg v⟩
instance : MagNonneg (Cx Rat) :=
  ⟨fun v => by
    show (0 : Rat) ≤ rabs v.re + rabs v.im
    exact add_nonneg (rabs_nonneg _) (rabs_nonneg _)⟩

section scanK
variable {K : Type} [Inhabited K] [Mag K Rat] [Add K] [MagNonneg K]


def scanTo (inp : PivIn K Rat) (m : Nat) : Scan Rat := (List.range m).foldl (scanStep inp) scanInit

theorem scanTo_succ (inp : PivIn K Rat) (m : Nat) : scanTo inp (m + 1) = scanStep inp (scanTo inp m) m := by
  simp [scanTo, List.range_succ, List.foldl_append]

theorem scan_eq_scanTo (inp : PivIn K Rat) : scan inp = scanTo inp inp.cands.length := rfl

def eligAt (inp : PivIn K Rat) (k : Nat) : Bool := (inp.cands[k]!).elig
def magAt (inp : PivIn K Rat) (k : Nat) : Rat := scanMag inp.milu inp.dropSum (inp.cands[k]!).val

theorem magAt_nonneg (inp : PivIn K Rat) (k : Nat) : 0 ≤ magAt inp k := by
  unfold magAt scanMag
  split <;> exact MagNonneg.nonneg _

structure ScanInv (inp : PivIn K Rat) (m : Nat) (s : Scan Rat) : Prop where
  alt : (s.pivmax = -1 ∧ s.ptr0 = none ∧ ∀ k, k < m → eligAt inp k = false) ∨
        (0 ≤ s.pivmax ∧ s.pivptr < m ∧ magAt inp s.pivptr = s.pivmax ∧ ∃ p0, s.ptr0 = some p0 ∧ p0 < m)
  diag_lt : ∀ d, s.diag = some d → d < m
  old_lt : ∀ d, s.oldPtr = some d → d < m

theorem scanInv_scanTo (inp : PivIn K Rat) (m : Nat) : ScanInv inp m (scanTo inp m) := by
  induction m with
  | zero =>
    refine ⟨Or.inl ⟨rfl, rfl, fun k hk => by omega⟩, ?_, ?_⟩ <;> intro d hd <;> simp [scanTo, scanInit] at hd
  | succ m ih =>
    rw [scanTo_succ]
    generalize scanTo inp m = s at ih
    unfold scanStep
    by_cases he : (inp.cands[m]!).elig = true
    · simp only [he, Bool.not_true, Bool.false_eq_true, if_false]
      have hmag : scanMag inp.milu inp.dropSum (inp.cands[m]!).val = magAt inp m := rfl
      rw [hmag]
      have hnn := magAt_nonneg inp m
      refine ⟨Or.inr ?_, ?_, ?_⟩
      · rcases ih.alt with ⟨h1, h2, _⟩ | ⟨h1, h2, h3, p0, h4, h5⟩
        · have hgt : magAt inp m > s.pivmax := by rw [h1]; linarith
          simp only [hgt, if_true, h2, Option.isNone_none]
          exact ⟨hnn, by omega, trivial, m, rfl, by omega⟩
        · by_cases hgt : magAt inp m > s.pivmax
          · simp only [hgt, if_true, h4, Option.isNone_some, Bool.false_eq_true, if_false]
            exact ⟨hnn, by omega, trivial, p0, rfl, by omega⟩
          · simp only [hgt, if_false, h4, Option.isNone_some, Bool.false_eq_true]
            exact ⟨h1, by omega, h3, p0, rfl, by omega⟩
      · intro d hd
        simp only at hd
        split at hd
        · injection hd with hd; omega
        · have := ih.diag_lt d hd; omega
      · intro d hd
        simp only at hd
        split at hd
        · injection hd with hd; omega
        · have := ih.old_lt d hd; omega
    · have he' : (inp.cands[m]!).elig = false := by simpa using he
      simp only [he', Bool.not_false, if_true]
      refine ⟨?_, ?_, ?_⟩
      · rcases ih.alt with ⟨h1, h2, h3⟩ | ⟨h1, h2, h3, p0, h4, h5⟩
        · left
          refine ⟨h1, h2, fun k hk => ?_⟩
          by_cases hkm : k = m
          · subst hkm; exact he'
          · exact h3 k (by omega)
        · right; exact ⟨h1, by omega, h3, p0, h4, by omega⟩
      · intro d hd; have := ih.diag_lt d hd; omega
      · intro d hd; have := ih.old_lt d hd; omega

end scanK

/-! ### the pivot left by the policy is nonzero (helpers of `ilu_pivot_total`) -/

theorem rabs_add_sgn (v d : Rat) (hd : 0 ≤ d) : rabs (v + sgnR v * d) = rabs v + d := by
  simp only [rabs_eq_abs]
  unfold sgnR sgnG
  by_cases hv : v ≥ 0
  · simp only [hv, if_true, one_mul]
    rw [abs_of_nonneg (by linarith), abs_of_nonneg hv]
  · simp only [hv, if_false]
    have hv' : v < 0 := not_le.mp hv
    rw [abs_of_neg (by linarith), abs_of_neg hv']
    ring

theorem testMag_eq {K : Type} [Mag K Rat] [Add K] (milu : Milu) (dropSum : K) (ds : Rat) (v : K) :
    testMag milu dropSum ds v =
      (if milu.absVariant = true then scanMag milu dropSum v + ds else scanMag milu dropSum v) := by
  cases milu <;> simp [testMag, scanMag, Milu.absVariant]

theorem reset_ne_zero (milu : Milu) (ds v : Rat) (hds : milu.absVariant = true → 0 ≤ ds)
    (h : testMag milu ds ds v ≠ 0) :
    (match milu with
      | Milu.silu => v
      | Milu.smilu1 => v + ds
      | _ => v + sgnR v * ds) ≠ 0 := by
  cases milu
  · simp only [testMag, Mag.abs1] at h
    intro hv; dsimp only at hv; apply h; rw [hv]; rfl
  · simp only [testMag, Mag.abs1] at h
    intro hv; dsimp only at hv; apply h; rw [hv]; rfl
  · simp only [testMag, Mag.abs1] at h
    intro hv; dsimp only at hv
    have := rabs_add_sgn v ds (hds rfl)
    rw [hv] at this
    apply h; rw [← this]; rfl
  · simp only [testMag, Mag.abs1] at h
    intro hv; dsimp only at hv
    have := rabs_add_sgn v ds (hds rfl)
    rw [hv] at this
    apply h; rw [← this]; rfl

theorem cx_abs1_zero : (Mag.abs1 (0 : Cx Rat) : Rat) = 0 := by
  show rabs (0 : Cx Rat).re + rabs (0 : Cx Rat).im = 0
  simp [Cx.zero_def]

/-- `v + z_sgn(v) * (d + 0i)` with `d ≥ 0` vanishes only if `v = 0` and `d = 0` -/
theorem cx_add_sgn_ne_zero (t : Cx Rat → Rat) (ht0 : ∀ z, 0 ≤ t z) (ht : ∀ z, t z = 0 ↔ z = 0)
    (v D : Cx Rat) (hd : 0 ≤ D.re) (hi : D.im = 0) (h : (Mag.abs1 v : Rat) + D.re ≠ 0) :
    v + sgnC t v * D ≠ 0 := by
  intro hz
  have h1 := congrArg Cx.re hz
  have h2 := congrArg Cx.im hz
  unfold sgnC sgnCG at h1 h2
  by_cases htv : t v = 0
  · have hv : v = 0 := (ht v).mp htv
    simp only [htv, beq_self_eq_true, if_true, Cx.add_def, Cx.mul_def, Cx.zero_def, hi] at h1
    rw [hv] at h1 h
    apply h
    rw [cx_abs1_zero]
    simp only [Cx.zero_def] at h1
    linarith
  · have hb : (t v == 0) = false := by simpa using htv
    simp only [hb, Bool.false_eq_true, if_false, Cx.add_def, Cx.mul_def, Cx.zero_def, hi] at h1 h2
    have htp : 0 < t v := lt_of_le_of_ne (ht0 v) (Ne.symm htv)
    have hfac : 0 < 1 + D.re / t v := by
      have : 0 ≤ D.re / t v := div_nonneg hd (le_of_lt htp)
      linarith
    have e1 : v.re * (1 + D.re / t v) = 0 := by
      have : v.re * (1 + D.re / t v) = v.re + (v.re / t v * D.re - v.im / t v * 0) := by ring
      rw [this]; exact h1
    have e2 : v.im * (1 + D.re / t v) = 0 := by
      have : v.im * (1 + D.re / t v) = v.im + (v.im / t v * D.re + v.re / t v * 0) := by ring
      rw [this]; exact h2
    have r0 : v.re = 0 := by
      rcases mul_eq_zero.mp e1 with h' | h'
      · exact h'
      · linarith
    have i0 : v.im = 0 := by
      rcases mul_eq_zero.mp e2 with h' | h'
      · exact h'
      · linarith
    apply htv
    apply (ht v).mpr
    cases v
    simp only at r0 i0
    rw [r0, i0]; rfl

theorem reset_ne_zero_cx (t : Cx Rat → Rat) (ht0 : ∀ z, 0 ≤ t z) (ht : ∀ z, t z = 0 ↔ z = 0)
    (milu : Milu) (D v : Cx Rat) (hds : milu.absVariant = true → 0 ≤ D.re ∧ D.im = 0)
    (h : testMag milu D D.re v ≠ 0) :
    (match milu with
      | Milu.silu => v
      | Milu.smilu1 => v + D
      | _ => v + sgnC t v * D) ≠ 0 := by
  cases milu
  · simp only [testMag] at h
    intro hv; dsimp only at hv; apply h; rw [hv]; exact cx_abs1_zero
  · simp only [testMag] at h
    intro hv; dsimp only at hv; apply h; rw [hv]; exact cx_abs1_zero
  · simp only [testMag] at h
    exact cx_add_sgn_ne_zero t ht0 ht v D (hds rfl).1 (hds rfl).2 h
  · simp only [testMag] at h
    exact cx_add_sgn_ne_zero t ht0 ht v D (hds rfl).1 (hds rfl).2 h

section chooseK
variable {K : Type} [Inhabited K] [Mag K Rat] [Add K] [MagNonneg K]

/-- the position chosen by the policy lies inside the column and passes the nonzero test -/
theorem choosePtr_spec (inp : PivIn K Rat) (thr : Rat → Rat) (ds : Rat) (pm : Rat) (hpos : 0 < pm)
    (hpm : (if inp.milu.absVariant = true then (scan inp).pivmax + ds else (scan inp).pivmax) = pm)
    (hlen : 0 < inp.cands.length) (inv : ScanInv inp inp.cands.length (scan inp))
    (h2 : (scan inp).pivptr < inp.cands.length) (h3 : magAt inp (scan inp).pivptr = (scan inp).pivmax) :
    (choosePtr inp thr ds (scan inp) pm).1 < inp.cands.length ∧
    testMag inp.milu inp.dropSum ds (inp.cands[(choosePtr inp thr ds (scan inp) pm).1]!).val ≠ 0 := by
  have hpiv : testMag inp.milu inp.dropSum ds (inp.cands[(scan inp).pivptr]!).val ≠ 0 := by
    rw [testMag_eq]
    have : scanMag inp.milu inp.dropSum (inp.cands[(scan inp).pivptr]!).val = (scan inp).pivmax := h3
    rw [this, hpm]
    exact ne_of_gt hpos
  unfold choosePtr
  simp only []
  split
  · rename_i hr
    simp only [Bool.and_eq_true, Bool.not_eq_true', beq_eq_false_iff_ne, decide_eq_true_eq] at hr
    refine ⟨?_, hr.1.2⟩
    cases ho : (scan inp).oldPtr with
    | none => simpa using hlen
    | some d => simpa using inv.old_lt d ho
  · split
    · rename_i d hd
      split
      · rename_i hr
        simp only [Bool.and_eq_true, Bool.not_eq_true', beq_eq_false_iff_ne, decide_eq_true_eq] at hr
        exact ⟨inv.diag_lt d hd, hr.1⟩
      · exact ⟨h2, hpiv⟩
    · exact ⟨h2, hpiv⟩

end chooseK

/-! ### the recorded pivot row -/
section rowK
variable {K : Type} [Inhabited K] [Mag K Rat] [Add K] [MagNonneg K]

/-- the scan records the remembered pivot only at a position whose row IS the remembered row and
is eligible -/
theorem scanTo_old_row (inp : PivIn K Rat) (m : Nat) :
    ∀ d, (scanTo inp m).oldPtr = some d → (inp.cands[d]!).row = inp.pivrowIn ∧ (inp.cands[d]!).elig = true := by
  induction m with
  | zero => intro d hd; simp [scanTo, scanInit] at hd
  | succ m ih =>
    rw [scanTo_succ]
    generalize scanTo inp m = s at ih
    unfold scanStep
    intro d hd
    by_cases he : (inp.cands[m]!).elig = true
    · simp only [he, Bool.not_true, Bool.false_eq_true, if_false] at hd
      split at hd
      · rename_i h
        injection hd with hd; subst hd
        simp only [Bool.and_eq_true, beq_iff_eq] at h
        exact ⟨h.2, he⟩
      · exact ih d hd
    · have he' : (inp.cands[m]!).elig = false := by simpa using he
      simp only [he', Bool.not_false, if_true] at hd
      exact ih d hd

omit [MagNonneg K] in
theorem choosePtr_reuse_row (inp : PivIn K Rat) (thr : Rat → Rat) (ds pm : Rat) (s : Scan Rat)
    (hold : ∀ d, s.oldPtr = some d → (inp.cands[d]!).row = inp.pivrowIn)
    (h : (choosePtr inp thr ds s pm).2 = true) :
    (inp.cands[(choosePtr inp thr ds s pm).1]!).row = inp.pivrowIn := by
  unfold choosePtr at h ⊢
  simp only [] at h ⊢
  split at h
  · rename_i hc
    rw [if_pos hc]
    simp only [Bool.and_eq_true] at hc
    have hsome := hc.1.1.2
    cases ho : s.oldPtr with
    | none => rw [ho] at hsome; simp at hsome
    | some d => simpa using hold d ho
  · split at h
    · split at h <;> simp at h
    · simp at h

/-- generic form: for every threshold function, replacement embedding and reset increment -/
theorem iluPivotChoice_row_recorded
    (inp : PivIn K Rat) (thr : Rat → Rat) (ds : Rat) (ofR : Rat → K) (resetInc : K → K) (p : Nat)
    (hp : (iluPivotChoice inp thr ds ofR resetInc).pos = some p) (hr : (iluPivotChoice inp thr ds ofR resetInc).ret = 0) :
    (inp.cands[p]!).row = (iluPivotChoice inp thr ds ofR resetInc).pivrow := by
  have hold := scanTo_old_row inp inp.cands.length
  rw [← scan_eq_scanTo] at hold
  unfold iluPivotChoice at hp hr ⊢
  simp only [] at hp hr ⊢
  generalize (if inp.milu.absVariant = true then (scan inp).pivmax + ds else (scan inp).pivmax) = pm at hp hr ⊢
  by_cases h1 : pm < 0
  · rw [if_pos h1] at hr; simp at hr
  · rw [if_neg h1] at hp hr ⊢
    by_cases h2 : (pm == 0) = true
    · rw [if_pos h2] at hr
      split at hr <;> try (simp at hr)
      split at hr <;> simp at hr
    · rw [if_neg h2] at hp ⊢
      simp only [Option.some.injEq] at hp
      subst hp
      simp only []
      split
      · rename_i hre
        exact choosePtr_reuse_row inp _ _ _ _ (fun d hd => (hold d hd).1) hre
      · rfl

end rowK

end Slu.Ilu
