import Slu.Model.Readers
import SluProofs.Lemmas.ReadersText
/-
C16 — the value layer of the fixed-format readers (`Slu.Readers.Values`, mirroring `[sdcz]ReadValues`).

Route: both loops of the reader are a fold, guarded by the test `i < n`, over the flat sequence of the
fields of all lines (`scanLines_eq_gfold`); the flat field sequence of a printed block is the list of
the padded fields followed by what lies behind the end of a short last line (`flatMap_printFields`);
the guarded fold stores the first `n` values (`gfold_real`), resp. the first `n` pairs (`gfold_cx`).
-/
namespace Slu.Readers.Values

variable {α σ : Type}

/-! ## 1. The two loops as one guarded fold -/

/-- fold over field texts that stops acting once the guard is false -/
def gfold (body : List Char → σ → σ) (more : σ → Bool) (fs : List (List Char)) (st : σ) : σ :=
  fs.foldl (fun st f => if more st then body (dToE f) st else st) st

theorem gfold_nil (body : List Char → σ → σ) (more : σ → Bool) (st : σ) : gfold body more [] st = st := rfl

theorem gfold_cons (body : List Char → σ → σ) (more : σ → Bool) (f : List Char) (fs : List (List Char)) (st : σ) :
    gfold body more (f :: fs) st = gfold body more fs (if more st then body (dToE f) st else st) := rfl

theorem gfold_append (body : List Char → σ → σ) (more : σ → Bool) (fs gs : List (List Char)) (st : σ) :
    gfold body more (fs ++ gs) st = gfold body more gs (gfold body more fs st) := by
  simp [gfold, List.foldl_append]

theorem gfold_stop (body : List Char → σ → σ) (more : σ → Bool) (fs : List (List Char)) (st : σ)
    (h : more st = false) : gfold body more fs st = st := by
  induction fs with
  | nil => rfl
  | cons f fs ih => rw [gfold_cons, h]; simpa using ih

/-- the `perline` field positions of a line, whatever its length -/
def lineFieldsAll (perline persize : Nat) (line : List Char) : List (List Char) :=
  (List.range perline).map fun j => field line j persize

theorem scanLine_eq_gfold (persize : Nat) (body : List Char → σ → σ) (more : σ → Bool) (line : List Char)
    (fuel j : Nat) (st : σ) :
    scanLine persize body more line fuel j st =
      gfold body more ((List.range' j fuel).map fun j => field line j persize) st := by
  induction fuel generalizing j st with
  | zero => rfl
  | succ fuel ih =>
    rw [scanLine, List.range'_succ, List.map_cons, gfold_cons]
    by_cases h : more st = true
    · simp only [h, if_true]; exact ih _ _
    · have h' : more st = false := by simpa using h
      simp only [h', Bool.false_eq_true, if_false]
      exact (gfold_stop _ _ _ _ h').symm

theorem scanLines_eq_gfold (perline persize : Nat) (body : List Char → σ → σ) (more : σ → Bool)
    (lines : List (List Char)) (st : σ) :
    scanLines perline persize body more lines st =
      gfold body more (lines.flatMap (lineFieldsAll perline persize)) st := by
  induction lines generalizing st with
  | nil => rfl
  | cons line rest ih =>
    rw [scanLines, List.flatMap_cons, gfold_append]
    by_cases h : more st = true
    · simp only [h, if_true]
      rw [ih, scanLine_eq_gfold, lineFieldsAll, List.range_eq_range']
    · have h' : more st = false := by simpa using h
      simp only [h', Bool.false_eq_true, if_false]
      rw [gfold_stop _ _ _ _ h', gfold_stop _ _ _ _ h']

/-! ## 2. The field sequence of a printed block -/

theorem pad_length (persize : Nat) (f : List Char) (h : f.length ≤ persize) : (pad persize f).length = persize := by
  simp [pad]; omega

theorem printFields_nil (perline persize : Nat) : printFields perline persize [] = [] := by
  rw [printFields]; simp

theorem printFields_of_ne_nil (perline persize : Nat) (fields : List (List Char)) (hk : perline ≠ 0)
    (hx : fields ≠ []) :
    printFields perline persize fields =
      printFieldsLine persize (fields.take perline) :: printFields perline persize (fields.drop perline) := by
  rw [printFields]; simp [hk, hx]

/-- the first `fs.length` field positions of a printed line are the padded fields -/
theorem lineFieldsAll_printFieldsLine (perline persize : Nat) (fs : List (List Char))
    (hlen : fs.length ≤ perline) (hfit : ∀ f ∈ fs, f.length ≤ persize) :
    ∃ junk, lineFieldsAll perline persize (printFieldsLine persize fs) = fs.map (pad persize) ++ junk := by
  obtain ⟨d, rfl⟩ : ∃ d, perline = fs.length + d := ⟨perline - fs.length, by omega⟩
  refine ⟨(List.range' fs.length d).map fun j => field (printFieldsLine persize fs) j persize, ?_⟩
  have hb : ∀ b ∈ fs.map (pad persize), b.length = persize := by
    intro b hb
    obtain ⟨f, hf, rfl⟩ := List.mem_map.mp hb
    exact pad_length persize f (hfit f hf)
  have := field_flatten (fs.map (pad persize)) ['\n'] persize hb
  rw [List.length_map, ← List.flatMap_def] at this
  change (List.range fs.length).map (fun j => field (printFieldsLine persize fs) j persize) = _ at this
  rw [lineFieldsAll, List.range_eq_range', ← List.range'_append_1 (s := 0) (m := fs.length) (n := d),
    List.map_append, ← List.range_eq_range', Nat.zero_add]
  congr 1

theorem flatMap_printFields (perline persize : Nat) (fields : List (List Char)) (hp : 0 < perline)
    (hfit : ∀ f ∈ fields, f.length ≤ persize) :
    ∃ junk, (printFields perline persize fields).flatMap (lineFieldsAll perline persize) =
      fields.map (pad persize) ++ junk := by
  induction h : fields.length using Nat.strong_induction_on generalizing fields with
  | _ m ih =>
    by_cases hx : fields = []
    · subst hx; exact ⟨[], by rw [printFields_nil]; rfl⟩
    · rw [printFields_of_ne_nil perline persize fields (by omega) hx, List.flatMap_cons]
      have hne : fields.length ≠ 0 := by simpa using hx
      by_cases hle : fields.length ≤ perline
      · -- the last line, possibly short
        have htk : fields.take perline = fields := List.take_of_length_le hle
        have hdr : fields.drop perline = [] := List.drop_eq_nil_of_le hle
        obtain ⟨junk, hj⟩ := lineFieldsAll_printFieldsLine perline persize fields hle hfit
        exact ⟨junk, by rw [htk, hdr, printFields_nil, hj]; simp⟩
      · -- a full line: exactly its fields, then the rest
        have hlen : (fields.take perline).length = perline := by rw [List.length_take]; omega
        obtain ⟨junk0, hj0⟩ := lineFieldsAll_printFieldsLine perline persize (fields.take perline) (by omega)
          (fun f hf => hfit f (List.mem_of_mem_take hf))
        have hj0nil : junk0 = [] := by
          have := congrArg List.length hj0
          simp only [lineFieldsAll, List.length_map, List.length_range, List.length_append, hlen] at this
          exact List.eq_nil_of_length_eq_zero (by omega)
        subst hj0nil
        obtain ⟨junk, hj⟩ := ih (fields.drop perline).length (by rw [List.length_drop]; omega) (fields.drop perline)
          (fun f hf => hfit f (List.mem_of_mem_drop hf)) rfl
        refine ⟨junk, ?_⟩
        rw [hj0, hj, List.append_nil, ← List.append_assoc, ← List.map_append, List.take_append_drop]

/-! ## 3. What the guarded fold stores -/

theorem gfold_real (conv : List Char → α) (n : Nat) (fs : List (List Char)) (out : List α) :
    gfold (fun f out => out ++ [conv f]) (fun out => decide (out.length < n)) fs out =
      out ++ (fs.take (n - out.length)).map (fun f => conv (dToE f)) := by
  induction fs generalizing out with
  | nil => simp [gfold_nil]
  | cons f fs ih =>
    rw [gfold_cons]
    by_cases h : out.length < n
    · simp only [h, decide_true, if_true]
      rw [ih, List.length_append, List.length_singleton,
        show n - out.length = (n - (out.length + 1)) + 1 by omega, List.take_succ_cons, List.map_cons,
        List.append_assoc, List.singleton_append]
    · simp only [h, decide_false, Bool.false_eq_true, if_false]
      rw [gfold_stop _ _ _ _ (by simpa using h), show n - out.length = 0 by omega]; simp

theorem pairUp_nil : pairUp ([] : List α) = [] := rfl
theorem pairUp_single (a : α) : pairUp [a] = [] := rfl
theorem pairUp_cons_cons (a b : α) (l : List α) : pairUp (a :: b :: l) = (a, b) :: pairUp l := rfl

/-- two-at-a-time induction -/
theorem pairs_induction {P : List α → Prop} (h0 : P []) (h1 : ∀ a, P [a])
    (h2 : ∀ a b l, P l → P (a :: b :: l)) : ∀ l, P l
  | [] => h0
  | [a] => h1 a
  | a :: b :: l => h2 a b l (pairs_induction h0 h1 h2 l)

theorem gfold_cx (conv : List Char → α) (n : Nat) (fs : List (List Char)) (out : List (α × α)) :
    (gfold (cxBody conv) (fun st => decide (st.out.length < n)) fs { out := out, pend := none }).out =
      out ++ (pairUp (fs.map fun f => conv (dToE f))).take (n - out.length) := by
  induction fs using pairs_induction generalizing out with
  | h0 => simp [gfold_nil, pairUp_nil]
  | h1 f =>
    rw [gfold_cons, gfold_nil]
    by_cases h : out.length < n <;> simp [h, cxBody, pairUp_single]
  | h2 f g fs ih =>
    rw [gfold_cons, gfold_cons]
    by_cases h : out.length < n
    · simp only [h, decide_true, if_true, cxBody]
      rw [ih, List.length_append, List.length_singleton, List.map_cons, List.map_cons, pairUp_cons_cons,
        show n - out.length = (n - (out.length + 1)) + 1 by omega, List.take_succ_cons,
        List.append_assoc, List.singleton_append]
    · simp only [h, decide_false, Bool.false_eq_true, if_false]
      rw [gfold_stop _ _ _ _ (by simpa using h), show n - out.length = 0 by omega]; simp

theorem pairUp_take_append (a b : List α) (n : Nat) (h : 2 * n ≤ a.length) :
    (pairUp (a ++ b)).take n = (pairUp a).take n := by
  induction a using pairs_induction generalizing n with
  | h0 => have : n = 0 := by simp at h; omega
          subst this; simp
  | h1 x => have : n = 0 := by simp at h; omega
            subst this; simp
  | h2 x y l ih =>
    cases n with
    | zero => simp
    | succ n =>
      rw [List.cons_append, List.cons_append, pairUp_cons_cons, pairUp_cons_cons, List.take_succ_cons,
        List.take_succ_cons, ih n (by simp at h; omega)]

/-! ## 4. Read-back of a printed block -/

theorem readValues_eq_gfold (perline persize : Nat) (conv : List Char → α) (n : Nat) (lines : List (List Char)) :
    readValues perline persize conv n lines =
      ((lines.flatMap (lineFieldsAll perline persize)).take n).map (fun f => conv (dToE f)) := by
  rw [readValues, scanLines_eq_gfold, gfold_real]; simp

theorem readValuesCx_eq_gfold (perline persize : Nat) (conv : List Char → α) (n : Nat) (lines : List (List Char)) :
    readValuesCx perline persize conv n lines =
      (pairUp ((lines.flatMap (lineFieldsAll perline persize)).map fun f => conv (dToE f))).take n := by
  rw [readValuesCx, scanLines_eq_gfold, gfold_cx]; simp

theorem readValues_printFields (perline persize : Nat) (conv : List Char → α) (n : Nat)
    (fields : List (List Char)) (hp : 0 < perline) (hfit : ∀ f ∈ fields, f.length ≤ persize)
    (hn : n ≤ fields.length) :
    readValues perline persize conv n (printFields perline persize fields) =
      (fields.map fun f => conv (dToE (pad persize f))).take n := by
  obtain ⟨junk, hj⟩ := flatMap_printFields perline persize fields hp hfit
  rw [readValues_eq_gfold, hj, List.take_append_of_le_length (by rw [List.length_map]; exact hn),
    ← List.map_take, ← List.map_take, List.map_map]
  rfl

theorem readValuesCx_printFields (perline persize : Nat) (conv : List Char → α) (n : Nat)
    (fields : List (List Char)) (hp : 0 < perline) (hfit : ∀ f ∈ fields, f.length ≤ persize)
    (hn : 2 * n ≤ fields.length) :
    readValuesCx perline persize conv n (printFields perline persize fields) =
      (pairUp (fields.map fun f => conv (dToE (pad persize f)))).take n := by
  obtain ⟨junk, hj⟩ := flatMap_printFields perline persize fields hp hfit
  rw [readValuesCx_eq_gfold, hj, List.map_append, pairUp_take_append _ _ _ (by simpa using hn), List.map_map]
  rfl

/-! ## 5. `atof` skips leading blanks; `D -> E` leaves blanks alone -/

theorem dToE_pad (persize : Nat) (f : List Char) :
    dToE (pad persize f) = List.replicate (persize - f.length) ' ' ++ dToE f := by
  simp [dToE, pad]

theorem dToE_id (f : List Char) (h : ∀ c ∈ f, c ≠ 'D' ∧ c ≠ 'd') : dToE f = f := by
  unfold dToE
  conv => rhs; rw [← List.map_id f]
  apply List.map_congr_left
  intro c hc
  obtain ⟨h1, h2⟩ := h c hc
  simp [h1, h2]

/-! ## 6. Field isolation -/

theorem field_mid (pre f post : List Char) (j persize : Nat) (hpre : pre.length = j * persize)
    (hf : f.length = persize) : field (pre ++ f ++ post) j persize = f := by
  unfold field
  rw [List.append_assoc, ← hpre, List.drop_left, ← hf, List.take_left]

theorem flatMap_lineFieldsAll_congr (perline persize : Nat) (lines lines' : List (List Char))
    (hlen : lines.length = lines'.length)
    (h : ∀ (i : Nat) (h1 : i < lines.length) (h2 : i < lines'.length) (j : Nat), j < perline →
      field lines[i] j persize = field lines'[i] j persize) :
    lines.flatMap (lineFieldsAll perline persize) = lines'.flatMap (lineFieldsAll perline persize) := by
  induction lines generalizing lines' with
  | nil => cases lines' with
    | nil => rfl
    | cons _ _ => simp at hlen
  | cons l ls ih =>
    cases lines' with
    | nil => simp at hlen
    | cons l' ls' =>
      rw [List.flatMap_cons, List.flatMap_cons]
      congr 1
      · unfold lineFieldsAll
        apply List.map_congr_left
        intro j hj
        exact h 0 (by simp) (by simp) j (List.mem_range.mp hj)
      · apply ih ls' (by simpa using hlen)
        intro i h1 h2 j hj
        exact h (i + 1) (by simp; omega) (by simp; omega) j hj

/-! ## 7. The per-line reset agrees for an even number of fields per line -/

theorem scanLine_even_pend (persize : Nat) (conv : List Char → α) (n : Nat) (line : List Char) (k j : Nat)
    (out : List (α × α)) :
    (scanLine persize (cxBody conv) (fun st => decide (st.out.length < n)) line (2 * k) j
      { out := out, pend := none }).pend = none := by
  induction k generalizing j out with
  | zero => rfl
  | succ k ih =>
    rw [show 2 * (k + 1) = 2 * k + 1 + 1 by omega, scanLine]
    by_cases h : out.length < n
    · simp only [h, decide_true, if_true, cxBody, scanLine]
      exact ih _ _
    · simp [h]

theorem scanLinesReset_eq (perline persize : Nat) (conv : List Char → α) (n : Nat) (k : Nat)
    (hk : perline = 2 * k) (lines : List (List Char)) (out : List (α × α)) :
    scanLinesReset perline persize conv n lines { out := out, pend := none } =
      scanLines perline persize (cxBody conv) (fun st => decide (st.out.length < n)) lines
        { out := out, pend := none } := by
  induction lines generalizing out with
  | nil => rfl
  | cons line rest ih =>
    rw [scanLinesReset, scanLines]
    by_cases h : out.length < n
    · simp only [h, decide_true, if_true]
      have hp := scanLine_even_pend persize conv n line k 0 out
      rw [← hk] at hp
      generalize scanLine persize (cxBody conv) (fun st => decide (st.out.length < n)) line perline 0
        { out := out, pend := none } = st at hp
      cases st with
      | mk o p => simp only at hp; subst hp; exact ih o
    · simp [h]

/-! ## 8. The lines `fgets` delivers from a printed block -/

/-- a text line: no newline inside, newline-terminated, fits the 100-byte buffer -/
def GoodLine (l : List Char) : Prop := ∃ body, l = body ++ ['\n'] ∧ (∀ c ∈ body, c ≠ '\n') ∧ body.length + 1 < 100

theorem fgetsLines_go_flatten (lines : List (List Char)) (h : ∀ l ∈ lines, GoodLine l) (fuel : Nat)
    (hf : lines.flatten.length ≤ fuel) : fgetsLines.go fuel lines.flatten = lines := by
  induction lines generalizing fuel with
  | nil => cases fuel <;> simp [fgetsLines.go]
  | cons l ls ih =>
    obtain ⟨body, rfl, hnl, hlen⟩ := h l (by simp)
    cases fuel with
    | zero => simp at hf
    | succ fuel =>
      have hfg : fgets 100 ((body ++ ['\n'] : List Char) ++ ls.flatten) = (body ++ ['\n'], ls.flatten) := by
        rw [List.append_assoc, List.singleton_append]
        exact fgets_line 100 body ls.flatten hnl hlen
      rw [List.flatten_cons, fgetsLines.go]
      have hne : ((body ++ ['\n'] : List Char) ++ ls.flatten).isEmpty = false := by simp
      simp only [hne, Bool.false_eq_true, if_false, hfg]
      rw [ih (fun l hl => h l (by simp [hl])) fuel (by simp only [List.flatten_cons, List.length_append, List.length_singleton] at hf; omega)]

theorem fgetsLines_flatten (lines : List (List Char)) (h : ∀ l ∈ lines, GoodLine l) :
    fgetsLines lines.flatten = lines :=
  fgetsLines_go_flatten lines h _ (Nat.le_refl _)

theorem flatMap_length_le (persize : Nat) (fs : List (List Char)) (hfit : ∀ f ∈ fs, f.length ≤ persize) :
    (fs.flatMap (pad persize)).length = fs.length * persize := by
  rw [List.flatMap_def]
  have := flatten_length_const (fs.map (pad persize)) persize (by
    intro b hb
    obtain ⟨f, hf, rfl⟩ := List.mem_map.mp hb
    exact pad_length persize f (hfit f hf))
  rwa [List.length_map] at this

theorem goodLine_printFieldsLine (perline persize : Nat) (fs : List (List Char)) (hlen : fs.length ≤ perline)
    (hfit : ∀ f ∈ fs, f.length ≤ persize) (hnl : ∀ f ∈ fs, ∀ c ∈ f, c ≠ '\n')
    (hbuf : perline * persize + 1 < 100) : GoodLine (printFieldsLine persize fs) := by
  refine ⟨fs.flatMap (pad persize), rfl, ?_, ?_⟩
  · intro c hc
    obtain ⟨f, hf, hcf⟩ := List.mem_flatMap.mp hc
    simp only [pad, List.mem_append, List.mem_replicate] at hcf
    rcases hcf with ⟨_, rfl⟩ | hcf
    · decide
    · exact hnl f hf c hcf
  · rw [flatMap_length_le persize fs hfit]
    have : fs.length * persize ≤ perline * persize := Nat.mul_le_mul_right _ hlen
    omega

theorem goodLine_printFields (perline persize : Nat) (fields : List (List Char))
    (hfit : ∀ f ∈ fields, f.length ≤ persize) (hnl : ∀ f ∈ fields, ∀ c ∈ f, c ≠ '\n')
    (hbuf : perline * persize + 1 < 100) : ∀ l ∈ printFields perline persize fields, GoodLine l := by
  induction h : fields.length using Nat.strong_induction_on generalizing fields with
  | _ m ih =>
    by_cases hp : perline = 0
    · rw [printFields]; simp [hp]
    by_cases hx : fields = []
    · subst hx; rw [printFields_nil]; simp
    · rw [printFields_of_ne_nil perline persize fields hp hx]
      have hne : fields.length ≠ 0 := by simpa using hx
      intro l hl
      rcases List.mem_cons.mp hl with rfl | hl
      · exact goodLine_printFieldsLine perline persize _ (by rw [List.length_take]; omega)
          (fun f hf => hfit f (List.mem_of_mem_take hf)) (fun f hf => hnl f (List.mem_of_mem_take hf)) hbuf
      · exact ih (fields.drop perline).length (by rw [List.length_drop]; omega) (fields.drop perline)
          (fun f hf => hfit f (List.mem_of_mem_drop hf)) (fun f hf => hnl f (List.mem_of_mem_drop hf)) rfl l hl

theorem fgetsLines_printFields (perline persize : Nat) (fields : List (List Char))
    (hfit : ∀ f ∈ fields, f.length ≤ persize) (hnl : ∀ f ∈ fields, ∀ c ∈ f, c ≠ '\n')
    (hbuf : perline * persize + 1 < 100) :
    fgetsLines (printFields perline persize fields).flatten = printFields perline persize fields :=
  fgetsLines_flatten _ (goodLine_printFields perline persize fields hfit hnl hbuf)

end Slu.Readers.Values
