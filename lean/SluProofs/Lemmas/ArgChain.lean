import Slu.Model.ArgSpec
/-
Helper lemmas and tactics for C18 (argument-screening chains).  Core Lean only.
-/
namespace Slu.ArgSpec
open Slu.ArgChains

/-- `SUPERLU_MAX(0, n)` as expanded by the preprocessor is `max 0 n` (which `omega` understands) -/
theorem ite_max0 (n : Int) : (if 0 > n then 0 else n) = max 0 n := by
  split <;> omega

/-- one level of a first-match chain (`if c then x else r`) against one level of "first violated
precondition" (`if p then r' else x`): the test is exactly the negation of the precondition and the
continuations agree. -/
theorem cascade {c p : Prop} [Decidable c] [Decidable p] {x r r' : Int}
    (h : c ↔ ¬p) (hr : ¬c → p → r = r') : (if c then x else r) = (if p then r' else x) := by
  by_cases hc : c
  · have : ¬p := h.mp hc
    simp [hc, this]
  · have hp : p := Classical.byContradiction fun hn => hc (h.mpr hn)
    simp [hc, hp, hr hc hp]

/-- the same without carrying the path condition (no level of the present chains needs it) -/
theorem cascade0 {c p : Prop} [Decidable c] [Decidable p] {x r r' : Int}
    (h : c ↔ ¬p) (hr : r = r') : (if c then x else r) = (if p then r' else x) :=
  cascade h (fun _ _ => hr)

/-- congruence of one chain level (used for the agreement of the four precisions) -/
theorem chain_congr {c c' : Prop} [Decidable c] [Decidable c'] {x y r r' : Int}
    (h : c ↔ c') (hx : x = y) (hr : r = r') : (if c then x else r) = (if c' then y else r') := by
  subst hx; subst hr
  by_cases hc : c
  · simp [hc, h.mp hc]
  · have : ¬c' := fun h' => hc (h.mpr h')
    simp [hc, this]

theorem shift_eq (x k : Int) : (x + k = k) ↔ x = 0 := by omega

/-- unfold the vocabulary of `ArgSpec` and the generated enumerators down to linear integer facts -/
macro "argchain_unfold" : tactic => `(tactic| simp only [firstViolated, denseB, denseX, factorL, factorU, tags,
    squareNonneg, transEnumOk, optionsOk, rowEquilibrated, colEquilibrated, letter, lower, max0, ite_max0,
    gsisx_agrees, sp_trsv_agrees, decide_eq_true_eq,
    SLU_NC, SLU_NCP, SLU_NR, SLU_SC, SLU_S, SLU_D, SLU_C, SLU_Z, SLU_GE, SLU_TRLU, SLU_TRU, SLU_DN,
    DOFACT, SamePattern, SamePattern_SameRowPerm, FACTORED, NOTRANS, TRANS, CONJ, NO, YES,
    chN, chR, chC, chB, chL, chU, chT, chI, chO, ch1] at *)

/-- walk down a chain and a precondition list level by level; what is left (nothing, or the part of a
chain that is not a first-match cascade) is split exhaustively -/
macro "argchain_cascade" : tactic => `(tactic| (
    repeat (refine cascade0 (by omega) ?_)
    first | rfl | omega | (repeat' split) <;> omega))

/-- level-by-level congruence of two chains -/
macro "argchain_congr" : tactic => `(tactic| (
    repeat (first | rfl | apply chain_congr (by omega))))

end Slu.ArgSpec
