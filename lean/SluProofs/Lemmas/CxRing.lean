import Slu.Model.Cx
import Mathlib.Algebra.Ring.Defs
import Mathlib.Algebra.Order.Field.Rat
import Mathlib.Tactic.Ring
/-
`Cx Rat` with the library's complex operations (`zz_mult`, `z_add`, `z_sub`, the macros of
slu_dcomplex.h as modelled in Slu/Model/Cx.lean) is a commutative ring; conjugation is a ring
involution that fixes the real axis.  Used by the C05 theorems to cover complex data.
-/
namespace Slu.Cx

@[ext] theorem ext' {R : Type} {a b : Cx R} (h1 : a.re = b.re) (h2 : a.im = b.im) : a = b := by
  cases a; cases b; simp_all

@[simp] theorem add_re (a b : Cx Rat) : (a + b).re = a.re + b.re := rfl
@[simp] theorem add_im (a b : Cx Rat) : (a + b).im = a.im + b.im := rfl
@[simp] theorem sub_re (a b : Cx Rat) : (a - b).re = a.re - b.re := rfl
@[simp] theorem sub_im (a b : Cx Rat) : (a - b).im = a.im - b.im := rfl
@[simp] theorem neg_re (a : Cx Rat) : (-a).re = -a.re := rfl
@[simp] theorem neg_im (a : Cx Rat) : (-a).im = -a.im := rfl
@[simp] theorem mul_re (a b : Cx Rat) : (a * b).re = a.re * b.re - a.im * b.im := rfl
@[simp] theorem mul_im (a b : Cx Rat) : (a * b).im = a.im * b.re + a.re * b.im := rfl
@[simp] theorem zero_re : (0 : Cx Rat).re = 0 := rfl
@[simp] theorem zero_im : (0 : Cx Rat).im = 0 := rfl
@[simp] theorem one_re : (1 : Cx Rat).re = 1 := rfl
@[simp] theorem one_im : (1 : Cx Rat).im = 0 := rfl

instance : CommRing (Cx Rat) where
  add := (· + ·)
  add_assoc a b c := by ext <;> simp <;> ring
  zero := 0
  zero_add a := by ext <;> simp
  add_zero a := by ext <;> simp
  nsmul := nsmulRec
  add_comm a b := by ext <;> simp <;> ring
  mul := (· * ·)
  left_distrib a b c := by ext <;> simp <;> ring
  right_distrib a b c := by ext <;> simp <;> ring
  zero_mul a := by ext <;> simp
  mul_zero a := by ext <;> simp
  mul_assoc a b c := by ext <;> simp <;> ring
  one := 1
  one_mul a := by ext <;> simp
  mul_one a := by ext <;> simp
  neg := (- ·)
  sub := (· - ·)
  sub_eq_add_neg a b := by ext <;> simp <;> ring
  zsmul := zsmulRec
  neg_add_cancel a := by ext <;> simp
  mul_comm a b := by ext <;> simp <;> ring

@[simp] theorem conj_re (a : Cx Rat) : (Cx.conj a).re = a.re := rfl
@[simp] theorem conj_im (a : Cx Rat) : (Cx.conj a).im = -a.im := rfl

end Slu.Cx
