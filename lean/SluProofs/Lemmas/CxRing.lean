import Slu.Model.Cx
import SluProofs.Lemmas.CxRat
import Mathlib.Algebra.Ring.Defs
import Mathlib.Algebra.Order.Field.Rat
import Mathlib.Tactic.Ring
/-
`Cx Rat` with the library's complex operations (`zz_mult`, `z_add`, `z_sub`, the macros of
slu_dcomplex.h as modelled in Slu/Model/Cx.lean) is a commutative ring; conjugation is a ring
involution that fixes the real axis.  Used by the C05 theorems to cover complex data.
-/
namespace Slu.Cx

-- `ext'` and the `CommRing (Cx Rat)` / `Field (Cx Rat)` instances come from Lemmas/CxRat.lean
attribute [local ext] ext'

@[simp] theorem add_re (a b : Cx Rat) : (a + b).re = a.re + b.re := rfl
@[simp] theorem add_im (a b : Cx Rat) : (a + b).im = a.im + b.im := rfl
@[simp] theorem sub_re (a b : Cx Rat) : (a - b).re = a.re - b.re := rfl
@[simp] theorem sub_im (a b : Cx Rat) : (a - b).im = a.im - b.im := rfl
@[simp] theorem neg_re (a : Cx Rat) : (-a).re = -a.re := rfl
@[simp] theorem neg_im (a : Cx Rat) : (-a).im = -a.im := rfl
@[simp] theorem mul_re (a b : Cx Rat) : (a * b).re = a.re * b.re - a.im * b.im := rfl
@[simp] theorem mul_im (a b : Cx Rat) : (a * b).im = a.im * b.re + a.re * b.im := rfl
@[simp] theorem zero_re : (0 : Cx Rat).re = 0 := rfl
@[simp] theorem zero_im : (0 : Cx Rat).im = 0 := rfl
@[simp] theorem one_re : (1 : Cx Rat).re = 1 := rfl
@[simp] theorem one_im : (1 : Cx Rat).im = 0 := rfl

@[simp] theorem conj_re (a : Cx Rat) : (Cx.conj a).re = a.re := rfl
@[simp] theorem conj_im (a : Cx Rat) : (Cx.conj a).im = -a.im := rfl

end Slu.Cx
