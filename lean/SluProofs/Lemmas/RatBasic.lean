import Slu.Scalar
import Mathlib.Algebra.Order.Field.Rat
import Mathlib.Algebra.Order.Field.Basic
import Mathlib.Tactic.Linarith
import Mathlib.Tactic.Ring
import Mathlib.Tactic.FieldSimp
/-
Bridge lemmas between the core-only model vocabulary (`smax`, `smin`, `rabs`) and Mathlib's
order/field vocabulary on `Rat`.
-/
namespace Slu

@[simp] theorem smax_eq_max (x y : Rat) : smax x y = max x y := by
  unfold smax
  split
  · rename_i h; exact (max_eq_left (le_of_lt h)).symm
  · rename_i h; exact (max_eq_right (not_lt.mp h)).symm

@[simp] theorem smin_eq_min (x y : Rat) : smin x y = min x y := by
  unfold smin
  split
  · rename_i h; exact (min_eq_left (le_of_lt h)).symm
  · rename_i h; exact (min_eq_right (not_lt.mp h)).symm

@[simp] theorem rabs_eq_abs (x : Rat) : rabs x = |x| := by
  unfold rabs
  split
  · rename_i h; exact (abs_of_neg h).symm
  · rename_i h; exact (abs_of_nonneg (not_lt.mp h)).symm

theorem rabs_nonneg (x : Rat) : 0 ≤ rabs x := by simp

end Slu
