import Slu.Model.Order
import SluProofs.Lemmas.Order
/-
Liu's elimination-tree algorithm (`liu` / `coletree` / `symetree`, with the concrete union-find and
path halving of sp_coletree.c) computes the tree defined by the elimination game (`etreeOfGraph` /
`etreeDef`).

Parts
* A  the concrete disjoint-set forest: `find` (path halving, fuel = size) returns the representative and
     keeps the partition; `link` merges.
* B  invariant of `liu`: after the columns `< k` the sets are the connected components of the processed
     columns, `root[set]` is the largest column of the component, and `parent` links every former
     component maximum to the column that absorbed it.
* C  walks with small interior vertices (`T E k a b`), the characterisation of both trees as
     "least later vertex reachable through smaller vertices".
* D  the elimination game: fill invariant of `etreeOfGraph`.
* E  first-column stars versus the graph of AᵀA.
-/
namespace Slu.Order

/-! ### Part A: the disjoint-set forest -/

/-- `pp` restricted to the nodes `< k` is a forest whose trees are the classes of `rep`; `dep` is a
ghost height that decreases strictly towards the root (acyclicity). -/
structure UF (pp : Array Nat) (k : Nat) (rep dep : Nat → Nat) : Prop where
  size : k ≤ pp.size
  lt : ∀ i, i < k → pp.getD i 0 < k
  root : ∀ i, i < k → pp.getD i 0 = i → rep i = i
  step : ∀ i, i < k → pp.getD i 0 ≠ i → rep (pp.getD i 0) = rep i ∧ dep (pp.getD i 0) < dep i

/-- the representative is a root of the forest -/
theorem UF.rep_root {pp : Array Nat} {k : Nat} {rep dep : Nat → Nat} (h : UF pp k rep dep) (i : Nat)
    (hi : i < k) : rep i < k ∧ pp.getD (rep i) 0 = rep i ∧ rep (rep i) = rep i := by
  induction hd : dep i using Nat.strong_induction_on generalizing i with
  | _ d ih =>
    by_cases hr : pp.getD i 0 = i
    · have := h.root i hi hr
      rw [this]; exact ⟨hi, hr, this⟩
    · obtain ⟨h1, h2⟩ := h.step i hi hr
      have := ih (dep (pp.getD i 0)) (hd ▸ h2) (pp.getD i 0) (h.lt i hi) rfl
      rwa [h1] at this

theorem nodup_lt_length_le {l : List Nat} {k : Nat} (hn : l.Nodup) (hlt : ∀ x ∈ l, x < k) :
    l.length ≤ k := by
  have hsub : l ⊆ List.range k := fun x hx => List.mem_range.mpr (hlt x hx)
  have := (List.subperm_of_subset hn hsub).length_le
  simpa using this

/-- the loop of `find`: `seen` lists the nodes already visited (all above the current one), which is
what bounds the number of iterations by the number of nodes -/
theorem findLoop_spec {k : Nat} {rep dep : Nat → Nat} :
    ∀ (fuel : Nat) (pp : Array Nat) (i : Nat) (seen : List Nat), UF pp k rep dep → i < k →
      seen.Nodup → (∀ x ∈ seen, x < k ∧ dep i < dep x) → k ≤ seen.length + fuel →
      UF (findLoop fuel pp i).1 k rep dep ∧ (findLoop fuel pp i).2 = rep i ∧
        (findLoop fuel pp i).1.size = pp.size := by
  intro fuel
  induction fuel with
  | zero =>
    intro pp i seen h hi hn hs hl
    exfalso
    have h1 : (i :: seen).Nodup := by
      refine List.nodup_cons.mpr ⟨fun hm => ?_, hn⟩
      have := (hs i hm).2; omega
    have h2 : ∀ x ∈ i :: seen, x < k := by
      intro x hx
      rcases List.mem_cons.mp hx with rfl | hx
      · exact hi
      · exact (hs x hx).1
    have := nodup_lt_length_le h1 h2
    simp at this; omega
  | succ f ih =>
    intro pp i seen h hi hn hs hl
    unfold findLoop
    simp only
    have hp : pp.getD i 0 < k := h.lt i hi
    split
    · rename_i hgp
      refine ⟨h, ?_, rfl⟩
      have hrp := h.root _ hp hgp
      by_cases hr : pp.getD i 0 = i
      · show pp.getD i 0 = rep i
        rw [hr]; exact (h.root i hi hr).symm
      · show pp.getD i 0 = rep i
        rw [← (h.step i hi hr).1, hrp]
    · rename_i hgp
      have hr : pp.getD i 0 ≠ i := by
        intro e; apply hgp; rw [e]; exact e
      obtain ⟨e1, d1⟩ := h.step i hi hr
      obtain ⟨e2, d2⟩ := h.step _ hp hgp
      have hgk : pp.getD (pp.getD i 0) 0 < k := h.lt _ hp
      have h' : UF (pp.setIfInBounds i (pp.getD (pp.getD i 0) 0)) k rep dep := by
        refine ⟨by simpa using h.size, ?_, ?_, ?_⟩
        · intro x hx
          rw [getD_setIfInBounds]
          split
          · exact hgk
          · exact h.lt x hx
        · intro x hx
          rw [getD_setIfInBounds]
          split
          · rename_i hc
            intro e
            rw [hc.1] at e ⊢
            rw [e] at d2; omega
          · exact h.root x hx
        · intro x hx
          rw [getD_setIfInBounds]
          split
          · rename_i hc
            intro _
            rw [hc.1]
            exact ⟨by rw [e2, e1], by omega⟩
          · exact h.step x hx
      have := ih (pp.setIfInBounds i (pp.getD (pp.getD i 0) 0)) (pp.getD (pp.getD i 0) 0) (i :: seen) h' hgk
        (List.nodup_cons.mpr ⟨fun hm => by have := (hs i hm).2; omega, hn⟩)
        (by
          intro x hx
          rcases List.mem_cons.mp hx with rfl | hx
          · exact ⟨hi, by omega⟩
          · exact ⟨(hs x hx).1, by have := (hs x hx).2; omega⟩)
        (by simp only [List.length_cons]; omega)
      refine ⟨this.1, ?_, ?_⟩
      · rw [this.2.1, e2, e1]
      · rw [this.2.2]; simp

/-- **`find` is correct**: on a forest it returns the representative of `i`, and the array it leaves
(path halving) is a forest of the same partition, same representatives. -/
theorem find_spec {pp : Array Nat} {k : Nat} {rep dep : Nat → Nat} (h : UF pp k rep dep) (i : Nat)
    (hi : i < k) :
    UF (find pp i).1 k rep dep ∧ (find pp i).2 = rep i ∧ (find pp i).1.size = pp.size := by
  unfold find
  exact findLoop_spec pp.size pp i [] h hi List.nodup_nil (by simp) (by simpa using h.size)

/-- **`link` merges**: pointing the root `s` at a different root `t` gives a forest whose classes are
the old ones with the classes of `s` and `t` united (representative `t`). -/
theorem UF.link {pp : Array Nat} {k : Nat} {rep dep : Nat → Nat} (h : UF pp k rep dep) (s t : Nat)
    (hs : s < k) (ht : t < k) (hrs : rep s = s) (hrt : rep t = t) (hne : s ≠ t) :
    UF (pp.setIfInBounds s t) k (fun x => if rep x = s then t else rep x)
      (fun x => if rep x = s then dep x + dep t + 1 else dep x) := by
  have hsr : pp.getD s 0 = s := by have := (h.rep_root s hs).2.1; rwa [hrs] at this
  have htr : pp.getD t 0 = t := by have := (h.rep_root t ht).2.1; rwa [hrt] at this
  refine ⟨by simpa using h.size, ?_, ?_, ?_⟩
  · intro x hx
    rw [getD_setIfInBounds]
    split
    · exact ht
    · exact h.lt x hx
  · intro x hx
    rw [getD_setIfInBounds]
    split
    · rename_i hc
      intro e; exfalso; apply hne; rw [← hc.1, e]
    · rename_i hc
      intro e
      have hxs : x ≠ s := by
        intro e'; apply hc; exact ⟨e', Nat.lt_of_lt_of_le hs h.size⟩
      have := h.root x hx e
      simp only [this, hxs, if_false]
  · intro x hx
    rw [getD_setIfInBounds]
    split
    · rename_i hc
      intro _
      rw [hc.1]
      simp only [hrs, hrt, if_true, if_neg (Ne.symm hne)]
      exact ⟨trivial, by omega⟩
    · intro e
      obtain ⟨e1, d1⟩ := h.step x hx e
      simp only [e1]
      refine ⟨trivial, ?_⟩
      split <;> omega

/-! ### Part B: the partition maintained by Liu's algorithm -/

/-- equivalence closure -/
inductive Eqv (r : Nat → Nat → Prop) : Nat → Nat → Prop
  | rel {a b : Nat} : r a b → Eqv r a b
  | refl (a : Nat) : Eqv r a a
  | symm {a b : Nat} : Eqv r a b → Eqv r b a
  | trans {a b c : Nat} : Eqv r a b → Eqv r b c → Eqv r a c

theorem Eqv.mono {r r' : Nat → Nat → Prop} (h : ∀ a b, r a b → r' a b) {a b : Nat}
    (e : Eqv r a b) : Eqv r' a b := by
  induction e with
  | rel hr => exact Eqv.rel (h _ _ hr)
  | refl a => exact Eqv.refl a
  | symm _ ih => exact Eqv.symm ih
  | trans _ _ ih1 ih2 => exact Eqv.trans ih1 ih2

theorem Eqv.congr {r r' : Nat → Nat → Prop} (h : ∀ a b, r a b ↔ r' a b) (a b : Nat) :
    Eqv r a b ↔ Eqv r' a b :=
  ⟨Eqv.mono fun a b => (h a b).mp, Eqv.mono fun a b => (h a b).mpr⟩

/-- adding one pair `(x, y)` to the generators unites the classes of `x` and `y` -/
theorem eqv_insert (r : Nat → Nat → Prop) (x y a b : Nat) :
    Eqv (fun a b => r a b ∨ (a = x ∧ b = y)) a b ↔
      Eqv r a b ∨ ((Eqv r a x ∨ Eqv r a y) ∧ (Eqv r b x ∨ Eqv r b y)) := by
  constructor
  · intro e
    induction e with
    | rel hr =>
      rcases hr with hr | ⟨rfl, rfl⟩
      · exact Or.inl (Eqv.rel hr)
      · exact Or.inr ⟨Or.inl (Eqv.refl _), Or.inr (Eqv.refl _)⟩
    | refl a => exact Or.inl (Eqv.refl a)
    | symm _ ih =>
      rcases ih with ih | ⟨h1, h2⟩
      · exact Or.inl (Eqv.symm ih)
      · exact Or.inr ⟨h2, h1⟩
    | trans _ _ ih1 ih2 =>
      rename_i a b c _ _
      rcases ih1 with h1 | ⟨h1, h1'⟩
      · rcases ih2 with h2 | ⟨h2, h2'⟩
        · exact Or.inl (Eqv.trans h1 h2)
        · refine Or.inr ⟨?_, h2'⟩
          rcases h2 with h2 | h2
          · exact Or.inl (Eqv.trans h1 h2)
          · exact Or.inr (Eqv.trans h1 h2)
      · rcases ih2 with h2 | ⟨_, h2'⟩
        · refine Or.inr ⟨h1, ?_⟩
          rcases h1' with h | h
          · exact Or.inl (Eqv.trans (Eqv.symm h2) h)
          · exact Or.inr (Eqv.trans (Eqv.symm h2) h)
        · exact Or.inr ⟨h1, h2'⟩
  · have hm : ∀ a b, Eqv r a b → Eqv (fun a b => r a b ∨ (a = x ∧ b = y)) a b :=
      fun a b => Eqv.mono fun a b h => Or.inl h
    have hxy : Eqv (fun a b => r a b ∨ (a = x ∧ b = y)) x y := Eqv.rel (Or.inr ⟨rfl, rfl⟩)
    rintro (h | ⟨h1, h2⟩)
    · exact hm _ _ h
    · have ha : Eqv (fun a b => r a b ∨ (a = x ∧ b = y)) a x := by
        rcases h1 with h | h
        · exact hm _ _ h
        · exact Eqv.trans (hm _ _ h) (Eqv.symm hxy)
      have hb : Eqv (fun a b => r a b ∨ (a = x ∧ b = y)) b x := by
        rcases h2 with h | h
        · exact hm _ _ h
        · exact Eqv.trans (hm _ _ h) (Eqv.symm hxy)
      exact Eqv.trans ha (Eqv.symm hb)

/-- the edges Liu's algorithm has seen when it is in column `c` and has handled the entries `l` of that
column: every `a → b` with `b ∈ nbrs a`, `b < a < c`, and `c → b` for `b ∈ l`, `b < c` -/
def Lk (nbrs : Nat → List Nat) (c : Nat) (l : List Nat) (a b : Nat) : Prop :=
  b < a ∧ ((a < c ∧ b ∈ nbrs a) ∨ (a = c ∧ b ∈ l))

/-- connected components of those edges -/
def Cls (nbrs : Nat → List Nat) (c : Nat) (l : List Nat) : Nat → Nat → Prop := Eqv (Lk nbrs c l)

theorem Cls_dom {nbrs : Nat → List Nat} {c : Nat} {l : List Nat} {a b : Nat} (h : Cls nbrs c l a b) :
    a = b ∨ (a ≤ c ∧ b ≤ c) := by
  induction h with
  | rel hr =>
    obtain ⟨h1, h2 | h2⟩ := hr
    · right; omega
    · right; omega
  | refl a => exact Or.inl rfl
  | symm _ ih => rcases ih with ih | ih; exact Or.inl ih.symm; exact Or.inr ⟨ih.2, ih.1⟩
  | trans _ _ ih1 ih2 =>
    rcases ih1 with rfl | ih1
    · exact ih2
    · rcases ih2 with rfl | ih2
      · exact Or.inr ih1
      · exact Or.inr ⟨ih1.1, ih2.2⟩

theorem Cls_nil_dom {nbrs : Nat → List Nat} {c : Nat} {a b : Nat} (h : Cls nbrs c [] a b) :
    a = b ∨ (a < c ∧ b < c) := by
  induction h with
  | rel hr =>
    obtain ⟨h1, h2 | h2⟩ := hr
    · right; omega
    · simp at h2
  | refl a => exact Or.inl rfl
  | symm _ ih => rcases ih with ih | ih; exact Or.inl ih.symm; exact Or.inr ⟨ih.2, ih.1⟩
  | trans _ _ ih1 ih2 =>
    rcases ih1 with rfl | ih1
    · exact ih2
    · rcases ih2 with rfl | ih2
      · exact Or.inr ih1
      · exact Or.inr ⟨ih1.1, ih2.2⟩

theorem Cls_succ (nbrs : Nat → List Nat) (c a b : Nat) :
    Cls nbrs c (nbrs c) a b ↔ Cls nbrs (c + 1) [] a b := by
  apply Eqv.congr
  intro a b
  unfold Lk
  constructor
  · rintro ⟨h1, h2 | h2⟩
    · exact ⟨h1, Or.inl ⟨by omega, h2.2⟩⟩
    · exact ⟨h1, Or.inl ⟨by omega, h2.1 ▸ h2.2⟩⟩
  · rintro ⟨h1, h2 | h2⟩
    · by_cases e : a = c
      · exact ⟨h1, Or.inr ⟨e, e ▸ h2.2⟩⟩
      · exact ⟨h1, Or.inl ⟨by omega, h2.2⟩⟩
    · simp at h2

theorem Cls_nil_le {nbrs : Nat → List Nat} {c : Nat} (l : List Nat) {a b : Nat}
    (h : Cls nbrs c [] a b) : Cls nbrs c l a b := by
  refine Eqv.mono ?_ h
  rintro a b ⟨h1, h2 | h2⟩
  · exact ⟨h1, Or.inl h2⟩
  · simp at h2

theorem Cls_snoc_skip (nbrs : Nat → List Nat) (c : Nat) (l : List Nat) (u : Nat) (hu : ¬ u < c)
    (a b : Nat) : Cls nbrs c (l ++ [u]) a b ↔ Cls nbrs c l a b := by
  apply Eqv.congr
  intro a b
  unfold Lk
  constructor
  · rintro ⟨h1, h2 | h2⟩
    · exact ⟨h1, Or.inl h2⟩
    · rcases List.mem_append.mp h2.2 with h | h
      · exact ⟨h1, Or.inr ⟨h2.1, h⟩⟩
      · simp at h; omega
  · rintro ⟨h1, h2 | h2⟩
    · exact ⟨h1, Or.inl h2⟩
    · exact ⟨h1, Or.inr ⟨h2.1, List.mem_append.mpr (Or.inl h2.2)⟩⟩

theorem Cls_snoc (nbrs : Nat → List Nat) (c : Nat) (l : List Nat) (u : Nat) (hu : u < c) (a b : Nat) :
    Cls nbrs c (l ++ [u]) a b ↔
      Cls nbrs c l a b ∨ ((Cls nbrs c l a c ∨ Cls nbrs c l a u) ∧ (Cls nbrs c l b c ∨ Cls nbrs c l b u)) := by
  unfold Cls
  rw [← eqv_insert (Lk nbrs c l) c u a b]
  apply Eqv.congr
  intro a b
  unfold Lk
  constructor
  · rintro ⟨h1, h2 | h2⟩
    · exact Or.inl ⟨h1, Or.inl h2⟩
    · rcases List.mem_append.mp h2.2 with h | h
      · exact Or.inl ⟨h1, Or.inr ⟨h2.1, h⟩⟩
      · simp at h; exact Or.inr ⟨h2.1, h⟩
  · rintro (⟨h1, h2 | h2⟩ | ⟨rfl, rfl⟩)
    · exact ⟨h1, Or.inl h2⟩
    · exact ⟨h1, Or.inr ⟨h2.1, List.mem_append.mpr (Or.inl h2.2)⟩⟩
    · exact ⟨hu, Or.inr ⟨rfl, by simp⟩⟩

/-- a class that does not contain the current column is a class of the columns before it -/
theorem Cls_nil_or {nbrs : Nat → List Nat} {c : Nat} {l : List Nat} {a b : Nat} (h : Cls nbrs c l a b) :
    Cls nbrs c [] a b ∨ Cls nbrs c l a c := by
  induction h with
  | rel hr =>
    obtain ⟨h1, h2 | h2⟩ := hr
    · exact Or.inl (Eqv.rel ⟨h1, Or.inl h2⟩)
    · exact Or.inr (h2.1 ▸ Eqv.refl _)
  | refl a => exact Or.inl (Eqv.refl a)
  | symm h ih =>
    rcases ih with ih | ih
    · exact Or.inl (Eqv.symm ih)
    · exact Or.inr (Eqv.trans (Eqv.symm h) ih)
  | trans h1 _ ih1 ih2 =>
    rcases ih1 with ih1 | ih1
    · rcases ih2 with ih2 | ih2
      · exact Or.inl (Eqv.trans ih1 ih2)
      · exact Or.inr (Eqv.trans h1 ih2)
    · exact Or.inr ih1

/-- what `parent[v]` records: either `v` is still the largest column of its class (then the root marker
`nc`), or the column `p = parent[v]` whose loop absorbed the class of `v`: at that moment `v` was the
largest column of its class among the columns `< p`, and some entry `u` of column `p` lies in it -/
def PI (nbrs : Nat → List Nat) (nc : Nat) (R : Nat → Nat → Prop) (parent : Array Nat) (v : Nat) : Prop :=
  (parent.getD v 0 = nc ∧ ∀ j, R v j → j ≤ v) ∨
  (v < parent.getD v 0 ∧ parent.getD v 0 < nc ∧ (∀ j, Cls nbrs (parent.getD v 0) [] v j → j ≤ v) ∧
     ∃ u, u < parent.getD v 0 ∧ u ∈ nbrs (parent.getD v 0) ∧ Cls nbrs (parent.getD v 0) [] u v)

/-- the state of Liu's algorithm represents the partition `R` of the columns `< k` -/
structure Core (nbrs : Nat → List Nat) (nc k : Nat) (R : Nat → Nat → Prop) (st : St)
    (rep dep : Nat → Nat) : Prop where
  spp : st.pp.size = nc
  sroot : st.root.size = nc
  spar : st.parent.size = nc
  hk : k ≤ nc
  uf : UF st.pp k rep dep
  cls : ∀ i j, i < k → j < k → (rep i = rep j ↔ R i j)
  mx : ∀ i, i < k → R i (st.root.getD (rep i) 0) ∧ ∀ j, R i j → j ≤ st.root.getD (rep i) 0
  par : ∀ v, v < k → PI nbrs nc R st.parent v

theorem Core.congr {nbrs : Nat → List Nat} {nc k : Nat} {R R' : Nat → Nat → Prop} {st : St}
    {rep dep : Nat → Nat} (hR : ∀ a b, R a b ↔ R' a b) (h : Core nbrs nc k R st rep dep) :
    Core nbrs nc k R' st rep dep := by
  refine ⟨h.spp, h.sroot, h.spar, h.hk, h.uf, ?_, ?_, ?_⟩
  · intro i j hi hj; rw [← hR]; exact h.cls i j hi hj
  · intro i hi
    obtain ⟨h1, h2⟩ := h.mx i hi
    exact ⟨(hR _ _).mp h1, fun j hj => h2 j ((hR _ _).mpr hj)⟩
  · intro v hv
    rcases h.par v hv with ⟨h1, h2⟩ | h1
    · exact Or.inl ⟨h1, fun j hj => h2 j ((hR _ _).mpr hj)⟩
    · exact Or.inr h1

theorem liuEdge_eq (col : Nat) (st : St) (cset row : Nat) :
    liuEdge col (st, cset) row =
      if row ≥ col then (st, cset) else
      if st.root.getD (find st.pp row).2 0 ≠ col then
        ({ pp := (find st.pp row).1.setIfInBounds cset (find st.pp row).2,
           root := st.root.setIfInBounds (find st.pp row).2 col,
           parent := st.parent.setIfInBounds (st.root.getD (find st.pp row).2 0) col },
         (find st.pp row).2)
      else ({ st with pp := (find st.pp row).1 }, cset) := by
  unfold liuEdge
  rfl

/-- `make_set` of column `c` -/
theorem liuInit_core {nbrs : Nat → List Nat} {nc c : Nat} {st : St} {rep dep : Nat → Nat}
    (h : Core nbrs nc c (Cls nbrs c []) st rep dep) (hc : c < nc) :
    Core nbrs nc (c + 1) (Cls nbrs c []) (liuInit nc st c) (fun x => if x = c then c else rep x) dep := by
  have hrl : ∀ i, i < c → rep i < c := fun i hi => (h.uf.rep_root i hi).1
  unfold liuInit
  refine ⟨by simpa using h.spp, by simpa using h.sroot, by simpa using h.spar, hc, ?_, ?_, ?_, ?_⟩
  · refine ⟨by simp only [Array.size_setIfInBounds]; rw [h.spp]; exact hc, ?_, ?_, ?_⟩
    · intro i hi
      simp only [getD_setIfInBounds]
      split
      · omega
      · rename_i hn
        have : i < c := by
          rcases Nat.lt_or_ge i c with h' | h'
          · exact h'
          · exfalso; apply hn; exact ⟨by omega, by rw [h.spp]; exact hc⟩
        have := h.uf.lt i this; omega
    · intro i hi
      simp only [getD_setIfInBounds]
      split
      · rename_i hh; intro _; simp [hh.1]
      · rename_i hn
        have hic : i < c := by
          rcases Nat.lt_or_ge i c with h' | h'
          · exact h'
          · exfalso; apply hn; exact ⟨by omega, by rw [h.spp]; exact hc⟩
        intro e
        have hne : i ≠ c := by omega
        simp only [hne, if_false]
        exact h.uf.root i hic e
    · intro i hi
      simp only [getD_setIfInBounds]
      split
      · rename_i hh; intro e; exact absurd hh.1.symm e
      · rename_i hn
        have hic : i < c := by
          rcases Nat.lt_or_ge i c with h' | h'
          · exact h'
          · exfalso; apply hn; exact ⟨by omega, by rw [h.spp]; exact hc⟩
        intro e
        have hne : i ≠ c := by omega
        have hpl := h.uf.lt i hic
        have hne2 : st.pp.getD i 0 ≠ c := by omega
        simp only [hne, hne2, if_false]
        exact h.uf.step i hic e
  · intro i j hi hj
    by_cases ei : i = c
    · by_cases ej : j = c
      · subst ei; subst ej; simp only [if_true, true_iff]; exact Eqv.refl _
      · have hjc : j < c := by omega
        have := hrl j hjc
        simp only [ei, ej, if_true, if_false]
        constructor
        · intro e; omega
        · intro e
          rcases Cls_nil_dom e with e | e <;> omega
    · have hic : i < c := by omega
      by_cases ej : j = c
      · have := hrl i hic
        simp only [ei, ej, if_true, if_false]
        constructor
        · intro e; omega
        · intro e
          rcases Cls_nil_dom e with e | e <;> omega
      · simp only [ei, ej, if_false]
        exact h.cls i j hic (by omega)
  · intro i hi
    by_cases ei : i = c
    · subst ei
      simp only [if_true, getD_setIfInBounds, h.sroot, hc, and_self]
      refine ⟨Eqv.refl _, fun j hj => ?_⟩
      rcases Cls_nil_dom hj with e | e <;> omega
    · have hic : i < c := by omega
      have := hrl i hic
      have hne : ¬ (rep i = c ∧ c < st.root.size) := by omega
      simp only [ei, if_false, getD_setIfInBounds, hne]
      exact h.mx i hic
  · intro v hv
    unfold PI
    by_cases ev : v = c
    · subst ev
      left
      simp only [getD_setIfInBounds, h.spar, hc, and_self, if_true, true_and]
      intro j hj
      rcases Cls_nil_dom hj with e | e <;> omega
    · have hne : ¬ (v = c ∧ c < st.parent.size) := fun e => ev e.1
      simp only [getD_setIfInBounds, hne, if_false]
      exact h.par v (by omega)

/-- one entry `u` of column `c` -/
theorem liuEdge_core {nbrs : Nat → List Nat} {nc c : Nat} (hc : c < nc) (l : List Nat) (u : Nat)
    (hu : u ∈ nbrs c) (st : St) (cset : Nat) (rep dep : Nat → Nat)
    (h : Core nbrs nc (c + 1) (Cls nbrs c l) st rep dep) (hcs : cset = rep c) :
    ∃ rep' dep', Core nbrs nc (c + 1) (Cls nbrs c (l ++ [u])) (liuEdge c (st, cset) u).1 rep' dep' ∧
      (liuEdge c (st, cset) u).2 = rep' c := by
  rw [liuEdge_eq]
  by_cases huc : u ≥ c
  · rw [if_pos huc]
    exact ⟨rep, dep, h.congr (fun a b => (Cls_snoc_skip nbrs c l u (by omega) a b).symm), hcs⟩
  rw [if_neg huc]
  have huc' : u < c := by omega
  have hu1 : u < c + 1 := by omega
  have hc1 : c < c + 1 := by omega
  obtain ⟨hf1, hf2, hf3⟩ := find_spec h.uf u hu1
  rw [hf2]
  -- the class of `c` has maximum `c`
  have hmc : st.root.getD (rep c) 0 = c := by
    obtain ⟨m1, m2⟩ := h.mx c hc1
    have := m2 c (Eqv.refl _)
    rcases Cls_dom m1 with e | e <;> omega
  obtain ⟨mu1, mu2⟩ := h.mx u hu1
  have hsnoc := Cls_snoc nbrs c l u huc'
  by_cases hrr : st.root.getD (rep u) 0 ≠ c
  · rw [if_pos hrr]
    have hnuc : ¬ Cls nbrs c l u c := by
      intro e
      have := (h.cls u c hu1 hc1).mpr e
      rw [this] at hrr; exact hrr hmc
    have hrc := h.uf.rep_root c hc1
    have hru := h.uf.rep_root u hu1
    have hne : rep c ≠ rep u := by
      intro e; exact hnuc ((h.cls u c hu1 hc1).mp e.symm)
    have hlink := UF.link hf1 (rep c) (rep u) hrc.1 hru.1 hrc.2.2 hru.2.2 hne
    have hrrle : st.root.getD (rep u) 0 < c := by
      have := Cls_dom mu1
      have hh : st.root.getD (rep u) 0 ≠ c := hrr
      omega
    -- representatives after the merge
    have hP : ∀ i, i < c + 1 → (Cls nbrs c l i c ∨ Cls nbrs c l i u) →
        (if rep i = rep c then rep u else rep i) = rep u := by
      intro i hi hp
      rcases hp with hp | hp
      · rw [if_pos ((h.cls i c hi hc1).mpr hp)]
      · split
        · rfl
        · exact (h.cls i u hi hu1).mpr hp
    have hN : ∀ i, i < c + 1 → ¬ (Cls nbrs c l i c ∨ Cls nbrs c l i u) →
        (if rep i = rep c then rep u else rep i) = rep i ∧ rep i ≠ rep u := by
      intro i hi hp
      have h1 : rep i ≠ rep c := fun e => hp (Or.inl ((h.cls i c hi hc1).mp e))
      have h2 : rep i ≠ rep u := fun e => hp (Or.inr ((h.cls i u hi hu1).mp e))
      exact ⟨if_neg h1, h2⟩
    refine ⟨fun x => if rep x = rep c then rep u else rep x,
      fun x => if rep x = rep c then dep x + dep (rep u) + 1 else dep x,
      ⟨?_, ?_, ?_, hc, ?_, ?_, ?_, ?_⟩, ?_⟩
    · simp only [Array.size_setIfInBounds]; rw [hf3]; exact h.spp
    · simp only [Array.size_setIfInBounds]; exact h.sroot
    · simp only [Array.size_setIfInBounds]; exact h.spar
    · rw [hcs]; exact hlink
    · -- classes
      intro i j hi hj
      show (if rep i = rep c then rep u else rep i) = (if rep j = rep c then rep u else rep j) ↔ _
      rw [hsnoc]
      by_cases pi : Cls nbrs c l i c ∨ Cls nbrs c l i u
      · by_cases pj : Cls nbrs c l j c ∨ Cls nbrs c l j u
        · rw [hP i hi pi, hP j hj pj]
          exact ⟨fun _ => Or.inr ⟨pi, pj⟩, fun _ => rfl⟩
        · rw [hP i hi pi, (hN j hj pj).1]
          constructor
          · intro e; exact absurd e.symm (hN j hj pj).2
          · rintro (e | ⟨_, e⟩)
            · exfalso; apply pj
              rcases pi with p | p
              · exact Or.inl (Eqv.trans (Eqv.symm e) p)
              · exact Or.inr (Eqv.trans (Eqv.symm e) p)
            · exact absurd e pj
      · by_cases pj : Cls nbrs c l j c ∨ Cls nbrs c l j u
        · rw [hP j hj pj, (hN i hi pi).1]
          constructor
          · intro e; exact absurd e (hN i hi pi).2
          · rintro (e | ⟨e, _⟩)
            · exfalso; apply pi
              rcases pj with p | p
              · exact Or.inl (Eqv.trans e p)
              · exact Or.inr (Eqv.trans e p)
            · exact absurd e pi
        · rw [(hN i hi pi).1, (hN j hj pj).1, h.cls i j hi hj]
          constructor
          · intro e; exact Or.inl e
          · rintro (e | ⟨e, _⟩)
            · exact e
            · exact absurd e pi
    · -- maxima
      intro i hi
      show Cls nbrs c (l ++ [u]) i ((st.root.setIfInBounds (rep u) c).getD
          (if rep i = rep c then rep u else rep i) 0) ∧ ∀ j, Cls nbrs c (l ++ [u]) i j →
          j ≤ (st.root.setIfInBounds (rep u) c).getD (if rep i = rep c then rep u else rep i) 0
      have hinb : rep u < st.root.size := by rw [h.sroot]; have := hru.1; omega
      by_cases pi : Cls nbrs c l i c ∨ Cls nbrs c l i u
      · rw [hP i hi pi, getD_setIfInBounds, if_pos ⟨rfl, hinb⟩]
        refine ⟨(hsnoc i c).mpr (Or.inr ⟨pi, Or.inl (Eqv.refl _)⟩), fun j hj => ?_⟩
        rcases Cls_dom hj with e | e <;> omega
      · obtain ⟨e1, e2⟩ := hN i hi pi
        rw [e1, getD_setIfInBounds, if_neg (fun e => e2 e.1)]
        obtain ⟨m1, m2⟩ := h.mx i hi
        refine ⟨(hsnoc _ _).mpr (Or.inl m1), fun j hj => m2 j ?_⟩
        rcases (hsnoc _ _).mp hj with e | ⟨e, _⟩
        · exact e
        · exact absurd e pi
    · -- parents
      intro v hv
      show PI nbrs nc (Cls nbrs c (l ++ [u])) (st.parent.setIfInBounds (st.root.getD (rep u) 0) c) v
      have hinb : st.root.getD (rep u) 0 < st.parent.size := by rw [h.spar]; omega
      unfold PI
      by_cases ev : v = st.root.getD (rep u) 0
      · right
        rw [getD_setIfInBounds, if_pos ⟨ev, hinb⟩]
        refine ⟨by omega, hc, ?_, u, huc', hu, ?_⟩
        · intro j hj
          rw [ev]
          apply mu2
          rw [ev] at hj
          exact Eqv.trans mu1 (Cls_nil_le l hj)
        · rw [ev]
          rcases Cls_nil_or mu1 with e | e
          · exact e
          · exact absurd e hnuc
      · rw [getD_setIfInBounds, if_neg (fun e => ev e.1)]
        rcases h.par v hv with ⟨p1, p2⟩ | p1
        · left
          refine ⟨p1, fun j hj => ?_⟩
          rcases (hsnoc _ _).mp hj with e | ⟨e | e, _⟩
          · exact p2 j e
          · have := p2 c e
            rcases Cls_dom hj with e' | e' <;> omega
          · exfalso
            have h1 := p2 _ (Eqv.trans e mu1)
            have h2 := mu2 v (Eqv.symm e)
            omega
        · exact Or.inr p1
    · show rep u = if rep c = rep c then rep u else rep c
      rw [if_pos rfl]
  · rw [if_neg hrr]
    have hrr' : st.root.getD (rep u) 0 = c := by
      by_contra e; exact hrr e
    have huc2 : Cls nbrs c l u c := hrr' ▸ mu1
    refine ⟨rep, dep, ?_, hcs⟩
    have hR : ∀ a b, Cls nbrs c l a b ↔ Cls nbrs c (l ++ [u]) a b := by
      intro a b
      rw [hsnoc]
      constructor
      · intro e; exact Or.inl e
      · rintro (e | ⟨e1, e2⟩)
        · exact e
        · have ha : Cls nbrs c l a c := by
            rcases e1 with e | e
            · exact e
            · exact Eqv.trans e huc2
          have hb : Cls nbrs c l b c := by
            rcases e2 with e | e
            · exact e
            · exact Eqv.trans e huc2
          exact Eqv.trans ha (Eqv.symm hb)
    refine Core.congr hR ?_
    exact ⟨by show (find st.pp u).1.size = nc; rw [hf3]; exact h.spp, h.sroot, h.spar, h.hk, hf1,
      h.cls, h.mx, h.par⟩

/-- fold invariant that knows the prefix already consumed -/
theorem foldl_prefix_inv {α β : Type} (f : β → α → β) (L : List α) :
    ∀ (P : List α → β → Prop) (b : β), P [] b →
      (∀ l x s, x ∈ L → P l s → P (l ++ [x]) (f s x)) → P L (L.foldl f b) := by
  induction L with
  | nil => intro P b h0 _; exact h0
  | cons x xs ih =>
    intro P b h0 hstep
    rw [List.foldl_cons]
    apply ih (fun l s => P (x :: l) s)
    · exact hstep [] x b List.mem_cons_self h0
    · intro l y s hy hp
      exact hstep (x :: l) y s (List.mem_cons_of_mem _ hy) hp

/-- state between two columns -/
def LiuInv (nbrs : Nat → List Nat) (nc k : Nat) (st : St) : Prop :=
  ∃ rep dep, Core nbrs nc k (Cls nbrs k []) st rep dep

theorem liuCol_inv {nbrs : Nat → List Nat} {nc c : Nat} (hc : c < nc) {st : St}
    (h : LiuInv nbrs nc c st) : LiuInv nbrs nc (c + 1) (liuCol nc nbrs st c) := by
  obtain ⟨rep, dep, h⟩ := h
  unfold liuCol
  have key := foldl_prefix_inv (liuEdge c) (nbrs c)
    (fun l (sc : St × Nat) => ∃ rep' dep', Core nbrs nc (c + 1) (Cls nbrs c l) sc.1 rep' dep' ∧
      sc.2 = rep' c) (liuInit nc st c, c)
    ⟨_, _, liuInit_core h hc, by simp⟩
    (by
      rintro l x ⟨s, cs⟩ hx ⟨rep', dep', h1, h2⟩
      exact liuEdge_core hc l x hx s cs rep' dep' h1 h2)
  obtain ⟨rep', dep', h1, _⟩ := key
  exact ⟨rep', dep', h1.congr (Cls_succ nbrs c)⟩

/-- **Invariant of Liu's algorithm, final form.**  `parent` has `nc` entries and every `parent[v]`
is as described by `PI` with respect to the components of all the columns. -/
theorem liu_PI (nc : Nat) (nbrs : Nat → List Nat) :
    (liu nc nbrs).size = nc ∧ ∀ v, v < nc → PI nbrs nc (Cls nbrs nc []) (liu nc nbrs) v := by
  unfold liu
  have key := foldl_range_inv (fun k (st : St) => k ≤ nc → LiuInv nbrs nc k st)
    (liuCol nc nbrs) nc
    { pp := Array.replicate nc 0, root := Array.replicate nc 0, parent := Array.replicate nc 0 }
    (by
      intro _
      refine ⟨id, fun _ => 0, by simp, by simp, by simp, Nat.zero_le _, ?_, ?_, ?_, ?_⟩
      · exact ⟨Nat.zero_le _, fun i hi => by omega, fun i hi => by omega, fun i hi => by omega⟩
      · intro i j hi; omega
      · intro i hi; omega
      · intro i hi; omega)
    (by
      intro st c hc ih _
      exact liuCol_inv hc (ih (Nat.le_of_lt hc)))
  obtain ⟨rep, dep, h⟩ := key (Nat.le_refl _)
  exact ⟨h.spar, h.par⟩

/-! ### Part C: walks whose interior vertices are small -/

/-- `T E k a b`: there is a walk `a … b` in the graph `E` (at least one edge) all of whose interior
vertices are `< k` -/
inductive T (E : Nat → Nat → Prop) (k : Nat) : Nat → Nat → Prop
  | edge {a b : Nat} : E a b → T E k a b
  | via {a w b : Nat} : T E k a w → w < k → T E k w b → T E k a b

theorem T.mono {E : Nat → Nat → Prop} {k k' : Nat} (hk : k ≤ k') {a b : Nat} (h : T E k a b) :
    T E k' a b := by
  induction h with
  | edge e => exact T.edge e
  | via _ hw _ ih1 ih2 => exact T.via ih1 (Nat.lt_of_lt_of_le hw hk) ih2

theorem T.map {E E' : Nat → Nat → Prop} (hE : ∀ a b, E a b → E' a b) {k : Nat} {a b : Nat}
    (h : T E k a b) : T E' k a b := by
  induction h with
  | edge e => exact T.edge (hE _ _ e)
  | via _ hw _ ih1 ih2 => exact T.via ih1 hw ih2

theorem T.symm {E : Nat → Nat → Prop} (hE : ∀ a b, E a b → E b a) {k : Nat} {a b : Nat}
    (h : T E k a b) : T E k b a := by
  induction h with
  | edge e => exact T.edge (hE _ _ e)
  | via _ hw _ ih1 ih2 => exact T.via ih2 hw ih1

/-- cut a walk at the vertex `v` -/
theorem T.split {E : Nat → Nat → Prop} {v a b : Nat} (h : T E (v + 1) a b) :
    T E v a b ∨ ((a = v ∨ T E v a v) ∧ (v = b ∨ T E v v b)) := by
  induction h with
  | edge e => exact Or.inl (T.edge e)
  | via _ hw _ ih1 ih2 =>
    rename_i a w b _ _
    by_cases e : w = v
    · subst e
      have A : a = w ∨ T E w a w := by
        rcases ih1 with h | ⟨h, _⟩
        · exact Or.inr h
        · exact h
      have B : w = b ∨ T E w w b := by
        rcases ih2 with h | ⟨_, h⟩
        · exact Or.inr h
        · exact h
      exact Or.inr ⟨A, B⟩
    · have hwv : w < v := by omega
      rcases ih1 with h1 | ⟨A, h1⟩
      · rcases ih2 with h2 | ⟨h2, B⟩
        · exact Or.inl (T.via h1 hwv h2)
        · rcases h2 with h2 | h2
          · exact absurd h2 e
          · exact Or.inr ⟨Or.inr (T.via h1 hwv h2), B⟩
      · rcases h1 with h1 | h1
        · exact absurd h1.symm e
        · rcases ih2 with h2 | ⟨_, B⟩
          · exact Or.inr ⟨A, Or.inr (T.via h1 hwv h2)⟩
          · exact Or.inr ⟨A, B⟩

/-- if `v` is the largest vertex of its component among the vertices `< c`, a walk into that component
with interior `< c` has its interior `≤ v` -/
theorem T.shrink {E : Nat → Nat → Prop} (hE : ∀ a b, E a b → E b a) {c v : Nat}
    (hmax : ∀ j, j < c → T E c v j → j ≤ v) {a b : Nat} (h : T E c a b) :
    (b = v ∨ T E c v b) → b < c → T E (v + 1) a b := by
  induction h with
  | edge e => intro _ _; exact T.edge e
  | via _ hw h2 ih1 ih2 =>
    rename_i a w b _
    intro hb hbc
    have hvw : T E c v w := by
      rcases hb with hb | hb
      · rw [← hb]; exact T.symm hE h2
      · exact T.via hb hbc (T.symm hE h2)
    have hwv : w ≤ v := hmax w hw hvw
    exact T.via (ih1 (Or.inr hvw) hw) (by omega) (ih2 hb hbc)

/-- `x` is the least `i` in `(v, n)` with `P i`, or `n` if there is none -/
def Least (P : Nat → Prop) (n v x : Nat) : Prop :=
  (x = n ∧ ∀ i, v < i → i < n → ¬ P i) ∨ (v < x ∧ x < n ∧ P x ∧ ∀ i, v < i → i < x → ¬ P i)

theorem Least.unique {P P' : Nat → Prop} {n v x y : Nat} (hP : ∀ i, v < i → i < n → (P i ↔ P' i))
    (hx : Least P n v x) (hy : Least P' n v y) : x = y := by
  rcases hx with ⟨ex, hx⟩ | ⟨x1, x2, x3, x4⟩
  · rcases hy with ⟨ey, _⟩ | ⟨y1, y2, y3, _⟩
    · rw [ex, ey]
    · exact absurd ((hP y y1 y2).mpr y3) (hx y y1 y2)
  · rcases hy with ⟨_, hy⟩ | ⟨y1, y2, y3, y4⟩
    · exact absurd ((hP x x1 x2).mp x3) (hy x x1 x2)
    · rcases Nat.lt_trichotomy x y with h | h | h
      · exact absurd ((hP x x1 x2).mp x3) (y4 x x1 h)
      · exact h
      · exact absurd ((hP y y1 y2).mpr y3) (x4 y y1 h)

/-- the graph Liu's algorithm works on: `a — b` when the smaller is an entry of the larger's list -/
def SE (nbrs : Nat → List Nat) (nc : Nat) (a b : Nat) : Prop :=
  (b < a ∧ a < nc ∧ b ∈ nbrs a) ∨ (a < b ∧ b < nc ∧ a ∈ nbrs b)

theorem SE.symm {nbrs : Nat → List Nat} {nc : Nat} (a b : Nat) (h : SE nbrs nc a b) : SE nbrs nc b a := by
  rcases h with h | h
  · exact Or.inr h
  · exact Or.inl h

theorem T_of_Cls {nbrs : Nat → List Nat} {nc k : Nat} (hk : k ≤ nc) {a b : Nat}
    (h : Cls nbrs k [] a b) : a = b ∨ (a < k ∧ b < k ∧ T (SE nbrs nc) k a b) := by
  induction h with
  | rel hr =>
    obtain ⟨h1, h2 | h2⟩ := hr
    · exact Or.inr ⟨h2.1, by omega, T.edge (Or.inl ⟨h1, by omega, h2.2⟩)⟩
    · simp at h2
  | refl a => exact Or.inl rfl
  | symm _ ih =>
    rcases ih with ih | ⟨h1, h2, h3⟩
    · exact Or.inl ih.symm
    · exact Or.inr ⟨h2, h1, T.symm SE.symm h3⟩
  | trans _ _ ih1 ih2 =>
    rcases ih1 with rfl | ⟨h1, h2, h3⟩
    · exact ih2
    · rcases ih2 with rfl | ⟨g1, g2, g3⟩
      · exact Or.inr ⟨h1, h2, h3⟩
      · exact Or.inr ⟨h1, g2, T.via h3 h2 g3⟩

theorem Cls_of_T {nbrs : Nat → List Nat} {nc k : Nat} {a b : Nat} (h : T (SE nbrs nc) k a b) :
    a < k → b < k → Cls nbrs k [] a b := by
  induction h with
  | edge e =>
    intro ha hb
    rcases e with e | e
    · exact Eqv.rel ⟨e.1, Or.inl ⟨ha, e.2.2⟩⟩
    · exact Eqv.symm (Eqv.rel ⟨e.1, Or.inl ⟨hb, e.2.2⟩⟩)
  | via _ hw _ ih1 ih2 =>
    intro ha hb
    exact Eqv.trans (ih1 ha hw) (ih2 hw hb)

/-- **What Liu's algorithm computes**: `parent[v]` is the least later column that reaches `v` by a walk
through columns `< v` (in the graph of the lists `nbrs`), or `nc` if there is none. -/
theorem liu_least (nc : Nat) (nbrs : Nat → List Nat) :
    (liu nc nbrs).size = nc ∧
    ∀ v, v < nc → Least (fun i => T (SE nbrs nc) v i v) nc v ((liu nc nbrs).getD v 0) := by
  obtain ⟨hs, hpi⟩ := liu_PI nc nbrs
  refine ⟨hs, fun v hv => ?_⟩
  -- nothing between `v` and a column `p ≤ nc` where `v` is still a class maximum reaches `v`
  have hnone : ∀ p, p ≤ nc → v < p → (∀ j, Cls nbrs p [] v j → j ≤ v) →
      ∀ i, v < i → i < p → ¬ T (SE nbrs nc) v i v := by
    intro p hp hvp hmax i hvi hip ht
    have h1 : T (SE nbrs nc) p v i := T.symm SE.symm (T.mono (Nat.le_of_lt hvp) ht)
    have := hmax i (Cls_of_T h1 hvp hip)
    omega
  rcases hpi v hv with ⟨h1, h2⟩ | ⟨h1, h2, h3, u, hu1, hu2, hu3⟩
  · exact Or.inl ⟨h1, hnone nc (Nat.le_refl _) hv h2⟩
  · unfold Least
    generalize (liu nc nbrs).getD v 0 = p at h1 h2 h3 hu1 hu2 hu3 ⊢
    refine Or.inr ⟨h1, h2, ?_, hnone _ (Nat.le_of_lt h2) h1 h3⟩
    have hedge : SE nbrs nc p u := Or.inl ⟨hu1, h2, hu2⟩
    have hpv : T (SE nbrs nc) p p v := by
      rcases T_of_Cls (Nat.le_of_lt h2) hu3 with e | ⟨_, _, e⟩
      · rw [← e]; exact T.edge hedge
      · exact T.via (T.edge hedge) hu1 e
    have hmax : ∀ j, j < p → T (SE nbrs nc) p v j → j ≤ v :=
      fun j hj ht => h3 j (Cls_of_T ht h1 hj)
    have := T.shrink SE.symm hmax hpv (Or.inl rfl) h1
    rcases T.split this with e | ⟨e | e, _⟩
    · exact e
    · omega
    · exact e

/-! ### Part D: the elimination game -/

/-- `n`-by-`n` Boolean matrix -/
def Sq (n : Nat) (g : Array (Array Bool)) : Prop := g.size = n ∧ ∀ i, i < n → (g.getD i #[]).size = n

theorem adjSet_sq {n : Nat} {g : Array (Array Bool)} (h : Sq n g) (i j : Nat) : Sq n (adjSet g i j) := by
  unfold adjSet
  refine ⟨by simpa using h.1, fun a ha => ?_⟩
  rw [getD_setIfInBounds']
  split
  · rename_i hc
    simp only [Array.size_setIfInBounds]
    exact h.2 i (hc.1 ▸ ha)
  · exact h.2 a ha

theorem adjGet_adjSet {n : Nat} {g : Array (Array Bool)} (h : Sq n g) {i j : Nat} (hi : i < n) (hj : j < n)
    (a b : Nat) : adjGet (adjSet g i j) a b = true ↔ adjGet g a b = true ∨ (a = i ∧ b = j) := by
  unfold adjGet adjSet
  rw [getD_setIfInBounds']
  by_cases e : a = i
  · subst e
    rw [if_pos ⟨rfl, by rw [h.1]; exact hi⟩, getD_setIfInBounds']
    by_cases e2 : b = j
    · subst e2
      rw [if_pos ⟨rfl, by rw [h.2 a hi]; exact hj⟩]
      simp
    · rw [if_neg (fun c => e2 c.1)]
      simp [e2]
  · rw [if_neg (fun c => e c.1)]
    simp [e]

theorem fill_inner {n i : Nat} (hi : i < n) (l2 : List Nat) (hl2 : ∀ x ∈ l2, x < n) :
    ∀ g, Sq n g →
      Sq n (l2.foldl (fun g j => if i ≠ j then adjSet g i j else g) g) ∧
      ∀ a b, adjGet (l2.foldl (fun g j => if i ≠ j then adjSet g i j else g) g) a b = true ↔
        adjGet g a b = true ∨ (a = i ∧ b ∈ l2 ∧ a ≠ b) := by
  induction l2 with
  | nil => intro g hg; exact ⟨hg, fun a b => by simp⟩
  | cons x xs ih =>
    intro g hg
    rw [List.foldl_cons]
    have hx : x < n := hl2 x List.mem_cons_self
    have hxs : ∀ y ∈ xs, y < n := fun y hy => hl2 y (List.mem_cons_of_mem _ hy)
    by_cases e : i ≠ x
    · rw [if_pos e]
      obtain ⟨s, k⟩ := ih hxs _ (adjSet_sq hg i x)
      refine ⟨s, fun a b => ?_⟩
      rw [k a b, adjGet_adjSet hg hi hx]
      constructor
      · rintro ((h | ⟨h1, h2⟩) | ⟨h1, h2, h3⟩)
        · exact Or.inl h
        · exact Or.inr ⟨h1, by rw [h2]; exact List.mem_cons_self, by rw [h1, h2]; exact e⟩
        · exact Or.inr ⟨h1, List.mem_cons_of_mem _ h2, h3⟩
      · rintro (h | ⟨h1, h2, h3⟩)
        · exact Or.inl (Or.inl h)
        · rcases List.mem_cons.mp h2 with h2 | h2
          · exact Or.inl (Or.inr ⟨h1, h2⟩)
          · exact Or.inr ⟨h1, h2, h3⟩
    · rw [if_neg e]
      have e' : i = x := by by_contra c; exact e c
      obtain ⟨s, k⟩ := ih hxs _ hg
      refine ⟨s, fun a b => ?_⟩
      rw [k a b]
      constructor
      · rintro (h | ⟨h1, h2, h3⟩)
        · exact Or.inl h
        · exact Or.inr ⟨h1, List.mem_cons_of_mem _ h2, h3⟩
      · rintro (h | ⟨h1, h2, h3⟩)
        · exact Or.inl h
        · rcases List.mem_cons.mp h2 with h2 | h2
          · exfalso; apply h3; rw [h1, h2, e']
          · exact Or.inr ⟨h1, h2, h3⟩

theorem fill_outer {n : Nat} (l1 l2 : List Nat) (hl1 : ∀ x ∈ l1, x < n) (hl2 : ∀ x ∈ l2, x < n) :
    ∀ g, Sq n g →
      Sq n (l1.foldl (fun g i => l2.foldl (fun g j => if i ≠ j then adjSet g i j else g) g) g) ∧
      ∀ a b, adjGet (l1.foldl (fun g i => l2.foldl (fun g j => if i ≠ j then adjSet g i j else g) g) g) a b
          = true ↔ adjGet g a b = true ∨ (a ∈ l1 ∧ b ∈ l2 ∧ a ≠ b) := by
  induction l1 with
  | nil => intro g hg; exact ⟨hg, fun a b => by simp⟩
  | cons x xs ih =>
    intro g hg
    rw [List.foldl_cons]
    have hx : x < n := hl1 x List.mem_cons_self
    have hxs : ∀ y ∈ xs, y < n := fun y hy => hl1 y (List.mem_cons_of_mem _ hy)
    obtain ⟨s1, k1⟩ := fill_inner hx l2 hl2 g hg
    obtain ⟨s, k⟩ := ih hxs _ s1
    refine ⟨s, fun a b => ?_⟩
    rw [k a b, k1 a b]
    constructor
    · rintro ((h | ⟨h1, h2, h3⟩) | ⟨h1, h2, h3⟩)
      · exact Or.inl h
      · exact Or.inr ⟨by rw [h1]; exact List.mem_cons_self, h2, h3⟩
      · exact Or.inr ⟨List.mem_cons_of_mem _ h1, h2, h3⟩
    · rintro (h | ⟨h1, h2, h3⟩)
      · exact Or.inl (Or.inl h)
      · rcases List.mem_cons.mp h1 with h1 | h1
        · exact Or.inl (Or.inr ⟨h1, h2, h3⟩)
        · exact Or.inr ⟨h1, h2, h3⟩

/-- the first element of a filtered `range` is the least index satisfying the predicate -/
theorem headD_filter_range (n : Nat) (p : Nat → Bool) :
    (((List.range n).filter p).headD n = n ∧ ∀ i, i < n → p i = false) ∨
    (((List.range n).filter p).headD n < n ∧ p (((List.range n).filter p).headD n) = true ∧
      ∀ i, i < ((List.range n).filter p).headD n → p i = false) := by
  have hpw : ((List.range n).filter p).Pairwise (· < ·) := List.Pairwise.filter _ List.pairwise_lt_range
  cases h : (List.range n).filter p with
  | nil =>
    left
    refine ⟨rfl, fun i hi => ?_⟩
    have : i ∉ (List.range n).filter p := by rw [h]; simp
    rw [List.mem_filter] at this
    cases hp : p i with
    | false => rfl
    | true => exact absurd ⟨List.mem_range.mpr hi, hp⟩ this
  | cons x t =>
    right
    have hx : x ∈ (List.range n).filter p := by rw [h]; exact List.mem_cons_self
    rw [List.mem_filter, List.mem_range] at hx
    refine ⟨hx.1, hx.2, fun i hi => ?_⟩
    simp only [List.headD_cons] at hi
    cases hp : p i with
    | false => rfl
    | true =>
      exfalso
      have hm : i ∈ (List.range n).filter p :=
        List.mem_filter.mpr ⟨List.mem_range.mpr (by omega), hp⟩
      rw [h] at hm hpw
      rcases List.mem_cons.mp hm with e | e
      · omega
      · have := (List.pairwise_cons.mp hpw).1 i e
        omega

/-- one elimination step -/
def estep (n : Nat) (gp : Array (Array Bool) × Array Nat) (v : Nat) : Array (Array Bool) × Array Nat :=
  let nb := (List.range n).filter fun i => decide (i > v) && adjGet gp.1 i v
  (nb.foldl (fun g i => nb.foldl (fun g j => if i ≠ j then adjSet g i j else g) g) gp.1,
   gp.2.push (nb.headD n))

theorem etreeOfGraph_eq (n : Nat) (g0 : Array (Array Bool)) :
    etreeOfGraph n g0 = ((List.range n).foldl (estep n) (g0, #[])).2 := rfl

/-- state of the elimination game before vertex `v`: among the vertices `≥ v` the matrix holds the
edges of the elimination graph (walks with interior `< v`), and the parents found so far are right -/
def DInv (E : Nat → Nat → Prop) (n v : Nat) (gp : Array (Array Bool) × Array Nat) : Prop :=
  Sq n gp.1 ∧ gp.2.size = v ∧
  (∀ i j, v ≤ i → v ≤ j → i < n → j < n → (adjGet gp.1 i j = true ↔ i ≠ j ∧ T E v i j)) ∧
  ∀ u, u < v → Least (fun i => T E u i u) n u (gp.2.getD u 0)

theorem push_getD (a : Array Nat) (x u : Nat) :
    (a.push x).getD u 0 = if u < a.size then a.getD u 0 else if u = a.size then x else 0 := by
  simp only [Array.getD_eq_getD_getElem?, Array.getElem?_push]
  by_cases h1 : u < a.size
  · have : u ≠ a.size := by omega
    simp [h1, this]
  · by_cases h2 : u = a.size
    · simp [h2]
    · have : a.size ≤ u := by omega
      simp [h1, h2, this]

theorem estep_inv {E : Nat → Nat → Prop} (hEs : ∀ a b, E a b → E b a) {n v : Nat} (hv : v < n)
    {gp : Array (Array Bool) × Array Nat} (h : DInv E n v gp) : DInv E n (v + 1) (estep n gp v) := by
  obtain ⟨hsq, hsz, hadj, hpar⟩ := h
  have hmem : ∀ x, x ∈ (List.range n).filter (fun i => decide (i > v) && adjGet gp.1 i v) ↔
      x < n ∧ v < x ∧ T E v x v := by
    intro x
    rw [List.mem_filter, List.mem_range, Bool.and_eq_true, decide_eq_true_eq]
    constructor
    · rintro ⟨h1, h2, h3⟩
      exact ⟨h1, h2, ((hadj x v (by omega) (Nat.le_refl _) h1 hv).mp h3).2⟩
    · rintro ⟨h1, h2, h3⟩
      exact ⟨h1, h2, (hadj x v (by omega) (Nat.le_refl _) h1 hv).mpr ⟨by omega, h3⟩⟩
  have hlt : ∀ x ∈ (List.range n).filter (fun i => decide (i > v) && adjGet gp.1 i v), x < n :=
    fun x hx => ((hmem x).mp hx).1
  obtain ⟨s, k⟩ := fill_outer _ _ hlt hlt gp.1 hsq
  unfold estep
  refine ⟨s, by simp [hsz], ?_, ?_⟩
  · intro i j hi hj hin hjn
    show adjGet (List.foldl _ gp.1 _) i j = true ↔ _
    rw [k i j, hmem, hmem, hadj i j (by omega) (by omega) hin hjn]
    constructor
    · rintro (⟨h1, h2⟩ | ⟨⟨_, _, h1⟩, ⟨_, _, h2⟩, h3⟩)
      · exact ⟨h1, T.mono (Nat.le_succ _) h2⟩
      · exact ⟨h3, T.via (T.mono (Nat.le_succ _) h1) (Nat.lt_succ_self _)
          (T.mono (Nat.le_succ _) (T.symm hEs h2))⟩
    · rintro ⟨h1, h2⟩
      rcases T.split h2 with e | ⟨e1, e2⟩
      · exact Or.inl ⟨h1, e⟩
      · have e1' : T E v i v := by
          rcases e1 with e | e
          · omega
          · exact e
        have e2' : T E v v j := by
          rcases e2 with e | e
          · omega
          · exact e
        exact Or.inr ⟨⟨hin, by omega, e1'⟩, ⟨hjn, by omega, T.symm hEs e2'⟩, h1⟩
  · intro u hu
    show Least _ n u ((gp.2.push _).getD u 0)
    rw [push_getD, hsz]
    by_cases huv : u < v
    · rw [if_pos huv]; exact hpar u huv
    · have e : u = v := by omega
      rw [if_neg huv, if_pos e, e]
      rcases headD_filter_range n (fun i => decide (i > v) && adjGet gp.1 i v) with ⟨h1, h2⟩ | ⟨h1, h2, h3⟩
      · left
        refine ⟨h1, fun i hvi hin ht => ?_⟩
        have := h2 i hin
        have hm := (hmem i).mpr ⟨hin, hvi, ht⟩
        rw [List.mem_filter] at hm
        rw [hm.2] at this
        exact absurd this (by simp)
      · right
        generalize ((List.range n).filter (fun i => decide (i > v) && adjGet gp.1 i v)).headD n = x
          at h1 h2 h3
        have hx : x ∈ (List.range n).filter (fun i => decide (i > v) && adjGet gp.1 i v) :=
          List.mem_filter.mpr ⟨List.mem_range.mpr h1, h2⟩
        obtain ⟨_, hx2, hx3⟩ := (hmem x).mp hx
        refine ⟨hx2, h1, hx3, fun i hvi hix ht => ?_⟩
        have := h3 i hix
        have hm := (hmem i).mpr ⟨by omega, hvi, ht⟩
        rw [List.mem_filter] at hm
        rw [hm.2] at this
        exact absurd this (by simp)

/-- **What the elimination game computes**: on an `n`-by-`n` symmetric irreflexive adjacency matrix,
`parent[v]` is the least later vertex joined to `v` by a walk through vertices `< v`. -/
theorem etreeOfGraph_least {E : Nat → Nat → Prop} (hEs : ∀ a b, E a b → E b a)
    (hEi : ∀ a b, E a b → a ≠ b) (n : Nat) (g0 : Array (Array Bool)) (hsq : Sq n g0)
    (hg : ∀ i j, i < n → j < n → (adjGet g0 i j = true ↔ E i j)) :
    (etreeOfGraph n g0).size = n ∧
    ∀ v, v < n → Least (fun i => T E v i v) n v ((etreeOfGraph n g0).getD v 0) := by
  rw [etreeOfGraph_eq]
  have key := foldl_range_inv (fun k gp => DInv E n k gp) (estep n) n (g0, #[])
    (by
      refine ⟨hsq, rfl, ?_, fun u hu => by omega⟩
      intro i j _ _ hi hj
      rw [hg i j hi hj]
      constructor
      · intro e; exact ⟨hEi i j e, T.edge e⟩
      · rintro ⟨_, e⟩
        cases e with
        | edge e => exact e
        | via _ hw _ => omega)
    (fun gp v hv h => estep_inv hEs hv h)
  exact ⟨key.2.1, key.2.2.2⟩

/-! ### Part E: first-column stars and the graph of AᵀA -/

/-- the graph of AᵀA: distinct columns `< n` sharing a row -/
def GE (n : Nat) (col : Nat → List Nat) (a b : Nat) : Prop :=
  a < n ∧ b < n ∧ a ≠ b ∧ ∃ k, k ∈ col a ∧ k ∈ col b

theorem GE.symm {n : Nat} {col : Nat → List Nat} (a b : Nat) (h : GE n col a b) : GE n col b a := by
  obtain ⟨h1, h2, h3, k, h4, h5⟩ := h
  exact ⟨h2, h1, h3.symm, k, h5, h4⟩

theorem ataAdj_sq (n : Nat) (col : Nat → List Nat) : Sq n (ataAdj n col) := by
  unfold ataAdj
  refine ⟨by simp, fun i hi => ?_⟩
  simp [Array.getD_eq_getD_getElem?, hi]

theorem ataAdj_get (n : Nat) (col : Nat → List Nat) (i j : Nat) (hi : i < n) (hj : j < n) :
    adjGet (ataAdj n col) i j = true ↔ GE n col i j := by
  unfold ataAdj adjGet GE
  simp only [Array.getD_eq_getD_getElem?, Array.getElem?_map, Array.getElem?_range, hi, hj, if_true,
    Option.map_some, Option.getD_some]
  simp only [Bool.and_eq_true, bne_iff_ne, ne_eq, List.any_eq_true, List.contains_iff_mem, true_and]

theorem firstcol_spec (nc : Nat) (col : Nat → List Nat) (r : Nat) :
    (firstcol nc col r = nc ∧ ∀ j, j < nc → r ∉ col j) ∨
    (firstcol nc col r < nc ∧ r ∈ col (firstcol nc col r) ∧ ∀ j, j < firstcol nc col r → r ∉ col j) := by
  have e : firstcol nc col r = ((List.range nc).filter fun j => (col j).contains r).headD nc := by
    unfold firstcol
    rw [List.headD_eq_head?_getD, List.head?_filter]
  rw [e]
  rcases headD_filter_range nc (fun j => (col j).contains r) with ⟨h1, h2⟩ | ⟨h1, h2, h3⟩
  · left
    refine ⟨h1, fun j hj hm => ?_⟩
    have := h2 j hj
    exact absurd hm (by simpa using this)
  · right
    refine ⟨h1, by simpa using h2, fun j hj hm => ?_⟩
    have := h3 j hj
    exact absurd hm (by simpa using this)

/-- the lists Liu's algorithm is run on by `coletree` -/
def starNbrs (nr nc : Nat) (col : Nat → List Nat) (c : Nat) : List Nat :=
  (col c).map fun r => ((Array.range nr).map (firstcol nc col)).getD r nc

theorem coletree_eq_liu (nr nc : Nat) (col : Nat → List Nat) :
    coletree nr nc col = liu nc (starNbrs nr nc col) := rfl

theorem mem_starNbrs {nr nc : Nat} {col : Nat → List Nat} {c : Nat} (hrow : ∀ r ∈ col c, r < nr) (b : Nat) :
    b ∈ starNbrs nr nc col c ↔ ∃ r, r ∈ col c ∧ firstcol nc col r = b := by
  unfold starNbrs
  rw [List.mem_map]
  constructor
  · rintro ⟨r, hr, e⟩
    refine ⟨r, hr, ?_⟩
    rw [← e]
    simp [Array.getD_eq_getD_getElem?, hrow r hr]
  · rintro ⟨r, hr, e⟩
    refine ⟨r, hr, ?_⟩
    rw [← e]
    simp [Array.getD_eq_getD_getElem?, hrow r hr]

theorem GE_of_SE {nr nc : Nat} {col : Nat → List Nat} (hrow : ∀ c, c < nc → ∀ r ∈ col c, r < nr)
    (a b : Nat) (h : SE (starNbrs nr nc col) nc a b) : GE nc col a b := by
  have key : ∀ a b, b < a → a < nc → b ∈ starNbrs nr nc col a → GE nc col a b := by
    intro a b hba ha hm
    obtain ⟨r, hr, e⟩ := (mem_starNbrs (hrow a ha) b).mp hm
    rcases firstcol_spec nc col r with ⟨h1, _⟩ | ⟨_, h2, _⟩
    · omega
    · rw [e] at h2
      exact ⟨ha, by omega, by omega, r, hr, h2⟩
  rcases h with ⟨h1, h2, h3⟩ | ⟨h1, h2, h3⟩
  · exact key a b h1 h2 h3
  · exact GE.symm _ _ (key b a h1 h2 h3)

/-- two columns sharing row `r` are both linked to `firstcol r` -/
theorem SE_of_GE {nr nc : Nat} {col : Nat → List Nat} (hrow : ∀ c, c < nc → ∀ r ∈ col c, r < nr)
    (a b : Nat) (h : GE nc col a b) :
    ∃ f, f ≤ a ∧ f ≤ b ∧ (f = a ∨ SE (starNbrs nr nc col) nc a f) ∧
      (f = b ∨ SE (starNbrs nr nc col) nc f b) := by
  obtain ⟨ha, hb, _, r, hra, hrb⟩ := h
  rcases firstcol_spec nc col r with ⟨_, h2⟩ | ⟨h1, h2, h3⟩
  · exact absurd hra (h2 a ha)
  · have hfa : firstcol nc col r ≤ a := by
      by_contra c; exact h3 a (by omega) hra
    have hfb : firstcol nc col r ≤ b := by
      by_contra c; exact h3 b (by omega) hrb
    refine ⟨firstcol nc col r, hfa, hfb, ?_, ?_⟩
    · by_cases e : firstcol nc col r = a
      · exact Or.inl e
      · exact Or.inr (Or.inl ⟨by omega, ha, (mem_starNbrs (hrow a ha) _).mpr ⟨r, hra, rfl⟩⟩)
    · by_cases e : firstcol nc col r = b
      · exact Or.inl e
      · exact Or.inr (Or.inr ⟨by omega, hb, (mem_starNbrs (hrow b hb) _).mpr ⟨r, hrb, rfl⟩⟩)

theorem T_star_of_T_ata {nr nc : Nat} {col : Nat → List Nat}
    (hrow : ∀ c, c < nc → ∀ r ∈ col c, r < nr) {k a b : Nat} (h : T (GE nc col) k a b) :
    (a ≤ k ∨ b ≤ k) → T (SE (starNbrs nr nc col) nc) k a b := by
  induction h with
  | edge e =>
    rename_i a b
    intro hk
    obtain ⟨f, hfa, hfb, h1, h2⟩ := SE_of_GE hrow a b e
    have hne : a ≠ b := e.2.2.1
    rcases h1 with h1 | h1
    · rcases h2 with h2 | h2
      · omega
      · rw [h1] at h2; exact T.edge h2
    · rcases h2 with h2 | h2
      · rw [h2] at h1; exact T.edge h1
      · have hfa' : f ≠ a := by
          rcases h1 with h | h <;> omega
        have hfb' : f ≠ b := by
          rcases h2 with h | h <;> omega
        exact T.via (T.edge h1) (by omega) (T.edge h2)
  | via _ hw _ ih1 ih2 =>
    intro _
    exact T.via (ih1 (Or.inr (Nat.le_of_lt hw))) hw (ih2 (Or.inl (Nat.le_of_lt hw)))

theorem array_ext_getD {a b : Array Nat} {n : Nat} (ha : a.size = n) (hb : b.size = n)
    (h : ∀ i, i < n → a.getD i 0 = b.getD i 0) : a = b := by
  apply Array.ext (by rw [ha, hb])
  intro i h1 h2
  have := h i (ha ▸ h1)
  simpa [Array.getD_eq_getD_getElem?, h1, h2] using this

/-- **Liu's algorithm computes the column elimination tree.** -/
theorem coletree_eq_etreeDef (nr nc : Nat) (col : Nat → List Nat)
    (hrow : ∀ c, c < nc → ∀ r ∈ col c, r < nr) : coletree nr nc col = etreeDef nc col := by
  rw [coletree_eq_liu]
  obtain ⟨s1, l1⟩ := liu_least nc (starNbrs nr nc col)
  obtain ⟨s2, l2⟩ := etreeOfGraph_least (E := GE nc col) GE.symm (fun a b h => h.2.2.1) nc
    (ataAdj nc col) (ataAdj_sq nc col) (ataAdj_get nc col)
  refine array_ext_getD s1 s2 (fun v hv => ?_)
  refine Least.unique (fun i hvi hin => ?_) (l1 v hv) (l2 v hv)
  exact ⟨T.map (GE_of_SE hrow), fun h => T_star_of_T_ata hrow h (Or.inr (Nat.le_refl _))⟩

/-! ### Part F: variants -/

/-- Liu's algorithm only depends on the graph of its lists -/
theorem liu_congr (nc : Nat) (nbrs nbrs' : Nat → List Nat)
    (h : ∀ a b, b < a → a < nc → (b ∈ nbrs a ↔ b ∈ nbrs' a)) : liu nc nbrs = liu nc nbrs' := by
  obtain ⟨s1, l1⟩ := liu_least nc nbrs
  obtain ⟨s2, l2⟩ := liu_least nc nbrs'
  refine array_ext_getD s1 s2 (fun v hv => ?_)
  refine Least.unique (fun i _ _ => ?_) (l1 v hv) (l2 v hv)
  have hse : ∀ a b, SE nbrs nc a b ↔ SE nbrs' nc a b := by
    intro a b
    unfold SE
    constructor
    · rintro (⟨h1, h2, h3⟩ | ⟨h1, h2, h3⟩)
      · exact Or.inl ⟨h1, h2, (h a b h1 h2).mp h3⟩
      · exact Or.inr ⟨h1, h2, (h b a h1 h2).mp h3⟩
    · rintro (⟨h1, h2, h3⟩ | ⟨h1, h2, h3⟩)
      · exact Or.inl ⟨h1, h2, (h a b h1 h2).mpr h3⟩
      · exact Or.inr ⟨h1, h2, (h b a h1 h2).mpr h3⟩
  exact ⟨T.map fun a b => (hse a b).mp, T.map fun a b => (hse a b).mpr⟩

/-- the graph of a structurally symmetric pattern -/
def SymE (n : Nat) (col : Nat → List Nat) (a b : Nat) : Prop :=
  a < n ∧ b < n ∧ a ≠ b ∧ (a ∈ col b ∨ b ∈ col a)

theorem symAdj_sq (n : Nat) (col : Nat → List Nat) : Sq n (symAdj n col) := by
  unfold symAdj
  refine ⟨by simp, fun i hi => ?_⟩
  simp [Array.getD_eq_getD_getElem?, hi]

theorem symAdj_get (n : Nat) (col : Nat → List Nat) (i j : Nat) (hi : i < n) (hj : j < n) :
    adjGet (symAdj n col) i j = true ↔ SymE n col i j := by
  unfold symAdj adjGet SymE
  simp only [Array.getD_eq_getD_getElem?, Array.getElem?_map, Array.getElem?_range, hi, hj, if_true,
    Option.map_some, Option.getD_some]
  simp only [Bool.and_eq_true, bne_iff_ne, ne_eq, Bool.or_eq_true, List.contains_iff_mem, true_and]

/-- **The symmetric algorithm** (`sp_symetree`) on a structurally symmetric pattern computes the
elimination tree of its graph. -/
theorem symetree_eq_etreeOfGraph (n : Nat) (col : Nat → List Nat)
    (hsym : ∀ i j, i < n → j < n → i ∈ col j → j ∈ col i) :
    symetree n col = etreeOfGraph n (symAdj n col) := by
  unfold symetree
  obtain ⟨s1, l1⟩ := liu_least n col
  obtain ⟨s2, l2⟩ := etreeOfGraph_least (E := SymE n col)
    (fun a b h => ⟨h.2.1, h.1, h.2.2.1.symm, h.2.2.2.symm⟩) (fun a b h => h.2.2.1) n
    (symAdj n col) (symAdj_sq n col) (symAdj_get n col)
  refine array_ext_getD s1 s2 (fun v hv => ?_)
  refine Least.unique (fun i _ _ => ?_) (l1 v hv) (l2 v hv)
  have hse : ∀ a b, SE col n a b ↔ SymE n col a b := by
    intro a b
    unfold SE SymE
    constructor
    · rintro (⟨h1, h2, h3⟩ | ⟨h1, h2, h3⟩)
      · exact ⟨h2, by omega, by omega, Or.inr h3⟩
      · exact ⟨by omega, h2, by omega, Or.inl h3⟩
    · rintro ⟨h1, h2, h3, h4⟩
      rcases Nat.lt_or_gt_of_ne h3 with h | h
      · refine Or.inr ⟨h, h2, ?_⟩
        rcases h4 with h4 | h4
        · exact h4
        · exact hsym b a h2 h1 h4
      · refine Or.inl ⟨h, h1, ?_⟩
        rcases h4 with h4 | h4
        · exact hsym a b h1 h2 h4
        · exact h4
  exact ⟨T.map fun a b => (hse a b).mp, T.map fun a b => (hse a b).mpr⟩

/-- **The first-column trick is correct**: Liu's algorithm on the first-column stars of A gives the same
tree as the symmetric algorithm on the explicitly formed pattern of AᵀA. -/
theorem coletree_eq_symetree_ata (nr nc : Nat) (col : Nat → List Nat)
    (hrow : ∀ c, c < nc → ∀ r ∈ col c, r < nr) :
    coletree nr nc col = symetree nc (ataCol nc col) := by
  rw [coletree_eq_liu]
  unfold symetree
  obtain ⟨s1, l1⟩ := liu_least nc (starNbrs nr nc col)
  obtain ⟨s2, l2⟩ := liu_least nc (ataCol nc col)
  refine array_ext_getD s1 s2 (fun v hv => ?_)
  refine Least.unique (fun i _ _ => ?_) (l1 v hv) (l2 v hv)
  have hse : ∀ a b, SE (ataCol nc col) nc a b ↔ GE nc col a b := by
    intro a b
    unfold SE GE
    simp only [mem_ataCol]
    constructor
    · rintro (⟨h1, h2, h3, h4, k, h5, h6⟩ | ⟨h1, h2, h3, h4, k, h5, h6⟩)
      · exact ⟨h2, h4, h3.symm, k, h6, h5⟩
      · exact ⟨h4, h2, h3, k, h5, h6⟩
    · rintro ⟨h1, h2, h3, k, h4, h5⟩
      rcases Nat.lt_or_gt_of_ne h3 with h | h
      · exact Or.inr ⟨h, h2, h3, h1, k, h4, h5⟩
      · exact Or.inl ⟨h, h1, h3.symm, h2, k, h5, h4⟩
  constructor
  · intro h
    exact T.map (fun a b => (hse a b).mpr) (T.map (GE_of_SE hrow) h)
  · intro h
    exact T_star_of_T_ata hrow (T.map (fun a b => (hse a b).mp) h) (Or.inr (Nat.le_refl _))

theorem firstcol_filter (nr nc : Nat) (col : Nat → List Nat) (r : Nat) (hr : r < nr) :
    firstcol nc (fun c => (col c).filter (· < nr)) r = firstcol nc col r := by
  unfold firstcol
  congr 2
  funext j
  simp [hr]

/-- row indices `≥ nr` are ignored by `sp_coletree` (their `firstcol` is the root marker) -/
theorem coletree_filter (nr nc : Nat) (col : Nat → List Nat) :
    coletree nr nc col = coletree nr nc (fun c => (col c).filter (· < nr)) := by
  rw [coletree_eq_liu, coletree_eq_liu]
  apply liu_congr
  intro a b hba ha
  unfold starNbrs
  simp only [List.mem_map, List.mem_filter, decide_eq_true_eq]
  constructor
  · rintro ⟨r, hr, e⟩
    have hrn : r < nr := by
      by_contra c
      have : ((Array.range nr).map (firstcol nc col)).getD r nc = nc := by
        simp [Array.getD_eq_getD_getElem?, c]
      omega
    refine ⟨r, ⟨hr, hrn⟩, ?_⟩
    rw [← e]
    simp [Array.getD_eq_getD_getElem?, hrn, firstcol_filter nr nc col r hrn]
  · rintro ⟨r, ⟨hr, hrn⟩, e⟩
    refine ⟨r, hr, ?_⟩
    rw [← e]
    simp [Array.getD_eq_getD_getElem?, hrn, firstcol_filter nr nc col r hrn]

/-- **Liu's algorithm computes the column elimination tree, every input**: row indices outside
`0..nr-1` are ignored. -/
theorem coletree_eq_etreeDef_filter (nr nc : Nat) (col : Nat → List Nat) :
    coletree nr nc col = etreeDef nc (fun c => (col c).filter (· < nr)) := by
  rw [coletree_filter]
  apply coletree_eq_etreeDef
  intro c _ r hr
  simpa using (List.mem_filter.mp hr).2

end Slu.Order
