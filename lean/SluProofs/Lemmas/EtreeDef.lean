import Slu.Model.Order
import SluProofs.Lemmas.Order
/-
Liu's elimination-tree algorithm (`liu` / `coletree` / `symetree`, with the concrete union-find and
path halving of sp_coletree.c) computes the tree defined by the elimination game (`etreeOfGraph` /
`etreeDef`).

Parts
* A  the concrete disjoint-set forest: `find` (path halving, fuel = size) returns the representative and
     keeps the partition; `link` merges.
* B  invariant of `liu`: after the columns `< k` the sets are the connected components of the processed
     columns, `root[set]` is the largest column of the component, and `parent` links every former
     component maximum to the column that absorbed it.
* C  walks with small interior vertices (`T E k a b`), the characterisation of both trees as
     "least later vertex reachable through smaller vertices".
* D  the elimination game: fill invariant of `etreeOfGraph`.
* E  first-column stars versus the graph of AᵀA.
-/
namespace Slu.Order

/-! ### Part A: the disjoint-set forest -/

/-- `pp` restricted to the nodes `< k` is a forest whose trees are the classes of `rep`; `dep` is a
ghost height that decreases strictly towards the root (acyclicity). -/
structure UF (pp : Array Nat) (k : Nat) (rep dep : Nat → Nat) : Prop where
  size : k ≤ pp.size
  lt : ∀ i, i < k → pp.getD i 0 < k
  root : ∀ i, i < k → pp.getD i 0 = i → rep i = i
  step : ∀ i, i < k → pp.getD i 0 ≠ i → rep (pp.getD i 0) = rep i ∧ dep (pp.getD i 0) < dep i

/-- the representative is a root of the forest -/
theorem UF.rep_root {pp : Array Nat} {k : Nat} {rep dep : Nat → Nat} (h : UF pp k rep dep) (i : Nat)
    (hi : i < k) : rep i < k ∧ pp.getD (rep i) 0 = rep i ∧ rep (rep i) = rep i := by
  induction hd : dep i using Nat.strong_induction_on generalizing i with
  | _ d ih =>
    by_cases hr : pp.getD i 0 = i
    · have := h.root i hi hr
      rw [this]; exact ⟨hi, hr, this⟩
    · obtain ⟨h1, h2⟩ := h.step i hi hr
      have := ih (dep (pp.getD i 0)) (hd ▸ h2) (pp.getD i 0) (h.lt i hi) rfl
      rwa [h1] at this

theorem nodup_lt_length_le {l : List Nat} {k : Nat} (hn : l.Nodup) (hlt : ∀ x ∈ l, x < k) :
    l.length ≤ k := by
  have hsub : l ⊆ List.range k := fun x hx => List.mem_range.mpr (hlt x hx)
  have := (List.subperm_of_subset hn hsub).length_le
  simpa using this

/-- the loop of `find`: `seen` lists the nodes already visited (all above the current one), which is
what bounds the number of iterations by the number of nodes -/
theorem findLoop_spec {k : Nat} {rep dep : Nat → Nat} :
    ∀ (fuel : Nat) (pp : Array Nat) (i : Nat) (seen : List Nat), UF pp k rep dep → i < k →
      seen.Nodup → (∀ x ∈ seen, x < k ∧ dep i < dep x) → k ≤ seen.length + fuel →
      UF (findLoop fuel pp i).1 k rep dep ∧ (findLoop fuel pp i).2 = rep i ∧
        (findLoop fuel pp i).1.size = pp.size := by
  intro fuel
  induction fuel with
  | zero =>
    intro pp i seen h hi hn hs hl
    exfalso
    have h1 : (i :: seen).Nodup := by
      refine List.nodup_cons.mpr ⟨fun hm => ?_, hn⟩
      have := (hs i hm).2; omega
    have h2 : ∀ x ∈ i :: seen, x < k := by
      intro x hx
      rcases List.mem_cons.mp hx with rfl | hx
      · exact hi
      · exact (hs x hx).1
    have := nodup_lt_length_le h1 h2
    simp at this; omega
  | succ f ih =>
    intro pp i seen h hi hn hs hl
    unfold findLoop
    simp only
    have hp : pp.getD i 0 < k := h.lt i hi
    split
    · rename_i hgp
      refine ⟨h, ?_, rfl⟩
      have hrp := h.root _ hp hgp
      by_cases hr : pp.getD i 0 = i
      · show pp.getD i 0 = rep i
        rw [hr]; exact (h.root i hi hr).symm
      · show pp.getD i 0 = rep i
        rw [← (h.step i hi hr).1, hrp]
    · rename_i hgp
      have hr : pp.getD i 0 ≠ i := by
        intro e; apply hgp; rw [e]; exact e
      obtain ⟨e1, d1⟩ := h.step i hi hr
      obtain ⟨e2, d2⟩ := h.step _ hp hgp
      have hgk : pp.getD (pp.getD i 0) 0 < k := h.lt _ hp
      have h' : UF (pp.setIfInBounds i (pp.getD (pp.getD i 0) 0)) k rep dep := by
        refine ⟨by simpa using h.size, ?_, ?_, ?_⟩
        · intro x hx
          rw [getD_setIfInBounds]
          split
          · exact hgk
          · exact h.lt x hx
        · intro x hx
          rw [getD_setIfInBounds]
          split
          · rename_i hc
            intro e
            rw [hc.1] at e ⊢
            rw [e] at d2; omega
          · exact h.root x hx
        · intro x hx
          rw [getD_setIfInBounds]
          split
          · rename_i hc
            intro _
            rw [hc.1]
            exact ⟨by rw [e2, e1], by omega⟩
          · exact h.step x hx
      have := ih (pp.setIfInBounds i (pp.getD (pp.getD i 0) 0)) (pp.getD (pp.getD i 0) 0) (i :: seen) h' hgk
        (List.nodup_cons.mpr ⟨fun hm => by have := (hs i hm).2; omega, hn⟩)
        (by
          intro x hx
          rcases List.mem_cons.mp hx with rfl | hx
          · exact ⟨hi, by omega⟩
          · exact ⟨(hs x hx).1, by have := (hs x hx).2; omega⟩)
        (by simp only [List.length_cons]; omega)
      refine ⟨this.1, ?_, ?_⟩
      · rw [this.2.1, e2, e1]
      · rw [this.2.2]; simp

/-- **`find` is correct**: on a forest it returns the representative of `i`, and the array it leaves
(path halving) is a forest of the same partition, same representatives. -/
theorem find_spec {pp : Array Nat} {k : Nat} {rep dep : Nat → Nat} (h : UF pp k rep dep) (i : Nat)
    (hi : i < k) :
    UF (find pp i).1 k rep dep ∧ (find pp i).2 = rep i ∧ (find pp i).1.size = pp.size := by
  unfold find
  exact findLoop_spec pp.size pp i [] h hi List.nodup_nil (by simp) (by simpa using h.size)

/-- **`link` merges**: pointing the root `s` at a different root `t` gives a forest whose classes are
the old ones with the classes of `s` and `t` united (representative `t`). -/
theorem UF.link {pp : Array Nat} {k : Nat} {rep dep : Nat → Nat} (h : UF pp k rep dep) (s t : Nat)
    (hs : s < k) (ht : t < k) (hrs : rep s = s) (hrt : rep t = t) (hne : s ≠ t) :
    UF (pp.setIfInBounds s t) k (fun x => if rep x = s then t else rep x)
      (fun x => if rep x = s then dep x + dep t + 1 else dep x) := by
  have hsr : pp.getD s 0 = s := by have := (h.rep_root s hs).2.1; rwa [hrs] at this
  have htr : pp.getD t 0 = t := by have := (h.rep_root t ht).2.1; rwa [hrt] at this
  refine ⟨by simpa using h.size, ?_, ?_, ?_⟩
  · intro x hx
    rw [getD_setIfInBounds]
    split
    · exact ht
    · exact h.lt x hx
  · intro x hx
    rw [getD_setIfInBounds]
    split
    · rename_i hc
      intro e; exfalso; apply hne; rw [← hc.1, e]
    · rename_i hc
      intro e
      have hxs : x ≠ s := by
        intro e'; apply hc; exact ⟨e', Nat.lt_of_lt_of_le hs h.size⟩
      have := h.root x hx e
      simp only [this, hxs, if_false]
  · intro x hx
    rw [getD_setIfInBounds]
    split
    · rename_i hc
      intro _
      rw [hc.1]
      simp only [hrs, hrt, if_true, if_neg (Ne.symm hne)]
      exact ⟨trivial, by omega⟩
    · intro e
      obtain ⟨e1, d1⟩ := h.step x hx e
      simp only [e1]
      refine ⟨trivial, ?_⟩
      split <;> omega

end Slu.Order
