import SluProofs.Lemmas.RefineDenom
import Mathlib.Algebra.BigOperators.Ring.Finset
/-
Dense reading of the stored entry list of a real compressed-column matrix, for the Oettli–Prager reading
of BERR (Props/C13.lean, `berr_is_min_backward_error`): entry `(r,c)` is the sum of the values stored at
`(r,c)`; `(op(A) x)_i` (`opMul`) is the dense row sum over `Finset.range n`; the sum of the stored
magnitudes bounds the magnitude of the entry and equals it when no position is stored twice.
-/
namespace Slu.Gssvx
open Slu Slu.Equil Slu.Lacon Slu.Refine

/-- dense reading of a stored entry list: entry `(r,c)` is the sum of the stored values at `(r,c)` -/
def denseAt (es : List (Entry Rat)) (r c : Nat) : Rat :=
  (es.map fun e => if e.row = r ∧ e.col = c then e.val else 0).sum

/-- entry `(i,j)` of `op(A)` for a real matrix (`A` for `N`, its transpose for `T` and `C`) -/
def opDense (tr : Trans) (es : List (Entry Rat)) (i j : Nat) : Rat :=
  match tr with
  | .N => denseAt es i j
  | _ => denseAt es j i

theorem sum_pick {α : Type} (es : List α) (r c : α → Nat) (v : α → Rat) (x : Nat → Rat) (n i : Nat)
    (h : ∀ e ∈ es, c e < n ∨ x (c e) = 0) :
    ∑ j ∈ Finset.range n, (es.map fun e => if r e = i ∧ c e = j then v e else 0).sum * x j =
      (es.map fun e => if r e = i then v e * x (c e) else 0).sum := by
  induction es with
  | nil => simp
  | cons a t ih =>
    simp only [List.map_cons, List.sum_cons, add_mul, Finset.sum_add_distrib]
    rw [ih (fun e he => h e (List.mem_cons_of_mem _ he))]
    congr 1
    by_cases hr : r a = i
    · simp only [hr, true_and, if_true, ite_mul, zero_mul]
      rw [Finset.sum_ite_eq]
      rcases h a List.mem_cons_self with hc | hc
      · simp [hc]
      · simp [hc]
    · simp [hr]

theorem mem_cscEntries_col {K : Type} [Inhabited K] (A : CSC K) (e : Entry K) (he : e ∈ cscEntries A) : e.col < A.n := by
  unfold cscEntries at he
  obtain ⟨j, hj, he⟩ := List.mem_flatMap.mp he
  obtain ⟨p, _, rfl⟩ := List.mem_map.mp he
  exact List.mem_range.mp hj

/-- `(op(A) x)_i` as the dense row sum -/
theorem opMul_eq_dense (tr : Trans) (es : List (Entry Rat)) (x : Nat → Rat) (n i : Nat)
    (hc : ∀ e ∈ es, e.col < n) (hx : ∀ k, n ≤ k → x k = 0) :
    opMul (opOfTrans tr) es x i = ∑ j ∈ Finset.range n, opDense tr es i j * x j := by
  cases tr
  · exact (sum_pick es Entry.row Entry.col Entry.val x n i (fun e he => Or.inl (hc e he))).symm
  all_goals
    have := sum_pick es Entry.col Entry.row Entry.val x n i
      (fun e _ => (Nat.lt_or_ge (e.row) n).imp id (hx _))
    simp only [opDense, denseAt, and_comm (a := Entry.row _ = _)]
    rw [this]; rfl

theorem getD_zero_of_size_le (x : Array Rat) (n k : Nat) (hx : x.size ≤ n) (hk : n ≤ k) : x.getD k 0 = 0 := by
  simp [Array.getD_eq_getD_getElem?, Array.getElem?_eq_none (Nat.le_trans hx hk)]


theorem mem_absEntries_col (A : CSC Rat) (e : Entry Rat) (he : e ∈ absEntries arithQ A) : e.col < A.n := by
  rw [absEntries_eq] at he
  obtain ⟨e0, he0, rfl⟩ := List.mem_map.mp he
  exact mem_cscEntries_col A e0 he0

theorem abs_denseAt_le (es : List (Entry Rat)) (r c : Nat) :
    |denseAt es r c| ≤ denseAt (es.map fun e => { row := e.row, col := e.col, val := |e.val| }) r c := by
  unfold denseAt
  induction es with
  | nil => simp
  | cons a t ih =>
    simp only [List.map_cons, List.sum_cons]
    refine le_trans (abs_add_le _ _) (add_le_add ?_ ih)
    split <;> simp

/-- no position of the matrix is stored twice -/
def NoDupPos {K : Type} [Inhabited K] (A : CSC K) : Prop :=
  (cscEntries A).Pairwise fun e e' => ¬ (e.row = e'.row ∧ e.col = e'.col)

theorem denseAt_abs_of_pairwise (es : List (Entry Rat))
    (h : es.Pairwise fun e e' => ¬ (e.row = e'.row ∧ e.col = e'.col)) (r c : Nat) :
    denseAt (es.map fun e => { row := e.row, col := e.col, val := |e.val| }) r c = |denseAt es r c| := by
  unfold denseAt
  induction es with
  | nil => simp
  | cons a t ih =>
    obtain ⟨ha, ht⟩ := List.pairwise_cons.mp h
    simp only [List.map_cons, List.sum_cons]
    rw [ih ht]
    by_cases hp : a.row = r ∧ a.col = c
    · have hz : (t.map fun e => if e.row = r ∧ e.col = c then e.val else 0).sum = 0 := by
        apply List.sum_eq_zero
        intro v hv
        obtain ⟨e, he, rfl⟩ := List.mem_map.mp hv
        have := ha e he
        rw [hp.1, hp.2] at this
        rw [if_neg (fun hh => this ⟨hh.1.symm, hh.2.symm⟩)]
      simp [hp, hz]
    · simp [hp]

theorem absEntriesQ_eq (A : CSC Rat) :
    absEntries arithQ A = (cscEntries A).map fun e => { row := e.row, col := e.col, val := |e.val| } := by
  rw [absEntries_eq]
  apply List.map_congr_left
  intro e _
  show Entry.mk e.row e.col (rabs e.val) = _
  rw [rabs_eq_abs]

theorem opDense_abs_le (tr : Trans) (A : CSC Rat) (i j : Nat) :
    |opDense tr (cscEntries A) i j| ≤ opDense tr (absEntries arithQ A) i j := by
  rw [absEntriesQ_eq]
  cases tr <;> exact abs_denseAt_le _ _ _

theorem opDense_abs_eq (tr : Trans) (A : CSC Rat) (h : NoDupPos A) (i j : Nat) :
    opDense tr (absEntries arithQ A) i j = |opDense tr (cscEntries A) i j| := by
  rw [absEntriesQ_eq]
  cases tr <;> exact denseAt_abs_of_pairwise _ h _ _

end Slu.Gssvx
