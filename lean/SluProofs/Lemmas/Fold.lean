import SluProofs.Lemmas.RatBasic
/-
Running-maximum / running-minimum folds, as used by gsequ, langs, pivot search.
-/
namespace Slu

section
variable {α : Type}

/-- `foldl (fun acc e => if p e then max acc (f e) else acc) a es` -/
def foldMaxIf (p : α → Prop) [DecidablePred p] (f : α → Rat) (a : Rat) (es : List α) : Rat :=
  es.foldl (fun acc e => if p e then max acc (f e) else acc) a

theorem foldMaxIf_ge_init (p : α → Prop) [DecidablePred p] (f : α → Rat) (a : Rat) (es : List α) :
    a ≤ foldMaxIf p f a es := by
  induction es generalizing a with
  | nil => simp [foldMaxIf]
  | cons e es ih =>
    simp only [foldMaxIf, List.foldl_cons] at *
    split
    · exact le_trans (le_max_left _ _) (ih _)
    · exact ih _

theorem foldMaxIf_ge_mem (p : α → Prop) [DecidablePred p] (f : α → Rat) (a : Rat) (es : List α)
    (e : α) (he : e ∈ es) (hp : p e) : f e ≤ foldMaxIf p f a es := by
  induction es generalizing a with
  | nil => cases he
  | cons x xs ih =>
    simp only [foldMaxIf, List.foldl_cons]
    rcases List.mem_cons.mp he with rfl | h
    · simp only [hp, if_true]
      exact le_trans (le_max_right _ _) (foldMaxIf_ge_init p f _ xs)
    · exact ih _ h

theorem foldMaxIf_attained (p : α → Prop) [DecidablePred p] (f : α → Rat) (a : Rat) (es : List α) :
    foldMaxIf p f a es = a ∨ ∃ e ∈ es, p e ∧ f e = foldMaxIf p f a es := by
  induction es generalizing a with
  | nil => left; simp [foldMaxIf]
  | cons x xs ih =>
    simp only [foldMaxIf, List.foldl_cons]
    by_cases hp : p x
    · simp only [hp, if_true]
      rcases ih (max a (f x)) with h | ⟨e, he, hpe, hfe⟩
      · simp only [foldMaxIf] at h
        rcases max_choice a (f x) with hm | hm
        · left; rw [h, hm]
        · right; exact ⟨x, List.mem_cons_self, hp, by rw [h, hm]⟩
      · right; exact ⟨e, List.mem_cons_of_mem _ he, hpe, hfe⟩
    · simp only [hp, if_false]
      rcases ih a with h | ⟨e, he, hpe, hfe⟩
      · left; exact h
      · right; exact ⟨e, List.mem_cons_of_mem _ he, hpe, hfe⟩

/-- with a zero start and nonnegative terms: zero iff every selected term is zero -/
theorem foldMaxIf_zero_iff (p : α → Prop) [DecidablePred p] (f : α → Rat) (es : List α)
    (hf : ∀ e, 0 ≤ f e) : foldMaxIf p f 0 es = 0 ↔ ∀ e ∈ es, p e → f e = 0 := by
  constructor
  · intro h e he hp
    have := foldMaxIf_ge_mem p f 0 es e he hp
    rw [h] at this
    exact le_antisymm this (hf e)
  · intro h
    rcases foldMaxIf_attained p f 0 es with h0 | ⟨e, he, hp, hfe⟩
    · exact h0
    · rw [← hfe]; exact h e he hp

/-- running max over `0..k-1` -/
theorem scan_max_ge (g : Nat → Rat) (a : Rat) (k i : Nat) (hi : i < k) :
    g i ≤ (List.range k).foldl (fun acc i => max acc (g i)) a := by
  have := foldMaxIf_ge_mem (fun _ => True) g a (List.range k) i (List.mem_range.mpr hi) trivial
  simpa [foldMaxIf] using this

theorem scan_max_attained (g : Nat → Rat) (a : Rat) (k : Nat) :
    (List.range k).foldl (fun acc i => max acc (g i)) a = a ∨
    ∃ i < k, g i = (List.range k).foldl (fun acc i => max acc (g i)) a := by
  rcases foldMaxIf_attained (fun _ => True) g a (List.range k) with h | ⟨i, hi, _, h⟩
  · left; simpa [foldMaxIf] using h
  · right; exact ⟨i, List.mem_range.mp hi, by simpa [foldMaxIf] using h⟩

theorem scan_min_le (g : Nat → Rat) (a : Rat) (k i : Nat) (hi : i < k) :
    (List.range k).foldl (fun acc i => min acc (g i)) a ≤ g i := by
  suffices h : ∀ (l : List Nat) (a : Rat), i ∈ l → l.foldl (fun acc i => min acc (g i)) a ≤ g i from
    h _ _ (List.mem_range.mpr hi)
  intro l
  have hle : ∀ (l : List Nat) (a : Rat), l.foldl (fun acc i => min acc (g i)) a ≤ a := by
    intro l; induction l with
    | nil => intro a; simp
    | cons x xs ih => intro a; simp only [List.foldl_cons]; exact le_trans (ih _) (min_le_left _ _)
  induction l with
  | nil => intro a h; cases h
  | cons x xs ih =>
    intro a h
    simp only [List.foldl_cons]
    rcases List.mem_cons.mp h with rfl | h
    · exact le_trans (hle _ _) (min_le_right _ _)
    · exact ih _ h

theorem scan_min_le_init (g : Nat → Rat) (a : Rat) (k : Nat) :
    (List.range k).foldl (fun acc i => min acc (g i)) a ≤ a := by
  generalize List.range k = l
  induction l generalizing a with
  | nil => simp
  | cons x xs ih => simp only [List.foldl_cons]; exact le_trans (ih _) (min_le_left _ _)

theorem scan_min_attained (g : Nat → Rat) (a : Rat) (k : Nat) :
    (List.range k).foldl (fun acc i => min acc (g i)) a = a ∨
    ∃ i < k, g i = (List.range k).foldl (fun acc i => min acc (g i)) a := by
  suffices h : ∀ (l : List Nat) (a : Rat), l.foldl (fun acc i => min acc (g i)) a = a ∨
      ∃ i ∈ l, g i = l.foldl (fun acc i => min acc (g i)) a by
    rcases h (List.range k) a with h | ⟨i, hi, h⟩
    · left; exact h
    · right; exact ⟨i, List.mem_range.mp hi, h⟩
  intro l
  induction l with
  | nil => intro a; left; simp
  | cons x xs ih =>
    intro a
    simp only [List.foldl_cons]
    rcases ih (min a (g x)) with h | ⟨i, hi, h⟩
    · rcases min_choice a (g x) with hm | hm
      · left; rw [h, hm]
      · right; exact ⟨x, List.mem_cons_self, by rw [h, hm]⟩
    · right; exact ⟨i, List.mem_cons_of_mem _ hi, h⟩

end
end Slu
