import Slu.Model.MyBlas2
import SluProofs.Lemmas.Trsv
import SluProofs.Lemmas.SnodeUpdate
/-
Exact-arithmetic specification of the mirrored dense kernels of `Slu/Model/MyBlas2.lean`
(`[sdcz]lsolve`, `usolve`, `matvec`, `snode_bmod`), for every `ncol`, `nrow`, `ldm` and both
unrolling schemes (`cplx = false`: 8/4/2 resp. 8/4/1 columns; `cplx = true`: 4/2 resp. 4/1).

Plan.  A block of `w` columns of `lsolve` carries the right-looking invariant `LInv` (columns `< fc`
hold the solution, the rows below hold `rhs - Σ_{j<fc} z_j B(i,j)`) from `fc` to `fc + w`, for EVERY
width `w` (`lsolveBlock_inv`); the `while` loops and the final `if` only choose widths, so the
invariant reaches a column `fc` with `ncol ≤ fc + 1`, where it says that the whole vector is the
solution.  `matvec` likewise with the invariant "`y = y0 + Σ_{j<fc} v_j M(k,j)`".
-/
set_option linter.unusedSectionVars false
set_option linter.unusedVariables false
namespace Slu.MyBlas2
open Finset Slu.Kernels

section folds
variable {K : Type} [Field K] [Inhabited K]

theorem foldl_sub_range_congr (n : Nat) (g g' : Nat → K) (a : K) (h : ∀ j, j < n → g j = g' j) :
    (List.range n).foldl (fun acc j => acc - g j) a = a - ∑ j ∈ range n, g' j := by
  induction n with
  | zero => simp
  | succ n ih =>
    rw [List.range_succ, List.foldl_append, ih (fun j hj => h j (by omega)), Finset.sum_range_succ]
    simp only [List.foldl_cons, List.foldl_nil]
    rw [h n (by omega)]; ring

theorem foldl_add_range_congr (n : Nat) (g g' : Nat → K) (a : K) (h : ∀ j, j < n → g j = g' j) :
    (List.range n).foldl (fun acc j => acc + g j) a = a + ∑ j ∈ range n, g' j := by
  induction n with
  | zero => simp
  | succ n ih =>
    rw [List.range_succ, List.foldl_append, ih (fun j hj => h j (by omega)), Finset.sum_range_succ]
    simp only [List.foldl_cons, List.foldl_nil]
    rw [h n (by omega)]; ring

/-- consecutive stores `a[q + s] = v s`, `s < n` -/
theorem storeRange_spec (n q : Nat) (v : Nat → K) (a : Array K) :
    ((List.range n).foldl (fun (a : Array K) s => a.setIfInBounds (q + s) (v s)) a).size = a.size ∧
    ∀ p, ((List.range n).foldl (fun (a : Array K) s => a.setIfInBounds (q + s) (v s)) a)[p]! =
      if q ≤ p ∧ p < q + n ∧ p < a.size then v (p - q) else a[p]! := by
  induction n with
  | zero => exact ⟨rfl, fun p => by simp only [List.range_zero, List.foldl_nil]; rw [if_neg (by omega)]⟩
  | succ n ih =>
    obtain ⟨h1, h2⟩ := ih
    rw [List.range_succ, List.foldl_append]
    simp only [List.foldl_cons, List.foldl_nil]
    refine ⟨by simp [h1], fun p => ?_⟩
    rw [getElem!_setIfInBounds, h1, h2 p]
    by_cases hp : q + n = p
    · subst hp
      by_cases hs : q + n < a.size
      · rw [if_pos ⟨rfl, hs⟩, if_pos ⟨by omega, by omega, hs⟩]; congr 1; omega
      · rw [if_neg (by omega), if_neg (by omega), if_neg (by omega)]
    · rw [if_neg (by omega)]
      by_cases hc : q ≤ p ∧ p < q + n ∧ p < a.size
      · rw [if_pos hc, if_pos ⟨hc.1, by omega, hc.2.2⟩]
      · rw [if_neg hc, if_neg (by omega)]

theorem getElem!_push_lt (xs : Array K) (v : K) (u : Nat) (h : u < xs.size) : (xs.push v)[u]! = xs[u]! := by
  simp only [Array.getElem!_eq_getD, Array.getD_eq_getD_getElem?, Array.getElem?_push]
  rw [if_neg (by omega)]

theorem getElem!_push_eq (xs : Array K) (v : K) : (xs.push v)[xs.size]! = v := by
  simp [Array.getElem!_eq_getD, Array.getD_eq_getD_getElem?, Array.getElem?_push]

end folds

/-! ### lsolve -/
section lsolve
variable {K : Type} [Field K] [Inhabited K]

/-- frame: the state has the size of the initial array and agrees with it outside the cells
`ro .. ro+ncol-1` of the right-hand side -/
def Frame (rhs : Array K) (ro ncol : Nat) (s : Array K) : Prop :=
  s.size = rhs.size ∧ ∀ p, (p < ro ∨ ro + ncol ≤ p) → s[p]! = rhs[p]!

/-- right-looking invariant after the columns `< fc` -/
def LInv (B : Nat → Nat → K) (z : Nat → K) (rhs : Array K) (ro ncol fc : Nat) (s : Array K) : Prop :=
  Frame rhs ro ncol s ∧ (∀ i, i < fc → i < ncol → s[ro + i]! = z i) ∧
  (∀ i, fc ≤ i → i < ncol → s[ro + i]! = rhs[ro + i]! - ∑ j ∈ range fc, z j * B i j)

theorem lsolveXs_succ (w ldm : Nat) (rd : Array K → Nat → K) (a : Array K) (ro fc : Nat) :
    lsolveXs (w + 1) ldm rd a ro fc = (lsolveXs w ldm rd a ro fc).push
      ((List.range w).foldl (fun (acc : K) t => acc - (lsolveXs w ldm rd a ro fc)[t]! * rd a ((fc + t) * ldm + (fc + w)))
        a[ro + fc + w]!) := by
  simp [lsolveXs, List.range_succ, List.foldl_append]

theorem lsolveXs_spec (w ldm : Nat) (rd : Array K → Nat → K) (s : Array K) (ro fc : Nat) (B : Nat → Nat → K) (z : Nat → K)
    (hrd : ∀ t u, t < u → u < w → rd s ((fc + t) * ldm + (fc + u)) = B (fc + u) (fc + t))
    (hz : ∀ u, u < w → z (fc + u) = s[ro + fc + u]! - ∑ t ∈ range u, z (fc + t) * B (fc + u) (fc + t)) :
    (lsolveXs w ldm rd s ro fc).size = w ∧ ∀ u, u < w → (lsolveXs w ldm rd s ro fc)[u]! = z (fc + u) := by
  induction w with
  | zero => exact ⟨rfl, fun u hu => absurd hu (by omega)⟩
  | succ w ih =>
    obtain ⟨h1, h2⟩ := ih (fun t u htu hu => hrd t u htu (by omega)) (fun u hu => hz u (by omega))
    rw [lsolveXs_succ]
    refine ⟨by simp [h1], fun u hu => ?_⟩
    by_cases huw : u < w
    · rw [getElem!_push_lt _ _ _ (by omega)]; exact h2 u huw
    · have : u = w := by omega
      subst this
      have := getElem!_push_eq (lsolveXs u ldm rd s ro fc)
      rw [h1] at this
      rw [this, foldl_sub_range_congr u _ (fun t => z (fc + t) * B (fc + u) (fc + t)), ← hz u (by omega)]
      intro t ht
      rw [h2 t ht, hrd t u ht (by omega)]

/-- the update loop of a block, `n` iterations -/
def lsolveUpd (w ldm : Nat) (rd : Array K → Nat → K) (xs : Array K) (ro fc : Nat) (a1 : Array K) (n : Nat) : Array K :=
  (List.range n).foldl (fun (a : Array K) d =>
    a.setIfInBounds (ro + (fc + w + d))
      ((List.range w).foldl (fun (acc : K) t => acc - xs[t]! * rd a ((fc + t) * ldm + (fc + w + d)))
        a[ro + (fc + w + d)]!)) a1

theorem lsolveUpd_spec (w ldm ncol : Nat) (rd : Array K → Nat → K) (xs : Array K) (ro fc : Nat) (a1 rhs : Array K)
    (B : Nat → Nat → K) (z : Nat → K) (hb : ro + ncol ≤ rhs.size)
    (hrd : ∀ s, Frame rhs ro ncol s → ∀ i j, j < i → i < ncol → rd s (j * ldm + i) = B i j)
    (hxs : ∀ u, u < w → xs[u]! = z (fc + u)) (hF : Frame rhs ro ncol a1) (n : Nat) (hn : fc + w + n ≤ ncol) :
    Frame rhs ro ncol (lsolveUpd w ldm rd xs ro fc a1 n) ∧
    ∀ i, i < ncol → (lsolveUpd w ldm rd xs ro fc a1 n)[ro + i]! =
      if fc + w ≤ i ∧ i < fc + w + n then a1[ro + i]! - ∑ t ∈ range w, z (fc + t) * B i (fc + t) else a1[ro + i]! := by
  induction n with
  | zero => exact ⟨hF, fun i hi => by rw [if_neg (by omega)]; rfl⟩
  | succ n ih =>
    obtain ⟨⟨f1, f2⟩, g⟩ := ih (by omega)
    have hstep : lsolveUpd w ldm rd xs ro fc a1 (n + 1) =
        (lsolveUpd w ldm rd xs ro fc a1 n).setIfInBounds (ro + (fc + w + n))
          ((List.range w).foldl (fun (acc : K) t => acc - xs[t]! * rd (lsolveUpd w ldm rd xs ro fc a1 n) ((fc + t) * ldm + (fc + w + n)))
            (lsolveUpd w ldm rd xs ro fc a1 n)[ro + (fc + w + n)]!) := by
      simp [lsolveUpd, List.range_succ, List.foldl_append]
    rw [hstep]
    generalize lsolveUpd w ldm rd xs ro fc a1 n = a at f1 f2 g
    refine ⟨⟨by simp [f1], fun p hp => ?_⟩, fun i hi => ?_⟩
    · rw [getElem!_setIfInBounds, if_neg (by omega)]; exact f2 p hp
    · rw [getElem!_setIfInBounds, f1]
      by_cases hin : i = fc + w + n
      · subst hin
        rw [if_pos ⟨rfl, by omega⟩, if_pos ⟨by omega, by omega⟩, g _ hi, if_neg (by omega),
          foldl_sub_range_congr w _ (fun t => z (fc + t) * B (fc + w + n) (fc + t))]
        intro t ht
        rw [hxs t ht, hrd a ⟨f1, f2⟩ (fc + w + n) (fc + t) (by omega) (by omega)]
      · rw [if_neg (by omega), g i hi]
        by_cases hc : fc + w ≤ i ∧ i < fc + w + n
        · rw [if_pos hc, if_pos ⟨hc.1, by omega⟩]
        · rw [if_neg hc, if_neg (by omega)]

theorem lsolveBlock_eq (w ldm ncol : Nat) (rd : Array K → Nat → K) (a : Array K) (ro fc : Nat) :
    lsolveBlock w ldm ncol rd a ro fc = lsolveUpd w ldm rd (lsolveXs w ldm rd a ro fc) ro fc
      ((List.range (w - 1)).foldl (fun (a' : Array K) s => a'.setIfInBounds ((ro + fc + 1) + s)
        (lsolveXs w ldm rd a ro fc)[s + 1]!) a) (ncol - (fc + w)) := by
  unfold lsolveBlock lsolveUpd
  dsimp only
  congr 1
  have : (fun (a' : Array K) s => a'.setIfInBounds (ro + fc + s + 1) (lsolveXs w ldm rd a ro fc)[s + 1]!) =
      (fun (a' : Array K) s => a'.setIfInBounds ((ro + fc + 1) + s) (lsolveXs w ldm rd a ro fc)[s + 1]!) := by
    funext a' s; congr 1; omega
  rw [this]

/-- **one block of any width carries the invariant from `fc` to `fc + w`** -/
theorem lsolveBlock_inv (w ldm ncol : Nat) (rd : Array K → Nat → K) (ro fc : Nat) (rhs : Array K)
    (B : Nat → Nat → K) (z : Nat → K) (hb : ro + ncol ≤ rhs.size)
    (hrd : ∀ s, Frame rhs ro ncol s → ∀ i j, j < i → i < ncol → rd s (j * ldm + i) = B i j)
    (hz : ∀ i, i < ncol → z i = rhs[ro + i]! - ∑ j ∈ range i, z j * B i j)
    (s : Array K) (inv : LInv B z rhs ro ncol fc s) (hw : fc + w ≤ ncol) (hw1 : 1 ≤ w) :
    LInv B z rhs ro ncol (fc + w) (lsolveBlock w ldm ncol rd s ro fc) := by
  obtain ⟨hF, hlo, hhi⟩ := inv
  have hzblk : ∀ u, u < w → z (fc + u) = s[ro + fc + u]! - ∑ t ∈ range u, z (fc + t) * B (fc + u) (fc + t) := by
    intro u hu
    rw [hz _ (by omega), Nat.add_assoc ro fc u, hhi (fc + u) (by omega) (by omega), Finset.sum_range_add, sub_sub]
  obtain ⟨x1, x2⟩ := lsolveXs_spec w ldm rd s ro fc B z
    (fun t u htu hu => hrd s hF (fc + u) (fc + t) (by omega) (by omega)) hzblk
  rw [lsolveBlock_eq]
  generalize lsolveXs w ldm rd s ro fc = xs at x1 x2
  have hst := storeRange_spec (w - 1) (ro + fc + 1) (fun s => xs[s + 1]!) s
  beta_reduce at hst
  obtain ⟨a1s, a1g⟩ := hst
  generalize (List.range (w - 1)).foldl (fun (a' : Array K) s => a'.setIfInBounds ((ro + fc + 1) + s) xs[s + 1]!) s = a1 at a1s a1g
  have hF1 : Frame rhs ro ncol a1 := by
    refine ⟨by rw [a1s]; exact hF.1, fun p hp => ?_⟩
    rw [a1g p, if_neg (by omega)]; exact hF.2 p hp
  obtain ⟨rF, rg⟩ := lsolveUpd_spec w ldm ncol rd xs ro fc a1 rhs B z hb hrd x2 hF1 (ncol - (fc + w)) (by omega)
  refine ⟨rF, fun i hi hin => ?_, fun i hi hin => ?_⟩
  · rw [rg i hin, if_neg (by omega), a1g]
    by_cases hc : fc + 1 ≤ i
    · rw [if_pos ⟨by omega, by omega, by rw [hF.1]; omega⟩, x2 _ (by omega)]; congr 1; omega
    · rw [if_neg (by omega)]
      by_cases hfc : i < fc
      · exact hlo i hfc hin
      · have : i = fc := by omega
        subst this
        rw [hhi i (le_refl _) hin, ← hz i hin]
  · rw [rg i hin, if_pos ⟨hi, by omega⟩, a1g, if_neg (by omega), hhi i (by omega) hin, Finset.sum_range_add, sub_sub]

theorem lsolveWhile_inv (w ldm ncol : Nat) (rd : Array K → Nat → K) (ro : Nat) (rhs : Array K)
    (B : Nat → Nat → K) (z : Nat → K) (hb : ro + ncol ≤ rhs.size)
    (hrd : ∀ s, Frame rhs ro ncol s → ∀ i j, j < i → i < ncol → rd s (j * ldm + i) = B i j)
    (hz : ∀ i, i < ncol → z i = rhs[ro + i]! - ∑ j ∈ range i, z j * B i j) (hw1 : 1 ≤ w) :
    ∀ (fuel : Nat) (st : Array K × Nat), LInv B z rhs ro ncol st.2 st.1 → st.2 ≤ ncol → ncol ≤ fuel + st.2 →
      LInv B z rhs ro ncol (lsolveWhile w ldm ncol rd ro fuel st).2 (lsolveWhile w ldm ncol rd ro fuel st).1 ∧
      (lsolveWhile w ldm ncol rd ro fuel st).2 ≤ ncol ∧ ncol ≤ (lsolveWhile w ldm ncol rd ro fuel st).2 + (w - 1) := by
  intro fuel
  induction fuel with
  | zero => intro st inv h1 h2; exact ⟨inv, h1, by simp only [lsolveWhile]; omega⟩
  | succ fuel ih =>
    intro st inv h1 h2
    rw [lsolveWhile]
    by_cases hc : st.2 + (w - 1) < ncol
    · rw [if_pos hc]
      exact ih (lsolveBlock w ldm ncol rd st.1 ro st.2, st.2 + w)
        (lsolveBlock_inv w ldm ncol rd ro st.2 rhs B z hb hrd hz st.1 inv (by omega) hw1) (by simp only; omega) (by simp only; omega)
    · rw [if_neg hc]; exact ⟨inv, h1, by omega⟩

/-- **`lsolve`, every `ncol`, both unrolling schemes**: the cells `ro .. ro+ncol-1` hold the solution
`z` of the unit lower triangular system, everything else is as before -/
theorem lsolveG_spec (cplx : Bool) (ldm ncol : Nat) (rd : Array K → Nat → K) (ro : Nat) (rhs : Array K)
    (B : Nat → Nat → K) (z : Nat → K) (hb : ro + ncol ≤ rhs.size)
    (hrd : ∀ s, Frame rhs ro ncol s → ∀ i j, j < i → i < ncol → rd s (j * ldm + i) = B i j)
    (hz : ∀ i, i < ncol → z i = rhs[ro + i]! - ∑ j ∈ range i, z j * B i j) :
    (lsolveG cplx ldm ncol rd rhs ro).size = rhs.size ∧
    (∀ i, i < ncol → (lsolveG cplx ldm ncol rd rhs ro)[ro + i]! = z i) ∧
    (∀ p, (p < ro ∨ ro + ncol ≤ p) → (lsolveG cplx ldm ncol rd rhs ro)[p]! = rhs[p]!) := by
  have fin : ∀ (fc : Nat) (s : Array K), LInv B z rhs ro ncol fc s → fc ≤ ncol → ncol ≤ fc + 1 →
      s.size = rhs.size ∧ (∀ i, i < ncol → s[ro + i]! = z i) ∧ (∀ p, (p < ro ∨ ro + ncol ≤ p) → s[p]! = rhs[p]!) := by
    intro fc s inv h1 h2
    refine ⟨inv.1.1, fun i hi => ?_, inv.1.2⟩
    by_cases hfc : i < fc
    · exact inv.2.1 i hfc hi
    · have : i = fc := by omega
      subst this
      rw [inv.2.2 i (le_refl _) hi, ← hz i hi]
  have inv0 : LInv B z rhs ro ncol 0 rhs :=
    ⟨⟨rfl, fun _ _ => rfl⟩, fun i hi => absurd hi (by omega), fun i _ _ => by simp⟩
  have h8 : ∀ st : Array K × Nat, LInv B z rhs ro ncol st.2 st.1 → st.2 ≤ ncol → st.2 = 0 →
      LInv B z rhs ro ncol (if cplx then st else lsolveWhile 8 ldm ncol rd ro ncol st).2
        (if cplx then st else lsolveWhile 8 ldm ncol rd ro ncol st).1 ∧
      (if cplx then st else lsolveWhile 8 ldm ncol rd ro ncol st).2 ≤ ncol := by
    intro st inv h1 h0
    cases cplx with
    | true => exact ⟨inv, h1⟩
    | false =>
      have := lsolveWhile_inv 8 ldm ncol rd ro rhs B z hb hrd hz (by omega) ncol st inv h1 (by omega)
      exact ⟨this.1, this.2.1⟩
  unfold lsolveG
  dsimp only
  obtain ⟨i1, b1⟩ := h8 (rhs, 0) inv0 (Nat.zero_le _) rfl
  generalize (if cplx = true then (rhs, 0) else lsolveWhile 8 ldm ncol rd ro ncol (rhs, 0)) = s1 at i1 b1
  obtain ⟨i2, b2, c2⟩ := lsolveWhile_inv 4 ldm ncol rd ro rhs B z hb hrd hz (by omega) ncol s1 i1 b1 (by omega)
  generalize lsolveWhile 4 ldm ncol rd ro ncol s1 = s2 at i2 b2 c2
  by_cases hc : s2.2 + 1 < ncol
  · rw [if_pos hc]
    exact fin (s2.2 + 2) _ (lsolveBlock_inv 2 ldm ncol rd ro s2.2 rhs B z hb hrd hz s2.1 i2 (by omega) (by omega)) (by omega) (by omega)
  · rw [if_neg hc]
    exact fin s2.2 _ i2 b2 (by omega)

end lsolve

/-! ### matvec -/
section matvec
variable {K : Type} [Field K] [Inhabited K]

theorem mapRange_spec (n : Nat) (F : Nat → K → K) (y : Array K) :
    ((List.range n).foldl (fun (y : Array K) k => y.setIfInBounds k (F k y[k]!)) y).size = y.size ∧
    ∀ p, ((List.range n).foldl (fun (y : Array K) k => y.setIfInBounds k (F k y[k]!)) y)[p]! =
      if p < n ∧ p < y.size then F p y[p]! else y[p]! := by
  induction n with
  | zero => exact ⟨rfl, fun p => by simp only [List.range_zero, List.foldl_nil]; rw [if_neg (by omega)]⟩
  | succ n ih =>
    obtain ⟨h1, h2⟩ := ih
    rw [List.range_succ, List.foldl_append]
    simp only [List.foldl_cons, List.foldl_nil]
    refine ⟨by simp [h1], fun p => ?_⟩
    rw [getElem!_setIfInBounds, h1, h2 p, h2 n, if_neg (show ¬ (n < n ∧ n < y.size) by omega)]
    by_cases hp : n = p
    · subst hp
      by_cases hs : n < y.size
      · rw [if_pos ⟨rfl, hs⟩, if_pos ⟨by omega, hs⟩]
      · rw [if_neg (by omega), if_neg (by omega), if_neg (by omega)]
    · rw [if_neg (by omega)]
      by_cases hc : p < n ∧ p < y.size
      · rw [if_pos hc, if_pos ⟨by omega, hc.2⟩]
      · rw [if_neg hc, if_neg (by omega)]

/-- both shapes of the unrolled statement are `yk + Σ_t v_t m_t` in exact arithmetic -/
theorem matvecCell_eq (cplx : Bool) (w ldm : Nat) (M : Array K) (mo : Nat) (vec : Array K) (vo fc k : Nat) (yk : K)
    (hw : 1 ≤ w) :
    matvecCell cplx w ldm M mo vec vo fc k yk =
      yk + ∑ t ∈ range w, vec[vo + (fc + t)]! * M[mo + ((fc + t) * ldm + k)]! := by
  unfold matvecCell
  cases cplx with
  | true => rw [if_pos rfl, foldl_add_range_congr w _ _ yk (fun _ _ => rfl)]
  | false =>
    rw [if_neg (by simp), foldl_add_range_congr (w - 1) _ _ _ (fun _ _ => rfl)]
    obtain ⟨w', rfl⟩ : ∃ w', w = w' + 1 := ⟨w - 1, by omega⟩
    rw [Finset.sum_range_succ' _ w']
    simp only [Nat.add_sub_cancel, Nat.add_zero]
    ring

/-- invariant of `matvec` after the columns `< fc` -/
def MInv (M : Array K) (mo ldm : Nat) (vec : Array K) (vo nrow : Nat) (y0 : Array K) (fc : Nat) (y : Array K) : Prop :=
  y.size = y0.size ∧ (∀ k, k < nrow → y[k]! = y0[k]! + ∑ j ∈ range fc, vec[vo + j]! * M[mo + (j * ldm + k)]!) ∧
  (∀ p, nrow ≤ p → y[p]! = y0[p]!)

theorem matvecBlock_inv (cplx : Bool) (w ldm nrow : Nat) (M : Array K) (mo : Nat) (vec : Array K) (vo fc : Nat)
    (y0 y : Array K) (hb : nrow ≤ y0.size) (hw : 1 ≤ w) (inv : MInv M mo ldm vec vo nrow y0 fc y) :
    MInv M mo ldm vec vo nrow y0 (fc + w) (matvecBlock cplx w ldm nrow M mo vec vo fc y) := by
  obtain ⟨h1, h2, h3⟩ := inv
  obtain ⟨g1, g2⟩ := mapRange_spec nrow (fun k yk => matvecCell cplx w ldm M mo vec vo fc k yk) y
  unfold matvecBlock
  refine ⟨by rw [g1, h1], fun k hk => ?_, fun p hp => ?_⟩
  · rw [g2 k, if_pos ⟨hk, by omega⟩]
    rw [matvecCell_eq cplx w ldm M mo vec vo fc k _ hw, h2 k hk, Finset.sum_range_add, add_assoc]
  · rw [g2 p, if_neg (by omega)]; exact h3 p hp

theorem matvecWhile_inv (cplx : Bool) (w ldm nrow ncol : Nat) (M : Array K) (mo : Nat) (vec : Array K) (vo : Nat)
    (y0 : Array K) (hb : nrow ≤ y0.size) (hw : 1 ≤ w) :
    ∀ (fuel : Nat) (st : Array K × Nat), MInv M mo ldm vec vo nrow y0 st.2 st.1 → st.2 ≤ ncol → ncol ≤ fuel + st.2 →
      MInv M mo ldm vec vo nrow y0 (matvecWhile cplx w ldm nrow ncol M mo vec vo fuel st).2
        (matvecWhile cplx w ldm nrow ncol M mo vec vo fuel st).1 ∧
      (matvecWhile cplx w ldm nrow ncol M mo vec vo fuel st).2 ≤ ncol ∧
      ncol ≤ (matvecWhile cplx w ldm nrow ncol M mo vec vo fuel st).2 + (w - 1) := by
  intro fuel
  induction fuel with
  | zero => intro st inv h1 h2; exact ⟨inv, h1, by simp only [matvecWhile]; omega⟩
  | succ fuel ih =>
    intro st inv h1 h2
    rw [matvecWhile]
    by_cases hc : st.2 + (w - 1) < ncol
    · rw [if_pos hc]
      exact ih (matvecBlock cplx w ldm nrow M mo vec vo st.2 st.1, st.2 + w)
        (matvecBlock_inv cplx w ldm nrow M mo vec vo st.2 y0 st.1 hb hw inv) (by simp only; omega) (by simp only; omega)
    · rw [if_neg hc]; exact ⟨inv, h1, by omega⟩

/-- **`matvec`, every `nrow`, `ncol`, `ldm`, both unrolling schemes**:
`Mxvec_out[k] = Mxvec_in[k] + Σ_j vec[j] · M(k,j)`; nothing else is written -/
theorem matvec_spec' (cplx : Bool) (ldm nrow ncol : Nat) (M : Array K) (mo : Nat) (vec : Array K) (vo : Nat) (y : Array K)
    (hb : nrow ≤ y.size) :
    (matvec cplx ldm nrow ncol M mo vec vo y).size = y.size ∧
    (∀ k, k < nrow → (matvec cplx ldm nrow ncol M mo vec vo y)[k]! =
      y[k]! + ∑ j ∈ range ncol, vec[vo + j]! * M[mo + (j * ldm + k)]!) ∧
    (∀ p, nrow ≤ p → (matvec cplx ldm nrow ncol M mo vec vo y)[p]! = y[p]!) := by
  have inv0 : MInv M mo ldm vec vo nrow y 0 y := ⟨rfl, fun k _ => by simp, fun _ _ => rfl⟩
  have h8 : ∀ st : Array K × Nat, MInv M mo ldm vec vo nrow y st.2 st.1 → st.2 ≤ ncol → st.2 = 0 →
      MInv M mo ldm vec vo nrow y (if cplx then st else matvecWhile cplx 8 ldm nrow ncol M mo vec vo ncol st).2
        (if cplx then st else matvecWhile cplx 8 ldm nrow ncol M mo vec vo ncol st).1 ∧
      (if cplx then st else matvecWhile cplx 8 ldm nrow ncol M mo vec vo ncol st).2 ≤ ncol := by
    intro st inv h1 h0
    cases cplx with
    | true => exact ⟨inv, h1⟩
    | false =>
      have := matvecWhile_inv false 8 ldm nrow ncol M mo vec vo y hb (by omega) ncol st inv h1 (by omega)
      exact ⟨this.1, this.2.1⟩
  unfold matvec
  dsimp only
  obtain ⟨i1, b1⟩ := h8 (y, 0) inv0 (Nat.zero_le _) rfl
  generalize (if cplx = true then (y, 0) else matvecWhile cplx 8 ldm nrow ncol M mo vec vo ncol (y, 0)) = s1 at i1 b1
  obtain ⟨i2, b2, _⟩ := matvecWhile_inv cplx 4 ldm nrow ncol M mo vec vo y hb (by omega) ncol s1 i1 b1 (by omega)
  generalize matvecWhile cplx 4 ldm nrow ncol M mo vec vo ncol s1 = s2 at i2 b2
  obtain ⟨i3, b3, c3⟩ := matvecWhile_inv cplx 1 ldm nrow ncol M mo vec vo y hb (by omega) ncol s2 i2 b2 (by omega)
  generalize matvecWhile cplx 1 ldm nrow ncol M mo vec vo ncol s2 = s3 at i3 b3 c3
  have : s3.2 = ncol := by omega
  rw [this] at i3
  exact i3

end matvec

/-! ### usolve -/
section usolve
variable {K : Type} [Field K] [Inhabited K] [Conj K]

/-- the mirrored `usolve` IS the column-oriented back substitution `usolveTo` of Lemmas/Trsv.lean
(the diagonal-block step of the modelled `sp_trsv`), read off the array `M` with stride `ldm` -/
theorem usolve_eq_usolveTo (ldm ncol : Nat) (M : Array K) (mo : Nat) (rhs : Array K) (ro : Nat) :
    usolve ldm ncol M mo rhs ro =
      usolveTo (fun ir jc => M[mo + (ir + jc * ldm)]!) (fun jc v => v / M[mo + (jc + jc * ldm)]!) ro ncol rhs ncol := rfl

theorem usolve_spec' (ldm ncol : Nat) (M : Array K) (mo : Nat) (rhs : Array K) (ro : Nat) (hb : ro + ncol ≤ rhs.size)
    (z : Nat → K)
    (hz : ∀ i, i < ncol → z i = (rhs[ro + i]! - ∑ j ∈ Ico (i + 1) ncol, z j * M[mo + (i + j * ldm)]!) / M[mo + (i + i * ldm)]!) :
    (usolve ldm ncol M mo rhs ro).size = rhs.size ∧
    (∀ i, i < ncol → (usolve ldm ncol M mo rhs ro)[ro + i]! = z i) ∧
    (∀ p, (p < ro ∨ ro + ncol ≤ p) → (usolve ldm ncol M mo rhs ro)[p]! = rhs[p]!) := by
  rw [usolve_eq_usolveTo]
  obtain ⟨h1, h2, h3⟩ := usolveTo_spec (fun ir jc => M[mo + (ir + jc * ldm)]!) (fun jc v => v / M[mo + (jc + jc * ldm)]!)
    ro ncol rhs hb z hz ncol (le_refl _)
  refine ⟨h1, fun i hi => ?_, h3⟩
  rw [h2 i hi, if_pos (by omega)]

end usolve
/-! ### snode_bmod -/
section snode
variable {K : Type} [Field K] [Inhabited K]

theorem snodeScatter_succ (lsub : Array Nat) (istart n nextlu : Nat) (lusup dense : Array K) :
    snodeScatter lsub istart (n + 1) nextlu lusup dense =
      ((snodeScatter lsub istart n nextlu lusup dense).1.setIfInBounds (nextlu + n)
          (snodeScatter lsub istart n nextlu lusup dense).2[lsub[istart + n]!]!,
       (snodeScatter lsub istart n nextlu lusup dense).2.setIfInBounds lsub[istart + n]! 0) := by
  simp [snodeScatter, List.range_succ, List.foldl_append]

/-- the copy loop of `snode_bmod`: `lusup[nextlu + t] = dense[row t]`, `dense[row t] = 0` -/
theorem snodeScatter_spec (lsub : Array Nat) (istart nsupr nextlu : Nat) (lusup dense : Array K)
    (hinj : ∀ t u, t < nsupr → u < nsupr → lsub[istart + t]! = lsub[istart + u]! → t = u)
    (hrow : ∀ t, t < nsupr → lsub[istart + t]! < dense.size) (n : Nat) (hn : n ≤ nsupr) :
    (snodeScatter lsub istart n nextlu lusup dense).1.size = lusup.size ∧
    (snodeScatter lsub istart n nextlu lusup dense).2.size = dense.size ∧
    (∀ q, (snodeScatter lsub istart n nextlu lusup dense).1[q]! =
      if nextlu ≤ q ∧ q < nextlu + n ∧ q < lusup.size then dense[lsub[istart + (q - nextlu)]!]! else lusup[q]!) ∧
    (∀ t, t < n → (snodeScatter lsub istart n nextlu lusup dense).2[lsub[istart + t]!]! = 0) ∧
    (∀ r, (∀ t, t < n → lsub[istart + t]! ≠ r) → (snodeScatter lsub istart n nextlu lusup dense).2[r]! = dense[r]!) := by
  induction n with
  | zero =>
    refine ⟨rfl, rfl, fun q => ?_, fun t ht => absurd ht (by omega), fun r _ => rfl⟩
    rw [if_neg (by omega)]; rfl
  | succ n ih =>
    obtain ⟨h1, h2, h3, h4, h5⟩ := ih (by omega)
    rw [snodeScatter_succ]
    generalize snodeScatter lsub istart n nextlu lusup dense = p at h1 h2 h3 h4 h5
    have hread : p.2[lsub[istart + n]!]! = dense[lsub[istart + n]!]! :=
      h5 _ (fun t ht he => by have := hinj t n (by omega) (by omega) he; omega)
    refine ⟨by simp [h1], by simp [h2], fun q => ?_, fun t ht => ?_, fun r hr => ?_⟩
    · simp only
      rw [getElem!_setIfInBounds, h1, h3 q, hread]
      by_cases hq : nextlu + n = q
      · subst hq
        by_cases hs : nextlu + n < lusup.size
        · rw [if_pos ⟨rfl, hs⟩, if_pos ⟨by omega, by omega, hs⟩]
          congr 3; omega
        · rw [if_neg (by omega), if_neg (by omega), if_neg (by omega)]
      · rw [if_neg (by omega)]
        by_cases hc : nextlu ≤ q ∧ q < nextlu + n ∧ q < lusup.size
        · rw [if_pos hc, if_pos ⟨hc.1, by omega, hc.2.2⟩]
        · rw [if_neg hc, if_neg (by omega)]
    · simp only
      rw [getElem!_setIfInBounds, h2]
      by_cases he : lsub[istart + n]! = lsub[istart + t]!
      · rw [if_pos ⟨he, hrow n (by omega)⟩]
      · rw [if_neg (fun h => he h.1)]
        exact h4 t (by have : t ≠ n := fun h => he (by rw [h]); omega)
    · simp only
      rw [getElem!_setIfInBounds, if_neg (fun h => hr n (by omega) h.1)]
      exact h5 r (fun t ht => hr t (by omega))

theorem snodeUnload_succ (iptr n : Nat) (lusup tempv : Array K) :
    snodeUnload iptr (n + 1) lusup tempv =
      ((snodeUnload iptr n lusup tempv).1.setIfInBounds (iptr + n)
          ((snodeUnload iptr n lusup tempv).1[iptr + n]! - (snodeUnload iptr n lusup tempv).2[n]!),
       (snodeUnload iptr n lusup tempv).2.setIfInBounds n 0) := by
  simp [snodeUnload, List.range_succ, List.foldl_append]

/-- the loop `lusup[iptr++] -= tempv[i]; tempv[i] = 0` -/
theorem snodeUnload_spec (iptr : Nat) (lusup tempv : Array K) (n : Nat) :
    (snodeUnload iptr n lusup tempv).1.size = lusup.size ∧ (snodeUnload iptr n lusup tempv).2.size = tempv.size ∧
    (∀ p, (snodeUnload iptr n lusup tempv).1[p]! =
      if iptr ≤ p ∧ p < iptr + n ∧ p < lusup.size then lusup[p]! - tempv[p - iptr]! else lusup[p]!) ∧
    (∀ i, (snodeUnload iptr n lusup tempv).2[i]! = if i < n ∧ i < tempv.size then 0 else tempv[i]!) := by
  induction n with
  | zero =>
    refine ⟨rfl, rfl, fun p => ?_, fun i => ?_⟩
    · rw [if_neg (by omega)]; rfl
    · rw [if_neg (by omega)]; rfl
  | succ n ih =>
    obtain ⟨h1, h2, h3, h4⟩ := ih
    rw [snodeUnload_succ]
    generalize snodeUnload iptr n lusup tempv = q at h1 h2 h3 h4
    refine ⟨by simp [h1], by simp [h2], fun p => ?_, fun i => ?_⟩
    · simp only
      rw [getElem!_setIfInBounds, h1, h3 p, h3 (iptr + n), if_neg (show ¬ (iptr ≤ iptr + n ∧ iptr + n < iptr + n ∧ iptr + n < lusup.size) by omega),
        h4 n, if_neg (show ¬ (n < n ∧ n < tempv.size) by omega)]
      by_cases hp : iptr + n = p
      · subst hp
        by_cases hs : iptr + n < lusup.size
        · rw [if_pos ⟨rfl, hs⟩, if_pos ⟨by omega, by omega, hs⟩]
          congr 3; omega
        · rw [if_neg (by omega), if_neg (by omega), if_neg (by omega)]
      · rw [if_neg (by omega)]
        by_cases hc : iptr ≤ p ∧ p < iptr + n ∧ p < lusup.size
        · rw [if_pos hc, if_pos ⟨hc.1, by omega, hc.2.2⟩]
        · rw [if_neg hc, if_neg (by omega)]
    · simp only
      rw [getElem!_setIfInBounds, h2, h4 i]
      by_cases hi : n = i
      · subst hi
        by_cases hs : n < tempv.size
        · rw [if_pos ⟨rfl, hs⟩, if_pos ⟨by omega, hs⟩]
        · rw [if_neg (by omega), if_neg (by omega), if_neg (by omega)]
      · rw [if_neg (by omega)]
        by_cases hc : i < n ∧ i < tempv.size
        · rw [if_pos hc, if_pos ⟨by omega, hc.2⟩]
        · rw [if_neg hc, if_neg (by omega)]

theorem idx_lt (j i nsupc nsupr : Nat) (hj : j < nsupc) (hi : i < nsupr) : j * nsupr + i < nsupc * nsupr :=
  calc j * nsupr + i < j * nsupr + nsupr := by omega
    _ = (j + 1) * nsupr := by ring
    _ ≤ nsupc * nsupr := Nat.mul_le_mul_right _ (by omega)

/-- **`snode_bmod`, exact arithmetic.**  Geometry of one relaxed supernode `fsupc..jcol` whose
columns `fsupc..jcol-1` are stored (`nsupr` rows each, leading dimension `nsupr`) before column
`jcol`: distinct in-range row subscripts, room for the column, `tempv` zero on `0..nrow-1`. -/
theorem snodeBmod_spec' (cplx : Bool) (jcol fsupc : Nat) (lsub xlsub : Array Nat) (st : SnodeSt K)
    (istart nsupr ufirst luptr nsupc : Nat)
    (e1 : istart = xlsub[fsupc]!) (e2 : nsupr = xlsub[fsupc + 1]! - istart)
    (e3 : ufirst = st.xlusup[jcol]!) (e4 : luptr = st.xlusup[fsupc]!) (e5 : nsupc = jcol - fsupc)
    (hle : fsupc ≤ jcol)
    (hinj : ∀ t u, t < nsupr → u < nsupr → lsub[istart + t]! = lsub[istart + u]! → t = u)
    (hrow : ∀ t, t < nsupr → lsub[istart + t]! < st.dense.size)
    (hcol : ufirst + nsupr ≤ st.lusup.size) (hwid : nsupc ≤ nsupr)
    (hbefore : luptr + nsupc * nsupr ≤ ufirst)
    (htv : nsupr - nsupc ≤ st.tempv.size) (htz : ∀ i, i < nsupr - nsupc → st.tempv[i]! = 0)
    (z : Nat → K)
    (hz : ∀ i, i < nsupc → z i = st.dense[lsub[istart + i]!]! - ∑ j ∈ range i, z j * st.lusup[luptr + (j * nsupr + i)]!) :
    (snodeBmod cplx jcol fsupc lsub xlsub st).lusup.size = st.lusup.size ∧
    (∀ t, t < nsupc → (snodeBmod cplx jcol fsupc lsub xlsub st).lusup[ufirst + t]! = z t) ∧
    (∀ i, nsupc ≤ i → i < nsupr → (snodeBmod cplx jcol fsupc lsub xlsub st).lusup[ufirst + i]! =
      st.dense[lsub[istart + i]!]! - ∑ r ∈ range nsupc, st.lusup[luptr + (r * nsupr + i)]! * z r) ∧
    (∀ p, (p < ufirst ∨ ufirst + nsupr ≤ p) → (snodeBmod cplx jcol fsupc lsub xlsub st).lusup[p]! = st.lusup[p]!) ∧
    (snodeBmod cplx jcol fsupc lsub xlsub st).dense.size = st.dense.size ∧
    (∀ t, t < nsupr → (snodeBmod cplx jcol fsupc lsub xlsub st).dense[lsub[istart + t]!]! = 0) ∧
    (∀ r, (∀ t, t < nsupr → lsub[istart + t]! ≠ r) → (snodeBmod cplx jcol fsupc lsub xlsub st).dense[r]! = st.dense[r]!) ∧
    (snodeBmod cplx jcol fsupc lsub xlsub st).tempv.size = st.tempv.size ∧
    (∀ i : Nat, (snodeBmod cplx jcol fsupc lsub xlsub st).tempv[i]! = st.tempv[i]!) ∧
    (snodeBmod cplx jcol fsupc lsub xlsub st).xlusup = st.xlusup.setIfInBounds (jcol + 1) (ufirst + nsupr) := by
  have hX : ∀ v : Nat, (st.xlusup.setIfInBounds (jcol + 1) v)[fsupc]! = st.xlusup[fsupc]! ∧
      (st.xlusup.setIfInBounds (jcol + 1) v)[jcol]! = st.xlusup[jcol]! := by
    intro v
    constructor <;> rw [getElem!_setIfInBounds, if_neg (by omega)]
  obtain ⟨s1, s2, s3, s4, s5⟩ := snodeScatter_spec lsub istart nsupr ufirst st.lusup st.dense hinj hrow nsupr (le_refl _)
  have hcell : ∀ i, i < nsupr → (snodeScatter lsub istart nsupr ufirst st.lusup st.dense).1[ufirst + i]! = st.dense[lsub[istart + i]!]! := by
    intro i hi
    rw [s3, if_pos ⟨by omega, by omega, by omega⟩, Nat.add_sub_cancel_left]
  have hout : ∀ p, (p < ufirst ∨ ufirst + nsupr ≤ p) → (snodeScatter lsub istart nsupr ufirst st.lusup st.dense).1[p]! = st.lusup[p]! := by
    intro p hp
    rw [s3, if_neg (by omega)]
  unfold snodeBmod
  dsimp only
  rw [(hX _).1, (hX _).2, ← e1, ← e2, ← e3, ← e4, ← e5]
  generalize snodeScatter lsub istart nsupr ufirst st.lusup st.dense = P at s1 s2 s3 s4 s5 hcell hout
  by_cases hlt : fsupc < jcol
  · rw [if_pos hlt]
    dsimp only
    -- the triangular solve
    obtain ⟨l1, l2, l3⟩ := lsolveG_spec cplx nsupr nsupc (fun s i => s[luptr + i]!) ufirst P.1
      (fun i j => st.lusup[luptr + (j * nsupr + i)]!) z (by omega)
      (fun s hs i j hji hi => by
        have hlt := idx_lt j i nsupc nsupr (by omega) (by omega)
        rw [hs.2 _ (Or.inl (by omega)), hout _ (Or.inl (by omega))])
      (fun i hi => by rw [hcell i (by omega)]; exact hz i hi)
    have hA : lsolveA cplx nsupr nsupc P.1 luptr ufirst = lsolveG cplx nsupr nsupc (fun s i => s[luptr + i]!) P.1 ufirst := rfl
    rw [hA]
    generalize lsolveG cplx nsupr nsupc (fun s i => s[luptr + i]!) P.1 ufirst = L1 at l1 l2 l3
    -- the matrix-vector product
    obtain ⟨m1, m2, m3⟩ := matvec_spec' cplx nsupr (nsupr - nsupc) nsupc L1 (luptr + nsupc) L1 ufirst st.tempv htv
    have m2' : ∀ k, k < nsupr - nsupc → (matvec cplx nsupr (nsupr - nsupc) nsupc L1 (luptr + nsupc) L1 ufirst st.tempv)[k]! =
        ∑ r ∈ range nsupc, st.lusup[luptr + (r * nsupr + (nsupc + k))]! * z r := by
      intro k hk
      rw [m2 k hk, htz k hk, zero_add]
      apply Finset.sum_congr rfl
      intro r hr
      have hr' := mem_range.mp hr
      have hlt := idx_lt r (nsupc + k) nsupc nsupr hr' (by omega)
      have e : luptr + nsupc + (r * nsupr + k) = luptr + (r * nsupr + (nsupc + k)) := by omega
      rw [l2 r hr', e, l3 _ (Or.inl (by omega)), hout _ (Or.inl (by omega)), mul_comm]
    generalize matvec cplx nsupr (nsupr - nsupc) nsupc L1 (luptr + nsupc) L1 ufirst st.tempv = T1 at m1 m2 m3 m2'
    obtain ⟨u1, u2, u3, u4⟩ := snodeUnload_spec (ufirst + nsupc) L1 T1 (nsupr - nsupc)
    generalize snodeUnload (ufirst + nsupc) (nsupr - nsupc) L1 T1 = Q at u1 u2 u3 u4
    refine ⟨by rw [u1, l1, s1], fun t ht => ?_, fun i hi hin => ?_, fun p hp => ?_, s2, s4, s5, by rw [u2, m1], fun i => ?_, rfl⟩
    · rw [u3, if_neg (by omega)]; exact l2 t ht
    · rw [u3, if_pos ⟨by omega, by omega, by omega⟩, l3 _ (Or.inr (by omega)), hcell i hin,
        show ufirst + i - (ufirst + nsupc) = i - nsupc by omega, m2' _ (by omega),
        show nsupc + (i - nsupc) = i by omega]
    · rw [u3, if_neg (by omega), l3 p (by omega), hout p hp]
    · rw [u4]
      by_cases hc : i < nsupr - nsupc ∧ i < T1.size
      · rw [if_pos hc, htz i hc.1]
      · rw [if_neg hc]
        by_cases hi : i < nsupr - nsupc
        · have : T1.size ≤ i := by omega
          simp only [Array.getElem!_eq_getD, Array.getD_eq_getD_getElem?]
          rw [Array.getElem?_eq_none this, Array.getElem?_eq_none (by omega)]
        · exact m3 i (by omega)
  · rw [if_neg hlt]
    dsimp only
    have h0 : nsupc = 0 := by omega
    subst h0
    refine ⟨s1, fun t ht => absurd ht (by omega), fun i _ hin => ?_, hout, s2, s4, s5, rfl, fun _ => rfl, rfl⟩
    rw [hcell i hin]; simp

end snode
/-! ### link to the abstract supernodal block update of Lemmas/SnodeUpdate.lean -/
section sched
open Slu.LU
variable {K : Type} [Field K] [Inhabited K]

theorem dotL_eq_sum (us : List K) (Ls : List (Nat × Vec K)) (i : Nat) (h : us.length = Ls.length) :
    dotL us Ls i = ∑ r ∈ range Ls.length, us.getD r 0 * (Ls.getD r (0, #[])).2.get i := by
  induction Ls generalizing us with
  | nil => cases us with
    | nil => simp
    | cons _ _ => simp at h
  | cons pl Ls ih =>
    cases us with
    | nil => simp at h
    | cons u us =>
      rw [dotL_cons, ih us (by simpa using h), List.length_cons, Finset.sum_range_succ']
      simp [add_comm]

theorem unitLower_of_index (cols : List (Nat × Vec K))
    (h1 : ∀ t (ht : t < cols.length), (cols[t]).2.get (cols[t]).1 = 1)
    (h0 : ∀ r t (hr : r < t) (ht : t < cols.length), (cols[t]).2.get (cols[r]).1 = 0) : UnitLower cols := by
  induction cols with
  | nil => trivial
  | cons pl rest ih =>
    obtain ⟨p, l⟩ := pl
    refine ⟨h1 0 (by simp), fun x hx => ?_, ih (fun t ht => h1 (t + 1) (by simpa using ht))
      (fun r t hr ht => h0 (r + 1) (t + 1) (by omega) (by simpa using ht))⟩
    obtain ⟨k, hk, rfl⟩ := List.getElem_of_mem hx
    exact h0 0 (k + 1) (by omega) (by simpa using hk)

/-- the entries of the abstract columns on the rows of the supernode, as sums over the storage -/
theorem dotL_storage (cols : List (Nat × Vec K)) (us : List K) (hus : us.length = cols.length)
    (lsub : Array Nat) (istart nsupr luptr : Nat) (lusup : Array K)
    (R2 : ∀ t (ht : t < cols.length) i, i < nsupr → (cols[t]).2.get (lsub[istart + i]!) =
        if i < t then 0 else if i = t then 1 else lusup[luptr + (t * nsupr + i)]!)
    (i : Nat) (hi : i < nsupr) :
    dotL us cols (lsub[istart + i]!) =
      ∑ r ∈ range cols.length, us.getD r 0 * (if i < r then 0 else if i = r then 1 else lusup[luptr + (r * nsupr + i)]!) := by
  rw [dotL_eq_sum us cols _ hus]
  apply Finset.sum_congr rfl
  intro r hr
  have hr' := mem_range.mp hr
  have : cols.getD r (0, #[]) = cols[r] := by simp [List.getD, hr']
  rw [this, R2 r hr' i hi]

theorem sum_tri (n t : Nat) (ht : t < n) (u L : Nat → K) :
    ∑ r ∈ range n, u r * (if t < r then 0 else if t = r then 1 else L r) = ∑ r ∈ range t, u r * L r + u t := by
  obtain ⟨m, rfl⟩ : ∃ m, n = t + 1 + m := ⟨n - t - 1, by omega⟩
  rw [Finset.sum_range_add, Finset.sum_range_succ]
  have h2 : ∑ x ∈ range m, u (t + 1 + x) * (if t < t + 1 + x then 0 else if t = t + 1 + x then 1 else L (t + 1 + x)) = 0 := by
    apply Finset.sum_eq_zero
    intro x _
    rw [if_pos (by omega), mul_zero]
  have h1 : ∑ r ∈ range t, u r * (if t < r then 0 else if t = r then 1 else L r) = ∑ r ∈ range t, u r * L r := by
    apply Finset.sum_congr rfl
    intro r hr
    have := mem_range.mp hr
    rw [if_neg (by omega), if_neg (by omega)]
  rw [h1, h2, if_neg (by omega), if_pos rfl, mul_one, add_zero]

theorem sum_below (n i : Nat) (hi : n ≤ i) (u L : Nat → K) :
    ∑ r ∈ range n, u r * (if i < r then 0 else if i = r then 1 else L r) = ∑ r ∈ range n, u r * L r := by
  apply Finset.sum_congr rfl
  intro r hr
  have := mem_range.mp hr
  rw [if_neg (by omega), if_neg (by omega)]

/-- **`snode_bmod` instantiates the abstract "dense solve + gemv" step.**  `cols` are the finished
columns of the supernode as the factorization model sees them (pivot row, column of L as a vector
over all rows); they agree with the storage on the rows of the supernode: zero above the pivot, one
at the pivot, the stored multipliers below.  Then the U-segment written by the mirrored
`lsolve` is `snodeSolve cols dense` and the cells below hold `snodeGemv cols us dense` at their rows. -/
theorem snodeBmod_eq_snodeBlock' (cplx : Bool) (jcol fsupc : Nat) (lsub xlsub : Array Nat) (st : SnodeSt K)
    (istart nsupr ufirst luptr nsupc : Nat)
    (e1 : istart = xlsub[fsupc]!) (e2 : nsupr = xlsub[fsupc + 1]! - istart)
    (e3 : ufirst = st.xlusup[jcol]!) (e4 : luptr = st.xlusup[fsupc]!) (e5 : nsupc = jcol - fsupc)
    (hle : fsupc ≤ jcol)
    (hinj : ∀ t u, t < nsupr → u < nsupr → lsub[istart + t]! = lsub[istart + u]! → t = u)
    (hrow : ∀ t, t < nsupr → lsub[istart + t]! < st.dense.size)
    (hcol : ufirst + nsupr ≤ st.lusup.size) (hwid : nsupc ≤ nsupr)
    (hbefore : luptr + nsupc * nsupr ≤ ufirst)
    (htv : nsupr - nsupc ≤ st.tempv.size) (htz : ∀ i, i < nsupr - nsupc → st.tempv[i]! = 0)
    (cols : List (Nat × Vec K)) (hlen : cols.length = nsupc)
    (R1 : ∀ t (ht : t < cols.length), (cols[t]).1 = lsub[istart + t]!)
    (R2 : ∀ t (ht : t < cols.length) i, i < nsupr → (cols[t]).2.get (lsub[istart + i]!) =
        if i < t then 0 else if i = t then 1 else st.lusup[luptr + (t * nsupr + i)]!) :
    UnitLower cols ∧ (∀ x ∈ cols, x.1 < st.dense.size) ∧
    (∀ t, t < nsupc → (snodeBmod cplx jcol fsupc lsub xlsub st).lusup[ufirst + t]! = (snodeSolve cols st.dense).getD t 0) ∧
    (∀ i, nsupc ≤ i → i < nsupr → (snodeBmod cplx jcol fsupc lsub xlsub st).lusup[ufirst + i]! =
      (snodeGemv cols (snodeSolve cols st.dense) st.dense).get (lsub[istart + i]!)) := by
  have hr : ∀ x ∈ cols, x.1 < st.dense.size := by
    intro x hx
    obtain ⟨k, hk, rfl⟩ := List.getElem_of_mem hx
    rw [R1 k hk]; exact hrow k (by omega)
  have hU : UnitLower cols := by
    apply unitLower_of_index
    · intro t ht
      rw [R1 t ht, R2 t ht t (by omega), if_neg (by omega), if_pos rfl]
    · intro r t hrt ht
      rw [R1 r (by omega), R2 t ht r (by omega), if_pos hrt]
  have hus := snodeSolve_eq_elim cols st.dense hr
  have hul : (snodeSolve cols st.dense).length = cols.length := by rw [hus, elim_length]
  have hget : ∀ i, i < nsupr → Vec.get st.dense (lsub[istart + i]!) = st.dense[lsub[istart + i]!]! := by
    intro i hi
    rw [getElem!_eq_getD_of_lt _ _ (hrow i hi)]; rfl
  have hz : ∀ t, t < nsupc → (snodeSolve cols st.dense).getD t 0 = st.dense[lsub[istart + t]!]! -
      ∑ j ∈ range t, (snodeSolve cols st.dense).getD j 0 * st.lusup[luptr + (j * nsupr + t)]! := by
    intro t ht
    have hsp := elim_spec cols st.dense (lsub[istart + t]!) (hrow t (by omega))
    have hzero := (elim_zero_at_pivots cols st.dense hU hr [] (by simp) (by simp)).1 (cols[t]'(by omega)) (List.getElem_mem _)
    rw [R1 t (by omega)] at hzero
    rw [hzero, add_zero, ← hus, dotL_storage cols _ hul lsub istart nsupr luptr st.lusup R2 t (by omega), hlen,
      sum_tri nsupc t ht, hget t (by omega)] at hsp
    rw [hsp]; ring
  obtain ⟨_, c2, c3, _⟩ := snodeBmod_spec' cplx jcol fsupc lsub xlsub st istart nsupr ufirst luptr nsupc e1 e2 e3 e4 e5 hle hinj hrow
    hcol hwid hbefore htv htz (fun t => (snodeSolve cols st.dense).getD t 0) hz
  refine ⟨hU, hr, c2, fun i hi hin => ?_⟩
  rw [c3 i hi hin, snodeGemv_get _ _ _ _ (hrow i hin), hget i hin,
    dotL_storage cols _ hul lsub istart nsupr luptr st.lusup R2 i hin, hlen, sum_below nsupc i hi]
  congr 1
  exact Finset.sum_congr rfl (fun r _ => mul_comm _ _)

end sched
/-! ### the forward solve of `sp_trsv` / `gstrs` through the mirrored kernels -/
section trsv
variable {K : Type} [Field K] [Inhabited K] [Conj K]

/-- one supernode of the lower solve as the NON-vendor C code executes it (dsp_blas2.c:174-186):
`lsolve` on the diagonal block, `matvec` into a zero `work[]`, scatter `x[irow] -= work[i]` -/
def stepLNblas (cplx : Bool) (F : LUFac K) (s : SN) (x : Array K) : Array K :=
  let x1 := lsolve cplx s.nsupr s.nsupc F.L.lusup s.luptr x s.fsupc
  let work := matvec cplx s.nsupr (s.nsupr - s.nsupc) s.nsupc F.L.lusup (s.luptr + s.nsupc) x1 s.fsupc
    (Array.replicate (s.nsupr - s.nsupc) 0)
  (List.range (s.nsupr - s.nsupc)).foldl (fun (x : Array K) i =>
    let r := F.L.lsub[s.istart + s.nsupc + i]!
    x.setIfInBounds r (x[r]! - work[i]!)) x1

theorem arr_ext (a b : Array K) (hs : a.size = b.size) (h : ∀ p, p < a.size → a[p]! = b[p]!) : a = b := by
  apply Array.ext hs
  intro i h1 h2
  have := h i h1
  simpa [getElem!_pos, h1, h2] using this

theorem lsolve_eq_lsolveTo (cplx : Bool) (F : LUFac K) (s : SN) (x : Array K) (hb : s.fsupc + s.nsupc ≤ x.size) :
    lsolve cplx s.nsupr s.nsupc F.L.lusup s.luptr x s.fsupc = lsolveTo (blk F.L s) s.fsupc x s.nsupc := by
  have hz : ∀ i, i < s.nsupc →
      (fwdSub (blk F.L s) (fun _ => 1) (fun i => x[s.fsupc + i]!) s.nsupc).getD i 0 = x[s.fsupc + i]! -
        ∑ j ∈ range i, (fwdSub (blk F.L s) (fun _ => 1) (fun i => x[s.fsupc + i]!) s.nsupc).getD j 0 * blk F.L s i j := by
    intro i hi
    rw [fwd_rec _ _ _ s.nsupc i hi, div_one]
    congr 1
    exact Finset.sum_congr rfl (fun j _ => mul_comm _ _)
  obtain ⟨a1, a2, a3⟩ := lsolveG_spec cplx s.nsupr s.nsupc (fun _ i => F.L.lusup[s.luptr + i]!) s.fsupc x (blk F.L s) _ hb
    (fun _ _ i j _ _ => by unfold blk; rw [Nat.add_assoc]) hz
  obtain ⟨b1, b2, b3⟩ := lsolveTo_spec (blk F.L s) s.fsupc x s.nsupc hb _ hz s.nsupc (le_refl _)
  apply arr_ext _ _ (by unfold lsolve; rw [a1, b1])
  intro p hp
  unfold lsolve
  by_cases hin : s.fsupc ≤ p ∧ p < s.fsupc + s.nsupc
  · have : p = s.fsupc + (p - s.fsupc) := by omega
    rw [this, a2 _ (by omega), b2 _ (by omega)]
  · rw [a3 p (by omega), b3 p (by omega)]

/-- **one supernode of the forward solve: mirrored kernels = modelled step** (exact arithmetic) -/
theorem stepLNblas_eq_stepLN (cplx : Bool) (F : LUFac K) (s : SN) (x : Array K) (hb : s.fsupc + s.nsupc ≤ x.size) :
    stepLNblas cplx F s x = stepLN F s x := by
  unfold stepLNblas stepLN
  dsimp only
  rw [lsolve_eq_lsolveTo cplx F s x hb]
  generalize lsolveTo (blk F.L s) s.fsupc x s.nsupc = x1
  obtain ⟨m1, m2, _⟩ := matvec_spec' cplx s.nsupr (s.nsupr - s.nsupc) s.nsupc F.L.lusup (s.luptr + s.nsupc) x1 s.fsupc
    (Array.replicate (s.nsupr - s.nsupc) (0 : K)) (by simp)
  apply List.foldl_ext
  intro a i hi
  have hi' : i < s.nsupr - s.nsupc := List.mem_range.mp hi
  congr 2
  rw [m2 i hi', sumTo_eq_sum]
  have : (Array.replicate (s.nsupr - s.nsupc) (0 : K))[i]! = 0 := by
    simp [getElem!_pos, hi']
  rw [this, zero_add]
  apply Finset.sum_congr rfl
  intro j _
  unfold blk
  have e : s.luptr + s.nsupc + (j * s.nsupr + i) = s.luptr + j * s.nsupr + (s.nsupc + i) := by omega
  rw [e, mul_comm]

/-- `x := inv(L) x` of `sp_[sdcz]trsv` / `[sdcz]gstrs` with every supernode processed by the mirrored
`lsolve` + `matvec` (what the non-vendor build executes; the `nsupc == 1` shortcut of the C code is the
`nsupc = 1` instance: `lsolve` does nothing, `matvec` is one column) -/
def trsvLNblas (cplx : Bool) (F : LUFac K) (x : Array K) : Array K :=
  (List.range (F.L.nsuper + 1)).foldl (fun x k => stepLNblas cplx F (snode F.L k) x) x

theorem stepLN_size (F : LUFac K) (s : SN) (x : Array K) (hb : s.fsupc + s.nsupc ≤ x.size) : (stepLN F s x).size = x.size := by
  have hz : ∀ i, i < s.nsupc →
      (fwdSub (blk F.L s) (fun _ => 1) (fun i => x[s.fsupc + i]!) s.nsupc).getD i 0 = x[s.fsupc + i]! -
        ∑ j ∈ range i, (fwdSub (blk F.L s) (fun _ => 1) (fun i => x[s.fsupc + i]!) s.nsupc).getD j 0 * blk F.L s i j := by
    intro i hi
    rw [fwd_rec _ _ _ s.nsupc i hi, div_one]
    congr 1
    exact Finset.sum_congr rfl (fun j _ => mul_comm _ _)
  obtain ⟨b1, _, _⟩ := lsolveTo_spec (blk F.L s) s.fsupc x s.nsupc hb _ hz s.nsupc (le_refl _)
  unfold stepLN
  dsimp only
  rw [(foldl_scatter_const (List.range (s.nsupr - s.nsupc)) (fun i => F.L.lsub[s.istart + s.nsupc + i]!)
    (fun i => sumTo s.nsupc (fun j => blk F.L s (s.nsupc + i) j * (lsolveTo (blk F.L s) s.fsupc x s.nsupc)[s.fsupc + j]!))
    (lsolveTo (blk F.L s) s.fsupc x s.nsupc)).1, b1]

/-- **the whole forward solve: mirrored kernels = the model `trsvLN`** whose correctness
(`spTrsv_LN`, `gstrs_notrans_solves`) is proved — so those theorems speak about what the non-vendor C
code executes.  Hypothesis: every supernode's columns lie inside `x`. -/
theorem trsvLNblas_eq_trsvLN (cplx : Bool) (F : LUFac K) (x : Array K)
    (hb : ∀ k, k ≤ F.L.nsuper → (snode F.L k).fsupc + (snode F.L k).nsupc ≤ x.size) :
    trsvLNblas cplx F x = trsvLN F x := by
  rw [trsvLN_eq]
  unfold trsvLNblas
  have key : ∀ N, N ≤ F.L.nsuper + 1 →
      (List.range N).foldl (fun x k => stepLNblas cplx F (snode F.L k) x) x =
        (List.range N).foldl (fun x k => stepLN F (snode F.L k) x) x ∧
      ((List.range N).foldl (fun x k => stepLN F (snode F.L k) x) x).size = x.size := by
    intro N
    induction N with
    | zero => intro _; exact ⟨rfl, rfl⟩
    | succ N ih =>
      intro hN
      obtain ⟨h1, h2⟩ := ih (by omega)
      rw [List.range_succ, List.foldl_append, List.foldl_append, h1]
      simp only [List.foldl_cons, List.foldl_nil]
      have hbN := hb N (by omega)
      rw [← h2] at hbN
      exact ⟨stepLNblas_eq_stepLN cplx F _ _ hbN, by rw [stepLN_size F _ _ hbN, h2]⟩
  exact (key _ (le_refl _)).1

/-- one supernode of the upper solve as the non-vendor C code executes it (dsp_blas2.c:200-226):
`usolve` on the diagonal block, then the column storage of U updates the rows above -/
def stepUNblas (F : LUFac K) (s : SN) (x : Array K) : Array K :=
  uscatTo F.U s.fsupc (usolve s.nsupr s.nsupc F.L.lusup s.luptr x s.fsupc) s.nsupc

theorem stepUNblas_eq_stepUN (F : LUFac K) (s : SN) (x : Array K) : stepUNblas F s x = stepUN F false s x := by
  unfold stepUNblas stepUN
  rw [usolve_eq_usolveTo]
  have h1 : (fun ir jc => F.L.lusup[s.luptr + (ir + jc * s.nsupr)]!) = blk F.L s := by
    funext ir jc; unfold blk
    have e : s.luptr + (ir + jc * s.nsupr) = s.luptr + jc * s.nsupr + ir := by omega
    rw [e]
  have h2 : (fun (jc : Nat) (v : K) => v / F.L.lusup[s.luptr + (jc + jc * s.nsupr)]!) =
      (fun jc v => if false = true then v else v / blk F.L s jc jc) := by
    funext jc v; unfold blk
    have e : s.luptr + (jc + jc * s.nsupr) = s.luptr + jc * s.nsupr + jc := by omega
    rw [e]; simp
  rw [h1, h2]

/-- `x := inv(U) x` with every diagonal block solved by the mirrored `usolve` -/
def trsvUNblas (F : LUFac K) (x : Array K) : Array K :=
  (List.range (F.L.nsuper + 1)).foldl (fun x kk => stepUNblas F (snode F.L (F.L.nsuper - kk)) x) x

theorem trsvUNblas_eq_trsvUN (F : LUFac K) (x : Array K) : trsvUNblas F x = trsvUN F false x := by
  rw [trsvUN_eq]
  unfold trsvUNblas
  apply List.foldl_ext
  intro a kk _
  exact stepUNblas_eq_stepUN F _ a

end trsv
end Slu.MyBlas2
