import Slu.Model.MyBlas2
import SluProofs.Lemmas.Trsv
/-
Exact-arithmetic specification of the mirrored dense kernels of `Slu/Model/MyBlas2.lean`
(`[sdcz]lsolve`, `usolve`, `matvec`, `snode_bmod`), for every `ncol`, `nrow`, `ldm` and both
unrolling schemes (`cplx = false`: 8/4/2 resp. 8/4/1 columns; `cplx = true`: 4/2 resp. 4/1).

Plan.  A block of `w` columns of `lsolve` carries the right-looking invariant `LInv` (columns `< fc`
hold the solution, the rows below hold `rhs - Σ_{j<fc} z_j B(i,j)`) from `fc` to `fc + w`, for EVERY
width `w` (`lsolveBlock_inv`); the `while` loops and the final `if` only choose widths, so the
invariant reaches a column `fc` with `ncol ≤ fc + 1`, where it says that the whole vector is the
solution.  `matvec` likewise with the invariant "`y = y0 + Σ_{j<fc} v_j M(k,j)`".
-/
set_option linter.unusedSectionVars false
set_option linter.unusedVariables false
namespace Slu.MyBlas2
open Finset Slu.Kernels

section folds
variable {K : Type} [Field K] [Inhabited K]

theorem foldl_sub_range_congr (n : Nat) (g g' : Nat → K) (a : K) (h : ∀ j, j < n → g j = g' j) :
    (List.range n).foldl (fun acc j => acc - g j) a = a - ∑ j ∈ range n, g' j := by
  induction n with
  | zero => simp
  | succ n ih =>
    rw [List.range_succ, List.foldl_append, ih (fun j hj => h j (by omega)), Finset.sum_range_succ]
    simp only [List.foldl_cons, List.foldl_nil]
    rw [h n (by omega)]; ring

theorem foldl_add_range_congr (n : Nat) (g g' : Nat → K) (a : K) (h : ∀ j, j < n → g j = g' j) :
    (List.range n).foldl (fun acc j => acc + g j) a = a + ∑ j ∈ range n, g' j := by
  induction n with
  | zero => simp
  | succ n ih =>
    rw [List.range_succ, List.foldl_append, ih (fun j hj => h j (by omega)), Finset.sum_range_succ]
    simp only [List.foldl_cons, List.foldl_nil]
    rw [h n (by omega)]; ring

/-- consecutive stores `a[q + s] = v s`, `s < n` -/
theorem storeRange_spec (n q : Nat) (v : Nat → K) (a : Array K) :
    ((List.range n).foldl (fun (a : Array K) s => a.setIfInBounds (q + s) (v s)) a).size = a.size ∧
    ∀ p, ((List.range n).foldl (fun (a : Array K) s => a.setIfInBounds (q + s) (v s)) a)[p]! =
      if q ≤ p ∧ p < q + n ∧ p < a.size then v (p - q) else a[p]! := by
  induction n with
  | zero => exact ⟨rfl, fun p => by simp only [List.range_zero, List.foldl_nil]; rw [if_neg (by omega)]⟩
  | succ n ih =>
    obtain ⟨h1, h2⟩ := ih
    rw [List.range_succ, List.foldl_append]
    simp only [List.foldl_cons, List.foldl_nil]
    refine ⟨by simp [h1], fun p => ?_⟩
    rw [getElem!_setIfInBounds, h1, h2 p]
    by_cases hp : q + n = p
    · subst hp
      by_cases hs : q + n < a.size
      · rw [if_pos ⟨rfl, hs⟩, if_pos ⟨by omega, by omega, hs⟩]; congr 1; omega
      · rw [if_neg (by omega), if_neg (by omega), if_neg (by omega)]
    · rw [if_neg (by omega)]
      by_cases hc : q ≤ p ∧ p < q + n ∧ p < a.size
      · rw [if_pos hc, if_pos ⟨hc.1, by omega, hc.2.2⟩]
      · rw [if_neg hc, if_neg (by omega)]

theorem getElem!_push_lt (xs : Array K) (v : K) (u : Nat) (h : u < xs.size) : (xs.push v)[u]! = xs[u]! := by
  simp only [Array.getElem!_eq_getD, Array.getD_eq_getD_getElem?, Array.getElem?_push]
  rw [if_neg (by omega)]

theorem getElem!_push_eq (xs : Array K) (v : K) : (xs.push v)[xs.size]! = v := by
  simp [Array.getElem!_eq_getD, Array.getD_eq_getD_getElem?, Array.getElem?_push]

end folds

/-! ### lsolve -/
section lsolve
variable {K : Type} [Field K] [Inhabited K]

/-- frame: the state has the size of the initial array and agrees with it outside the cells
`ro .. ro+ncol-1` of the right-hand side -/
def Frame (rhs : Array K) (ro ncol : Nat) (s : Array K) : Prop :=
  s.size = rhs.size ∧ ∀ p, (p < ro ∨ ro + ncol ≤ p) → s[p]! = rhs[p]!

/-- right-looking invariant after the columns `< fc` -/
def LInv (B : Nat → Nat → K) (z : Nat → K) (rhs : Array K) (ro ncol fc : Nat) (s : Array K) : Prop :=
  Frame rhs ro ncol s ∧ (∀ i, i < fc → i < ncol → s[ro + i]! = z i) ∧
  (∀ i, fc ≤ i → i < ncol → s[ro + i]! = rhs[ro + i]! - ∑ j ∈ range fc, z j * B i j)

theorem lsolveXs_succ (w ldm : Nat) (rd : Array K → Nat → K) (a : Array K) (ro fc : Nat) :
    lsolveXs (w + 1) ldm rd a ro fc = (lsolveXs w ldm rd a ro fc).push
      ((List.range w).foldl (fun (acc : K) t => acc - (lsolveXs w ldm rd a ro fc)[t]! * rd a ((fc + t) * ldm + (fc + w)))
        a[ro + fc + w]!) := by
  simp [lsolveXs, List.range_succ, List.foldl_append]

theorem lsolveXs_spec (w ldm : Nat) (rd : Array K → Nat → K) (s : Array K) (ro fc : Nat) (B : Nat → Nat → K) (z : Nat → K)
    (hrd : ∀ t u, t < u → u < w → rd s ((fc + t) * ldm + (fc + u)) = B (fc + u) (fc + t))
    (hz : ∀ u, u < w → z (fc + u) = s[ro + fc + u]! - ∑ t ∈ range u, z (fc + t) * B (fc + u) (fc + t)) :
    (lsolveXs w ldm rd s ro fc).size = w ∧ ∀ u, u < w → (lsolveXs w ldm rd s ro fc)[u]! = z (fc + u) := by
  induction w with
  | zero => exact ⟨rfl, fun u hu => absurd hu (by omega)⟩
  | succ w ih =>
    obtain ⟨h1, h2⟩ := ih (fun t u htu hu => hrd t u htu (by omega)) (fun u hu => hz u (by omega))
    rw [lsolveXs_succ]
    refine ⟨by simp [h1], fun u hu => ?_⟩
    by_cases huw : u < w
    · rw [getElem!_push_lt _ _ _ (by omega)]; exact h2 u huw
    · have : u = w := by omega
      subst this
      have := getElem!_push_eq (lsolveXs u ldm rd s ro fc)
      rw [h1] at this
      rw [this, foldl_sub_range_congr u _ (fun t => z (fc + t) * B (fc + u) (fc + t)), ← hz u (by omega)]
      intro t ht
      rw [h2 t ht, hrd t u ht (by omega)]

/-- the update loop of a block, `n` iterations -/
def lsolveUpd (w ldm : Nat) (rd : Array K → Nat → K) (xs : Array K) (ro fc : Nat) (a1 : Array K) (n : Nat) : Array K :=
  (List.range n).foldl (fun (a : Array K) d =>
    a.setIfInBounds (ro + (fc + w + d))
      ((List.range w).foldl (fun (acc : K) t => acc - xs[t]! * rd a ((fc + t) * ldm + (fc + w + d)))
        a[ro + (fc + w + d)]!)) a1

theorem lsolveUpd_spec (w ldm ncol : Nat) (rd : Array K → Nat → K) (xs : Array K) (ro fc : Nat) (a1 rhs : Array K)
    (B : Nat → Nat → K) (z : Nat → K) (hb : ro + ncol ≤ rhs.size)
    (hrd : ∀ s, Frame rhs ro ncol s → ∀ i j, j < i → i < ncol → rd s (j * ldm + i) = B i j)
    (hxs : ∀ u, u < w → xs[u]! = z (fc + u)) (hF : Frame rhs ro ncol a1) (n : Nat) (hn : fc + w + n ≤ ncol) :
    Frame rhs ro ncol (lsolveUpd w ldm rd xs ro fc a1 n) ∧
    ∀ i, i < ncol → (lsolveUpd w ldm rd xs ro fc a1 n)[ro + i]! =
      if fc + w ≤ i ∧ i < fc + w + n then a1[ro + i]! - ∑ t ∈ range w, z (fc + t) * B i (fc + t) else a1[ro + i]! := by
  induction n with
  | zero => exact ⟨hF, fun i hi => by rw [if_neg (by omega)]; rfl⟩
  | succ n ih =>
    obtain ⟨⟨f1, f2⟩, g⟩ := ih (by omega)
    have hstep : lsolveUpd w ldm rd xs ro fc a1 (n + 1) =
        (lsolveUpd w ldm rd xs ro fc a1 n).setIfInBounds (ro + (fc + w + n))
          ((List.range w).foldl (fun (acc : K) t => acc - xs[t]! * rd (lsolveUpd w ldm rd xs ro fc a1 n) ((fc + t) * ldm + (fc + w + n)))
            (lsolveUpd w ldm rd xs ro fc a1 n)[ro + (fc + w + n)]!) := by
      simp [lsolveUpd, List.range_succ, List.foldl_append]
    rw [hstep]
    generalize lsolveUpd w ldm rd xs ro fc a1 n = a at f1 f2 g
    refine ⟨⟨by simp [f1], fun p hp => ?_⟩, fun i hi => ?_⟩
    · rw [getElem!_setIfInBounds, if_neg (by omega)]; exact f2 p hp
    · rw [getElem!_setIfInBounds, f1]
      by_cases hin : i = fc + w + n
      · subst hin
        rw [if_pos ⟨rfl, by omega⟩, if_pos ⟨by omega, by omega⟩, g _ hi, if_neg (by omega),
          foldl_sub_range_congr w _ (fun t => z (fc + t) * B (fc + w + n) (fc + t))]
        intro t ht
        rw [hxs t ht, hrd a ⟨f1, f2⟩ (fc + w + n) (fc + t) (by omega) (by omega)]
      · rw [if_neg (by omega), g i hi]
        by_cases hc : fc + w ≤ i ∧ i < fc + w + n
        · rw [if_pos hc, if_pos ⟨hc.1, by omega⟩]
        · rw [if_neg hc, if_neg (by omega)]

theorem lsolveBlock_eq (w ldm ncol : Nat) (rd : Array K → Nat → K) (a : Array K) (ro fc : Nat) :
    lsolveBlock w ldm ncol rd a ro fc = lsolveUpd w ldm rd (lsolveXs w ldm rd a ro fc) ro fc
      ((List.range (w - 1)).foldl (fun (a' : Array K) s => a'.setIfInBounds ((ro + fc + 1) + s)
        (lsolveXs w ldm rd a ro fc)[s + 1]!) a) (ncol - (fc + w)) := by
  unfold lsolveBlock lsolveUpd
  dsimp only
  congr 1
  have : (fun (a' : Array K) s => a'.setIfInBounds (ro + fc + s + 1) (lsolveXs w ldm rd a ro fc)[s + 1]!) =
      (fun (a' : Array K) s => a'.setIfInBounds ((ro + fc + 1) + s) (lsolveXs w ldm rd a ro fc)[s + 1]!) := by
    funext a' s; congr 1; omega
  rw [this]

/-- **one block of any width carries the invariant from `fc` to `fc + w`** -/
theorem lsolveBlock_inv (w ldm ncol : Nat) (rd : Array K → Nat → K) (ro fc : Nat) (rhs : Array K)
    (B : Nat → Nat → K) (z : Nat → K) (hb : ro + ncol ≤ rhs.size)
    (hrd : ∀ s, Frame rhs ro ncol s → ∀ i j, j < i → i < ncol → rd s (j * ldm + i) = B i j)
    (hz : ∀ i, i < ncol → z i = rhs[ro + i]! - ∑ j ∈ range i, z j * B i j)
    (s : Array K) (inv : LInv B z rhs ro ncol fc s) (hw : fc + w ≤ ncol) (hw1 : 1 ≤ w) :
    LInv B z rhs ro ncol (fc + w) (lsolveBlock w ldm ncol rd s ro fc) := by
  obtain ⟨hF, hlo, hhi⟩ := inv
  have hzblk : ∀ u, u < w → z (fc + u) = s[ro + fc + u]! - ∑ t ∈ range u, z (fc + t) * B (fc + u) (fc + t) := by
    intro u hu
    rw [hz _ (by omega), Nat.add_assoc ro fc u, hhi (fc + u) (by omega) (by omega), Finset.sum_range_add, sub_sub]
  obtain ⟨x1, x2⟩ := lsolveXs_spec w ldm rd s ro fc B z
    (fun t u htu hu => hrd s hF (fc + u) (fc + t) (by omega) (by omega)) hzblk
  rw [lsolveBlock_eq]
  generalize lsolveXs w ldm rd s ro fc = xs at x1 x2
  have hst := storeRange_spec (w - 1) (ro + fc + 1) (fun s => xs[s + 1]!) s
  beta_reduce at hst
  obtain ⟨a1s, a1g⟩ := hst
  generalize (List.range (w - 1)).foldl (fun (a' : Array K) s => a'.setIfInBounds ((ro + fc + 1) + s) xs[s + 1]!) s = a1 at a1s a1g
  have hF1 : Frame rhs ro ncol a1 := by
    refine ⟨by rw [a1s]; exact hF.1, fun p hp => ?_⟩
    rw [a1g p, if_neg (by omega)]; exact hF.2 p hp
  obtain ⟨rF, rg⟩ := lsolveUpd_spec w ldm ncol rd xs ro fc a1 rhs B z hb hrd x2 hF1 (ncol - (fc + w)) (by omega)
  refine ⟨rF, fun i hi hin => ?_, fun i hi hin => ?_⟩
  · rw [rg i hin, if_neg (by omega), a1g]
    by_cases hc : fc + 1 ≤ i
    · rw [if_pos ⟨by omega, by omega, by rw [hF.1]; omega⟩, x2 _ (by omega)]; congr 1; omega
    · rw [if_neg (by omega)]
      by_cases hfc : i < fc
      · exact hlo i hfc hin
      · have : i = fc := by omega
        subst this
        rw [hhi i (le_refl _) hin, ← hz i hin]
  · rw [rg i hin, if_pos ⟨hi, by omega⟩, a1g, if_neg (by omega), hhi i (by omega) hin, Finset.sum_range_add, sub_sub]

end lsolve
end Slu.MyBlas2
