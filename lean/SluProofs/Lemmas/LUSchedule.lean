import SluProofs.Lemmas.LUInv
import SluProofs.Lemmas.SnodeUpdate
/-
One column of the factorization with the elimination carried out by an arbitrary SCHEDULE (a
sequence of supernodes, each a list of previous columns) instead of all previous columns in natural
order; glue between `ElimOrder` / `SnodeUpdate` and `Slu.LU.step`.
-/
namespace Slu.LU
open Slu List

variable {K : Type} [Field K] [Mag K Rat]

/-- the part of `step` that follows the elimination: candidates, pivot decision, new L and U
column, from the eliminated column `w` and the multipliers `us` (in column order) -/
def stepFrom (P : Params K Rat) (st : St K) (j : Nat) (w : Vec K) (us : List K) : St K :=
  let cands : List (Nat × K) := ((P.order j).filter (fun r => !(st.piv.contains r))).map fun r => (r, w.get r)
  let o := pivotChoice (R := Rat) j cands (fun p => P.u * p) st.usepr (P.oldPiv j) (P.diagRow j)
  if o.info ≠ 0 then { st with info := o.info, usepr := false } else
  let p := o.row
  let piv := w.get p
  let temp : K := 1 / piv
  let l : Vec K := w.map (· * temp)
  { piv := st.piv.push p, L := st.L.push l, U := st.U.push ((us ++ [piv]).toArray), usepr := o.usepr, info := 0 }

theorem step_eq_stepFrom (P : Params K Rat) (st : St K) (j : Nat) :
    step P st j = if st.info ≠ 0 then st else stepFrom P st j (stepW P st j) (stepUs P st j) := by
  unfold step stepFrom stepW stepUs prev
  rfl

/-- one column with the elimination result `r` (remaining vector, multipliers in the order of the
visited columns `σ`); the U column is assembled by pivot row, as the real code does through
`perm_r` (columns that were not visited contribute 0) -/
def stepSchedOf (P : Params K Rat) (st : St K) (j : Nat) (σ : List (Nat × Vec K)) (r : Vec K × List K) : St K :=
  if st.info ≠ 0 then st else
  stepFrom P st j r.1 ((List.range j).map fun k => multAt σ r.2 (st.piv.getD k 0))

/-- one column, previous columns eliminated one by one in the order `σ` -/
def stepSched (P : Params K Rat) (st : St K) (j : Nat) (σ : List (Nat × Vec K)) : St K :=
  stepSchedOf P st j σ (elim σ (P.col j))

/-- one column, eliminated supernode by supernode (`snodeBlock`: dense triangular solve +
matrix-vector product) in the order `bs` -/
def stepBlocks (P : Params K Rat) (st : St K) (j : Nat) (bs : List (List (Nat × Vec K))) : St K :=
  stepSchedOf P st j bs.flatten (elimBlocks bs (P.col j))

/-- the whole factorization with a schedule chosen per column (it may depend on the state, since
the columns it lists are the L columns computed so far) -/
def luFactorBlocks (P : Params K Rat) (usepr : Bool) (sched : St K → Nat → List (List (Nat × Vec K))) : St K :=
  (List.range P.n).foldl (fun st j => stepBlocks P st j (sched st j)) { usepr := usepr }

/-- `bs` is a VALID SCHEDULE for eliminating `w` by the unit lower columns `Ls`: its columns are a
subset of `Ls` (each once), in an order that respects the dependencies among them, and every column
left out has multiplier zero in the natural-order elimination. -/
def ValidSchedule (Ls : List (Nat × Vec K)) (w : Vec K) (bs : List (List (Nat × Vec K))) : Prop :=
  ∃ keep : Nat × Vec K → Bool,
    bs.flatten.Perm (Ls.filter keep) ∧ DepRespecting (Ls.filter keep) bs.flatten ∧
    ∀ e ∈ Ls.zip (elim Ls w).2, keep e.1 = false → e.2 = 0

omit [Field K] [Mag K Rat] in
theorem range_map_getD (us : List K) (d : K) (j : Nat) (h : us.length = j) :
    (List.range j).map (fun k => us.getD k d) = us := by
  apply List.ext_getElem (by simp [h])
  intro i h1 h2
  simp [List.getD_eq_getElem?_getD, h2]

omit [Field K] [Mag K Rat] in
theorem prev_getElem (st : St K) (j k : Nat) (hk : k < (prev st j).length) :
    (prev st j)[k] = (st.piv.getD k 0, st.L.getD k #[]) := by
  simp [prev]

theorem stepSchedOf_eq_step (P : Params K Rat) (st : St K) (j : Nat) (σ : List (Nat × Vec K)) (r : Vec K × List K)
    (h1 : r.1 = stepW P st j)
    (h2 : ∀ k (hk : k < (prev st j).length), multAt σ r.2 ((prev st j)[k]).1 = (stepUs P st j).getD k 0) :
    stepSchedOf P st j σ r = step P st j := by
  have hlen : (stepUs P st j).length = j := by rw [stepUs, elim_length, prev_length]
  have hus : (List.range j).map (fun k => multAt σ r.2 (st.piv.getD k 0)) = stepUs P st j := by
    refine Eq.trans ?_ (range_map_getD (stepUs P st j) 0 j hlen)
    apply List.map_congr_left
    intro k hk
    have hk' : k < (prev st j).length := by rw [prev_length]; exact List.mem_range.mp hk
    have := h2 k hk'
    rw [prev_getElem] at this
    exact this
  rw [step_eq_stepFrom, stepSchedOf, h1, hus]

theorem Inv.prev_range {P : Params K Rat} {st : St K} {j : Nat} (h : Inv P st j)
    (hcol : ∀ j, (P.col j).size = P.m) : ∀ x ∈ prev st j, x.1 < (P.col j).size := by
  intro x hx
  obtain ⟨t, ht, rfl⟩ := mem_prev st j x hx
  rw [hcol]; exact h.prange t ht

omit [Mag K Rat] in
/-- a full dependency-respecting permutation, taken as one-column supernodes or any other grouping,
is a valid schedule -/
theorem validSchedule_of_perm (Ls : List (Nat × Vec K)) (w : Vec K) (bs : List (List (Nat × Vec K)))
    (hp : bs.flatten.Perm Ls) (hd : DepRespecting Ls bs.flatten) : ValidSchedule Ls w bs :=
  ⟨fun _ => true, by simpa using hp, by simpa using hd, by simp⟩

end Slu.LU
