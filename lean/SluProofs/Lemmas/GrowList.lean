import Slu.Model.Mem
import SluProofs.Lemmas.Mem
import SluProofs.Lemmas.MemStore
/-
Refinement of the abstract "growable list" interface by the allocator model (C07).

Abstract state: for each of the four arrays, which bytes are known and their values.
  write t j b   — byte j of array t := b
  grow t len    — `LUMemXpand(…, next = len, t, …)`: the array gets longer; only the first `len`
                  elements are guaranteed to survive (library allocation copies exactly those)
Concrete state: allocator state + byte store, in either storage mode.
-/
namespace Slu.Mem

/-- a client operation on the four arrays -/
inductive COp (β : Type) where
  | write (t : MemType) (j : Int) (b : β)
  | grow (t : MemType) (len : Int)

/-- abstract growable lists: the known bytes of each array -/
abbrev Abs (β : Type) := MemType → Int → Option β

/-- abstract semantics (independent of any storage configuration; `w` only converts the element count of
`grow` into bytes) -/
def astep {β : Type} (w : Words) (a : Abs β) : COp β → Abs β
  | .write t j b => fun t' j' => if t' = t ∧ j' = j then some b else a t' j'
  | .grow t len => fun t' j' => if t' = t ∧ ¬ (0 ≤ j' ∧ j' < len * w.lword t) then none else a t' j'

def arun {β : Type} (w : Words) (a : Abs β) (ops : List (COp β)) : Abs β := ops.foldl (astep w) a

/-- concrete semantics; `none` = the run fails (a write outside the current capacity, or a refused
expansion — the factor routine would return `info > n`) -/
def cstep {β : Type} (w : Words) (fail : Nat → Bool) (x : St × Store β) : COp β → Option (St × Store β)
  | .write t j b =>
    if 0 ≤ j ∧ j < x.1.cap t * w.lword t then
      some (x.1, fun blk a => if blk = x.1.blk t ∧ a = x.1.boff t + j then b else x.2 blk a)
    else none
  | .grow t len =>
    match expand_fixed w fail (x.1.nz t) t (decide (t = .USUB)) x.1 with
    | (_, none) => none
    | (s', some _) => some (s', moveStore w t len x.1 s' x.2)

def crun {β : Type} (w : Words) (fail : Nat → Bool) : St × Store β → List (COp β) → Option (St × Store β)
  | x, [] => some x
  | x, op :: ops => match cstep w fail x op with
    | none => none
    | some y => crun w fail y ops

/-- the allocator invariant of whichever mode is in use -/
def GoodInv (w : Words) (s : St) : Prop := Inv w s ∨ (SysInv s ∧ 0 ≤ s.capB ∧ s.capB ≤ s.capU ∧ 0 ≤ s.capL ∧ 0 ≤ s.capS)

/-- simulation relation: every byte the abstract lists know is inside the concrete array's capacity
and has that value in the concrete store -/
def Sim {β : Type} (w : Words) (a : Abs β) (s : St) (σ : Store β) : Prop :=
  ∀ t j b, a t j = some b → 0 ≤ j ∧ j < s.cap t * w.lword t ∧ rbyte σ s t j = b

/-- two different bytes of the four arrays never share an address -/
theorem noalias (w : Words) (hw : w.Ok) (s : St) (hg : GoodInv w s) (t t' : MemType) (j j' : Int)
    (hj0 : 0 ≤ j) (hj : j < s.cap t * w.lword t) (hj0' : 0 ≤ j') (hj' : j' < s.cap t' * w.lword t')
    (hne : ¬ (t' = t ∧ j' = j)) :
    ¬ (s.blk t' = s.blk t ∧ s.boff t' + j' = s.boff t + j) := by
  have hdw := hw.dw_pos
  have hliw := hw.liw_pos
  rcases hg with hinv | ⟨hsys, _⟩
  · obtain ⟨hu, hne', hn0, hh0, hL0, hU0, hS0, hB0, hBU, c1, c2, c3, c4, c5, t12, t2s, hused, dl, il, d1, d2, d3⟩ := hinv
    have e5 : s.capB * w.liw ≤ s.capU * w.liw := Int.mul_le_mul_of_nonneg_right hBU (by omega)
    have eL : 0 ≤ s.capL * w.dw := Int.mul_nonneg hL0 (by omega)
    have eU : 0 ≤ s.capU * w.dw := Int.mul_nonneg hU0 (by omega)
    have eS : 0 ≤ s.capS * w.liw := Int.mul_nonneg hS0 (by omega)
    intro ⟨_, h2⟩
    cases t <;> cases t' <;>
      simp only [St.blk, St.boff, hu, if_true, St.off, St.cap, Words.lword] at * <;>
      first
        | omega
        | (simp at hne; omega)
  · obtain ⟨hu, hne', lL, lU, lS, lB, dLU, dLS, dLB, dUS, dUB, dSB⟩ := hsys
    intro ⟨h1, h2⟩
    cases t <;> cases t' <;>
      simp only [St.blk, St.boff, hu, Bool.false_eq_true, if_false, St.off] at * <;>
      first
        | omega
        | (simp at hne; omega)

/-- a write inside the capacity keeps the simulation -/
theorem sim_write {β : Type} (w : Words) (hw : w.Ok) (a : Abs β) (s : St) (σ : Store β) (hg : GoodInv w s)
    (hs : Sim w a s σ) (t : MemType) (j : Int) (b : β) (hj0 : 0 ≤ j) (hj : j < s.cap t * w.lword t) :
    Sim w (astep w a (.write t j b)) s
      (fun blk ad => if blk = s.blk t ∧ ad = s.boff t + j then b else σ blk ad) := by
  intro t' j' b' h
  simp only [astep] at h
  by_cases hh : t' = t ∧ j' = j
  · rw [if_pos hh] at h
    obtain ⟨h1, h2⟩ := hh
    subst h1; subst h2
    injection h with h; subst h
    refine ⟨hj0, hj, ?_⟩
    simp [rbyte]
  · rw [if_neg hh] at h
    obtain ⟨r1, r2, r3⟩ := hs t' j' b' h
    refine ⟨r1, r2, ?_⟩
    have hna := noalias w hw s hg t t' j j' hj0 hj r1 r2 hh
    simp only [rbyte] at r3 ⊢
    rw [if_neg hna]; exact r3

theorem memXpand_fst (fx : Fixes) (w : Words) (fail : Nat → Bool) (t : MemType) (s : St) :
    (memXpand fx w fail t s).1 = (expand fx w fail (s.nz t) t (decide (t = .USUB)) s).1 := by
  rw [memXpand_eq]
  cases h : expand fx w fail (s.nz t) t (decide (t = .USUB)) s with
  | mk s1 r => cases r <;> rfl

/-- growing an array inside a workspace: invariant kept, no capacity shrinks, every byte of every old
capacity survives -/
theorem grow_user {β : Type} (w : Words) (hw : w.Ok) (hld : w.liw ≤ w.dw) (fail : Nat → Bool) (t : MemType) (s : St)
    (hinv : Inv w s) (nl : Int) (h : (expand_fixed w fail (s.nz t) t (decide (t = .USUB)) s).2 = some nl) :
    Inv w (expand_fixed w fail (s.nz t) t (decide (t = .USUB)) s).1 ∧
    (∀ t', s.cap t' ≤ (expand_fixed w fail (s.nz t) t (decide (t = .USUB)) s).1.cap t') ∧
    (∀ (σ : Store β) (len : Int) (t' : MemType) (j : Int), 0 ≤ j → j < s.cap t' * w.lword t' →
      rbyte (moveStore w t len s (expand_fixed w fail (s.nz t) t (decide (t = .USUB)) s).1 σ)
        (expand_fixed w fail (s.nz t) t (decide (t = .USUB)) s).1 t' j = rbyte σ s t' j) := by
  have hu := hinv.user
  have hne : s.nexp ≠ 0 := ne_of_gt hinv.nexp
  have hI : Inv w (expand_fixed w fail (s.nz t) t (decide (t = .USUB)) s).1 := by
    have := memXpand_inv fixed rfl rfl w hw hld fail t s hinv
    rwa [memXpand_fst] at this
  refine ⟨hI, ?_, ?_⟩
  · simp only [expand_fixed] at h ⊢
    rw [expand_user_later _ _ _ _ _ _ _ hu hne] at h ⊢
    cases hf : userFound fixed w (s.nz t) t (decide (t = .USUB)) s with
    | none => rw [hf] at h; simp at h
    | some r =>
      rw [hf] at h; simp at h; subst h
      simp only []
      by_cases ht : t = .USUB
      · subst ht
        simp only [userFound, decide_true, if_true] at hf
        split at hf
        · simp at hf
        · simp at hf; subst hf
          intro t'; cases t' <;> simp [shiftAfter, St.setCap, St.cap, St.nz]
          exact hinv.capBU
      · simp only [userFound, ht, decide_false, Bool.false_eq_true, if_false] at hf
        obtain ⟨_, h2⟩ := userSearch_spec _ _ _ _ _ _ _ _ _ hf
        have hgt : s.nz t < r := by
          rcases h2 with h2 | h2
          · rw [h2]; exact firstLen_gt_of_d10 fixed rfl _
          · exact h2 rfl
        intro t'
        cases t <;> cases t' <;> simp_all [shiftAfter, St.setCap, St.cap, St.nz] <;> omega
  · intro σ len t' j hj0 hj
    -- this is `expand_preserves_contents_workspace`
    simp only [expand_fixed] at h ⊢
    rw [expand_user_later _ _ _ _ _ _ _ hu hne] at h ⊢
    cases hf : userFound fixed w (s.nz t) t (decide (t = .USUB)) s with
    | none => rw [hf] at h; simp at h
    | some r =>
      rw [hf] at h; simp at h; subst h
      simp only []
      by_cases ht : t = .USUB
      · subst ht
        simp only [userFound, decide_true, if_true] at hf
        split at hf
        · simp at hf
        · simp at hf; subst hf
          have := shift_preserves w hw .USUB (s.nz .USUB) s hinv (by simp [St.cap, St.nz]; exact hinv.capBU) σ len t' j hj0 hj
          simpa [shiftAfter] using this
      · have hnz : s.nz t = s.cap t := by cases t <;> simp_all [St.nz, St.cap]
        simp only [userFound, ht, decide_false, Bool.false_eq_true, if_false] at hf
        obtain ⟨_, h2⟩ := userSearch_spec _ _ _ _ _ _ _ _ _ hf
        have hgt : s.nz t < r := by
          rcases h2 with h2 | h2
          · rw [h2]; exact firstLen_gt_of_d10 fixed rfl _
          · exact h2 rfl
        rw [hnz] at hgt ⊢
        exact shift_preserves w hw t r s hinv (le_of_lt hgt) σ len t' j hj0 hj

theorem expand_sys_keep_len (fx : Fixes) (w : Words) (fail : Nat → Bool) (prev : Int) (t : MemType) (s : St)
    (hu : s.user = false) (hn : s.nexp ≠ 0) (nl : Int) (h : (expand fx w fail prev t true s).2 = some nl) :
    nl = prev := by
  unfold expand at h
  rw [if_neg hn, if_pos hu, if_pos rfl] at h
  by_cases hfl : fail s.mallocs = true
  · simp [hfl] at h
  · simp [hfl] at h; exact h.symm

/-- growing an array under library allocation -/
theorem grow_sys {β : Type} (w : Words) (hw : w.Ok) (fail : Nat → Bool) (t : MemType) (s : St)
    (hg : SysInv s ∧ 0 ≤ s.capB ∧ s.capB ≤ s.capU ∧ 0 ≤ s.capL ∧ 0 ≤ s.capS) (nl : Int)
    (h : (expand_fixed w fail (s.nz t) t (decide (t = .USUB)) s).2 = some nl) :
    (SysInv (expand_fixed w fail (s.nz t) t (decide (t = .USUB)) s).1 ∧
      0 ≤ (expand_fixed w fail (s.nz t) t (decide (t = .USUB)) s).1.capB ∧
      (expand_fixed w fail (s.nz t) t (decide (t = .USUB)) s).1.capB ≤ (expand_fixed w fail (s.nz t) t (decide (t = .USUB)) s).1.capU ∧
      0 ≤ (expand_fixed w fail (s.nz t) t (decide (t = .USUB)) s).1.capL ∧
      0 ≤ (expand_fixed w fail (s.nz t) t (decide (t = .USUB)) s).1.capS) ∧
    (∀ t', s.cap t' ≤ (expand_fixed w fail (s.nz t) t (decide (t = .USUB)) s).1.cap t') ∧
    (∀ (σ : Store β) (len : Int) (t' : MemType) (j : Int), 0 ≤ j → (t' = t → j < len * w.lword t) →
      rbyte (moveStore w t len s (expand_fixed w fail (s.nz t) t (decide (t = .USUB)) s).1 σ)
        (expand_fixed w fail (s.nz t) t (decide (t = .USUB)) s).1 t' j = rbyte σ s t' j) := by
  obtain ⟨hsys, hB0, hBU, hL0, hS0⟩ := hg
  have hu := hsys.user
  have hne : s.nexp ≠ 0 := ne_of_gt hsys.nexp
  simp only [expand_fixed] at h ⊢
  have hlen : s.cap t ≤ nl ∧ (t = .USUB → nl = s.capU) := by
    by_cases ht : t = .USUB
    · subst ht
      have := expand_sys_keep_len fixed w fail _ _ s hu hne nl (by simpa using h)
      simp [St.nz, St.cap] at this ⊢; omega
    · have hdec : decide (t = MemType.USUB) = false := by simp [ht]
      rw [hdec] at h
      have := expand_progress_of fixed rfl w fail _ t s hne nl h
      have hnz : s.nz t = s.cap t := by cases t <;> simp_all [St.nz, St.cap]
      exact ⟨by omega, fun h' => absurd h' ht⟩
  obtain ⟨hge, hus⟩ := hlen
  obtain ⟨p1, p2, p3⟩ := sys_preserves (β := Unit) fixed w fail (s.nz t) t (decide (t = .USUB)) s hsys nl h (fun _ _ => ()) 0
  obtain ⟨c, hc, hshape⟩ := expand_sys_shape fixed w fail (s.nz t) t (decide (t = .USUB)) s hu hne nl h
  refine ⟨⟨p1, ?_⟩, ?_, ?_⟩
  · rw [hshape]
    cases t <;> simp_all [St.setOff, St.setCap, St.cap] <;> omega
  · rw [hshape]; intro t'
    cases t <;> cases t' <;> simp_all [St.setOff, St.setCap, St.cap]
  · intro σ len t' j hj0 hj
    obtain ⟨_, q2, q3⟩ := sys_preserves fixed w fail (s.nz t) t (decide (t = .USUB)) s hsys nl h σ len
    by_cases ht' : t' = t
    · subst ht'; exact q2 j hj0 (hj rfl)
    · exact q3 t' ht' j

/-- growing keeps the simulation (either mode) -/
theorem sim_grow {β : Type} (w : Words) (hw : w.Ok) (hld : w.liw ≤ w.dw) (fail : Nat → Bool) (a : Abs β) (s : St)
    (σ : Store β) (hg : GoodInv w s) (hs : Sim w a s σ) (t : MemType) (len nl : Int)
    (h : (expand_fixed w fail (s.nz t) t (decide (t = .USUB)) s).2 = some nl) :
    GoodInv w (expand_fixed w fail (s.nz t) t (decide (t = .USUB)) s).1 ∧
    Sim w (astep w a (.grow t len)) (expand_fixed w fail (s.nz t) t (decide (t = .USUB)) s).1
      (moveStore w t len s (expand_fixed w fail (s.nz t) t (decide (t = .USUB)) s).1 σ) := by
  rcases hg with hinv | hsys
  · obtain ⟨g1, g2, g3⟩ := grow_user (β := β) w hw hld fail t s hinv nl h
    refine ⟨Or.inl g1, ?_⟩
    intro t' j b hb
    simp only [astep] at hb
    split at hb
    · simp at hb
    · obtain ⟨r1, r2, r3⟩ := hs t' j b hb
      refine ⟨r1, ?_, ?_⟩
      · have := Int.mul_le_mul_of_nonneg_right (g2 t') (le_of_lt (hw.lword_pos t'))
        omega
      · rw [g3 σ len t' j r1 r2]; exact r3
  · obtain ⟨g1, g2, g3⟩ := grow_sys (β := β) w hw fail t s hsys nl h
    refine ⟨Or.inr g1, ?_⟩
    intro t' j b hb
    simp only [astep] at hb
    split at hb
    · simp at hb
    · rename_i hcond
      obtain ⟨r1, r2, r3⟩ := hs t' j b hb
      refine ⟨r1, ?_, ?_⟩
      · have := Int.mul_le_mul_of_nonneg_right (g2 t') (le_of_lt (hw.lword_pos t'))
        omega
      · rw [g3 σ len t' j r1 ?_]; exact r3
        intro ht'
        by_contra hlt
        exact hcond ⟨ht', fun hh => hlt hh.2⟩

/-- **one client operation**: if the concrete machine accepts it, invariant and simulation carry over -/
theorem refine_step {β : Type} (w : Words) (hw : w.Ok) (hld : w.liw ≤ w.dw) (fail : Nat → Bool) (a : Abs β)
    (x y : St × Store β) (op : COp β) (hg : GoodInv w x.1) (hs : Sim w a x.1 x.2)
    (h : cstep w fail x op = some y) : GoodInv w y.1 ∧ Sim w (astep w a op) y.1 y.2 := by
  cases op with
  | write t j b =>
    simp only [cstep] at h
    split at h
    · rename_i hc
      injection h with h; subst h
      exact ⟨hg, sim_write w hw a x.1 x.2 hg hs t j b hc.1 hc.2⟩
    · simp at h
  | grow t len =>
    simp only [cstep] at h
    cases he : expand_fixed w fail (x.1.nz t) t (decide (t = .USUB)) x.1 with
    | mk s' r =>
      rw [he] at h
      cases r with
      | none => simp at h
      | some nl =>
        simp only [] at h
        injection h with h; subst h
        have h2 : (expand_fixed w fail (x.1.nz t) t (decide (t = .USUB)) x.1).2 = some nl := by rw [he]
        have := sim_grow w hw hld fail a x.1 x.2 hg hs t len nl h2
        rw [he] at this
        exact this

/-- **`mem_refines_growlist`**: any client operation sequence that the concrete machine carries through —
in a workspace of whatever length/alignment or under library allocation with whatever failures — ends
in a state that simulates the abstract lists. -/
theorem refine_run {β : Type} (w : Words) (hw : w.Ok) (hld : w.liw ≤ w.dw) (fail : Nat → Bool) (ops : List (COp β)) :
    ∀ (a : Abs β) (x y : St × Store β), GoodInv w x.1 → Sim w a x.1 x.2 → crun w fail x ops = some y →
      GoodInv w y.1 ∧ Sim w (arun w a ops) y.1 y.2 := by
  induction ops with
  | nil =>
    intro a x y hg hs h
    simp only [crun] at h; injection h with h; subst h
    exact ⟨hg, hs⟩
  | cons op ops ih =>
    intro a x y hg hs h
    simp only [crun] at h
    cases hc : cstep w fail x op with
    | none => rw [hc] at h; simp at h
    | some z =>
      rw [hc] at h
      obtain ⟨g1, s1⟩ := refine_step w hw hld fail a x z op hg hs hc
      exact ih (astep w a op) z y g1 s1 h

end Slu.Mem
