import SluProofs.Lemmas.LU
import SluProofs.Lemmas.Pivot
/-
Invariant of the column LU `Slu.LU.step` / `luFactor` and its preservation.
-/
namespace Slu.LU
open Slu

variable {K : Type} [Field K] [Mag K Rat]

/-- the list of (pivot row, L column) pairs of the first `k` columns -/
def prev (st : St K) (k : Nat) : List (Nat × Vec K) :=
  (List.range k).map fun t => (st.piv.getD t 0, st.L.getD t #[])

/-- laws of the magnitude function that the proofs use -/
structure MagLaws (K : Type) [Field K] [Mag K Rat] : Prop where
  nonneg : ∀ x : K, 0 ≤ (Mag.abs1 x : Rat)
  zero : (Mag.abs1 (0 : K) : Rat) = 0
  definite : ∀ x : K, (Mag.abs1 x : Rat) = 0 → x = 0

/-- what holds after `j` columns have been factored without meeting a zero pivot -/
structure Inv (P : Params K Rat) (st : St K) (j : Nat) : Prop where
  sizes : st.piv.size = j ∧ st.L.size = j ∧ st.U.size = j
  lsize : ∀ k < j, (st.L.getD k #[]).size = P.m
  prange : ∀ k < j, st.piv.getD k 0 < P.m
  usize : ∀ k < j, (st.U.getD k #[]).size = k + 1
  udiag : ∀ k < j, (st.U.getD k #[]).getD k 0 ≠ 0
  ident : ∀ k < j, ∀ i < P.m, (P.col k).get i = dotL (st.U.getD k #[]).toList (prev st (k + 1)) i
  unit : UnitLower (prev st j)
  nodup : st.piv.toList.Nodup
  /-- threshold pivoting: `u * |numerator of the multiplier| <= |pivot|` for every candidate row -/
  mult : ∀ k < j, ∀ i ∈ P.order k, i ∉ st.piv.toList.take k →
    P.u * (Mag.abs1 ((st.L.getD k #[]).get i * (st.U.getD k #[]).getD k 0) : Rat) ≤ (Mag.abs1 ((st.U.getD k #[]).getD k 0) : Rat)

theorem prev_push (st : St K) (p : Nat) (l : Vec K) (uc : Array K) (b : Bool) (k : Nat) (hk : k ≤ st.piv.size)
    (hL : st.L.size = st.piv.size) :
    prev { piv := st.piv.push p, L := st.L.push l, U := st.U.push uc, usepr := b, info := 0 } k = prev st k := by
  unfold prev
  apply List.map_congr_left
  intro t ht
  have ht' : t < k := List.mem_range.mp ht
  have h1 : t < st.piv.size := by omega
  have h2 : t < st.L.size := by omega
  simp [Array.getD, Array.getElem_push, h1, h2, Nat.lt_succ_of_lt h1, Nat.lt_succ_of_lt h2]

theorem prev_succ (st : St K) (k : Nat) :
    prev st (k + 1) = prev st k ++ [(st.piv.getD k 0, st.L.getD k #[])] := by
  simp [prev, List.range_succ]

theorem dotL_append (us us' : List K) (Ls Ls' : List (Nat × Vec K)) (i : Nat) (h : us.length = Ls.length) :
    dotL (us ++ us') (Ls ++ Ls') i = dotL us Ls i + dotL us' Ls' i := by
  induction us generalizing Ls with
  | nil => cases Ls with
    | nil => simp
    | cons _ _ => simp at h
  | cons u us ih => cases Ls with
    | nil => simp at h
    | cons pl Ls => simp at h; simp [ih Ls h]; ring

theorem unitLower_append (Ls : List (Nat × Vec K)) (p : Nat) (l : Vec K) (h : UnitLower Ls)
    (h1 : l.get p = 1) (h0 : ∀ pl ∈ Ls, l.get pl.1 = 0) : UnitLower (Ls ++ [(p, l)]) := by
  induction Ls with
  | nil => simp [UnitLower, h1]
  | cons pl rest ih =>
    obtain ⟨q, lq⟩ := pl
    obtain ⟨ha, hb, hc⟩ := h
    refine ⟨ha, ?_, ih hc (fun pl hpl => h0 pl (List.mem_cons_of_mem _ hpl))⟩
    intro pl hpl
    rcases List.mem_append.mp hpl with hpl | hpl
    · exact hb pl hpl
    · simp at hpl; subst hpl; exact h0 (q, lq) List.mem_cons_self

end Slu.LU

namespace Slu.LU
open Slu
variable {K : Type} [Field K] [Mag K Rat]

theorem map_get (w : Vec K) (f : K → K) (i : Nat) (hi : i < w.size) : Vec.get (w.map f) i = f (w.get i) := by
  simp [Vec.get, Array.getD, hi]

theorem prev_length (st : St K) (k : Nat) : (prev st k).length = k := by simp [prev]

theorem mem_prev (st : St K) (k : Nat) (pl : Nat × Vec K) (h : pl ∈ prev st k) :
    ∃ t < k, pl = (st.piv.getD t 0, st.L.getD t #[]) := by
  simp only [prev, List.mem_map, List.mem_range] at h
  obtain ⟨t, ht, rfl⟩ := h
  exact ⟨t, ht, rfl⟩

/-- eliminated column, multipliers, candidates and pivot decision of column `j` -/
def stepW (P : Params K Rat) (st : St K) (j : Nat) : Vec K := (elim (prev st j) (P.col j)).1
def stepUs (P : Params K Rat) (st : St K) (j : Nat) : List K := (elim (prev st j) (P.col j)).2
def stepCands (P : Params K Rat) (st : St K) (j : Nat) : List (Nat × K) :=
  ((P.order j).filter (fun r => !(st.piv.contains r))).map fun r => (r, (stepW P st j).get r)
def stepOut (P : Params K Rat) (st : St K) (j : Nat) : PivotOut :=
  pivotChoice (R := Rat) j (stepCands P st j) (fun p => P.u * p) st.usepr (P.oldPiv j) (P.diagRow j)

/-- the new state produced by `step` -/
theorem step_unfold (P : Params K Rat) (st : St K) (j : Nat) (h0 : st.info = 0) :
    step P st j =
      if (stepOut P st j).info ≠ 0 then { st with info := (stepOut P st j).info, usepr := false } else
      { piv := st.piv.push (stepOut P st j).row,
        L := st.L.push ((stepW P st j).map (· * (1 / (stepW P st j).get (stepOut P st j).row))),
        U := st.U.push ((stepUs P st j ++ [(stepW P st j).get (stepOut P st j).row]).toArray),
        usepr := (stepOut P st j).usepr, info := 0 } := by
  unfold step stepOut stepCands stepW stepUs
  simp only [h0, ne_eq, not_true_eq_false, if_false, prev]
  rfl

/-- **Preservation.** One successful column step re-establishes the invariant. -/
theorem step_inv (laws : MagLaws K) (P : Params K Rat) (hu0 : 0 ≤ P.u) (hu1 : P.u ≤ 1)
    (hcol : ∀ j, (P.col j).size = P.m) (st : St K) (j : Nat) (h : Inv P st j) (h0 : st.info = 0)
    (h1 : (step P st j).info = 0) : Inv P (step P st j) (j + 1) := by
  have hstep := step_unfold P st j h0
  set w := stepW P st j with hw
  set us := stepUs P st j with hus
  set cands := stepCands P st j with hc
  set o := stepOut P st j with ho
  have hoinfo : o.info = 0 := by
    by_contra hne
    rw [hstep, if_pos hne] at h1
    exact hne h1
  rw [hstep, if_neg (by simpa using hoinfo)]
  -- the chosen candidate
  obtain ⟨c, hcget, hrow, hnz, hdom⟩ := pivotChoice_ok j cands P.u hu0 hu1 st.usepr (P.oldPiv j) (P.diagRow j) (by simpa [ho, stepOut, hc] using hoinfo)
  have hcmem : c ∈ cands := List.mem_of_getElem? hcget
  simp only [hc, stepCands, List.mem_map, List.mem_filter] at hcmem
  obtain ⟨r, ⟨_hr_order, hr_notpiv⟩, hcr⟩ := hcmem
  have hp : o.row = r := by
    have : o.row = c.1 := by simpa [ho, stepOut, hc] using hrow
    rw [this, ← hcr]
  have hval : c.2 = w.get r := by rw [← hcr]
  have hwsize : w.size = P.m := by rw [hw, stepW, elim_size, hcol]
  have hpivne : w.get r ≠ 0 := by
    intro hz; apply hnz; rw [hval, hz]; exact laws.zero
  have hr_lt : r < P.m := by
    by_contra hge
    exact hpivne (get_of_size_le w r (by omega))
  have hnotmem : r ∉ st.piv.toList := by
    simp only [Bool.not_eq_true', Array.contains_eq_mem, decide_eq_false_iff_not] at hr_notpiv
    simpa using hr_notpiv
  obtain ⟨hs1, hs2, hs3⟩ := h.sizes
  have huslen : us.length = j := by rw [hus, stepUs, elim_length, prev_length]
  rw [hp]
  set l : Vec K := w.map (· * (1 / w.get r)) with hl
  have hlget : ∀ i < P.m, l.get i = w.get i * (1 / w.get r) := fun i hi => map_get w _ i (by omega)
  -- rows where the eliminated vector vanishes
  have hzero : ∀ pl ∈ prev st j, w.get pl.1 = 0 := by
    have := (elim_zero_at_pivots (prev st j) (P.col j) h.unit
      (by
        intro pl hpl
        obtain ⟨t, ht, rfl⟩ := mem_prev st j pl hpl
        rw [hcol]; exact h.prange t ht)
      [] (by simp) (by simp)).1
    exact this
  -- the new state
  set st' : St K := { piv := st.piv.push r, L := st.L.push l, U := st.U.push ((us ++ [w.get r]).toArray), usepr := o.usepr, info := 0 } with hst'
  have hprev : ∀ k ≤ j, prev st' k = prev st k := fun k hk => prev_push st r l _ _ k (by omega) (by omega)
  have hpivj : st'.piv.getD j 0 = r := by simp [hst', Array.getD, hs1, Array.getElem_push]
  have hLj : st'.L.getD j #[] = l := by simp [hst', Array.getD, hs2, Array.getElem_push]
  have hUj : st'.U.getD j #[] = (us ++ [w.get r]).toArray := by simp [hst', Array.getD, hs3, Array.getElem_push]
  have hpivk : ∀ k < j, st'.piv.getD k 0 = st.piv.getD k 0 := by
    intro k hk; simp [hst', Array.getD, Array.getElem_push, hs1, hk, Nat.lt_succ_of_lt hk]
  have hLk : ∀ k < j, st'.L.getD k #[] = st.L.getD k #[] := by
    intro k hk; simp [hst', Array.getD, Array.getElem_push, hs2, hk, Nat.lt_succ_of_lt hk]
  have hUk : ∀ k < j, st'.U.getD k #[] = st.U.getD k #[] := by
    intro k hk; simp [hst', Array.getD, Array.getElem_push, hs3, hk, Nat.lt_succ_of_lt hk]
  have hprevsucc : prev st' (j + 1) = prev st j ++ [(r, l)] := by
    rw [prev_succ, hprev j (le_refl _), hpivj, hLj]
  have hUjj : (st'.U.getD j #[]).getD j 0 = w.get r := by rw [hUj]; simp [Array.getD, huslen]
  refine ⟨?_, ?_, ?_, ?_, ?_, ?_, ?_, ?_, ?_⟩
  · simp [hst', hs1, hs2, hs3]
  · intro k hk
    rcases Nat.lt_succ_iff_lt_or_eq.mp hk with hk | rfl
    · rw [hLk k hk]; exact h.lsize k hk
    · rw [hLj, hl]; simp [hwsize]
  · intro k hk
    rcases Nat.lt_succ_iff_lt_or_eq.mp hk with hk | rfl
    · rw [hpivk k hk]; exact h.prange k hk
    · rw [hpivj]; exact hr_lt
  · intro k hk
    rcases Nat.lt_succ_iff_lt_or_eq.mp hk with hk | rfl
    · rw [hUk k hk]; exact h.usize k hk
    · rw [hUj]; simp [huslen]
  · intro k hk
    rcases Nat.lt_succ_iff_lt_or_eq.mp hk with hk | rfl
    · rw [hUk k hk]; exact h.udiag k hk
    · rw [hUj]
      simp [Array.getD, huslen]
      exact hpivne
  · intro k hk i hi
    rcases Nat.lt_succ_iff_lt_or_eq.mp hk with hk | rfl
    · rw [hUk k hk, hprev (k + 1) (by omega)]; exact h.ident k hk i hi
    · rw [hUj, hprevsucc]
      rw [dotL_append _ _ _ _ _ (by rw [huslen, prev_length])]
      have hspec := elim_spec (prev st k) (P.col k) i (by rw [hcol]; exact hi)
      rw [hspec]
      simp only [dotL_cons, dotL_nil, add_zero]
      rw [hlget i hi]
      field_simp
      rfl
  · rw [hprevsucc]
    apply unitLower_append _ _ _ h.unit
    · rw [hlget r hr_lt]; field_simp
    · intro pl hpl
      obtain ⟨t, ht, rfl⟩ := mem_prev st j pl hpl
      have hlt : st.piv.getD t 0 < P.m := h.prange t ht
      rw [hlget _ hlt, hzero _ hpl]; ring
  · simp only [hst', Array.toList_push]
    exact List.nodup_append.mpr ⟨h.nodup, by simp, by
      intro a ha b hb
      simp at hb; subst hb
      intro hab; subst hab; exact hnotmem ha⟩
  · intro k hk i hi hnot
    have hlen : st.piv.toList.length = j := by simpa using hs1
    rcases Nat.lt_succ_iff_lt_or_eq.mp hk with hk | rfl
    · rw [hLk k hk, hUk k hk]
      apply h.mult k hk i hi
      simpa [hst', Array.toList_push, List.take_append_of_le_length (show k ≤ st.piv.toList.length by omega)] using hnot
    · rw [hLj, hUjj]
      have hnot' : i ∉ st.piv.toList := by
        have h2 : (st'.piv.toList).take k = st.piv.toList := by
          simp only [hst', Array.toList_push]
          rw [List.take_append_of_le_length (by omega), List.take_of_length_le (by omega)]
        rw [h2] at hnot; exact hnot
      have hmem : (i, w.get i) ∈ cands := by
        simp only [hc, stepCands, List.mem_map, List.mem_filter]
        exact ⟨i, ⟨hi, by simpa using hnot'⟩, by rw [hw]⟩
      have hd := hdom (i, w.get i) (by simpa [ho, stepOut, hc] using hmem)
      rw [hval] at hd
      have hnum : l.get i * w.get r = w.get i := by
        by_cases hlt : i < P.m
        · rw [hlget i hlt]; field_simp
        · rw [get_of_size_le l i (by rw [hl]; simp [hwsize]; omega), get_of_size_le w i (by omega)]; ring
      rw [hnum]; exact hd

end Slu.LU

namespace Slu.LU
open Slu
variable {K : Type} [Field K] [Mag K Rat]

/-- the state after the first `j` columns -/
def run (P : Params K Rat) (b : Bool) (j : Nat) : St K := (List.range j).foldl (step P) { usepr := b }

theorem run_zero (P : Params K Rat) (b : Bool) : run P b 0 = { usepr := b } := by simp [run]

theorem run_succ (P : Params K Rat) (b : Bool) (j : Nat) : run P b (j + 1) = step P (run P b j) j := by
  simp [run, List.range_succ, List.foldl_append]

theorem luFactor_eq_run (P : Params K Rat) (b : Bool) : luFactor P b = run P b P.n := rfl

theorem step_stuck (P : Params K Rat) (st : St K) (j : Nat) (h : st.info ≠ 0) : step P st j = st := by
  simp [step, h]

theorem run_info_pred (P : Params K Rat) (b : Bool) (j : Nat) (h : (run P b (j + 1)).info = 0) :
    (run P b j).info = 0 := by
  by_contra hne
  rw [run_succ, step_stuck P _ j hne] at h
  exact hne h

theorem run_info_le (P : Params K Rat) (b : Bool) (j k : Nat) (hk : k ≤ j) (h : (run P b j).info = 0) :
    (run P b k).info = 0 := by
  induction j with
  | zero => have : k = 0 := by omega
            subst this; exact h
  | succ j ih =>
    rcases Nat.lt_succ_iff_lt_or_eq.mp (Nat.lt_succ_of_le hk) with hlt | rfl
    · exact ih (by omega) (run_info_pred P b j h)
    · exact h

theorem inv_init (P : Params K Rat) (b : Bool) : Inv P ({ usepr := b } : St K) 0 := by
  refine ⟨by simp, ?_, ?_, ?_, ?_, ?_, ?_, by simp, ?_⟩ <;> try (intro k hk; omega)
  simp [prev, UnitLower]

/-- **Invariant on every reachable state.** -/
theorem run_inv (laws : MagLaws K) (P : Params K Rat) (hu0 : 0 ≤ P.u) (hu1 : P.u ≤ 1)
    (hcol : ∀ j, (P.col j).size = P.m) (b : Bool) (j : Nat) (h : (run P b j).info = 0) :
    Inv P (run P b j) j := by
  induction j with
  | zero => rw [run_zero]; exact inv_init P b
  | succ j ih =>
    have hj := run_info_pred P b j h
    rw [run_succ] at h ⊢
    exact step_inv laws P hu0 hu1 hcol _ j (ih hj) hj h

end Slu.LU

namespace Slu.LU
open Slu
variable {K : Type} [Field K]

theorem dotL_range' (us : List K) (g : Nat → Nat × Vec K) (s k : Nat) (i : Nat) (h : us.length = k) :
    dotL us ((List.range' s k).map g) i = ((List.range k).map fun t => us.getD t 0 * (g (s + t)).2.get i).sum := by
  induction k generalizing us s with
  | zero => cases us with
    | nil => simp
    | cons _ _ => simp at h
  | succ k ih =>
    cases us with
    | nil => simp at h
    | cons u us =>
      simp at h
      rw [List.range'_succ, List.map_cons, dotL_cons, ih us (s + 1) h, List.range_succ_eq_map]
      simp [Nat.add_assoc, Nat.add_comm 1]
      congr 1

theorem dotL_prev (st : St K) (us : List K) (k i : Nat) (h : us.length = k) :
    dotL us (prev st k) i = ((List.range k).map fun t => us.getD t 0 * (st.L.getD t #[]).get i).sum := by
  have := dotL_range' us (fun t => (st.piv.getD t 0, st.L.getD t #[])) 0 k i h
  simpa [prev, List.range_eq_range'] using this
end Slu.LU
