import SluProofs.Lemmas.LU
import SluProofs.Lemmas.Pivot
/-
Invariant of the column LU `Slu.LU.step` / `luFactor` and its preservation.
-/
namespace Slu.LU
open Slu

variable {K : Type} [Field K] [Mag K Rat]

/-- the list of (pivot row, L column) pairs of the first `k` columns -/
def prev (st : St K) (k : Nat) : List (Nat × Vec K) :=
  (List.range k).map fun t => (st.piv.getD t 0, st.L.getD t #[])

/-- laws of the magnitude function that the proofs use -/
structure MagLaws (K : Type) [Field K] [Mag K Rat] : Prop where
  nonneg : ∀ x : K, 0 ≤ (Mag.abs1 x : Rat)
  zero : (Mag.abs1 (0 : K) : Rat) = 0

/-- what holds after `j` columns have been factored without meeting a zero pivot -/
structure Inv (P : Params K Rat) (st : St K) (j : Nat) : Prop where
  sizes : st.piv.size = j ∧ st.L.size = j ∧ st.U.size = j
  lsize : ∀ k < j, (st.L.getD k #[]).size = P.m
  prange : ∀ k < j, st.piv.getD k 0 < P.m
  usize : ∀ k < j, (st.U.getD k #[]).size = k + 1
  udiag : ∀ k < j, (st.U.getD k #[]).getD k 0 ≠ 0
  ident : ∀ k < j, ∀ i < P.m, (P.col k).get i = dotL (st.U.getD k #[]).toList (prev st (k + 1)) i
  unit : UnitLower (prev st j)
  nodup : st.piv.toList.Nodup

theorem prev_push (st : St K) (p : Nat) (l : Vec K) (uc : Array K) (b : Bool) (k : Nat) (hk : k ≤ st.piv.size)
    (hL : st.L.size = st.piv.size) :
    prev { piv := st.piv.push p, L := st.L.push l, U := st.U.push uc, usepr := b, info := 0 } k = prev st k := by
  unfold prev
  apply List.map_congr_left
  intro t ht
  have ht' : t < k := List.mem_range.mp ht
  have h1 : t < st.piv.size := by omega
  have h2 : t < st.L.size := by omega
  simp [Array.getD, Array.getElem_push, h1, h2, Nat.lt_succ_of_lt h1, Nat.lt_succ_of_lt h2]

theorem prev_succ (st : St K) (k : Nat) :
    prev st (k + 1) = prev st k ++ [(st.piv.getD k 0, st.L.getD k #[])] := by
  simp [prev, List.range_succ]

theorem dotL_append (us us' : List K) (Ls Ls' : List (Nat × Vec K)) (i : Nat) (h : us.length = Ls.length) :
    dotL (us ++ us') (Ls ++ Ls') i = dotL us Ls i + dotL us' Ls' i := by
  induction us generalizing Ls with
  | nil => cases Ls with
    | nil => simp
    | cons _ _ => simp at h
  | cons u us ih => cases Ls with
    | nil => simp at h
    | cons pl Ls => simp at h; simp [ih Ls h]; ring

theorem unitLower_append (Ls : List (Nat × Vec K)) (p : Nat) (l : Vec K) (h : UnitLower Ls)
    (h1 : l.get p = 1) (h0 : ∀ pl ∈ Ls, l.get pl.1 = 0) : UnitLower (Ls ++ [(p, l)]) := by
  induction Ls with
  | nil => simp [UnitLower, h1]
  | cons pl rest ih =>
    obtain ⟨q, lq⟩ := pl
    obtain ⟨ha, hb, hc⟩ := h
    refine ⟨ha, ?_, ih hc (fun pl hpl => h0 pl (List.mem_cons_of_mem _ hpl))⟩
    intro pl hpl
    rcases List.mem_append.mp hpl with hpl | hpl
    · exact hb pl hpl
    · simp at hpl; subst hpl; exact h0 (q, lq) List.mem_cons_self

end Slu.LU
