import Slu.Model.Order
import SluProofs.Lemmas.Order
import Mathlib.Algebra.BigOperators.Group.Finset.Basic
import Mathlib.Algebra.BigOperators.Intervals
import Mathlib.Tactic.Choose
/-
Lemmas for `relaxSnode_ranges` (C10): the `descendants` array of relax_snode.c is the true number of
proper descendants; on a postordered forest every relaxed supernode is the whole subtree of its last
column and every leaf lies in one.
-/
namespace Slu.Order
open Finset

/-! ### `descendants` counts the proper descendants -/

theorem sum_map_filter_range (m : Nat) (p : Nat → Bool) (g : Nat → Nat) :
    (((List.range m).filter p).map g).sum = ∑ c ∈ range m, if p c then g c else 0 := by
  induction m with
  | zero => simp
  | succ m ih =>
    rw [List.range_succ, List.filter_append, List.map_append, List.sum_append, ih, Finset.sum_range_succ]
    cases hp : p m <;> simp [hp]

theorem order_length_rec (et : Array Nat) (v : Nat) :
    (order et v).length = (∑ c ∈ range v, if et.getD c 0 = v then (order et c).length else 0) + 1 := by
  rw [order_eq, List.length_append, List.length_flatMap]
  simp only [List.length_singleton, kids]
  congr 1
  have := sum_map_filter_range v (fun c => et.getD c 0 == v) (fun c => (order et c).length)
  simp only [beq_iff_eq] at this
  rw [← this]

theorem order_length_pos (et : Array Nat) (v : Nat) : 1 ≤ (order et v).length := by
  rw [order_length_rec]; omega

/-- first `m` steps of the accumulation loop -/
def descTo (n : Nat) (et : Array Nat) (m : Nat) : Array Nat :=
  (List.range m).foldl (fun d j =>
    let p := et.getD j 0
    if p ≠ n then d.setIfInBounds p (d.getD p 0 + d.getD j 0 + 1) else d) (Array.replicate (n + 1) 0)

theorem descTo_succ (n : Nat) (et : Array Nat) (m : Nat) :
    descTo n et (m + 1) =
      (if et.getD m 0 ≠ n then (descTo n et m).setIfInBounds (et.getD m 0)
        ((descTo n et m).getD (et.getD m 0) 0 + (descTo n et m).getD m 0 + 1) else descTo n et m) := by
  simp [descTo, List.range_succ, List.foldl_append]

theorem descTo_inv {n : Nat} {et : Array Nat} (h : Heap n et) (m : Nat) (hm : m ≤ n) :
    (descTo n et m).size = n + 1 ∧
    ∀ v, v < n → (descTo n et m).getD v 0 = ∑ c ∈ range m, if et.getD c 0 = v then (order et c).length else 0 := by
  induction m with
  | zero =>
    refine ⟨by simp [descTo], fun v hv => ?_⟩
    simp only [descTo, List.range_zero, List.foldl_nil, Array.getD_eq_getD_getElem?, Array.getElem?_replicate,
      Finset.range_zero, Finset.sum_empty]
    split <;> rfl
  | succ m ih =>
    obtain ⟨hs, hv⟩ := ih (by omega)
    have hmn : m < n := by omega
    rw [descTo_succ]
    by_cases hp : et.getD m 0 = n
    · simp only [hp, ne_eq, not_true_eq_false, if_false]
      refine ⟨hs, fun v hvn => ?_⟩
      rw [hv v hvn, Finset.sum_range_succ, hp, if_neg (by omega), Nat.add_zero]
    · simp only [ne_eq, hp, not_false_eq_true, if_true]
      obtain ⟨h1, h2⟩ := h.lt hmn
      have hpn : et.getD m 0 < n := by omega
      refine ⟨by simpa using hs, fun v hvn => ?_⟩
      rw [getD_setIfInBounds, Finset.sum_range_succ]
      -- `d[m]` is final: all children of `m` are below `m`
      have hdm : (descTo n et m).getD m 0 + 1 = (order et m).length := by
        rw [hv m hmn, order_length_rec et m]
      by_cases e : v = et.getD m 0
      · subst e
        rw [if_pos ⟨rfl, by rw [hs]; omega⟩, hv _ hpn, if_pos rfl]
        omega
      · rw [if_neg (fun c => e c.1), if_neg (fun c => e c.symm), Nat.add_zero]
        exact hv v hvn

/-- **the `descendants` array holds the number of proper descendants** (on any heap-ordered forest) -/
theorem descendants_eq {n : Nat} {et : Array Nat} (h : Heap n et) (v : Nat) (hv : v < n) :
    (descendants n et).getD v 0 + 1 = (order et v).length := by
  have hd : descendants n et = descTo n et n := rfl
  rw [hd, (descTo_inv h n (le_refl _)).2 v hv, order_length_rec et v]
  congr 1
  rw [← Finset.sum_range_add_sum_Ico _ (Nat.le_of_lt hv)]
  have : ∑ c ∈ Ico v n, (if et.getD c 0 = v then (order et c).length else 0) = 0 := by
    apply Finset.sum_eq_zero
    intro c hc
    have hc' := Finset.mem_Ico.mp hc
    have := (h.lt hc'.2).1
    rw [if_neg (by omega)]
  rw [this, Nat.add_zero]

/-! ### postordered forests -/

/-- `lo v .. v` is the subtree of `v`, for every vertex -/
def PostBy (n : Nat) (et : Array Nat) (lo : Nat → Nat) : Prop :=
  ∀ v, v < n → ∀ u, u < n → (Desc n et u v ↔ lo v ≤ u ∧ u ≤ v)

theorem desc_trans {n : Nat} {et : Array Nat} {a b c : Nat} (h1 : Desc n et a b) (h2 : Desc n et b c) :
    Desc n et a c := by
  induction h1 with
  | refl v => exact h2
  | step hu _ ih => exact Desc.step hu (ih h2)

theorem desc_lt_n {n : Nat} {et : Array Nat} {u v : Nat} (h : Desc n et u v) (hv : v < n) : u < n := by
  cases h with
  | refl _ => exact hv
  | step hu _ => exact hu

theorem PostBy.lo_le {n : Nat} {et : Array Nat} {lo : Nat → Nat} (hp : PostBy n et lo) (v : Nat) (hv : v < n) :
    lo v ≤ v := ((hp v hv v hv).mp (Desc.refl v)).1

/-- on a postordered forest the subtree of `v` has `v - lo v + 1` vertices -/
theorem PostBy.order_length {n : Nat} {et : Array Nat} {lo : Nat → Nat} (h : Heap n et) (hp : PostBy n et lo)
    (v : Nat) (hv : v < n) : (order et v).length = v - lo v + 1 := by
  have hperm : (order et v).Perm (List.range' (lo v) (v - lo v + 1)) := by
    rw [List.perm_ext_iff_of_nodup (nodup_order et v) (List.nodup_range' (step := 1) (by omega))]
    intro u
    rw [List.mem_range'_1]
    have hl := hp.lo_le v hv
    constructor
    · intro hu
      have hd := desc_of_mem_order (n := n) (Nat.le_of_lt hv) hu
      have := (hp v hv u (desc_lt_n hd hv)).mp hd
      omega
    · rintro ⟨a, b⟩
      exact mem_order_of_desc h ((hp v hv u (by omega)).mpr ⟨a, by omega⟩)
  rw [hperm.length_eq, List.length_range']

theorem PostBy.descendants {n : Nat} {et : Array Nat} {lo : Nat → Nat} (h : Heap n et) (hp : PostBy n et lo)
    (v : Nat) (hv : v < n) : (descendants n et).getD v 0 = v - lo v := by
  have := descendants_eq h v hv
  rw [hp.order_length h v hv] at this
  omega

/-! ### climbing from a leaf -/

/-- every subtree that contains `j` and something before `j` has at least `relax` proper descendants -/
def Blocked (n relax : Nat) (lo : Nat → Nat) (j : Nat) : Prop :=
  ∀ v, v < n → lo v < j → j ≤ v → relax ≤ v - lo v

theorem climb_post {n relax : Nat} {et desc : Array Nat} {lo : Nat → Nat} (h : Heap n et) (hp : PostBy n et lo)
    (hdesc : ∀ v, v < n → desc.getD v 0 = v - lo v) (j : Nat) (hK : Blocked n relax lo j) (fuel cur : Nat)
    (hcur : cur < n) (hlo : lo cur = j) (hj : j ≤ cur) :
    lo (climb n relax et desc fuel cur) = j ∧ climb n relax et desc fuel cur < n ∧
    cur ≤ climb n relax et desc fuel cur ∧
    (n - cur ≤ fuel → (et.getD (climb n relax et desc fuel cur) 0 = n ∨
      relax ≤ desc.getD (et.getD (climb n relax et desc fuel cur) 0) 0)) := by
  induction fuel generalizing cur with
  | zero => exact ⟨hlo, hcur, Nat.le_refl _, fun hc => by omega⟩
  | succ f ih =>
    unfold climb
    simp only
    split
    · rename_i hc
      obtain ⟨h1, h2⟩ := h.lt hcur
      have hpn : et.getD cur 0 < n := by omega
      have hdcp : Desc n et cur (et.getD cur 0) := Desc.step hcur (Desc.refl _)
      have hdj : Desc n et j cur := (hp cur hcur j (by omega)).mpr ⟨by omega, hj⟩
      have hlp := ((hp _ hpn j (by omega)).mp (desc_trans hdj hdcp)).1
      have hlop : lo (et.getD cur 0) = j := by
        by_contra hne
        have := hK _ hpn (by omega) (by omega)
        rw [hdesc _ hpn] at hc
        omega
      obtain ⟨a, b, c, d⟩ := ih (et.getD cur 0) hpn hlop (by omega)
      exact ⟨a, b, by omega, fun hf => d (by omega)⟩
    · rename_i hc
      refine ⟨hlo, hcur, Nat.le_refl _, fun _ => ?_⟩
      by_cases e : et.getD cur 0 = n
      · exact Or.inl e
      · right
        by_contra hlt
        exact hc ⟨e, by omega⟩

/-! ### the search for the next leaf -/

theorem find_range_spec (n : Nat) (p : Nat → Bool) :
    ((List.range n).find? p).getD n ≤ n ∧
    (((List.range n).find? p).getD n < n → p (((List.range n).find? p).getD n) = true) ∧
    ∀ k, k < ((List.range n).find? p).getD n → p k = false := by
  induction n with
  | zero => simp
  | succ n ih =>
    obtain ⟨i1, i2, i3⟩ := ih
    rw [List.range_succ, List.find?_append]
    cases hf : (List.range n).find? p with
    | some k =>
      rw [hf] at i1 i2 i3
      simp only [Option.getD_some, Option.some_or] at i1 i2 i3 ⊢
      have hk : k < n := by
        have := List.mem_of_find?_eq_some hf
        exact List.mem_range.mp this
      exact ⟨by omega, fun _ => i2 hk, i3⟩
    | none =>
      rw [hf] at i3
      simp only [Option.getD_none] at i3
      simp only [Option.none_or, List.find?_cons, List.find?_nil]
      cases hp : p n with
      | true =>
        simp only [Option.getD_some]
        exact ⟨by omega, fun _ => hp, i3⟩
      | false =>
        simp only [Option.getD_none]
        refine ⟨Nat.le_refl _, fun hc => by omega, fun k hk => ?_⟩
        by_cases e : k = n
        · subst e; exact hp
        · exact i3 k (by omega)


/-! ### the supernode loop on a postordered forest -/

theorem PostBy.lo_leaf {n : Nat} {et : Array Nat} {lo : Nat → Nat} (hp : PostBy n et lo) (v : Nat) (hv : v < n) :
    lo (lo v) = lo v := by
  have hl := hp.lo_le v hv
  have ha : lo v < n := by omega
  have h1 : Desc n et (lo v) v := (hp v hv (lo v) ha).mpr ⟨Nat.le_refl _, hl⟩
  have hla := hp.lo_le (lo v) ha
  have h2 : Desc n et (lo (lo v)) (lo v) := (hp (lo v) ha (lo (lo v)) (by omega)).mpr ⟨Nat.le_refl _, hla⟩
  have := ((hp v hv (lo (lo v)) (by omega)).mp (desc_trans h2 h1)).1
  omega

theorem PostBy.lo_mono {n : Nat} {et : Array Nat} {lo : Nat → Nat} (hp : PostBy n et lo) {q v : Nat} (hv : v < n)
    (hd : Desc n et q v) : lo v ≤ lo q ∧ q ≤ v := by
  have hq : q < n := desc_lt_n hd hv
  have hlq := hp.lo_le q hq
  have h2 : Desc n et (lo q) q := (hp q hq (lo q) (by omega)).mpr ⟨Nat.le_refl _, hlq⟩
  exact ⟨((hp v hv (lo q) (by omega)).mp (desc_trans h2 hd)).1, ((hp v hv q hq).mp hd).2⟩

/-- state of the supernode loop on a postordered forest -/
def RelaxInv2 (n relax : Nat) (desc : Array Nat) (lo : Nat → Nat) (j : Nat) (re : Array Int) : Prop :=
  re.size = n ∧ (∀ s, j ≤ s → re.getD s (-1) = -1) ∧
  (∀ s, s < j → re.getD s (-1) = -1 ∨
    ∃ e : Nat, re.getD s (-1) = Int.ofNat e ∧ s ≤ e ∧ e < j ∧ e < n ∧ lo e = s ∧ (s < e → desc.getD e 0 < relax) ∧
      ∀ t, s < t → t ≤ e → re.getD t (-1) = -1) ∧
  Blocked n relax lo j ∧ (j < n → lo j = j) ∧
  (∀ k, k < j → k < n → lo k = k → ∃ s e : Nat, s ≤ k ∧ k ≤ e ∧ re.getD s (-1) = Int.ofNat e)

theorem relaxLoop_inv2 {n relax : Nat} {et desc : Array Nat} {lo : Nat → Nat} (h : Heap n et) (hp : PostBy n et lo)
    (hdesc : ∀ v, v < n → desc.getD v 0 = v - lo v) (fuel j : Nat) (re : Array Int)
    (hinv : RelaxInv2 n relax desc lo j re) (hfuel : n + 1 ≤ fuel + j) :
    ∃ j', n ≤ j' ∧ RelaxInv2 n relax desc lo j' (relaxLoop n relax et desc fuel j re) := by
  induction fuel generalizing j re with
  | zero => exact ⟨j, by omega, hinv⟩
  | succ f ih =>
    unfold relaxLoop
    simp only
    split
    · rename_i hjn; exact ⟨j, hjn, hinv⟩
    · rename_i hjn
      have hj : j < n := by omega
      obtain ⟨hs, hhi, hlo, hK, hleaf, hcov⟩ := hinv
      obtain ⟨c1, c2, c3, c4⟩ := climb_post h hp hdesc j hK n j hj (hleaf hj) (Nat.le_refl _)
      have hstop := c4 (by omega)
      generalize hlast : climb n relax et desc n j = last at c1 c2 c3 hstop
      obtain ⟨f1, f2, f3⟩ := find_range_spec n (fun k => decide (k > last) && desc.getD k 0 == 0)
      generalize hnx : ((List.range n).find? fun k => decide (k > last) && desc.getD k 0 == 0).getD n = nxt at f1 f2 f3
      have hnxt : last < nxt := by
        by_cases hc : nxt < n
        · have := f2 hc
          simp only [Bool.and_eq_true, decide_eq_true_eq] at this
          exact this.1
        · omega
      have hnoleaf : ∀ k, last < k → k < nxt → k < n → lo k ≠ k := by
        intro k hk1 hk2 hkn hlk
        have := f3 k hk2
        have hd0 : desc.getD k 0 = 0 := by rw [hdesc k hkn, hlk]; omega
        simp [hk1, hd0] at this
      apply ih nxt _ _ (by omega)
      refine ⟨by simpa using hs, ?_, ?_, ?_, ?_, ?_⟩
      · intro s hs'
        rw [getD_setIfInBounds', if_neg (by omega)]
        exact hhi s (by omega)
      · intro s hs'
        rw [getD_setIfInBounds']
        by_cases e : s = j
        · subst e
          right
          refine ⟨last, by simp [hs, hj], c3, hnxt, c2, c1, ?_, ?_⟩
          · intro hlt
            rcases climb_spec (n := n) (relax := relax) (et := et) (desc := desc) n s with e | e
            · rw [hlast] at e; omega
            · rw [hlast] at e; exact e
          · intro t ht1 ht2
            rw [getD_setIfInBounds', if_neg (by omega)]
            exact hhi t (by omega)
        · rw [if_neg (fun c => e c.1)]
          by_cases hsj : s < j
          · rcases hlo s hsj with h1 | ⟨e', he1, he2, he3, he4, he5, he6, he7⟩
            · exact Or.inl h1
            · right
              refine ⟨e', he1, he2, by omega, he4, he5, he6, ?_⟩
              intro t ht1 ht2
              rw [getD_setIfInBounds', if_neg (by omega)]
              exact he7 t ht1 ht2
          · left; exact hhi s (by omega)
      · -- Blocked nxt
        intro v hv hlv hvn
        by_cases hlj : lo v < j
        · exact hK v hv hlj (by omega)
        · have hl := hp.lo_le v hv
          have han : lo v < n := by omega
          have haleaf := hp.lo_leaf v hv
          have hale : lo v ≤ last := by
            by_contra hgt
            exact hnoleaf (lo v) (by omega) hlv han haleaf
          -- last is a proper descendant of v
          have hdl : Desc n et last v := (hp v hv last c2).mpr ⟨hale, by omega⟩
          cases hdl with
          | refl _ => omega
          | step hl' hq =>
            have hqn : et.getD last 0 < n := by
              cases hq with
              | refl _ => exact hv
              | step hq' _ => exact hq'
            have hm := hp.lo_mono hv hq
            rcases hstop with e | e
            · omega
            · rw [hdesc _ hqn] at e
              omega
      · intro hnn
        have := f2 hnn
        simp only [Bool.and_eq_true, decide_eq_true_eq, beq_iff_eq] at this
        have hl := hp.lo_le nxt hnn
        rw [hdesc nxt hnn] at this
        omega
      · intro k hk1 hkn hlk
        by_cases hkj : k < j
        · obtain ⟨s, e, a, b, c⟩ := hcov k hkj hkn hlk
          refine ⟨s, e, a, b, ?_⟩
          rw [getD_setIfInBounds', if_neg (by omega)]
          exact c
        · by_cases hkl : k ≤ last
          · refine ⟨j, last, by omega, hkl, ?_⟩
            rw [getD_setIfInBounds', if_pos ⟨rfl, by omega⟩]
          · exact absurd hlk (hnoleaf k (by omega) hk1 hkn)

end Slu.Order
